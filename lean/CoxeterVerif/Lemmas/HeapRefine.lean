import CoxeterVerif.Lemmas.HeapValues
/-!
  Lemmas for C16: every query of the heap machine REFINES its value semantics (`Spec.answer`): it
  leaves the observables alone and what it returns is the value semantics' answer.
-/
namespace C16
open Scalar
set_option linter.unusedSectionVars false

/-- the heap program `p` (run from `s`) leaves the observables alone, answers `A`, and keeps the
`edges` cache valid -/
structure Refines (M : Meas ℝ) (s : St ℝ) (p : St ℝ × Out ℝ) (A : Answer ℝ) : Prop where
  obs : observe p.1 = observe s
  ans : answerOf p = A
  edges : ∀ i, p.1.cEdges = some i → p.1.get i = M.value "edges" (observe s)

theorem edges_kept {M : Meas ℝ} {s t : St ℝ} (hf : Frame s t) (hw : Spec.WF s) (hc : Spec.Coherent M s)
    (he : t.cEdges = s.cEdges) : ∀ i, t.cEdges = some i → t.get i = M.value "edges" (observe s) := by
  intro i hi
  rw [he] at hi
  rw [hf.get_eq i (hw.edges i hi).1 (hw.edges i hi).2]
  exact hc.edges i hi

theorem refines_same {M : Meas ℝ} {s : St ℝ} (hw : Spec.WF s) (hc : Spec.Coherent M s) (o : Out ℝ) (A : Answer ℝ)
    (h : answerOf (s, o) = A) : Refines M s (s, o) A :=
  ⟨rfl, h, edges_kept (Frame.refl s) hw hc rfl⟩

theorem refines_alloc {M : Meas ℝ} {s : St ℝ} (hw : Spec.WF s) (hc : Spec.Coherent M s) (a : Arr ℝ) (tag : Nat) :
    Refines M s (s.alloc a, ret1 tag s.next) (Spec.one tag a) :=
  ⟨observe_alloc s a hw, by simp [answerOf, ret1, Spec.one], edges_kept (Frame.alloc s a) hw hc rfl⟩

theorem answerOf_ret1 (t : St ℝ) (tag : Nat) (id : Id) :
    answerOf (t, ret1 tag id) = Spec.one tag (t.get id) := rfl

theorem getter_refines (M : Meas ℝ) (g : Getter) (s : St ℝ) (hw : Spec.WF s) (hc : Spec.Coherent M s) :
    Refines M s (getter M g s) (Spec.getterAns M s.cls (observe s) g) := by
  cases g with
  | vertices =>
    simp only [getter, Spec.getterAns]
    split <;> exact refines_same hw hc _ _ rfl
  | normal =>
    simp only [getter, Spec.getterAns]
    split <;> exact refines_same hw hc _ _ rfl
  | centroid =>
    simp only [getter, Spec.getterAns]
    split
    · exact refines_same hw hc _ _ rfl
    · cases hk : s.cls.kind <;> simp only []
      · exact refines_same hw hc _ _ rfl
      · rw [centroidOf_observe]; exact refines_alloc hw hc _ _
      · rw [centroidOf_observe]; exact refines_alloc hw hc _ _
      · exact refines_same hw hc _ _ rfl
  | equations =>
    simp only [getter, Spec.getterAns]
    split <;> exact refines_same hw hc _ _ rfl
  | normals =>
    simp only [getter, Spec.getterAns]
    split <;> exact refines_same hw hc _ _ rfl
  | faceCentroids =>
    simp only [getter, Spec.getterAns]
    split
    · have f1 := Frame.allocAreas s (M.value "_simplex_areas" (observe s))
      have w1 := WF.of_frame hw f1
      refine ⟨?_, ?_, edges_kept (f1.trans (Frame.allocFaceCen _ _)) hw hc rfl⟩
      · show observe (St.alloc _ _) = _
        rw [observe_alloc _ _ w1]
        exact observe_alloc s _ hw
      · rw [answerOf_ret1]
        congr 1
        exact St.get_alloc_self { s.alloc (M.value "_simplex_areas" (observe s)) with cAreas := some s.next } _
    · exact refines_same hw hc _ _ rfl
  | edges =>
    simp only [getter, Spec.getterAns]
    split
    · split
      next i hi =>
        refine refines_same hw hc _ _ ?_
        rw [answerOf_ret1, hc.edges i hi]
      next hn =>
        refine ⟨observe_alloc s _ hw, ?_, ?_⟩
        · rw [answerOf_ret1]
          congr 1
          exact St.get_alloc_self s _
        · intro i hi
          cases hi
          exact St.get_alloc_self _ _
    · exact refines_same hw hc _ _ rfl
  | inertiaTensor =>
    have poly2 : s.cls.kind = .planar → Refines M s ((polygonInertia M s).1, ret1 4 (polygonInertia M s).2)
        (Spec.one 4 (Spec.polygonInertia M s.cls (observe s))) := by
      intro hk
      refine ⟨observe_polygonInertia M s hw hk, ?_, edges_kept (polygonInertia_frame M s) hw hc ?_⟩
      · rw [answerOf_ret1, polygonInertia_answer M s hw]
      · show (polygonInertiaHead M s).cEdges = _; rw [polygonInertiaHead_planar M s hk]; rfl
    have poly3 : Refines M s ((polyhedronInertia M s).1, ret1 4 (polyhedronInertia M s).2)
        (Spec.one 4 (Spec.polyhedronInertia M s.cls (observe s))) := by
      obtain ⟨h1, h2⟩ := observe_polyhedronInertia M s hw
      refine ⟨h1, ?_, edges_kept (polyhedronInertia_frame M s) hw hc rfl⟩
      rw [answerOf_ret1, h2]
    simp only [getter, Spec.getterAns]
    cases hcls : s.cls <;> simp only []
    · exact refines_alloc hw hc _ _
    · exact refines_alloc hw hc _ _
    · exact refines_alloc hw hc _ _
    · exact refines_alloc hw hc _ _
    · rw [← hcls]; exact poly2 (by rw [hcls]; rfl)
    · rw [← hcls]; exact poly2 (by rw [hcls]; rfl)
    · exact refines_same hw hc _ _ rfl
    · rw [← hcls]; exact poly3
    · rw [← hcls]; exact poly3
    · exact refines_same hw hc _ _ rfl
  | value name => exact refines_alloc hw hc _ _

/-! ## composing -/

theorem coherent_of_obs {M : Meas ℝ} {s t : St ℝ} (hc : Spec.Coherent M s) (ho : observe t = observe s)
    (hcls : t.cls = s.cls) (he : ∀ i, t.cEdges = some i → t.get i = M.value "edges" (observe s)) :
    Spec.Coherent M t := by
  have hv : t.get t.fVerts = s.get s.fVerts := congrArg Obs.verts ho
  have h3 : t.get t.fCen = s.get s.fCen := congrArg Obs.cen ho
  have h4 : t.get t.fEqs = s.get s.fEqs := congrArg Obs.eqs ho
  have h5 : t.get t.fSeqs = s.get s.fSeqs := congrArg Obs.seqs ho
  have h6 : t.volume = s.volume := congrArg Obs.volume ho
  exact
    { verts := by rw [hcls, hv]; exact hc.verts
      eqs := by rw [hcls, hv, h4]; exact hc.eqs
      seqs := by rw [hcls, hv, h5]; exact hc.seqs
      volume := by rw [hcls, hv, h6]; exact hc.volume
      cen := by rw [hcls, hv, h3, h6]; exact hc.cen
      centre := by rw [hcls, h3]; exact hc.centre
      edges := by rw [ho]; exact he }

/-- an array that existed in `s` holds the same values in `t` when `t` was reached by frame steps
that left the observables alone -/
theorem stable_get {s t : St ℝ} (hf : Frame s t) (ho : observe t = observe s) (i : Id) (hi : i < s.next) :
    t.get i = s.get i := by
  by_cases h : i = s.fVerts
  · subst h
    have hv : t.get t.fVerts = s.get s.fVerts := congrArg Obs.verts ho
    rw [← hv, hf.fVerts]
  · exact hf.get_eq i hi h

theorem answerOf_stable (s t : St ℝ) (o : Out ℝ) (h : ∀ r, r ∈ o.rets → t.get r.id = s.get r.id) :
    answerOf (t, o) = answerOf (s, o) := by
  unfold answerOf
  congr 1
  exact List.map_congr_left fun r hr => by rw [h r hr]

theorem toJson_refines (M : Meas ℝ) (gs : List Getter) :
    ∀ s : St ℝ, Spec.WF s → Spec.Coherent M s →
      Refines M s (toJson M gs s) (Spec.toJsonAns M s.cls (observe s) gs) := by
  induction gs with
  | nil => intro s hw hc; exact refines_same hw hc _ _ rfl
  | cons g gs ih =>
    intro s hw hc
    have hg := getter_refines M g s hw hc
    have fg := getter_frame M g s
    have w1 := WF.of_frame hw fg
    have c1 := coherent_of_obs hc hg.obs fg.cls hg.edges
    have hr := ih _ w1 c1
    have fr := toJson_frame M gs (getter M g s).1
    rw [fg.cls, hg.obs] at hr
    have ea : (getter M g s).2.err = (Spec.getterAns M s.cls (observe s) g).err := by rw [← hg.ans]; rfl
    have eb : (toJson M gs (getter M g s).1).2.err = (Spec.toJsonAns M s.cls (observe s) gs).err := by
      rw [← hr.ans]; rfl
    simp only [toJson, Spec.toJsonAns]
    rw [← ea, ← eb]
    cases h1 : (getter M g s).2.err with
    | some k =>
      simp only []
      exact ⟨hg.obs, rfl, hg.edges⟩
    | none =>
      simp only []
      cases h2 : (toJson M gs (getter M g s).1).2.err with
      | some k =>
        simp only []
        exact ⟨hr.obs.trans hg.obs, rfl, fun i hi => by rw [hr.edges i hi, hg.obs]⟩
      | none =>
        simp only []
        refine ⟨hr.obs.trans hg.obs, ?_, fun i hi => by rw [hr.edges i hi, hg.obs]⟩
        have s1 : answerOf ((toJson M gs (getter M g s).1).1, (getter M g s).2) = answerOf (getter M g s) :=
          answerOf_stable _ _ _ fun r hr' => stable_get fr hr.obs _ (getter_rets M g s hw r hr')
        have a1 := hg.ans
        have a2 := hr.ans
        rw [← s1] at a1
        rw [← a1, ← a2]
        simp only [answerOf, List.map_append]

/-! ## `to_hoomd` -/

theorem setCentroid_cEdges (M : Meas ℝ) (s : St ℝ) (v : V3 ℝ) : (setCentroid M s v).cEdges = s.cEdges := by
  unfold setCentroid; cases s.cls.kind <;> rfl
theorem setCentroid_cls (M : Meas ℝ) (s : St ℝ) (v : V3 ℝ) : (setCentroid M s v).cls = s.cls :=
  (setCentroid_frame M s v).cls
theorem polygonInertia_cEdges (M : Meas ℝ) (s : St ℝ) : (polygonInertia M s).1.cEdges = s.cEdges := by
  show (polygonInertiaHead M s).cEdges = _
  unfold polygonInertiaHead
  rw [setCentroid_cEdges]; rfl
theorem polygonInertia_cls (M : Meas ℝ) (s : St ℝ) : (polygonInertia M s).1.cls = s.cls :=
  (polygonInertia_frame M s).cls

theorem WF.setCentroid {M : Meas ℝ} {s : St ℝ} (hw : Spec.WF s) (v : V3 ℝ) : Spec.WF (setCentroid M s v) :=
  WF.of_frame hw (setCentroid_frame M s v)

/-- where `Polygon.to_hoomd` leaves the shape, WITHOUT assuming anything about the centroid getter:
translated to the origin, then translated to the old centroid as the getter sees it there -/
theorem polygonToHoomd_observe (M : Meas ℝ) (s : St ℝ) (hw : Spec.WF s) (hk : s.cls.kind = .planar) :
    observe (polygonToHoomd M s).1 =
      Spec.moved M s.cls (Spec.moved M s.cls (observe s) V3.zero) (Spec.centroidOf M s.cls (observe s)) := by
  -- the five states
  have w1 := WF.setCentroid (M := M) hw V3.zero
  have o1 := observe_setCentroid M s V3.zero hw
  have c1 := setCentroid_cls M s V3.zero
  have w2 := WF.alloc w1 (v3l (pubCentroid M (setCentroid M s V3.zero)))
  have o2 := observe_alloc _ (v3l (pubCentroid M (setCentroid M s V3.zero))) w1
  have k2 : ((setCentroid M s V3.zero).alloc (v3l (pubCentroid M (setCentroid M s V3.zero)))).cls.kind = .planar := by
    show (setCentroid M s V3.zero).cls.kind = _; rw [c1, hk]
  have f3 := polygonInertia_frame M ((setCentroid M s V3.zero).alloc (v3l (pubCentroid M (setCentroid M s V3.zero))))
  have w3 := WF.of_frame w2 f3
  have o3 := observe_polygonInertia M _ w2 k2
  have a3 := polygonInertia_answer M _ w2
  have w4 := WF.alloc w3 (cols2 ((polygonInertia M ((setCentroid M s V3.zero).alloc
    (v3l (pubCentroid M (setCentroid M s V3.zero))))).1.get (polygonInertia M ((setCentroid M s V3.zero).alloc
    (v3l (pubCentroid M (setCentroid M s V3.zero))))).1.fVerts))
  have o4 := observe_alloc _ (cols2 ((polygonInertia M ((setCentroid M s V3.zero).alloc
    (v3l (pubCentroid M (setCentroid M s V3.zero))))).1.get (polygonInertia M ((setCentroid M s V3.zero).alloc
    (v3l (pubCentroid M (setCentroid M s V3.zero))))).1.fVerts)) w3
  have o5 := observe_setCentroid M _ (pubCentroid M s) w4
  have f5 := setCentroid_frame M ((polygonInertia M ((setCentroid M s V3.zero).alloc
    (v3l (pubCentroid M (setCentroid M s V3.zero))))).1.alloc (cols2 ((polygonInertia M ((setCentroid M s V3.zero).alloc
    (v3l (pubCentroid M (setCentroid M s V3.zero))))).1.get (polygonInertia M ((setCentroid M s V3.zero).alloc
    (v3l (pubCentroid M (setCentroid M s V3.zero))))).1.fVerts))) (pubCentroid M s)
  rw [o4, o3, o2, o1] at o5
  have cls4 : ((polygonInertia M ((setCentroid M s V3.zero).alloc (v3l (pubCentroid M (setCentroid M s V3.zero))))).1.alloc
      (cols2 ((polygonInertia M ((setCentroid M s V3.zero).alloc (v3l (pubCentroid M (setCentroid M s V3.zero))))).1.get
        (polygonInertia M ((setCentroid M s V3.zero).alloc (v3l (pubCentroid M (setCentroid M s V3.zero))))).1.fVerts))).cls
      = s.cls := by
    show (polygonInertia M _).1.cls = _
    rw [polygonInertia_cls]; exact c1
  rw [cls4, ← centroidOf_observe M s] at o5
  exact o5

theorem polygonToHoomd_refines (M : Meas ℝ) (hL : Spec.Lawful M) (s : St ℝ) (hw : Spec.WF s)
    (hc : Spec.Coherent M s) (hk : s.cls.kind = .planar) :
    Refines M s (polygonToHoomd M s)
      { arrays := [(0, cols2 (Spec.moved M s.cls (observe s) V3.zero).verts),
                   (2, v3l (Spec.centroidOf M s.cls (Spec.moved M s.cls (observe s) V3.zero))),
                   (4, Spec.polygonInertia M s.cls (Spec.moved M s.cls (observe s) V3.zero))],
        scalars := M.value "area" (Spec.moved M s.cls (observe s) V3.zero), err := none } := by
  -- the five states
  have w1 := WF.setCentroid (M := M) hw V3.zero
  have o1 := observe_setCentroid M s V3.zero hw
  have c1 := setCentroid_cls M s V3.zero
  have w2 := WF.alloc w1 (v3l (pubCentroid M (setCentroid M s V3.zero)))
  have o2 := observe_alloc _ (v3l (pubCentroid M (setCentroid M s V3.zero))) w1
  have k2 : ((setCentroid M s V3.zero).alloc (v3l (pubCentroid M (setCentroid M s V3.zero)))).cls.kind = .planar := by
    show (setCentroid M s V3.zero).cls.kind = _; rw [c1, hk]
  have f3 := polygonInertia_frame M ((setCentroid M s V3.zero).alloc (v3l (pubCentroid M (setCentroid M s V3.zero))))
  have w3 := WF.of_frame w2 f3
  have o3 := observe_polygonInertia M _ w2 k2
  have a3 := polygonInertia_answer M _ w2
  have w4 := WF.alloc w3 (cols2 ((polygonInertia M ((setCentroid M s V3.zero).alloc
    (v3l (pubCentroid M (setCentroid M s V3.zero))))).1.get (polygonInertia M ((setCentroid M s V3.zero).alloc
    (v3l (pubCentroid M (setCentroid M s V3.zero))))).1.fVerts))
  have o4 := observe_alloc _ (cols2 ((polygonInertia M ((setCentroid M s V3.zero).alloc
    (v3l (pubCentroid M (setCentroid M s V3.zero))))).1.get (polygonInertia M ((setCentroid M s V3.zero).alloc
    (v3l (pubCentroid M (setCentroid M s V3.zero))))).1.fVerts)) w3
  have o5 := observe_setCentroid M _ (pubCentroid M s) w4
  have f5 := setCentroid_frame M ((polygonInertia M ((setCentroid M s V3.zero).alloc
    (v3l (pubCentroid M (setCentroid M s V3.zero))))).1.alloc (cols2 ((polygonInertia M ((setCentroid M s V3.zero).alloc
    (v3l (pubCentroid M (setCentroid M s V3.zero))))).1.get (polygonInertia M ((setCentroid M s V3.zero).alloc
    (v3l (pubCentroid M (setCentroid M s V3.zero))))).1.fVerts))) (pubCentroid M s)
  rw [o4, o3, o2, o1] at o5
  have cls4 : ((polygonInertia M ((setCentroid M s V3.zero).alloc (v3l (pubCentroid M (setCentroid M s V3.zero))))).1.alloc
      (cols2 ((polygonInertia M ((setCentroid M s V3.zero).alloc (v3l (pubCentroid M (setCentroid M s V3.zero))))).1.get
        (polygonInertia M ((setCentroid M s V3.zero).alloc (v3l (pubCentroid M (setCentroid M s V3.zero))))).1.fVerts))).cls
      = s.cls := by
    show (polygonInertia M _).1.cls = _
    rw [polygonInertia_cls]; exact c1
  rw [cls4, ← centroidOf_observe M s, moved_back M hL s.cls (observe s) (CohObs.of_coherent hc)] at o5
  have n3 := polygonInertia_next M ((setCentroid M s V3.zero).alloc (v3l (pubCentroid M (setCentroid M s V3.zero))))
  have r3 := polygonInertia_ret M ((setCentroid M s V3.zero).alloc (v3l (pubCentroid M (setCentroid M s V3.zero))))
  have h3 := (polygonInertiaHead_frame M ((setCentroid M s V3.zero).alloc (v3l (pubCentroid M (setCentroid M s V3.zero))))).next_le
  simp only [St.next_alloc] at h3
  have v1 := w1.verts
  have fv3 : (polygonInertia M ((setCentroid M s V3.zero).alloc (v3l (pubCentroid M (setCentroid M s V3.zero))))).1.fVerts
      = (setCentroid M s V3.zero).fVerts := rfl
  refine ⟨o5, ?_, ?_⟩
  · -- the answer
    show Answer.mk _ _ _ = _
    simp only [polygonToHoomd, List.map, Answer.mk.injEq, and_true, List.cons.injEq, Prod.mk.injEq, true_and]
    refine ⟨⟨?_, ?_, ?_⟩, ?_⟩
    · -- vertices: the copy taken while centred
      rw [f5.get_eq _ (by simp only [St.next_alloc]; omega) (by show _ ≠ (setCentroid M s V3.zero).fVerts; omega),
        St.get_alloc_self]
      have : (polygonInertia M ((setCentroid M s V3.zero).alloc (v3l (pubCentroid M (setCentroid M s V3.zero))))).1.get
          (polygonInertia M ((setCentroid M s V3.zero).alloc (v3l (pubCentroid M (setCentroid M s V3.zero))))).1.fVerts
          = (Spec.moved M s.cls (observe s) V3.zero).verts := by
        have := congrArg Obs.verts o3
        rw [o2, o1] at this
        exact this
      rw [this]
    · -- centroid array
      rw [f5.get_eq _ (by simp only [St.next_alloc]; omega) (by show _ ≠ (setCentroid M s V3.zero).fVerts; omega),
        St.get_alloc_of_lt _ _ _ (by omega),
        f3.get_eq _ (by simp only [St.next_alloc]; omega) (by show _ ≠ (setCentroid M s V3.zero).fVerts; omega),
        St.get_alloc_self, ← centroidOf_observe, o1, c1]
    · -- inertia tensor
      rw [f5.get_eq _ (by simp only [St.next_alloc]; omega) (by show _ ≠ (setCentroid M s V3.zero).fVerts; omega),
        St.get_alloc_of_lt _ _ _ (by omega), a3, o2, o1]
      show Spec.polygonInertia M (setCentroid M s V3.zero).cls _ = _
      rw [c1]
    · rw [o2, o1]
  · refine edges_kept ?_ hw hc ?_
    · exact (polygonToHoomd_frame M s).1
    · show (setCentroid M _ _).cEdges = _
      rw [setCentroid_cEdges]
      show (polygonInertia M _).1.cEdges = _
      rw [polygonInertia_cEdges]
      show (setCentroid M s V3.zero).cEdges = _
      rw [setCentroid_cEdges]

theorem polyhedronInertia_cls (M : Meas ℝ) (s : St ℝ) : (polyhedronInertia M s).1.cls = s.cls := rfl
theorem polyhedronInertia_fVerts (M : Meas ℝ) (s : St ℝ) : (polyhedronInertia M s).1.fVerts = s.fVerts := rfl

theorem polyToHoomd_refines (M : Meas ℝ) (hL : Spec.Lawful M) (s : St ℝ) (hw : Spec.WF s)
    (hc : Spec.Coherent M s) (hk : s.cls.kind = .poly) :
    Refines M s (polyhedronToHoomd M s)
      { arrays := [(0, (Spec.moved M s.cls (observe s) V3.zero).verts),
                   (2, v3l (Spec.centroidOf M s.cls (Spec.moved M s.cls (observe s) V3.zero))),
                   (4, Spec.polyhedronInertia M s.cls (Spec.moved M s.cls (observe s) V3.zero))],
        scalars := M.value "volume" (Spec.moved M s.cls (observe s) V3.zero), err := none } := by
  have w1 := WF.setCentroid (M := M) hw V3.zero
  have o1 := observe_setCentroid M s V3.zero hw
  have c1 := setCentroid_cls M s V3.zero
  have w2 := WF.alloc w1 (v3l (pubCentroid M (setCentroid M s V3.zero)))
  have o2 := observe_alloc _ (v3l (pubCentroid M (setCentroid M s V3.zero))) w1
  have f3 := polyhedronInertia_frame M ((setCentroid M s V3.zero).alloc (v3l (pubCentroid M (setCentroid M s V3.zero))))
  have w3 := WF.of_frame w2 f3
  obtain ⟨o3, a3⟩ := observe_polyhedronInertia M _ w2
  have w4 := WF.alloc w3 ((polyhedronInertia M ((setCentroid M s V3.zero).alloc
    (v3l (pubCentroid M (setCentroid M s V3.zero))))).1.get (polyhedronInertia M ((setCentroid M s V3.zero).alloc
    (v3l (pubCentroid M (setCentroid M s V3.zero))))).1.fVerts)
  have o4 := observe_alloc _ ((polyhedronInertia M ((setCentroid M s V3.zero).alloc
    (v3l (pubCentroid M (setCentroid M s V3.zero))))).1.get (polyhedronInertia M ((setCentroid M s V3.zero).alloc
    (v3l (pubCentroid M (setCentroid M s V3.zero))))).1.fVerts) w3
  have o5 := observe_setCentroid M _ (pubCentroid M s) w4
  have f5 := setCentroid_frame M ((polyhedronInertia M ((setCentroid M s V3.zero).alloc
    (v3l (pubCentroid M (setCentroid M s V3.zero))))).1.alloc ((polyhedronInertia M ((setCentroid M s V3.zero).alloc
    (v3l (pubCentroid M (setCentroid M s V3.zero))))).1.get (polyhedronInertia M ((setCentroid M s V3.zero).alloc
    (v3l (pubCentroid M (setCentroid M s V3.zero))))).1.fVerts)) (pubCentroid M s)
  rw [o4, o3, o2, o1] at o5
  have cls4 : ((polyhedronInertia M ((setCentroid M s V3.zero).alloc (v3l (pubCentroid M (setCentroid M s V3.zero))))).1.alloc
      ((polyhedronInertia M ((setCentroid M s V3.zero).alloc (v3l (pubCentroid M (setCentroid M s V3.zero))))).1.get
        (polyhedronInertia M ((setCentroid M s V3.zero).alloc (v3l (pubCentroid M (setCentroid M s V3.zero))))).1.fVerts)).cls
      = s.cls := c1
  rw [cls4, ← centroidOf_observe M s, moved_back M hL s.cls (observe s) (CohObs.of_coherent hc)] at o5
  have v1 := w1.verts
  have fr := (polyhedronToHoomd_frame M s hw).1
  simp only [polyhedronToHoomd, hk, if_true] at fr ⊢
  refine ⟨o5, ?_, edges_kept fr hw hc ?_⟩
  · show Answer.mk _ _ _ = _
    simp only [List.map, Answer.mk.injEq, and_true, List.cons.injEq, Prod.mk.injEq, true_and]
    refine ⟨⟨?_, ?_, ?_⟩, ?_⟩
    · rw [f5.get_eq _ (by simp only [St.next_alloc, polyhedronInertia_next]; omega)
        (by show _ ≠ (setCentroid M s V3.zero).fVerts; simp only [polyhedronInertia_next, St.next_alloc]; omega),
        St.get_alloc_self]
      have := congrArg Obs.verts o3
      rw [o2, o1] at this
      exact this
    · rw [f5.get_eq _ (by simp only [St.next_alloc, polyhedronInertia_next]; omega)
        (by show _ ≠ (setCentroid M s V3.zero).fVerts; omega),
        St.get_alloc_of_lt _ _ _ (by simp only [polyhedronInertia_next, St.next_alloc]; omega),
        f3.get_eq _ (by simp only [St.next_alloc]; omega) (by show _ ≠ (setCentroid M s V3.zero).fVerts; omega),
        St.get_alloc_self, ← centroidOf_observe, o1, c1]
    · rw [f5.get_eq _ (by simp only [St.next_alloc, polyhedronInertia_next, polyhedronInertia_ret]; omega)
        (by show _ ≠ (setCentroid M s V3.zero).fVerts; simp only [polyhedronInertia_ret, St.next_alloc]; omega),
        St.get_alloc_of_lt _ _ _ (by simp only [polyhedronInertia_next, polyhedronInertia_ret, St.next_alloc]; omega),
        a3, o2, o1]
      show Spec.polyhedronInertia M (setCentroid M s V3.zero).cls _ = _
      rw [c1]
    · rw [o2, o1]
  · show (setCentroid M _ _).cEdges = _
    rw [setCentroid_cEdges]
    show (setCentroid M s V3.zero).cEdges = _
    rw [setCentroid_cEdges]

/-- the value read from the OLD `_centroid` array at the end is the centroid at the start -/
theorem old_centroid_kept {s t : St ℝ} (hf : Frame s t) (hw : Spec.WF s) : t.get s.fCen = s.get s.fCen :=
  hf.get_eq _ hw.cen.1 hw.cen.2

theorem convexToHoomd_refines (M : Meas ℝ) (hL : Spec.Lawful M) (s : St ℝ) (hw : Spec.WF s)
    (hc : Spec.Coherent M s) (hk : s.cls.kind = .convex) :
    Refines M s (polyhedronToHoomd M s)
      { arrays := [(0, (Spec.moved M s.cls (observe s) V3.zero).verts),
                   (2, (Spec.moved M s.cls (observe s) V3.zero).cen),
                   (4, Spec.polyhedronInertia M s.cls (Spec.moved M s.cls (observe s) V3.zero))],
        scalars := M.value "volume" (Spec.moved M s.cls (observe s) V3.zero), err := none } := by
  have hnp : ¬ s.cls.kind = .poly := by rw [hk]; simp
  have f1 := setCentroid_frame M s V3.zero
  have w1 := WF.setCentroid (M := M) hw V3.zero
  have o1 := observe_setCentroid M s V3.zero hw
  have c1 := setCentroid_cls M s V3.zero
  have f3 := polyhedronInertia_frame M (setCentroid M s V3.zero)
  have w3 := WF.of_frame w1 f3
  obtain ⟨o3, a3⟩ := observe_polyhedronInertia M _ w1
  have w4 := WF.alloc w3 ((polyhedronInertia M (setCentroid M s V3.zero)).1.get
    (polyhedronInertia M (setCentroid M s V3.zero)).1.fVerts)
  have f4 := Frame.alloc (polyhedronInertia M (setCentroid M s V3.zero)).1 ((polyhedronInertia M (setCentroid M s V3.zero)).1.get
    (polyhedronInertia M (setCentroid M s V3.zero)).1.fVerts)
  have o4 := observe_alloc _ ((polyhedronInertia M (setCentroid M s V3.zero)).1.get
    (polyhedronInertia M (setCentroid M s V3.zero)).1.fVerts) w3
  have old : ((polyhedronInertia M (setCentroid M s V3.zero)).1.alloc ((polyhedronInertia M (setCentroid M s V3.zero)).1.get
      (polyhedronInertia M (setCentroid M s V3.zero)).1.fVerts)).get s.fCen = (observe s).cen :=
    old_centroid_kept ((f1.trans f3).trans f4) hw
  have o5 := observe_setCentroid M ((polyhedronInertia M (setCentroid M s V3.zero)).1.alloc
    ((polyhedronInertia M (setCentroid M s V3.zero)).1.get (polyhedronInertia M (setCentroid M s V3.zero)).1.fVerts))
    (l3v (observe s).cen) w4
  have f5 := setCentroid_frame M ((polyhedronInertia M (setCentroid M s V3.zero)).1.alloc
    ((polyhedronInertia M (setCentroid M s V3.zero)).1.get (polyhedronInertia M (setCentroid M s V3.zero)).1.fVerts))
    (l3v (observe s).cen)
  rw [o4, o3, o1] at o5
  have cls4 : ((polyhedronInertia M (setCentroid M s V3.zero)).1.alloc ((polyhedronInertia M (setCentroid M s V3.zero)).1.get
      (polyhedronInertia M (setCentroid M s V3.zero)).1.fVerts)).cls = s.cls := c1
  have cen0 : l3v (observe s).cen = Spec.centroidOf M s.cls (observe s) := by
    unfold Spec.centroidOf; rw [hk]
  rw [cls4, cen0, moved_back M hL s.cls (observe s) (CohObs.of_coherent hc)] at o5
  rw [← cen0] at o5
  have v1 := w1.verts
  have cn1 := w1.cen
  have fr := (polyhedronToHoomd_frame M s hw).1
  simp only [polyhedronToHoomd, hnp, if_false, old] at fr ⊢
  refine ⟨o5, ?_, edges_kept fr hw hc ?_⟩
  · show Answer.mk _ _ _ = _
    simp only [List.map, Answer.mk.injEq, and_true, List.cons.injEq, Prod.mk.injEq, true_and]
    refine ⟨⟨?_, ?_, ?_⟩, ?_⟩
    · rw [f5.get_eq _ (by simp only [St.next_alloc, polyhedronInertia_next]; omega)
        (by show _ ≠ (setCentroid M s V3.zero).fVerts; simp only [polyhedronInertia_next]; omega),
        St.get_alloc_self]
      have := congrArg Obs.verts o3
      rw [o1] at this
      exact this
    · rw [f5.get_eq _ (by simp only [St.next_alloc, polyhedronInertia_next]; omega)
        (by show _ ≠ (setCentroid M s V3.zero).fVerts; exact cn1.2),
        St.get_alloc_of_lt _ _ _ (by simp only [polyhedronInertia_next]; omega),
        f3.get_eq _ cn1.1 cn1.2]
      have := congrArg Obs.cen o1
      exact this
    · rw [f5.get_eq _ (by simp only [St.next_alloc, polyhedronInertia_next, polyhedronInertia_ret]; omega)
        (by show _ ≠ (setCentroid M s V3.zero).fVerts; simp only [polyhedronInertia_ret]; omega),
        St.get_alloc_of_lt _ _ _ (by simp only [polyhedronInertia_next, polyhedronInertia_ret]; omega),
        a3, o1]
      show Spec.polyhedronInertia M (setCentroid M s V3.zero).cls _ = _
      rw [c1]
    · rw [o1]
  · show (setCentroid M _ _).cEdges = _
    rw [setCentroid_cEdges]
    show (setCentroid M s V3.zero).cEdges = _
    rw [setCentroid_cEdges]

theorem spheropolyhedronToHoomd_refines (M : Meas ℝ) (hL : Spec.Lawful M) (s : St ℝ) (hw : Spec.WF s)
    (hc : Spec.Coherent M s) (hk : s.cls.kind = .convex) :
    Refines M s (spheropolyhedronToHoomd M s)
      { arrays := [(0, (Spec.moved M s.cls (observe s) V3.zero).verts)],
        scalars := M.value "volume" (Spec.moved M s.cls (observe s) V3.zero), err := none } := by
  have f1 := setCentroid_frame M s V3.zero
  have w1 := WF.setCentroid (M := M) hw V3.zero
  have o1 := observe_setCentroid M s V3.zero hw
  have c1 := setCentroid_cls M s V3.zero
  have w2 := WF.alloc w1 ((setCentroid M s V3.zero).get (setCentroid M s V3.zero).fVerts)
  have f2 := Frame.alloc (setCentroid M s V3.zero) ((setCentroid M s V3.zero).get (setCentroid M s V3.zero).fVerts)
  have o2 := observe_alloc _ ((setCentroid M s V3.zero).get (setCentroid M s V3.zero).fVerts) w1
  have old : ((setCentroid M s V3.zero).alloc ((setCentroid M s V3.zero).get (setCentroid M s V3.zero).fVerts)).get s.fCen
      = (observe s).cen := old_centroid_kept (f1.trans f2) hw
  have o5 := observe_setCentroid M ((setCentroid M s V3.zero).alloc ((setCentroid M s V3.zero).get
    (setCentroid M s V3.zero).fVerts)) (l3v (observe s).cen) w2
  have f5 := setCentroid_frame M ((setCentroid M s V3.zero).alloc ((setCentroid M s V3.zero).get
    (setCentroid M s V3.zero).fVerts)) (l3v (observe s).cen)
  rw [o2, o1] at o5
  have cls2 : ((setCentroid M s V3.zero).alloc ((setCentroid M s V3.zero).get (setCentroid M s V3.zero).fVerts)).cls
      = s.cls := c1
  have cen0 : l3v (observe s).cen = Spec.centroidOf M s.cls (observe s) := by
    unfold Spec.centroidOf; rw [hk]
  rw [cls2, cen0, moved_back M hL s.cls (observe s) (CohObs.of_coherent hc)] at o5
  rw [← cen0] at o5
  have v1 := w1.verts
  have fr := (spheropolyhedronToHoomd_frame M s).1
  simp only [spheropolyhedronToHoomd, old] at fr ⊢
  refine ⟨o5, ?_, edges_kept fr hw hc ?_⟩
  · show Answer.mk _ _ _ = _
    simp only [List.map, Answer.mk.injEq, and_true, List.cons.injEq, Prod.mk.injEq, true_and]
    refine ⟨?_, ?_⟩
    · rw [f5.get_eq _ (by simp only [St.next_alloc]; omega)
        (by show _ ≠ (setCentroid M s V3.zero).fVerts; omega), St.get_alloc_self]
      exact congrArg Obs.verts o1
    · rw [o1]
  · show (setCentroid M _ _).cEdges = _
    rw [setCentroid_cEdges]
    show (setCentroid M s V3.zero).cEdges = _
    rw [setCentroid_cEdges]

/-- `ConvexSpheropolygon.to_hoomd`: the returned array is the live one; after the closing
`centroid = old_centroid` (a translation by `old − old`) it holds the original vertices -/
theorem spheropolygonToHoomd_refines (M : Meas ℝ) (s : St ℝ) (hw : Spec.WF s)
    (hc : Spec.Coherent M s) (hk : s.cls.kind = .planar) :
    Refines M s (spheropolygonToHoomd M s)
      { arrays := [(0, (observe s).verts)], scalars := M.value "area" (observe s), err := none } := by
  have o5 := observe_setCentroid M s (pubCentroid M s) hw
  have back : Spec.moved M s.cls (observe s) (pubCentroid M s) = observe s := by
    unfold Spec.moved
    rw [hk, centroidOf_observe]
    simp only []
    rw [shiftRows_null _ _ (by simp) (by simp) (by simp)]
  rw [back] at o5
  refine ⟨o5, ?_, edges_kept (setCentroid_frame M s _) hw hc (setCentroid_cEdges M s _)⟩
  show Answer.mk _ _ _ = _
  simp only [spheropolygonToHoomd, List.map, Answer.mk.injEq, and_true, List.cons.injEq, Prod.mk.injEq, true_and]
  have := congrArg Obs.verts o5
  rw [← (setCentroid_frame M s (pubCentroid M s)).fVerts]
  exact this

theorem curvedToHoomd_refines (M : Meas ℝ) (s : St ℝ) (hw : Spec.WF s)
    (hc : Spec.Coherent M s) (hk : s.cls.kind = .curved) :
    Refines M s (curvedToHoomd M s)
      { arrays := [(2, (Spec.moved M s.cls (observe s) V3.zero).cen),
                   (4, M.value "inertia_tensor" (Spec.moved M s.cls (observe s) V3.zero))],
        scalars := M.value "volume" (Spec.moved M s.cls (observe s) V3.zero), err := none } := by
  have f1 := setCentroid_frame M s V3.zero
  have w1 := WF.setCentroid (M := M) hw V3.zero
  have o1 := observe_setCentroid M s V3.zero hw
  have c1 := setCentroid_cls M s V3.zero
  have w2 := WF.alloc w1 (M.value "inertia_tensor" (observe (setCentroid M s V3.zero)))
  have f2 := Frame.alloc (setCentroid M s V3.zero) (M.value "inertia_tensor" (observe (setCentroid M s V3.zero)))
  have o2 := observe_alloc _ (M.value "inertia_tensor" (observe (setCentroid M s V3.zero))) w1
  have old : ((setCentroid M s V3.zero).alloc (M.value "inertia_tensor" (observe (setCentroid M s V3.zero)))).get s.fCen
      = (observe s).cen := old_centroid_kept (f1.trans f2) hw
  have o5 := observe_setCentroid M ((setCentroid M s V3.zero).alloc (M.value "inertia_tensor"
    (observe (setCentroid M s V3.zero)))) (l3v (observe s).cen) w2
  have f5 := setCentroid_frame M ((setCentroid M s V3.zero).alloc (M.value "inertia_tensor"
    (observe (setCentroid M s V3.zero)))) (l3v (observe s).cen)
  rw [o2, o1] at o5
  have cls2 : ∀ a, ((setCentroid M s V3.zero).alloc a).cls = s.cls := fun _ => c1
  obtain ⟨c, hcen⟩ := hc.centre hk
  have back : Spec.moved M s.cls (Spec.moved M s.cls (observe s) V3.zero) (l3v (observe s).cen) = observe s := by
    unfold Spec.moved
    rw [hk]
    simp only []
    rw [show (observe s).cen = s.get s.fCen from rfl, hcen, l3v_v3l, ← hcen]
    rfl
  rw [cls2, back] at o5
  rw [← o1] at o5
  have v1 := w1.verts
  have cn1 := w1.cen
  have fr := (curvedToHoomd_frame M s hw).1
  simp only [curvedToHoomd, old] at fr ⊢
  refine ⟨o5, ?_, edges_kept fr hw hc ?_⟩
  · show Answer.mk _ _ _ = _
    simp only [List.map, Answer.mk.injEq, and_true, List.cons.injEq, Prod.mk.injEq, true_and]
    refine ⟨⟨?_, ?_⟩, ?_⟩
    · rw [f5.get_eq _ (by simp only [St.next_alloc]; omega) cn1.2, St.get_alloc_of_lt _ _ _ cn1.1]
      exact congrArg Obs.cen o1
    · rw [f5.get_eq _ (by simp only [St.next_alloc]; omega)
        (by show _ ≠ (setCentroid M s V3.zero).fVerts; omega), St.get_alloc_self, o1]
    · rw [o1]
  · show (setCentroid M _ _).cEdges = _
    rw [setCentroid_cEdges]
    show (setCentroid M s V3.zero).cEdges = _
    rw [setCentroid_cEdges]

/-! ## every query -/

theorem toHoomd_refines (M : Meas ℝ) (hL : Spec.Lawful M) (s : St ℝ) (hw : Spec.WF s) (hc : Spec.Coherent M s) :
    Refines M s (toHoomd M s) (Spec.toHoomdAns M s.cls (observe s)) := by
  unfold toHoomd Spec.toHoomdAns
  cases hcls : s.cls <;> simp only []
  · exact refines_same hw hc _ _ rfl
  · exact refines_same hw hc _ _ rfl
  · rw [← hcls]; exact curvedToHoomd_refines M s hw hc (by rw [hcls]; rfl)
  · rw [← hcls]; exact curvedToHoomd_refines M s hw hc (by rw [hcls]; rfl)
  · rw [← hcls]; exact polygonToHoomd_refines M hL s hw hc (by rw [hcls]; rfl)
  · rw [← hcls]; exact polygonToHoomd_refines M hL s hw hc (by rw [hcls]; rfl)
  · exact spheropolygonToHoomd_refines M s hw hc (by rw [hcls]; rfl)
  · rw [← hcls]; exact polyToHoomd_refines M hL s hw hc (by rw [hcls]; rfl)
  · rw [← hcls]; exact convexToHoomd_refines M hL s hw hc (by rw [hcls]; rfl)
  · rw [← hcls]; exact spheropolyhedronToHoomd_refines M hL s hw hc (by rw [hcls]; rfl)

theorem getFaceArea_refines (M : Meas ℝ) (s : St ℝ) (hw : Spec.WF s) (hc : Spec.Coherent M s) :
    Refines M s (getFaceArea M s) (Spec.getFaceAreaAns M s.cls (observe s)) := by
  unfold getFaceArea Spec.getFaceAreaAns
  cases hcls : s.cls <;> simp only []
  all_goals first
    | exact refines_same hw hc _ _ rfl
    | exact refines_alloc hw hc _ _
    | skip
  have f1 := Frame.allocAreas s (M.value "_simplex_areas" (observe s))
  have w1 := WF.of_frame hw f1
  refine ⟨?_, ?_, edges_kept (f1.trans (Frame.alloc _ _)) hw hc rfl⟩
  · show observe (St.alloc _ _) = _
    rw [observe_alloc _ _ w1]
    exact observe_alloc s _ hw
  · rw [answerOf_ret1]
    congr 1
    exact St.get_alloc_self { s.alloc (M.value "_simplex_areas" (observe s)) with cAreas := some s.next } _

/-- reached by allocating and by writing arrays created since `s` only -/
structure Quiet (s t : St ℝ) : Prop where
  frame : Frame s t
  fNormal : t.fNormal = s.fNormal
  fCen : t.fCen = s.fCen
  fEqs : t.fEqs = s.fEqs
  fSeqs : t.fSeqs = s.fSeqs
  verts : t.get s.fVerts = s.get s.fVerts
  volume : t.volume = s.volume
  cEdges : t.cEdges = s.cEdges

theorem Quiet.refl (s : St ℝ) : Quiet s s := ⟨Frame.refl s, rfl, rfl, rfl, rfl, rfl, rfl, rfl⟩
theorem Quiet.alloc {s t : St ℝ} (h : Quiet s t) (hw : Spec.WF s) (a : Arr ℝ) : Quiet s (t.alloc a) :=
  ⟨h.frame.trans (Frame.alloc t a), h.fNormal, h.fCen, h.fEqs, h.fSeqs,
    (St.get_alloc_of_lt _ _ _ (Nat.lt_of_lt_of_le hw.verts h.frame.next_le)).trans h.verts, h.volume, h.cEdges⟩
theorem Quiet.writeSince {s t : St ℝ} (h : Quiet s t) (hw : Spec.WF s) (k : Id) (a : Arr ℝ) (hk : s.next ≤ k) :
    Quiet s (t.write k a) :=
  ⟨h.frame.writeSince k a hk, h.fNormal, h.fCen, h.fEqs, h.fSeqs,
    (St.get_write_of_ne _ _ _ _ (by have := hw.verts; omega)).trans h.verts, h.volume, h.cEdges⟩

theorem Quiet.observe {s t : St ℝ} (h : Quiet s t) (hw : Spec.WF s) : observe t = observe s := by
  unfold C16.observe
  rw [h.frame.fVerts, h.fNormal, h.fCen, h.fEqs, h.fSeqs, h.verts, h.volume, h.frame.consts,
    h.frame.get_eq _ hw.normal.1 hw.normal.2, h.frame.get_eq _ hw.cen.1 hw.cen.2,
    h.frame.get_eq _ hw.eqs.1 hw.eqs.2, h.frame.get_eq _ hw.seqs.1 hw.seqs.2]

theorem Quiet.refines {M : Meas ℝ} {s t : St ℝ} (h : Quiet s t) (hw : Spec.WF s) (hc : Spec.Coherent M s)
    (o : Out ℝ) (A : Answer ℝ) (ha : answerOf (t, o) = A) : Refines M s (t, o) A :=
  ⟨h.observe hw, ha, edges_kept h.frame hw hc h.cEdges⟩

theorem save_refines (M : Meas ℝ) (fmt : Nat) (s : St ℝ) (hw : Spec.WF s) (hc : Spec.Coherent M s) :
    Refines M s (save M fmt s) (Spec.saveAns s.cls) := by
  unfold save Spec.saveAns
  split
  · split
    · -- STL: everything happens on the deep copy
      split
      · exact (((((Quiet.refl s).alloc hw _).alloc hw _).alloc hw _).alloc hw _).writeSince hw _ _
          (Nat.le_succ _) |>.refines hw hc _ _ rfl
      · exact ((((((Quiet.refl s).alloc hw _).alloc hw _).alloc hw _).alloc hw _).alloc hw _).refines hw hc _ _ rfl
    · split
      · have hg := getter_refines M .edges s hw hc
        exact ⟨hg.obs, rfl, hg.edges⟩
      · exact refines_same hw hc _ _ rfl
  · exact refines_same hw hc _ _ rfl

theorem step_refines (M : Meas ℝ) (hL : Spec.Lawful M) (q : Query) (s : St ℝ) (hw : Spec.WF s)
    (hc : Spec.Coherent M s) :
    Refines M s (step M q s) (Spec.answer M s.cls (observe s) (q.argOf s) q) := by
  cases q with
  | get g => exact getter_refines M g s hw hc
  | toJson gs => exact toJson_refines M gs s hw hc
  | getFaceArea => exact getFaceArea_refines M s hw hc
  | toHoomd => exact toHoomd_refines M hL s hw hc
  | save fmt => exact save_refines M fmt s hw hc
  | withArg name arg =>
    have w1 := WF.alloc hw (M.prep name (observe s) (s.get arg))
    refine ⟨?_, ?_, edges_kept ((Frame.alloc s _).trans (Frame.alloc _ _)) hw hc rfl⟩
    · show observe (St.alloc _ _) = _
      rw [observe_alloc _ _ w1]; exact observe_alloc s _ hw
    · show answerOf (_, ret1 8 _) = _
      rw [answerOf_ret1]
      show Spec.one 8 _ = Spec.one 8 _
      congr 1
      exact St.get_alloc_self (s.alloc (M.prep name (observe s) (s.get arg))) _

end C16
