import CoxeterVerif.Lemmas.HeapValues
/-!
  Lemmas for C16: every query of the heap machine REFINES its value semantics (`Spec.answer`): it
  leaves the observables alone and what it returns is the value semantics' answer.
-/
namespace C16
open Scalar
set_option linter.unusedSectionVars false

/-- the heap program `p` (run from `s`) leaves the observables alone, answers `A`, and keeps the
`edges` cache valid -/
structure Refines (M : Meas ℝ) (s : St ℝ) (p : St ℝ × Out ℝ) (A : Answer ℝ) : Prop where
  obs : observe p.1 = observe s
  ans : answerOf p = A
  edges : ∀ i, p.1.cEdges = some i → p.1.get i = M.value "edges" (observe s)

theorem edges_kept {M : Meas ℝ} {s t : St ℝ} (hf : Frame s t) (hw : Spec.WF s) (hc : Spec.Coherent M s)
    (he : t.cEdges = s.cEdges) : ∀ i, t.cEdges = some i → t.get i = M.value "edges" (observe s) := by
  intro i hi
  rw [he] at hi
  rw [hf.get_eq i (hw.edges i hi).1 (hw.edges i hi).2]
  exact hc.edges i hi

theorem refines_same {M : Meas ℝ} {s : St ℝ} (hw : Spec.WF s) (hc : Spec.Coherent M s) (o : Out ℝ) (A : Answer ℝ)
    (h : answerOf (s, o) = A) : Refines M s (s, o) A :=
  ⟨rfl, h, edges_kept (Frame.refl s) hw hc rfl⟩

theorem refines_alloc {M : Meas ℝ} {s : St ℝ} (hw : Spec.WF s) (hc : Spec.Coherent M s) (a : Arr ℝ) (tag : Nat) :
    Refines M s (s.alloc a, ret1 tag s.next) (Spec.one tag a) :=
  ⟨observe_alloc s a hw, by simp [answerOf, ret1, Spec.one], edges_kept (Frame.alloc s a) hw hc rfl⟩

theorem answerOf_ret1 (t : St ℝ) (tag : Nat) (id : Id) :
    answerOf (t, ret1 tag id) = Spec.one tag (t.get id) := rfl

theorem getter_refines (M : Meas ℝ) (g : Getter) (s : St ℝ) (hw : Spec.WF s) (hc : Spec.Coherent M s) :
    Refines M s (getter M g s) (Spec.getterAns M s.cls (observe s) g) := by
  cases g with
  | vertices =>
    simp only [getter, Spec.getterAns]
    split <;> exact refines_same hw hc _ _ rfl
  | normal =>
    simp only [getter, Spec.getterAns]
    split <;> exact refines_same hw hc _ _ rfl
  | centroid =>
    simp only [getter, Spec.getterAns]
    split
    · exact refines_same hw hc _ _ rfl
    · cases hk : s.cls.kind <;> simp only []
      · exact refines_same hw hc _ _ rfl
      · rw [centroidOf_observe]; exact refines_alloc hw hc _ _
      · rw [centroidOf_observe]; exact refines_alloc hw hc _ _
      · exact refines_same hw hc _ _ rfl
  | equations =>
    simp only [getter, Spec.getterAns]
    split <;> exact refines_same hw hc _ _ rfl
  | normals =>
    simp only [getter, Spec.getterAns]
    split <;> exact refines_same hw hc _ _ rfl
  | faceCentroids =>
    simp only [getter, Spec.getterAns]
    split
    · have f1 := Frame.allocAreas s (M.value "_simplex_areas" (observe s))
      have w1 := WF.of_frame hw f1
      refine ⟨?_, ?_, edges_kept (f1.trans (Frame.allocFaceCen _ _)) hw hc rfl⟩
      · show observe (St.alloc _ _) = _
        rw [observe_alloc _ _ w1]
        exact observe_alloc s _ hw
      · rw [answerOf_ret1]
        congr 1
        exact St.get_alloc_self { s.alloc (M.value "_simplex_areas" (observe s)) with cAreas := some s.next } _
    · exact refines_same hw hc _ _ rfl
  | edges =>
    simp only [getter, Spec.getterAns]
    split
    · split
      next i hi =>
        refine refines_same hw hc _ _ ?_
        rw [answerOf_ret1, hc.edges i hi]
      next hn =>
        refine ⟨observe_alloc s _ hw, ?_, ?_⟩
        · rw [answerOf_ret1]
          congr 1
          exact St.get_alloc_self s _
        · intro i hi
          cases hi
          exact St.get_alloc_self _ _
    · exact refines_same hw hc _ _ rfl
  | inertiaTensor =>
    have poly2 : s.cls.kind = .planar → Refines M s ((polygonInertia M s).1, ret1 4 (polygonInertia M s).2)
        (Spec.one 4 (Spec.polygonInertia M s.cls (observe s))) := by
      intro hk
      refine ⟨observe_polygonInertia M s hw hk, ?_, edges_kept (polygonInertia_frame M s) hw hc ?_⟩
      · rw [answerOf_ret1, polygonInertia_answer M s hw]
      · show (polygonInertiaHead M s).cEdges = _; rw [polygonInertiaHead_planar M s hk]; rfl
    have poly3 : Refines M s ((polyhedronInertia M s).1, ret1 4 (polyhedronInertia M s).2)
        (Spec.one 4 (Spec.polyhedronInertia M s.cls (observe s))) := by
      obtain ⟨h1, h2⟩ := observe_polyhedronInertia M s hw
      refine ⟨h1, ?_, edges_kept (polyhedronInertia_frame M s) hw hc rfl⟩
      rw [answerOf_ret1, h2]
    simp only [getter, Spec.getterAns]
    cases hcls : s.cls <;> simp only []
    · exact refines_alloc hw hc _ _
    · exact refines_alloc hw hc _ _
    · exact refines_alloc hw hc _ _
    · exact refines_alloc hw hc _ _
    · rw [← hcls]; exact poly2 (by rw [hcls]; rfl)
    · rw [← hcls]; exact poly2 (by rw [hcls]; rfl)
    · exact refines_same hw hc _ _ rfl
    · rw [← hcls]; exact poly3
    · rw [← hcls]; exact poly3
    · exact refines_same hw hc _ _ rfl
  | value name => exact refines_alloc hw hc _ _

/-! ## composing -/

theorem coherent_of_obs {M : Meas ℝ} {s t : St ℝ} (hc : Spec.Coherent M s) (ho : observe t = observe s)
    (hcls : t.cls = s.cls) (he : ∀ i, t.cEdges = some i → t.get i = M.value "edges" (observe s)) :
    Spec.Coherent M t := by
  have hv : t.get t.fVerts = s.get s.fVerts := congrArg Obs.verts ho
  have h3 : t.get t.fCen = s.get s.fCen := congrArg Obs.cen ho
  have h4 : t.get t.fEqs = s.get s.fEqs := congrArg Obs.eqs ho
  have h5 : t.get t.fSeqs = s.get s.fSeqs := congrArg Obs.seqs ho
  have h6 : t.volume = s.volume := congrArg Obs.volume ho
  exact
    { verts := by rw [hcls, hv]; exact hc.verts
      eqs := by rw [hcls, hv, h4]; exact hc.eqs
      seqs := by rw [hcls, hv, h5]; exact hc.seqs
      volume := by rw [hcls, hv, h6]; exact hc.volume
      cen := by rw [hcls, hv, h3, h6]; exact hc.cen
      centre := by rw [hcls, h3]; exact hc.centre
      edges := by rw [ho]; exact he }

/-- an array that existed in `s` holds the same values in `t` when `t` was reached by frame steps
that left the observables alone -/
theorem stable_get {s t : St ℝ} (hf : Frame s t) (ho : observe t = observe s) (i : Id) (hi : i < s.next) :
    t.get i = s.get i := by
  by_cases h : i = s.fVerts
  · subst h
    have hv : t.get t.fVerts = s.get s.fVerts := congrArg Obs.verts ho
    rw [← hv, hf.fVerts]
  · exact hf.get_eq i hi h

theorem answerOf_stable (s t : St ℝ) (o : Out ℝ) (h : ∀ r, r ∈ o.rets → t.get r.id = s.get r.id) :
    answerOf (t, o) = answerOf (s, o) := by
  unfold answerOf
  congr 1
  exact List.map_congr_left fun r hr => by rw [h r hr]

theorem toJson_refines (M : Meas ℝ) (gs : List Getter) :
    ∀ s : St ℝ, Spec.WF s → Spec.Coherent M s →
      Refines M s (toJson M gs s) (Spec.toJsonAns M s.cls (observe s) gs) := by
  induction gs with
  | nil => intro s hw hc; exact refines_same hw hc _ _ rfl
  | cons g gs ih =>
    intro s hw hc
    have hg := getter_refines M g s hw hc
    have fg := getter_frame M g s
    have w1 := WF.of_frame hw fg
    have c1 := coherent_of_obs hc hg.obs fg.cls hg.edges
    have hr := ih _ w1 c1
    have fr := toJson_frame M gs (getter M g s).1
    rw [fg.cls, hg.obs] at hr
    have ea : (getter M g s).2.err = (Spec.getterAns M s.cls (observe s) g).err := by rw [← hg.ans]; rfl
    have eb : (toJson M gs (getter M g s).1).2.err = (Spec.toJsonAns M s.cls (observe s) gs).err := by
      rw [← hr.ans]; rfl
    simp only [toJson, Spec.toJsonAns]
    rw [← ea, ← eb]
    cases h1 : (getter M g s).2.err with
    | some k =>
      simp only []
      exact ⟨hg.obs, rfl, hg.edges⟩
    | none =>
      simp only []
      cases h2 : (toJson M gs (getter M g s).1).2.err with
      | some k =>
        simp only []
        exact ⟨hr.obs.trans hg.obs, rfl, fun i hi => by rw [hr.edges i hi, hg.obs]⟩
      | none =>
        simp only []
        refine ⟨hr.obs.trans hg.obs, ?_, fun i hi => by rw [hr.edges i hi, hg.obs]⟩
        have s1 : answerOf ((toJson M gs (getter M g s).1).1, (getter M g s).2) = answerOf (getter M g s) :=
          answerOf_stable _ _ _ fun r hr' => stable_get fr hr.obs _ (getter_rets M g s hw r hr')
        have a1 := hg.ans
        have a2 := hr.ans
        rw [← s1] at a1
        rw [← a1, ← a2]
        simp only [answerOf, List.map_append]

end C16
