import CoxeterVerif.Lemmas.PolytriBoundary
/-!
  C02 (deepening): more about the ear clipping `Polytri.triangulate`

  * `loop_oriented`   — every emitted triangle passed the ear test `dot > 1e-6 |normal|²`
                        (orientation of the output relative to the Newell normal);
  * `loop_error_kind` — termination: with the fuel `triangulate` supplies the loop never runs out
                        of fuel, so the only error of the model is the Python's `ValueError`;
  * `loop_stuck`      — the failure exit: a polygon none of whose corners is clippable and whose
                        vector area is not negligible makes the loop raise.
-/
open Scalar
set_option maxRecDepth 4000
noncomputable section

namespace Polytri

/-- the ear test of `triangulate` (`dot > 1E-6 * np.dot(normal, normal)`), verbatim -/
def EarTest (normal : V3 ℝ) (t : Tri ℝ) : Prop :=
  (lit 1 / lit 1000000) * V3.dot normal normal < V3.dot normal (V3.cross (t.c - t.b) (t.b - t.a))

/-- the corner `i, i+1, i+2 (mod n)` of the current polygon -/
def corner (poly : Array (V3 ℝ)) (i : Nat) : Tri ℝ :=
  ⟨getLoop poly i, getLoop poly (i + 1), getLoop poly (i + 2)⟩

/-- **every emitted triangle passed the ear test** (induction on the fuel) -/
theorem loop_oriented (normal : V3 ℝ) (fuel : Nat) :
    ∀ (poly : Array (V3 ℝ)) (i : Nat) (acc tris : List (Tri ℝ)),
      loop normal fuel poly i acc = .ok tris →
      (∀ t ∈ acc, EarTest normal t) → ∀ t ∈ tris, EarTest normal t := by
  induction fuel with
  | zero => intro poly i acc tris h; simp [loop] at h
  | succ fuel ih =>
    intro poly i acc tris h hacc
    rw [loop] at h
    by_cases h1 : poly.size ≤ 2
    · rw [if_pos h1] at h
      have := (Except.ok.inj h).symm
      subst this
      intro t ht; exact hacc t (List.mem_reverse.mp ht)
    · rw [if_neg h1] at h
      by_cases h2 : i ≥ poly.size
      · rw [if_pos h2] at h
        simp only [] at h
        split_ifs at h with hdeg
        have := (Except.ok.inj h).symm
        subst this
        intro t ht; exact hacc t (List.mem_reverse.mp ht)
      · rw [if_neg h2] at h
        simp only [] at h
        by_cases h4 : (veq (getLoop poly i) (getLoop poly (i + 1))
            || veq (getLoop poly (i + 1)) (getLoop poly (i + 2))) = true
        · rw [if_pos h4] at h
          exact ih _ _ _ _ h hacc
        · rw [if_neg h4] at h
          split_ifs at h with h5 h6
          · refine ih _ _ _ _ h ?_
            intro t ht
            rcases List.mem_cons.mp ht with rfl | ht
            · exact h5
            · exact hacc t ht
          · exact ih _ _ _ _ h hacc
          · exact ih _ _ _ _ h hacc

theorem getLoop_mem (poly : Array (V3 ℝ)) (h : 0 < poly.size) (i : Nat) :
    getLoop poly i ∈ poly.toList := by
  rw [getLoop_eq]; unfold loopGet
  have hi : i % poly.toList.length < poly.toList.length := Nat.mod_lt _ (by simpa using h)
  rw [List.getD_eq_getElem?_getD, List.getElem?_eq_getElem hi]
  exact List.getElem_mem hi

/-- **every emitted triangle has its three vertices among the polygon's vertices** -/
theorem loop_mem (normal : V3 ℝ) (L : List (V3 ℝ)) (fuel : Nat) :
    ∀ (poly : Array (V3 ℝ)) (i : Nat) (acc tris : List (Tri ℝ)),
      loop normal fuel poly i acc = .ok tris → (∀ v ∈ poly.toList, v ∈ L) →
      (∀ t ∈ acc, t.a ∈ L ∧ t.b ∈ L ∧ t.c ∈ L) → ∀ t ∈ tris, t.a ∈ L ∧ t.b ∈ L ∧ t.c ∈ L := by
  induction fuel with
  | zero => intro poly i acc tris h; simp [loop] at h
  | succ fuel ih =>
    intro poly i acc tris h hsub hacc
    rw [loop] at h
    by_cases h1 : poly.size ≤ 2
    · rw [if_pos h1] at h
      have := (Except.ok.inj h).symm
      subst this
      intro t ht; exact hacc t (List.mem_reverse.mp ht)
    · rw [if_neg h1] at h
      by_cases h2 : i ≥ poly.size
      · rw [if_pos h2] at h
        simp only [] at h
        split_ifs at h with hdeg
        have := (Except.ok.inj h).symm
        subst this
        intro t ht; exact hacc t (List.mem_reverse.mp ht)
      · rw [if_neg h2] at h
        simp only [] at h
        have hsub' : ∀ v ∈ (poly.eraseIdxIfInBounds ((i + 1) % poly.size)).toList, v ∈ L := by
          intro v hv
          rw [Array.toList_eraseIdxIfInBounds] at hv
          exact hsub v ((List.eraseIdx_sublist _ _).mem hv)
        by_cases h4 : (veq (getLoop poly i) (getLoop poly (i + 1))
            || veq (getLoop poly (i + 1)) (getLoop poly (i + 2))) = true
        · rw [if_pos h4] at h
          exact ih _ _ _ _ h hsub' hacc
        · rw [if_neg h4] at h
          split_ifs at h with h5 h6
          · refine ih _ _ _ _ h hsub' ?_
            intro t ht
            rcases List.mem_cons.mp ht with rfl | ht
            · have hp : 0 < poly.size := by omega
              exact ⟨hsub _ (getLoop_mem poly hp _), hsub _ (getLoop_mem poly hp _),
                hsub _ (getLoop_mem poly hp _)⟩
            · exact hacc t ht
          · exact ih _ _ _ _ h hsub hacc
          · exact ih _ _ _ _ h hsub hacc

/-- **termination**: with `size² + 2 size + 1 ≤ fuel + i` the loop never reports `"fuel"`; its
only error is the `ValueError("Triangulation failed")` of the Python. -/
theorem loop_error_kind (normal : V3 ℝ) (fuel : Nat) :
    ∀ (poly : Array (V3 ℝ)) (i : Nat) (acc : List (Tri ℝ)) (e : String),
      i ≤ poly.size → poly.size * poly.size + 2 * poly.size + 1 ≤ fuel + i →
      loop normal fuel poly i acc = .error e → e = "ValueError" := by
  induction fuel with
  | zero =>
    intro poly i acc e hi hf _
    exfalso
    have : poly.size * poly.size + 2 * poly.size + 1 ≤ poly.size := by omega
    omega
  | succ fuel ih =>
    intro poly i acc e hi hf h
    rw [loop] at h
    by_cases h1 : poly.size ≤ 2
    · rw [if_pos h1] at h; cases h
    · rw [if_neg h1] at h
      by_cases h2 : i ≥ poly.size
      · rw [if_pos h2] at h
        simp only [] at h
        split_ifs at h with hdeg
        exact (Except.error.inj h).symm
      · rw [if_neg h2] at h
        simp only [] at h
        have hj : (i + 1) % poly.size < poly.size := Nat.mod_lt _ (by omega)
        have hsz := size_erase poly hj
        -- after an erase: size' = size − 1, and size'² + 2 size' + 1 = size²
        have herase : ∀ i', i' ≤ (poly.eraseIdxIfInBounds ((i + 1) % poly.size)).size →
            (poly.eraseIdxIfInBounds ((i + 1) % poly.size)).size
                * (poly.eraseIdxIfInBounds ((i + 1) % poly.size)).size
              + 2 * (poly.eraseIdxIfInBounds ((i + 1) % poly.size)).size + 1 ≤ fuel + i' := by
          intro i' _
          generalize (poly.eraseIdxIfInBounds ((i + 1) % poly.size)).size = s' at hsz ⊢
          have hs : poly.size = s' + 1 := by omega
          rw [hs] at hf h2
          have : (s' + 1) * (s' + 1) = s' * s' + 2 * s' + 1 := by ring
          omega
        by_cases h4 : (veq (getLoop poly i) (getLoop poly (i + 1))
            || veq (getLoop poly (i + 1)) (getLoop poly (i + 2))) = true
        · rw [if_pos h4] at h
          exact ih _ _ _ _ (by omega) (herase i (by omega)) h
        · rw [if_neg h4] at h
          split_ifs at h with h5 h6
          · exact ih _ _ _ _ (Nat.zero_le _) (herase 0 (Nat.zero_le _)) h
          · exact ih _ _ _ _ (by omega) (by omega) h
          · exact ih _ _ _ _ (by omega) (by omega) h

/-- a corner the loop can do nothing with: no duplicate, and either below the ear threshold or
blocked by another vertex -/
def Unclippable (normal : V3 ℝ) (poly : Array (V3 ℝ)) (j : Nat) : Prop :=
  (veq (getLoop poly j) (getLoop poly (j + 1)) || veq (getLoop poly (j + 1)) (getLoop poly (j + 2)))
      = false ∧
  (EarTest normal (corner poly j) →
    anyPointInTriangle (getLoop poly j) (getLoop poly (j + 1)) (getLoop poly (j + 2)) (others poly j)
      = true)

/-- **the failure exit**: if no corner from `i` on is clippable and the vector area of what is left
is not negligible, the loop raises `ValueError("Triangulation failed")`. -/
theorem loop_stuck (normal : V3 ℝ) (fuel : Nat) :
    ∀ (poly : Array (V3 ℝ)) (i : Nat) (acc : List (Tri ℝ)),
      3 ≤ poly.size → i ≤ poly.size → poly.size + 1 ≤ fuel + i →
      (∀ j, i ≤ j → j < poly.size → Unclippable normal poly j) →
      ¬ restDegenerate normal poly.toList →
      loop normal fuel poly i acc = .error "ValueError" := by
  induction fuel with
  | zero => intro poly i acc h3 hi hf; omega
  | succ fuel ih =>
    intro poly i acc h3 hi hf hun hnd
    rw [loop]
    rw [if_neg (by omega)]
    by_cases h2 : i ≥ poly.size
    · rw [if_pos h2]
      simp only []
      rw [if_neg]
      unfold restDegenerate restVec at hnd
      simpa using hnd
    · rw [if_neg h2]
      simp only []
      obtain ⟨hdup, hear⟩ := hun i (Nat.le_refl _) (by omega)
      rw [if_neg (by rw [hdup]; simp)]
      have hnext := ih poly (i + 1) acc h3 (by omega) (by omega)
        (fun j hj hj' => hun j (by omega) hj') hnd
      by_cases h5 : (lit 1 / lit 1000000) * V3.dot normal normal
          < V3.dot normal (V3.cross (getLoop poly (i + 2) - getLoop poly (i + 1))
              (getLoop poly (i + 1) - getLoop poly i))
      · rw [if_pos h5]
        have := hear h5
        rw [this]
        simpa using hnext
      · rw [if_neg h5]; exact hnext

end Polytri

end
