import CoxeterVerif.Lemmas.StructureHull
import CoxeterVerif.Lemmas.StructureCheck
import Mathlib.Data.Rat.Cast.Order
/-!
  C07, deepening round — the certificates are evaluated by the driver over ℚ (`Q` mode; every
  double is a dyadic rational, so this is exact on the implementation's own data), the soundness
  theorems are over ℝ. This file closes the gap: the geometric certificate functions only use
  `+ − × <` and literals, so their value on rational data equals their value on the same data cast
  to ℝ (`surfaceCert_cast`, `outwardFromB_cast`).
-/
open Struct Scalar
set_option maxRecDepth 4000
noncomputable section

namespace StructLemmas

/-- the rational point as a real point -/
def castV (v : V3 ℚ) : V3 ℝ := ⟨(v.x : ℝ), (v.y : ℝ), (v.z : ℝ)⟩

theorem castV_zero : castV (V3.zero : V3 ℚ) = (V3.zero : V3 ℝ) := by
  simp only [castV, V3.zero, Scalar.lit, Scalar.ofNat_real, Nat.cast_zero]
  have : (Scalar.ofNat 0 : ℚ) = 0 := rfl
  rw [this]; simp

theorem getD_cast (verts : List (V3 ℚ)) (i : Nat) :
    (verts.map castV).getD i V3.zero = castV (verts.getD i V3.zero) := by
  simp only [List.getD_eq_getElem?_getD, List.getElem?_map]
  cases verts[i]? with
  | none => simp [castV_zero]
  | some v => simp

theorem sub_cast (u v : V3 ℚ) : castV u - castV v = castV (u - v) := by
  show V3.sub (castV u) (castV v) = castV (V3.sub u v)
  simp only [V3.sub, castV]
  congr 1 <;> push_cast <;> rfl

theorem cross_cast (u v : V3 ℚ) : V3.cross (castV u) (castV v) = castV (V3.cross u v) := by
  simp only [V3.cross, castV]
  congr 1 <;> push_cast <;> rfl

theorem dot_cast (u v : V3 ℚ) : V3.dot (castV u) (castV v) = ((V3.dot u v : ℚ) : ℝ) := by
  simp only [V3.dot, castV]
  push_cast
  rfl

theorem det3_cast (u v w : V3 ℚ) : V3.det3 (castV u) (castV v) (castV w) = ((V3.det3 u v w : ℚ) : ℝ) := by
  unfold V3.det3
  rw [cross_cast, dot_cast]

theorem rawNormal_cast (a b c : V3 ℚ) :
    StructSpec.rawNormal (castV a) (castV b) (castV c) = castV (StructSpec.rawNormal a b c) := by
  unfold StructSpec.rawNormal
  rw [sub_cast, sub_cast, cross_cast]

theorem pos_cast_iff (x : ℚ) : ((Scalar.lit 0 : ℝ) < (x : ℝ)) ↔ ((Scalar.lit 0 : ℚ) < x) := by
  have h1 : (Scalar.lit 0 : ℝ) = 0 := by simp [Scalar.lit]
  have h2 : (Scalar.lit 0 : ℚ) = 0 := rfl
  rw [h1, h2]; exact Rat.cast_pos

theorem neg_cast_iff (x : ℚ) : ((x : ℝ) < (Scalar.lit 0 : ℝ)) ↔ (x < (Scalar.lit 0 : ℚ)) := by
  have h1 : (Scalar.lit 0 : ℝ) = 0 := by simp [Scalar.lit]
  have h2 : (Scalar.lit 0 : ℚ) = 0 := rfl
  rw [h1, h2]; exact Rat.cast_lt_zero

theorem decide_pos_cast (x : ℚ) : decide ((Scalar.lit 0 : ℝ) < (x : ℝ)) = decide ((Scalar.lit 0 : ℚ) < x) := by
  by_cases h : (Scalar.lit 0 : ℚ) < x
  · rw [decide_eq_true h, decide_eq_true ((pos_cast_iff x).mpr h)]
  · rw [decide_eq_false h, decide_eq_false (fun h' => h ((pos_cast_iff x).mp h'))]

theorem sgn_cast (x : ℚ) : StructSpec.sgn (x : ℝ) = StructSpec.sgn x := by
  unfold StructSpec.sgn
  by_cases h1 : (Scalar.lit 0 : ℚ) < x
  · rw [if_pos ((pos_cast_iff x).mpr h1), if_pos h1]
  · rw [if_neg (fun h => h1 ((pos_cast_iff x).mp h)), if_neg h1]
    by_cases h2 : x < (Scalar.lit 0 : ℚ)
    · rw [if_pos ((neg_cast_iff x).mpr h2), if_pos h2]
    · rw [if_neg (fun h => h2 ((neg_cast_iff x).mp h)), if_neg h2]

theorem castV_x (v : V3 ℚ) : (castV v).x = (v.x : ℝ) := rfl
theorem castV_y (v : V3 ℚ) : (castV v).y = (v.y : ℝ) := rfl
theorem castV_z (v : V3 ℚ) : (castV v).z = (v.z : ℝ) := rfl

theorem sides_cast (verts : List (V3 ℚ)) (face : Face) :
    StructSpec.sides (verts.map castV) face = StructSpec.sides verts face := by
  unfold StructSpec.sides
  simp only [getD_cast, rawNormal_cast, List.map_map]
  apply List.map_congr_left
  intro v _
  simp only [Function.comp, sub_cast, dot_cast, sgn_cast]

theorem isSupportingFacet_cast (verts : List (V3 ℚ)) (face : Face) :
    StructSpec.isSupportingFacet (verts.map castV) face = StructSpec.isSupportingFacet verts face := by
  unfold StructSpec.isSupportingFacet
  rw [sides_cast, List.length_map]

theorem faceWellFormed_cast (verts : List (V3 ℚ)) (face : Face) :
    StructSpec.faceWellFormed (verts.map castV) face = StructSpec.faceWellFormed verts face := by
  unfold StructSpec.faceWellFormed
  simp only [getD_cast, rawNormal_cast, List.length_map, castV_x, castV_y, castV_z, sgn_cast]

theorem cycleConvexCcw_cast (verts : List (V3 ℚ)) (face : Face) :
    StructSpec.cycleConvexCcw (verts.map castV) face = StructSpec.cycleConvexCcw verts face := by
  unfold StructSpec.cycleConvexCcw
  simp only [getD_cast, rawNormal_cast, sub_cast, cross_cast, dot_cast, decide_pos_cast]

theorem outwardFromB_cast (verts : List (V3 ℚ)) (p : V3 ℚ) (S : List Face) :
    StructSpec.outwardFromB (verts.map castV) (castV p) S = StructSpec.outwardFromB verts p S := by
  unfold StructSpec.outwardFromB
  simp only [getD_cast, sub_cast, det3_cast, decide_pos_cast]

/-- **the surface certificate has the same value over ℚ and over ℝ** -/
theorem surfaceCert_cast (verts : List (V3 ℚ)) (faces : List Face) :
    StructSpec.surfaceCert (verts.map castV) faces = StructSpec.surfaceCert verts faces := by
  unfold StructSpec.surfaceCert
  simp only [faceWellFormed_cast, isSupportingFacet_cast, cycleConvexCcw_cast, List.length_map]

/-- **the simplex certificate has the same value over ℚ and over ℝ** -/
theorem simplexCert_cast (verts : List (V3 ℚ)) (start : List Face) (nbrs : List (List Nat))
    (G : List Face) (p : V3 ℚ) :
    simplexCert (verts.map castV) start nbrs G (castV p) = simplexCert verts start nbrs G p := by
  unfold simplexCert
  rw [outwardFromB_cast]

end StructLemmas
