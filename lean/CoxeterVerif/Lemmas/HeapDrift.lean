import CoxeterVerif.Lemmas.HeapValues
/-!
  # C16 — where `to_hoomd` leaves the shape, in ANY scalar arithmetic

  `to_hoomd` of `Polygon`, `ConvexPolygon`, `Polyhedron`, `ConvexPolyhedron`, `ConvexSpheropolyhedron`
  centres the shape in place (`self.centroid = (0,0,0)`), copies what it needs and moves the shape back
  (`self.centroid = old_centroid`). Nothing here is specific to ℝ: for every `[Scalar α]` (so also for
  `Float`, the arithmetic the driver runs and the harness compares bit for bit) and for ANY centroid
  getter, the state afterwards is `moved (moved o 0) c₀`, and each coordinate of the live vertex array
  has gone through `roundTrip c₀ c₁ x = (x + (0 − c₀)) + (c₀ − c₁)`.
-/
namespace C16
open Scalar
set_option maxRecDepth 4000

section generic
variable {α : Type} [Scalar α]

theorem setCentroid_cls_gen (M : Meas α) (s : St α) (v : V3 α) : (setCentroid M s v).cls = s.cls :=
  (setCentroid_frame M s v).cls

theorem WF.setCentroid_gen {M : Meas α} {s : St α} (hw : Spec.WF s) (v : V3 α) : Spec.WF (setCentroid M s v) :=
  WF.of_frame hw (setCentroid_frame M s v)

/-- the centroid the caller reads after `shape.centroid = v` -/
theorem pubCentroid_setCentroid (M : Meas α) (s : St α) (v : V3 α) (hw : Spec.WF s) :
    pubCentroid M (setCentroid M s v) = Spec.centroidOf M s.cls (Spec.moved M s.cls (observe s) v) := by
  rw [← centroidOf_observe, observe_setCentroid M s v hw, setCentroid_cls_gen]

theorem polygonToHoomd_observe_gen (M : Meas α) (s : St α) (hw : Spec.WF s) (hk : s.cls.kind = .planar) :
    observe (polygonToHoomd M s).1 =
      Spec.moved M s.cls (Spec.moved M s.cls (observe s) V3.zero) (Spec.centroidOf M s.cls (observe s)) := by
  have w1 := WF.setCentroid_gen (M := M) hw V3.zero
  have o1 := observe_setCentroid M s V3.zero hw
  have c1 := setCentroid_cls_gen M s V3.zero
  have w2 := WF.alloc w1 (v3l (pubCentroid M (setCentroid M s V3.zero)))
  have o2 := observe_alloc _ (v3l (pubCentroid M (setCentroid M s V3.zero))) w1
  have k2 : ((setCentroid M s V3.zero).alloc (v3l (pubCentroid M (setCentroid M s V3.zero)))).cls.kind = .planar := by
    show (setCentroid M s V3.zero).cls.kind = _; rw [c1, hk]
  have f3 := polygonInertia_frame M ((setCentroid M s V3.zero).alloc (v3l (pubCentroid M (setCentroid M s V3.zero))))
  have w3 := WF.of_frame w2 f3
  have o3 := observe_polygonInertia M _ w2 k2
  have w4 := WF.alloc w3 (cols2 ((polygonInertia M ((setCentroid M s V3.zero).alloc
    (v3l (pubCentroid M (setCentroid M s V3.zero))))).1.get (polygonInertia M ((setCentroid M s V3.zero).alloc
    (v3l (pubCentroid M (setCentroid M s V3.zero))))).1.fVerts))
  have o4 := observe_alloc _ (cols2 ((polygonInertia M ((setCentroid M s V3.zero).alloc
    (v3l (pubCentroid M (setCentroid M s V3.zero))))).1.get (polygonInertia M ((setCentroid M s V3.zero).alloc
    (v3l (pubCentroid M (setCentroid M s V3.zero))))).1.fVerts)) w3
  have o5 := observe_setCentroid M _ (pubCentroid M s) w4
  rw [o4, o3, o2, o1] at o5
  have cls4 : ((polygonInertia M ((setCentroid M s V3.zero).alloc (v3l (pubCentroid M (setCentroid M s V3.zero))))).1.alloc
      (cols2 ((polygonInertia M ((setCentroid M s V3.zero).alloc (v3l (pubCentroid M (setCentroid M s V3.zero))))).1.get
        (polygonInertia M ((setCentroid M s V3.zero).alloc (v3l (pubCentroid M (setCentroid M s V3.zero))))).1.fVerts))).cls
      = s.cls := by
    show (polygonInertia M _).1.cls = _
    rw [(polygonInertia_frame M _).cls]; exact c1
  rw [cls4, ← centroidOf_observe M s] at o5
  exact o5

theorem polyToHoomd_observe_gen (M : Meas α) (s : St α) (hw : Spec.WF s) (hk : s.cls.kind = .poly) :
    observe (polyhedronToHoomd M s).1 =
      Spec.moved M s.cls (Spec.moved M s.cls (observe s) V3.zero) (Spec.centroidOf M s.cls (observe s)) := by
  have w1 := WF.setCentroid_gen (M := M) hw V3.zero
  have o1 := observe_setCentroid M s V3.zero hw
  have c1 := setCentroid_cls_gen M s V3.zero
  have w2 := WF.alloc w1 (v3l (pubCentroid M (setCentroid M s V3.zero)))
  have o2 := observe_alloc _ (v3l (pubCentroid M (setCentroid M s V3.zero))) w1
  have f3 := polyhedronInertia_frame M ((setCentroid M s V3.zero).alloc (v3l (pubCentroid M (setCentroid M s V3.zero))))
  have w3 := WF.of_frame w2 f3
  obtain ⟨o3, _⟩ := observe_polyhedronInertia M _ w2
  have w4 := WF.alloc w3 ((polyhedronInertia M ((setCentroid M s V3.zero).alloc
    (v3l (pubCentroid M (setCentroid M s V3.zero))))).1.get (polyhedronInertia M ((setCentroid M s V3.zero).alloc
    (v3l (pubCentroid M (setCentroid M s V3.zero))))).1.fVerts)
  have o4 := observe_alloc _ ((polyhedronInertia M ((setCentroid M s V3.zero).alloc
    (v3l (pubCentroid M (setCentroid M s V3.zero))))).1.get (polyhedronInertia M ((setCentroid M s V3.zero).alloc
    (v3l (pubCentroid M (setCentroid M s V3.zero))))).1.fVerts) w3
  have o5 := observe_setCentroid M _ (pubCentroid M s) w4
  rw [o4, o3, o2, o1] at o5
  have cls4 : ((polyhedronInertia M ((setCentroid M s V3.zero).alloc (v3l (pubCentroid M (setCentroid M s V3.zero))))).1.alloc
      ((polyhedronInertia M ((setCentroid M s V3.zero).alloc (v3l (pubCentroid M (setCentroid M s V3.zero))))).1.get
        (polyhedronInertia M ((setCentroid M s V3.zero).alloc (v3l (pubCentroid M (setCentroid M s V3.zero))))).1.fVerts)).cls
      = s.cls := c1
  rw [cls4, ← centroidOf_observe M s] at o5
  simp only [polyhedronToHoomd, hk, if_true]
  exact o5

omit [Scalar α] in
theorem old_centroid_kept_gen {s t : St α} (hf : Frame s t) (hw : Spec.WF s) : t.get s.fCen = s.get s.fCen :=
  hf.get_eq _ hw.cen.1 hw.cen.2

theorem convexToHoomd_observe_gen (M : Meas α) (s : St α) (hw : Spec.WF s) (hk : s.cls.kind = .convex) :
    observe (polyhedronToHoomd M s).1 =
      Spec.moved M s.cls (Spec.moved M s.cls (observe s) V3.zero) (Spec.centroidOf M s.cls (observe s)) := by
  have hnp : ¬ s.cls.kind = .poly := by rw [hk]; simp
  have f1 := setCentroid_frame M s V3.zero
  have w1 := WF.setCentroid_gen (M := M) hw V3.zero
  have o1 := observe_setCentroid M s V3.zero hw
  have c1 := setCentroid_cls_gen M s V3.zero
  have f3 := polyhedronInertia_frame M (setCentroid M s V3.zero)
  have w3 := WF.of_frame w1 f3
  obtain ⟨o3, _⟩ := observe_polyhedronInertia M _ w1
  have w4 := WF.alloc w3 ((polyhedronInertia M (setCentroid M s V3.zero)).1.get
    (polyhedronInertia M (setCentroid M s V3.zero)).1.fVerts)
  have f4 := Frame.alloc (polyhedronInertia M (setCentroid M s V3.zero)).1 ((polyhedronInertia M (setCentroid M s V3.zero)).1.get
    (polyhedronInertia M (setCentroid M s V3.zero)).1.fVerts)
  have o4 := observe_alloc _ ((polyhedronInertia M (setCentroid M s V3.zero)).1.get
    (polyhedronInertia M (setCentroid M s V3.zero)).1.fVerts) w3
  have old : ((polyhedronInertia M (setCentroid M s V3.zero)).1.alloc ((polyhedronInertia M (setCentroid M s V3.zero)).1.get
      (polyhedronInertia M (setCentroid M s V3.zero)).1.fVerts)).get s.fCen = (observe s).cen :=
    old_centroid_kept_gen ((f1.trans f3).trans f4) hw
  have o5 := observe_setCentroid M ((polyhedronInertia M (setCentroid M s V3.zero)).1.alloc
    ((polyhedronInertia M (setCentroid M s V3.zero)).1.get (polyhedronInertia M (setCentroid M s V3.zero)).1.fVerts))
    (l3v (observe s).cen) w4
  rw [o4, o3, o1] at o5
  have cls4 : ((polyhedronInertia M (setCentroid M s V3.zero)).1.alloc ((polyhedronInertia M (setCentroid M s V3.zero)).1.get
      (polyhedronInertia M (setCentroid M s V3.zero)).1.fVerts)).cls = s.cls := c1
  have cen0 : l3v (observe s).cen = Spec.centroidOf M s.cls (observe s) := by
    unfold Spec.centroidOf; rw [hk]
  rw [cls4, cen0] at o5
  simp only [polyhedronToHoomd, hnp, if_false, old]
  rw [cen0]
  exact o5

theorem spheropolyhedronToHoomd_observe_gen (M : Meas α) (s : St α) (hw : Spec.WF s) (hk : s.cls.kind = .convex) :
    observe (spheropolyhedronToHoomd M s).1 =
      Spec.moved M s.cls (Spec.moved M s.cls (observe s) V3.zero) (Spec.centroidOf M s.cls (observe s)) := by
  have f1 := setCentroid_frame M s V3.zero
  have w1 := WF.setCentroid_gen (M := M) hw V3.zero
  have o1 := observe_setCentroid M s V3.zero hw
  have c1 := setCentroid_cls_gen M s V3.zero
  have w2 := WF.alloc w1 ((setCentroid M s V3.zero).get (setCentroid M s V3.zero).fVerts)
  have f2 := Frame.alloc (setCentroid M s V3.zero) ((setCentroid M s V3.zero).get (setCentroid M s V3.zero).fVerts)
  have o2 := observe_alloc _ ((setCentroid M s V3.zero).get (setCentroid M s V3.zero).fVerts) w1
  have old : ((setCentroid M s V3.zero).alloc ((setCentroid M s V3.zero).get (setCentroid M s V3.zero).fVerts)).get s.fCen
      = (observe s).cen := old_centroid_kept_gen (f1.trans f2) hw
  have o5 := observe_setCentroid M ((setCentroid M s V3.zero).alloc ((setCentroid M s V3.zero).get
    (setCentroid M s V3.zero).fVerts)) (l3v (observe s).cen) w2
  rw [o2, o1] at o5
  have cls2 : ((setCentroid M s V3.zero).alloc ((setCentroid M s V3.zero).get (setCentroid M s V3.zero).fVerts)).cls
      = s.cls := c1
  have cen0 : l3v (observe s).cen = Spec.centroidOf M s.cls (observe s) := by
    unfold Spec.centroidOf; rw [hk]
  rw [cls2, cen0] at o5
  simp only [spheropolyhedronToHoomd, old]
  rw [cen0]
  exact o5

/-- the five classes whose `to_hoomd` moves the vertex array to the origin and back -/
def MovesVerts (cls : Cls) : Prop :=
  cls = .polygon ∨ cls = .convexPolygon ∨ cls = .polyhedron ∨ cls = .convexPolyhedron ∨ cls = .spheropolyhedron

theorem MovesVerts.kind_ne_curved {cls : Cls} (h : MovesVerts cls) : cls.kind ≠ .curved := by
  rcases h with h | h | h | h | h <;> rw [h] <;> simp [Cls.kind]

/-- **where `to_hoomd` leaves the shape** — any scalar type, any centroid getter, only `WF` -/
theorem toHoomd_observe_gen (M : Meas α) (s : St α) (hw : Spec.WF s) (hcls : MovesVerts s.cls) :
    observe (toHoomd M s).1 =
      Spec.moved M s.cls (Spec.moved M s.cls (observe s) V3.zero) (Spec.centroidOf M s.cls (observe s)) := by
  unfold toHoomd
  rcases hcls with h | h | h | h | h
  · rw [h]; simp only []; rw [← h]; exact polygonToHoomd_observe_gen M s hw (by rw [h]; rfl)
  · rw [h]; simp only []; rw [← h]; exact polygonToHoomd_observe_gen M s hw (by rw [h]; rfl)
  · rw [h]; simp only []; rw [← h]; exact polyToHoomd_observe_gen M s hw (by rw [h]; rfl)
  · rw [h]; simp only []; rw [← h]; exact convexToHoomd_observe_gen M s hw (by rw [h]; rfl)
  · rw [h]; simp only []; rw [← h]; exact spheropolyhedronToHoomd_observe_gen M s hw (by rw [h]; rfl)

/-! ### coordinate-wise form -/

theorem shiftRows_eq_mapRows (δ : V3 α) : ∀ l : Arr α,
    shiftRows δ l = mapRows (· + δ.x) (· + δ.y) (· + δ.z) l
  | x :: y :: z :: r => by simp only [shiftRows, mapRows, shiftRows_eq_mapRows δ r]
  | [] => rfl
  | [_] => rfl
  | [_, _] => rfl

omit [Scalar α] in
theorem mapRows_mapRows (f g h f' g' h' : α → α) : ∀ l : Arr α,
    mapRows f g h (mapRows f' g' h' l) = mapRows (f ∘ f') (g ∘ g') (h ∘ h') l
  | x :: y :: z :: r => by simp only [mapRows, mapRows_mapRows f g h f' g' h' r, Function.comp]
  | [] => rfl
  | [_] => rfl
  | [_, _] => rfl

/-- two successive `+=` on the rows, written per coordinate -/
theorem shiftRows_twice (c0 c1 : V3 α) (l : Arr α) :
    shiftRows (c0 - c1) (shiftRows (V3.zero - c0) l) =
      mapRows (roundTrip c0.x c1.x) (roundTrip c0.y c1.y) (roundTrip c0.z c1.z) l := by
  rw [shiftRows_eq_mapRows, shiftRows_eq_mapRows, mapRows_mapRows]
  rfl

/-- **`to_hoomd`, coordinate by coordinate.** For every scalar arithmetic (`Float` included), every
centroid getter and every array size: afterwards the live vertex array holds
`roundTrip c₀ c₁ x = (x + (0 − c₀)) + (c₀ − c₁)` in place of `x`, where `c₀` is the centroid the caller
reads before the call and `c₁` the centroid it would read from the centred shape. -/
theorem toHoomd_verts_gen (M : Meas α) (s : St α) (hw : Spec.WF s) (hcls : MovesVerts s.cls) :
    (toHoomd M s).1.get s.fVerts =
      mapRows (roundTrip (pubCentroid M s).x (pubCentroid M (setCentroid M s V3.zero)).x)
        (roundTrip (pubCentroid M s).y (pubCentroid M (setCentroid M s V3.zero)).y)
        (roundTrip (pubCentroid M s).z (pubCentroid M (setCentroid M s V3.zero)).z) (s.get s.fVerts) := by
  have ho := congrArg Obs.verts (toHoomd_observe_gen M s hw hcls)
  have hv : (toHoomd M s).1.fVerts = s.fVerts := (toHoomd_frame M s hw).1.fVerts
  have hl : (toHoomd M s).1.get s.fVerts = (observe (toHoomd M s).1).verts := by
    show _ = (toHoomd M s).1.get (toHoomd M s).1.fVerts
    rw [hv]
  rw [hl, ho, pubCentroid_setCentroid M s V3.zero hw, ← centroidOf_observe M s, ← shiftRows_twice]
  have hk := hcls.kind_ne_curved
  unfold Spec.moved
  cases hkk : s.cls.kind with
  | curved => exact absurd hkk hk
  | planar => rfl
  | poly => rfl
  | convex => rfl

end generic
end C16
