import Mathlib.MeasureTheory.Measure.Lebesgue.Basic
import Mathlib.MeasureTheory.Measure.Prod
import Mathlib.MeasureTheory.Measure.Lebesgue.Integral
import Mathlib.MeasureTheory.Integral.IntervalIntegral.Basic
import Mathlib.Analysis.SpecialFunctions.Integrals.Basic
import Mathlib.Tactic.Ring
import Mathlib.Tactic.Linarith
import Mathlib.Tactic.NormNum
import Mathlib.Tactic.FieldSimp
import Mathlib.Tactic.Positivity

/-!
# Steiner's formula for the parallel body of a rectangle and of a box, as a theorem about
Lebesgue measure

`volume (K + r·B) = Σ_j κ_j V_{n-j}(K) r^j` for `K = [0,a]×[0,b]` (Euclidean disc `B`) and
`K = [0,a]×[0,b]×[0,c]` (Euclidean ball `B`).

The proof slices along the first coordinate: the distance (squared) from a point to a box is the
sum of the squared one–dimensional distances `dist1` to the factor intervals, so the parallel body
is `{p | dist1 a p.1 ^ 2 + g p.2 ≤ r ^ 2}` where `g` is the squared distance to the box of one
dimension less.  One generic slicing lemma (`volume_slice`) carries the measure of the sublevel sets
from dimension `n` to dimension `n + 1`.

Only Mathlib is imported.
-/

namespace Steiner.BoxMeasure

noncomputable section

open MeasureTheory Set

/-- distance from `x` to the interval `[0, a]` -/
def dist1 (a x : ℝ) : ℝ := max (max (-x) (x - a)) 0

def rect (a b : ℝ) : Set (ℝ × ℝ) := Set.Icc 0 a ×ˢ Set.Icc 0 b
def box (a b c : ℝ) : Set (ℝ × ℝ × ℝ) := Set.Icc 0 a ×ˢ (Set.Icc 0 b ×ˢ Set.Icc 0 c)

/-- Minkowski sum of `K` with the closed EUCLIDEAN disc of radius `r` (written out with squares, so
that the sup-metric of `ℝ × ℝ` plays no role) -/
def parallel2 (K : Set (ℝ × ℝ)) (r : ℝ) : Set (ℝ × ℝ) :=
  {p | ∃ q ∈ K, (p.1 - q.1) ^ 2 + (p.2 - q.2) ^ 2 ≤ r ^ 2}
def parallel3 (K : Set (ℝ × ℝ × ℝ)) (r : ℝ) : Set (ℝ × ℝ × ℝ) :=
  {p | ∃ q ∈ K, (p.1 - q.1) ^ 2 + (p.2.1 - q.2.1) ^ 2 + (p.2.2 - q.2.2) ^ 2 ≤ r ^ 2}

/-! ## The one–dimensional distance -/

theorem dist1_nonneg (a x : ℝ) : 0 ≤ dist1 a x := le_max_right _ _

theorem dist1_of_nonpos {a x : ℝ} (ha : 0 ≤ a) (hx : x ≤ 0) : dist1 a x = -x := by
  unfold dist1
  rw [max_eq_left (by linarith : x - a ≤ -x), max_eq_left (by linarith)]

theorem dist1_of_mem {a x : ℝ} (h0 : 0 ≤ x) (h1 : x ≤ a) : dist1 a x = 0 := by
  unfold dist1
  exact max_eq_right (max_le (by linarith) (by linarith))

theorem dist1_of_ge {a x : ℝ} (ha : 0 ≤ a) (hx : a ≤ x) : dist1 a x = x - a := by
  unfold dist1
  rw [max_eq_right (by linarith : -x ≤ x - a), max_eq_left (by linarith)]

theorem continuous_dist1 (a : ℝ) : Continuous (dist1 a) := by
  unfold dist1
  fun_prop

theorem measurable_dist1 (a : ℝ) : Measurable (dist1 a) := (continuous_dist1 a).measurable

/-- `dist1 a x ≤ ρ` is the interval `[-ρ, a + ρ]`. -/
theorem dist1_le_iff {a ρ : ℝ} (hρ : 0 ≤ ρ) (x : ℝ) :
    dist1 a x ≤ ρ ↔ -ρ ≤ x ∧ x ≤ a + ρ := by
  unfold dist1
  rw [max_le_iff, max_le_iff]
  constructor
  · rintro ⟨⟨h1, h2⟩, _⟩
    exact ⟨by linarith, by linarith⟩
  · rintro ⟨h1, h2⟩
    exact ⟨⟨by linarith, by linarith⟩, hρ⟩

theorem dist1_sq_le_iff {a s : ℝ} (hs : 0 ≤ s) (x : ℝ) :
    dist1 a x ^ 2 ≤ s ↔ -√s ≤ x ∧ x ≤ a + √s := by
  rw [← dist1_le_iff (Real.sqrt_nonneg s), Real.le_sqrt (dist1_nonneg a x) hs]

/-- every point of `[0,a]` is at least `dist1 a x` away from `x` -/
theorem dist1_sq_le {a q : ℝ} (hq : q ∈ Icc 0 a) (x : ℝ) : dist1 a x ^ 2 ≤ (x - q) ^ 2 := by
  have h : dist1 a x ≤ |x - q| := by
    unfold dist1
    refine max_le (max_le ?_ ?_) (abs_nonneg _)
    · have := neg_abs_le (x - q)
      have := hq.1
      linarith
    · have := le_abs_self (x - q)
      have := hq.2
      linarith
  calc dist1 a x ^ 2 ≤ |x - q| ^ 2 := pow_le_pow_left₀ (dist1_nonneg a x) h 2
    _ = (x - q) ^ 2 := sq_abs _

/-- the clamp of `x` to `[0,a]` realises the distance -/
theorem exists_dist1 {a : ℝ} (ha : 0 ≤ a) (x : ℝ) :
    ∃ q ∈ Icc 0 a, (x - q) ^ 2 = dist1 a x ^ 2 := by
  rcases le_total x 0 with hx | hx
  · exact ⟨0, ⟨le_rfl, ha⟩, by rw [dist1_of_nonpos ha hx]; ring⟩
  rcases le_total x a with hxa | hxa
  · exact ⟨x, ⟨hx, hxa⟩, by rw [dist1_of_mem hx hxa]; ring⟩
  · exact ⟨a, ⟨ha, le_rfl⟩, by rw [dist1_of_ge ha hxa]⟩

/-! ## The parallel bodies as sublevel sets -/

theorem parallel2_rect (a b r : ℝ) (ha : 0 ≤ a) (hb : 0 ≤ b) :
    parallel2 (rect a b) r = {p | dist1 a p.1 ^ 2 + dist1 b p.2 ^ 2 ≤ r ^ 2} := by
  ext p
  simp only [parallel2, rect, mem_ofPred_eq]
  constructor
  · rintro ⟨q, hq, h⟩
    rw [mem_prod] at hq
    have h1 := dist1_sq_le hq.1 p.1
    have h2 := dist1_sq_le hq.2 p.2
    linarith
  · intro h
    obtain ⟨q1, hq1, e1⟩ := exists_dist1 ha p.1
    obtain ⟨q2, hq2, e2⟩ := exists_dist1 hb p.2
    exact ⟨(q1, q2), mem_prod.2 ⟨hq1, hq2⟩, by simpa only [e1, e2] using h⟩

theorem parallel3_box (a b c r : ℝ) (ha : 0 ≤ a) (hb : 0 ≤ b) (hc : 0 ≤ c) :
    parallel3 (box a b c) r
      = {p | dist1 a p.1 ^ 2 + (dist1 b p.2.1 ^ 2 + dist1 c p.2.2 ^ 2) ≤ r ^ 2} := by
  ext p
  simp only [parallel3, box, mem_ofPred_eq]
  constructor
  · rintro ⟨q, hq, h⟩
    rw [mem_prod, mem_prod] at hq
    have h1 := dist1_sq_le hq.1 p.1
    have h2 := dist1_sq_le hq.2.1 p.2.1
    have h3 := dist1_sq_le hq.2.2 p.2.2
    linarith
  · intro h
    obtain ⟨q1, hq1, e1⟩ := exists_dist1 ha p.1
    obtain ⟨q2, hq2, e2⟩ := exists_dist1 hb p.2.1
    obtain ⟨q3, hq3, e3⟩ := exists_dist1 hc p.2.2
    refine ⟨(q1, q2, q3), mem_prod.2 ⟨hq1, mem_prod.2 ⟨hq2, hq3⟩⟩, ?_⟩
    simp only [e1, e2, e3]
    linarith

/-! ## Dimension one -/

theorem volume_sublevel1 (b s : ℝ) (hs : 0 ≤ s) :
    volume {y : ℝ | dist1 b y ^ 2 ≤ s} = ENNReal.ofReal (b + 2 * √s) := by
  have : {y : ℝ | dist1 b y ^ 2 ≤ s} = Icc (-√s) (b + √s) := by
    ext y
    simp only [mem_ofPred_eq, mem_Icc]
    exact dist1_sq_le_iff hs y
  rw [this, Real.volume_Icc]
  congr 1
  ring

/-! ## The slicing lemma -/

/-- **Slicing.**  If the sublevel sets of `g ≥ 0` on `E` have measure `G s`, then the sublevel sets
of `(x, e) ↦ dist1 a x ^ 2 + g e` on `ℝ × E` have measure
`a * G s + 2 ∫_0^{√s} G (s - t²) dt`. -/
theorem volume_slice {E : Type*} [MeasurableSpace E] (ν : Measure E) [SFinite ν]
    (g : E → ℝ) (hg : Measurable g) (hg0 : ∀ e, 0 ≤ g e)
    (G : ℝ → ℝ) (hGc : Continuous G) (hG0 : ∀ s, 0 ≤ s → 0 ≤ G s)
    (hG : ∀ s, 0 ≤ s → ν {e | g e ≤ s} = ENNReal.ofReal (G s))
    (a s : ℝ) (ha : 0 ≤ a) (hs : 0 ≤ s) :
    (volume.prod ν) {p : ℝ × E | dist1 a p.1 ^ 2 + g p.2 ≤ s}
      = ENNReal.ofReal (a * G s + 2 * ∫ t in (0:ℝ)..√s, G (s - t ^ 2)) := by
  have hS : MeasurableSet {p : ℝ × E | dist1 a p.1 ^ 2 + g p.2 ≤ s} :=
    measurableSet_le ((((measurable_dist1 a).comp measurable_fst).pow_const 2).add
      (hg.comp measurable_snd)) measurable_const
  rw [Measure.prod_apply hS]
  set F : ℝ → ℝ := fun x => G (s - dist1 a x ^ 2) with hF
  have hFc : Continuous F := hGc.comp (continuous_const.sub ((continuous_dist1 a).pow 2))
  have hρ : 0 ≤ √s := Real.sqrt_nonneg s
  have hslice : ∀ x, ν (Prod.mk x ⁻¹' {p : ℝ × E | dist1 a p.1 ^ 2 + g p.2 ≤ s})
      = (Icc (-√s) (a + √s)).indicator (fun x => ENNReal.ofReal (F x)) x := by
    intro x
    have e1 : Prod.mk x ⁻¹' {p : ℝ × E | dist1 a p.1 ^ 2 + g p.2 ≤ s}
        = {e | g e ≤ s - dist1 a x ^ 2} := by
      ext e
      simp only [mem_preimage, mem_ofPred_eq]
      constructor <;> intro h <;> linarith
    rw [e1]
    by_cases hx : x ∈ Icc (-√s) (a + √s)
    · rw [indicator_of_mem hx]
      have h2 : dist1 a x ^ 2 ≤ s := (dist1_sq_le_iff hs x).2 hx
      exact hG _ (by linarith)
    · rw [indicator_of_notMem hx]
      have h2 : ¬ dist1 a x ^ 2 ≤ s := fun h => hx ((dist1_sq_le_iff hs x).1 h)
      have e2 : {e | g e ≤ s - dist1 a x ^ 2} = ∅ := by
        ext e
        simp only [mem_ofPred_eq, mem_empty_iff_false, iff_false]
        intro h
        have := hg0 e
        exact h2 (by linarith)
      rw [e2, measure_empty]
  simp_rw [hslice]
  rw [lintegral_indicator measurableSet_Icc]
  have hnn : 0 ≤ᵐ[volume.restrict (Icc (-√s) (a + √s))] F := by
    refine (ae_restrict_mem measurableSet_Icc).mono fun x hx => ?_
    have h2 : dist1 a x ^ 2 ≤ s := (dist1_sq_le_iff hs x).2 hx
    exact hG0 _ (by linarith)
  rw [← ofReal_integral_eq_lintegral_ofReal hFc.integrableOn_Icc hnn]
  congr 1
  rw [integral_Icc_eq_integral_Ioc, ← intervalIntegral.integral_of_le (by linarith)]
  have hi : ∀ u v : ℝ, IntervalIntegrable F volume u v := fun u v => hFc.intervalIntegrable u v
  rw [← intervalIntegral.integral_add_adjacent_intervals (hi (-√s) 0) (hi 0 (a + √s)),
    ← intervalIntegral.integral_add_adjacent_intervals (hi 0 a) (hi a (a + √s))]
  have h1 : ∫ x in (-√s)..0, F x = ∫ t in (0:ℝ)..√s, G (s - t ^ 2) := by
    have e1 : ∫ x in (-√s)..0, F x = ∫ x in (-√s)..0, (fun t => G (s - t ^ 2)) (-x) := by
      refine intervalIntegral.integral_congr fun x hx => ?_
      rw [uIcc_of_le (by linarith)] at hx
      simp only [hF, dist1_of_nonpos ha hx.2]
    rw [e1, intervalIntegral.integral_comp_neg (fun t => G (s - t ^ 2))]
    simp
  have h2 : ∫ x in (0:ℝ)..a, F x = a * G s := by
    have e1 : ∫ x in (0:ℝ)..a, F x = ∫ _x in (0:ℝ)..a, G s := by
      refine intervalIntegral.integral_congr fun x hx => ?_
      rw [uIcc_of_le ha] at hx
      simp only [hF, dist1_of_mem hx.1 hx.2]
      norm_num
    rw [e1, intervalIntegral.integral_const]
    simp
  have h3 : ∫ x in a..(a + √s), F x = ∫ t in (0:ℝ)..√s, G (s - t ^ 2) := by
    have e1 : ∫ x in a..(a + √s), F x = ∫ x in a..(a + √s), (fun t => G (s - t ^ 2)) (x - a) := by
      refine intervalIntegral.integral_congr fun x hx => ?_
      rw [uIcc_of_le (by linarith)] at hx
      simp only [hF, dist1_of_ge ha hx.1]
    rw [e1, intervalIntegral.integral_comp_sub_right (fun t => G (s - t ^ 2))]
    simp
  rw [h1, h2, h3]
  ring

/-! ## The quarter disc -/

theorem integral_sqrt_one_sub_sq_quarter : ∫ x in (0:ℝ)..1, √(1 - x ^ 2) = Real.pi / 4 := by
  have hc : Continuous fun x : ℝ => √(1 - x ^ 2) := by fun_prop
  have hi : ∀ u v : ℝ, IntervalIntegrable (fun x : ℝ => √(1 - x ^ 2)) volume u v :=
    fun u v => hc.intervalIntegrable u v
  have h := integral_sqrt_one_sub_sq
  rw [← intervalIntegral.integral_add_adjacent_intervals (hi (-1) 0) (hi 0 1)] at h
  have e : ∫ x in (-1:ℝ)..0, √(1 - x ^ 2) = ∫ x in (0:ℝ)..1, √(1 - x ^ 2) := by
    have e1 : ∫ x in (-1:ℝ)..0, √(1 - x ^ 2)
        = ∫ x in (-1:ℝ)..0, (fun t : ℝ => √(1 - t ^ 2)) (-x) := by
      refine intervalIntegral.integral_congr fun x _ => ?_
      simp only [neg_sq]
    rw [e1, intervalIntegral.integral_comp_neg (fun t : ℝ => √(1 - t ^ 2))]
    simp
  rw [e] at h
  linarith

theorem integral_sqrt_sub_sq (s : ℝ) (hs : 0 ≤ s) :
    ∫ t in (0:ℝ)..√s, √(s - t ^ 2) = Real.pi * s / 4 := by
  have h := intervalIntegral.mul_integral_comp_mul_left (a := 0) (b := 1)
    (f := fun t : ℝ => √(s - t ^ 2)) (√s)
  rw [mul_zero, mul_one] at h
  rw [← h]
  have e : ∫ x in (0:ℝ)..1, (fun t : ℝ => √(s - t ^ 2)) (√s * x)
      = ∫ x in (0:ℝ)..1, √s * √(1 - x ^ 2) := by
    refine intervalIntegral.integral_congr fun x _ => ?_
    simp only
    rw [← Real.sqrt_mul hs, mul_pow, Real.sq_sqrt hs]
    congr 1
    ring
  rw [e, intervalIntegral.integral_const_mul, integral_sqrt_one_sub_sq_quarter, ← mul_assoc,
    Real.mul_self_sqrt hs]
  ring

/-! ## Dimension two -/

theorem volume_sublevel2 (a b s : ℝ) (ha : 0 ≤ a) (hb : 0 ≤ b) (hs : 0 ≤ s) :
    volume {p : ℝ × ℝ | dist1 a p.1 ^ 2 + dist1 b p.2 ^ 2 ≤ s}
      = ENNReal.ofReal (a * b + 2 * (a + b) * √s + Real.pi * s) := by
  rw [Measure.volume_eq_prod]
  have h := volume_slice (volume : Measure ℝ) (fun y => dist1 b y ^ 2)
    ((measurable_dist1 b).pow_const 2) (fun y => sq_nonneg _) (fun s => b + 2 * √s)
    (by fun_prop) (fun s _ => by have := Real.sqrt_nonneg s; positivity)
    (fun s hs => volume_sublevel1 b s hs) a s ha hs
  rw [h]
  congr 1
  have hc : Continuous fun t : ℝ => √(s - t ^ 2) := by fun_prop
  have e : ∫ t in (0:ℝ)..√s, (b + 2 * √(s - t ^ 2)) = b * √s + 2 * (Real.pi * s / 4) := by
    have hc2 : Continuous fun t : ℝ => 2 * √(s - t ^ 2) := by fun_prop
    rw [intervalIntegral.integral_add (continuous_const.intervalIntegrable _ _)
      (hc2.intervalIntegrable _ _), intervalIntegral.integral_const,
      intervalIntegral.integral_const_mul, integral_sqrt_sub_sq s hs]
    simp only [sub_zero, smul_eq_mul]
    ring
  rw [e]
  ring

/-- **Steiner, rectangle** -/
theorem volume_parallel_rect (a b r : ℝ) (ha : 0 ≤ a) (hb : 0 ≤ b) (hr : 0 ≤ r) :
    volume (parallel2 (rect a b) r)
      = ENNReal.ofReal (a * b + 2 * (a + b) * r + Real.pi * r ^ 2) := by
  rw [parallel2_rect a b r ha hb, volume_sublevel2 a b (r ^ 2) ha hb (sq_nonneg r),
    Real.sqrt_sq hr]

/-! ## Dimension three -/

theorem volume_sublevel3 (a b c s : ℝ) (ha : 0 ≤ a) (hb : 0 ≤ b) (hc : 0 ≤ c) (hs : 0 ≤ s) :
    volume {p : ℝ × ℝ × ℝ | dist1 a p.1 ^ 2 + (dist1 b p.2.1 ^ 2 + dist1 c p.2.2 ^ 2) ≤ s}
      = ENNReal.ofReal (a * b * c + 2 * (a * b + b * c + c * a) * √s
          + Real.pi * (a + b + c) * s + 4 / 3 * Real.pi * (s * √s)) := by
  rw [Measure.volume_eq_prod]
  have h := volume_slice (volume : Measure (ℝ × ℝ)) (fun p => dist1 b p.1 ^ 2 + dist1 c p.2 ^ 2)
    ((((measurable_dist1 b).comp measurable_fst).pow_const 2).add
      (((measurable_dist1 c).comp measurable_snd).pow_const 2))
    (fun p => add_nonneg (sq_nonneg _) (sq_nonneg _))
    (fun s => b * c + 2 * (b + c) * √s + Real.pi * s)
    (by fun_prop)
    (fun s hs => by have := Real.sqrt_nonneg s; have := Real.pi_pos; positivity)
    (fun s hs => volume_sublevel2 b c s hb hc hs) a s ha hs
  rw [h]
  congr 1
  have hρ : 0 ≤ √s := Real.sqrt_nonneg s
  have h1 : Continuous fun t : ℝ => b * c + 2 * (b + c) * √(s - t ^ 2) := by fun_prop
  have h2 : Continuous fun t : ℝ => 2 * (b + c) * √(s - t ^ 2) := by fun_prop
  have h3 : Continuous fun t : ℝ => Real.pi * (s - t ^ 2) := by fun_prop
  have h4 : Continuous fun t : ℝ => t ^ 2 := by fun_prop
  have hcube : √s ^ 3 = s * √s := by
    rw [pow_succ, Real.sq_sqrt hs]
  have e : ∫ t in (0:ℝ)..√s, (b * c + 2 * (b + c) * √(s - t ^ 2) + Real.pi * (s - t ^ 2))
      = b * c * √s + 2 * (b + c) * (Real.pi * s / 4) + Real.pi * (s * √s - s * √s / 3) := by
    rw [intervalIntegral.integral_add (h1.intervalIntegrable _ _) (h3.intervalIntegrable _ _),
      intervalIntegral.integral_add (continuous_const.intervalIntegrable _ _)
        (h2.intervalIntegrable _ _),
      intervalIntegral.integral_const, intervalIntegral.integral_const_mul,
      intervalIntegral.integral_const_mul, integral_sqrt_sub_sq s hs,
      intervalIntegral.integral_sub (continuous_const.intervalIntegrable _ _)
        (h4.intervalIntegrable _ _),
      intervalIntegral.integral_const, integral_pow]
    simp only [sub_zero, smul_eq_mul]
    norm_num
    rw [hcube]
    ring
  rw [e]
  ring

/-- **Steiner, box** -/
theorem volume_parallel_box (a b c r : ℝ) (ha : 0 ≤ a) (hb : 0 ≤ b) (hc : 0 ≤ c) (hr : 0 ≤ r) :
    volume (parallel3 (box a b c) r)
      = ENNReal.ofReal (a * b * c + 2 * (a * b + b * c + c * a) * r + Real.pi * (a + b + c) * r ^ 2
          + 4 / 3 * Real.pi * r ^ 3) := by
  rw [parallel3_box a b c r ha hb hc, volume_sublevel3 a b c (r ^ 2) ha hb hc (sq_nonneg r),
    Real.sqrt_sq hr, (by ring : r ^ 2 * r = r ^ 3)]

end

end Steiner.BoxMeasure
