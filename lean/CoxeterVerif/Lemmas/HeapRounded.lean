import CoxeterVerif.Lemmas.HeapDrift
import CoxeterVerif.RealInst
import Mathlib.Tactic.Positivity
/-!
  # C16 — the last-digit clause: `to_hoomd` in ROUNDED arithmetic

  `Rounded rnd` is the real numbers with every arithmetic operation followed by a rounding function
  `rnd : ℝ → ℝ`. It is a `Scalar`, so the heap machine runs in it unchanged, and `toHoomd_verts_gen`
  says what every coordinate of the live vertex array goes through: `roundTrip c₀ c₁ x`.

  For ANY rounding with relative error `u` (`|rnd t − t| ≤ u |t|` — IEEE binary64 addition and
  subtraction satisfy it with `u = 2⁻⁵³` for all finite results, underflow included, and `roundTrip`
  uses nothing else) the coordinate comes back within

      |c₁| + u · (|c₀| + |x + a| + |c₀ − c₁| + |w + d|)    ≤    |c₁| + 11 u · max(|x|, |c₀|, |c₁|)

  of where it was (`a w d` the rounded intermediate results). The rounding part is the "last-digit
  rounding" the property allows; `|c₁|` is what the centroid getter reports for the CENTRED shape —
  exactly 0 for a getter that commutes with translations, the getter's own rounding error (which
  scales with the distance of the shape from the origin) otherwise. No other term exists: this is the
  precise content of the known finding `…to_hoomd:drift-beyond-last-digit`.
-/
namespace C16
open Scalar

/-- real numbers whose arithmetic rounds with `rnd` -/
structure Rounded (rnd : ℝ → ℝ) where
  val : ℝ

namespace Rounded
variable {rnd : ℝ → ℝ}

open Classical in
/-- `+ − * /` and the elementary functions round their exact result; small integer literals and
negation are exact; comparisons are those of the values -/
noncomputable instance instScalar (rnd : ℝ → ℝ) : Scalar (Rounded rnd) where
  add := fun a b => ⟨rnd (a.val + b.val)⟩
  sub := fun a b => ⟨rnd (a.val - b.val)⟩
  mul := fun a b => ⟨rnd (a.val * b.val)⟩
  div := fun a b => ⟨rnd (a.val / b.val)⟩
  neg := fun a => ⟨-a.val⟩
  lt := fun a b => a.val < b.val
  le := fun a b => a.val ≤ b.val
  ofNat := fun n => ⟨(n : ℝ)⟩
  sqrt := fun a => ⟨rnd (Real.sqrt a.val)⟩
  cbrt := fun a => ⟨rnd (Scalar.cbrt a.val)⟩
  pi := ⟨rnd Real.pi⟩
  sin := fun a => ⟨rnd (Real.sin a.val)⟩
  cos := fun a => ⟨rnd (Real.cos a.val)⟩
  tan := fun a => ⟨rnd (Real.tan a.val)⟩
  acos := fun a => ⟨rnd (Real.arccos a.val)⟩
  atan2 := fun a b => ⟨rnd (Scalar.atan2 a.val b.val)⟩
  floor := fun a => ⟨(⌊a.val⌋ : ℝ)⟩
  abs := fun a => ⟨|a.val|⟩
  decLt := fun _ _ => Classical.propDecidable _
  decLe := fun _ _ => Classical.propDecidable _
  eqb := fun a b => decide (a.val = b.val)

@[simp] theorem add_val (a b : Rounded rnd) : (a + b).val = rnd (a.val + b.val) := rfl
@[simp] theorem sub_val (a b : Rounded rnd) : (a - b).val = rnd (a.val - b.val) := rfl
@[simp] theorem lit_val (n : Nat) : (lit n : Rounded rnd).val = (n : ℝ) := rfl

/-- the four roundings of one coordinate's trip to the origin and back -/
theorem roundTrip_val (c0 c1 x : Rounded rnd) :
    (roundTrip c0 c1 x).val =
      rnd (rnd (x.val + rnd (0 - c0.val)) + rnd (c0.val - c1.val)) := by
  simp [roundTrip]

end Rounded

/-- `rnd` has relative error at most `u` -/
def RelErr (rnd : ℝ → ℝ) (u : ℝ) : Prop := ∀ t : ℝ, |rnd t - t| ≤ u * |t|

/-- **one coordinate, a-posteriori form**: the distance from the start is at most `|c₁|` plus one
relative rounding of each of the four intermediate results -/
theorem round_trip_le (rnd : ℝ → ℝ) (u : ℝ) (hr : RelErr rnd u) (x c0 c1 : ℝ) :
    |rnd (rnd (x + rnd (0 - c0)) + rnd (c0 - c1)) - x| ≤
      |c1| + u * (|0 - c0| + |x + rnd (0 - c0)| + |c0 - c1| + |rnd (x + rnd (0 - c0)) + rnd (c0 - c1)|) := by
  have ha := abs_le.mp (hr (0 - c0))
  have hw := abs_le.mp (hr (x + rnd (0 - c0)))
  have hd := abs_le.mp (hr (c0 - c1))
  have hf := abs_le.mp (hr (rnd (x + rnd (0 - c0)) + rnd (c0 - c1)))
  have h1 := neg_abs_le c1
  have h2 := le_abs_self c1
  rw [abs_le]
  constructor <;> nlinarith [ha.1, ha.2, hw.1, hw.2, hd.1, hd.2, hf.1, hf.2]

theorem RelErr.abs_le {rnd : ℝ → ℝ} {u : ℝ} (hr : RelErr rnd u) (t : ℝ) : |rnd t| ≤ (1 + u) * |t| := by
  have h := hr t
  have : |rnd t| ≤ |rnd t - t| + |t| := by
    have := abs_add_le (rnd t - t) t
    simpa using this
  linarith

/-- **one coordinate, closed form**: with `u ≤ 1/4` and `S` a bound of `|x|`, `|c₀|`, `|c₁|`, the
coordinate comes back within `|c₁| + 11 u S` of where it was -/
theorem round_trip_le_closed (rnd : ℝ → ℝ) (u : ℝ) (hu0 : 0 ≤ u) (hu : u ≤ 1 / 4) (hr : RelErr rnd u)
    (x c0 c1 S : ℝ) (hx : |x| ≤ S) (h0 : |c0| ≤ S) (h1 : |c1| ≤ S) :
    |rnd (rnd (x + rnd (0 - c0)) + rnd (c0 - c1)) - x| ≤ |c1| + 11 * u * S := by
  have hS : 0 ≤ S := le_trans (abs_nonneg x) hx
  have base := round_trip_le rnd u hr x c0 c1
  -- sizes of the intermediate results
  have e0 : |0 - c0| ≤ S := by rw [zero_sub, abs_neg]; exact h0
  have ea : |rnd (0 - c0)| ≤ (1 + u) * S :=
    le_trans (hr.abs_le _) (mul_le_mul_of_nonneg_left e0 (by linarith))
  have exa : |x + rnd (0 - c0)| ≤ S + (1 + u) * S := le_trans (abs_add_le _ _) (by linarith)
  have ew : |rnd (x + rnd (0 - c0))| ≤ (1 + u) * (S + (1 + u) * S) :=
    le_trans (hr.abs_le _) (mul_le_mul_of_nonneg_left exa (by linarith))
  have ecc : |c0 - c1| ≤ 2 * S := by
    have := abs_sub c0 c1
    linarith [abs_sub c0 c1]
  have ed : |rnd (c0 - c1)| ≤ (1 + u) * (2 * S) :=
    le_trans (hr.abs_le _) (mul_le_mul_of_nonneg_left ecc (by linarith))
  have ewd : |rnd (x + rnd (0 - c0)) + rnd (c0 - c1)| ≤ (1 + u) * (S + (1 + u) * S) + (1 + u) * (2 * S) :=
    le_trans (abs_add_le _ _) (by linarith)
  have hsum : |0 - c0| + |x + rnd (0 - c0)| + |c0 - c1| + |rnd (x + rnd (0 - c0)) + rnd (c0 - c1)|
      ≤ (9 + 6 * u + u * u) * S := by
    have : S + (S + (1 + u) * S) + 2 * S + ((1 + u) * (S + (1 + u) * S) + (1 + u) * (2 * S))
        = (9 + 6 * u + u * u) * S := by ring
    linarith
  have hcoef : (9 + 6 * u + u * u) * S ≤ 11 * S := by
    have : 9 + 6 * u + u * u ≤ 11 := by nlinarith
    exact mul_le_mul_of_nonneg_right this hS
  have : u * (|0 - c0| + |x + rnd (0 - c0)| + |c0 - c1| + |rnd (x + rnd (0 - c0)) + rnd (c0 - c1)|)
      ≤ u * (11 * S) := mul_le_mul_of_nonneg_left (le_trans hsum hcoef) hu0
  calc _ ≤ _ := base
    _ ≤ |c1| + u * (11 * S) := by linarith
    _ = |c1| + 11 * u * S := by ring

/-! ### every coordinate of an array -/

/-- `P x x'` holds between every entry of `l` and the entry at the same place of `l'` -/
def EntriesRel {β : Type} (P : β → β → Prop) : List β → List β → Prop
  | [], [] => True
  | x :: l, x' :: l' => P x x' ∧ EntriesRel P l l'
  | _, _ => False

theorem entriesRel_mapRows {β : Type} (P : β → β → Prop) (f g h : β → β) (hrefl : ∀ x, P x x) :
    ∀ l : List β, (∀ x, x ∈ l → P x (f x) ∧ P x (g x) ∧ P x (h x)) → EntriesRel P l (mapRows f g h l)
  | x :: y :: z :: r, H =>
      ⟨(H x (by simp)).1, (H y (by simp)).2.1, (H z (by simp)).2.2,
        entriesRel_mapRows P f g h hrefl r (fun w hw => H w (by simp [hw]))⟩
  | [], _ => trivial
  | [x], _ => ⟨hrefl x, trivial⟩
  | [x, y], _ => ⟨hrefl x, hrefl y, trivial⟩

end C16
