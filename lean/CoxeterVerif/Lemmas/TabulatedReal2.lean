import CoxeterVerif.Lemmas.TabulatedReal
import Mathlib.Tactic.FieldSimp
/-!
  C18, meaning over ℝ of the remaining predicates of `Spec/Textbook.lean` (see `TabulatedReal.lean` for the
  conventions: `toV p` is the vertex in units of 10⁻¹⁸): volume, equal edges / short diagonals, insphere,
  vertex-set comparison.
-/
namespace Tab
noncomputable section

/-! ### volume -/

theorem cast_foldl_add {β : Type} (g : β → Int) (l : List β) (acc : Int) :
    ((l.foldl (fun acc x => acc + g x) acc : Int) : ℝ) = (acc : ℝ) + (l.map fun x => (g x : ℝ)).sum := by
  induction l generalizing acc with
  | nil => simp
  | cons x t ih => rw [List.foldl_cons, ih, Int.cast_add, List.map_cons, List.sum_cons, add_assoc]

/-- `Σ det(a, b, c)` over the fan triangles of the faces: six times the enclosed (signed) volume, in
    units of (10⁻¹⁸)³ -/
def vol6V (e : Entry) : ℝ :=
  ((surfaceTris e).map fun t => V3.det3 (toV t.1) (toV t.2.1) (toV t.2.2)).sum

theorem cast_vol6 (e : Entry) : ((vol6 e : Int) : ℝ) = vol6V e := by
  unfold vol6 vol6V
  rw [cast_foldl_add, Int.cast_zero, zero_add]
  congr 1
  apply List.map_congr_left
  intro t _
  rw [cast_det3]

theorem positiveVolume_iff (e : Entry) : positiveVolume e = true ↔ 0 < vol6V e := by
  unfold positiveVolume
  rw [intLt_iff, ← cast_vol6]
  exact_mod_cast Iff.rfl

theorem cast_sixUnitVol : ((sixUnitVol : Int) : ℝ) = 6 * 10^54 := by
  unfold sixUnitVol; norm_num

theorem cast_sixVolTol : ((sixVolTol : Int) : ℝ) = 6 * 10^45 := by
  unfold sixVolTol; norm_num

/-- **unit volume**: the volume `Σ det / 6`, in true units (÷ 10⁵⁴), is within 10⁻⁹ of 1 -/
theorem unitVolumeOk_iff (e : Entry) :
    unitVolumeOk e = true ↔ |vol6V e / (6 * 10^54) - 1| ≤ 1 / 10^9 := by
  unfold unitVolumeOk
  rw [forceInt_eq, intLe_iff, intAbs_eq]
  have h1 : (|vol6 e - sixUnitVol| ≤ sixVolTol) ↔ |vol6V e - 6 * 10^54| ≤ 6 * 10^45 := by
    rw [← cast_vol6, ← cast_sixUnitVol, ← cast_sixVolTol, ← Int.cast_sub, ← Int.cast_abs, Int.cast_le]
  rw [h1]
  have h2 : vol6V e / (6 * 10^54) - 1 = (vol6V e - 6 * 10^54) / (6 * 10^54) := by
    field_simp
  rw [h2, abs_div, abs_of_pos (by positivity : (0:ℝ) < 6 * 10^54), div_le_iff₀ (by positivity)]
  have h3 : (1:ℝ) / 10^9 * (6 * 10^54) = 6 * 10^45 := by norm_num
  rw [h3]

/-! ### equal lengths -/

/-- all numbers of the non-empty list are positive and agree with the first one within `2·10⁻⁹` relative -/
def AllNear (l : List ℝ) : Prop :=
  ∃ a t, l = a :: t ∧ 0 < a ∧ ∀ b ∈ t, |b - a| ≤ 2 / 10^9 * a

theorem allNearFirst_iff (l : List Int) :
    allNearFirst l = true ↔ AllNear (l.map fun x : Int => (x : ℝ)) := by
  cases l with
  | nil =>
    simp only [allNearFirst, List.map_nil, AllNear]
    constructor
    · intro h; cases h
    · rintro ⟨a, t, h, _⟩; cases h
  | cons l0 t =>
    simp only [allNearFirst, forceInt_eq, Bool.and_eq_true, intLt_iff, List.all_eq_true, nearSq_iff,
      List.map_cons, AllNear]
    have key : ∀ b : Int, (|b - l0| * 1000000000 ≤ 2 * l0) ↔ |(b:ℝ) - (l0:ℝ)| ≤ 2 / 10^9 * (l0:ℝ) := by
      intro b
      have : (|b - l0| * 1000000000 ≤ 2 * l0) ↔ |(b:ℝ) - (l0:ℝ)| * 1000000000 ≤ 2 * (l0:ℝ) := by
        rw [← Int.cast_sub, ← Int.cast_abs]
        constructor
        · intro h; exact_mod_cast h
        · intro h; exact_mod_cast h
      rw [this]
      constructor
      · intro h
        have : |(b:ℝ) - (l0:ℝ)| = |(b:ℝ) - (l0:ℝ)| * 1000000000 / 10^9 := by field_simp; norm_num
        rw [this, div_le_iff₀ (by positivity)]
        calc |(b:ℝ) - (l0:ℝ)| * 1000000000 ≤ 2 * (l0:ℝ) := h
          _ = 2 / 10^9 * (l0:ℝ) * 10^9 := by field_simp
      · intro h
        calc |(b:ℝ) - (l0:ℝ)| * 1000000000 ≤ (2 / 10^9 * (l0:ℝ)) * 1000000000 :=
              mul_le_mul_of_nonneg_right h (by norm_num)
          _ = 2 * (l0:ℝ) := by ring
    constructor
    · rintro ⟨h0, ht⟩
      refine ⟨(l0:ℝ), t.map (fun x : Int => (x:ℝ)), rfl, by exact_mod_cast h0, ?_⟩
      intro b hb
      obtain ⟨bi, hbi, rfl⟩ := List.mem_map.mp hb
      exact (key bi).mp (ht bi hbi)
    · rintro ⟨a, t', heq, h0, ht⟩
      rw [List.cons.injEq] at heq
      obtain ⟨ha, ht'⟩ := heq
      subst ha; subst ht'
      refine ⟨by exact_mod_cast h0, ?_⟩
      intro b hb
      exact (key b).mpr (ht _ (List.mem_map.mpr ⟨b, hb, rfl⟩))

/-- the numbers are squared lengths: the lengths themselves agree within `2·10⁻⁹` relative -/
theorem AllNear.sqrt {l : List ℝ} (h : AllNear l) :
    ∃ a t, l = a :: t ∧ 0 < a ∧ ∀ b ∈ t, |Real.sqrt b - Real.sqrt a| ≤ 2 / 10^9 * Real.sqrt a := by
  obtain ⟨a, t, hl, ha, ht⟩ := h
  refine ⟨a, t, hl, ha, ?_⟩
  intro b hb
  have hba := ht b hb
  have hs : 0 < Real.sqrt a := Real.sqrt_pos.mpr ha
  have hb0 : 0 ≤ b := by
    have := (abs_le.mp hba).1
    nlinarith
  have hr : 0 ≤ Real.sqrt b := Real.sqrt_nonneg b
  have e1 : Real.sqrt a * Real.sqrt a = a := Real.mul_self_sqrt ha.le
  have e2 : Real.sqrt b * Real.sqrt b = b := Real.mul_self_sqrt hb0
  have hfac : |Real.sqrt b - Real.sqrt a| * (Real.sqrt b + Real.sqrt a) = |b - a| := by
    rw [← abs_of_nonneg (by linarith : 0 ≤ Real.sqrt b + Real.sqrt a), ← abs_mul]
    congr 1; nlinarith
  have h1 : |Real.sqrt b - Real.sqrt a| * Real.sqrt a ≤ |b - a| := by
    rw [← hfac]
    exact mul_le_mul_of_nonneg_left (by linarith) (abs_nonneg _)
  have h2 : |Real.sqrt b - Real.sqrt a| * Real.sqrt a ≤ (2 / 10^9 * Real.sqrt a) * Real.sqrt a := by
    calc _ ≤ |b - a| := h1
      _ ≤ 2 / 10^9 * a := hba
      _ = (2 / 10^9 * Real.sqrt a) * Real.sqrt a := by rw [mul_assoc, e1]
  exact le_of_mul_le_mul_right h2 hs

/-- squared distance of two vertices given by index, in units of (10⁻¹⁸)² -/
def sqDistV (vs : List P3) (ab : Nat × Nat) : ℝ :=
  V3.normSq (toV (nthP vs ab.1) - toV (nthP vs ab.2))

theorem cast_sqDist (vs : List P3) (ab : Nat × Nat) : ((sqDist vs ab : Int) : ℝ) = sqDistV vs ab := by
  unfold sqDist sqDistV
  rw [cast_normSq, toV_sub]

/-- **equal edge lengths**: the squared length of every directed edge agrees with the first within
    `2·10⁻⁹` relative -/
theorem equalEdgesOk_iff (e : Entry) :
    equalEdgesOk e = true ↔ AllNear ((dirEdges e).map (sqDistV e.verts)) := by
  unfold equalEdgesOk
  rw [allNearFirst_iff, List.map_map]
  have : ((fun x : Int => (x:ℝ)) ∘ sqDist e.verts) = sqDistV e.verts := by
    funext ab; exact cast_sqDist _ _
  rw [this]

/-- **equal short diagonals** in every face with more than three corners -/
theorem equalDiagonalsOk_iff (e : Entry) :
    equalDiagonalsOk e = true
      ↔ ∀ f ∈ e.faces, f.length ≤ 3 ∨ AllNear ((cycPairs2 f).map (sqDistV e.verts)) := by
  unfold equalDiagonalsOk
  rw [List.all_eq_true]
  apply forall_congr'; intro f
  apply imp_congr_right; intro _
  rw [Bool.or_eq_true, Nat.ble_eq, allNearFirst_iff, List.map_map]
  have : ((fun x : Int => (x:ℝ)) ∘ sqDist e.verts) = sqDistV e.verts := by
    funext ab; exact cast_sqDist _ _
  rw [this]

/-! ### vertex sets -/

/-- what `sameVerts` gives: equally many points, and every point of one list has a point of the other
    within `10⁹` (10⁻⁹ in true units; squared distance ≤ 10¹⁸) -/
theorem sameVerts_sound (a b : List P3) (h : sameVerts a b = true) :
    a.length = b.length
      ∧ (∀ p ∈ a, ∃ q ∈ b, V3.normSq (toV p - toV q) ≤ 10^18)
      ∧ (∀ p ∈ b, ∃ q ∈ a, V3.normSq (toV p - toV q) ≤ 10^18) := by
  unfold sameVerts at h
  simp only [Bool.or_eq_true, decide_eq_true_eq, Bool.and_eq_true, List.all_eq_true, List.any_eq_true,
    intLe_iff] at h
  have hz : ∀ p : P3, V3.normSq (toV p - toV p) ≤ 10^18 := by
    intro p
    simp only [V3.normSq, V3.dot, V3.sub_x, V3.sub_y, V3.sub_z, sub_self, mul_zero, add_zero]
    positivity
  rcases h with h | h
  · subst h
    exact ⟨rfl, fun p hp => ⟨p, hp, hz p⟩, fun p hp => ⟨p, hp, hz p⟩⟩
  · obtain ⟨⟨hl, h1⟩, h2⟩ := h
    have hc : ∀ p q : P3, (p.sub q).normSq ≤ unit18 → V3.normSq (toV p - toV q) ≤ 10^18 := by
      intro p q hpq
      rw [← toV_sub, ← cast_normSq, ← cast_unit18]
      exact_mod_cast hpq
    refine ⟨Nat.eq_of_beq_eq_true hl, ?_, ?_⟩
    · intro p hp
      obtain ⟨q, hq, hpq⟩ := h1 p hp
      exact ⟨q, hq, hc p q hpq⟩
    · intro p hp
      obtain ⟨q, hq, hpq⟩ := h2 p hp
      exact ⟨q, hq, hc p q hpq⟩

/-- a repository record that cites a family has the vertex set of the cited record -/
theorem sourceOk_sound (lookup : String → List Entry) (e : Entry) (h : sourceOk lookup e = true)
    (hs : e.source ≠ "") :
    ∃ r ∈ lookup e.source, r.name = e.ref ∧ sameVerts e.verts r.verts = true := by
  unfold sourceOk at h
  rw [Bool.or_eq_true] at h
  rcases h with h | h
  · exact absurd (by simpa using h) hs
  · cases hf : (lookup e.source).find? (fun r => r.name == e.ref) with
    | none => rw [hf] at h; cases h
    | some r =>
      rw [hf] at h
      have hm := List.mem_of_find?_eq_some hf
      have hn := List.find?_some hf
      exact ⟨r, hm, by simpa using hn, h⟩

end
end Tab
