import CoxeterVerif.Lemmas.FormFactorSolid
import CoxeterVerif.Lemmas.FormFactorLimits
/-!
  The MODEL of `Polyhedron.compute_form_factor_amplitude` is the surface form of the fan-triangulated faces:

    toC (polyhedronNonzero faces q) = (i/|q|²) Σ_faces Σ_{T ∈ fan(face)} (q·N_T) ∫∫_T e^{-iq·r}

  for faces with unit normal, vertices on the plane `n·x + off = 0`, running counter-clockwise about the normal
  (`sign(signed_area) = 1`), and `q` whose in-plane part is exactly zero or outside the `isclose` window for
  every face. Combined with `closed_surface_form_cone` this gives the model = Σ over cone tetrahedra of
  `signed 6·volume × ∫∫∫ e^{-iq·r}` for every closed surface — no trusted Green / divergence step.
-/
open Scalar MeasureTheory
set_option maxRecDepth 4000
namespace FF
noncomputable section

theorem cexp_add (x y : ℝ) : cexp (x + y) = cexp x * cexp y := by
  unfold cexp; rw [← Complex.exp_add]; congr 1; push_cast; ring

/-- a constant phase factors out of the triangle integral -/
theorem Jtri_shift (a c β γ : ℝ) : Jtri (a + c) β γ = cexp c * Jtri a β γ := by
  unfold Jtri
  have h : ∀ s t : ℝ, cexp (a + c + s * β + t * γ) = cexp c * cexp (a + s * β + t * γ) := by
    intro s t; rw [← cexp_add]; congr 1; ring
  simp_rw [h, intervalIntegral.integral_const_mul]

theorem Jtri_zero : Jtri 0 0 0 = 1 / 2 := by
  have h := Jtri_sub_half_le 0 0 0
  simp only [abs_zero, add_zero] at h
  have := norm_le_zero_iff.mp h
  linear_combination this

theorem dot_project (n qv X : V3 ℝ) :
    V3.dot qv X = V3.dot (project n qv) X + V3.dot qv n * V3.dot n X := by
  obtain ⟨nx, ny, nz⟩ := n; obtain ⟨x, y, z⟩ := qv; obtain ⟨a, b, c⟩ := X
  simp [project, V3.dot]; ring

/-- on a face plane `n·x = d` the full-`q` triangle integral is the in-plane one times the phase `e^{-i (q·n) d}` -/
theorem triFT_plane (A B C n qv : V3 ℝ) (d : ℝ) (hA : V3.dot n A = d) (hB : V3.dot n B = d) (hC : V3.dot n C = d) :
    triFT A B C qv = cexp (V3.dot qv n * d) * triFT A B C (project n qv) := by
  rw [triFT_eq_Jtri, triFT_eq_Jtri, ← Jtri_shift]
  rw [dot_project n qv A, dot_project n qv B, dot_project n qv C, hA, hB, hC]
  congr 1 <;> ring

/-- for a triangle in a plane with unit normal `n`: `q·N_T = (q·n)(N_T·n)` -/
theorem dot_nvec_planar (T : Tri ℝ) (n qv : V3 ℝ) (hunit : V3.dot n n = 1)
    (hb : V3.dot (T.b - T.a) n = 0) (hc : V3.dot (T.c - T.a) n = 0) :
    V3.dot qv T.nvec = V3.dot qv n * tri2 T.a T.b T.c n := by
  have h0 := planar_cross (T.b - T.a) (T.c - T.a) n hb hc 0
  have h1 := planar_cross (T.b - T.a) (T.c - T.a) n hb hc 1
  have h2 := planar_cross (T.b - T.a) (T.c - T.a) n hb hc 2
  rw [hunit, mul_one] at h0 h1 h2
  unfold tri2 Tri.nvec
  generalize V3.cross (T.b - T.a) (T.c - T.a) = w at h0 h1 h2 ⊢
  obtain ⟨x, y, z⟩ := qv; obtain ⟨nx, ny, nz⟩ := n; obtain ⟨wx, wy, wz⟩ := w
  simp only [V3.get, V3.dot] at h0 h1 h2 ⊢
  norm_num at h0 h1 h2
  linear_combination x * h0 + y * h1 + z * h2

theorem mem_fanTris (v0 : V3 ℝ) : ∀ (l : List (V3 ℝ)) (T : Tri ℝ), T ∈ fanTris v0 l →
    T.a = v0 ∧ T.b ∈ l ∧ T.c ∈ l
  | [], T, h => by simp [fanTris] at h
  | [_], T, h => by simp [fanTris] at h
  | a :: b :: l, T, h => by
    simp only [fanTris, List.mem_cons] at h
    rcases h with rfl | h
    · simp
    · obtain ⟨h1, h2, h3⟩ := mem_fanTris v0 (b :: l) T h
      exact ⟨h1, List.mem_cons_of_mem _ h2, List.mem_cons_of_mem _ h3⟩

theorem sign_eq_one {x : ℝ} (h : sign x = 1) : 0 < x := by
  unfold sign at h
  simp only [Scalar.lit, Scalar.ofNat_real, Nat.cast_zero, Nat.cast_one] at h
  split_ifs at h with h1 h2
  · norm_num at h
  · exact h2
  · norm_num at h

theorem dot_self_eq_zero {u : V3 ℝ} (h : V3.dot u u = 0) : u = ⟨0, 0, 0⟩ := by
  obtain ⟨x, y, z⟩ := u
  simp only [V3.dot] at h
  have hx : x = 0 := by nlinarith [mul_self_nonneg x, mul_self_nonneg y, mul_self_nonneg z]
  have hy : y = 0 := by nlinarith [mul_self_nonneg x, mul_self_nonneg y, mul_self_nonneg z]
  have hz : z = 0 := by nlinarith [mul_self_nonneg x, mul_self_nonneg y, mul_self_nonneg z]
  subst hx; subst hy; subst hz; rfl

theorem project_dot_n (n qv : V3 ℝ) (hunit : V3.dot n n = 1) : V3.dot (project n qv) n = 0 := by
  obtain ⟨nx, ny, nz⟩ := n; obtain ⟨x, y, z⟩ := qv
  simp only [project, V3.dot, V3.sub_x, V3.sub_y, V3.sub_z, V3.smul_x, V3.smul_y, V3.smul_z] at hunit ⊢
  linear_combination (-(x * nx + y * ny + z * nz)) * hunit

/-- **a counter-clockwise planar face as the model evaluates it** (density 1): the sum over its fan of
`signed double area × ∫∫ e^{-i q∥·r}`, in the zero branch as well as outside the window. -/
theorem polygonFF_eq_tris (v0 : V3 ℝ) (rest : List (V3 ℝ)) (n qv : V3 ℝ)
    (hunit : V3.dot n n = 1) (hplanar : ∀ v ∈ v0 :: rest, V3.dot (v - v0) n = 0)
    (hsign : sign (signedArea (v0 :: rest) n) = 1)
    (hwin : V3.dot (project n qv) (project n qv) = 0 ∨
      isCloseZero (V3.dot (project n qv) (project n qv)) = false) :
    toC (polygonFF (v0 :: rest) n qv 1) = trisFT (fanTris v0 rest) n (project n qv) := by
  rcases hwin with h0 | hout
  · -- exact zero: area = Σ tri2 / 2
    have hq0 := dot_self_eq_zero h0
    have hsa := signedArea_eq_fan v0 rest n hplanar hunit (argmax_ne_zero n hunit)
    have hpos := sign_eq_one hsign
    unfold polygonFF
    simp only [h0, isCloseZero_zero, if_true]
    rw [toC_smul, toC_ofReal]
    unfold polygonArea
    rw [Scalar.abs_real, abs_of_pos hpos, hsa, fanArea2_eq_sum]
    unfold trisFT
    rw [hq0]
    have hT : ∀ T : Tri ℝ, triFT T.a T.b T.c ⟨0, 0, 0⟩ = 1 / 2 := by
      intro T
      rw [triFT_eq_Jtri]
      have z : ∀ X : V3 ℝ, V3.dot (⟨0, 0, 0⟩ : V3 ℝ) X = 0 := by intro X; simp [V3.dot]
      simp only [z, sub_self, Jtri_zero]
    simp_rw [hT]
    simp only [Complex.ofReal_one, one_mul]
    induction fanTris v0 rest with
    | nil => simp
    | cons T l ih =>
      simp only [List.map_cons, List.sum_cons] at ih ⊢
      rw [← ih]; push_cast; ring
  · have hne : V3.dot (project n qv) (project n qv) ≠ 0 := by
      intro h; rw [h, isCloseZero_zero] at hout; cases hout
    unfold polygonFF
    simp only [hout, if_false, Bool.false_eq_true]
    rw [polygonNonzero_eq_boundary, hsign, toC_smul, toC_smul, boundaryForm_fan,
      toC_sum_boundaryForm_tris _ _ _ (project_dot_n n qv hunit) hne]
    simp

/-- hypotheses on one face for a wave vector `q`: unit normal, vertices on the plane `n·x + off = 0`,
counter-clockwise about the normal, in-plane part of `q` exactly zero or outside the window -/
structure FaceOK (qv : V3 ℝ) (f : Face ℝ) : Prop where
  unit : V3.norm f.normal = 1
  onPlane : ∀ v ∈ f.verts, V3.dot f.normal v + f.off = 0
  ccw : sign (signedArea f.verts f.normal) = 1
  win : V3.dot (project f.normal qv) (project f.normal qv) = 0 ∨
    isCloseZero (V3.dot (project f.normal qv) (project f.normal qv)) = false

theorem trisFT_cons (T : Tri ℝ) (l : List (Tri ℝ)) (n qp : V3 ℝ) :
    trisFT (T :: l) n qp = (tri2 T.a T.b T.c n : ℂ) * triFT T.a T.b T.c qp + trisFT l n qp := by
  simp [trisFT]

/-- **one face term of the model = `(i/|q|²)` × surface functional of its fan** -/
theorem faceTerm_eq_surf (qv : V3 ℝ) (f : Face ℝ) (h : FaceOK qv f) :
    toC (faceTerm qv (V3.dot qv qv) f) =
      (Complex.I / ((V3.dot qv qv : ℝ) : ℂ)) * surfSum qv (faceTris f) := by
  obtain ⟨hunit, hplane, hccw, hwin⟩ := h
  have hnn : V3.dot f.normal f.normal = 1 := CCk.normSq_of_norm_one hunit
  cases hv : f.verts with
  | nil =>
    rw [hv] at hccw
    have : signedArea ([] : List (V3 ℝ)) f.normal = 0 := by
      rw [signedArea_eq, saSum_small _ _ _ (by simp)]; ring
    rw [this] at hccw
    simp [sign, Scalar.lit] at hccw
  | cons v0 rest =>
    rw [hv] at hccw hplane
    have hv0 : V3.dot f.normal v0 = -f.off := by
      have := hplane v0 (List.mem_cons_self); linarith
    have hplanar : ∀ v ∈ v0 :: rest, V3.dot (v - v0) f.normal = 0 := by
      intro v hvm
      have := hplane v hvm
      rw [dot_comm, dot_sub_right]; linarith
    have hface := polygonFF_eq_tris v0 rest f.normal qv hnn hplanar hccw hwin
    unfold faceTerm
    have hlit : (lit 1 : ℝ) = 1 := by simp [Scalar.lit]
    simp only [hunit, sdiv_one, hv, hlit]
    rw [toC_sdiv, toC_smul, toC_mul, toC_mul, toC_I, hface, toC_expNegI]
    unfold faceTris fanOf
    simp only [hv]
    -- per triangle
    have hT : ∀ T ∈ fanTris v0 rest,
        ((V3.dot qv f.normal : ℝ) : ℂ) * ((tri2 T.a T.b T.c f.normal : ℂ) * triFT T.a T.b T.c (project f.normal qv)) *
            cexp (V3.dot qv f.normal * -f.off) = faceFT qv T := by
      intro T hTm
      obtain ⟨ha, hb, hc⟩ := mem_fanTris v0 rest T hTm
      have hA : V3.dot f.normal T.a = -f.off := by rw [ha]; exact hv0
      have hB : V3.dot f.normal T.b = -f.off := by
        have := hplane T.b (List.mem_cons_of_mem _ hb); linarith
      have hC : V3.dot f.normal T.c = -f.off := by
        have := hplane T.c (List.mem_cons_of_mem _ hc); linarith
      unfold faceFT
      rw [triFT_plane T.a T.b T.c f.normal qv (-f.off) hA hB hC,
        dot_nvec_planar T f.normal qv hnn
          (by rw [dot_comm, dot_sub_right, hB, hA]; ring) (by rw [dot_comm, dot_sub_right, hC, hA]; ring)]
      push_cast; ring
    have hsum : ∀ l : List (Tri ℝ), (∀ T ∈ l, T ∈ fanTris v0 rest) →
        ((V3.dot qv f.normal : ℝ) : ℂ) * (Complex.I * trisFT l f.normal (project f.normal qv) *
          cexp (V3.dot qv f.normal * -f.off)) = Complex.I * surfSum qv l := by
      intro l
      induction l with
      | nil => intro _; simp [trisFT, surfSum]
      | cons T l ih =>
        intro hl
        have h1 := hT T (hl T List.mem_cons_self)
        have h2 := ih (fun T' hT' => hl T' (List.mem_cons_of_mem _ hT'))
        rw [trisFT_cons]
        unfold surfSum at h2 ⊢
        simp only [List.map_cons, List.sum_cons]
        rw [← h1]
        linear_combination h2
    rw [hsum _ (fun T hT => hT)]
    ring

theorem toC_sum_map {β : Type} (g : β → Cx ℝ) (l : List β) :
    toC (Cx.sum (l.map g)) = (l.map fun x => toC (g x)).sum := by
  rw [toC_sum, List.map_map]; rfl

/-- **the model's face sum is the surface form of the fan-triangulated boundary** -/
theorem polyhedronNonzero_eq_surf (faces : List (Face ℝ)) (qv : V3 ℝ) (h : ∀ f ∈ faces, FaceOK qv f) :
    toC (polyhedronNonzero faces qv) =
      (Complex.I / ((V3.dot qv qv : ℝ) : ℂ)) * surfSum qv (surfaceOf faces) := by
  unfold polyhedronNonzero surfaceOf
  rw [toC_sum_map]
  induction faces with
  | nil => simp [surfSum]
  | cons f faces ih =>
    simp only [List.map_cons, List.sum_cons, List.flatMap_cons, surfSum_append]
    rw [faceTerm_eq_surf qv f (h f List.mem_cons_self),
      ih (fun f' hf' => h f' (List.mem_cons_of_mem _ hf'))]
    ring

end
end FF

/-! ### the closed-surface certificate -/
namespace FF
noncomputable section
open CCk

theorem fanTris_map {α : Type} [Scalar α] (g : V3 α → V3 ℝ) (v0 : V3 α) :
    ∀ l : List (V3 α), fanTris (g v0) (l.map g) = (fanTris v0 l).map (triTo g)
  | [] => rfl
  | [_] => rfl
  | a :: b :: l => by
    have ih := fanTris_map g v0 (b :: l)
    simp only [List.map_cons] at ih ⊢
    simp only [fanTris, List.map_cons, ih]
    rfl

theorem fanOf_map {α : Type} [Scalar α] (g : V3 α → V3 ℝ) (l : List (V3 α)) :
    fanOf (l.map g) = (fanOf l).map (triTo g) := by
  cases l with
  | nil => rfl
  | cons v0 rest => exact fanTris_map g v0 rest

theorem surfaceOfVerts_map {α : Type} [Scalar α] (g : V3 α → V3 ℝ) (fs : List (List (V3 α))) :
    surfaceOfVerts (fs.map (·.map g)) = (surfaceOfVerts fs).map (triTo g) := by
  unfold surfaceOfVerts
  induction fs with
  | nil => rfl
  | cons f fs ih => simp only [List.map_cons, List.flatMap_cons, List.map_append, ih, fanOf_map]

theorem surfaceOf_eq_verts (faces : List (Face ℝ)) :
    surfaceOf faces = surfaceOfVerts (faces.map (·.verts)) := by
  unfold surfaceOf surfaceOfVerts faceTris
  induction faces with
  | nil => rfl
  | cons f faces ih => simp only [List.flatMap_cons, List.map_cons, ih]

/-- **soundness of the closed-surface certificate**: the checker has accepted the face vertex lists `fsQ`
(exact rationals) and the real faces have the same vertex lists up to a vertex map `g`. -/
theorem surfaceClosedCheck_sound (faces : List (Face ℝ)) (fsQ : List (List (V3 ℚ))) (g : V3 ℚ → V3 ℝ)
    (hverts : faces.map (·.verts) = fsQ.map (·.map g)) (hcheck : surfaceClosedCheck fsQ = true) :
    ClosedSurface (surfaceOf faces) := by
  rw [surfaceOf_eq_verts, hverts, surfaceOfVerts_map]
  unfold surfaceClosedCheck ChainCheck.closedCheck at hcheck
  have := cancelEdges_sound eqb_rat_sound g _ _ hcheck
  rw [flatMap_edgesOf_triTo] at this
  exact this

end
end FF
