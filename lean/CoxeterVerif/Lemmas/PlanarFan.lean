import CoxeterVerif.Lemmas.PlanarFrame
/-!
  C04: the signed FAN of a vertex cycle from any apex `o` — triangles `(o, v_i, v_{i+1})` — is bounded by
  the cycle (the spokes cancel by telescoping), for EVERY vertex list (no simplicity, no planarity, no
  orientation needed).  It removes the triangulation hypothesis from every statement that does not involve
  an absolute value (signed area, centroid, frame independence of the centroid, the area read in the
  temporary frame of `Polygon.inertia_tensor`).
-/
open Scalar
noncomputable section

/-- the fan `(o, v_i, v_{i+1})`, one (signed) triangle per directed edge of the cycle -/
def fanTris (o : V3 ℝ) (w : List (V3 ℝ)) : List (Tri ℝ) := (cycleEdges w).map (fun e => ⟨o, e.1, e.2⟩)

theorem sumEdges_fan (φ : Edge → ℝ) (hφ : OddEdge φ) (o : V3 ℝ) (E : List Edge) :
    sumEdges φ ((E.map (fun e => (⟨o, e.1, e.2⟩ : Tri ℝ))).flatMap triEdges)
      = sumEdges φ E + sumEdges (fun e => φ (o, e.1) - φ (o, e.2)) E := by
  induction E with
  | nil => simp [sumEdges]
  | cons e E ih =>
    simp only [sumEdges, List.map_cons, List.flatMap_cons, List.map_append, List.sum_append, List.sum_cons,
      triEdges, List.map_nil, List.sum_nil] at ih ⊢
    rw [ih, hφ o e.2]
    ring

/-- **the fan from any apex is bounded by the cycle** -/
theorem fan_triangulates (o : V3 ℝ) (w : List (V3 ℝ)) :
    EdgeChainEq (cycleEdges w) ((fanTris o w).flatMap triEdges) := by
  intro φ hφ
  unfold fanTris
  rw [sumEdges_fan φ hφ, sumEdges_telescope (fun v => φ (o, v)) w, add_zero]

theorem fan_inPlane {n o : V3 ℝ} {d : ℝ} {w : List (V3 ℝ)} (ho : V3.dot n o = d)
    (hw : ∀ v ∈ w, V3.dot n v = d) : TrisInPlane n d (fanTris o w) := by
  intro t ht
  simp only [fanTris, List.mem_map] at ht
  obtain ⟨e, he, rfl⟩ := ht
  obtain ⟨h1, h2⟩ := mem_cycleEdges he
  exact ⟨ho, hw _ h1, hw _ h2⟩

theorem fan_ne_nil {o : V3 ℝ} {w : List (V3 ℝ)} (hw : w ≠ []) : fanTris o w ≠ [] := by
  cases w with
  | nil => exact absurd rfl hw
  | cons a t =>
    simp [fanTris, cycleEdges_eq, List.rotate_cons_succ]

/-- the area vector does not change when every vertex is translated -/
theorem dot_areaVector_translate (n c : V3 ℝ) (vs : List (V3 ℝ)) :
    V3.dot n (Spec3.areaVector (vs.map (· - c))) = V3.dot n (Spec3.areaVector vs) := by
  have h := fan_triangulates ⟨0, 0, 0⟩ vs
  rw [dot_areaVector_tri n (EdgeChainEq.map_vertices (· - c) h), dot_areaVector_tri n h]
  simp only [Spec3.area_eq, List.map_map, Function.comp_def, Spec3.triArea_translate]

end
