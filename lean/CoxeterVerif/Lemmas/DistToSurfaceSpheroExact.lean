import CoxeterVerif.Lemmas.DistToSurfaceSpheroList
/-!
  C14, spheropolygon: the returned point is at distance EXACTLY `r` from the core POLYGON.
  Arc branch (no hypothesis beyond a convex corner): the arc point lies in the normal cone of the
  vertex (`arc_point_in_cone`), hence no point on the inner side of the two edges at the vertex is
  closer than `r` (`corner_arc_exact`).
  Straight branch: if no arc range contains the direction, the point of the offset polygon in that
  direction has its foot ON the core edge (`straight_foot`; else it would be seen inside the sector of
  the neighbouring corner's arc: `straight_left_in_sector`, `straight_right_in_sector`,
  `sector_arc_range`), hence is at distance exactly `r` from the polygon (`straight_exact`).
-/
open Scalar
set_option maxRecDepth 4000
noncomputable section
namespace DTS

/-- inside the sector the ray meets the chord `[pt1, pt3]` no later than the arc root -/
theorem arc_chord_before_root (v pt1 pt3 : P2 ℝ) (r a : ℝ)
    (h1 : (pt1.x - v.x) ^ 2 + (pt1.y - v.y) ^ 2 = r ^ 2) (h3 : (pt3.x - v.x) ^ 2 + (pt3.y - v.y) ^ 2 = r ^ 2)
    (hsec : 0 < Spec.cross pt1 pt3)
    (hA : 0 ≤ Spec.cross pt1 ⟨Real.cos a, Real.sin a⟩) (hB : 0 ≤ Spec.cross ⟨Real.cos a, Real.sin a⟩ pt3) :
    ∃ d σ : ℝ, 0 < d ∧ d ≤ arcDist v r a ∧ 0 ≤ σ ∧ σ ≤ 1 ∧
      d * Real.cos a = pt1.x + σ * (pt3.x - pt1.x) ∧ d * Real.sin a = pt1.y + σ * (pt3.y - pt1.y) := by
  have hsc := sin_mul_self_add_cos_mul_self a
  have hu : (⟨Real.cos a, Real.sin a⟩ : P2 ℝ).x ≠ 0 ∨ (⟨Real.cos a, Real.sin a⟩ : P2 ℝ).y ≠ 0 := by
    by_contra h
    rw [not_or, not_not, not_not] at h
    simp only at h
    rw [h.1, h.2] at hsc; norm_num at hsc
  obtain ⟨d, s, hd, hs0, hs1, hx, hy⟩ := ray_hits_segment_of_sector pt1 pt3 _ hu hsec hA hB
  simp only at hx hy
  refine ⟨d, s, hd, ?_, hs0, hs1, hx, hy⟩
  set B := v.x * Real.cos a + v.y * Real.sin a with hBdef
  have hY : (d * Real.cos a - v.x) ^ 2 + (d * Real.sin a - v.y) ^ 2 ≤ r ^ 2 := by
    rw [hx, hy]
    have e : (pt1.x + s * (pt3.x - pt1.x) - v.x) ^ 2 + (pt1.y + s * (pt3.y - pt1.y) - v.y) ^ 2 =
        (1 - s) ^ 2 * ((pt1.x - v.x) ^ 2 + (pt1.y - v.y) ^ 2) + s ^ 2 * ((pt3.x - v.x) ^ 2 + (pt3.y - v.y) ^ 2) +
        2 * s * (1 - s) * ((pt1.x - v.x) * (pt3.x - v.x) + (pt1.y - v.y) * (pt3.y - v.y)) := by ring
    rw [e, h1, h3]
    have hcs : 2 * ((pt1.x - v.x) * (pt3.x - v.x) + (pt1.y - v.y) * (pt3.y - v.y)) ≤ 2 * r ^ 2 := by
      nlinarith [sq_nonneg (pt1.x - v.x - (pt3.x - v.x)), sq_nonneg (pt1.y - v.y - (pt3.y - v.y))]
    have hss : 0 ≤ s * (1 - s) := mul_nonneg hs0 (by linarith)
    nlinarith
  have hq : d * d - 2 * B * d + (v.x * v.x + v.y * v.y - r * r) ≤ 0 := by
    rw [hBdef]; nlinarith [hY, hsc]
  have hdisc : (2 * (d - B)) ^ 2 ≤ (2 * B) ^ 2 - 4 * (v.x * v.x + v.y * v.y - r * r) := by nlinarith
  have hdisc0 : 0 ≤ (2 * B) ^ 2 - 4 * (v.x * v.x + v.y * v.y - r * r) :=
    le_trans (sq_nonneg _) hdisc
  rw [arcDist_eq v r a hdisc0, ← hBdef]
  have : |2 * (d - B)| ≤ Real.sqrt ((2 * B) ^ 2 - 4 * (v.x * v.x + v.y * v.y - r * r)) := by
    rw [← Real.sqrt_sq_eq_abs]; exact Real.sqrt_le_sqrt hdisc
  have h2 := le_abs_self (2 * (d - B))
  linarith

/-- **the arc point lies in the normal cone of the vertex.**  `X = v + e` on the vertex circle
(`|e| = r`), on a ray from the centre that meets the chord `[v + r n1, v + r n2]` at `Y = (d/t) X`
no later than `X` (`d ≤ t`): then `e` is a non-negative combination of the two outward normals
(`cross(n1, e) ≥ 0`, `cross(e, n2) ≥ 0`). -/
theorem arc_point_in_cone (v n1 n2 X : P2 ℝ) (r t d σ : ℝ) (hr : 0 < r)
    (a1 : n1.x * n1.x + n1.y * n1.y = 1) (b1 : n2.x * n2.x + n2.y * n2.y = 1)
    (h1 : 0 < n1.x * v.x + n1.y * v.y) (h2 : 0 < n2.x * v.x + n2.y * v.y)
    (hs : 0 < n1.x * n2.y - n1.y * n2.x)
    (hd : 0 < d) (hdt : d ≤ t) (hσ0 : 0 ≤ σ) (hσ1 : σ ≤ 1)
    (hcirc : (X.x - v.x) ^ 2 + (X.y - v.y) ^ 2 = r ^ 2)
    (hYx : d * X.x = t * (v.x + r * n1.x + σ * (r * n2.x - r * n1.x)))
    (hYy : d * X.y = t * (v.y + r * n1.y + σ * (r * n2.y - r * n1.y))) :
    0 ≤ n1.x * (X.y - v.y) - n1.y * (X.x - v.x) ∧ 0 ≤ (X.x - v.x) * n2.y - (X.y - v.y) * n2.x := by
  set c := n1.x * n2.x + n1.y * n2.y with hc
  set s := n1.x * n2.y - n1.y * n2.x with hsdef
  have hcs : c ^ 2 + s ^ 2 = 1 := by
    have : c ^ 2 + s ^ 2 = (n1.x * n1.x + n1.y * n1.y) * (n2.x * n2.x + n2.y * n2.y) := by
      rw [hc, hsdef]; ring
    rw [this, a1, b1]; ring
  have h1c : 0 < 1 + c := by nlinarith [sq_nonneg (c + 1)]
  set ex := X.x - v.x with hex
  set ey := X.y - v.y with hey
  -- ℓ(X) ≥ 0 :  d ℓ(X) = (t − d) K
  set K := (n1.x * v.x + n1.y * v.y) + (n2.x * v.x + n2.y * v.y) + r * (1 + c) with hK
  have hKpos : 0 < K := by have := mul_pos hr h1c; linarith
  have hl : 0 ≤ (n1.x + n2.x) * ex + (n1.y + n2.y) * ey - r * (1 + c) := by
    have e : d * ((n1.x + n2.x) * ex + (n1.y + n2.y) * ey - r * (1 + c)) = (t - d) * K := by
      have hx' : d * ex = t * (v.x + r * n1.x + σ * (r * n2.x - r * n1.x)) - d * v.x := by rw [hex]; linarith
      have hy' : d * ey = t * (v.y + r * n1.y + σ * (r * n2.y - r * n1.y)) - d * v.y := by rw [hey]; linarith
      have : d * ((n1.x + n2.x) * ex + (n1.y + n2.y) * ey - r * (1 + c)) =
          (n1.x + n2.x) * (d * ex) + (n1.y + n2.y) * (d * ey) - d * (r * (1 + c)) := by ring
      rw [this, hx', hy', hK, hc]
      linear_combination (t * r * (1 - σ)) * a1 + (t * r * σ) * b1
    have : 0 ≤ d * ((n1.x + n2.x) * ex + (n1.y + n2.y) * ey - r * (1 + c)) := by
      rw [e]; exact mul_nonneg (by linarith) hKpos.le
    by_contra hneg
    have := mul_neg_of_pos_of_neg hd (not_le.mp hneg)
    linarith
  have hee : ex ^ 2 + ey ^ 2 = r ^ 2 := hcirc
  constructor
  · -- β = cross(n1, e) ≥ 0
    by_contra hβ
    have hβ : n1.x * ey - n1.y * ex < 0 := not_le.mp hβ
    set α := n1.x * ex + n1.y * ey with hα
    have hαβ : α ^ 2 + (n1.x * ey - n1.y * ex) ^ 2 = r ^ 2 := by
      have : α ^ 2 + (n1.x * ey - n1.y * ex) ^ 2 = (n1.x * n1.x + n1.y * n1.y) * (ex ^ 2 + ey ^ 2) := by
        rw [hα]; ring
      rw [this, a1, hee]; ring
    have hαr : α ≤ r := by
      by_contra h
      have h' : r < α := not_le.mp h
      have hp := mul_pos (sub_pos.mpr h') (show 0 < α + r by linarith)
      have he : (α - r) * (α + r) = α ^ 2 - r ^ 2 := by ring
      have hsq := sq_nonneg (n1.x * ey - n1.y * ex)
      linarith
    -- n2·e = c α + s β  (Binet–Cauchy with |n1| = 1)
    have hn2e : n2.x * ex + n2.y * ey = c * α + s * (n1.x * ey - n1.y * ex) := by
      rw [hc, hsdef, hα]; linear_combination (-(n2.x * ex + n2.y * ey)) * a1
    have : (n1.x + n2.x) * ex + (n1.y + n2.y) * ey - r * (1 + c) =
        (1 + c) * (α - r) + s * (n1.x * ey - n1.y * ex) := by
      have : (n1.x + n2.x) * ex + (n1.y + n2.y) * ey = α + (n2.x * ex + n2.y * ey) := by rw [hα]; ring
      rw [this, hn2e]; ring
    have h3 : (1 + c) * (α - r) ≤ 0 := mul_nonpos_of_nonneg_of_nonpos h1c.le (by linarith)
    have h4 : s * (n1.x * ey - n1.y * ex) < 0 := mul_neg_of_pos_of_neg hs hβ
    linarith
  · by_contra hβ
    have hβ : ex * n2.y - ey * n2.x < 0 := not_le.mp hβ
    set α := n2.x * ex + n2.y * ey with hα
    have hαβ : α ^ 2 + (ex * n2.y - ey * n2.x) ^ 2 = r ^ 2 := by
      have : α ^ 2 + (ex * n2.y - ey * n2.x) ^ 2 = (n2.x * n2.x + n2.y * n2.y) * (ex ^ 2 + ey ^ 2) := by
        rw [hα]; ring
      rw [this, b1, hee]; ring
    have hαr : α ≤ r := by
      by_contra h
      have h' : r < α := not_le.mp h
      have hp := mul_pos (sub_pos.mpr h') (show 0 < α + r by linarith)
      have he : (α - r) * (α + r) = α ^ 2 - r ^ 2 := by ring
      have hsq := sq_nonneg (ex * n2.y - ey * n2.x)
      linarith
    have hn1e : n1.x * ex + n1.y * ey = c * α + s * (ex * n2.y - ey * n2.x) := by
      rw [hc, hsdef, hα]; linear_combination (-(n1.x * ex + n1.y * ey)) * b1
    have : (n1.x + n2.x) * ex + (n1.y + n2.y) * ey - r * (1 + c) =
        (1 + c) * (α - r) + s * (ex * n2.y - ey * n2.x) := by
      have : (n1.x + n2.x) * ex + (n1.y + n2.y) * ey = α + (n1.x * ex + n1.y * ey) := by rw [hα]; ring
      rw [this, hn1e]; ring
    have h3 : (1 + c) * (α - r) ≤ 0 := mul_nonpos_of_nonneg_of_nonpos h1c.le (by linarith)
    have h4 : s * (ex * n2.y - ey * n2.x) < 0 := mul_neg_of_pos_of_neg hs hβ
    linarith


/-- the right-hand normal of `p → q` points away from every `y` on the left of the edge -/
theorem rightNormal_dot_le (p q y : P2 ℝ) (hL : 0 < P2.norm (q - p))
    (h : 0 ≤ Spec.cross (q - p) (y - p)) :
    (rightNormal p q).x * (y.x - q.x) + (rightNormal p q).y * (y.y - q.y) ≤ 0 := by
  have : (rightNormal p q).x * (y.x - q.x) + (rightNormal p q).y * (y.y - q.y) =
      -Spec.cross (q - p) (y - p) / P2.norm (q - p) := by
    simp only [rightNormal, Spec.cross, P2.sub_x, P2.sub_y]; field_simp; ring
  rw [this]; exact div_nonpos_of_nonpos_of_nonneg (by linarith) hL.le

/-- `e` in the cone of `n1`, `n2` (which point away from `y − v`) ⇒ `|v + e − y| ≥ |e|` -/
theorem dist_ge_of_cone (v n1 n2 y : P2 ℝ) (ex ey r : ℝ) (hs : 0 < n1.x * n2.y - n1.y * n2.x)
    (hβ1 : 0 ≤ n1.x * ey - n1.y * ex) (hβ2 : 0 ≤ ex * n2.y - ey * n2.x)
    (hn1y : n1.x * (y.x - v.x) + n1.y * (y.y - v.y) ≤ 0) (hn2y : n2.x * (y.x - v.x) + n2.y * (y.y - v.y) ≤ 0)
    (hcirc : ex ^ 2 + ey ^ 2 = r ^ 2) :
    r ^ 2 ≤ (ex - (y.x - v.x)) ^ 2 + (ey - (y.y - v.y)) ^ 2 := by
  have hdot : (n1.x * n2.y - n1.y * n2.x) * (ex * (y.x - v.x) + ey * (y.y - v.y)) =
      (ex * n2.y - ey * n2.x) * (n1.x * (y.x - v.x) + n1.y * (y.y - v.y)) +
      (n1.x * ey - n1.y * ex) * (n2.x * (y.x - v.x) + n2.y * (y.y - v.y)) := by ring
  have hle : ex * (y.x - v.x) + ey * (y.y - v.y) ≤ 0 := by
    have h1 := mul_nonpos_of_nonneg_of_nonpos hβ2 hn1y
    have h2 := mul_nonpos_of_nonneg_of_nonpos hβ1 hn2y
    have : (n1.x * n2.y - n1.y * n2.x) * (ex * (y.x - v.x) + ey * (y.y - v.y)) ≤ 0 := by
      rw [hdot]; linarith
    by_contra hpos
    have := mul_pos hs (not_le.mp hpos)
    linarith
  have : (ex - (y.x - v.x)) ^ 2 + (ey - (y.y - v.y)) ^ 2 =
      (ex ^ 2 + ey ^ 2) - 2 * (ex * (y.x - v.x) + ey * (y.y - v.y)) +
        ((y.x - v.x) ^ 2 + (y.y - v.y) ^ 2) := by ring
  rw [this, hcirc]
  nlinarith [sq_nonneg (y.x - v.x), sq_nonneg (y.y - v.y)]

/-- **arc branch: distance EXACTLY `r` from the core polygon.**  In addition to `corner_arc_correct`:
every point `y` on the inner side of the two core edges at `v2` (in particular every point of the
convex core polygon) is at distance at least `r` from the returned point. -/
theorem corner_arc_exact (r : ℝ) (hr : 0 < r) (v1 v2 v3 : P2 ℝ) (a : ℝ) (ha0 : 0 ≤ a) (ha2 : a < twoPi)
    (h12 : 0 < Spec.cross v1 v2) (h23 : 0 < Spec.cross v2 v3)
    (hturn : 0 < Spec.cross (v2 - v1) (v3 - v2))
    (hin : inArc (corner r v1 v2 v3) a) (y : P2 ℝ)
    (hy1 : 0 ≤ Spec.cross (v2 - v1) (y - v1)) (hy2 : 0 ≤ Spec.cross (v3 - v2) (y - v2)) :
    r ^ 2 ≤ (arcDist (corner r v1 v2 v3).v r a * Real.cos a - y.x) ^ 2 +
      (arcDist (corner r v1 v2 v3).v r a * Real.sin a - y.y) ^ 2 := by
  obtain ⟨htpos, hcirc⟩ := corner_arc_correct r hr v1 v2 v3 a ha0 ha2 h12 h23 hturn hin
  obtain ⟨_, _, ht1, ht2, hv⟩ := corner_newVert_on_lines r v1 v2 v3 h12 h23 hturn
  
  obtain ⟨a1, _, _, a4, _, _⟩ := rightNormal_props v1 v2 h12
  obtain ⟨b1, _, b3, _, _, _⟩ := rightNormal_props v2 v3 h23
  
  set n1 := rightNormal v1 v2 with hn1
  set n2 := rightNormal v2 v3 with hn2
  have hL1 : 0 < P2.norm (v2 - v1) := by
    apply norm_pos_of_ne
    by_contra h
    rw [not_or, not_not, not_not] at h
    simp only [Spec.cross, h.1, h.2] at hturn; linarith
  have hL2 : 0 < P2.norm (v3 - v2) := by
    apply norm_pos_of_ne
    by_contra h
    rw [not_or, not_not, not_not] at h
    simp only [Spec.cross, h.1, h.2] at hturn; linarith
  have hs : 0 < n1.x * n2.y - n1.y * n2.x := by
    have : n1.x * n2.y - n1.y * n2.x =
        Spec.cross (v2 - v1) (v3 - v2) / (P2.norm (v2 - v1) * P2.norm (v3 - v2)) := by
      simp only [hn1, hn2, rightNormal, Spec.cross, P2.sub_x, P2.sub_y]
      field_simp; ring
    rw [this]; exact div_pos hturn (mul_pos hL1 hL2)
  have hsec := corner_sector_pos v2 n1 n2 r hr a1 b1 a4 b3 hs
  have e1 : (corner r v1 v2 v3).theta1 = vang ⟨v2.x + n1.x * r, v2.y + n1.y * r⟩ := by
    rw [ht1, atan2Pos_eq_vang']
  have e2 : (corner r v1 v2 v3).theta2 = vang ⟨v2.x + n2.x * r, v2.y + n2.y * r⟩ := by
    rw [ht2, atan2Pos_eq_vang']
  unfold inArc at hin
  rw [e1, e2] at hin
  obtain ⟨hA, hB⟩ := arc_range_sector _ _ a ha0 ha2 hsec hin
  have hc1 : ((⟨v2.x + n1.x * r, v2.y + n1.y * r⟩ : P2 ℝ).x - v2.x) ^ 2 +
      ((⟨v2.x + n1.x * r, v2.y + n1.y * r⟩ : P2 ℝ).y - v2.y) ^ 2 = r ^ 2 := by
    simp only
    have : (v2.x + n1.x * r - v2.x) ^ 2 + (v2.y + n1.y * r - v2.y) ^ 2 =
        r ^ 2 * (n1.x * n1.x + n1.y * n1.y) := by ring
    rw [this, a1]; ring
  have hc3 : ((⟨v2.x + n2.x * r, v2.y + n2.y * r⟩ : P2 ℝ).x - v2.x) ^ 2 +
      ((⟨v2.x + n2.x * r, v2.y + n2.y * r⟩ : P2 ℝ).y - v2.y) ^ 2 = r ^ 2 := by
    simp only
    have : (v2.x + n2.x * r - v2.x) ^ 2 + (v2.y + n2.y * r - v2.y) ^ 2 =
        r ^ 2 * (n2.x * n2.x + n2.y * n2.y) := by ring
    rw [this, b1]; ring
  rw [hv] at htpos hcirc ⊢
  obtain ⟨d, σ, hd, hdt, hσ0, hσ1, hx, hy⟩ := arc_chord_before_root v2 _ _ r a hc1 hc3 hsec hA hB
  simp only at hx hy
  generalize arcDist v2 r a = t at htpos hcirc hdt ⊢
  have hYx : d * (t * Real.cos a) = t * (v2.x + r * n1.x + σ * (r * n2.x - r * n1.x)) := by
    linear_combination t * hx
  have hYy : d * (t * Real.sin a) = t * (v2.y + r * n1.y + σ * (r * n2.y - r * n1.y)) := by
    linear_combination t * hy
  obtain ⟨hβ1, hβ2⟩ := arc_point_in_cone v2 n1 n2 ⟨t * Real.cos a, t * Real.sin a⟩ r t d σ hr a1 b1 a4 b3 hs
    hd hdt hσ0 hσ1 hcirc hYx hYy
  simp only at hβ1 hβ2
  have hn1y := rightNormal_dot_le v1 v2 y hL1 hy1
  have hn2y : (rightNormal v2 v3).x * (y.x - v2.x) + (rightNormal v2 v3).y * (y.y - v2.y) ≤ 0 := by
    have := rightNormal_dot_le v2 v3 y hL2 hy2
    obtain ⟨_, hperp, _⟩ := rightNormal_props v2 v3 h23
    linarith
  rw [← hn1] at hn1y
  rw [← hn2] at hn2y
  have := dist_ge_of_cone v2 n1 n2 y (t * Real.cos a - v2.x) (t * Real.sin a - v2.y) r hs hβ1 hβ2 hn1y hn2y hcirc
  calc r ^ 2 ≤ _ := this
    _ = _ := by ring

/-! ### straight parts -/

theorem sin_nonneg_cases (x : ℝ) (h1 : -(2 * Real.pi) < x) (h2 : x < 2 * Real.pi) (hs : 0 ≤ Real.sin x) :
    (0 ≤ x ∧ x ≤ Real.pi) ∨ x ≤ -Real.pi := by
  have hpi := Real.pi_pos
  by_cases h0 : 0 ≤ x
  · left
    refine ⟨h0, ?_⟩
    by_contra h
    have h : Real.pi < x := not_le.mp h
    have : Real.sin x = -Real.sin (x - Real.pi) := by rw [Real.sin_sub_pi]; ring
    have hp : 0 < Real.sin (x - Real.pi) := Real.sin_pos_of_pos_of_lt_pi (by linarith) (by linarith)
    linarith
  · right
    by_contra h
    have h : -Real.pi < x := not_le.mp h
    have := Real.sin_neg_of_neg_of_neg_pi_lt (not_le.mp h0) h
    linarith

/-- converse of `arc_range_sector`: a direction in the sector between `pt1` and `pt3` passes the
angular test of the arc loop -/
theorem sector_arc_range (pt1 pt3 : P2 ℝ) (a : ℝ) (ha0 : 0 ≤ a) (ha2 : a < twoPi)
    (hsec : 0 < Spec.cross pt1 pt3)
    (hA : 0 ≤ Spec.cross pt1 ⟨Real.cos a, Real.sin a⟩) (hB : 0 ≤ Spec.cross ⟨Real.cos a, Real.sin a⟩ pt3) :
    (if vang pt3 < vang pt1 then (vang pt1 ≤ a ∨ a ≤ vang pt3) else (vang pt1 ≤ a ∧ a ≤ vang pt3)) := by
  obtain ⟨hn1, hn3⟩ := norm_pos_of_cross_pos pt1 pt3 hsec
  obtain ⟨h10, h12⟩ := vang_range pt1
  obtain ⟨h30, h32⟩ := vang_range pt3
  have hpi := Real.pi_pos
  rw [(cross_dir_eq_sin pt1 a).1] at hA
  rw [(cross_dir_eq_sin pt3 a).2] at hB
  have hsA : 0 ≤ Real.sin (a - vang pt1) := by
    by_contra h; have := mul_neg_of_pos_of_neg hn1 (not_le.mp h); linarith
  have hsB : 0 ≤ Real.sin (vang pt3 - a) := by
    by_contra h; have := mul_neg_of_pos_of_neg hn3 (not_le.mp h); linarith
  rw [twoPi_real] at *
  have cA := sin_nonneg_cases _ (by linarith) (by linarith) hsA
  have cB := sin_nonneg_cases _ (by linarith) (by linarith) hsB
  rcases wrap_or_not pt1 pt3 hsec with ⟨hlt, hgap⟩ | ⟨hlt, hgap⟩
  · rw [if_neg (not_lt.mpr hlt.le)]
    rcases cA with cA | cA
    · rcases cB with cB | cB
      · exact ⟨by linarith [cA.1], by linarith [cB.1]⟩
      · exfalso; linarith [cA.2]
    · exfalso
      rcases cB with cB | cB
      · linarith [cB.2]
      · linarith
  · rw [if_pos hlt]
    rw [twoPi_real] at hgap
    by_contra hno
    rw [not_or, not_le, not_le] at hno
    rcases cA with cA | cA
    · linarith [cA.1]
    · rcases cB with cB | cB
      · linarith [cB.1]
      · linarith

/-- the vector from a core vertex to its expanded vertex: `n1·x = n2·x = r` forces
`cross(n1, x) = cross(x, n2) = κ ≥ 0` -/
theorem offset_vec_cross (n1 n2 x : P2 ℝ) (r : ℝ) (hr : 0 ≤ r)
    (a1 : n1.x * n1.x + n1.y * n1.y = 1) (b1 : n2.x * n2.x + n2.y * n2.y = 1)
    (hs : 0 < n1.x * n2.y - n1.y * n2.x)
    (h1 : n1.x * x.x + n1.y * x.y = r) (h2 : n2.x * x.x + n2.y * x.y = r) :
    0 ≤ n1.x * x.y - n1.y * x.x ∧ 0 ≤ x.x * n2.y - x.y * n2.x := by
  set c := n1.x * n2.x + n1.y * n2.y with hc
  set s := n1.x * n2.y - n1.y * n2.x with hsdef
  set P := x.x * n2.y - x.y * n2.x with hP
  set Q := n1.x * x.y - n1.y * x.x with hQ
  have hcs : c ^ 2 + s ^ 2 = 1 := by
    have : c ^ 2 + s ^ 2 = (n1.x * n1.x + n1.y * n1.y) * (n2.x * n2.x + n2.y * n2.y) := by
      rw [hc, hsdef]; ring
    rw [this, a1, b1]; ring
  have h1c : 0 < 1 + c := by nlinarith [sq_nonneg (c + 1)]
  have hc1 : 0 < 1 - c := by nlinarith [sq_nonneg (c - 1)]
  have e1 : s * r = P + Q * c := by
    rw [← h1, hsdef, hP, hQ, hc]; linear_combination (x.x * n2.y - x.y * n2.x) * a1
  have e2 : s * r = P * c + Q := by
    rw [← h2, hsdef, hP, hQ, hc]; linear_combination (n1.x * x.y - n1.y * x.x) * b1
  have hPQ : P = Q := by
    have : (P - Q) * (1 - c) = 0 := by linarith
    rcases mul_eq_zero.mp this with h | h
    · linarith
    · linarith
  have hQpos : 0 ≤ Q := by
    have : Q * (1 + c) = s * r := by rw [e2, hPQ]; ring
    have h3 : 0 ≤ Q * (1 + c) := by rw [this]; exact mul_nonneg hs.le hr
    by_contra hneg
    have := mul_neg_of_neg_of_pos (not_le.mp hneg) h1c
    linarith
  exact ⟨hQpos, by rw [hPQ]; exact hQpos⟩

/-- two points on the line `n·Z = H` (`|n| = 1`): `cross(Z1, Z2) = H · cross(n, Z2 − Z1)` -/
theorem line_cross (n Z1 Z2 : P2 ℝ) (H : ℝ) (a1 : n.x * n.x + n.y * n.y = 1)
    (h1 : n.x * Z1.x + n.y * Z1.y = H) (h2 : n.x * Z2.x + n.y * Z2.y = H) :
    Z1.x * Z2.y - Z1.y * Z2.x = H * (n.x * (Z2.y - Z1.y) - n.y * (Z2.x - Z1.x)) := by
  have e : (Z1.x * Z2.y - Z1.y * Z2.x) * (n.x * n.x + n.y * n.y) =
      (n.x * Z1.x + n.y * Z1.y) * (n.x * Z2.y - n.y * Z2.x) - (n.x * Z2.x + n.y * Z2.y) * (n.x * Z1.y - n.y * Z1.x) := by
    ring
  rw [a1, h1, h2] at e
  linarith

/-- a point `X` of the line `n·Z = H` between `A` and `P` (measured along `d̂ = (−n.y, n.x)`):
`ν X = (ν − μ) A + μ P` with `μ = d̂·(X − A)`, `ν = d̂·(P − A)` -/
theorem line_between (n A P X : P2 ℝ) (H : ℝ) (a1 : n.x * n.x + n.y * n.y = 1)
    (hA : n.x * A.x + n.y * A.y = H) (hP : n.x * P.x + n.y * P.y = H) (hX : n.x * X.x + n.y * X.y = H) :
    let μ := n.x * (X.y - A.y) - n.y * (X.x - A.x)
    let ν := n.x * (P.y - A.y) - n.y * (P.x - A.x)
    ν * X.x = (ν - μ) * A.x + μ * P.x ∧ ν * X.y = (ν - μ) * A.y + μ * P.y := by
  intro μ ν
  -- W = (n·W) n + cross(n,W) d̂ for W = X − A, P − A, both with n·W = 0
  have hXA : n.x * (X.x - A.x) + n.y * (X.y - A.y) = 0 := by linarith
  have hPA : n.x * (P.x - A.x) + n.y * (P.y - A.y) = 0 := by linarith
  have ex : X.x - A.x = μ * (-n.y) := by
    simp only [μ]; linear_combination (-(X.x - A.x)) * a1 + n.x * hXA
  have ey : X.y - A.y = μ * n.x := by
    simp only [μ]; linear_combination (-(X.y - A.y)) * a1 + n.y * hXA
  have px : P.x - A.x = ν * (-n.y) := by
    simp only [ν]; linear_combination (-(P.x - A.x)) * a1 + n.x * hPA
  have py : P.y - A.y = ν * n.x := by
    simp only [ν]; linear_combination (-(P.y - A.y)) * a1 + n.y * hPA
  constructor
  · linear_combination ν * ex - μ * px
  · linear_combination ν * ey - μ * py

/-- **left end of a straight part.**  `X` on the offset line of the core edge `p → p + L d̂`
(`d̂ = (−n.y, n.x)`), between the expanded vertex `A` of the corner at `p` and `B` (further along
`d̂`), but BEFORE the foot of `p` (`τ = d̂·(X − p) < 0`): then `X` is seen from the centre inside the
sector of the corner's arc, between `p + r np` and `p + r n`. -/
theorem straight_left_in_sector (p n np A X : P2 ℝ) (r μ : ℝ) (hr : 0 < r)
    (an : n.x * n.x + n.y * n.y = 1) (anp : np.x * np.x + np.y * np.y = 1)
    (hh : 0 < n.x * p.x + n.y * p.y) (hhp : 0 < np.x * p.x + np.y * p.y)
    (hsp : 0 < np.x * n.y - np.y * n.x)
    (hA1 : np.x * (A.x - p.x) + np.y * (A.y - p.y) = r) (hA2 : n.x * (A.x - p.x) + n.y * (A.y - p.y) = r)
    (hXl : n.x * (X.x - p.x) + n.y * (X.y - p.y) = r)
    (hμ : μ = n.x * (X.y - A.y) - n.y * (X.x - A.x)) (hμ0 : 0 ≤ μ)
    (hτ : n.x * (X.y - p.y) - n.y * (X.x - p.x) < 0) :
    0 ≤ (p.x + np.x * r) * X.y - (p.y + np.y * r) * X.x ∧
    0 ≤ X.x * (p.y + n.y * r) - X.y * (p.x + n.x * r) := by
  set H := n.x * p.x + n.y * p.y + r with hH
  have hHpos : 0 < H := by linarith
  obtain ⟨κ1, κ2⟩ := offset_vec_cross np n ⟨A.x - p.x, A.y - p.y⟩ r hr.le anp an hsp hA1 hA2
  simp only at κ1 κ2
  have hXH : n.x * X.x + n.y * X.y = H := by rw [hH]; linarith
  have hAH : n.x * A.x + n.y * A.y = H := by rw [hH]; linarith
  have hP3 : n.x * (p.x + n.x * r) + n.y * (p.y + n.y * r) = H := by
    rw [hH]; linear_combination r * an
  constructor
  · -- ν f(X) = (ν − μ) f(A) + μ f(pt3)
    obtain ⟨bx, by'⟩ := line_between n A ⟨p.x + n.x * r, p.y + n.y * r⟩ X H an hAH hP3 hXH
    simp only at bx by'
    rw [← hμ] at bx by'
    set ν := n.x * (p.y + n.y * r - A.y) - n.y * (p.x + n.x * r - A.x) with hν
    have hνe : ν = (A.x - p.x) * n.y - (A.y - p.y) * n.x := by rw [hν]; ring
    have hτe : n.x * (X.y - p.y) - n.y * (X.x - p.x) = μ - ν := by rw [hμ, hν]; ring
    have hμν : μ < ν := by linarith
    have hνpos : 0 < ν := by linarith
    -- f(A) ≥ 0
    have hfA : 0 ≤ (p.x + np.x * r) * A.y - (p.y + np.y * r) * A.x := by
      have hp1 : np.x * (p.x + np.x * r) + np.y * (p.y + np.y * r) = np.x * p.x + np.y * p.y + r := by
        linear_combination r * anp
      have hpA : np.x * A.x + np.y * A.y = np.x * p.x + np.y * p.y + r := by linarith
      have := line_cross np ⟨p.x + np.x * r, p.y + np.y * r⟩ A _ anp hp1 hpA
      simp only at this
      rw [this]
      apply mul_nonneg (by linarith)
      have : np.x * (A.y - (p.y + np.y * r)) - np.y * (A.x - (p.x + np.x * r)) =
          np.x * (A.y - p.y) - np.y * (A.x - p.x) := by ring
      rw [this]; exact κ1
    have hf3 := corner_sector_pos p np n r hr anp an hhp hh hsp
    simp only [Spec.cross] at hf3
    have key : ν * ((p.x + np.x * r) * X.y - (p.y + np.y * r) * X.x) =
        (ν - μ) * ((p.x + np.x * r) * A.y - (p.y + np.y * r) * A.x) +
        μ * ((p.x + np.x * r) * (p.y + n.y * r) - (p.y + np.y * r) * (p.x + n.x * r)) := by
      linear_combination (p.x + np.x * r) * by' - (p.y + np.y * r) * bx
    have h1 := mul_nonneg (by linarith : (0:ℝ) ≤ ν - μ) hfA
    have h2 := mul_nonneg hμ0 hf3.le
    by_contra hneg
    have := mul_neg_of_pos_of_neg hνpos (not_le.mp hneg)
    linarith
  · have := line_cross n X ⟨p.x + n.x * r, p.y + n.y * r⟩ H an hXH hP3
    simp only at this
    rw [this]
    apply mul_nonneg hHpos.le
    have e : n.x * (p.y + n.y * r - X.y) - n.y * (p.x + n.x * r - X.x) =
        -(n.x * (X.y - p.y) - n.y * (X.x - p.x)) := by ring
    rw [e]; linarith


/-- **right end of a straight part** (mirror image of `straight_left_in_sector`) -/
theorem straight_right_in_sector (q n nn B X : P2 ℝ) (r μ : ℝ) (hr : 0 < r)
    (an : n.x * n.x + n.y * n.y = 1) (ann : nn.x * nn.x + nn.y * nn.y = 1)
    (hh : 0 < n.x * q.x + n.y * q.y) (hhn : 0 < nn.x * q.x + nn.y * q.y)
    (hsn : 0 < n.x * nn.y - n.y * nn.x)
    (hB1 : n.x * (B.x - q.x) + n.y * (B.y - q.y) = r) (hB2 : nn.x * (B.x - q.x) + nn.y * (B.y - q.y) = r)
    (hXl : n.x * (X.x - q.x) + n.y * (X.y - q.y) = r)
    (hμ : μ = n.x * (B.y - X.y) - n.y * (B.x - X.x)) (hμ0 : 0 ≤ μ)
    (hτ : 0 < n.x * (X.y - q.y) - n.y * (X.x - q.x)) :
    0 ≤ (q.x + n.x * r) * X.y - (q.y + n.y * r) * X.x ∧
    0 ≤ X.x * (q.y + nn.y * r) - X.y * (q.x + nn.x * r) := by
  set H := n.x * q.x + n.y * q.y + r with hH
  have hHpos : 0 < H := by linarith
  obtain ⟨κ1, κ2⟩ := offset_vec_cross n nn ⟨B.x - q.x, B.y - q.y⟩ r hr.le an ann hsn hB1 hB2
  simp only at κ1 κ2
  have hXH : n.x * X.x + n.y * X.y = H := by rw [hH]; linarith
  have hBH : n.x * B.x + n.y * B.y = H := by rw [hH]; linarith
  have hP1 : n.x * (q.x + n.x * r) + n.y * (q.y + n.y * r) = H := by
    rw [hH]; linear_combination r * an
  constructor
  · have := line_cross n ⟨q.x + n.x * r, q.y + n.y * r⟩ X H an hP1 hXH
    simp only at this
    rw [this]
    apply mul_nonneg hHpos.le
    have e : n.x * (X.y - (q.y + n.y * r)) - n.y * (X.x - (q.x + n.x * r)) =
        n.x * (X.y - q.y) - n.y * (X.x - q.x) := by ring
    rw [e]; exact hτ.le
  · obtain ⟨bx, by'⟩ := line_between n B ⟨q.x + n.x * r, q.y + n.y * r⟩ X H an hBH hP1 hXH
    simp only at bx by'
    set ν := n.x * (B.y - q.y) - n.y * (B.x - q.x) with hν
    have hm : n.x * (X.y - B.y) - n.y * (X.x - B.x) = -μ := by rw [hμ]; ring
    have hn' : n.x * (q.y + n.y * r - B.y) - n.y * (q.x + n.x * r - B.x) = -ν := by rw [hν]; ring
    rw [hm, hn'] at bx by'
    have hτe : n.x * (X.y - q.y) - n.y * (X.x - q.x) = ν - μ := by rw [hμ, hν]; ring
    have hμν : μ < ν := by linarith
    have hνpos : 0 < ν := by linarith
    have hgB : 0 ≤ B.x * (q.y + nn.y * r) - B.y * (q.x + nn.x * r) := by
      have hp3 : nn.x * (q.x + nn.x * r) + nn.y * (q.y + nn.y * r) = nn.x * q.x + nn.y * q.y + r := by
        linear_combination r * ann
      have hpB : nn.x * B.x + nn.y * B.y = nn.x * q.x + nn.y * q.y + r := by linarith
      have := line_cross nn B ⟨q.x + nn.x * r, q.y + nn.y * r⟩ _ ann hpB hp3
      simp only at this
      rw [this]
      apply mul_nonneg (by linarith)
      have : nn.x * (q.y + nn.y * r - B.y) - nn.y * (q.x + nn.x * r - B.x) =
          (B.x - q.x) * nn.y - (B.y - q.y) * nn.x := by ring
      rw [this]; exact κ2
    have hg1 := corner_sector_pos q n nn r hr an ann hh hhn hsn
    simp only [Spec.cross] at hg1
    have key : ν * (X.x * (q.y + nn.y * r) - X.y * (q.x + nn.x * r)) =
        (ν - μ) * (B.x * (q.y + nn.y * r) - B.y * (q.x + nn.x * r)) +
        μ * ((q.x + n.x * r) * (q.y + nn.y * r) - (q.y + n.y * r) * (q.x + nn.x * r)) := by
      linear_combination (-(q.y + nn.y * r)) * bx + (q.x + nn.x * r) * by'
    have h1 := mul_nonneg (by linarith : (0:ℝ) ≤ ν - μ) hgB
    have h2 := mul_nonneg hμ0 hg1.le
    by_contra hneg
    have := mul_neg_of_pos_of_neg hνpos (not_le.mp hneg)
    linarith

theorem rightNormal_cross_pos (v1 v2 v3 : P2 ℝ) (hturn : 0 < Spec.cross (v2 - v1) (v3 - v2)) :
    0 < (rightNormal v1 v2).x * (rightNormal v2 v3).y - (rightNormal v1 v2).y * (rightNormal v2 v3).x := by
  have hL1 : 0 < P2.norm (v2 - v1) := by
    apply norm_pos_of_ne
    by_contra h
    rw [not_or, not_not, not_not] at h
    simp only [Spec.cross, h.1, h.2] at hturn; linarith
  have hL2 : 0 < P2.norm (v3 - v2) := by
    apply norm_pos_of_ne
    by_contra h
    rw [not_or, not_not, not_not] at h
    simp only [Spec.cross, h.1, h.2] at hturn; linarith
  have : (rightNormal v1 v2).x * (rightNormal v2 v3).y - (rightNormal v1 v2).y * (rightNormal v2 v3).x =
      Spec.cross (v2 - v1) (v3 - v2) / (P2.norm (v2 - v1) * P2.norm (v3 - v2)) := by
    simp only [rightNormal, Spec.cross, P2.sub_x, P2.sub_y]
    field_simp; ring
  rw [this]; exact div_pos hturn (mul_pos hL1 hL2)

/-- sector ⇒ the corner's range test -/
theorem inArc_of_sector (r : ℝ) (hr : 0 < r) (v1 v2 v3 : P2 ℝ) (a dd : ℝ) (ha0 : 0 ≤ a) (ha2 : a < twoPi)
    (hdd : 0 < dd)
    (h12 : 0 < Spec.cross v1 v2) (h23 : 0 < Spec.cross v2 v3)
    (hturn : 0 < Spec.cross (v2 - v1) (v3 - v2))
    (s1 : 0 ≤ (v2.x + (rightNormal v1 v2).x * r) * (dd * Real.sin a) - (v2.y + (rightNormal v1 v2).y * r) * (dd * Real.cos a))
    (s2 : 0 ≤ (dd * Real.cos a) * (v2.y + (rightNormal v2 v3).y * r) - (dd * Real.sin a) * (v2.x + (rightNormal v2 v3).x * r)) :
    inArc (corner r v1 v2 v3) a := by
  obtain ⟨_, _, ht1, ht2, _⟩ := corner_newVert_on_lines r v1 v2 v3 h12 h23 hturn
  obtain ⟨a1, _, _, a4, _, _⟩ := rightNormal_props v1 v2 h12
  obtain ⟨b1, _, b3, _, _, _⟩ := rightNormal_props v2 v3 h23
  have hs := rightNormal_cross_pos v1 v2 v3 hturn
  have hsec := corner_sector_pos v2 _ _ r hr a1 b1 a4 b3 hs
  have hA : 0 ≤ Spec.cross ⟨v2.x + (rightNormal v1 v2).x * r, v2.y + (rightNormal v1 v2).y * r⟩
      ⟨Real.cos a, Real.sin a⟩ := by
    simp only [Spec.cross]
    by_contra h
    have := mul_neg_of_pos_of_neg hdd (not_le.mp h)
    linarith
  have hB : 0 ≤ Spec.cross ⟨Real.cos a, Real.sin a⟩
      ⟨v2.x + (rightNormal v2 v3).x * r, v2.y + (rightNormal v2 v3).y * r⟩ := by
    simp only [Spec.cross]
    by_contra h
    have := mul_neg_of_pos_of_neg hdd (not_le.mp h)
    linarith
  have := sector_arc_range _ _ a ha0 ha2 hsec hA hB
  unfold inArc
  rw [ht1, ht2, atan2Pos_eq_vang', atan2Pos_eq_vang']
  exact this


/-- cross of the right-hand normal with its own edge is the edge length -/
theorem rightNormal_cross_edge (p q : P2 ℝ) (hL : 0 < P2.norm (q - p)) :
    (rightNormal p q).x * (q.y - p.y) - (rightNormal p q).y * (q.x - p.x) = P2.norm (q - p) ∧
    q.x - p.x = P2.norm (q - p) * (-(rightNormal p q).y) ∧ q.y - p.y = P2.norm (q - p) * (rightNormal p q).x := by
  have hLL := P2.norm_mul_self (q - p)
  simp only [P2.sub_x, P2.sub_y] at hLL
  have hL' : P2.norm (q - p) ≠ 0 := hL.ne'
  refine ⟨?_, ?_, ?_⟩
  · simp only [rightNormal]; field_simp; nlinarith
  · simp only [rightNormal]; field_simp
  · simp only [rightNormal]; field_simp

set_option maxHeartbeats 1000000 in
/-- **straight parts: the foot of the returned point lies ON the core edge.**  If no arc range
contains the reduced angle, the point of the offset polygon in that direction is `y0 + r n` with
`y0` on the core edge segment `[p, q]` and `n` the outward unit normal of that edge. -/
theorem straight_foot (V : List (P2 ℝ)) (c : P2 ℝ) (r : ℝ) (hr : 0 < r) (h3 : 3 ≤ V.length)
    (hconv : Spec.strictConvexCCW V) (hin : Spec.strictlyInsideCCW V c)
    (a dd : ℝ) (ha0 : 0 ≤ a) (ha2 : a < twoPi) (hdd : 0 < dd)
    (hno : ∀ k ∈ corners r (V.map (· - c)), ¬ inArc k a)
    (hX : Spec.onPolyBoundary (spgNewVerts false V c r) ⟨dd * Real.cos a, dd * Real.sin a⟩) :
    ∃ e ∈ Spec.edgesOf V, ∃ τ : ℝ, 0 ≤ τ ∧ τ ≤ 1 ∧
      dd * Real.cos a - r * (rightNormal e.1 e.2).x = (e.1.x - c.x) + τ * (e.2.x - e.1.x) ∧
      dd * Real.sin a - r * (rightNormal e.1 e.2).y = (e.1.y - c.y) + τ * (e.2.y - e.1.y) := by
  obtain ⟨⟨A, B⟩, hAB, σ, hσ0, hσ1, hx, hy⟩ := hX
  simp only [Scalar.lit, Scalar.ofNat_real, Nat.cast_zero, Nat.cast_one] at hσ0 hσ1 hx hy
  have hW : spgVerts false V c = V.map (· - c) := by simp [spgVerts]
  unfold spgNewVerts at hAB
  rw [hW] at hAB
  obtain ⟨a0, p, q, d0, hA, hB, e1, e2, e3, hk1, hk2⟩ := newVerts_edges r _ (by simp; omega) A B hAB
  obtain ⟨c1, c2, t1, _⟩ := convex_corner_of_edges V c hconv hin a0 p q e1 e2
  obtain ⟨_, c3, t2, _⟩ := convex_corner_of_edges V c hconv hin p q d0 e2 e3
  obtain ⟨hA1, hA2, _⟩ := corner_newVert_on_lines r a0 p q c1 c2 t1
  obtain ⟨hB1, hB2, _⟩ := corner_newVert_on_lines r p q d0 c2 c3 t2
  rw [← hA] at hA1 hA2
  rw [← hB] at hB1 hB2
  obtain ⟨anp, _, _, hhp, _, _⟩ := rightNormal_props a0 p c1
  obtain ⟨an, hperp, hhP, hhQ, _, _⟩ := rightNormal_props p q c2
  obtain ⟨ann, _, hhn, _, _, _⟩ := rightNormal_props q d0 c3
  have hsp := rightNormal_cross_pos a0 p q t1
  have hsn := rightNormal_cross_pos p q d0 t2
  have hL : 0 < P2.norm (q - p) := by
    apply norm_pos_of_ne
    by_contra h
    rw [not_or, not_not, not_not] at h
    simp only [Spec.cross, h.1, h.2] at t1; linarith
  obtain ⟨hLc, hqx, hqy⟩ := rightNormal_cross_edge p q hL
  obtain ⟨_, κA⟩ := offset_vec_cross (rightNormal a0 p) (rightNormal p q) ⟨A.x - p.x, A.y - p.y⟩ r hr.le anp an hsp hA1 hA2
  obtain ⟨κB, _⟩ := offset_vec_cross (rightNormal p q) (rightNormal q d0) ⟨B.x - q.x, B.y - q.y⟩ r hr.le an ann hsn hB1 hB2
  simp only at κA κB hx hy hperp hhp hhP hhQ hhn anp an ann
  generalize hnp : rightNormal a0 p = np at *
  generalize hnn : rightNormal q d0 = nn at *
  obtain ⟨e0, he0, hee⟩ := (mem_edgesOf_translate V c _).mp e2
  have hpe : p = e0.1 - c := congrArg Prod.fst hee
  have hqe : q = e0.2 - c := congrArg Prod.snd hee
  have hnE : rightNormal p q = rightNormal e0.1 e0.2 := by rw [hpe, hqe, rightNormal_translate]
  generalize hn : rightNormal p q = n at *
  set X : P2 ℝ := ⟨dd * Real.cos a, dd * Real.sin a⟩ with hXdef
  have hXx : X.x = A.x + σ * (B.x - A.x) := hx
  have hXy : X.y = A.y + σ * (B.y - A.y) := hy
  -- cross(n, B − A) ≥ 0
  have hBA : 0 ≤ n.x * (B.y - A.y) - n.y * (B.x - A.x) := by
    have : n.x * (B.y - A.y) - n.y * (B.x - A.x) =
        (n.x * (q.y - p.y) - n.y * (q.x - p.x)) + (n.x * (B.y - q.y) - n.y * (B.x - q.x)) +
        ((A.x - p.x) * n.y - (A.y - p.y) * n.x) := by ring
    rw [this, hLc]; linarith
  have hXlp : n.x * (X.x - p.x) + n.y * (X.y - p.y) = r := by
    rw [hXx, hXy]
    have : n.x * (A.x + σ * (B.x - A.x) - p.x) + n.y * (A.y + σ * (B.y - A.y) - p.y) =
        (1 - σ) * (n.x * (A.x - p.x) + n.y * (A.y - p.y)) +
        σ * ((n.x * (B.x - q.x) + n.y * (B.y - q.y)) + (n.x * (q.x - p.x) + n.y * (q.y - p.y))) := by ring
    rw [this, hA2, hB1, hperp]; ring
  have hXlq : n.x * (X.x - q.x) + n.y * (X.y - q.y) = r := by
    have : n.x * (X.x - q.x) + n.y * (X.y - q.y) =
        (n.x * (X.x - p.x) + n.y * (X.y - p.y)) - (n.x * (q.x - p.x) + n.y * (q.y - p.y)) := by ring
    rw [this, hXlp, hperp]; ring
  -- not before the foot of p
  have hτ0 : 0 ≤ n.x * (X.y - p.y) - n.y * (X.x - p.x) := by
    by_contra hneg
    have hμ0 : 0 ≤ n.x * (X.y - A.y) - n.y * (X.x - A.x) := by
      have : n.x * (X.y - A.y) - n.y * (X.x - A.x) = σ * (n.x * (B.y - A.y) - n.y * (B.x - A.x)) := by
        rw [hXx, hXy]; ring
      rw [this]; exact mul_nonneg hσ0 hBA
    obtain ⟨s1, s2⟩ := straight_left_in_sector p n np A X r _ hr an anp hhP hhp hsp hA1 hA2 hXlp rfl hμ0
      (not_le.mp hneg)
    have := inArc_of_sector r hr a0 p q a dd ha0 ha2 hdd c1 c2 t1 (by rw [hnp]; exact s1) (by rw [hn]; exact s2)
    exact hno _ hk1 this
  -- not after the foot of q
  have hτ1 : n.x * (X.y - q.y) - n.y * (X.x - q.x) ≤ 0 := by
    by_contra hpos
    have hμ0 : 0 ≤ n.x * (B.y - X.y) - n.y * (B.x - X.x) := by
      have : n.x * (B.y - X.y) - n.y * (B.x - X.x) = (1 - σ) * (n.x * (B.y - A.y) - n.y * (B.x - A.x)) := by
        rw [hXx, hXy]; ring
      rw [this]; exact mul_nonneg (by linarith) hBA
    obtain ⟨s1, s2⟩ := straight_right_in_sector q n nn B X r _ hr an ann hhQ hhn hsn hB1 hB2 hXlq rfl hμ0
      (not_le.mp hpos)
    have := inArc_of_sector r hr p q d0 a dd ha0 ha2 hdd c2 c3 t2 (by rw [hn]; exact s1) (by rw [hnn]; exact s2)
    exact hno _ hk2 this
  -- the foot
  set L := P2.norm (q - p) with hLdef
  set τ := n.x * (X.y - p.y) - n.y * (X.x - p.x) with hτ
  have hτL : τ ≤ L := by
    have : n.x * (X.y - q.y) - n.y * (X.x - q.x) = τ - (n.x * (q.y - p.y) - n.y * (q.x - p.x)) := by
      rw [hτ]; ring
    rw [this, hLc] at hτ1; linarith
  refine ⟨e0, he0, τ / L, div_nonneg hτ0 hL.le, (div_le_one hL).mpr hτL, ?_, ?_⟩
  · rw [← hnE]
    have hpx : p.x = e0.1.x - c.x := by rw [hpe]; rfl
    have hqx' : e0.2.x - e0.1.x = q.x - p.x := by rw [hpe, hqe]; simp
    rw [hqx', ← hpx, hqx]
    have : τ / L * (L * -n.y) = τ * (-n.y) := by field_simp
    rw [this]
    -- X − p = (n·(X−p)) n + τ d̂
    show X.x - r * n.x = p.x + τ * -n.y
    rw [hτ]; linear_combination (-(X.x - p.x)) * an + n.x * hXlp
  · rw [← hnE]
    have hpy : p.y = e0.1.y - c.y := by rw [hpe]; rfl
    have hqy' : e0.2.y - e0.1.y = q.y - p.y := by rw [hpe, hqe]; simp
    rw [hqy', ← hpy, hqy]
    have : τ / L * (L * n.x) = τ * n.x := by field_simp
    rw [this]
    show X.y - r * n.y = p.y + τ * n.x
    rw [hτ]; linear_combination (-(X.y - p.y)) * an + n.y * hXlp

/-! ### the two branches of the whole function -/

/-- a vertex of the list is on its boundary -/
theorem vertex_onBoundary (V : List (P2 ℝ)) (v : P2 ℝ) (hv : v ∈ V) : Spec.onPolyBoundary V v := by
  have hfst : (Spec.edgesOf V).map Prod.fst = V := by
    rw [edgesOf_eq_zip_rotate]; exact List.map_fst_zip (by simp)
  rw [← hfst] at hv
  obtain ⟨e, he, h⟩ := List.mem_map.mp hv
  refine ⟨e, he, 0, ?_, ?_, ?_, ?_⟩
  · simp [Scalar.lit]
  · simp [Scalar.lit]
  · rw [← h]; simp
  · rw [← h]; simp

set_option maxHeartbeats 1000000 in
/-- **arc branch of the whole function: distance EXACTLY `r` from the core polygon** -/
theorem spg_cases_exact (Rk : M2 ℝ) (fk : Bool) (V : List (P2 ℝ)) (c : P2 ℝ) (r θ : ℝ) (hr : 0 < r)
    (h3 : 3 ≤ V.length) (hconv : Spec.strictConvexCCW V) (hin : Spec.strictlyInsideCCW V c) :
    (spgDts Rk fk false V c r θ =
        cpolyDtsFrom Rk fk (spgNewVerts false V c r) P2.zero (fmod θ twoPi) ∧
      ∀ k ∈ corners r (V.map (· - c)), ¬ inArc k (fmod θ twoPi)) ∨
    (∃ d, spgDts Rk fk false V c r θ = some d ∧ 0 < d ∧
      Spec.atDistExactly V r ⟨c.x + d * Real.cos θ, c.y + d * Real.sin θ⟩) := by
  obtain ⟨ha0, ha2⟩ := fmod_range θ
  have hca : Real.cos (fmod θ twoPi) = Real.cos θ := cos_fmod θ
  have hsa : Real.sin (fmod θ twoPi) = Real.sin θ := sin_fmod θ
  have hW : spgVerts false V c = V.map (· - c) := by simp [spgVerts]
  unfold spgDts spgNewVerts
  simp only [hW]
  rcases arcsFold_cases r (fmod θ twoPi) (corners r (V.map (· - c)))
      (cpolyDtsFrom Rk fk ((corners r (V.map (· - c))).map (·.newVert)) P2.zero (fmod θ twoPi)) with
    ⟨h1, h2⟩ | ⟨k, hk, hin', hval⟩
  · left; exact ⟨h1, h2⟩
  · right
    obtain ⟨v1, v2, v3, rfl, h12, h23⟩ := corners_mem r _ (by simp; omega) k hk
    obtain ⟨c12, c23, cturn, v, hv, hv2⟩ := convex_corner_of_edges V c hconv hin v1 v2 v3 h12 h23
    obtain ⟨hpos, hcirc⟩ := corner_arc_correct r hr v1 v2 v3 _ ha0 ha2 c12 c23 cturn hin'
    have hex := corner_arc_exact r hr v1 v2 v3 _ ha0 ha2 c12 c23 cturn hin'
    obtain ⟨e0, he0, hee⟩ := (mem_edgesOf_translate V c _).mp h12
    obtain ⟨f0, hf0, hff⟩ := (mem_edgesOf_translate V c _).mp h23
    have e1 : v1 = e0.1 - c := congrArg Prod.fst hee
    have e2 : v2 = e0.2 - c := congrArg Prod.snd hee
    have f1 : v2 = f0.1 - c := congrArg Prod.fst hff
    have f2 : v3 = f0.2 - c := congrArg Prod.snd hff
    generalize arcDist (corner r v1 v2 v3).v r (fmod θ twoPi) = d at *
    rw [hca, hsa] at hcirc hex
    refine ⟨d, hval, hpos, ⟨v, vertex_onBoundary V v hv, ?_⟩, ?_⟩
    · have hx : v2.x = v.x - c.x := by rw [hv2]; rfl
      have hy : v2.y = v.y - c.y := by rw [hv2]; rfl
      rw [hx, hy] at hcirc
      simp only [Spec.distSq]
      linear_combination hcirc
    · intro y hy
      have q1 := hy e0 he0
      have q2 := hy f0 hf0
      simp only [Scalar.lit, Scalar.ofNat_real, Nat.cast_zero] at q1 q2
      have := hex (y - c) (by
          rw [e1, e2]
          simp only [Spec.cross, P2.sub_x, P2.sub_y] at q1 ⊢; linarith) (by
          rw [f1, f2]
          simp only [Spec.cross, P2.sub_x, P2.sub_y] at q2 ⊢
          have hfx : f0.1.x - c.x = v2.x := by rw [f1]; rfl
          have hfy : f0.1.y - c.y = v2.y := by rw [f1]; rfl
          linarith)
      simp only [P2.sub_x, P2.sub_y] at this
      simp only [Spec.distSq]
      linarith

set_option maxHeartbeats 1000000 in
/-- **straight branch of the whole function: distance EXACTLY `r` from the core polygon** -/
theorem straight_exact (V : List (P2 ℝ)) (c : P2 ℝ) (r : ℝ) (hr : 0 < r) (h3 : 3 ≤ V.length)
    (hconv : Spec.strictConvexCCW V) (hin : Spec.strictlyInsideCCW V c)
    (a dd : ℝ) (ha0 : 0 ≤ a) (ha2 : a < twoPi) (hdd : 0 < dd)
    (hno : ∀ k ∈ corners r (V.map (· - c)), ¬ inArc k a)
    (hX : Spec.onPolyBoundary (spgNewVerts false V c r) ⟨dd * Real.cos a, dd * Real.sin a⟩) :
    Spec.atDistExactly V r ⟨c.x + dd * Real.cos a, c.y + dd * Real.sin a⟩ := by
  obtain ⟨e, he, τ, hτ0, hτ1, hfx, hfy⟩ := straight_foot V c r hr h3 hconv hin a dd ha0 ha2 hdd hno hX
  have hc := hin e he
  simp only [Scalar.lit, Scalar.ofNat_real, Nat.cast_zero] at hc
  have hC : 0 < Spec.cross (e.1 - c) (e.2 - c) := by
    simp only [Spec.cross, P2.sub_x, P2.sub_y] at hc ⊢; linarith
  obtain ⟨an, hperp, _⟩ := rightNormal_props (e.1 - c) (e.2 - c) hC
  rw [rightNormal_translate] at an hperp
  simp only [P2.sub_x, P2.sub_y] at hperp
  have hperp : (rightNormal e.1 e.2).x * (e.2.x - e.1.x) + (rightNormal e.1 e.2).y * (e.2.y - e.1.y) = 0 := by
    linarith
  have hL : 0 < P2.norm (e.2 - e.1) := by
    apply norm_pos_of_ne
    by_contra h
    rw [not_or, not_not, not_not] at h
    simp only [P2.sub_x, P2.sub_y] at h
    simp only [Spec.cross, P2.sub_x, P2.sub_y] at hc
    have h1 : e.2.x = e.1.x := by linarith [h.1]
    have h2 : e.2.y = e.1.y := by linarith [h.2]
    rw [h1, h2] at hc; linarith
  set n := rightNormal e.1 e.2 with hn
  refine ⟨⟨⟨e.1.x + τ * (e.2.x - e.1.x), e.1.y + τ * (e.2.y - e.1.y)⟩, ⟨e, he, τ, ?_, ?_, rfl, rfl⟩, ?_⟩, ?_⟩
  · simpa [Scalar.lit] using hτ0
  · simpa [Scalar.lit] using hτ1
  · simp only [Spec.distSq]
    have ex : c.x + dd * Real.cos a - (e.1.x + τ * (e.2.x - e.1.x)) = r * n.x := by linarith
    have ey : c.y + dd * Real.sin a - (e.1.y + τ * (e.2.y - e.1.y)) = r * n.y := by linarith
    rw [ex, ey]; linear_combination (r * r) * an
  · intro y hy
    have q1 := hy e he
    simp only [Scalar.lit, Scalar.ofNat_real, Nat.cast_zero] at q1
    have hny := rightNormal_dot_le e.1 e.2 y hL q1
    rw [← hn] at hny
    simp only [Spec.distSq]
    -- X − y = (foot − y) + r n,  n·(foot − y) ≥ 0
    have ex : c.x + dd * Real.cos a = (e.1.x + τ * (e.2.x - e.1.x)) + r * n.x := by linarith
    have ey : c.y + dd * Real.sin a = (e.1.y + τ * (e.2.y - e.1.y)) + r * n.y := by linarith
    rw [ex, ey]
    set gx := e.1.x + τ * (e.2.x - e.1.x) - y.x with hgx
    set gy := e.1.y + τ * (e.2.y - e.1.y) - y.y with hgy
    have hng : 0 ≤ n.x * gx + n.y * gy := by
      have : n.x * gx + n.y * gy = -(n.x * (y.x - e.2.x) + n.y * (y.y - e.2.y)) -
          (1 - τ) * (n.x * (e.2.x - e.1.x) + n.y * (e.2.y - e.1.y)) := by rw [hgx, hgy]; ring
      rw [this, hperp]; linarith
    have : (e.1.x + τ * (e.2.x - e.1.x) + r * n.x - y.x) * (e.1.x + τ * (e.2.x - e.1.x) + r * n.x - y.x) +
        (e.1.y + τ * (e.2.y - e.1.y) + r * n.y - y.y) * (e.1.y + τ * (e.2.y - e.1.y) + r * n.y - y.y) =
        (gx * gx + gy * gy) + 2 * r * (n.x * gx + n.y * gy) + r * r * (n.x * n.x + n.y * n.y) := by
      rw [hgx, hgy]; ring
    rw [this, an]
    have := mul_nonneg (mul_nonneg (by norm_num : (0:ℝ) ≤ 2) hr.le) hng
    nlinarith [mul_self_nonneg gx, mul_self_nonneg gy]

end DTS
end
