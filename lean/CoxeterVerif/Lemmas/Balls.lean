import CoxeterVerif.Lemmas.Basic
import CoxeterVerif.Model.Balls
import CoxeterVerif.Spec.Balls
import Mathlib.Tactic.Positivity
import Mathlib.Tactic.NormNum
import Mathlib.Tactic.Linarith
import Mathlib.Tactic.Ring
/-! Helper lemmas for C13: vectors over ℝ (norm, Cauchy–Schwarz, Lagrange), list max/min,
    sums of squares, quaternion rotation identities. -/
noncomputable section

/-! ### scalars -/

@[simp] theorem Scalar.max_real (a b : ℝ) : Scalar.max a b = Max.max a b := by
  unfold Scalar.max
  split
  · next h => exact (max_eq_right (le_of_lt h)).symm
  · next h => exact (max_eq_left (not_lt.mp h)).symm

@[simp] theorem Scalar.min_real (a b : ℝ) : Scalar.min a b = Min.min a b := by
  unfold Scalar.min
  split
  · next h => exact (min_eq_right (le_of_lt h)).symm
  · next h => exact (min_eq_left (not_lt.mp h)).symm

@[simp] theorem Scalar.lit_real (n : Nat) : (Scalar.lit n : ℝ) = (n : ℝ) := rfl

theorem Scalar.sqr_real (x : ℝ) : Scalar.sqr x = x * x := rfl

/-! ### vectors -/

namespace V3

theorem normSq_eq (u : V3 ℝ) : normSq u = u.x * u.x + u.y * u.y + u.z * u.z := rfl
theorem dot_eq (u v : V3 ℝ) : dot u v = u.x * v.x + u.y * v.y + u.z * v.z := rfl

theorem normSq_nonneg (u : V3 ℝ) : 0 ≤ normSq u := by
  rw [normSq_eq]; nlinarith [mul_self_nonneg u.x, mul_self_nonneg u.y, mul_self_nonneg u.z]

theorem norm_eq (u : V3 ℝ) : norm u = Real.sqrt (normSq u) := rfl

theorem norm_nonneg (u : V3 ℝ) : 0 ≤ norm u := Real.sqrt_nonneg _

theorem norm_mul_self (u : V3 ℝ) : norm u * norm u = normSq u :=
  Real.mul_self_sqrt (normSq_nonneg u)

theorem norm_sq (u : V3 ℝ) : norm u ^ 2 = normSq u := by rw [pow_two, norm_mul_self]

/-- `‖u‖ ≤ r ↔ ‖u‖² ≤ r²` for `0 ≤ r` -/
theorem norm_le_iff (u : V3 ℝ) {r : ℝ} (hr : 0 ≤ r) : norm u ≤ r ↔ normSq u ≤ r * r := by
  rw [← norm_mul_self]
  constructor
  · intro h; exact mul_le_mul h h (norm_nonneg u) hr
  · intro h; exact abs_le_abs_of_mul_self_le_mul_self_aux (norm_nonneg u) hr h
where
  abs_le_abs_of_mul_self_le_mul_self_aux {a b : ℝ} (ha : 0 ≤ a) (hb : 0 ≤ b) (h : a * a ≤ b * b) :
      a ≤ b := by
    by_contra hlt
    push Not at hlt
    nlinarith

theorem norm_eq_iff (u : V3 ℝ) {r : ℝ} (hr : 0 ≤ r) : norm u = r ↔ normSq u = r * r := by
  rw [← norm_mul_self]
  constructor
  · intro h; rw [h]
  · intro h
    have h1 : 0 ≤ norm u := norm_nonneg u
    nlinarith [mul_self_nonneg (norm u - r), mul_self_nonneg (norm u + r)]

/-- Lagrange identity -/
theorem lagrange (u v : V3 ℝ) :
    normSq (cross u v) = normSq u * normSq v - dot u v * dot u v := by
  obtain ⟨a, b, c⟩ := u; obtain ⟨d, e, f⟩ := v
  simp only [normSq, dot, cross]; ring

/-- Cauchy–Schwarz, squared form -/
theorem dot_sq_le (u v : V3 ℝ) : dot u v * dot u v ≤ normSq u * normSq v := by
  have := normSq_nonneg (cross u v)
  rw [lagrange] at this; linarith

/-- Cauchy–Schwarz -/
theorem dot_le_norm_mul (u v : V3 ℝ) : dot u v ≤ norm u * norm v := by
  have h := dot_sq_le u v
  rw [← norm_mul_self u, ← norm_mul_self v] at h
  have hu := norm_nonneg u; have hv := norm_nonneg v
  by_contra hlt
  push Not at hlt
  have hp : 0 ≤ norm u * norm v := mul_nonneg hu hv
  nlinarith

theorem dot_comm (u v : V3 ℝ) : dot u v = dot v u := by simp only [dot_eq]; ring

theorem dot_sub_right (u v w : V3 ℝ) : dot u (v - w) = dot u v - dot u w := by
  simp only [dot_eq, sub_x, sub_y, sub_z]; ring

theorem dot_add_right (u v w : V3 ℝ) : dot u (v + w) = dot u v + dot u w := by
  simp only [dot_eq, add_x, add_y, add_z]; ring

theorem dot_smul_right (k : ℝ) (u v : V3 ℝ) : dot u (smul k v) = k * dot u v := by
  simp only [dot_eq, smul_x, smul_y, smul_z]; ring

theorem normSq_sub_comm (u v : V3 ℝ) : normSq (u - v) = normSq (v - u) := by
  simp only [normSq_eq, sub_x, sub_y, sub_z]; ring

theorem norm_sub_comm (u v : V3 ℝ) : norm (u - v) = norm (v - u) := by
  rw [norm_eq, norm_eq, normSq_sub_comm]

theorem add_sub_cancel_right' (u v : V3 ℝ) : (u + v) - v = u := by
  ext <;> simp

theorem sub_add_cancel' (u v : V3 ℝ) : (u - v) + v = u := by
  ext <;> simp

theorem norm_smul (k : ℝ) (u : V3 ℝ) : norm (smul k u) = |k| * norm u := by
  rw [norm_eq, norm_eq]
  have : normSq (smul k u) = (k * k) * normSq u := by
    simp only [normSq_eq, smul_x, smul_y, smul_z]; ring
  rw [this, Real.sqrt_mul (mul_self_nonneg k), Real.sqrt_mul_self_eq_abs]

theorem norm_sdiv_self (u : V3 ℝ) (h : norm u ≠ 0) : norm (sdiv u (norm u)) = 1 := by
  have hpos : 0 < norm u := lt_of_le_of_ne (norm_nonneg u) (Ne.symm h)
  have : normSq (sdiv u (norm u)) = 1 := by
    simp only [normSq_eq, sdiv_x, sdiv_y, sdiv_z]
    have h2 := norm_mul_self u
    rw [normSq_eq] at h2
    field_simp
    nlinarith
  rw [norm_eq, this, Real.sqrt_one]

end V3

/-! ### `listMax` / `listMin` -/

namespace Balls

theorem foldl_max_ge_init (l : List ℝ) (m : ℝ) : m ≤ l.foldl Scalar.max m := by
  induction l generalizing m with
  | nil => simp
  | cons a l ih =>
    simp only [List.foldl_cons, Scalar.max_real]
    exact le_trans (le_max_left m a) (ih _)

theorem foldl_max_ge_mem (l : List ℝ) (m : ℝ) : ∀ x ∈ l, x ≤ l.foldl Scalar.max m := by
  induction l generalizing m with
  | nil => intro x hx; cases hx
  | cons a l ih =>
    intro x hx
    simp only [List.foldl_cons, Scalar.max_real]
    rcases List.mem_cons.mp hx with rfl | hx
    · exact le_trans (le_max_right m x) (foldl_max_ge_init l _)
    · exact ih _ x hx

theorem foldl_max_mem (l : List ℝ) (m : ℝ) : l.foldl Scalar.max m = m ∨ l.foldl Scalar.max m ∈ l := by
  induction l generalizing m with
  | nil => left; rfl
  | cons a l ih =>
    simp only [List.foldl_cons, Scalar.max_real]
    rcases ih (Max.max m a) with h | h
    · rw [h]
      rcases max_choice m a with h2 | h2
      · left; exact h2
      · right; rw [h2]; exact List.mem_cons_self
    · right; exact List.mem_cons_of_mem _ h

theorem listMax_ge (l : List ℝ) : ∀ x ∈ l, x ≤ listMax l := by
  cases l with
  | nil => intro x hx; cases hx
  | cons a l =>
    intro x hx
    unfold listMax
    rcases List.mem_cons.mp hx with rfl | hx
    · exact foldl_max_ge_init l _
    · exact foldl_max_ge_mem l _ x hx

theorem listMax_mem (l : List ℝ) (h : l ≠ []) : listMax l ∈ l := by
  cases l with
  | nil => exact absurd rfl h
  | cons a l =>
    show List.foldl Scalar.max a l ∈ a :: l
    rcases foldl_max_mem l a with h2 | h2
    · rw [h2]; exact List.mem_cons_self
    · exact List.mem_cons_of_mem _ h2

theorem foldl_min_le_init (l : List ℝ) (m : ℝ) : l.foldl Scalar.min m ≤ m := by
  induction l generalizing m with
  | nil => simp
  | cons a l ih =>
    simp only [List.foldl_cons, Scalar.min_real]
    exact le_trans (ih _) (min_le_left m a)

theorem foldl_min_le_mem (l : List ℝ) (m : ℝ) : ∀ x ∈ l, l.foldl Scalar.min m ≤ x := by
  induction l generalizing m with
  | nil => intro x hx; cases hx
  | cons a l ih =>
    intro x hx
    simp only [List.foldl_cons, Scalar.min_real]
    rcases List.mem_cons.mp hx with rfl | hx
    · exact le_trans (foldl_min_le_init l _) (min_le_right m x)
    · exact ih _ x hx

theorem foldl_min_mem (l : List ℝ) (m : ℝ) : l.foldl Scalar.min m = m ∨ l.foldl Scalar.min m ∈ l := by
  induction l generalizing m with
  | nil => left; rfl
  | cons a l ih =>
    simp only [List.foldl_cons, Scalar.min_real]
    rcases ih (Min.min m a) with h | h
    · rw [h]
      rcases min_choice m a with h2 | h2
      · left; exact h2
      · right; rw [h2]; exact List.mem_cons_self
    · right; exact List.mem_cons_of_mem _ h

theorem listMin_le (l : List ℝ) : ∀ x ∈ l, listMin l ≤ x := by
  cases l with
  | nil => intro x hx; cases hx
  | cons a l =>
    intro x hx
    unfold listMin
    rcases List.mem_cons.mp hx with rfl | hx
    · exact foldl_min_le_init l _
    · exact foldl_min_le_mem l _ x hx

theorem listMin_mem (l : List ℝ) (h : l ≠ []) : listMin l ∈ l := by
  cases l with
  | nil => exact absurd rfl h
  | cons a l =>
    show List.foldl Scalar.min a l ∈ a :: l
    rcases foldl_min_mem l a with h2 | h2
    · rw [h2]; exact List.mem_cons_self
    · exact List.mem_cons_of_mem _ h2

/-! ### `mkBall` -/

theorem mkBall_ok {r : ℝ} {c : V3 ℝ} {B : Ball ℝ} (h : mkBall r c = .ok B) :
    B.radius = r ∧ B.center = c ∧ 0 < r := by
  unfold mkBall at h
  split at h
  · next hp =>
    injection h with h; subst h
    exact ⟨rfl, rfl, by simpa using hp⟩
  · cases h

theorem mkBall_of_pos {r : ℝ} (c : V3 ℝ) (h : 0 < r) : mkBall r c = .ok ⟨r, c⟩ := by
  unfold mkBall
  rw [if_pos]; simpa using h

theorem mkBall_error {r : ℝ} {c : V3 ℝ} {e : String} (h : mkBall r c = .error e) :
    e = "ValueError" ∧ r ≤ 0 := by
  unfold mkBall at h
  split at h
  · cases h
  · next hp =>
    injection h with h
    exact ⟨h.symm, by simpa using hp⟩

/-! ### sums of squares -/

theorem sum_sq_nonneg {β : Type} (f : β → ℝ) (l : List β) : 0 ≤ (l.map fun x => f x * f x).sum := by
  induction l with
  | nil => simp
  | cons a l ih => simp only [List.map_cons, List.sum_cons]; nlinarith [mul_self_nonneg (f a)]

theorem sum_sq_ge_mem {β : Type} (f : β → ℝ) (l : List β) :
    ∀ x ∈ l, f x * f x ≤ (l.map fun x => f x * f x).sum := by
  induction l with
  | nil => intro x hx; cases hx
  | cons a l ih =>
    intro x hx
    simp only [List.map_cons, List.sum_cons]
    rcases List.mem_cons.mp hx with rfl | hx
    · linarith [sum_sq_nonneg f l]
    · linarith [ih x hx, mul_self_nonneg (f a)]

theorem sumSq_eq (rows : List (Row ℝ)) (x : V3 ℝ) (r : ℝ) :
    sumSq rows x r = (rows.map fun row => row.resid x r * row.resid x r).sum := by
  simp only [sumSq, Scalar.sum_real, Scalar.sqr]

theorem sumSq_nonneg (rows : List (Row ℝ)) (x : V3 ℝ) (r : ℝ) : 0 ≤ sumSq rows x r := by
  rw [sumSq_eq]; exact sum_sq_nonneg _ _

/-- every single row residual is bounded by the total -/
theorem resid_sq_le_sumSq (rows : List (Row ℝ)) (x : V3 ℝ) (r : ℝ) :
    ∀ row ∈ rows, row.resid x r * row.resid x r ≤ sumSq rows x r := by
  rw [sumSq_eq]; exact sum_sq_ge_mem _ _

/-- zero residual ⇔ every row holds exactly -/
theorem sumSq_eq_zero_iff (rows : List (Row ℝ)) (x : V3 ℝ) (r : ℝ) :
    sumSq rows x r = 0 ↔ ∀ row ∈ rows, row.resid x r = 0 := by
  constructor
  · intro h row hrow
    have := resid_sq_le_sumSq rows x r row hrow
    rw [h] at this
    have h2 := mul_self_nonneg (row.resid x r)
    exact mul_self_eq_zero.mp (le_antisymm this h2)
  · intro h
    rw [sumSq_eq]
    apply List.sum_eq_zero
    intro y hy
    obtain ⟨row, hrow, rfl⟩ := List.mem_map.mp hy
    rw [h row hrow]; ring


/-! ### rowan rotation by a quaternion -/

/-- simp set opening vector / quaternion expressions into real polynomials -/
macro "unfold_vec" : tactic => `(tactic|
  simp only [Quat.rotate, Quat.mul, Quat.conj, Quat.ofVec, Quat.normSq, V3.dot, V3.cross, V3.normSq,
    Scalar.lit, Scalar.ofNat_real, Scalar.sqr,
    V3.add_x, V3.add_y, V3.add_z, V3.sub_x, V3.sub_y, V3.sub_z, V3.smul_x, V3.smul_y, V3.smul_z,
    V3.neg_x, V3.neg_y, V3.neg_z, V3.sdiv_x, V3.sdiv_y, V3.sdiv_z,
    Nat.cast_ofNat, Nat.cast_one, Nat.cast_zero])

theorem rotate_sub (p : Quat ℝ) (a b : V3 ℝ) :
    Quat.rotate p (a - b) = Quat.rotate p a - Quat.rotate p b := by
  obtain ⟨w, ⟨x, y, z⟩⟩ := p
  ext <;> unfold_vec <;> ring

theorem normSq_rotate (p : Quat ℝ) (v : V3 ℝ) :
    V3.normSq (Quat.rotate p v) = (Quat.normSq p * Quat.normSq p) * V3.normSq v := by
  obtain ⟨w, ⟨x, y, z⟩⟩ := p; obtain ⟨a, b, c⟩ := v
  unfold_vec; ring

theorem rotate_conj_rotate (p : Quat ℝ) (v : V3 ℝ) :
    Quat.rotate (Quat.conj p) (Quat.rotate p v) = V3.smul (Quat.normSq p * Quat.normSq p) v := by
  obtain ⟨w, ⟨x, y, z⟩⟩ := p; obtain ⟨a, b, c⟩ := v
  ext <;> unfold_vec <;> ring

theorem rotate_rotate_conj (p : Quat ℝ) (v : V3 ℝ) :
    Quat.rotate p (Quat.rotate (Quat.conj p) v) = V3.smul (Quat.normSq p * Quat.normSq p) v := by
  obtain ⟨w, ⟨x, y, z⟩⟩ := p; obtain ⟨a, b, c⟩ := v
  ext <;> unfold_vec <;> ring

theorem smul_one' (v : V3 ℝ) : V3.smul 1 v = v := by ext <;> simp

/-- a unit quaternion rotates isometrically -/
theorem norm_rotate_sub {p : Quat ℝ} (hp : Quat.normSq p = 1) (a b : V3 ℝ) :
    V3.norm (Quat.rotate p a - Quat.rotate p b) = V3.norm (a - b) := by
  rw [← rotate_sub, V3.norm_eq, V3.norm_eq, normSq_rotate, hp]; simp

theorem rotate_conj_rotate_unit {p : Quat ℝ} (hp : Quat.normSq p = 1) (v : V3 ℝ) :
    Quat.rotate (Quat.conj p) (Quat.rotate p v) = v := by
  rw [rotate_conj_rotate, hp]; simp [smul_one']

theorem rotate_rotate_conj_unit {p : Quat ℝ} (hp : Quat.normSq p = 1) (v : V3 ℝ) :
    Quat.rotate p (Quat.rotate (Quat.conj p) v) = v := by
  rw [rotate_rotate_conj, hp]; simp [smul_one']

theorem rotate_one (v : V3 ℝ) : Quat.rotate (Quat.one : Quat ℝ) v = v := by
  obtain ⟨a, b, c⟩ := v
  ext <;> simp only [Quat.one, V3.zero] <;> unfold_vec <;> ring

theorem normSq_one : Quat.normSq (Quat.one : Quat ℝ) = 1 := by
  simp only [Quat.one, V3.zero]; unfold_vec; ring

theorem normSq_conj (p : Quat ℝ) : Quat.normSq (Quat.conj p) = Quat.normSq p := by
  obtain ⟨w, ⟨x, y, z⟩⟩ := p; unfold_vec; ring

/-! ### `isclose(·, 0)` -/

theorem isclose_zero_iff (a atol : ℝ) : isclose a (Scalar.lit 0 : ℝ) atol = true ↔ |a| ≤ atol := by
  unfold isclose
  simp only [decide_eq_true_eq, Scalar.q, Scalar.ofNat_real, Scalar.abs_real, Scalar.lit]
  norm_num

theorem isclose_zero_zero {atol : ℝ} (h : 0 ≤ atol) : isclose (0 : ℝ) (Scalar.lit 0 : ℝ) atol = true := by
  rw [isclose_zero_iff]; simpa using h

end Balls

end
