import CoxeterVerif.Lemmas.PlanarIntegral
import Mathlib.MeasureTheory.Integral.Prod
import Mathlib.MeasureTheory.Function.Jacobian
import Mathlib.Analysis.SpecialFunctions.PolarCoord
/-!
  C04: the iterated integrals of `Lemmas/PlanarIntegral.lean` ARE Lebesgue integrals over the triangles as subsets of
  the plane.

  * `setIntegral_stdSet`  : Fubini on the standard triangle `{0 ≤ s, 0 ≤ u, s + u ≤ 1}` — the Lebesgue integral of a
    continuous function over the set is the iterated interval integral `stdTri`.
  * `setIntegral_triSet`  : change of variables (`MeasureTheory.integral_image_eq_integral_abs_det_fderiv_smul`) for the
    affine parametrisation, whose derivative has determinant `jac2 t`: `∫_{triangle} F = |J| · stdTri (F ∘ affine)`.
  * `triIntegral_eq_lebesgue`, `triIntegral3_eq_lebesgue` : `triIntegral |J| f t` is the Lebesgue integral of `f` over the
    triangle (in the xy-plane; in a tilted plane: over the triangle's image in the coordinates of ANY frame `R`).
  What is still not formalised: that the triangles of a certified triangulation (chain equation + all positively
  oriented + simple cycle) overlap only in null sets and cover the polygon, i.e. `Σ_t ∫_{T_t} = ∫_{polygon}`.
-/
open MeasureTheory Set
noncomputable section
namespace TriInt

/-- the standard triangle as a subset of the plane -/
def stdSet : Set (ℝ × ℝ) := {z | 0 ≤ z.1 ∧ 0 ≤ z.2 ∧ z.1 + z.2 ≤ 1}

theorem isClosed_stdSet : IsClosed stdSet := by
  unfold stdSet
  refine IsClosed.inter (isClosed_le continuous_const continuous_fst) (IsClosed.inter ?_ ?_)
  · exact isClosed_le continuous_const continuous_snd
  · exact isClosed_le (continuous_fst.add continuous_snd) continuous_const

theorem measurableSet_stdSet : MeasurableSet stdSet := isClosed_stdSet.measurableSet

theorem isCompact_stdSet : IsCompact stdSet := by
  apply IsCompact.of_isClosed_subset (isCompact_Icc : IsCompact (Icc ((0:ℝ), (0:ℝ)) ((1:ℝ), (1:ℝ)))) isClosed_stdSet
  intro z hz
  obtain ⟨h1, h2, h3⟩ := hz
  exact ⟨⟨h1, h2⟩, ⟨by linarith, by linarith⟩⟩

/-- **Fubini on the standard triangle**: the Lebesgue integral over the set is the iterated interval integral -/
theorem setIntegral_stdSet (g : ℝ → ℝ → ℝ) (hg : Continuous (fun z : ℝ × ℝ => g z.1 z.2)) :
    ∫ z in stdSet, g z.1 z.2 = stdTri g := by
  have hint : Integrable (stdSet.indicator (fun z : ℝ × ℝ => g z.1 z.2)) (volume.prod volume) := by
    rw [integrable_indicator_iff measurableSet_stdSet]
    exact hg.continuousOn.integrableOn_compact isCompact_stdSet
  rw [← integral_indicator measurableSet_stdSet, Measure.volume_eq_prod, integral_prod _ hint]
  unfold stdTri
  -- the inner integral, for every s
  have inner : ∀ s : ℝ, (∫ u, stdSet.indicator (fun z : ℝ × ℝ => g z.1 z.2) (s, u)) =
      (Icc (0:ℝ) 1).indicator (fun s => ∫ u in (0:ℝ)..(1 - s), g s u) s := by
    intro s
    by_cases hs : s ∈ Icc (0:ℝ) 1
    · rw [indicator_of_mem hs]
      have e : (fun u => stdSet.indicator (fun z : ℝ × ℝ => g z.1 z.2) (s, u)) =
          (Icc (0:ℝ) (1 - s)).indicator (fun u => g s u) := by
        funext u
        by_cases hu : u ∈ Icc (0:ℝ) (1 - s)
        · rw [indicator_of_mem hu, indicator_of_mem]
          exact ⟨hs.1, hu.1, by linarith [hu.2]⟩
        · rw [indicator_of_notMem hu, indicator_of_notMem]
          rintro ⟨_, h2, h3⟩
          exact hu ⟨h2, by simp only at h3; linarith⟩
      rw [e, integral_indicator measurableSet_Icc, integral_Icc_eq_integral_Ioc,
        intervalIntegral.integral_of_le (by linarith [hs.2])]
    · rw [indicator_of_notMem hs]
      have e : (fun u => stdSet.indicator (fun z : ℝ × ℝ => g z.1 z.2) (s, u)) = fun _ => 0 := by
        funext u
        rw [indicator_of_notMem]
        rintro ⟨h1, h2, h3⟩
        exact hs ⟨h1, by simp only at h2 h3; linarith⟩
      rw [e, integral_zero]
  simp_rw [inner]
  rw [integral_indicator measurableSet_Icc, integral_Icc_eq_integral_Ioc,
    intervalIntegral.integral_of_le zero_le_one]

/-- the affine parametrisation `(s,u) ↦ (r(s,u).x, r(s,u).y)` of the triangle's xy-projection -/
def affMap (t : Tri ℝ) (z : ℝ × ℝ) : ℝ × ℝ := ((pt t z.1 z.2).x, (pt t z.1 z.2).y)

/-- **the triangle as a subset of the plane**: the image of the standard triangle (= the convex hull of the
three corners) -/
def triSet (t : Tri ℝ) : Set (ℝ × ℝ) := affMap t '' stdSet

/-- the linear part of `affMap` -/
def linPart (t : Tri ℝ) : ℝ × ℝ →L[ℝ] ℝ × ℝ :=
  (Matrix.toLin (.finTwoProd ℝ) (.finTwoProd ℝ)
    !![t.b.x - t.a.x, t.c.x - t.a.x; t.b.y - t.a.y, t.c.y - t.a.y]).toContinuousLinearMap

theorem linPart_apply (t : Tri ℝ) (z : ℝ × ℝ) :
    linPart t z = ((t.b.x - t.a.x) * z.1 + (t.c.x - t.a.x) * z.2, (t.b.y - t.a.y) * z.1 + (t.c.y - t.a.y) * z.2) := by
  unfold linPart
  rw [Matrix.toLin_finTwoProd_toContinuousLinearMap]
  simp

theorem det_linPart (t : Tri ℝ) : (linPart t).det = jac2 t := by
  unfold linPart jac2
  simp only [LinearMap.det_toContinuousLinearMap, LinearMap.det_toLin, Matrix.det_fin_two_of]

theorem affMap_eq (t : Tri ℝ) : affMap t = fun z => (t.a.x, t.a.y) + linPart t z := by
  funext z
  rw [linPart_apply]
  simp only [affMap, pt, Prod.mk_add_mk]
  congr 1 <;> ring

theorem hasFDerivAt_affMap (t : Tri ℝ) (z : ℝ × ℝ) : HasFDerivAt (affMap t) (linPart t) z := by
  rw [affMap_eq]
  exact (linPart t).hasFDerivAt.const_add _

theorem injective_affMap {t : Tri ℝ} (h : jac2 t ≠ 0) : Function.Injective (affMap t) := by
  intro z z' hzz
  simp only [affMap, pt, Prod.mk.injEq] at hzz
  obtain ⟨h1, h2⟩ := hzz
  unfold jac2 at h
  have e1 : (z.1 - z'.1) * ((t.b.x - t.a.x) * (t.c.y - t.a.y) - (t.c.x - t.a.x) * (t.b.y - t.a.y)) = 0 := by
    linear_combination (t.c.y - t.a.y) * h1 - (t.c.x - t.a.x) * h2
  have e2 : (z.2 - z'.2) * ((t.b.x - t.a.x) * (t.c.y - t.a.y) - (t.c.x - t.a.x) * (t.b.y - t.a.y)) = 0 := by
    linear_combination (t.b.x - t.a.x) * h2 - (t.b.y - t.a.y) * h1
  have d1 : z.1 - z'.1 = 0 := (mul_eq_zero.mp e1).resolve_right h
  have d2 : z.2 - z'.2 = 0 := (mul_eq_zero.mp e2).resolve_right h
  exact Prod.ext (by linarith) (by linarith)

/-- **change of variables**: the Lebesgue integral of `F` over a non-degenerate triangle (as a subset of `ℝ²`) is
`|J|` times the iterated integral over the standard triangle of `F ∘ (affine parametrisation)` -/
theorem setIntegral_triSet (t : Tri ℝ) (h : jac2 t ≠ 0) (F : ℝ × ℝ → ℝ) (hF : Continuous F) :
    ∫ q in triSet t, F q = |jac2 t| * stdTri (fun s u => F (affMap t (s, u))) := by
  unfold triSet
  rw [integral_image_eq_integral_abs_det_fderiv_smul volume measurableSet_stdSet
    (fun z _ => (hasFDerivAt_affMap t z).hasFDerivWithinAt) ((injective_affMap h).injOn) F]
  simp only [det_linPart, smul_eq_mul]
  rw [integral_const_mul]
  congr 1
  have hc : Continuous (fun z : ℝ × ℝ => F (affMap t (z.1, z.2))) := by
    have : Continuous (affMap t) := by
      rw [affMap_eq]; exact continuous_const.add (linPart t).continuous
    exact hF.comp this
  exact setIntegral_stdSet (fun s u => F (affMap t (s, u))) hc

/-- **`triIntegral` with the absolute Jacobian IS the Lebesgue integral over the triangle** (functions of `x, y`) -/
theorem triIntegral_eq_lebesgue (t : Tri ℝ) (h : jac2 t ≠ 0) (F : ℝ × ℝ → ℝ) (hF : Continuous F) :
    triIntegral |jac2 t| (fun p => F (p.x, p.y)) t = ∫ q in triSet t, F q := by
  rw [setIntegral_triSet t h F hF]
  rfl

/-- tilted planes: for a frame `R` of `n` and a triangle in the plane `n · v = d`, `triIntegral |J₃| f t` is the Lebesgue
integral, over the triangle's image in the frame's in-plane coordinates, of `f` read at the point with those
coordinates (`Rᵀ (x, y, d)`). -/
theorem triIntegral3_eq_lebesgue {R : M3 ℝ} {n : V3 ℝ} (hF : IsFrame R n) {d : ℝ} (t : Tri ℝ)
    (ht : V3.dot n t.a = d ∧ V3.dot n t.b = d ∧ V3.dot n t.c = d) (h : jac3 n t ≠ 0) (f : V3 ℝ → ℝ)
    (hf : Continuous (fun q : ℝ × ℝ => f (M3.mulVec (M3.transpose R) ⟨q.1, q.2, d⟩))) :
    triIntegral |jac3 n t| f t =
      ∫ q in triSet (t.map (M3.mulVec R)), f (M3.mulVec (M3.transpose R) ⟨q.1, q.2, d⟩) := by
  have hj : jac2 (t.map (M3.mulVec R)) = jac3 n t := jac2_frame hF t
  rw [← triIntegral_eq_lebesgue (t.map (M3.mulVec R)) (by rw [hj]; exact h) _ hf, hj]
  unfold triIntegral
  congr 2
  funext s u
  rw [pt_map_mulVec]
  have hz : (M3.mulVec R (pt t s u)).z = d := by
    rw [hF.mulVec_z]
    obtain ⟨ha, hb, hc⟩ := ht
    simp only [V3.dot, pt] at ha hb hc ⊢
    linear_combination (1 - s - u) * ha + s * hb + u * hc
  have : (⟨(M3.mulVec R (pt t s u)).x, (M3.mulVec R (pt t s u)).y, d⟩ : V3 ℝ) = M3.mulVec R (pt t s u) := by
    ext <;> simp only [hz]
  show f (pt t s u) = f (M3.mulVec (M3.transpose R) ⟨(M3.mulVec R (pt t s u)).x, (M3.mulVec R (pt t s u)).y, d⟩)
  rw [this, hF.rot.transpose_mulVec]

end TriInt
end
