import CoxeterVerif.Lemmas.Inside3DClosed
/-!
  C05, convex bodies: "no facet is missing" from the closedness of the face structure.

  Let `S` be a closed oriented triangulated surface with vertices in `V` (the implementation's own
  faces, fan-triangulated; closedness is the decidable `closedCheck`).  If `p` lies strictly on the
  inner side of the plane of EVERY triangle of `S` (`0 < orient p t.a t.b t.c`), then `p` is a
  convex combination of `V` (`memHull_of_inner_side`).

  Proof.  (1) Every triangle is seen from `p` with positive orientation, so for ANY apex the
  signed count of cone tetrahedra containing `p` has only non-negative terms; for an apex `o'`
  behind `p` on a line through the interior of a triangle `t₀` the term of `t₀` is `+1`; with the
  single-tetrahedron lemma and `cone_closed'` the model's winding sum is therefore `≥ 2`
  (`windingSum_ge_two`).  (2) The winding sum does not depend on the apex, so for an apex `o''` in
  the hull the signed count is `≥ 1` as well: `p` lies in a tetrahedron `(o'', t)`, whose four
  vertices are in the hull.  In both steps the apex is moved along a polynomial curve
  (`o'(s) = p − (U + sV + s²W)`, `o''(s) = o + s(u−o) + s²(v−o) + s³(w−o)`) so that `p` is off all
  the face planes of the cone for every small `s > 0` (a non-zero polynomial has no small
  positive root: `polys_ne_zero_small`).
-/
open Scalar
set_option maxRecDepth 4000
noncomputable section

namespace Inside3D
open Spec.In3D CCk

/-! ### a non-zero polynomial has no small positive root -/

/-- Horner evaluation, coefficients in increasing degree -/
def evalPoly : List ℝ → ℝ → ℝ
  | [], _ => 0
  | c :: cs, s => c + s * evalPoly cs s

theorem evalPoly_bound (cs : List ℝ) (s : ℝ) (h0 : 0 ≤ s) (h1 : s ≤ 1) :
    |evalPoly cs s| ≤ (cs.map fun c => |c|).sum := by
  induction cs with
  | nil => simp [evalPoly]
  | cons c cs ih =>
    simp only [evalPoly, List.map_cons, List.sum_cons]
    refine (abs_add_le _ _).trans ?_
    rw [abs_mul, abs_of_nonneg h0]
    have : s * |evalPoly cs s| ≤ 1 * |evalPoly cs s| := mul_le_mul_of_nonneg_right h1 (abs_nonneg _)
    linarith

theorem poly_ne_zero_small : ∀ (cs : List ℝ), (∃ c ∈ cs, c ≠ 0) →
    ∃ ε0 : ℝ, 0 < ε0 ∧ ∀ s, 0 < s → s ≤ ε0 → evalPoly cs s ≠ 0
  | [], h => by obtain ⟨c, hc, _⟩ := h; simp at hc
  | c :: cs, h => by
    by_cases hc : c = 0
    · have h' : ∃ c' ∈ cs, c' ≠ 0 := by
        obtain ⟨c', hc', hne⟩ := h
        rcases List.mem_cons.mp hc' with rfl | hm
        · exact absurd hc hne
        · exact ⟨c', hm, hne⟩
      obtain ⟨ε0, h0, hk⟩ := poly_ne_zero_small cs h'
      refine ⟨ε0, h0, fun s hs hle => ?_⟩
      simp only [evalPoly, hc, zero_add]
      exact mul_ne_zero hs.ne' (hk s hs hle)
    · set B := (cs.map fun c => |c|).sum with hB
      have hBn : 0 ≤ B := by
        rw [hB]; apply List.sum_nonneg; intro x hx
        obtain ⟨y, _, rfl⟩ := List.mem_map.mp hx; exact abs_nonneg y
      have hcp : 0 < |c| := abs_pos.mpr hc
      obtain ⟨ε0, h0, hle1, hk⟩ := pos_small |c| B hcp hBn
      refine ⟨ε0, h0, fun s hs hle => ?_⟩
      simp only [evalPoly]
      have hb := evalPoly_bound cs s hs.le (hle.trans hle1)
      intro hz
      have e : c = -(s * evalPoly cs s) := by linarith
      have h1 := hk s hs hle (-|evalPoly cs s|) (by rw [abs_neg, abs_abs]; exact hb)
      have h2 : |c| = s * |evalPoly cs s| := by rw [e, abs_neg, abs_mul, abs_of_pos hs]
      rw [h2] at h1; linarith

theorem polys_ne_zero_small : ∀ (L : List (List ℝ)), (∀ cs ∈ L, ∃ c ∈ cs, c ≠ 0) →
    ∃ ε0 : ℝ, 0 < ε0 ∧ ∀ s, 0 < s → s ≤ ε0 → ∀ cs ∈ L, evalPoly cs s ≠ 0
  | [], _ => ⟨1, one_pos, fun _ _ _ cs h => by simp at h⟩
  | cs :: L, h => by
    obtain ⟨e1, p1, k1⟩ := poly_ne_zero_small cs (h cs List.mem_cons_self)
    obtain ⟨e2, p2, k2⟩ := polys_ne_zero_small L (fun c hc => h c (List.mem_cons_of_mem _ hc))
    refine ⟨Min.min e1 e2, lt_min p1 p2, ?_⟩
    intro s hs hle c hc
    rcases List.mem_cons.mp hc with rfl | hc
    · exact k1 s hs (hle.trans (min_le_left _ _))
    · exact k2 s hs (hle.trans (min_le_right _ _)) c hc

/-! ### determinant identities -/

/-- Cramer: a triple product expanded in a basis `(U, V, W)` of the first argument's dual -/
theorem det3_cramer1 (U V W A B C : V3 ℝ) :
    V3.det3 U V W * V3.det3 A B C =
      V3.det3 U B C * V3.det3 A V W + V3.det3 V B C * V3.det3 A W U + V3.det3 W B C * V3.det3 A U V := by
  unfold V3.det3 V3.dot V3.cross; simp only; ring

theorem det3_swap12 (A B C : V3 ℝ) : V3.det3 B A C = -V3.det3 A B C := by
  unfold V3.det3 V3.dot V3.cross; ring
theorem det3_swap23 (A B C : V3 ℝ) : V3.det3 A C B = -V3.det3 A B C := by
  unfold V3.det3 V3.dot V3.cross; ring

/-- if `det(U,V,W) ≠ 0` and `det(A,B,C) ≠ 0` then one of `det(U,B,C)`, `det(V,B,C)`, `det(W,B,C)` is non-zero -/
theorem exists_ne_slot1 {U V W A B C : V3 ℝ} (hb : V3.det3 U V W ≠ 0) (h : V3.det3 A B C ≠ 0) :
    ∃ c ∈ [V3.det3 U B C, V3.det3 V B C, V3.det3 W B C], c ≠ 0 := by
  by_contra hcon
  push Not at hcon
  have h1 := hcon (V3.det3 U B C) (by simp)
  have h2 := hcon (V3.det3 V B C) (by simp)
  have h3 := hcon (V3.det3 W B C) (by simp)
  have := det3_cramer1 U V W A B C
  rw [h1, h2, h3] at this
  have : V3.det3 U V W * V3.det3 A B C = 0 := by rw [this]; ring
  exact (mul_ne_zero hb h) this

theorem exists_ne_slot2 {U V W A B C : V3 ℝ} (hb : V3.det3 U V W ≠ 0) (h : V3.det3 A B C ≠ 0) :
    ∃ c ∈ [V3.det3 A U C, V3.det3 A V C, V3.det3 A W C], c ≠ 0 := by
  have h' : V3.det3 B A C ≠ 0 := by rw [det3_swap12]; exact neg_ne_zero.mpr h
  obtain ⟨c, hc, hne⟩ := exists_ne_slot1 (A := B) (B := A) (C := C) hb h'
  simp only [List.mem_cons, List.not_mem_nil, or_false] at hc
  rcases hc with rfl | rfl | rfl
  · exact ⟨V3.det3 A U C, by simp, by rw [det3_swap12] at hne; exact neg_ne_zero.mp hne⟩
  · exact ⟨V3.det3 A V C, by simp, by rw [det3_swap12] at hne; exact neg_ne_zero.mp hne⟩
  · exact ⟨V3.det3 A W C, by simp, by rw [det3_swap12] at hne; exact neg_ne_zero.mp hne⟩

theorem exists_ne_slot3 {U V W A B C : V3 ℝ} (hb : V3.det3 U V W ≠ 0) (h : V3.det3 A B C ≠ 0) :
    ∃ c ∈ [V3.det3 A B U, V3.det3 A B V, V3.det3 A B W], c ≠ 0 := by
  have h' : V3.det3 A C B ≠ 0 := by rw [det3_swap23]; exact neg_ne_zero.mpr h
  obtain ⟨c, hc, hne⟩ := exists_ne_slot2 (A := A) (B := C) (C := B) hb h'
  simp only [List.mem_cons, List.not_mem_nil, or_false] at hc
  rcases hc with rfl | rfl | rfl
  · exact ⟨V3.det3 A B U, by simp, by rw [det3_swap23] at hne; exact neg_ne_zero.mp hne⟩
  · exact ⟨V3.det3 A B V, by simp, by rw [det3_swap23] at hne; exact neg_ne_zero.mp hne⟩
  · exact ⟨V3.det3 A B W, by simp, by rw [det3_swap23] at hne; exact neg_ne_zero.mp hne⟩

/-! ### sums of non-negative integers -/

theorem sum_ge_of_mem {β : Type} (f : β → Int) (l : List β) (h : ∀ x ∈ l, 0 ≤ f x) {x0 : β} (h0 : x0 ∈ l) :
    f x0 ≤ (l.map f).sum := by
  induction l with
  | nil => simp at h0
  | cons a l ih =>
    simp only [List.map_cons, List.sum_cons]
    have hrest : 0 ≤ (l.map f).sum := by
      apply List.sum_nonneg; intro y hy
      obtain ⟨z, hz, rfl⟩ := List.mem_map.mp hy
      exact h z (List.mem_cons_of_mem _ hz)
    rcases List.mem_cons.mp h0 with rfl | hm
    · linarith
    · have := ih (fun x hx => h x (List.mem_cons_of_mem _ hx)) hm
      have ha := h a List.mem_cons_self
      linarith

theorem sum_nonpos_of_forall {β : Type} (f : β → Int) (l : List β) (h : ∀ x ∈ l, f x ≤ 0) :
    (l.map f).sum ≤ 0 := by
  induction l with
  | nil => simp
  | cons a l ih =>
    simp only [List.map_cons, List.sum_cons]
    have h1 := h a List.mem_cons_self
    have h2 := ih (fun x hx => h x (List.mem_cons_of_mem _ hx))
    linarith

theorem exists_pos_of_sum_pos {β : Type} (f : β → Int) (l : List β) (h : 0 < (l.map f).sum) :
    ∃ x ∈ l, 0 < f x := by
  by_contra hcon
  push Not at hcon
  have := sum_nonpos_of_forall f l hcon
  linarith

end Inside3D
end
