import CoxeterVerif.Lemmas.Steiner
import CoxeterVerif.Model.Polygon
/-!
  C11 (deepening round) — histories.  `_rescale`, the radius setter and the size setters of
  `ConvexSpheropolyhedron` / `ConvexSpheropolygon` as state transformers (`Model/Steiner.lean`):
  whatever sequence of mutators is applied, the object reached is a uniformly scaled copy of the
  initial core (factor `K > 0`, normals and face intersections untouched) with some radius `≥ 0`;
  its edge list is the initial one with every length multiplied by `K`.
-/
open Scalar
namespace Steiner
noncomputable section

/-! ### scaling of vectors and edge lists -/

theorem scaleV_sub (k : ℝ) (p q : V3 ℝ) : scaleV k p - scaleV k q = scaleV k (p - q) := by
  ext <;> simp [scaleV] <;> ring

theorem norm_scaleV (k : ℝ) (p : V3 ℝ) : V3.norm (scaleV k p) = |k| * V3.norm p := by
  unfold V3.norm V3.normSq V3.dot scaleV
  simp only [Scalar.sqrt_real]
  rw [show p.x * k * (p.x * k) + p.y * k * (p.y * k) + p.z * k * (p.z * k)
      = k * k * (p.x * p.x + p.y * p.y + p.z * p.z) by ring,
    Real.sqrt_mul (mul_self_nonneg k), Real.sqrt_mul_self_eq_abs]

theorem scaleV_one (p : V3 ℝ) : scaleV 1 p = p := by ext <;> simp [scaleV]

theorem scaleV_scaleV (k1 k2 : ℝ) (p : V3 ℝ) : scaleV k2 (scaleV k1 p) = scaleV (k1 * k2) p := by
  ext <;> simp [scaleV] <;> ring

/-- scaling of one `(L, φ)` -/
def scaleEdge (k : ℝ) (e : ℝ × ℝ) : ℝ × ℝ := (k * e.1, e.2)

theorem scaleEdges_eq (k : ℝ) (es : List (ℝ × ℝ)) : SteinerSpec.scaleEdges k es = es.map (scaleEdge k) := rfl

theorem edgeSumR_scale (k : ℝ) (es : List (ℝ × ℝ)) :
    edgeSumR (SteinerSpec.scaleEdges k es) = k * edgeSumR es := by
  unfold edgeSumR SteinerSpec.scaleEdges
  rw [List.map_map, ← sum_map_mul_left]
  congr 1
  apply List.map_congr_left
  intro e _
  simp only [Function.comp]; ring

theorem edgeLength_rescale (k : ℝ) (vs : List (V3 ℝ)) (e0 e1 : Nat) :
    CP.edgeLength (vs.map (scaleV k)) e0 e1 = (CP.edgeLength vs e0 e1).map (|k| * ·) := by
  unfold CP.edgeLength
  simp only [List.getElem?_map]
  cases vs[e0]? <;> cases vs[e1]? <;> simp only [Option.map] <;> try rfl
  simp only [Except.map, pure, Except.pure, scaleV_sub, norm_scaleV]

theorem except_map_bind {ε β γ δ : Type} (x : Except ε β) (f : β → γ) (g : γ → Except ε δ) :
    (Except.map f x >>= g) = (x >>= fun b => g (f b)) := by
  cases x <;> rfl

theorem edgeTerm_rescale (c : Core ℝ) (k : ℝ) (nb : List (List Nat)) (f : FaceIx) :
    CP.edgeTerm (c.rescale k) nb f = (CP.edgeTerm c nb f).map (scaleEdge |k|) := by
  unfold CP.edgeTerm
  simp only [Core.rescale, edgeLength_rescale]
  cases CP.getDihedral c.normals nb f.i f.j with
  | error e => rfl
  | ok phi =>
    cases CP.edgeLength c.vertices f.e0 f.e1 with
    | error e => rfl
    | ok len => rfl

theorem mapM_map {β γ : Type} (g g' : β → Except String γ) (h : γ → γ)
    (hg : ∀ x, g' x = (g x).map h) : ∀ l : List β, l.mapM g' = (l.mapM g).map (List.map h)
  | [] => rfl
  | a :: l => by
    rw [List.mapM_cons, List.mapM_cons, hg a, mapM_map g g' h hg l]
    cases g a with
    | error e => rfl
    | ok y =>
      cases l.mapM g with
      | error e => rfl
      | ok ys => rfl

/-- the loop data of the rescaled core: same angles, every length × |k| -/
theorem edgeTerms_rescale (c : Core ℝ) (k : ℝ) :
    CP.edgeTerms (c.rescale k) = (CP.edgeTerms c).map (SteinerSpec.scaleEdges |k|) := by
  unfold CP.edgeTerms
  have h : (c.rescale k).fi = c.fi := rfl
  have hn : (c.rescale k).normals = c.normals := rfl
  rw [h, hn]
  exact mapM_map _ _ (scaleEdge |k|) (fun f => edgeTerm_rescale c k _ f) c.fi

theorem rescale_rescale (c : Core ℝ) (k1 k2 : ℝ) : (c.rescale k1).rescale k2 = c.rescale (k1 * k2) := by
  unfold Core.rescale
  simp only [List.map_map, Scalar.cube, Scalar.sqr]
  congr 1
  · apply List.map_congr_left; intro p _; exact scaleV_scaleV k1 k2 p
  · ring
  · ring

theorem rescale_one (c : Core ℝ) : c.rescale 1 = c := by
  unfold Core.rescale
  simp only [Scalar.cube, Scalar.sqr, mul_one]
  have : c.vertices.map (scaleV 1) = c.vertices := by
    rw [List.map_congr_left (fun p _ => scaleV_one p), List.map_id']
  rw [this]

/-! ### homogeneity of the measures -/

theorem cp_meanCurvatureOf_scale (k : ℝ) (es : List (ℝ × ℝ)) :
    CP.meanCurvatureOf (SteinerSpec.scaleEdges k es) = k * CP.meanCurvatureOf es := by
  rw [meanCurvatureOf_eq, meanCurvatureOf_eq, edgeSumR_scale]; ring

theorem volumeOf_eq (V S r : ℝ) (es : List (ℝ × ℝ)) :
    SpheroPolyhedron.volumeOf V S r es
      = V + 4 / 3 * Real.pi * r ^ 3 + S * r + r * r / 2 * edgeSumR es := by
  unfold SpheroPolyhedron.volumeOf
  rw [vCyl_eq]
  simp only [Scalar.q, Scalar.cube, Scalar.ofNat_real, Scalar.pi_real]
  push_cast; ring

theorem surfaceAreaOf_eq (S r : ℝ) (es : List (ℝ × ℝ)) :
    SpheroPolyhedron.surfaceAreaOf S r es = S + 4 * Real.pi * r ^ 2 + r * edgeSumR es := by
  unfold SpheroPolyhedron.surfaceAreaOf
  rw [aCyl_eq]
  simp only [Scalar.lit, Scalar.sqr, Scalar.ofNat_real, Scalar.pi_real]
  push_cast; ring

theorem sphMeanCurvatureOf_eq (r : ℝ) (es : List (ℝ × ℝ)) :
    SpheroPolyhedron.meanCurvatureOf r es = edgeSumR es / (8 * Real.pi) + r := by
  unfold SpheroPolyhedron.meanCurvatureOf
  rw [meanCurvatureOf_eq]

/-- **similarity**: scaling the core data by `k` scales volume, area, mean curvature by `k³, k², k` -/
theorem bodies_scale (V S r k : ℝ) (es : List (ℝ × ℝ)) :
    SpheroPolyhedron.volumeOf (V * cube k) (S * sqr k) (r * k) (SteinerSpec.scaleEdges k es)
        = k ^ 3 * SpheroPolyhedron.volumeOf V S r es ∧
    SpheroPolyhedron.surfaceAreaOf (S * sqr k) (r * k) (SteinerSpec.scaleEdges k es)
        = k ^ 2 * SpheroPolyhedron.surfaceAreaOf S r es ∧
    SpheroPolyhedron.meanCurvatureOf (r * k) (SteinerSpec.scaleEdges k es)
        = k * SpheroPolyhedron.meanCurvatureOf r es := by
  simp only [volumeOf_eq, surfaceAreaOf_eq, sphMeanCurvatureOf_eq, edgeSumR_scale, Scalar.cube, Scalar.sqr]
  refine ⟨by ring, by ring, by ring⟩

/-! ### histories of a spheropolyhedron -/

namespace SpheroPolyhedron

/-- a sane object: the loops run, the core has positive volume, area and edge sum, radius `≥ 0` -/
structure Good (s : State ℝ) : Prop where
  es : ∃ es, CP.edgeTerms s.core = .ok es ∧ 0 < edgeSumR es
  vol : 0 < s.core.volume
  area : 0 < s.core.area
  rad : 0 ≤ s.radius

/-- the mutators that are given an explicit factor get a positive one -/
def Op.Valid : Op ℝ → Prop
  | .rescale k => 0 < k
  | _ => True

theorem setRadius_ok {v : ℝ} (h : 0 ≤ v) : Steiner.setRadius v = .ok v := by
  unfold Steiner.setRadius
  simp only [Scalar.lit, Scalar.ofNat_real, Nat.cast_zero]
  rw [if_pos h]; rfl

theorem setRadius_eq_ok {v r : ℝ} (h : Steiner.setRadius v = .ok r) : r = v ∧ 0 ≤ v := by
  unfold Steiner.setRadius at h
  simp only [Scalar.lit, Scalar.ofNat_real, Nat.cast_zero] at h
  split_ifs at h with hv
  cases h; exact ⟨rfl, hv⟩

theorem rescale_good {s s1 : State ℝ} (hs : Good s) {k : ℝ} (hk : 0 < k) (h : s.rescale k = .ok s1) :
    s1.core = s.core.rescale k ∧ s1.radius = s.radius * k ∧ Good s1 := by
  unfold State.rescale at h
  rw [setRadius_ok (mul_nonneg hs.rad hk.le)] at h
  cases h
  refine ⟨rfl, rfl, ?_⟩
  obtain ⟨es, hes, hpos⟩ := hs.es
  refine ⟨⟨SteinerSpec.scaleEdges |k| es, ?_, ?_⟩, ?_, ?_, mul_nonneg hs.rad hk.le⟩
  · show CP.edgeTerms (s.core.rescale k) = _
    rw [edgeTerms_rescale, hes]; rfl
  · rw [edgeSumR_scale, abs_of_pos hk]; positivity
  · show 0 < s.core.volume * cube k
    have := hs.vol; simp only [Scalar.cube]; positivity
  · show 0 < s.core.area * sqr k
    have := hs.area; simp only [Scalar.sqr]; positivity

theorem volume_pos {s : State ℝ} (hs : Good s) {cur : ℝ} (h : volume s.core s.radius = .ok cur) :
    0 < cur := by
  obtain ⟨es, hes, hpos⟩ := hs.es
  unfold volume at h; rw [hes] at h; cases h
  rw [volumeOf_eq]
  have := hs.vol; have := hs.area; have := hs.rad; have := Real.pi_pos
  positivity

theorem surfaceArea_pos {s : State ℝ} (hs : Good s) {cur : ℝ} (h : surfaceArea s.core s.radius = .ok cur) :
    0 < cur := by
  obtain ⟨es, hes, hpos⟩ := hs.es
  unfold surfaceArea at h; rw [hes] at h; cases h
  rw [surfaceAreaOf_eq]
  have := hs.area; have := hs.rad; have := Real.pi_pos
  positivity

theorem meanCurvature_pos {s : State ℝ} (hs : Good s) {cur : ℝ}
    (h : meanCurvature s.core s.radius = .ok cur) : 0 < cur := by
  obtain ⟨es, hes, hpos⟩ := hs.es
  unfold meanCurvature at h; rw [hes] at h; cases h
  rw [sphMeanCurvatureOf_eq]
  have := hs.rad; have := Real.pi_pos
  positivity

theorem cbrt_pos {x : ℝ} (hx : 0 < x) : 0 < (Scalar.cbrt x : ℝ) := by
  show 0 < (if 0 ≤ x then x ^ ((1:ℝ)/3) else -((-x) ^ ((1:ℝ)/3)))
  rw [if_pos hx.le]
  exact Real.rpow_pos_of_pos hx _

/-- one mutator: the new core is the old one rescaled by a positive factor -/
theorem apply_good {s s1 : State ℝ} (hs : Good s) (op : Op ℝ) (hv : op.Valid) (h : s.apply op = .ok s1) :
    ∃ k, 0 < k ∧ s1.core = s.core.rescale k ∧ Good s1 := by
  cases op with
  | setRadius v =>
    refine ⟨1, one_pos, ?_, ?_⟩
    · simp only [State.apply, State.setRadius] at h
      cases hr : Steiner.setRadius v with
      | error e => rw [hr] at h; cases h
      | ok r => rw [hr] at h; cases h; exact (rescale_one _).symm
    · simp only [State.apply, State.setRadius] at h
      cases hr : Steiner.setRadius v with
      | error e => rw [hr] at h; cases h
      | ok r =>
        rw [hr] at h; cases h
        obtain ⟨rfl, hv0⟩ := setRadius_eq_ok hr
        exact ⟨hs.es, hs.vol, hs.area, hv0⟩
  | rescale k =>
    obtain ⟨h1, _, h3⟩ := rescale_good hs hv h
    exact ⟨k, hv, h1, h3⟩
  | setVolume v =>
    simp only [State.apply, State.setVolume] at h
    split_ifs at h with hpos
    · cases hc : volume s.core s.radius with
      | error e => rw [hc] at h; cases h
      | ok cur =>
        rw [hc] at h
        simp only [Scalar.lit, Scalar.ofNat_real, Nat.cast_zero] at hpos
        have hk : 0 < (Scalar.cbrt (v / cur) : ℝ) := cbrt_pos (div_pos hpos (volume_pos hs hc))
        obtain ⟨h1, _, h3⟩ := rescale_good hs hk h
        exact ⟨_, hk, h1, h3⟩
  | setSurfaceArea v =>
    simp only [State.apply, State.setSurfaceArea] at h
    split_ifs at h with hpos
    · cases hc : surfaceArea s.core s.radius with
      | error e => rw [hc] at h; cases h
      | ok cur =>
        rw [hc] at h
        simp only [Scalar.lit, Scalar.ofNat_real, Nat.cast_zero] at hpos
        have hk : 0 < (Scalar.sqrt (v / cur) : ℝ) :=
          Real.sqrt_pos.mpr (div_pos hpos (surfaceArea_pos hs hc))
        obtain ⟨h1, _, h3⟩ := rescale_good hs hk h
        exact ⟨_, hk, h1, h3⟩
  | setMeanCurvature v =>
    simp only [State.apply, State.setMeanCurvature] at h
    split_ifs at h with hpos
    · cases hc : meanCurvature s.core s.radius with
      | error e => rw [hc] at h; cases h
      | ok cur =>
        rw [hc] at h
        simp only [Scalar.lit, Scalar.ofNat_real, Nat.cast_zero] at hpos
        have hk : 0 < v / cur := div_pos hpos (meanCurvature_pos hs hc)
        obtain ⟨h1, _, h3⟩ := rescale_good hs hk h
        exact ⟨_, hk, h1, h3⟩

/-- **every history**: the object reached is a positively rescaled copy of the initial core -/
theorem run_good : ∀ (ops : List (Op ℝ)) (s s' : State ℝ), Good s → (∀ op ∈ ops, op.Valid) →
    s.run ops = .ok s' → ∃ K, 0 < K ∧ s'.core = s.core.rescale K ∧ Good s'
  | [], s, s', hs, _, h => by
    simp only [State.run, pure, Except.pure] at h
    cases h
    exact ⟨1, one_pos, (rescale_one _).symm, hs⟩
  | op :: ops, s, s', hs, hv, h => by
    simp only [State.run] at h
    cases h1 : s.apply op with
    | error e => rw [h1] at h; cases h
    | ok s1 =>
      rw [h1] at h
      obtain ⟨k, hk, hc1, hg1⟩ := apply_good hs op (hv op List.mem_cons_self) h1
      obtain ⟨K, hK, hc, hg⟩ := run_good ops s1 s' hg1 (fun o ho => hv o (List.mem_cons_of_mem _ ho)) h
      refine ⟨k * K, mul_pos hk hK, ?_, hg⟩
      rw [hc, hc1, rescale_rescale]

end SpheroPolyhedron

/-! ### histories of a spheropolygon -/

namespace SpheroPolygon

theorem zipWith_norm_scale (k : ℝ) : ∀ (ws vs : List (V3 ℝ)),
    (List.zipWith (fun w v => V3.norm (w - v)) (ws.map (scaleV k)) (vs.map (scaleV k))).sum
      = |k| * (List.zipWith (fun w v => V3.norm (w - v)) ws vs).sum
  | [], _ => by simp
  | _ :: _, [] => by simp
  | w :: ws, v :: vs => by
    simp only [List.map_cons, List.zipWith_cons_cons, List.sum_cons, zipWith_norm_scale k ws vs,
      scaleV_sub, norm_scaleV]
    ring

theorem perimeter_scale (k : ℝ) (vs : List (V3 ℝ)) :
    Polygon.perimeter (vs.map (scaleV k)) = |k| * Polygon.perimeter vs := by
  unfold Polygon.perimeter
  have hroll : roll (vs.map (scaleV k)) = (roll vs).map (scaleV k) := by
    cases vs with
    | nil => rfl
    | cons a l => simp [roll]
  rw [hroll]
  simp only [Scalar.sum_real]
  exact zipWith_norm_scale k (roll vs) vs

/-- `area = |a| + P r + π r²` for `r ≥ 0`, either orientation of the core -/
theorem area_eq (vs : List (V3 ℝ)) (a r : ℝ) (hr : 0 ≤ r) :
    SpheroPolygon.area vs a r = |a| + Polygon.perimeter vs * r + Real.pi * r * r := by
  unfold SpheroPolygon.area SpheroPolygon.signedArea
  rw [edgeLengthSum_eq_perimeter]
  have hP := perimeter_nonneg vs
  have hs : 0 ≤ Polygon.perimeter vs * r + Real.pi * r * r := by
    have := Real.pi_pos; positivity
  simp only [Scalar.lit, Scalar.ofNat_real, Scalar.pi_real, Scalar.abs_real, Nat.cast_zero]
  split_ifs with h
  · rw [abs_of_neg h, abs_of_nonpos (by linarith)]; ring
  · rw [not_lt] at h
    rw [abs_of_nonneg h, abs_of_nonneg (by linarith)]; ring

/-- a sane object: the core has non-zero area and positive perimeter, radius `≥ 0` -/
structure Good (polyArea : List (V3 ℝ) → ℝ) (s : State ℝ) : Prop where
  area : polyArea s.vertices ≠ 0
  per : 0 < Polygon.perimeter s.vertices
  rad : 0 ≤ s.radius

def Op.Valid : Op ℝ → Prop
  | .rescale k => 0 < k
  | _ => True

/-- `Polygon.signed_area` is homogeneous of degree 2 (C04's quantity; proved for the model of
`Polygon.signed_area` in `Lemmas/CovarianceScale.lean`, `Poly2.signedArea_scale`) -/
def Hom2 (polyArea : List (V3 ℝ) → ℝ) : Prop :=
  ∀ (k : ℝ) (vs : List (V3 ℝ)), polyArea (vs.map (scaleV k)) = k ^ 2 * polyArea vs

theorem rescale_good {polyArea : List (V3 ℝ) → ℝ} (hhom : Hom2 polyArea) {s s1 : State ℝ}
    (hs : Good polyArea s) {k : ℝ} (hk : 0 < k) (h : s.rescale k = .ok s1) :
    s1.vertices = s.vertices.map (scaleV k) ∧ s1.radius = s.radius * k ∧ Good polyArea s1 := by
  unfold State.rescale at h
  rw [SpheroPolyhedron.setRadius_ok (mul_nonneg hs.rad hk.le)] at h
  cases h
  refine ⟨rfl, rfl, ?_, ?_, mul_nonneg hs.rad hk.le⟩
  · show polyArea (s.vertices.map (scaleV k)) ≠ 0
    rw [hhom]; exact mul_ne_zero (pow_ne_zero _ hk.ne') hs.area
  · show 0 < Polygon.perimeter (s.vertices.map (scaleV k))
    rw [perimeter_scale, abs_of_pos hk]; exact mul_pos hk hs.per

theorem area_pos {polyArea : List (V3 ℝ) → ℝ} {s : State ℝ} (hs : Good polyArea s) :
    0 < SpheroPolygon.area s.vertices (polyArea s.vertices) s.radius := by
  rw [area_eq _ _ _ hs.rad]
  have h1 : 0 < |polyArea s.vertices| := abs_pos.mpr hs.area
  have h2 := hs.per.le; have h3 := hs.rad; have := Real.pi_pos
  have : 0 ≤ Polygon.perimeter s.vertices * s.radius + Real.pi * s.radius * s.radius := by positivity
  linarith

theorem perimeter_pos {polyArea : List (V3 ℝ) → ℝ} {s : State ℝ} (hs : Good polyArea s) :
    0 < SpheroPolygon.perimeter s.vertices s.radius := by
  unfold SpheroPolygon.perimeter
  simp only [Scalar.lit, Scalar.ofNat_real, Scalar.pi_real]
  have h2 := hs.per; have h3 := hs.rad; have := Real.pi_pos
  have : 0 ≤ ((2 : ℕ) : ℝ) * Real.pi * s.radius := by positivity
  linarith

theorem map_scaleV_one (vs : List (V3 ℝ)) : vs.map (scaleV 1) = vs := by
  rw [List.map_congr_left (fun p _ => scaleV_one p), List.map_id']

theorem apply_good {polyArea : List (V3 ℝ) → ℝ} (hhom : Hom2 polyArea) {s s1 : State ℝ}
    (hs : Good polyArea s) (op : Op ℝ) (hv : op.Valid) (h : s.apply polyArea op = .ok s1) :
    ∃ k, 0 < k ∧ s1.vertices = s.vertices.map (scaleV k) ∧ Good polyArea s1 := by
  cases op with
  | setRadius v =>
    simp only [State.apply, State.setRadius] at h
    cases hr : Steiner.setRadius v with
    | error e => rw [hr] at h; cases h
    | ok r =>
      rw [hr] at h; cases h
      obtain ⟨rfl, hv0⟩ := SpheroPolyhedron.setRadius_eq_ok hr
      exact ⟨1, one_pos, (map_scaleV_one _).symm, hs.area, hs.per, hv0⟩
  | rescale k =>
    obtain ⟨h1, _, h3⟩ := rescale_good hhom hs hv h
    exact ⟨k, hv, h1, h3⟩
  | setArea v =>
    simp only [State.apply, State.setArea] at h
    split_ifs at h with hpos
    · simp only [Scalar.lit, Scalar.ofNat_real, Nat.cast_zero] at hpos
      have hk : 0 < (Scalar.sqrt (v / SpheroPolygon.area s.vertices (polyArea s.vertices) s.radius) : ℝ) :=
        Real.sqrt_pos.mpr (div_pos hpos (area_pos hs))
      obtain ⟨h1, _, h3⟩ := rescale_good hhom hs hk h
      exact ⟨_, hk, h1, h3⟩
  | setPerimeter v =>
    simp only [State.apply, State.setPerimeter] at h
    split_ifs at h with hpos
    · simp only [Scalar.lit, Scalar.ofNat_real, Nat.cast_zero] at hpos
      have hk : 0 < v / SpheroPolygon.perimeter s.vertices s.radius := div_pos hpos (perimeter_pos hs)
      obtain ⟨h1, _, h3⟩ := rescale_good hhom hs hk h
      exact ⟨_, hk, h1, h3⟩

/-- a concrete homogeneous core area (shoelace in the `xy` plane), to show `Hom2` is satisfiable -/
def xyArea (vs : List (V3 ℝ)) : ℝ :=
  (List.zipWith (fun v w : V3 ℝ => v.x * w.y - w.x * v.y) vs (roll vs)).sum / 2

theorem roll_map {β γ : Type} (f : β → γ) (l : List β) : roll (l.map f) = (roll l).map f := by
  cases l with
  | nil => rfl
  | cons a l => simp [roll]

theorem zipWith_shoelace_scale (k : ℝ) : ∀ (vs ws : List (V3 ℝ)),
    (List.zipWith (fun v w : V3 ℝ => v.x * w.y - w.x * v.y) (vs.map (scaleV k)) (ws.map (scaleV k))).sum
      = k ^ 2 * (List.zipWith (fun v w : V3 ℝ => v.x * w.y - w.x * v.y) vs ws).sum
  | [], _ => by simp
  | _ :: _, [] => by simp
  | v :: vs, w :: ws => by
    simp only [List.map_cons, List.zipWith_cons_cons, List.sum_cons, zipWith_shoelace_scale k vs ws, scaleV]
    ring

theorem xyArea_hom : Hom2 xyArea := by
  intro k vs
  unfold xyArea
  rw [roll_map, zipWith_shoelace_scale]; ring

/-! the model of `Polygon.signed_area` (C04, `Model/Polygon.lean`) is homogeneous of degree 2 in the
stored vertices (the normal is not touched by `_rescale`) -/

theorem rotl_map {β γ : Type} (f : β → γ) (k : Nat) (l : List β) :
    Poly2.rotl k (l.map f) = (Poly2.rotl k l).map f := by
  unfold Poly2.rotl
  simp only [List.length_map, List.map_append, List.map_drop, List.map_take]

theorem get_scaleV (k : ℝ) (v : V3 ℝ) (i : Nat) : (scaleV k v).get i = k * v.get i := by
  unfold V3.get scaleV
  split_ifs <;> ring

theorem zipWith3_scale (k : ℝ) (c1 c2 : Nat) : ∀ (as bs cs : List (V3 ℝ)),
    (List.zipWith (fun (ab : V3 ℝ × V3 ℝ) (c : V3 ℝ) => ab.2.get c1 * (c.get c2 - ab.1.get c2))
        ((as.map (scaleV k)).zip (bs.map (scaleV k))) (cs.map (scaleV k))).sum
      = k ^ 2 * (List.zipWith (fun (ab : V3 ℝ × V3 ℝ) (c : V3 ℝ) => ab.2.get c1 * (c.get c2 - ab.1.get c2))
        (as.zip bs) cs).sum
  | [], _, _ => by simp
  | _ :: _, [], _ => by simp
  | _ :: _, _ :: _, [] => by simp
  | a :: as, b :: bs, c :: cs => by
    simp only [List.map_cons, List.zip_cons_cons, List.zipWith_cons_cons, List.sum_cons,
      zipWith3_scale k c1 c2 as bs cs, get_scaleV]
    ring

theorem poly2_signedArea_hom (n : V3 ℝ) : Hom2 (fun vs => Poly2.signedArea vs n) := by
  intro k vs
  simp only [Poly2.signedArea, rotl_map, Scalar.sum_real]
  rw [zipWith3_scale]
  ring

/-- **every history** of a spheropolygon: the stored vertices are the initial ones × `K > 0` -/
theorem run_good {polyArea : List (V3 ℝ) → ℝ} (hhom : Hom2 polyArea) :
    ∀ (ops : List (Op ℝ)) (s s' : State ℝ), Good polyArea s → (∀ op ∈ ops, op.Valid) →
    s.run polyArea ops = .ok s' →
    ∃ K, 0 < K ∧ s'.vertices = s.vertices.map (scaleV K) ∧ Good polyArea s'
  | [], s, s', hs, _, h => by
    simp only [State.run, pure, Except.pure] at h
    cases h
    exact ⟨1, one_pos, (map_scaleV_one _).symm, hs⟩
  | op :: ops, s, s', hs, hv, h => by
    simp only [State.run] at h
    cases h1 : s.apply polyArea op with
    | error e => rw [h1] at h; cases h
    | ok s1 =>
      rw [h1] at h
      obtain ⟨k, hk, hc1, hg1⟩ := apply_good hhom hs op (hv op List.mem_cons_self) h1
      obtain ⟨K, hK, hc, hg⟩ := run_good hhom ops s1 s' hg1
        (fun o ho => hv o (List.mem_cons_of_mem _ ho)) h
      refine ⟨k * K, mul_pos hk hK, ?_, hg⟩
      rw [hc, hc1, List.map_map]
      apply List.map_congr_left; intro p _; exact scaleV_scaleV k K p

end SpheroPolygon

end
end Steiner
