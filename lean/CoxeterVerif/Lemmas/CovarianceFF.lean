import CoxeterVerif.Lemmas.CovarianceSim
import CoxeterVerif.Lemmas.FormFactorLimits
/-!
  Helper lemmas for C09, part 10: the form-factor models of C12 (`Model/FormFactor.lean`, imported
  unchanged) under rotations and positive scalings (translations: `polygonFF_translate`,
  `polyhedronNonzero_translate`, `sphereFF_translate` of C12).

  * rotation `F_{R P}(R q) = F_P(q)`: every edge term (amplitude = a triple product and two dot products,
    phase = a dot product) is invariant term-wise; the orientation sign / zero-branch area is the only
    non-termwise ingredient (`signed_area` projects onto the coordinate plane `argmax |n|` selects) and is
    invariant for planar polygons with unit normal through C12's `signedArea_eq_fan`;
  * scaling `F_{s P}(q / s) = s^d F_P(q)` (`d = 2` polygon, `3` polyhedron / sphere): holds whenever `q` and
    `q / s` are on the same side of the ABSOLUTE switch `np.isclose(q², 0)` (`|q|² ≤ 1e-8`); it FAILS for every
    sphere when only `q / s` falls into the window (`sphereFF_scale_window_fails`, strict inequality from
    C12's `ballAmp_lt_volume`), with a witness inside the property's range (`s = 1000`, `|q| R = 0.05`).
-/
open Scalar FF
set_option maxRecDepth 4000
noncomputable section

namespace FF

theorem dot_comm' (u v : V3 ℝ) : V3.dot u v = V3.dot v u := by unfold V3.dot; ring

theorem dot_sdiv_left (a b : V3 ℝ) (c : ℝ) : V3.dot (V3.sdiv a c) b = V3.dot a b / c := by
  unfold V3.dot; simp only [V3.sdiv_x, V3.sdiv_y, V3.sdiv_z]; ring

/-! ### rotation -/
section rot
variable {R : M3 ℝ} (hR : IsRot R)
include hR

theorem project_rot (n q : V3 ℝ) : project (M3.mulVec R n) (M3.mulVec R q) = M3.mulVec R (project n q) := by
  unfold project
  rw [hR.dot_rot, mulVec_sub, mulVec_smul]

theorem edgeAmp_rot (n qp : V3 ℝ) (qsq : ℝ) (vw : V3 ℝ × V3 ℝ) :
    edgeAmp (M3.mulVec R n) (M3.mulVec R qp) qsq (Prod.map (M3.mulVec R) (M3.mulVec R) vw) = edgeAmp n qp qsq vw := by
  obtain ⟨v, w⟩ := vw
  unfold edgeAmp
  simp only [Prod.map, ← mulVec_sub, hR.cross_rot, hR.dot_rot]

theorem edgePhase_rot (qp : V3 ℝ) (vw : V3 ℝ × V3 ℝ) :
    edgePhase (M3.mulVec R qp) (Prod.map (M3.mulVec R) (M3.mulVec R) vw) = edgePhase qp vw := by
  obtain ⟨v, w⟩ := vw
  unfold edgePhase
  simp only [Prod.map, dot_sdiv_left, ← mulVec_add, hR.dot_rot]

/-- **every edge term of the polygon form factor is rotation invariant** -/
theorem edgeTerm_rot (n qp : V3 ℝ) (qsq : ℝ) (vw : V3 ℝ × V3 ℝ) :
    edgeTerm (M3.mulVec R n) (M3.mulVec R qp) qsq (Prod.map (M3.mulVec R) (M3.mulVec R) vw) = edgeTerm n qp qsq vw := by
  rw [edgeTerm_eq, edgeTerm_eq, edgeAmp_rot hR, edgePhase_rot hR]

omit hR in
theorem cyclicPairs_go_map (f : V3 ℝ → V3 ℝ) (first a : V3 ℝ) (l : List (V3 ℝ)) :
    Spec.cyclicPairs.go (f first) (f a) (l.map f) = (Spec.cyclicPairs.go first a l).map (Prod.map f f) := by
  induction l generalizing a with
  | nil => simp [Spec.cyclicPairs.go]
  | cons b l ih => simp only [List.map_cons, Spec.cyclicPairs.go, ih b]; rfl

omit hR in
theorem cyclicPairs_map (f : V3 ℝ → V3 ℝ) (vs : List (V3 ℝ)) :
    Spec.cyclicPairs (vs.map f) = (Spec.cyclicPairs vs).map (Prod.map f f) := by
  cases vs with
  | nil => rfl
  | cons v0 rest => simp only [List.map_cons, Spec.cyclicPairs, cyclicPairs_go_map]

theorem fanArea2_rot (vs : List (V3 ℝ)) (n : V3 ℝ) :
    Spec.fanArea2 (vs.map (M3.mulVec R)) (M3.mulVec R n) = Spec.fanArea2 vs n := by
  cases vs with
  | nil => rfl
  | cons v0 rest =>
    have := cyclicPairs_map (M3.mulVec R) (v0 :: rest)
    simp only [List.map_cons] at this
    simp only [Spec.fanArea2, List.map_cons, this, List.map_map]
    congr 1
    apply List.map_congr_left
    intro p _
    simp only [Function.comp, Prod.map, ← mulVec_sub, hR.cross_rot, hR.dot_rot]

/-- **`Polygon.signed_area` of a planar polygon with unit normal is rotation invariant** although the
projection axis `argmax |n|` may change (e.g. axis-aligned versus rotated copy) -/
theorem signedArea_rot (v0 : V3 ℝ) (rest : List (V3 ℝ)) (n : V3 ℝ)
    (hplanar : ∀ v ∈ v0 :: rest, V3.dot (v - v0) n = 0) (hunit : V3.dot n n = 1) :
    signedArea ((v0 :: rest).map (M3.mulVec R)) (M3.mulVec R n) = signedArea (v0 :: rest) n := by
  have hunit' : V3.dot (M3.mulVec R n) (M3.mulVec R n) = 1 := by rw [hR.dot_rot]; exact hunit
  have hplanar' : ∀ v ∈ M3.mulVec R v0 :: rest.map (M3.mulVec R),
      V3.dot (v - M3.mulVec R v0) (M3.mulVec R n) = 0 := by
    intro v hv
    rw [← List.map_cons] at hv
    obtain ⟨u, hu, rfl⟩ := List.mem_map.mp hv
    rw [← mulVec_sub, hR.dot_rot]; exact hplanar u hu
  rw [List.map_cons, signedArea_eq_fan _ _ _ hplanar' hunit' (argmax_ne_zero _ hunit'),
    signedArea_eq_fan _ _ _ hplanar hunit (argmax_ne_zero _ hunit), ← List.map_cons, fanArea2_rot hR]

/-- **`F_{R P}(R q) = F_P(q)` for every planar polygon with unit normal, in both branches** -/
theorem polygonFF_rot (v0 : V3 ℝ) (rest : List (V3 ℝ)) (n qv : V3 ℝ) (rho : ℝ)
    (hplanar : ∀ v ∈ v0 :: rest, V3.dot (v - v0) n = 0) (hunit : V3.dot n n = 1) :
    polygonFF ((v0 :: rest).map (M3.mulVec R)) (M3.mulVec R n) (M3.mulVec R qv) rho
      = polygonFF (v0 :: rest) n qv rho := by
  unfold polygonFF polygonArea polygonNonzero
  simp only [project_rot hR, hR.dot_rot, signedArea_rot hR v0 rest n hplanar hunit, edgesOf_map, List.map_map]
  have : (edgeTerm (M3.mulVec R n) (M3.mulVec R (project n qv)) (V3.dot (project n qv) (project n qv)) ∘
      Prod.map (M3.mulVec R) (M3.mulVec R)) = edgeTerm n (project n qv) (V3.dot (project n qv) (project n qv)) := by
    funext vw; exact edgeTerm_rot hR n _ _ vw
  rw [this]

/-- **sphere** -/
theorem sphereFF_rot (r : ℝ) (c qv : V3 ℝ) (rho : ℝ) :
    sphereFF r (M3.mulVec R c) (M3.mulVec R qv) rho = sphereFF r c qv rho := by
  unfold sphereFF
  simp only [hR.dot_rot]

/-- image of a face of a polyhedron under a rotation (unit normal rotates, offset unchanged) -/
def Face.rot (R : M3 ℝ) (f : Face ℝ) : Face ℝ := ⟨f.verts.map (M3.mulVec R), M3.mulVec R f.normal, f.off⟩

/-- **`F_{R P}(R q) = F_P(q)` for a polyhedron** whose faces are planar with unit normals -/
theorem polyhedronFF_rot (faces : List (Face ℝ)) (vol : ℝ) (qv : V3 ℝ) (rho : ℝ)
    (hf : ∀ f ∈ faces, V3.norm f.normal = 1 ∧ ∃ v0 rest, f.verts = v0 :: rest ∧
      ∀ v ∈ v0 :: rest, V3.dot (v - v0) f.normal = 0) :
    polyhedronFF (faces.map (Face.rot R)) vol (M3.mulVec R qv) rho = polyhedronFF faces vol qv rho := by
  unfold polyhedronFF polyhedronNonzero
  simp only [hR.dot_rot, List.map_map]
  congr 2
  apply congrArg
  apply List.map_congr_left
  intro f hfm
  obtain ⟨hn, v0, rest, hv, hpl⟩ := hf f hfm
  have hunit : V3.dot f.normal f.normal = 1 := by
    have : V3.norm f.normal = Real.sqrt (V3.dot f.normal f.normal) := rfl
    rw [this] at hn
    have h0 : 0 ≤ V3.dot f.normal f.normal := by unfold V3.dot; nlinarith [mul_self_nonneg f.normal.x, mul_self_nonneg f.normal.y, mul_self_nonneg f.normal.z]
    have := Real.sq_sqrt h0
    rw [hn] at this; linarith
  simp only [Function.comp, faceTerm, Face.rot, hR.norm_rot, hn, sdiv_one, hR.dot_rot, hv]
  rw [polygonFF_rot hR v0 rest f.normal qv (lit 1) hpl hunit]

end rot

/-! ### positive scaling -/
section scale
variable {s : ℝ} (hs : 0 < s)
include hs

omit hs in
theorem saSum_scale (s : ℝ) (c1 c2 : Nat) (vs : List (V3 ℝ)) :
    saSum c1 c2 (vs.map (V3.smul s)) = s ^ 2 * saSum c1 c2 vs := by
  unfold saSum
  rw [← List.map_rotate, ← List.map_rotate, List.zip_map, List.zip_map, List.map_map, ← list_sum_map_mul]
  congr 1
  apply List.map_congr_left
  intro t _
  simp only [Function.comp, Prod.map, V3.get_smul]; ring

omit hs in
theorem signedArea_scale (s : ℝ) (vs : List (V3 ℝ)) (n : V3 ℝ) :
    signedArea (vs.map (V3.smul s)) n = s ^ 2 * signedArea vs n := by
  rw [signedArea_eq, signedArea_eq, saSum_scale]; ring

theorem sign_scale (x : ℝ) : sign (s ^ 2 * x) = sign x := by
  unfold sign
  have h2 : 0 < s ^ 2 := pow_pos hs 2
  simp only [Scalar.lit, Scalar.ofNat_real, Nat.cast_zero, Nat.cast_one]
  by_cases h1 : x < 0
  · rw [if_pos h1, if_pos ((pos_mul_lt_zero h2 x).mpr h1)]
  · rw [if_neg h1, if_neg (fun h => h1 ((pos_mul_lt_zero h2 x).mp h))]
    by_cases h3 : 0 < x
    · rw [if_pos h3, if_pos ((pos_mul_pos_iff h2 x).mpr h3)]
    · rw [if_neg h3, if_neg (fun h => h3 ((pos_mul_pos_iff h2 x).mp h))]

omit hs in
theorem project_scale (s : ℝ) (n q : V3 ℝ) : project n (V3.smul (1 / s) q) = V3.smul (1 / s) (project n q) := by
  unfold project V3.dot
  ext <;> simp only [V3.sub_x, V3.sub_y, V3.sub_z, V3.smul_x, V3.smul_y, V3.smul_z] <;> ring

theorem edgeAmp_scale (n qp : V3 ℝ) (qsq : ℝ) (vw : V3 ℝ × V3 ℝ) :
    edgeAmp n (V3.smul (1 / s) qp) (qsq / s ^ 2) (Prod.map (V3.smul s) (V3.smul s) vw)
      = s ^ 2 * edgeAmp n qp qsq vw := by
  obtain ⟨v, w⟩ := vw
  unfold edgeAmp
  simp only [Prod.map, ← V3.smul_sub]
  have h1 : V3.cross (V3.smul s (w - v)) (V3.smul (1 / s) qp) = V3.cross (w - v) qp := by
    ext <;> simp only [V3.cross, V3.smul_x, V3.smul_y, V3.smul_z] <;> field_simp
  have h2 : V3.dot (V3.smul s (w - v)) (V3.smul (1 / s) qp) = V3.dot (w - v) qp := by
    rw [V3.dot_smul]; field_simp
  rw [h1, h2]
  have hs' := hs.ne'
  by_cases hq : qsq = 0
  · subst hq; simp
  · field_simp

theorem edgePhase_scale (qp : V3 ℝ) (vw : V3 ℝ × V3 ℝ) :
    edgePhase (V3.smul (1 / s) qp) (Prod.map (V3.smul s) (V3.smul s) vw) = edgePhase qp vw := by
  obtain ⟨v, w⟩ := vw
  unfold edgePhase
  simp only [Prod.map, dot_sdiv_left, ← V3.smul_add, V3.dot_smul]
  field_simp

theorem edgeTerm_scale (n qp : V3 ℝ) (qsq : ℝ) (vw : V3 ℝ × V3 ℝ) :
    edgeTerm n (V3.smul (1 / s) qp) (qsq / s ^ 2) (Prod.map (V3.smul s) (V3.smul s) vw)
      = Cx.smul (s ^ 2) (edgeTerm n qp qsq vw) := by
  rw [edgeTerm_eq, edgeTerm_eq, edgeAmp_scale hs, edgePhase_scale hs]
  ext <;> simp <;> ring

theorem dot_scale (u : V3 ℝ) : V3.dot (V3.smul (1 / s) u) (V3.smul (1 / s) u) = V3.dot u u / s ^ 2 := by
  rw [V3.dot_smul]; field_simp

/-- **`F_{sP}(q/s) = s² F_P(q)` for a polygon**, provided the in-plane `|q|²` and `|q|²/s²` are on the same
side of the absolute `isclose` switch -/
theorem polygonFF_scale (vs : List (V3 ℝ)) (n qv : V3 ℝ) (rho : ℝ)
    (hwin : isCloseZero (V3.dot (project n qv) (project n qv) / s ^ 2)
              = isCloseZero (V3.dot (project n qv) (project n qv))) :
    polygonFF (vs.map (V3.smul s)) n (V3.smul (1 / s) qv) rho = Cx.smul (s ^ 2) (polygonFF vs n qv rho) := by
  unfold polygonFF polygonArea polygonNonzero
  simp only [project_scale, dot_scale hs, hwin, signedArea_scale, sign_scale hs, edgesOf_map, List.map_map]
  have : (edgeTerm n (V3.smul (1 / s) (project n qv)) (V3.dot (project n qv) (project n qv) / s ^ 2) ∘
      Prod.map (V3.smul s) (V3.smul s))
      = fun vw => Cx.smul (s ^ 2) (edgeTerm n (project n qv) (V3.dot (project n qv) (project n qv)) vw) := by
    funext vw; exact edgeTerm_scale hs n _ _ vw
  rw [this, Cx.sum_map_smul]
  have h2 : 0 < s ^ 2 := pow_pos hs 2
  split_ifs
  · ext <;> simp [abs_mul, abs_of_pos h2] <;> ring
  · ext <;> simp <;> ring

/-- image of a face under the scaling `x ↦ s x`: unit normal unchanged, offset × s -/
def Face.scale (s : ℝ) (f : Face ℝ) : Face ℝ := ⟨f.verts.map (V3.smul s), f.normal, s * f.off⟩

theorem faceTerm_scale (qv : V3 ℝ) (f : Face ℝ)
    (hwin : isCloseZero (V3.dot (project (V3.sdiv f.normal (V3.norm f.normal)) qv)
                (project (V3.sdiv f.normal (V3.norm f.normal)) qv) / s ^ 2)
              = isCloseZero (V3.dot (project (V3.sdiv f.normal (V3.norm f.normal)) qv)
                (project (V3.sdiv f.normal (V3.norm f.normal)) qv))) :
    faceTerm (V3.smul (1 / s) qv) (V3.dot qv qv / s ^ 2) (Face.scale s f)
      = Cx.smul (s ^ 3) (faceTerm qv (V3.dot qv qv) f) := by
  unfold faceTerm Face.scale
  simp only [polygonFF_scale hs f.verts _ qv (lit 1) hwin]
  have h1 : V3.dot (V3.smul (1 / s) qv) f.normal = V3.dot qv f.normal / s := by
    unfold V3.dot; simp only [V3.smul_x, V3.smul_y, V3.smul_z]; field_simp
  have h2 : V3.dot qv f.normal / s * -(s * f.off) = V3.dot qv f.normal * -f.off := by field_simp
  rw [h1, h2]
  have hs' := hs.ne'
  by_cases hq : V3.dot qv qv = 0
  · rw [hq]; ext <;> simp
  · ext <;> simp <;> field_simp

/-- **`F_{sP}(q/s) = s³ F_P(q)` for a polyhedron** (volume × s³), provided `|q|²` and every face's in-plane `|q∥|²`
stay on their side of the absolute switch when divided by `s²` -/
theorem polyhedronFF_scale (faces : List (Face ℝ)) (vol : ℝ) (qv : V3 ℝ) (rho : ℝ)
    (hwin : isCloseZero (V3.dot qv qv / s ^ 2) = isCloseZero (V3.dot qv qv))
    (hf : ∀ f ∈ faces, isCloseZero (V3.dot (project (V3.sdiv f.normal (V3.norm f.normal)) qv)
                (project (V3.sdiv f.normal (V3.norm f.normal)) qv) / s ^ 2)
              = isCloseZero (V3.dot (project (V3.sdiv f.normal (V3.norm f.normal)) qv)
                (project (V3.sdiv f.normal (V3.norm f.normal)) qv))) :
    polyhedronFF (faces.map (Face.scale s)) (s ^ 3 * vol) (V3.smul (1 / s) qv) rho
      = Cx.smul (s ^ 3) (polyhedronFF faces vol qv rho) := by
  unfold polyhedronFF polyhedronNonzero
  simp only [dot_scale hs, hwin, List.map_map]
  have : List.map (faceTerm (V3.smul (1 / s) qv) (V3.dot qv qv / s ^ 2) ∘ Face.scale s) faces
      = List.map (fun f => Cx.smul (s ^ 3) (faceTerm qv (V3.dot qv qv) f)) faces := by
    apply List.map_congr_left
    intro f hfm
    exact faceTerm_scale hs qv f (hf f hfm)
  rw [this, Cx.sum_map_smul]
  split_ifs
  · ext <;> simp <;> ring
  · ext <;> simp <;> ring

/-- **sphere**: `F_{s·ball}(q/s) = s³ F_ball(q)` under the same window condition -/
theorem sphereFF_scale (r : ℝ) (c qv : V3 ℝ) (rho : ℝ)
    (hwin : isCloseZero (V3.dot qv qv / s ^ 2) = isCloseZero (V3.dot qv qv)) :
    sphereFF (s * r) (V3.smul s c) (V3.smul (1 / s) qv) rho = Cx.smul (s ^ 3) (sphereFF r c qv rho) := by
  unfold sphereFF
  have hph : V3.dot (V3.smul (1 / s) qv) (V3.smul s c) = V3.dot qv c := by
    rw [V3.dot_smul]; field_simp
  simp only [dot_scale hs, hwin, hph]
  have hsq : Real.sqrt (V3.dot qv qv / s ^ 2) * (s * r) = Real.sqrt (V3.dot qv qv) * r := by
    rw [Real.sqrt_div' _ (pow_pos hs 2).le, Real.sqrt_sq hs.le]; field_simp
  split_ifs with h
  · unfold sphereVolume
    ext <;> simp <;> ring
  · simp only [Scalar.sqrt_real, hsq]
    have hs' := hs.ne'
    by_cases hq : V3.dot qv qv = 0
    · rw [hq]; ext <;> simp
    · ext <;> simp <;> field_simp

/-- **the absolute window breaks scale covariance for EVERY sphere**: `q` outside the window, `q / s` inside
it (and not exactly zero): the scaled sphere answers with its full volume, strictly more than `s³ F(q)`. -/
theorem sphereFF_scale_window_fails (r : ℝ) (qv : V3 ℝ) (hr : 0 < r)
    (hout : isCloseZero (V3.dot qv qv) = false) (hin : isCloseZero (V3.dot qv qv / s ^ 2) = true) :
    ¬ (sphereFF (s * r) (V3.smul s ⟨0, 0, 0⟩) (V3.smul (1 / s) qv) 1
        = Cx.smul (s ^ 3) (sphereFF r ⟨0, 0, 0⟩ qv 1)) := by
  intro h
  have hre := congrArg Cx.re h
  have hq0 : V3.dot qv qv ≠ 0 := by
    intro h0; rw [h0] at hout
    rw [show isCloseZero (0:ℝ) = true from by rw [isCloseZero_iff]; simp] at hout
    cases hout
  have hqpos : 0 < V3.dot qv qv := by
    have : 0 ≤ V3.dot qv qv := by unfold V3.dot; nlinarith [mul_self_nonneg qv.x, mul_self_nonneg qv.y, mul_self_nonneg qv.z]
    exact lt_of_le_of_ne this (Ne.symm hq0)
  unfold sphereFF at hre
  simp only [dot_scale hs, hin, hout, if_true, Bool.false_eq_true, if_false] at hre
  have e0 : ∀ u : V3 ℝ, V3.dot u (V3.smul s ⟨0, 0, 0⟩) = 0 := by intro u; unfold V3.dot; simp
  have e1 : ∀ u : V3 ℝ, V3.dot u (⟨0, 0, 0⟩ : V3 ℝ) = 0 := by intro u; unfold V3.dot; simp
  simp only [e0, e1, Cx.mul_re, Cx.smul_re, Cx.smul_im, Cx.ofReal_re, Cx.ofReal_im, Cx.expNegI_re, Cx.expNegI_im,
    Real.cos_zero, Real.sin_zero, neg_zero, mul_zero, mul_one, sub_zero, one_mul, Scalar.lit, Scalar.ofNat_real,
    Scalar.pi_real, Scalar.cos_real, Scalar.sqrt_real, Nat.cast_ofNat] at hre
  rw [sphere_amp_eq r _ hr.ne' hqpos] at hre
  have hlt := ballAmp_lt_volume r (Real.sqrt (V3.dot qv qv)) hr (Real.sqrt_pos.mpr hqpos).ne'
  unfold ballAmp at hlt
  unfold sphereVolume at hre
  simp only [Scalar.q, Scalar.pi_real, Scalar.ofNat_real, Nat.cast_ofNat] at hre
  have h3 : 0 < s ^ 3 := pow_pos hs 3
  have : (4:ℝ) / 3 * Real.pi * (s * r * (s * r) * (s * r)) = s ^ 3 * (4 / 3 * Real.pi * (r * r * r)) := by ring
  rw [this] at hre
  have := mul_lt_mul_of_pos_left hlt h3
  linarith

end scale

/-- witness inside the property's range: unit sphere, `|q| = 0.05`, scale `1000` -/
theorem sphereFF_scale_fails :
    ¬ (sphereFF ((1000:ℝ) * 1) (V3.smul 1000 ⟨0, 0, 0⟩) (V3.smul (1 / 1000) ⟨3 / 100, 4 / 100, 0⟩) 1
        = Cx.smul (1000 ^ 3) (sphereFF 1 ⟨0, 0, 0⟩ ⟨3 / 100, 4 / 100, 0⟩ 1)) := by
  apply sphereFF_scale_window_fails (by norm_num) 1 _ one_pos
  · rw [Bool.eq_false_iff]; intro h
    rw [isCloseZero_iff] at h
    simp only [V3.dot] at h
    rw [abs_of_nonneg (by norm_num)] at h
    norm_num at h
  · rw [isCloseZero_iff]
    simp only [V3.dot]
    rw [abs_of_nonneg (by norm_num)]
    norm_num

end FF

end
