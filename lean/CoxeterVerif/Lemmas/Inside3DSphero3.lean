import CoxeterVerif.Lemmas.Inside3DSphero2
/-!
  C05: spheropolyhedron with an exactly described convex core — completeness
  (`sphero_complete`: within `r` of the core ⇒ accepted by the model of `is_inside`).

  No nearest-point projection is needed: from any core point `q` with `|p − q| ≤ r` walk towards `p`;
  the segment leaves the core at `x` on a face `k` that `p` sees, so `0 < d_k(p) ≤ |p − x| ≤ r` (the
  code examines face `k`).  If the foot `p'` of `p` on the plane of `k` is in the face polygon, `p` is
  in the extruded prism; otherwise walk from `x` towards `p'` inside the plane: the path leaves the
  core at `y` on a second plane `j`, i.e. on an edge (or vertex) of face `k`, and
  `|p − y|² = d² + |p' − y|² ≤ d² + |p' − x|² = |p − x|² ≤ r²`, so the cylinder of that edge or the cap
  of one of its ends accepts `p`.
-/
open Scalar
set_option maxRecDepth 4000
noncomputable section

namespace Inside3D
open Spec.In3D CCk

/-- the data of one face of the core, in the order of `_equations` / `faces` / `extruded_faces` -/
structure FaceData where
  plane : Plane ℝ
  prism : List (Plane ℝ)
  pts : List (V3 ℝ)

/-- exact description of a spheropolyhedron (exact arithmetic, exact unit normals) -/
def SpheroExact (V : List (V3 ℝ)) (r : ℝ) (Fs : List FaceData) : Prop :=
  0 ≤ r ∧ ExactFacets (Fs.map (·.plane)) V ∧
  (∀ f ∈ Fs, V3.normSq f.plane.n = 1 ∧ (∀ v ∈ f.pts, v ∈ V ∧ CP.planeDist f.plane v = 0) ∧
     (∀ v ∈ V, CP.planeDist f.plane v = 0 → v ∈ f.pts) ∧
     (0 < r → ExactFacets f.prism (Sphero.prismVertices r f.plane.n f.pts))) ∧
  (∀ f ∈ Fs, ∀ g ∈ Fs, f.plane ≠ g.plane → ∃ se ∈ f.pts.zip (roll f.pts), ∀ v ∈ V,
      CP.planeDist f.plane v = 0 → CP.planeDist g.plane v = 0 → v = se.1 ∨ v = se.2)

theorem zip3_map {α β γ δ : Type} (f : α → β) (g : α → γ) (h : α → δ) (l : List α) :
    (l.map f).zip ((l.map g).zip (l.map h)) = l.map fun x => (f x, g x, h x) := by
  induction l with
  | nil => rfl
  | cons a l ih => simp only [List.map_cons, List.zip_cons_cons, ih]

/-- the single-point model in terms of the face list -/
theorem isInside1_faces (r : ℝ) (Fs : List FaceData) (p : V3 ℝ) :
    Sphero.isInside1 r (Fs.map (·.plane)) (Fs.map (·.pts)) (Fs.map (·.prism)) p =
      (CP.isInside1 (Fs.map (·.plane)) p ||
        Fs.any fun f => Sphero.toCheck r (CP.planeDist f.plane p) && Sphero.checkFace r f.prism f.pts p) := by
  unfold Sphero.isInside1 CP.planeDists
  rw [List.map_map, List.map_map]
  have := zip3_map (fun f : FaceData => Sphero.toCheck r (CP.planeDist f.plane p)) (·.prism) (·.pts) Fs
  simp only [Function.comp_def] at this ⊢
  rw [this, List.any_map]
  rfl

theorem checkFace_prism (r : ℝ) (prism : List (Plane ℝ)) (fp : List (V3 ℝ)) (p : V3 ℝ)
    (h : CP.isInside1 prism p = true) : Sphero.checkFace r prism fp p = true := by
  unfold Sphero.checkFace; rw [if_pos h]

theorem checkFace_cylinder (r : ℝ) (prism : List (Plane ℝ)) (fp : List (V3 ℝ)) (p s e : V3 ℝ)
    (hse : (s, e) ∈ fp.zip (roll fp)) (h : Sphero.inCylinder r p s e = true) :
    Sphero.checkFace r prism fp p = true := by
  have hany : ((fp.zip (roll fp)).any fun se => Sphero.inCylinder r p se.1 se.2) = true := by
    rw [List.any_eq_true]; exact ⟨(s, e), hse, h⟩
  unfold Sphero.checkFace
  by_cases h1 : CP.isInside1 prism p = true
  · rw [if_pos h1]
  · rw [if_neg h1]; simp only [hany, if_true]

theorem checkFace_cap (r : ℝ) (prism : List (Plane ℝ)) (fp : List (V3 ℝ)) (p s : V3 ℝ)
    (hs : s ∈ fp) (h : Sphero.inCap r p s = true) : Sphero.checkFace r prism fp p = true := by
  have hany : (fp.any fun s => Sphero.inCap r p s) = true := by
    rw [List.any_eq_true]; exact ⟨s, hs, h⟩
  unfold Sphero.checkFace
  by_cases h1 : CP.isInside1 prism p = true
  · rw [if_pos h1]
  · rw [if_neg h1]
    by_cases h2 : ((fp.zip (roll fp)).any fun se => Sphero.inCylinder r p se.1 se.2) = true
    · simp only [h2, if_true]
    · simp only [h2, hany]; rfl

/-! ### small metric facts -/

theorem planeDist_add_smul (e : Plane ℝ) (p : V3 ℝ) (t : ℝ) :
    CP.planeDist e (p + V3.smul t e.n) = CP.planeDist e p + t * V3.normSq e.n := by
  simp only [CP.planeDist, V3.dot, V3.normSq, V3.add_x, V3.add_y, V3.add_z, V3.smul_x, V3.smul_y, V3.smul_z]; ring

theorem planeDist_sub_eq_dot (e : Plane ℝ) (p x : V3 ℝ) :
    CP.planeDist e p - CP.planeDist e x = V3.dot e.n (p - x) := by
  simp only [CP.planeDist, V3.dot, V3.sub_x, V3.sub_y, V3.sub_z]; ring

theorem cauchy_schwarz (n u : V3 ℝ) : V3.dot n u * V3.dot n u ≤ V3.normSq n * V3.normSq u := by
  have : V3.normSq n * V3.normSq u - V3.dot n u * V3.dot n u = V3.normSq (V3.cross n u) := by
    simp only [V3.normSq, V3.dot, V3.cross]; ring
  have h := normSq_nonneg (V3.cross n u)
  linarith

theorem distSq_lerp (p q : V3 ℝ) (τ : ℝ) :
    distSq p (q + V3.smul τ (p - q)) = (1 - τ) * (1 - τ) * distSq p q := by
  obtain ⟨px, py, pz⟩ := p; obtain ⟨qx, qy, qz⟩ := q
  simp only [distSq, V3.normSq, V3.dot, V3.sub_x, V3.sub_y, V3.sub_z, V3.add_x, V3.add_y, V3.add_z, V3.smul_x,
    V3.smul_y, V3.smul_z]; ring

/-- Pythagoras: `p = p' + d n`, `|n| = 1`, `z` with `n·(p' − z) = 0` -/
theorem distSq_pyth (n p' z : V3 ℝ) (d : ℝ) (hn : V3.normSq n = 1) (hperp : V3.dot n (p' - z) = 0) :
    distSq (p' + V3.smul d n) z = d * d + distSq p' z := by
  have : distSq (p' + V3.smul d n) z = d * d * V3.normSq n + 2 * d * V3.dot n (p' - z) + distSq p' z := by
    obtain ⟨nx, ny, nz⟩ := n; obtain ⟨px, py, pz⟩ := p'; obtain ⟨zx, zy, zz⟩ := z
    simp only [distSq, V3.normSq, V3.dot, V3.sub_x, V3.sub_y, V3.sub_z, V3.add_x, V3.add_y, V3.add_z, V3.smul_x,
      V3.smul_y, V3.smul_z]; ring
  rw [this, hn, hperp]; ring

/-! ### completeness -/

/-- **C05 (spheropolyhedron, completeness).**  Every point within `r` of the core is accepted. -/
theorem sphero_complete {V : List (V3 ℝ)} {r : ℝ} {Fs : List FaceData} (hS : SpheroExact V r Fs)
    (p : V3 ℝ) (h : MemSphero V r p) :
    Sphero.isInside1 r (Fs.map (·.plane)) (Fs.map (·.pts)) (Fs.map (·.prism)) p = true := by
  obtain ⟨hr, hEx, hF, hE⟩ := hS
  obtain ⟨q, hqV, hdist⟩ := h
  set eqs := Fs.map (·.plane) with heqs
  rw [isInside1_faces, Bool.or_eq_true]
  by_cases hin : CP.isInside1 eqs p = true
  · exact Or.inl hin
  right
  have hcontract := hEx.1
  -- p sees some plane
  have hsee : ∃ e ∈ eqs, 0 < CP.planeDist e p := by
    by_contra hno
    push Not at hno
    exact hin ((isInside1_iff eqs p).mpr hno)
  have hq := accepts_of_memHull eqs V q hcontract hqV
  obtain ⟨τ, hτ0, hτ1, hxall, k, hk, hkx, hkp⟩ := exit_point eqs q p hq hsee
  set x := q + V3.smul τ (p - q) with hx
  obtain ⟨f, hf, rfl⟩ := List.mem_map.mp hk
  obtain ⟨hn, hpts, hptsall, hprism⟩ := hF f hf
  have hxV : MemHull V x := (cp_inside_iff_hull_exact hEx x).mp ((isInside1_iff eqs x).mpr hxall)
  have hxF : MemHull f.pts x := memHull_on_plane (CP.planeDist f.plane) (planeDist_affine f.plane) V f.pts
    (hcontract f.plane hk) hptsall x hxV hkx
  set d := CP.planeDist f.plane p with hd
  -- |p − x| ≤ |p − q| ≤ r and d ≤ |p − x|
  have hpx : distSq p x ≤ r * r := by
    rw [hx, distSq_lerp]
    have h1 : (1 - τ) * (1 - τ) ≤ 1 := by nlinarith
    have h2 : 0 ≤ distSq p q := normSq_nonneg _
    nlinarith
  have hdd : d * d ≤ distSq p x := by
    have e1 : d = V3.dot f.plane.n (p - x) := by
      have := planeDist_sub_eq_dot f.plane p x; rw [hkx] at this; linarith
    have := cauchy_schwarz f.plane.n (p - x)
    rw [hn, one_mul] at this
    rw [e1]; exact this
  have hdr : d ≤ r := by
    by_contra hgt
    have : r < d := not_le.mp hgt
    nlinarith
  have hrpos : 0 < r := lt_of_lt_of_le hkp hdr
  have hcand : Sphero.toCheck r d = true := by
    unfold Sphero.toCheck
    simp only [Bool.and_eq_true, decide_eq_true_iff, Bool.not_eq_true', decide_eq_false_iff_not, not_le,
      Scalar.lit, Scalar.ofNat_real, Nat.cast_zero]
    exact ⟨hdr, hkp⟩
  rw [List.any_eq_true]
  refine ⟨f, hf, ?_⟩
  rw [Bool.and_eq_true]
  refine ⟨hcand, ?_⟩
  -- the foot of p on the plane of the face
  set p' := p + V3.smul (-d) f.plane.n with hp'
  have hp'0 : CP.planeDist f.plane p' = 0 := by
    rw [hp', planeDist_add_smul, hn]; ring
  have hpp : p = p' + V3.smul d f.plane.n := by
    rw [hp']; obtain ⟨px, py, pz⟩ := p; ext <;> simp
  by_cases hfoot : MemHull f.pts p'
  · -- prism branch
    apply checkFace_prism
    have hmem := memHull_prism_of_foot r hrpos f.plane.n f.pts p' hfoot d (by linarith) hdr
    rw [← hpp] at hmem
    exact (cp_inside_iff_hull_exact (hprism hrpos) p).mpr hmem
  · -- the foot is outside the face polygon, hence outside the core
    have hsee' : ∃ e ∈ eqs, 0 < CP.planeDist e p' := by
      by_contra hno
      push Not at hno
      have hV' : MemHull V p' := (cp_inside_iff_hull_exact hEx p').mp ((isInside1_iff eqs p').mpr hno)
      exact hfoot (memHull_on_plane (CP.planeDist f.plane) (planeDist_affine f.plane) V f.pts
        (hcontract f.plane hk) hptsall p' hV' hp'0)
    obtain ⟨σ, hσ0, hσ1, hyall, j, hj, hjy, hjp⟩ := exit_point eqs x p' hxall hsee'
    set y := x + V3.smul σ (p' - x) with hy
    obtain ⟨g, hg, rfl⟩ := List.mem_map.mp hj
    have hky : CP.planeDist f.plane y = 0 := by
      rw [hy, planeDist_lerp, hkx, hp'0]; ring
    have hne : f.plane ≠ g.plane := by
      intro he; rw [← he, hp'0] at hjp; exact lt_irrefl _ hjp
    obtain ⟨⟨s, e⟩, hse, hcommon⟩ := hE f hf g hg hne
    have hyV : MemHull V y := (cp_inside_iff_hull_exact hEx y).mp ((isInside1_iff eqs y).mpr hyall)
    have hyse : MemHull [s, e] y := by
      apply memHull_on_plane (fun v => CP.planeDist f.plane v + CP.planeDist g.plane v) _ V [s, e] _ _ y hyV
        (by show CP.planeDist f.plane y + CP.planeDist g.plane y = 0; rw [hky, hjy]; ring)
      · intro ws V' hlen hs
        show CP.planeDist f.plane (comb ws V') + CP.planeDist g.plane (comb ws V') =
          (List.zipWith (fun w v => w * (CP.planeDist f.plane v + CP.planeDist g.plane v)) ws V').sum
        rw [planeDist_affine f.plane ws V' hlen hs, planeDist_affine g.plane ws V' hlen hs,
          ← sum_zipWith_add_fun]
      · intro v hv
        have := hcontract f.plane hk v hv; have := hcontract g.plane hj v hv; linarith
      · intro v hv hz
        have h1 := hcontract f.plane hk v hv; have h2 := hcontract g.plane hj v hv
        have z1 : CP.planeDist f.plane v = 0 := by linarith
        have z2 : CP.planeDist g.plane v = 0 := by linarith
        rcases hcommon v hv z1 z2 with rfl | rfl <;> simp
    obtain ⟨lam, hl0, hl1, hylam⟩ := memHull_pair (s := s) (e := e)
      (by intro v hv; simpa using hv) hyse
    -- |p − y| ≤ |p − x|
    have hperpx : V3.dot f.plane.n (p' - x) = 0 := by
      rw [← planeDist_sub_eq_dot, hp'0, hkx]; ring
    have hperpy : V3.dot f.plane.n (p' - y) = 0 := by
      rw [← planeDist_sub_eq_dot, hp'0, hky]; ring
    have e1 : distSq p x = d * d + distSq p' x := by rw [hpp]; exact distSq_pyth _ _ _ _ hn hperpx
    have e2 : distSq p y = d * d + distSq p' y := by rw [hpp]; exact distSq_pyth _ _ _ _ hn hperpy
    have e3 : distSq p' y = (1 - σ) * (1 - σ) * distSq p' x := by rw [hy]; exact distSq_lerp p' x σ
    have hpy : distSq p y ≤ r * r := by
      have h1 : (1 - σ) * (1 - σ) ≤ 1 := by nlinarith
      have h2 : 0 ≤ distSq p' x := normSq_nonneg _
      nlinarith
    rw [hylam] at hpy
    have hs_mem : s ∈ f.pts := (List.of_mem_zip hse).1
    have he_mem : e ∈ f.pts := mem_roll (List.of_mem_zip hse).2
    rcases cyl_or_cap r hr p s e lam hl0 hl1 hpy with hc | hc | hc
    · exact checkFace_cylinder r f.prism f.pts p s e hse hc
    · exact checkFace_cap r f.prism f.pts p s hs_mem hc
    · exact checkFace_cap r f.prism f.pts p e he_mem hc

end Inside3D
end
