import CoxeterVerif.Lemmas.PlanarFrame
import Mathlib.MeasureTheory.Integral.IntervalIntegral.FundThmCalculus
import Mathlib.Analysis.Calculus.Deriv.Pow
import Mathlib.Analysis.Calculus.Deriv.Mul
import Mathlib.Analysis.Calculus.Deriv.Add
/-!
  The triangle closed forms of `Spec/Planar.lean` (`Spec2.triArea/triFirst/triSecond`) and of
  `Spec/Planar3.lean` (`Spec3.triArea/triFirst/triPolar`) are no longer trusted: they are proved here, from
  Mathlib's fundamental theorem of calculus only, to be ITERATED INTEGRALS.

  Parametrise the triangle `a b c` by `r(s,u) = a + s (b − a) + u (c − a)`, `0 ≤ s`, `0 ≤ u`, `s + u ≤ 1`
  (the same parametrisation as `Lemmas/FormFactorTriangle.lean` uses for the Fourier integral).  The
  affine map `(s,u) ↦ r(s,u)` has the constant Jacobian determinant `J = n · ((b−a) × (c−a))` w.r.t. an
  orthonormal in-plane frame that is right-handed about `n` (`= 2·Spec3.triArea n t`; for the xy-plane,
  `n = ẑ`, `J = (b−a)×(c−a) = 2·Spec2.triArea t`), so the integral of `f` over the triangle, SIGNED by
  its orientation about `n`, is

      triIntegral J f t := J · ∫ s in 0..1, ∫ u in 0..(1 − s), f (r(s,u)).

  `stdTri_quadratic` evaluates the iterated integral for every polynomial of degree ≤ 2 in `(s,u)`
  (two applications of the fundamental theorem of calculus); the closed forms follow by `ring`.
-/
open Scalar
noncomputable section
namespace TriInt

/-- iterated integral over the standard triangle `0 ≤ s`, `0 ≤ u`, `s + u ≤ 1` -/
def stdTri (g : ℝ → ℝ → ℝ) : ℝ := ∫ s in (0:ℝ)..1, ∫ u in (0:ℝ)..(1 - s), g s u

/-- FTC for a cubic: `∫_a^b (c0 + c1 x + c2 x² + c3 x³) dx` -/
theorem integral_cubic (c0 c1 c2 c3 a b : ℝ) :
    ∫ x in a..b, (c0 + c1 * x + c2 * x ^ 2 + c3 * x ^ 3) =
      (c0 * b + c1 * b ^ 2 / 2 + c2 * b ^ 3 / 3 + c3 * b ^ 4 / 4)
        - (c0 * a + c1 * a ^ 2 / 2 + c2 * a ^ 3 / 3 + c3 * a ^ 4 / 4) := by
  have hd : ∀ x ∈ Set.uIcc a b, HasDerivAt
      (fun x : ℝ => c0 * x + c1 * x ^ 2 / 2 + c2 * x ^ 3 / 3 + c3 * x ^ 4 / 4)
      (c0 + c1 * x + c2 * x ^ 2 + c3 * x ^ 3) x := by
    intro x _
    have h1 : HasDerivAt (fun x : ℝ => c0 * x) c0 x := by
      simpa using (hasDerivAt_id x).const_mul c0
    have h2 : HasDerivAt (fun x : ℝ => c1 * x ^ 2 / 2) (c1 * x) x := by
      have := ((hasDerivAt_pow 2 x).const_mul c1).div_const 2
      refine this.congr_deriv ?_
      simp only [Nat.cast_ofNat, Nat.add_one_sub_one, pow_one]; ring
    have h3 : HasDerivAt (fun x : ℝ => c2 * x ^ 3 / 3) (c2 * x ^ 2) x := by
      have := ((hasDerivAt_pow 3 x).const_mul c2).div_const 3
      refine this.congr_deriv ?_
      simp only [Nat.cast_ofNat, Nat.add_one_sub_one]; ring
    have h4 : HasDerivAt (fun x : ℝ => c3 * x ^ 4 / 4) (c3 * x ^ 3) x := by
      have := ((hasDerivAt_pow 4 x).const_mul c3).div_const 4
      refine this.congr_deriv ?_
      simp only [Nat.cast_ofNat, Nat.add_one_sub_one]; ring
    exact ((h1.add h2).add h3).add h4
  rw [intervalIntegral.integral_eq_sub_of_hasDerivAt hd
    ((by fun_prop : Continuous fun x : ℝ => c0 + c1 * x + c2 * x ^ 2 + c3 * x ^ 3).intervalIntegrable _ _)]

/-- **every polynomial of degree ≤ 2 over the standard triangle**:
`∫₀¹∫₀^{1−s} (k0 + k1 s + k2 u + k3 s² + k4 s u + k5 u²) du ds = k0/2 + k1/6 + k2/6 + k3/12 + k4/24 + k5/12` -/
theorem stdTri_quadratic (k0 k1 k2 k3 k4 k5 : ℝ) :
    stdTri (fun s u => k0 + k1 * s + k2 * u + k3 * s ^ 2 + k4 * (s * u) + k5 * u ^ 2) =
      k0 / 2 + k1 / 6 + k2 / 6 + k3 / 12 + k4 / 24 + k5 / 12 := by
  unfold stdTri
  have inner : ∀ s : ℝ, (∫ u in (0:ℝ)..(1 - s),
      (k0 + k1 * s + k2 * u + k3 * s ^ 2 + k4 * (s * u) + k5 * u ^ 2)) =
      (k0 + k2 / 2 + k5 / 3) + (k1 - k0 - k2 + k4 / 2 - k5) * s
        + (k3 - k1 + k2 / 2 - k4 + k5) * s ^ 2 + (k4 / 2 - k3 - k5 / 3) * s ^ 3 := by
    intro s
    have e : (fun u : ℝ => k0 + k1 * s + k2 * u + k3 * s ^ 2 + k4 * (s * u) + k5 * u ^ 2) =
        fun u : ℝ => (k0 + k1 * s + k3 * s ^ 2) + (k2 + k4 * s) * u + k5 * u ^ 2 + 0 * u ^ 3 := by
      funext u; ring
    rw [e, integral_cubic]; ring
  simp_rw [inner]
  rw [integral_cubic]; ring

/-- bilinear integrands: `∫∫ (a0 + s a1 + u a2)(b0 + s b1 + u b2)` -/
theorem stdTri_bilinear (a0 a1 a2 b0 b1 b2 : ℝ) :
    stdTri (fun s u => (a0 + s * a1 + u * a2) * (b0 + s * b1 + u * b2)) =
      a0 * b0 / 2 + (a0 * b1 + a1 * b0) / 6 + (a0 * b2 + a2 * b0) / 6 + a1 * b1 / 12
        + (a1 * b2 + a2 * b1) / 24 + a2 * b2 / 12 := by
  have e : (fun s u : ℝ => (a0 + s * a1 + u * a2) * (b0 + s * b1 + u * b2)) =
      fun s u : ℝ => a0 * b0 + (a0 * b1 + a1 * b0) * s + (a0 * b2 + a2 * b0) * u + (a1 * b1) * s ^ 2
        + (a1 * b2 + a2 * b1) * (s * u) + (a2 * b2) * u ^ 2 := by
    funext s u; ring
  rw [e, stdTri_quadratic]

/-- the point `r(s,u) = a + s (b − a) + u (c − a)` of the triangle `t = (a, b, c)` -/
def pt (t : Tri ℝ) (s u : ℝ) : V3 ℝ :=
  ⟨t.a.x + s * (t.b.x - t.a.x) + u * (t.c.x - t.a.x),
   t.a.y + s * (t.b.y - t.a.y) + u * (t.c.y - t.a.y),
   t.a.z + s * (t.b.z - t.a.z) + u * (t.c.z - t.a.z)⟩

theorem pt_get (t : Tri ℝ) (s u : ℝ) (i : Nat) :
    (pt t s u).get i = t.a.get i + s * (t.b.get i - t.a.get i) + u * (t.c.get i - t.a.get i) := by
  unfold V3.get pt
  split_ifs <;> rfl

/-- the corners: `r(0,0) = a`, `r(1,0) = b`, `r(0,1) = c` -/
theorem pt_corners (t : Tri ℝ) : pt t 0 0 = t.a ∧ pt t 1 0 = t.b ∧ pt t 0 1 = t.c := by
  refine ⟨?_, ?_, ?_⟩ <;> ext <;> simp [pt]

/-- **the integral of `f` over the triangle `t`, pushed forward from the standard triangle**:
`J · ∫₀¹∫₀^{1−s} f(r(s,u)) du ds` with `J` the (signed) Jacobian determinant of `(s,u) ↦ r(s,u)` -/
def triIntegral (J : ℝ) (f : V3 ℝ → ℝ) (t : Tri ℝ) : ℝ := J * stdTri (fun s u => f (pt t s u))

/-- Jacobian determinant of `(s,u) ↦ (r.x, r.y)` : the 2×2 determinant of the edge vectors -/
def jac2 (t : Tri ℝ) : ℝ := (t.b.x - t.a.x) * (t.c.y - t.a.y) - (t.c.x - t.a.x) * (t.b.y - t.a.y)

/-- Jacobian determinant of `(s,u) ↦` in-plane coordinates right-handed about `n` : `n · ((b−a) × (c−a))` -/
def jac3 (n : V3 ℝ) (t : Tri ℝ) : ℝ := V3.dot n (V3.cross (t.b - t.a) (t.c - t.a))

theorem jac2_eq (t : Tri ℝ) : jac2 t = 2 * Spec2.triArea t := by
  simp only [jac2, Spec2.triArea, Scalar.lit, Scalar.ofNat_real]; push_cast; ring

theorem jac3_eq (n : V3 ℝ) (t : Tri ℝ) : jac3 n t = 2 * Spec3.triArea n t := by
  simp only [jac3, Spec3.triArea, Scalar.lit, Scalar.ofNat_real]; push_cast; ring

/-- for ANY frame `R` of `n` (orthonormal, right-handed, third row `n`) the 2×2 Jacobian determinant of
`(s,u) ↦ ((R r).x, (R r).y)` is `n · ((b−a) × (c−a))` : `jac3` does not depend on the in-plane frame -/
theorem jac2_frame {R : M3 ℝ} {n : V3 ℝ} (h : IsFrame R n) (t : Tri ℝ) :
    jac2 (t.map (M3.mulVec R)) = jac3 n t := by
  rw [jac2_eq, jac3_eq, h.triArea_eq]

/-! ### the 2-D closed forms are iterated integrals -/

/-- `∫_T 1 dA` -/
theorem triArea_integral (t : Tri ℝ) : triIntegral (jac2 t) (fun _ => 1) t = Spec2.triArea t := by
  unfold triIntegral
  have := stdTri_quadratic 1 0 0 0 0 0
  simp only [zero_mul, add_zero, zero_div] at this
  rw [this, jac2_eq]; ring

/-- `∫_T x_i dA` -/
theorem triFirst_integral (t : Tri ℝ) (i : Nat) :
    triIntegral (jac2 t) (fun p => p.get i) t = Spec2.triFirst t i := by
  unfold triIntegral
  simp only [pt_get]
  have := stdTri_bilinear (t.a.get i) (t.b.get i - t.a.get i) (t.c.get i - t.a.get i) 1 0 0
  simp only [mul_zero, add_zero, mul_one, zero_div, zero_add] at this
  rw [this, jac2_eq]
  simp only [Spec2.triFirst, Scalar.lit, Scalar.ofNat_real]; push_cast; ring

/-- `∫_T x_i x_j dA` -/
theorem triSecond_integral (t : Tri ℝ) (i j : Nat) :
    triIntegral (jac2 t) (fun p => p.get i * p.get j) t = Spec2.triSecond t i j := by
  unfold triIntegral
  simp only [pt_get]
  rw [stdTri_bilinear, jac2_eq]
  simp only [Spec2.triSecond, Scalar.lit, Scalar.ofNat_real]; push_cast; ring

/-- `∫_T (x² + y²) dA` -/
theorem triPolar2_integral (t : Tri ℝ) :
    triIntegral (jac2 t) (fun p => p.x * p.x + p.y * p.y) t = Spec2.triSecond t 0 0 + Spec2.triSecond t 1 1 := by
  unfold triIntegral
  have e : (fun s u : ℝ => (pt t s u).x * (pt t s u).x + (pt t s u).y * (pt t s u).y) =
      fun s u : ℝ => (t.a.x ^ 2 + t.a.y ^ 2)
        + (2 * (t.a.x * (t.b.x - t.a.x) + t.a.y * (t.b.y - t.a.y))) * s
        + (2 * (t.a.x * (t.c.x - t.a.x) + t.a.y * (t.c.y - t.a.y))) * u
        + ((t.b.x - t.a.x) ^ 2 + (t.b.y - t.a.y) ^ 2) * s ^ 2
        + (2 * ((t.b.x - t.a.x) * (t.c.x - t.a.x) + (t.b.y - t.a.y) * (t.c.y - t.a.y))) * (s * u)
        + ((t.c.x - t.a.x) ^ 2 + (t.c.y - t.a.y) ^ 2) * u ^ 2 := by
    funext s u; simp only [pt]; ring
  rw [e, stdTri_quadratic, jac2_eq]
  simp only [Spec2.triSecond, V3.get_zero, V3.get_one, Scalar.lit, Scalar.ofNat_real]; push_cast; ring

/-! ### the 3-D closed forms (tilted planes) are iterated integrals -/

/-- `∫_T 1 dA`, signed about `n` -/
theorem triArea3_integral (n : V3 ℝ) (t : Tri ℝ) :
    triIntegral (jac3 n t) (fun _ => 1) t = Spec3.triArea n t := by
  unfold triIntegral
  have := stdTri_quadratic 1 0 0 0 0 0
  simp only [zero_mul, add_zero, zero_div] at this
  rw [this, jac3_eq]; ring

/-- `∫_T r_i dA` (each coordinate of the vector first moment) -/
theorem triFirst3_integral (n : V3 ℝ) (t : Tri ℝ) (i : Nat) :
    triIntegral (jac3 n t) (fun p => p.get i) t = (Spec3.triFirst n t).get i := by
  unfold triIntegral
  simp only [pt_get]
  have := stdTri_bilinear (t.a.get i) (t.b.get i - t.a.get i) (t.c.get i - t.a.get i) 1 0 0
  simp only [mul_zero, add_zero, mul_one, zero_div, zero_add] at this
  rw [this, jac3_eq]
  have hg : (Spec3.triFirst n t).get i = Spec3.triArea n t / 3 * (t.a.get i + t.b.get i + t.c.get i) := by
    unfold Spec3.triFirst V3.get
    split_ifs <;> simp [V3.smul, Scalar.lit]
  rw [hg]; ring

/-- `∫_T |r − p|² dA` -/
theorem triPolar3_integral (n p : V3 ℝ) (t : Tri ℝ) :
    triIntegral (jac3 n t) (fun r => V3.normSq (r - p)) t = Spec3.triPolar n p t := by
  unfold triIntegral
  have e : (fun s u : ℝ => V3.normSq (pt t s u - p)) =
      fun s u : ℝ => V3.normSq (t.a - p)
        + (2 * V3.dot (t.a - p) (t.b - t.a)) * s
        + (2 * V3.dot (t.a - p) (t.c - t.a)) * u
        + V3.normSq (t.b - t.a) * s ^ 2
        + (2 * V3.dot (t.b - t.a) (t.c - t.a)) * (s * u)
        + V3.normSq (t.c - t.a) * u ^ 2 := by
    funext s u
    simp only [pt, V3.normSq, V3.dot, V3.sub_x, V3.sub_y, V3.sub_z]; ring
  rw [e, stdTri_quadratic, jac3_eq]
  simp only [Spec3.triPolar, V3.normSq, V3.dot, V3.sub_x, V3.sub_y, V3.sub_z, V3.add_x, V3.add_y, V3.add_z,
    Scalar.lit, Scalar.ofNat_real]
  push_cast; ring

/-! ### regions = finite lists of triangles -/

/-- `∫ f dA` over the region presented by `Ts` (xy-projection; each triangle signed by its orientation) -/
def integral2 (f : V3 ℝ → ℝ) (Ts : List (Tri ℝ)) : ℝ := (Ts.map (fun t => triIntegral (jac2 t) f t)).sum

/-- `∫ f dA` over the region presented by `Ts` in a plane with normal `n` (signed about `n`) -/
def integral3 (n : V3 ℝ) (f : V3 ℝ → ℝ) (Ts : List (Tri ℝ)) : ℝ :=
  (Ts.map (fun t => triIntegral (jac3 n t) f t)).sum

theorem area_integral (Ts : List (Tri ℝ)) : Spec2.area Ts = integral2 (fun _ => 1) Ts := by
  simp only [Spec2.area, Scalar.sum_real, integral2, triArea_integral]

theorem first_integral (Ts : List (Tri ℝ)) (i : Nat) :
    Spec2.first Ts i = integral2 (fun p => p.get i) Ts := by
  simp only [Spec2.first, Scalar.sum_real, integral2, triFirst_integral]

theorem second_integral (Ts : List (Tri ℝ)) (i j : Nat) :
    Spec2.second Ts i j = integral2 (fun p => p.get i * p.get j) Ts := by
  simp only [Spec2.second, Scalar.sum_real, integral2, triSecond_integral]

theorem polar2_integral (Ts : List (Tri ℝ)) :
    Spec2.second Ts 0 0 + Spec2.second Ts 1 1 = integral2 (fun p => p.x * p.x + p.y * p.y) Ts := by
  simp only [Spec2.second, Scalar.sum_real, integral2, triPolar2_integral]
  induction Ts with
  | nil => simp
  | cons t Ts ih => simp only [List.map_cons, List.sum_cons]; rw [← ih]; ring

theorem area3_integral (n : V3 ℝ) (Ts : List (Tri ℝ)) : Spec3.area n Ts = integral3 n (fun _ => 1) Ts := by
  simp only [Spec3.area, Scalar.sum_real, integral3, triArea3_integral]

theorem first3_integral (n : V3 ℝ) (Ts : List (Tri ℝ)) (i : Nat) :
    (Spec3.first n Ts).get i = integral3 n (fun p => p.get i) Ts := by
  simp only [integral3, triFirst3_integral]
  induction Ts with
  | nil => unfold V3.get; simp [Spec3.first, V3.sum, V3.zero, Scalar.lit]
  | cons t Ts ih =>
    rw [Spec3.first_cons, List.map_cons, List.sum_cons, ← ih]
    unfold V3.get; split_ifs <;> rfl

theorem polar3_integral (n p : V3 ℝ) (Ts : List (Tri ℝ)) :
    Spec3.polarAbout n p Ts = integral3 n (fun r => V3.normSq (r - p)) Ts := by
  simp only [Spec3.polarAbout, Scalar.sum_real, integral3, triPolar3_integral]

/-- for a region all of whose triangles have orientation `s = ±1`, `s ·` (signed integral) is the
unsigned one: every triangle enters with `|J|` -/
theorem integral2_oriented {s : ℝ} (hs : s = 1 ∨ s = -1) (f : V3 ℝ → ℝ) {Ts : List (Tri ℝ)}
    (ho : ∀ t ∈ Ts, 0 < s * jac2 t) :
    s * integral2 f Ts = (Ts.map (fun t => triIntegral |jac2 t| f t)).sum := by
  unfold integral2
  rw [← list_sum_map_mul]
  congr 1
  apply List.map_congr_left
  intro t ht
  have := ho t ht
  unfold triIntegral
  rcases hs with rfl | rfl
  · rw [abs_of_pos (by linarith)]; ring
  · rw [abs_of_neg (by linarith)]; ring

theorem integral3_oriented {s : ℝ} (hs : s = 1 ∨ s = -1) (n : V3 ℝ) (f : V3 ℝ → ℝ) {Ts : List (Tri ℝ)}
    (ho : ∀ t ∈ Ts, 0 < s * jac3 n t) :
    s * integral3 n f Ts = (Ts.map (fun t => triIntegral |jac3 n t| f t)).sum := by
  unfold integral3
  rw [← list_sum_map_mul]
  congr 1
  apply List.map_congr_left
  intro t ht
  have := ho t ht
  unfold triIntegral
  rcases hs with rfl | rfl
  · rw [abs_of_pos (by linarith)]; ring
  · rw [abs_of_neg (by linarith)]; ring

/-! ### change of variables under a frame rotation -/

theorem pt_map_mulVec (R : M3 ℝ) (t : Tri ℝ) (s u : ℝ) :
    pt (t.map (M3.mulVec R)) s u = M3.mulVec R (pt t s u) := by
  ext <;> simp only [pt, Tri.map, M3.mulVec] <;> ring

theorem pt_map_sub (c : V3 ℝ) (t : Tri ℝ) (s u : ℝ) : pt (t.map (· - c)) s u = pt t s u - c := by
  ext <;> simp only [pt, Tri.map, V3.sub_x, V3.sub_y, V3.sub_z] <;> ring

/-- the integral over the rotated triangle (evaluated in the xy-plane of the frame `R`) is the integral over
the original triangle of `f ∘ R` -/
theorem triIntegral_frame {R : M3 ℝ} {n : V3 ℝ} (h : IsFrame R n) (f : V3 ℝ → ℝ) (t : Tri ℝ) :
    triIntegral (jac2 (t.map (M3.mulVec R))) f (t.map (M3.mulVec R))
      = triIntegral (jac3 n t) (fun r => f (M3.mulVec R r)) t := by
  unfold triIntegral
  rw [jac2_frame h]
  simp only [pt_map_mulVec]

theorem integral2_map_frame {R : M3 ℝ} {n : V3 ℝ} (h : IsFrame R n) (f : V3 ℝ → ℝ) (Ts : List (Tri ℝ)) :
    integral2 f (Ts.map (Tri.map (M3.mulVec R))) = integral3 n (fun r => f (M3.mulVec R r)) Ts := by
  unfold integral2 integral3
  rw [List.map_map]
  congr 1
  apply List.map_congr_left
  intro t _
  exact triIntegral_frame h f t

theorem sdiv_get (v : V3 ℝ) (k : ℝ) (i : Nat) : (V3.sdiv v k).get i = v.get i / k := by
  unfold V3.get; split_ifs <;> simp [V3.sdiv_x, V3.sdiv_y, V3.sdiv_z]

/-- each coordinate of the exact centroid is a ratio of iterated integrals -/
theorem centroid3_integral (n : V3 ℝ) (Ts : List (Tri ℝ)) (i : Nat) :
    (Spec3.centroid n Ts).get i = integral3 n (fun p => p.get i) Ts / integral3 n (fun _ => 1) Ts := by
  rw [Spec3.centroid, sdiv_get, first3_integral, area3_integral]

/-! ### perimeter = arc length of the piecewise-linear boundary -/

/-- the straight edge from `a` to `b`, parametrised over `[0, 1]` -/
def segPt (a b : V3 ℝ) (t : ℝ) : V3 ℝ :=
  ⟨a.x + t * (b.x - a.x), a.y + t * (b.y - a.y), a.z + t * (b.z - a.z)⟩

/-- arc length `∫₀¹ |γ'(t)| dt` of a curve in 3-space -/
def arcLength (γ : ℝ → V3 ℝ) : ℝ :=
  ∫ t in (0:ℝ)..1, Real.sqrt ((deriv (fun t => (γ t).x) t) ^ 2 + (deriv (fun t => (γ t).y) t) ^ 2
    + (deriv (fun t => (γ t).z) t) ^ 2)

theorem deriv_affine (p q t : ℝ) : deriv (fun t : ℝ => p + t * q) t = q := by
  have : HasDerivAt (fun t : ℝ => p + t * q) q t := by
    simpa using ((hasDerivAt_id t).mul_const q).const_add p
  exact this.deriv

theorem arcLength_seg (a b : V3 ℝ) : arcLength (segPt a b) = V3.norm (b - a) := by
  unfold arcLength segPt
  simp only [deriv_affine, intervalIntegral.integral_const, sub_zero, one_smul]
  simp only [V3.norm, V3.normSq, V3.dot, V3.sub_x, V3.sub_y, V3.sub_z, Scalar.sqrt_real]
  congr 1; ring

/-- **perimeter** = total arc length of the closed boundary polyline -/
theorem perimeter_arcLength (vs : List (V3 ℝ)) :
    Poly2.perimeter vs = ((cycleEdges vs).map (fun e => arcLength (segPt e.1 e.2))).sum := by
  unfold Poly2.perimeter cycleEdges
  simp only [Scalar.sum_real, arcLength_seg, List.map_zip_eq_zipWith]
  rfl

end TriInt
end
