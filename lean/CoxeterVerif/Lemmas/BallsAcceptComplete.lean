import CoxeterVerif.Lemmas.BallsAccept
import CoxeterVerif.Lemmas.BallsComplete
/-!
  C13 — the acceptance test `_is_minimal_bounding_ball` never rejects a correct answer (exact
  arithmetic), and the optimality of `scipy.optimize.nnls` as a checkable certificate.

  * `reindex_support`: a weighted support whose points lie in a list `bd` can be re-indexed onto `bd`
    (weights aligned with the list, zeros elsewhere) without changing `Σλ` and `Σλ(s − c)`;
  * `exists_zero_residual`: for THE minimal ball the nnls system has a feasible point with residual 0
    (`certificate_exists` re-indexed onto `onBoundary`);
  * `accept_complete`: with an nnls that returns a minimiser over `w ≥ 0` (`NnlsOptimal`) the test
    accepts the minimal ball — for all tolerances `≥ 0`, in particular `0, 0, 0` and the code's;
  * `kkt_bound`: approximate KKT conditions (`g_j ≥ −δ`, `Σ w_j g_j ≤ κ`, all exactly computable)
    bound the suboptimality: `f(w) ≤ f(w') + 2δ·Σw' + 2κ` for every `w' ≥ 0`.
-/
noncomputable section
namespace Balls
open BallSpec

/-! ### adding weight at a point of the list -/

open Classical in
/-- add `a` to the weight of the first entry of `bd` equal to `p` -/
def bump (a : ℝ) (p : V3 ℝ) : List ℝ → List (V3 ℝ) → List ℝ
  | w0 :: w, q :: bd => if q = p then (w0 + a) :: w else w0 :: bump a p w bd
  | w, _ => w

theorem bump_length (a : ℝ) (p : V3 ℝ) : ∀ (w : List ℝ) (bd : List (V3 ℝ)), (bump a p w bd).length = w.length
  | [], _ => by simp [bump]
  | _ :: _, [] => by simp [bump]
  | w0 :: w, q :: bd => by
    unfold bump
    split
    · simp
    · simp [bump_length a p w bd]

theorem bump_nonneg {a : ℝ} (ha : 0 ≤ a) (p : V3 ℝ) :
    ∀ (w : List ℝ) (bd : List (V3 ℝ)), (∀ x ∈ w, 0 ≤ x) → ∀ x ∈ bump a p w bd, 0 ≤ x
  | [], _, _ => by simp [bump]
  | _ :: _, [], h => by simpa [bump] using h
  | w0 :: w, q :: bd, h => by
    unfold bump
    have h0 := h w0 List.mem_cons_self
    have ht : ∀ x ∈ w, 0 ≤ x := fun x hx => h x (List.mem_cons_of_mem _ hx)
    split
    · intro x hx
      rcases List.mem_cons.mp hx with rfl | hx
      · linarith
      · exact ht x hx
    · intro x hx
      rcases List.mem_cons.mp hx with rfl | hx
      · exact h0
      · exact bump_nonneg ha p w bd ht x hx

/-- total weight of weights aligned with a point list -/
def zipWeight (w : List ℝ) (bd : List (V3 ℝ)) : ℝ := ((List.zip w bd).map fun s => s.1).sum

theorem bump_weight (a : ℝ) (p : V3 ℝ) :
    ∀ (w : List ℝ) (bd : List (V3 ℝ)), w.length = bd.length → p ∈ bd →
      zipWeight (bump a p w bd) bd = zipWeight w bd + a
  | [], [], _, hp => by cases hp
  | [], _ :: _, hl, _ => by simp at hl
  | _ :: _, [], hl, _ => by simp at hl
  | w0 :: w, q :: bd, hl, hp => by
    unfold bump
    split
    · simp only [zipWeight, List.zip_cons_cons, List.map_cons, List.sum_cons]; ring
    · next hne =>
      have hp' : p ∈ bd := by
        rcases List.mem_cons.mp hp with h | h
        · exact absurd h.symm hne
        · exact h
      have ih := bump_weight a p w bd (by simpa using hl) hp'
      simp only [zipWeight, List.zip_cons_cons, List.map_cons, List.sum_cons] at ih ⊢
      rw [ih]; ring

theorem gvec_cons (s : ℝ × V3 ℝ) (sup : List (ℝ × V3 ℝ)) (c : V3 ℝ) :
    gvec (s :: sup) c = V3.smul s.1 (s.2 - c) + gvec sup c := rfl

theorem bump_gvec (a : ℝ) (p c : V3 ℝ) :
    ∀ (w : List ℝ) (bd : List (V3 ℝ)), w.length = bd.length → p ∈ bd →
      gvec (List.zip (bump a p w bd) bd) c = gvec (List.zip w bd) c + V3.smul a (p - c)
  | [], [], _, hp => by cases hp
  | [], _ :: _, hl, _ => by simp at hl
  | _ :: _, [], hl, _ => by simp at hl
  | w0 :: w, q :: bd, hl, hp => by
    unfold bump
    split
    · next heq =>
      subst heq
      simp only [List.zip_cons_cons, gvec_cons]
      ext <;> simp <;> ring
    · next hne =>
      have hp' : p ∈ bd := by
        rcases List.mem_cons.mp hp with h | h
        · exact absurd h.symm hne
        · exact h
      have ih := bump_gvec a p c w bd (by simpa using hl) hp'
      simp only [List.zip_cons_cons, gvec_cons]
      rw [ih]
      ext <;> simp <;> ring

/-- **re-indexing**: a weighted support with points in `bd` and weights `≥ 0` can be written as weights
aligned with `bd`, with the same total weight and the same `Σλ(s − c)` -/
theorem reindex_support (bd : List (V3 ℝ)) (c : V3 ℝ) :
    ∀ (sup : List (ℝ × V3 ℝ)), (∀ s ∈ sup, 0 ≤ s.1 ∧ s.2 ∈ bd) →
      ∃ w : List ℝ, w.length = bd.length ∧ (∀ x ∈ w, 0 ≤ x) ∧
        zipWeight w bd = (sup.map fun s => s.1).sum ∧ gvec (List.zip w bd) c = gvec sup c
  | [], _ => by
    refine ⟨List.replicate bd.length 0, by simp, fun x hx => by rw [List.eq_of_mem_replicate hx], ?_, ?_⟩
    · unfold zipWeight
      apply List.sum_eq_zero
      intro y hy
      obtain ⟨s, hs, rfl⟩ := List.mem_map.mp hy
      exact List.eq_of_mem_replicate (List.of_mem_zip hs).1
    · have : ∀ (n : Nat) (l : List (V3 ℝ)), gvec (List.zip (List.replicate n (0 : ℝ)) l) c = V3.zero := by
        intro n
        induction n with
        | zero => intro l; simp [gvec, V3.sum]
        | succ n ih =>
          intro l
          cases l with
          | nil => simp [gvec, V3.sum]
          | cons q l =>
            rw [List.replicate_succ, List.zip_cons_cons, gvec_cons, ih l]
            ext <;> simp
      rw [this]; simp [gvec, V3.sum]
  | s :: sup, h => by
    obtain ⟨w, hl, hnn, hw, hg⟩ := reindex_support bd c sup fun t ht => h t (List.mem_cons_of_mem _ ht)
    obtain ⟨hs0, hsm⟩ := h s List.mem_cons_self
    refine ⟨bump s.1 s.2 w bd, by rw [bump_length, hl], bump_nonneg hs0 s.2 w bd hnn, ?_, ?_⟩
    · rw [bump_weight s.1 s.2 w bd hl hsm, hw]; simp only [List.map_cons, List.sum_cons]; ring
    · rw [bump_gvec s.1 s.2 c w bd hl hsm, hg, gvec_cons]
      ext <;> simp <;> ring

theorem nnlsResidSq_eq' (bd : List (V3 ℝ)) (c : V3 ℝ) (r2 : ℝ) (w : List ℝ) :
    nnlsResidSq bd c r2 w = V3.normSq (gvec (List.zip w bd) c) / r2
      + (zipWeight w bd - 1) * (zipWeight w bd - 1) := nnlsResidSq_eq bd c r2 w

/-- the contract of an OPTIMAL nnls: besides `NnlsContract`, no feasible `w ≥ 0` has a smaller residual -/
structure NnlsOptimal (bd : List (V3 ℝ)) (c : V3 ℝ) (r2 : ℝ) (out : List ℝ × ℝ) : Prop extends
    NnlsContract bd c r2 out where
  optimal : ∀ w : List ℝ, w.length = bd.length → (∀ x ∈ w, 0 ≤ x) →
    nnlsResidSq bd c r2 out.1 ≤ nnlsResidSq bd c r2 w

/-- **for THE minimal ball the nnls system is consistent**: weights `≥ 0` aligned with the boundary list
(for any boundary tolerance `τb ≥ 0`) with residual exactly `0` -/
theorem exists_zero_residual (pts : List (V3 ℝ)) (hne : pts ≠ []) (c : V3 ℝ) (r2 τb : ℝ) (hr2 : 0 < r2)
    (hτb : 0 ≤ τb) (hmin : IsMinimalBounding c (Real.sqrt r2) pts) :
    ∃ w : List ℝ, w.length = (onBoundary τb pts c r2).length ∧ (∀ x ∈ w, 0 ≤ x) ∧
      nnlsResidSq (onBoundary τb pts c r2) c r2 w = 0 := by
  obtain ⟨sup, hs⟩ := certificate_exists pts hne c _ hmin
  have hsq : Real.sqrt r2 * Real.sqrt r2 = r2 := Real.mul_self_sqrt (le_of_lt hr2)
  have hin : ∀ s ∈ sup, 0 ≤ s.1 ∧ s.2 ∈ onBoundary τb pts c r2 := by
    intro s hm
    refine ⟨hs.nonneg s hm, mem_onBoundary.mpr ⟨hs.mem s hm, ?_⟩⟩
    have hd := hs.onSphere s hm
    unfold BallSpec.dist at hd
    have : V3.normSq (s.2 - c) = r2 := by rw [← V3.norm_mul_self, hd, hsq]
    rw [this]; nlinarith
  obtain ⟨w, hl, hnn, hw, hg⟩ := reindex_support (onBoundary τb pts c r2) c sup hin
  refine ⟨w, hl, hnn, ?_⟩
  rw [nnlsResidSq_eq', hw, hg, hs.sum_one]
  have hgz : gvec sup c = V3.zero := by
    have hx := gvec_x sup c; have hy := gvec_y sup c; have hz := gvec_z sup c
    rw [← comb_x, hs.comb, hs.sum_one] at hx
    rw [← comb_y, hs.comb, hs.sum_one] at hy
    rw [← comb_z, hs.comb, hs.sum_one] at hz
    ext <;> simp <;> linarith
  rw [hgz]
  simp [V3.normSq_eq]

/-- **the acceptance test is COMPLETE in exact arithmetic**: if `(c, r²)`, `r² > 0`, IS the minimal
bounding ball of the (non-empty) points and nnls returns a minimiser over `w ≥ 0`, the test accepts —
for ALL tolerances `τc, τb, τr ≥ 0`: the exact version `0, 0, 0` and the code's `1e-8, 1e-6, 1e-6`. -/
theorem accept_complete {τc τb τr : ℝ} (hτc : 0 ≤ τc) (hτb : 0 ≤ τb) (hτr : 0 ≤ τr)
    {nnls : List (V3 ℝ) → V3 ℝ → ℝ → List ℝ × ℝ} {pts : List (V3 ℝ)} (hne : pts ≠ [])
    {c : V3 ℝ} {r2 : ℝ} (hr2 : 0 < r2) (hmin : IsMinimalBounding c (Real.sqrt r2) pts)
    (hopt : NnlsOptimal (onBoundary τb pts c r2) c r2 (nnls (onBoundary τb pts c r2) c r2)) :
    isMinimalBoundingBallTol τc τb τr nnls pts c r2 = true := by
  have hsq : Real.sqrt r2 * Real.sqrt r2 = r2 := Real.mul_self_sqrt (le_of_lt hr2)
  obtain ⟨w, hl, hnn, hz⟩ := exists_zero_residual pts hne c r2 τb hr2 hτb hmin
  -- the boundary list is not empty
  have hbd : onBoundary τb pts c r2 ≠ [] := by
    intro h0
    rw [h0] at hl hz
    have hw : w = [] := List.length_eq_zero_iff.mp (by simpa using hl)
    rw [hw, nnlsResidSq_eq'] at hz
    simp [zipWeight, gvec, V3.sum, V3.normSq_eq] at hz
  -- the optimal residual is 0
  have hres : (nnls (onBoundary τb pts c r2) c r2).2 = 0 := by
    have h1 := hopt.optimal w hl hnn
    rw [hz, ← hopt.resid] at h1
    have h2 := hopt.resid_nonneg
    nlinarith [mul_self_nonneg (nnls (onBoundary τb pts c r2) c r2).2]
  unfold isMinimalBoundingBallTol
  simp only
  have hfin : (pts.map fun p => V3.normSq (p - c)).all isFinite = true := by
    rw [List.all_eq_true]; intro x _; exact isFinite_real x
  have hneg : decide (r2 < (Scalar.lit 0 : ℝ)) = false := by
    rw [decide_eq_false_iff_not]; simp only [Scalar.lit_real, Nat.cast_zero]; exact not_lt.mpr (le_of_lt hr2)
  have hz0 : Scalar.eqb r2 (Scalar.lit 0 : ℝ) = false := by
    show decide (r2 = ((0 : ℕ) : ℝ)) = false
    rw [decide_eq_false_iff_not]; simp only [Nat.cast_zero]; exact ne_of_gt hr2
  rw [hfin, isFinite_real, hneg, hz0]
  simp only [Bool.not_true, Bool.or_self, Bool.false_eq_true, ↓reduceIte]
  have hmax : ¬ r2 * (Scalar.lit 1 + τc) < listMax (pts.map fun p => V3.normSq (p - c)) := by
    have hne' : pts.map (fun p => V3.normSq (p - c)) ≠ [] := by simpa using hne
    obtain ⟨p, hp, hpe⟩ := List.mem_map.mp (listMax_mem _ hne')
    rw [← hpe]
    have hb := hmin.1 p hp
    unfold InBall BallSpec.dist at hb
    have := (V3.norm_le_iff _ (Real.sqrt_nonneg r2)).mp hb
    rw [hsq] at this
    simp only [Scalar.lit_real, Nat.cast_one]
    nlinarith
  rw [if_neg hmax]
  have hemp : (onBoundary τb pts c r2).isEmpty = false := by
    cases h : onBoundary τb pts c r2 with
    | nil => exact absurd h hbd
    | cons _ _ => rfl
  rw [hemp]
  simp only [Bool.false_eq_true, ↓reduceIte, decide_eq_true_eq]
  rw [hres]; exact hτr

/-! ### optimality of nnls as a certificate: approximate KKT conditions -/

/-- the `j`-th component of the gradient `Aᵀ(Aw − b)` of the nnls objective, for the column of the
boundary point `p`: `(p − c)·G / r² + (Λ − 1)` with `G = Σ w_i (p_i − c)`, `Λ = Σ w_i` -/
def kktGrad (G : V3 ℝ) (Λ : ℝ) (c : V3 ℝ) (r2 : ℝ) (p : V3 ℝ) : ℝ := V3.dot (p - c) G / r2 + (Λ - 1)

/-- `Σ_j w_j g_j` for weights aligned with the boundary list -/
def kktPair (G : V3 ℝ) (Λ : ℝ) (c : V3 ℝ) (r2 : ℝ) (w : List ℝ) (bd : List (V3 ℝ)) : ℝ :=
  ((List.zip w bd).map fun s => s.1 * kktGrad G Λ c r2 s.2).sum

theorem kktPair_eq (G : V3 ℝ) (Λ : ℝ) (c : V3 ℝ) (r2 : ℝ) (w : List ℝ) (bd : List (V3 ℝ)) :
    kktPair G Λ c r2 w bd = V3.dot (gvec (List.zip w bd) c) G / r2 + (Λ - 1) * zipWeight w bd := by
  unfold kktPair zipWeight
  induction List.zip w bd with
  | nil => simp [gvec, V3.sum, V3.dot_eq]
  | cons s l ih =>
    simp only [List.map_cons, List.sum_cons, ih, gvec_cons]
    simp only [kktGrad, V3.dot_eq, V3.add_x, V3.add_y, V3.add_z, V3.smul_x, V3.smul_y, V3.smul_z, V3.sub_x,
      V3.sub_y, V3.sub_z]
    ring

/-- **soundness of the (approximate) KKT certificate.** Let `g_j` be the gradient components at `w`
(`G = Σ w_i (p_i − c)`, `Λ = Σ w_i`). If `g_j ≥ −δ` for every boundary point and `Σ_j w_j g_j ≤ κ`, then
for EVERY `w' ≥ 0`: `f(w) ≤ f(w') + 2δ·Σw' + 2κ` (`f = nnlsResidSq`). With `δ = κ = 0` (exact KKT:
`g ≥ 0`, `g_j = 0` where `w_j > 0`) `w` is a minimiser. -/
theorem kkt_bound (bd : List (V3 ℝ)) (c : V3 ℝ) (r2 : ℝ) (hr2 : 0 < r2) (w w' : List ℝ) (δ κ : ℝ)
    (hw' : ∀ x ∈ w', 0 ≤ x)
    (hg : ∀ p ∈ bd, -δ ≤ kktGrad (gvec (List.zip w bd) c) (zipWeight w bd) c r2 p)
    (hc : kktPair (gvec (List.zip w bd) c) (zipWeight w bd) c r2 w bd ≤ κ) :
    nnlsResidSq bd c r2 w ≤ nnlsResidSq bd c r2 w' + 2 * δ * zipWeight w' bd + 2 * κ := by
  set G := gvec (List.zip w bd) c with hG
  set Λ := zipWeight w bd with hΛ
  set G' := gvec (List.zip w' bd) c with hG'
  set Λ' := zipWeight w' bd with hΛ'
  -- Σ_j w'_j g_j ≥ −δ Σ w'_j
  have hlow : Λ' * (-δ) ≤ kktPair G Λ c r2 w' bd := by
    unfold kktPair
    exact weighted_ge (List.zip w' bd) (fun p => kktGrad G Λ c r2 p) (-δ)
      (fun s hs => ⟨hw' s.1 (List.of_mem_zip hs).1, hg s.2 (List.of_mem_zip hs).2⟩)
  have e' := kktPair_eq G Λ c r2 w' bd
  have e := kktPair_eq G Λ c r2 w bd
  rw [← hG', ← hΛ'] at e'
  rw [← hG, ← hΛ] at e
  rw [nnlsResidSq_eq', nnlsResidSq_eq', ← hG, ← hΛ, ← hG', ← hΛ']
  -- ‖G'‖² ≥ 2 G'·G − ‖G‖²,  (Λ'−1)² ≥ (Λ−1)² + 2(Λ−1)(Λ'−Λ)
  have h1 : 2 * V3.dot G' G - V3.normSq G ≤ V3.normSq G' := by
    have : 0 ≤ V3.normSq (G' - G) := V3.normSq_nonneg _
    simp only [V3.normSq_eq, V3.dot_eq, V3.sub_x, V3.sub_y, V3.sub_z] at this ⊢
    nlinarith
  have h1' : (2 * V3.dot G' G - V3.normSq G) / r2 ≤ V3.normSq G' / r2 :=
    div_le_div_of_nonneg_right h1 (le_of_lt hr2)
  have h2 : (Λ - 1) * (Λ - 1) + 2 * (Λ - 1) * (Λ' - Λ) ≤ (Λ' - 1) * (Λ' - 1) := by
    nlinarith [mul_self_nonneg (Λ' - Λ)]
  have hGG : V3.dot G G = V3.normSq G := rfl
  rw [hGG] at e
  have e3 : (2 * V3.dot G' G - V3.normSq G) / r2 = 2 * (V3.dot G' G / r2) - V3.normSq G / r2 := by ring
  rw [e3] at h1'
  nlinarith

end Balls
end
