import Mathlib.MeasureTheory.Integral.Prod
import Mathlib.MeasureTheory.Integral.IntervalIntegral.Basic
import Mathlib.MeasureTheory.Measure.Lebesgue.Basic
import Mathlib.MeasureTheory.Integral.DominatedConvergence
import Mathlib.Analysis.Complex.Basic
/-!
  Fubini on a right triangle, for iterated interval integrals of a continuous function:

    ∫ x in 0..L, ∫ y in 0..(L − x), f x y  =  ∫ y in 0..L, ∫ x in 0..(L − y), f x y        (0 ≤ L)

  (both sides are the integral of `f` over `{0 < x, 0 < y, x + y ≤ L}` w.r.t. Lebesgue measure on `ℝ × ℝ`:
  `triangle_iterated_eq_setIntegral`).  From Mathlib's `integral_integral_swap`.
-/
open MeasureTheory Set Function
namespace FF
noncomputable section

/-- the open-closed right triangle with legs `L` -/
def triSet (L : ℝ) : Set (ℝ × ℝ) := {p | 0 < p.1 ∧ 0 < p.2 ∧ p.1 + p.2 ≤ L}

theorem measurableSet_triSet (L : ℝ) : MeasurableSet (triSet L) := by
  unfold triSet
  apply MeasurableSet.inter
  · exact measurableSet_lt measurable_const measurable_fst
  apply MeasurableSet.inter
  · exact measurableSet_lt measurable_const measurable_snd
  · exact measurableSet_le (measurable_fst.add measurable_snd) measurable_const

theorem triSet_subset (L : ℝ) : triSet L ⊆ Icc 0 L ×ˢ Icc 0 L := by
  intro p hp
  obtain ⟨h1, h2, h3⟩ := hp
  exact ⟨⟨h1.le, by linarith⟩, ⟨h2.le, by linarith⟩⟩

theorem integrable_indicator_triSet (f : ℝ → ℝ → ℂ) (hf : Continuous (uncurry f)) (L : ℝ) :
    Integrable ((triSet L).indicator (uncurry f)) (volume.prod volume) := by
  rw [integrable_indicator_iff (measurableSet_triSet L)]
  have h : IntegrableOn (uncurry f) (Icc 0 L ×ˢ Icc 0 L) (volume.prod volume) :=
    hf.continuousOn.integrableOn_compact (isCompact_Icc.prod isCompact_Icc)
  exact h.mono_set (triSet_subset L)

/-- inner slice in `y` of the indicator, for fixed `x` -/
theorem inner_slice_y (f : ℝ → ℝ → ℂ) (L x : ℝ) :
    (∫ y, (triSet L).indicator (uncurry f) (x, y)) =
      if x ∈ Ioc 0 L then ∫ y in (0:ℝ)..(L - x), f x y else 0 := by
  split_ifs with hx
  · have hLx : 0 ≤ L - x := by linarith [hx.2]
    rw [intervalIntegral.integral_of_le hLx, ← integral_indicator measurableSet_Ioc]
    congr 1
    funext y
    by_cases hy : y ∈ Ioc 0 (L - x)
    · have : (x, y) ∈ triSet L := ⟨hx.1, hy.1, by linarith [hy.2]⟩
      rw [indicator_of_mem this, indicator_of_mem hy]; rfl
    · have : (x, y) ∉ triSet L := by
        intro h; apply hy; exact ⟨h.2.1, by linarith [h.2.2]⟩
      rw [indicator_of_notMem this, indicator_of_notMem hy]
  · have : ∀ y, (triSet L).indicator (uncurry f) (x, y) = 0 := by
      intro y
      apply indicator_of_notMem
      intro h
      apply hx
      exact ⟨h.1, by linarith [h.2.1, h.2.2]⟩
    simp [this]

/-- inner slice in `x` of the indicator, for fixed `y` -/
theorem inner_slice_x (f : ℝ → ℝ → ℂ) (L y : ℝ) :
    (∫ x, (triSet L).indicator (uncurry f) (x, y)) =
      if y ∈ Ioc 0 L then ∫ x in (0:ℝ)..(L - y), f x y else 0 := by
  split_ifs with hy
  · have hLy : 0 ≤ L - y := by linarith [hy.2]
    rw [intervalIntegral.integral_of_le hLy, ← integral_indicator measurableSet_Ioc]
    congr 1
    funext x
    by_cases hx : x ∈ Ioc 0 (L - y)
    · have : (x, y) ∈ triSet L := ⟨hx.1, hy.1, by linarith [hx.2]⟩
      rw [indicator_of_mem this, indicator_of_mem hx]; rfl
    · have : (x, y) ∉ triSet L := by
        intro h; apply hx; exact ⟨h.1, by linarith [h.2.2]⟩
      rw [indicator_of_notMem this, indicator_of_notMem hx]
  · have : ∀ x, (triSet L).indicator (uncurry f) (x, y) = 0 := by
      intro x
      apply indicator_of_notMem
      intro h
      apply hy
      exact ⟨h.2.1, by linarith [h.1, h.2.2]⟩
    simp [this]

theorem iterated_xy_eq (f : ℝ → ℝ → ℂ) (L : ℝ) (hL : 0 ≤ L) :
    (∫ x in (0:ℝ)..L, ∫ y in (0:ℝ)..(L - x), f x y) =
      ∫ x, ∫ y, (triSet L).indicator (uncurry f) (x, y) := by
  simp_rw [inner_slice_y]
  rw [intervalIntegral.integral_of_le hL, ← integral_indicator measurableSet_Ioc]
  congr 1
  funext x
  by_cases hx : x ∈ Ioc 0 L
  · rw [indicator_of_mem hx, if_pos hx]
  · rw [indicator_of_notMem hx, if_neg hx]

theorem iterated_yx_eq (f : ℝ → ℝ → ℂ) (L : ℝ) (hL : 0 ≤ L) :
    (∫ y in (0:ℝ)..L, ∫ x in (0:ℝ)..(L - y), f x y) =
      ∫ y, ∫ x, (triSet L).indicator (uncurry f) (x, y) := by
  simp_rw [inner_slice_x]
  rw [intervalIntegral.integral_of_le hL, ← integral_indicator measurableSet_Ioc]
  congr 1
  funext y
  by_cases hy : y ∈ Ioc 0 L
  · rw [indicator_of_mem hy, if_pos hy]
  · rw [indicator_of_notMem hy, if_neg hy]

/-- the iterated integral IS the Lebesgue integral over the triangle `{0 < x, 0 < y, x + y ≤ L}` of `ℝ²` -/
theorem triangle_iterated_eq_setIntegral (f : ℝ → ℝ → ℂ) (hf : Continuous (uncurry f)) (L : ℝ) (hL : 0 ≤ L) :
    (∫ x in (0:ℝ)..L, ∫ y in (0:ℝ)..(L - x), f x y) = ∫ p in triSet L, f p.1 p.2 ∂(volume.prod volume) := by
  rw [iterated_xy_eq f L hL, ← integral_indicator (measurableSet_triSet L)]
  exact (integral_prod _ (integrable_indicator_triSet f hf L)).symm

/-- **Fubini on the triangle** -/
theorem triangle_swap (f : ℝ → ℝ → ℂ) (hf : Continuous (uncurry f)) (L : ℝ) (hL : 0 ≤ L) :
    (∫ x in (0:ℝ)..L, ∫ y in (0:ℝ)..(L - x), f x y) = ∫ y in (0:ℝ)..L, ∫ x in (0:ℝ)..(L - y), f x y := by
  rw [iterated_xy_eq f L hL, iterated_yx_eq f L hL]
  exact integral_integral_swap (f := fun x y => (triSet L).indicator (uncurry f) (x, y))
    (integrable_indicator_triSet f hf L)

end
end FF
