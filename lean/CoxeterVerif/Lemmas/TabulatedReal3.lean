import CoxeterVerif.Lemmas.TabulatedReal2
/-!
  C18, meaning over ℝ of `insphereOk` (Catalan solids): all face planes are at one positive distance from
  the centroid of the solid.  Conventions as in `TabulatedReal.lean` (units of 10⁻¹⁸; the tolerance is
  relative, hence unit free).
-/
namespace Tab
noncomputable section

/-- `Σ det(a,b,c)·(a+b+c)` over the surface triangles: `4·Σdet` times the centroid of the solid
    (each tetrahedron `0abc` has volume `det/6` and centroid `(a+b+c)/4`) -/
def centroidNumV (e : Entry) : V3 ℝ :=
  V3.sum ((surfaceTris e).map fun t =>
    V3.smul (V3.det3 (toV t.1) (toV t.2.1) (toV t.2.2)) (toV t.1 + toV t.2.1 + toV t.2.2))

/-- centroid of the solid: the volume-weighted mean of the centroids of the tetrahedra spanned by the
    origin and the surface triangles -/
def centroidV (e : Entry) : V3 ℝ := V3.sdiv (centroidNumV e) (4 * vol6V e)

/-- distance from `c` to the plane through `p0` with normal `n`, positive when `c` is on the inner side -/
def depth (n p0 c : V3 ℝ) : ℝ := V3.dot n (p0 - c) / Real.sqrt (V3.normSq n)

/-- distance from the centroid of the solid to the plane of face `f` -/
def faceDepth (e : Entry) (f : List Nat) : ℝ :=
  match facePts e f with
  | [] => 0
  | p0 :: rest => depth (newellV ((p0 :: rest).map toV)) (toV p0) (centroidV e)

/-- what `insphereOk` says: positive volume, and all face planes are at one positive distance from the
    centroid (squared distances agree with the first face's within `2·10⁻⁹` relative) -/
structure Insphere (e : Entry) : Prop where
  vol_pos : 0 < vol6V e
  faces : ∃ f0 rest, e.faces = f0 :: rest ∧ 0 < faceDepth e f0 ∧
    ∀ f ∈ rest, 0 < faceDepth e f
      ∧ |faceDepth e f ^ 2 - faceDepth e f0 ^ 2| ≤ 2 / 10^9 * faceDepth e f0 ^ 2

theorem toV_centroidNum (e : Entry) : toV (centroidNum e) = centroidNumV e := by
  unfold centroidNum centroidNumV
  rw [toV_foldl_add (fun t : P3 × P3 × P3 =>
      P3.smul (det3 t.1 t.2.1 t.2.2) ((t.1.add t.2.1).add t.2.2)), toV_zero]
  have hz : ∀ x : V3 ℝ, V3.zero + x = x := by intro x; apply V3.ext' <;> simp
  rw [hz]
  congr 1
  apply List.map_congr_left
  intro t _
  rw [toV_smul, cast_det3, toV_add, toV_add]

theorem cast_centroidDen (e : Entry) : ((centroidDen e : Int) : ℝ) = 4 * vol6V e := by
  unfold centroidDen
  rw [Int.cast_mul, cast_vol6]; norm_num

theorem depth_eq (n p0 C : V3 ℝ) (D : ℝ) (hD : 0 < D) :
    depth n p0 (V3.sdiv C D) = V3.dot n (V3.smul D p0 - C) / (D * Real.sqrt (V3.normSq n)) := by
  unfold depth
  have : V3.dot n (p0 - V3.sdiv C D) = V3.dot n (V3.smul D p0 - C) / D := by
    simp only [V3.dot, V3.sub_x, V3.sub_y, V3.sub_z, V3.sdiv_x, V3.sdiv_y, V3.sdiv_z, V3.smul_x, V3.smul_y,
      V3.smul_z]
    field_simp
  rw [this, div_div]

theorem faceHeight_real (e : Entry) (f : List Nat) (hv : 0 < vol6V e)
    (hh : 0 < (faceHeight e (centroidNum e) (centroidDen e) f).1) :
    faceDepth e f = ((faceHeight e (centroidNum e) (centroidDen e) f).1 : ℝ)
      / (4 * vol6V e * Real.sqrt ((faceHeight e (centroidNum e) (centroidDen e) f).2 : ℝ)) := by
  unfold faceDepth faceHeight at *
  cases hfp : facePts e f with
  | nil => rw [hfp] at hh; simp at hh
  | cons p0 rest =>
    simp only []
    unfold centroidV
    rw [depth_eq _ _ _ _ (by positivity), cast_dot, toV_newell, toV_sub, toV_smul, toV_centroidNum,
      cast_centroidDen, cast_normSq, toV_newell]

theorem cast_e9 : ((e9 : Int) : ℝ) = 10^9 := by unfold e9; norm_num

theorem nearRatio_real (a0 B0 a B : Int) (h : nearRatio a0 B0 a B = true) :
    |(a:ℝ) * B0 - a0 * B| * 10^9 ≤ 2 * a0 * B := by
  unfold nearRatio at h
  rw [intLe_iff, intAbs_eq] at h
  have : ((|a * B0 - a0 * B| * e9 : Int) : ℝ) ≤ ((2 * a0 * B : Int) : ℝ) := by exact_mod_cast h
  rw [Int.cast_mul, Int.cast_abs, Int.cast_sub, Int.cast_mul, Int.cast_mul, cast_e9, Int.cast_mul,
    Int.cast_mul] at this
  simpa using this

theorem depth_sq_near (H H0 N N0 D : ℝ) (hD : 0 < D) (hN : 0 < N) (hN0 : 0 < N0)
    (hr : |H * H * N0 - H0 * H0 * N| * 10^9 ≤ 2 * (H0 * H0) * N) :
    |(H / (D * Real.sqrt N)) ^ 2 - (H0 / (D * Real.sqrt N0)) ^ 2|
      ≤ 2 / 10^9 * (H0 / (D * Real.sqrt N0)) ^ 2 := by
  have e1 : (H / (D * Real.sqrt N)) ^ 2 = H * H / (D * D * N) := by
    rw [div_pow, mul_pow, Real.sq_sqrt hN.le]; ring
  have e0 : (H0 / (D * Real.sqrt N0)) ^ 2 = H0 * H0 / (D * D * N0) := by
    rw [div_pow, mul_pow, Real.sq_sqrt hN0.le]; ring
  rw [e1, e0]
  have hd : H * H / (D * D * N) - H0 * H0 / (D * D * N0)
      = (H * H * N0 - H0 * H0 * N) / (D * D * N * N0) := by
    field_simp
  rw [hd, abs_div, abs_of_pos (by positivity : 0 < D * D * N * N0), div_le_iff₀ (by positivity)]
  have hm : 2 / 10^9 * (H0 * H0 / (D * D * N0)) * (D * D * N * N0) = (2 * (H0 * H0) * N) / 10^9 := by
    field_simp
  rw [hm, le_div_iff₀ (by positivity)]
  exact hr

/-- **insphere** (soundness of the kernel-evaluated predicate) -/
theorem insphereOk_sound (e : Entry) (h : insphereOk e = true) : Insphere e := by
  unfold insphereOk at h
  simp only [forceInt_eq] at h
  have hC : (⟨(centroidNum e).x, (centroidNum e).y, (centroidNum e).z⟩ : P3) = centroidNum e := rfl
  rw [hC] at h
  cases hf : e.faces with
  | nil => rw [hf] at h; simp at h
  | cons f0 rest =>
    rw [hf, List.map_cons] at h
    cases hfh : faceHeight e (centroidNum e) (centroidDen e) f0 with
    | mk h0 n0 =>
      rw [hfh] at h
      simp only [Bool.and_eq_true, intLt_iff, List.all_eq_true] at h
      obtain ⟨⟨⟨hD, hh0⟩, hn0⟩, hall⟩ := h
      have hv : 0 < vol6V e := by
        have : (0:ℝ) < ((centroidDen e : Int) : ℝ) := by exact_mod_cast hD
        rw [cast_centroidDen] at this; linarith
      have hd0 := faceHeight_real e f0 hv (by rw [hfh]; exact hh0)
      rw [hfh] at hd0
      simp only [] at hd0
      have hh0R : (0:ℝ) < (h0:ℝ) := by exact_mod_cast hh0
      have hn0R : (0:ℝ) < (n0:ℝ) := by exact_mod_cast hn0
      have hDR : (0:ℝ) < 4 * vol6V e := by linarith
      refine ⟨hv, f0, rest, hf, ?_, ?_⟩
      · rw [hd0]
        exact div_pos hh0R (mul_pos hDR (Real.sqrt_pos.mpr hn0R))
      · intro f hfm
        have hx := hall (faceHeight e (centroidNum e) (centroidDen e) f) (List.mem_map.mpr ⟨f, hfm, rfl⟩)
        obtain ⟨⟨hh, hn⟩, hr⟩ := hx
        have hd := faceHeight_real e f hv hh
        have hhR : (0:ℝ) < ((faceHeight e (centroidNum e) (centroidDen e) f).1 : ℝ) := by exact_mod_cast hh
        have hnR : (0:ℝ) < ((faceHeight e (centroidNum e) (centroidDen e) f).2 : ℝ) := by exact_mod_cast hn
        constructor
        · rw [hd]
          exact div_pos hhR (mul_pos hDR (Real.sqrt_pos.mpr hnR))
        · rw [hd, hd0]
          have hr' := nearRatio_real _ _ _ _ hr
          simp only [Int.cast_mul] at hr'
          exact depth_sq_near _ _ _ _ _ hDR hnR hn0R hr'

end
end Tab
