import CoxeterVerif.Lemmas.CovarianceSim
import CoxeterVerif.Model.Structure
import CoxeterVerif.Model.Constructors
/-!
  Helper lemmas for C09, part 12: the ABSOLUTE tolerances that are still in the Python, each with the exact
  range in which the decision it guards is covariant and a witness where it is not.
  (The `isclose(z, 0)` of `Circle/Ellipse.is_inside`: `Lemmas/CovarianceCircle.lean`; the `isclose(q², 0)` of the
  form factors: `Lemmas/CovarianceFF.lean`; the residual guards and `_is_minimal_bounding_ball`, all relative:
  `Lemmas/CovarianceBalls.lean`; polytri's thresholds, all relative: `Lemmas/CovariancePolytri.lean`.)

  * `Polygon.__init__` coplanarity test.  BEFORE 744f807 (`C15.coplanar`, kept in C15's model as a regression witness):
    `np.isclose(n·v, d, planar_tolerance)` — the third positional argument is `rtol`, `atol` keeps `1e-8`, and the
    reference `d = n·v₀` is the distance of the PLANE FROM THE ORIGIN: `|n·v − d| ≤ 1e-8 + ptol·|d|` is neither scale
    nor translation covariant (`coplanar_scale_iff`, `coplanar_scale_fails`, `coplanar_translate_fails`; finding of
    this property, repaired).  NOW (`C15.coplanarRel`, 744f807): `|(v − v₀)·n| ≤ ptol · max_w ‖w − v₀‖` — invariant
    under every proper similarity, for EVERY vertex list, normal and tolerance (`coplanarRel_sim`).
  * the first-corner normal and the orthogonality test `np.isclose(|c·n'|, 1)` (dimensionless): covariant
    (`cornerNormal_sim`, `chooseNormal_sim`).
  * `Polyhedron.merge_faces(atol=1e-8, rtol=1e-5)`: `np.allclose` on rows `(n, d)` — the normal components are scale
    free, the offset test is not: `allclose_scale_iff`, `allclose_scale_fails`, `allclose_translate_fails`;
    covariant whenever the two offsets are equal (coplanar neighbours) or `atol = 0`.
  * `ConvexPolyhedron._combine_simplices(tol=2e-15)`: `|eq_i − eq_j| < tol` componentwise — covariant whenever the rows
    are identical (Qhull hands out the same equation for all simplices of a facet) or the normals differ by `tol` in
    some component (`eqClose_self`, `eqClose_scale_of_normals`); not in general (`eqClose_scale_fails`).
-/
open Scalar
set_option maxRecDepth 4000
noncomputable section

namespace C15

/-! ### coplanarity loop of `Polygon.__init__` BEFORE 744f807 (`C15.coplanar`) -/

theorem coplanar_iff' (n : V3 ℝ) (verts : List (V3 ℝ)) (ptol : ℝ) :
    coplanar n verts ptol = true ↔
      ∀ v ∈ verts, |V3.dot n v - V3.dot n (verts.getD 0 V3.zero)|
        ≤ 1 / 100000000 + ptol * |V3.dot n (verts.getD 0 V3.zero)| := by
  unfold coplanar isclose atolDefault
  simp only [List.all_eq_true, decide_eq_true_eq, Scalar.q, Scalar.ofNat_real, Scalar.abs_real]
  push_cast
  exact Iff.rfl

theorem getD_map_pt (g : Sim) (verts : List (V3 ℝ)) (hne : verts ≠ []) :
    (verts.map g.pt).getD 0 V3.zero = g.pt (verts.getD 0 V3.zero) := by
  cases verts with
  | nil => exact absurd rfl hne
  | cons v vs => rfl

theorem dot_dir_pt {g : Sim} (hg : g.Proper) (n v : V3 ℝ) :
    V3.dot (g.dir n) (g.pt v) = g.k * V3.dot n v + V3.dot (g.dir n) g.t := by
  have h := Sim.vec_dot_dir hg v n
  have c : ∀ a b : V3 ℝ, V3.dot a b = V3.dot b a := by intro a b; unfold V3.dot; ring
  have e1 : V3.dot (g.dir n) (g.pt v) = V3.dot (g.vec v) (g.dir n) + V3.dot (g.dir n) g.t := by
    unfold Sim.pt Sim.vec V3.dot; simp only [V3.add_x, V3.add_y, V3.add_z]; ring
  rw [e1, h, c v n]

/-- **an exactly planar polygon passes the coplanarity loop at every scale, orientation and position** -/
theorem coplanar_sim_planar {g : Sim} (hg : g.Proper) (n : V3 ℝ) (verts : List (V3 ℝ)) (hne : verts ≠ []) {ptol : ℝ}
    (hp : 0 ≤ ptol) (hplanar : ∀ v ∈ verts, V3.dot n v = V3.dot n (verts.getD 0 V3.zero)) :
    coplanar (g.dir n) (verts.map g.pt) ptol = true := by
  rw [coplanar_iff', getD_map_pt g verts hne]
  intro w hw
  obtain ⟨v, hv, rfl⟩ := List.mem_map.mp hw
  rw [dot_dir_pt hg, dot_dir_pt hg, hplanar v hv, sub_self, abs_zero]
  positivity

/-- **scaling about the origin by `k > 0`**: the polygon passes iff every out-of-plane deviation `δ_v` satisfies
`δ_v ≤ 1e-8 / k + ptol · |d|` — the absolute part of the tolerance is `1e-8 / k` in the polygon's own units -/
theorem coplanar_scale_iff {k : ℝ} (hk : 0 < k) (n : V3 ℝ) (verts : List (V3 ℝ)) (hne : verts ≠ []) (ptol : ℝ) :
    coplanar n (verts.map (V3.smul k)) ptol = true ↔
      ∀ v ∈ verts, |V3.dot n v - V3.dot n (verts.getD 0 V3.zero)|
        ≤ 1 / 100000000 / k + ptol * |V3.dot n (verts.getD 0 V3.zero)| := by
  rw [coplanar_iff']
  have h0 : (verts.map (V3.smul k)).getD 0 V3.zero = V3.smul k (verts.getD 0 V3.zero) := by
    cases verts with
    | nil => exact absurd rfl hne
    | cons v vs => rfl
  have hd : ∀ v : V3 ℝ, V3.dot n (V3.smul k v) = k * V3.dot n v := by
    intro v; unfold V3.dot; simp only [V3.smul_x, V3.smul_y, V3.smul_z]; ring
  rw [h0]
  constructor
  · intro h v hv
    have := h (V3.smul k v) (List.mem_map.mpr ⟨v, hv, rfl⟩)
    rw [hd, hd, ← mul_sub, abs_mul, abs_mul, abs_of_pos hk] at this
    rw [div_add' _ _ _ hk.ne', le_div_iff₀ hk]
    nlinarith
  · intro h w hw
    obtain ⟨v, hv, rfl⟩ := List.mem_map.mp hw
    have := h v hv
    rw [div_add' _ _ _ hk.ne', le_div_iff₀ hk] at this
    rw [hd, hd, ← mul_sub, abs_mul, abs_mul, abs_of_pos hk]
    nlinarith

/-- the quadrilateral `(0,0,0), (1,0,0), (1,1,δ), (0,1,0)` with `δ = 10⁻⁷` and the normal `ẑ` of its first corner -/
def bentQuad : List (V3 ℝ) := [⟨0, 0, 0⟩, ⟨1, 0, 0⟩, ⟨1, 1, 1 / 10000000⟩, ⟨0, 1, 0⟩]

/-- **the coplanarity decision is not scale covariant**: the bent quadrilateral (off its plane by `10⁻⁷` of its
size) is rejected at size 1 and accepted at size `10⁻²` -/
theorem coplanar_scale_fails :
    ¬ (∀ (k : ℝ), 0 < k → ∀ (n : V3 ℝ) (verts : List (V3 ℝ)) (ptol : ℝ),
        coplanar n (verts.map (V3.smul k)) ptol = coplanar n verts ptol) := by
  intro h
  have := h (1 / 100) (by norm_num) ⟨0, 0, 1⟩ bentQuad (1 / 100000)
  have h1 : coplanar ⟨0, 0, 1⟩ bentQuad (1 / 100000) = false := by
    rw [Bool.eq_false_iff]; intro hc
    rw [coplanar_iff'] at hc
    have := hc ⟨1, 1, 1 / 10000000⟩ (by simp [bentQuad])
    simp only [bentQuad, V3.dot, List.getD_cons_zero] at this
    norm_num at this
  have h2 : coplanar ⟨0, 0, 1⟩ (bentQuad.map (V3.smul (1 / 100))) (1 / 100000) = true := by
    rw [coplanar_scale_iff (by norm_num) _ _ (by simp [bentQuad])]
    intro v hv
    simp only [bentQuad, List.mem_cons, List.not_mem_nil, or_false] at hv
    rcases hv with rfl | rfl | rfl | rfl <;> simp only [bentQuad, V3.dot, List.getD_cons_zero] <;> norm_num
  rw [h1, h2] at this
  exact absurd this (by decide)

/-- **…nor translation covariant**: the same quadrilateral moved one unit along its normal (plane at distance
`d = 1` from the origin, tolerance `1e-8 + 1e-5·1`) is accepted -/
theorem coplanar_translate_fails :
    ¬ (∀ (t n : V3 ℝ) (verts : List (V3 ℝ)) (ptol : ℝ),
        coplanar n (verts.map (· + t)) ptol = coplanar n verts ptol) := by
  intro h
  have := h ⟨0, 0, 1⟩ ⟨0, 0, 1⟩ bentQuad (1 / 100000)
  have h1 : coplanar ⟨0, 0, 1⟩ bentQuad (1 / 100000) = false := by
    rw [Bool.eq_false_iff]; intro hc
    rw [coplanar_iff'] at hc
    have := hc ⟨1, 1, 1 / 10000000⟩ (by simp [bentQuad])
    simp only [bentQuad, V3.dot, List.getD_cons_zero] at this
    norm_num at this
  have h2 : coplanar ⟨0, 0, 1⟩ (bentQuad.map (· + (⟨0, 0, 1⟩ : V3 ℝ))) (1 / 100000) = true := by
    rw [coplanar_iff']
    intro v hv
    simp only [bentQuad, List.map_cons, List.map_nil, List.mem_cons, List.not_mem_nil, or_false] at hv
    rcases hv with rfl | rfl | rfl | rfl <;>
      simp only [bentQuad, V3.dot, List.map_cons, List.getD_cons_zero, V3.add_x, V3.add_y, V3.add_z] <;> norm_num
  rw [h1, h2] at this
  exact absurd this (by decide)

/-! ### the repaired test (744f807): invariant under every proper similarity -/

theorem planarExtent_sim {g : Sim} (hg : g.Proper) (verts : List (V3 ℝ)) (hne : verts ≠ []) :
    planarExtent (verts.map g.pt) = g.k * planarExtent verts := by
  unfold planarExtent
  rw [getD_map_pt g verts hne]
  have h0 : (lit 0 : ℝ) = g.k * lit 0 := by simp [Scalar.lit]
  have hm : ((verts.map g.pt).map fun v => V3.norm (v - g.pt (verts.getD 0 V3.zero)))
      = (verts.map fun v => V3.norm (v - verts.getD 0 V3.zero)).map (g.k * ·) := by
    rw [List.map_map, List.map_map]
    apply List.map_congr_left
    intro v _
    simp only [Function.comp, Sim.dist hg]
  simp only [] at hm ⊢
  rw [hm]
  conv_lhs => rw [h0]
  exact foldl_smax_mul hg.kpos _ _

/-- **the repaired coplanarity test does not depend on scale, orientation or position**: for EVERY vertex list
(planar or not), every normal and every tolerance. -/
theorem coplanarRel_sim {g : Sim} (hg : g.Proper) (n : V3 ℝ) (verts : List (V3 ℝ)) (ptol : ℝ) :
    coplanarRel (g.dir n) (verts.map g.pt) ptol = coplanarRel n verts ptol := by
  by_cases hne : verts = []
  · subst hne; rfl
  unfold coplanarRel
  simp only []
  rw [planarExtent_sim hg verts hne, getD_map_pt g verts hne, List.all_map]
  apply List.all_congr rfl
  intro v
  simp only [Function.comp, Sim.pt_sub, Sim.vec_dot_dir hg, Scalar.abs_real, abs_mul, abs_of_pos hg.kpos]
  rw [decide_eq_decide]
  have : ptol * (g.k * planarExtent verts) = g.k * (ptol * planarExtent verts) := by ring
  rw [this]
  exact mul_le_mul_iff_right₀ hg.kpos

/-- the bent quadrilateral that the OLD test accepts or rejects depending on scale and position gets ONE answer
from the repaired test, whatever the placement -/
example {g : Sim} (hg : g.Proper) :
    coplanarRel (g.dir ⟨0, 0, 1⟩) (bentQuad.map g.pt) (1 / 100000) = coplanarRel ⟨0, 0, 1⟩ bentQuad (1 / 100000) :=
  coplanarRel_sim hg _ _ _

/-! ### first-corner normal and the orthogonality test (dimensionless: covariant) -/

theorem unitize_vec {g : Sim} (hg : g.Proper) (c : V3 ℝ) : unitize (g.vec c) = (unitize c).map g.dir := by
  unfold unitize
  rw [Sim.vec_norm hg]
  have e : Scalar.eqb (g.k * V3.norm c) (lit 0 : ℝ) = Scalar.eqb (V3.norm c) (lit 0 : ℝ) := by
    show decide (g.k * V3.norm c = ((0 : Nat) : ℝ)) = decide (V3.norm c = ((0 : Nat) : ℝ))
    rw [decide_eq_decide]; simp only [Nat.cast_zero]; exact pos_mul_eq_zero hg.kpos _
  rw [e]
  split_ifs
  · rfl
  · simp only [Option.map_some, Sim.sdiv_vec hg]

theorem unitize_smul {c : ℝ} (hc : 0 < c) (v : V3 ℝ) : unitize (V3.smul c v) = unitize v := by
  unfold unitize
  rw [V3.norm_smul_nonneg hc.le]
  have e : Scalar.eqb (c * V3.norm v) (lit 0 : ℝ) = Scalar.eqb (V3.norm v) (lit 0 : ℝ) := by
    show decide (c * V3.norm v = ((0 : Nat) : ℝ)) = decide (V3.norm v = ((0 : Nat) : ℝ))
    rw [decide_eq_decide]; simp only [Nat.cast_zero]; exact pos_mul_eq_zero hc _
  rw [e]
  split_ifs
  · rfl
  · congr 1
    ext <;> simp only [V3.sdiv_x, V3.sdiv_y, V3.sdiv_z, V3.smul_x, V3.smul_y, V3.smul_z] <;>
      rw [mul_div_mul_left _ _ hc.ne']

/-- **the first-corner normal rotates with the shape** (≥ 3 vertices; a degenerate corner stays degenerate) -/
theorem cornerNormal_sim {g : Sim} (hg : g.Proper) (verts : List (V3 ℝ)) (h3 : 3 ≤ verts.length) :
    cornerNormal (verts.map g.pt) = (cornerNormal verts).map g.dir := by
  unfold cornerNormal cornerCross
  have hget : ∀ i, i < 3 → (verts.map g.pt).getD i V3.zero = g.pt (verts.getD i V3.zero) := by
    intro i hi
    have hi' : i < verts.length := by omega
    simp only [List.getD_eq_getElem?_getD, List.getElem?_map, List.getElem?_eq_getElem hi', Option.map_some,
      Option.getD_some]
  simp only [hget 0 (by omega), hget 1 (by omega), hget 2 (by omega), Sim.pt_sub, Sim.vec_cross hg]
  rw [unitize_smul (pow_pos hg.kpos 2)]
  have : g.dir (V3.cross (verts.getD 2 V3.zero - verts.getD 1 V3.zero) (verts.getD 0 V3.zero - verts.getD 1 V3.zero))
      = (⟨1, g.R, ⟨0, 0, 0⟩⟩ : Sim).vec (V3.cross (verts.getD 2 V3.zero - verts.getD 1 V3.zero)
          (verts.getD 0 V3.zero - verts.getD 1 V3.zero)) := by
    unfold Sim.dir Sim.vec
    ext <;> simp only [V3.smul_x, V3.smul_y, V3.smul_z, one_mul]
  rw [this, unitize_vec (g := ⟨1, g.R, ⟨0, 0, 0⟩⟩) ⟨one_pos, hg.rot⟩]
  rfl

/-- **the orthogonality test of a supplied normal is rotation invariant** (any positive multiple of the rotated
normal may be supplied) -/
theorem chooseNormal_sim {g : Sim} (hg : g.Proper) (computed : Option (V3 ℝ)) (nv : V3 ℝ) :
    chooseNormal (computed.map g.dir) (some (g.dir nv)) =
      (match chooseNormal computed (some nv) with
       | .ok o => .ok (o.map g.dir)
       | .error e => .error e) := by
  unfold chooseNormal
  have hu : unitize (g.dir nv) = (unitize nv).map g.dir := by
    have : g.dir nv = (⟨1, g.R, ⟨0, 0, 0⟩⟩ : Sim).vec nv := by
      unfold Sim.dir Sim.vec
      ext <;> simp only [V3.smul_x, V3.smul_y, V3.smul_z, one_mul]
    rw [this, unitize_vec (g := ⟨1, g.R, ⟨0, 0, 0⟩⟩) ⟨one_pos, hg.rot⟩]; rfl
  dsimp only
  rw [hu]
  cases computed with
  | none => rfl
  | some c =>
    cases unitize nv with
    | none => rfl
    | some nn =>
      simp only [Option.map_some, Sim.dir_dot hg]
      split_ifs <;> rfl

end C15

/-! ### `merge_faces`: `np.allclose` on plane-equation rows -/

namespace Struct

theorem isclose_iff (a b rtol atol : ℝ) : isclose a b rtol atol = true ↔ |a - b| ≤ atol + rtol * |b| := by
  unfold isclose; simp only [decide_eq_true_eq, Scalar.abs_real]

/-- rows `(n, k d)`: the three normal tests are unchanged, the offset test becomes
`|d₁ − d₂| ≤ atol / k + rtol · |d₂|` -/
theorem allclose_scale_iff {k : ℝ} (hk : 0 < k) (atol rtol : ℝ) (n1 n2 : V3 ℝ) (d1 d2 : ℝ) :
    allclose atol rtol (n1, k * d1) (n2, k * d2) = true ↔
      (isclose n1.x n2.x rtol atol = true ∧ isclose n1.y n2.y rtol atol = true ∧ isclose n1.z n2.z rtol atol = true ∧
        |d1 - d2| ≤ atol / k + rtol * |d2|) := by
  unfold allclose
  simp only [Bool.and_eq_true, isclose_iff]
  rw [← mul_sub, abs_mul, abs_mul, abs_of_pos hk, div_add' _ _ _ hk.ne', le_div_iff₀ hk]
  constructor
  · rintro ⟨⟨⟨h1, h2⟩, h3⟩, h4⟩; exact ⟨h1, h2, h3, by nlinarith⟩
  · rintro ⟨h1, h2, h3, h4⟩; exact ⟨⟨⟨h1, h2⟩, h3⟩, by nlinarith⟩

/-- **coplanar neighbours (equal rows) are merged at every scale**, for non-negative tolerances -/
theorem allclose_self_scale {k : ℝ} (atol rtol : ℝ) (ha : 0 ≤ atol) (hr : 0 ≤ rtol) (n : V3 ℝ) (d : ℝ) :
    allclose atol rtol (n, k * d) (n, k * d) = true := by
  unfold allclose
  simp only [Bool.and_eq_true, isclose_iff, sub_self, abs_zero]
  refine ⟨⟨⟨?_, ?_⟩, ?_⟩, ?_⟩ <;> positivity

/-- **the merge decision is not scale covariant**: two parallel planes `5·10⁻⁶` apart are distinct at size 1 and
"close" at size `10⁻³` (default tolerances) -/
theorem allclose_scale_fails :
    ¬ (∀ (k : ℝ), 0 < k → ∀ (n1 n2 : V3 ℝ) (d1 d2 : ℝ),
        allclose (1 / 100000000) (1 / 100000) (n1, k * d1) (n2, k * d2)
          = allclose (1 / 100000000) (1 / 100000) (n1, d1) (n2, d2)) := by
  intro h
  have := h (1 / 1000) (by norm_num) ⟨0, 0, 1⟩ ⟨0, 0, 1⟩ 0 (5 / 1000000)
  have h1 : allclose (1 / 100000000 : ℝ) (1 / 100000) (⟨0, 0, 1⟩, 0) (⟨0, 0, 1⟩, 5 / 1000000) = false := by
    rw [Bool.eq_false_iff]; intro hc
    unfold allclose at hc
    simp only [Bool.and_eq_true, isclose_iff] at hc
    have := hc.2
    rw [abs_of_nonpos (by norm_num), abs_of_nonneg (by norm_num)] at this
    norm_num at this
  have h2 : allclose (1 / 100000000 : ℝ) (1 / 100000) (⟨0, 0, 1⟩, 1 / 1000 * 0) (⟨0, 0, 1⟩, 1 / 1000 * (5 / 1000000)) = true := by
    rw [allclose_scale_iff (by norm_num)]
    refine ⟨?_, ?_, ?_, ?_⟩
    · rw [isclose_iff]; norm_num
    · rw [isclose_iff]; norm_num
    · rw [isclose_iff]; norm_num
    · rw [abs_of_nonpos (by norm_num), abs_of_nonneg (by norm_num)]; norm_num
  rw [h1, h2] at this
  exact absurd this (by decide)

/-- **…nor translation covariant**: the same two planes seen from one unit away (`d ↦ d − n·t`, `t = −ẑ`) pass the
relative part of the test -/
theorem allclose_translate_fails :
    ¬ (∀ (t : V3 ℝ) (n1 n2 : V3 ℝ) (d1 d2 : ℝ),
        allclose (1 / 100000000) (1 / 100000) (n1, d1 - V3.dot n1 t) (n2, d2 - V3.dot n2 t)
          = allclose (1 / 100000000) (1 / 100000) (n1, d1) (n2, d2)) := by
  intro h
  have := h ⟨0, 0, -1⟩ ⟨0, 0, 1⟩ ⟨0, 0, 1⟩ 0 (5 / 1000000)
  have h1 : allclose (1 / 100000000 : ℝ) (1 / 100000) (⟨0, 0, 1⟩, 0) (⟨0, 0, 1⟩, 5 / 1000000) = false := by
    rw [Bool.eq_false_iff]; intro hc
    unfold allclose at hc
    simp only [Bool.and_eq_true, isclose_iff] at hc
    have := hc.2
    rw [abs_of_nonpos (by norm_num), abs_of_nonneg (by norm_num)] at this
    norm_num at this
  have h2 : allclose (1 / 100000000 : ℝ) (1 / 100000) (⟨0, 0, 1⟩, 0 - V3.dot ⟨0, 0, 1⟩ ⟨0, 0, -1⟩)
      (⟨0, 0, 1⟩, 5 / 1000000 - V3.dot ⟨0, 0, 1⟩ ⟨0, 0, -1⟩) = true := by
    unfold allclose
    simp only [Bool.and_eq_true, isclose_iff, V3.dot]
    refine ⟨⟨⟨?_, ?_⟩, ?_⟩, ?_⟩
    · norm_num
    · norm_num
    · norm_num
    · rw [abs_of_nonpos (by norm_num), abs_of_nonneg (by norm_num)]; norm_num
  rw [h1, h2] at this
  exact absurd this (by decide)

/-! ### `_combine_simplices(tol = 2e-15)` -/

theorem eqClose_iff (tol : ℝ) (e f : Eqn ℝ) : eqClose tol e f = true ↔
    (|e.1.x - f.1.x| < tol ∧ |e.1.y - f.1.y| < tol ∧ |e.1.z - f.1.z| < tol ∧ |e.2 - f.2| < tol) := by
  unfold eqClose
  simp only [Bool.and_eq_true, decide_eq_true_eq, Scalar.abs_real]
  tauto

/-- identical rows are combined at every scale (`tol > 0`) -/
theorem eqClose_self {tol : ℝ} (ht : 0 < tol) (e : Eqn ℝ) : eqClose tol e e = true := by
  unfold eqClose
  simp only [sub_self, Scalar.abs_real, abs_zero, ht, decide_true, Bool.and_self]

/-- rows whose NORMALS differ by at least `tol` in some component are kept apart at every scale -/
theorem eqClose_scale_of_normals {tol : ℝ} (n1 n2 : V3 ℝ) (d1 d2 : ℝ)
    (h : tol ≤ |n1.x - n2.x| ∨ tol ≤ |n1.y - n2.y| ∨ tol ≤ |n1.z - n2.z|) (k : ℝ) :
    eqClose tol (n1, k * d1) (n2, k * d2) = false := by
  unfold eqClose
  simp only [Scalar.abs_real, Bool.and_eq_false_iff, decide_eq_false_iff_not, not_lt]
  rcases h with h | h | h
  · exact Or.inl (Or.inl (Or.inl h))
  · exact Or.inl (Or.inl (Or.inr h))
  · exact Or.inl (Or.inr h)

/-- without one of the two conditions the decision depends on the scale: equal normals, offsets `10⁻¹⁵` apart
(below `tol = 2·10⁻¹⁵`) at size 1, `10⁻¹²` apart at size `10³` -/
theorem eqClose_scale_fails :
    ¬ (∀ (k : ℝ), 0 < k → ∀ (n1 n2 : V3 ℝ) (d1 d2 : ℝ),
        eqClose (2 / 1000000000000000) (n1, k * d1) (n2, k * d2) = eqClose (2 / 1000000000000000) (n1, d1) (n2, d2)) := by
  intro h
  have := h 1000 (by norm_num) ⟨0, 0, 1⟩ ⟨0, 0, 1⟩ 0 (1 / 1000000000000000)
  have h1 : eqClose (2 / 1000000000000000 : ℝ) (⟨0, 0, 1⟩, 0) (⟨0, 0, 1⟩, 1 / 1000000000000000) = true := by
    rw [eqClose_iff]
    refine ⟨?_, ?_, ?_, ?_⟩ <;> simp only [sub_self, abs_zero] <;> norm_num [abs_of_nonpos]
  have h2 : eqClose (2 / 1000000000000000 : ℝ) (⟨0, 0, 1⟩, 1000 * 0) (⟨0, 0, 1⟩, 1000 * (1 / 1000000000000000)) = false := by
    rw [Bool.eq_false_iff]; intro hc
    rw [eqClose_iff] at hc
    have := hc.2.2.2
    simp only [] at this
    rw [abs_of_nonpos (by norm_num)] at this
    norm_num at this
  rw [h1, h2] at this
  exact absurd this (by decide)

end Struct

end
