import CoxeterVerif.Lemmas.CurvedSpheroid2
/-!
  C10: the CODE's `Ellipsoid.surface_area` on spheroids, relative to the contracts of `ellipeinc/ellipkinc`:
  oblate (`m = 1`: `E = sin φ`, `F = arsinh(tan φ)`) and prolate (`m = 0`: `E = F = φ`).
-/
open Curved MeasureTheory intervalIntegral
noncomputable section
namespace C10

theorem saPhi_facts (a c : ℝ) (hc : 0 < c) (hca : c < a) :
    0 < Ellipsoid.saPhi a c ∧ Ellipsoid.saPhi a c < Real.pi / 2 ∧
    Real.sin (Ellipsoid.saPhi a c) = Real.sqrt (a ^ 2 - c ^ 2) / a ∧ Real.cos (Ellipsoid.saPhi a c) = c / a := by
  have ha : 0 < a := hc.trans hca
  have hx0 : 0 < c / a := by positivity
  have hx1 : c / a < 1 := by rw [div_lt_one ha]; exact hca
  simp only [Ellipsoid.saPhi, Scalar.acos_real]
  refine ⟨Real.arccos_pos.mpr hx1, ?_, ?_, Real.cos_arccos (by linarith) hx1.le⟩
  · rw [Real.arccos_lt_pi_div_two]; exact hx0
  · rw [Real.sin_arccos]
    rw [show 1 - (c / a) ^ 2 = (a ^ 2 - c ^ 2) / a ^ 2 by field_simp, Real.sqrt_div (by nlinarith), Real.sqrt_sq ha.le]

/-- the code on an OBLATE spheroid (`a = b > c`), relative to the contracts of `ellipeinc/ellipkinc` -/
theorem surfaceArea_oblate_code (E K : ℝ → ℝ → ℝ) (hE : IsEllipeinc E) (hK : IsEllipkinc K) (a c : ℝ)
    (hc : 0 < c) (hca : c < a) :
    Ellipsoid.surfaceArea E K a a c
      = 2 * Real.pi * (a ^ 2 + a * c ^ 2 / Real.sqrt (a ^ 2 - c ^ 2) * Real.arsinh (Real.sqrt (a ^ 2 - c ^ 2) / c)) := by
  have ha : 0 < a := hc.trans hca
  have hk : 0 < a ^ 2 - c ^ 2 := by nlinarith
  have hκ : 0 < Real.sqrt (a ^ 2 - c ^ 2) := Real.sqrt_pos.mpr hk
  have hκ2 : Real.sqrt (a ^ 2 - c ^ 2) ^ 2 = a ^ 2 - c ^ 2 := Real.sq_sqrt hk.le
  obtain ⟨hφ0, hφ1, hsin, hcos⟩ := saPhi_facts a c hc hca
  have hsort : sort3 a a c = (c, a, a) := by
    rw [sort3_swap23, sort3_swap12, sort3_sorted hca.le le_rfl]
  have hm : Ellipsoid.saM a a c = 1 := by
    simp only [Ellipsoid.saM, Scalar.sqr]
    have : a * a * (a * a - c * c) ≠ 0 := by
      have : 0 < a * a - c * c := by nlinarith
      positivity
    exact div_self this
  have htan : Real.tan (Ellipsoid.saPhi a c) = Real.sqrt (a ^ 2 - c ^ 2) / c := by
    rw [Real.tan_eq_sin_div_cos, hsin, hcos]; field_simp
  unfold Ellipsoid.surfaceArea
  rw [hsort]
  simp only [Ellipsoid.ellipticPart, Scalar.lt_real, if_pos hca, hm, Scalar.min_real, Scalar.lit, Scalar.ofNat_real,
    Nat.cast_one, min_self, Scalar.sin_real, Scalar.cos_real, Scalar.sqr, Scalar.pi_real, Nat.cast_ofNat]
  rw [hE _ 1 hφ0.le hφ1.le zero_le_one le_rfl, hK _ 1 hφ0.le hφ1 zero_le_one le_rfl, einc_one _ hφ0.le hφ1.le,
    kinc_one _ hφ0.le hφ1, htan, hsin, hcos]
  generalize Real.arsinh (Real.sqrt (a ^ 2 - c ^ 2) / c) = A
  generalize Real.sqrt (a ^ 2 - c ^ 2) = κ at hκ hκ2 ⊢
  field_simp
  linear_combination κ * hκ2

/-- the code on a PROLATE spheroid (`a > b = c`), relative to the contracts -/
theorem surfaceArea_prolate_code (E K : ℝ → ℝ → ℝ) (hE : IsEllipeinc E) (hK : IsEllipkinc K) (a c : ℝ)
    (hc : 0 < c) (hca : c < a) :
    Ellipsoid.surfaceArea E K c c a
      = 2 * Real.pi * (c ^ 2 + a ^ 2 * c / Real.sqrt (a ^ 2 - c ^ 2) * Real.arcsin (Real.sqrt (a ^ 2 - c ^ 2) / a)) := by
  have ha : 0 < a := hc.trans hca
  have hk : 0 < a ^ 2 - c ^ 2 := by nlinarith
  have hκ : 0 < Real.sqrt (a ^ 2 - c ^ 2) := Real.sqrt_pos.mpr hk
  obtain ⟨hφ0, hφ1, hsin, hcos⟩ := saPhi_facts a c hc hca
  have hsort : sort3 c c a = (c, c, a) := sort3_sorted le_rfl hca.le
  have hm : Ellipsoid.saM a c c = 0 := by
    simp only [Ellipsoid.saM, Scalar.sqr, sub_self, mul_zero, zero_div]
  have hphi : Ellipsoid.saPhi a c = Real.arcsin (Real.sqrt (a ^ 2 - c ^ 2) / a) := by
    simp only [Ellipsoid.saPhi, Scalar.acos_real]
    rw [Real.arccos_eq_arcsin (by positivity)]
    congr 1
    rw [show 1 - (c / a) ^ 2 = (a ^ 2 - c ^ 2) / a ^ 2 by field_simp, Real.sqrt_div (by nlinarith), Real.sqrt_sq ha.le]
  unfold Ellipsoid.surfaceArea
  rw [hsort]
  simp only [Ellipsoid.ellipticPart, Scalar.lt_real, if_pos hca, hm, Scalar.min_real, Scalar.lit, Scalar.ofNat_real,
    Nat.cast_one, Scalar.sin_real, Scalar.cos_real, Scalar.sqr, Scalar.pi_real, Nat.cast_ofNat,
    min_eq_left (zero_le_one' ℝ)]
  rw [hE _ 0 hφ0.le hφ1.le le_rfl zero_le_one, hK _ 0 hφ0.le hφ1 le_rfl zero_le_one, einc_zero, kinc_zero, hsin, hcos,
    hphi]
  generalize Real.arcsin (Real.sqrt (a ^ 2 - c ^ 2) / a) = A
  have hκ2 : Real.sqrt (a ^ 2 - c ^ 2) ^ 2 = a ^ 2 - c ^ 2 := Real.sq_sqrt hk.le
  generalize Real.sqrt (a ^ 2 - c ^ 2) = κ at hκ hκ2 ⊢
  field_simp
  linear_combination A * hκ2

end C10
