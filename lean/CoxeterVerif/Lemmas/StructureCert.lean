import CoxeterVerif.Lemmas.StructureFuel
import Mathlib.Algebra.BigOperators.Group.List.Basic
/-!
  C07, deepening round — combinatorial certificates and what they imply.

  * `closedOrientedB_iff`  : the decidable closed-oriented-surface check is `ClosedOriented`;
  * `refOrientation_of_closed` : a closed oriented reference (keep / reverse per face) is a
    `RefOrientation` for every neighbour table whose pairs are different faces sharing an edge;
  * `closedOriented_reverseAll` : the global flip keeps a surface closed and oriented;
  * `visited_iff_reach` : the traversal visits exactly the component of face 0;
  * `propagate_eq_ref` : on a connected orientable surface the traversal returns the reference
    orientation or its global reversal, as a LIST equality (no stack / fuel hypothesis);
  * `sum_antisymm_zero`, `signedVolume_translate_closed` : over a closed oriented triangulated
    surface the signed volume does not depend on the origin;
  * `signedVolume_pos_of_outward` : an outward closed oriented triangulation has positive volume.
-/
open Struct
set_option maxRecDepth 4000

namespace StructLemmas
open StructSpec (dirEdges allDir ClosedOriented RefOrientation Reach flipIf)

/-! ### decidable closed-oriented check -/

theorem nodupB_iff (D : List Edge) : StructSpec.nodupB D = true ↔ D.Nodup := by
  induction D with
  | nil => simp [StructSpec.nodupB]
  | cons a l ih =>
    simp only [StructSpec.nodupB, Bool.and_eq_true, ih, List.nodup_cons, Bool.not_eq_true',
      List.contains_eq_mem, decide_eq_false_iff_not]

theorem closedOrientedB_iff (F : List Face) :
    StructSpec.closedOrientedB F = true ↔ ClosedOriented F := by
  unfold StructSpec.closedOrientedB
  simp only [Bool.and_eq_true, nodupB_iff, List.all_eq_true, List.contains_eq_mem, decide_eq_true_eq,
    bne_iff_ne]
  constructor
  · rintro ⟨⟨h1, h2⟩, h3⟩; exact ⟨h1, h2, h3⟩
  · rintro ⟨h1, h2, h3⟩; exact ⟨⟨h1, h2⟩, h3⟩

theorem sameUpToReversalB_iff (F G : List Face) :
    StructSpec.sameUpToReversalB F G = true ↔
      (G.length = F.length ∧
        ∀ k, k < F.length → G.getD k [] = F.getD k [] ∨ G.getD k [] = (F.getD k []).reverse) := by
  unfold StructSpec.sameUpToReversalB
  simp only [Bool.and_eq_true, beq_iff_eq, List.all_eq_true, List.mem_range, Bool.or_eq_true]

/-- keep / reverse per face holds for all indices once it holds below the common length -/
theorem orig_all {F G : List Face} (hlen : G.length = F.length)
    (h : ∀ k, k < F.length → G.getD k [] = F.getD k [] ∨ G.getD k [] = (F.getD k []).reverse) :
    ∀ k, G.getD k [] = F.getD k [] ∨ G.getD k [] = (F.getD k []).reverse := by
  intro k
  by_cases hk : k < F.length
  · exact h k hk
  · have h1 : G.getD k [] = [] := by
      simp [List.getD_eq_getElem?_getD, List.getElem?_eq_none (show G.length ≤ k by omega)]
    have h2 : F.getD k [] = [] := by
      simp [List.getD_eq_getElem?_getD, List.getElem?_eq_none (show F.length ≤ k by omega)]
    rw [h1, h2]; exact Or.inl rfl

/-! ### reversal of directed edges -/

def swapE (e : Edge) : Edge := (e.2, e.1)

theorem swapE_inj : Function.Injective swapE := by
  intro a b h
  simp only [swapE, Prod.mk.injEq] at h
  exact Prod.ext h.2 h.1

theorem perm_of_nodup_subset_length {l₁ l₂ : List Edge} (h1 : l₁.Nodup) (hs : l₁ ⊆ l₂)
    (hl : l₂.length ≤ l₁.length) : l₁.Perm l₂ :=
  (List.subperm_of_subset h1 hs).perm_of_length_le hl

theorem dirEdges_length (f : Face) : (dirEdges f).length = f.length := by
  simp [dirEdges]

theorem dirEdges_reverse_perm (f : Face) (hnd : (dirEdges f).Nodup) :
    ((dirEdges f).map swapE).Perm (dirEdges f.reverse) := by
  apply perm_of_nodup_subset_length (hnd.map swapE_inj)
  · intro x hx
    obtain ⟨⟨a, b⟩, he, rfl⟩ := List.mem_map.mp hx
    exact mem_dirEdges_reverse he
  · simp [dirEdges_length]

theorem allDir_cons (f : Face) (G : List Face) : allDir (f :: G) = dirEdges f ++ allDir G := by
  simp [allDir]

theorem allDir_reverseAll_perm (G : List Face) (hnd : (allDir G).Nodup) :
    ((allDir G).map swapE).Perm (allDir (reverseAll G)) := by
  induction G with
  | nil => simp [allDir, reverseAll]
  | cons f G ih =>
    rw [allDir_cons] at hnd
    have h1 := (List.nodup_append.mp hnd).1
    have h2 := (List.nodup_append.mp hnd).2.1
    simp only [reverseAll, List.map_cons] at ih ⊢
    rw [allDir_cons, allDir_cons, List.map_append]
    exact (dirEdges_reverse_perm f h1).append (ih h2)

/-- **the global flip keeps the surface closed and oriented** -/
theorem closedOriented_reverseAll {G : List Face} (h : ClosedOriented G) :
    ClosedOriented (reverseAll G) := by
  have hp := allDir_reverseAll_perm G h.nodup
  have hmem : ∀ e, e ∈ allDir (reverseAll G) ↔ swapE e ∈ allDir G := by
    intro e
    rw [← hp.mem_iff, List.mem_map]
    constructor
    · rintro ⟨x, hx, rfl⟩; simpa [swapE] using hx
    · intro hx; exact ⟨swapE e, hx, by simp [swapE]⟩
  constructor
  · exact hp.nodup_iff.mp (h.nodup.map swapE_inj)
  · intro e he
    rw [hmem] at he ⊢
    have := h.rev _ he
    simpa [swapE] using this
  · intro e he
    rw [hmem] at he
    have := h.noLoop _ he
    simp only [swapE] at this
    exact fun h' => this h'.symm

/-! ### a closed oriented reference is a `RefOrientation` -/

theorem getD_mem_or_nil (G : List Face) (k : Nat) : G.getD k [] = [] ∨ ∃ h : k < G.length, G.getD k [] = G[k] := by
  by_cases hk : k < G.length
  · exact Or.inr ⟨hk, by simp [List.getD_eq_getElem?_getD, hk]⟩
  · exact Or.inl (by simp [List.getD_eq_getElem?_getD, List.getElem?_eq_none (show G.length ≤ k by omega)])

/-- different faces of a surface without repeated directed edges have no directed edge in common -/
theorem consistent_of_nodup {G : List Face} (hnd : (allDir G).Nodup) {u v : Nat} (huv : u ≠ v) :
    StructSpec.Consistent (G.getD u []) (G.getD v []) := by
  intro e he hf
  rcases getD_mem_or_nil G u with h | ⟨hu, hu'⟩
  · rw [h] at hf; simp [dirEdges_nil] at hf
  rcases getD_mem_or_nil G v with h | ⟨hv, hv'⟩
  · rw [h] at he; simp [dirEdges_nil] at he
  rw [hu'] at hf; rw [hv'] at he
  unfold allDir at hnd
  rw [List.nodup_flatMap] at hnd
  have hpw := hnd.2
  rw [List.pairwise_iff_getElem] at hpw
  rcases Nat.lt_or_gt_of_ne huv with hlt | hgt
  · exact (hpw u v hu hv hlt) hf he
  · exact (hpw v u hv hu hgt) he hf

theorem sharesEdge_of_orig {f g f' g' : Face} (h : StructSpec.SharesEdge f g)
    (hf : f' = f ∨ f' = f.reverse) (hg : g' = g ∨ g' = g.reverse) : StructSpec.SharesEdge f' g' := by
  rcases hf with rfl | rfl <;> rcases hg with rfl | rfl
  · exact h
  · exact sharesEdge_reverse_right' h
  · exact sharesEdge_reverse_left h
  · exact sharesEdge_reverse_left (sharesEdge_reverse_right' h)

/-- **orientability certificate ⇒ `RefOrientation`**: if `G` keeps or reverses every face of `F`,
has no directed edge twice, and every listed neighbour pair consists of two different faces of `F`
sharing an edge, then `G` is a consistent reference orientation -/
theorem refOrientation_of_closed {nbrs : List (List Nat)} {F G : List Face}
    (horig : ∀ k, G.getD k [] = F.getD k [] ∨ G.getD k [] = (F.getD k []).reverse)
    (hnd : (allDir G).Nodup)
    (hnb : ∀ u v, v ∈ nbrs.getD u [] → u ≠ v ∧ StructSpec.SharesEdge (F.getD u []) (F.getD v [])) :
    RefOrientation nbrs F G :=
  ⟨horig,
   fun u v h => sharesEdge_of_orig (hnb u v h).2 (horig u) (horig v),
   fun u v h => consistent_of_nodup hnd (hnb u v h).1⟩

theorem nbrsShareB_spec {nbrs : List (List Nat)} {F : List Face} (h : nbrsShareB nbrs F = true) :
    ∀ u v, v ∈ nbrs.getD u [] → u ≠ v ∧ StructSpec.SharesEdge (F.getD u []) (F.getD v []) := by
  intro u v hv
  have hu : u < nbrs.length := by
    by_contra hge
    have : nbrs.getD u [] = [] := by
      simp [List.getD_eq_getElem?_getD, List.getElem?_eq_none (show nbrs.length ≤ u by omega)]
    rw [this] at hv; simp at hv
  unfold nbrsShareB at h
  simp only [List.all_eq_true, List.mem_range, Bool.and_eq_true, bne_iff_ne, Bool.not_eq_true',
    List.isEmpty_eq_false_iff] at h
  have := h u hu v hv
  exact ⟨this.1, commonEdges_ne_nil.mp this.2⟩

theorem findNeighbors_shares {F : List Face} {N : List (List Nat)} (h : findNeighbors F = .ok N) :
    ∀ u v, v ∈ N.getD u [] → u ≠ v ∧ StructSpec.SharesEdge (F.getD u []) (F.getD v []) := by
  intro u v hv
  have := (findNeighbors_spec h u v).mp hv
  exact ⟨this.2.2.1, this.2.2.2⟩

/-! ### the traversal visits exactly what is reachable -/

theorem visitNeighbors_reach (nbrs : List (List Nat)) (cur : Nat) (ce : List Edge) (hcur : Reach nbrs cur) :
    ∀ (nbs : List Nat) (st : PState), (∀ nb ∈ nbs, nb ∈ nbrs.getD cur []) →
      ((∀ v ∈ st.visited, Reach nbrs v) ∧ (∀ s ∈ st.stack, Reach nbrs s)) →
      ((∀ v ∈ (visitNeighbors ce nbs st).visited, Reach nbrs v) ∧
       (∀ s ∈ (visitNeighbors ce nbs st).stack, Reach nbrs s)) := by
  intro nbs
  induction nbs with
  | nil => intro st _ h; exact h
  | cons nb nbs ih =>
    intro st hsub h
    simp only [visitNeighbors, List.foldl_cons]
    by_cases hv : st.visited.contains nb = true
    · rw [if_pos hv]; exact ih st (fun x hx => hsub x (List.mem_cons_of_mem _ hx)) h
    · rw [if_neg hv]
      apply ih _ (fun x hx => hsub x (List.mem_cons_of_mem _ hx))
      have hr : Reach nbrs nb := Reach.step hcur (hsub nb List.mem_cons_self)
      constructor
      · intro v hvm
        simp only [List.mem_append, List.mem_singleton] at hvm
        rcases hvm with hvm | rfl
        · exact h.1 v hvm
        · exact hr
      · intro s hs
        simp only [List.mem_cons] at hs
        rcases hs with rfl | hs
        · exact hr
        · exact h.2 s hs

theorem propagateLoop_reach (nbrs : List (List Nat)) :
    ∀ (fuel : Nat) (st : PState),
      ((∀ v ∈ st.visited, Reach nbrs v) ∧ (∀ s ∈ st.stack, Reach nbrs s)) →
      (∀ v ∈ (propagateLoop nbrs fuel st).visited, Reach nbrs v) := by
  intro fuel
  induction fuel with
  | zero => intro st h; exact h.1
  | succ fuel ih =>
    intro st h
    unfold propagateLoop
    rcases hst : st.stack with _ | ⟨cur, rest⟩
    · simp only; exact h.1
    · simp only
      apply ih
      have hcur : Reach nbrs cur := h.2 cur (by rw [hst]; exact List.mem_cons_self)
      apply visitNeighbors_reach nbrs cur _ hcur _ _ (fun _ hx => hx)
      constructor
      · intro v hv
        simp only [List.mem_append, List.mem_singleton] at hv
        rcases hv with hv | rfl
        · exact h.1 v hv
        · exact hcur
      · intro s hs
        exact h.2 s (by rw [hst]; exact List.mem_cons_of_mem _ hs)

/-- **the traversal visits exactly the connected component of face 0** (no hypothesis) -/
theorem visited_iff_reach (nbrs : List (List Nat)) (F : List Face) (k : Nat) :
    k ∈ (propagate nbrs F).visited ↔ Reach nbrs k := by
  constructor
  · intro hk
    unfold propagate at hk
    exact propagateLoop_reach nbrs _ _
      ⟨by intro v hv; simp at hv, by intro s hs; simp at hs; rw [hs]; exact Reach.zero⟩ k hk
  · intro hk
    induction hk with
    | zero => exact zero_mem_visited nbrs F
    | step _ hv ih => exact propagate_closed nbrs F (propagate_stack_empty nbrs F) _ ih _ hv

theorem visitsAll_iff (nbrs : List (List Nat)) (F : List Face) :
    visitsAll nbrs F = true ↔ ∀ k, k < F.length → Reach nbrs k := by
  unfold visitsAll
  simp only [List.all_eq_true, List.mem_range, List.contains_eq_mem, decide_eq_true_eq]
  constructor
  · intro h k hk; exact (visited_iff_reach nbrs F k).mp (h k hk)
  · intro h k hk; exact (visited_iff_reach nbrs F k).mpr (h k hk)

/-! ### the traversal returns the reference orientation or its global reversal -/

theorem reverseAll_getD (G : List Face) (k : Nat) : (reverseAll G).getD k [] = (G.getD k []).reverse := by
  unfold reverseAll
  simp only [List.getD_eq_getElem?_getD, List.getElem?_map]
  cases G[k]? <;> simp

theorem list_eq_of_getD {A B : List Face} (hlen : A.length = B.length)
    (h : ∀ k, k < B.length → A.getD k [] = B.getD k []) : A = B := by
  apply List.ext_getElem hlen
  intro i h1 h2
  have := h i h2
  simpa [List.getD_eq_getElem?_getD, h1, h2] using this

/-- **propagation on a connected orientable face graph** returns the consistent orientation `G`
or its reversal, as lists. -/
theorem propagate_eq_ref (nbrs : List (List Nat)) (F G : List Face)
    (hlen : G.length = F.length)
    (href : RefOrientation nbrs F G)
    (hconn : ∀ k, k < F.length → Reach nbrs k) :
    (propagate nbrs F).faces = G ∨ (propagate nbrs F).faces = reverseAll G := by
  have h2 := propagate_inv2 nbrs F G href
  have h1 := propagate_inv nbrs F
  obtain ⟨c, hc⟩ := h2.agree
  have hall : ∀ k, k < F.length → (propagate nbrs F).faces.getD k [] = flipIf c (G.getD k []) :=
    fun k hk => hc k ((visited_iff_reach nbrs F k).mpr (hconn k hk))
  cases c with
  | false =>
    left
    apply list_eq_of_getD (by rw [h1.len, hlen])
    intro k hk
    rw [hlen] at hk
    simpa [flipIf] using hall k hk
  | true =>
    right
    apply list_eq_of_getD (by rw [h1.len]; simp [reverseAll, hlen])
    intro k hk
    have hk' : k < F.length := by simpa [reverseAll, hlen] using hk
    rw [reverseAll_getD]
    simpa [flipIf] using hall k hk'

/-! ### sums over a closed oriented surface -/

theorem sum_map_neg (D : List Edge) (g : Edge → ℝ) : (D.map fun e => -g e).sum = -(D.map g).sum := by
  induction D with
  | nil => simp
  | cons a D ih => simp only [List.map_cons, List.sum_cons, ih]; ring

/-- an antisymmetric edge function sums to zero over the directed edges of a closed oriented
surface (every edge is traversed once in each direction) -/
theorem sum_antisymm_zero {D : List Edge} (hnd : D.Nodup) (hrev : ∀ e ∈ D, (e.2, e.1) ∈ D)
    (g : Edge → ℝ) (hg : ∀ e, g (swapE e) = -g e) : (D.map g).sum = 0 := by
  have hperm : (D.map swapE).Perm D := by
    apply perm_of_nodup_subset_length (hnd.map swapE_inj)
    · intro x hx
      obtain ⟨e, he, rfl⟩ := List.mem_map.mp hx
      exact hrev e he
    · simp
  have h1 : ((D.map swapE).map g).sum = (D.map g).sum := (hperm.map g).sum_eq
  rw [List.map_map] at h1
  have h2 : (D.map (g ∘ swapE)) = D.map fun e => -g e := by
    apply List.map_congr_left; intro e _; exact hg e
  rw [h2, sum_map_neg] at h1
  linarith

theorem dirEdges_tri (a b c : Nat) : dirEdges [a, b, c] = [(a, b), (b, c), (c, a)] := by
  simp [dirEdges, StructSpec.cycEdge, List.range_succ]

/-- sum over the triangles of the three edge terms = sum over all directed edges -/
theorem sum_tri_edges (S : List Face) (h3 : ∀ s ∈ S, s.length = 3) (g : Edge → ℝ) :
    (S.map fun s => g (s.getD 0 0, s.getD 1 0) + g (s.getD 1 0, s.getD 2 0) + g (s.getD 2 0, s.getD 0 0)).sum
      = ((allDir S).map g).sum := by
  induction S with
  | nil => simp [allDir]
  | cons s S ih =>
    have hs := h3 s List.mem_cons_self
    rw [allDir_cons, List.map_append, List.sum_append, List.map_cons, List.sum_cons,
      ih (fun t ht => h3 t (List.mem_cons_of_mem _ ht))]
    congr 1
    match s, hs with
    | [a, b, c], _ =>
      rw [dirEdges_tri]
      simp only [List.getD_cons_zero, List.getD_cons_succ, List.map_cons, List.map_nil, List.sum_cons,
        List.sum_nil]
      ring

open Scalar in
/-- the signed volume seen from `p` differs from the one seen from the origin by edge terms -/
theorem det_translate (p a b c : V3 ℝ) :
    V3.det3 (a - p) (b - p) (c - p) =
      V3.det3 a b c - (V3.dot p (V3.cross a b) + V3.dot p (V3.cross b c) + V3.dot p (V3.cross c a)) := by
  obtain ⟨ax, ay, az⟩ := a; obtain ⟨bx, b_y, bz⟩ := b; obtain ⟨cx, cy, cz⟩ := c
  obtain ⟨px, py, pz⟩ := p
  unfold_model; ring

/-- **over a closed oriented triangulated surface the signed volume `Σ det(a,b,c)/6` does not
depend on the origin** -/
theorem signedVolume_translate_closed (verts : List (V3 ℝ)) (S : List Face)
    (h3 : ∀ s ∈ S, s.length = 3) (hcl : ClosedOriented S) (p : V3 ℝ) :
    CP.signedVolume (S.map fun s => (triOf verts s).map (· - p)) = CP.signedVolume (S.map (triOf verts)) := by
  let g : Edge → ℝ := fun e =>
    V3.dot p (V3.cross (verts.getD e.1 V3.zero) (verts.getD e.2 V3.zero)) / 6
  have hg : ∀ e, g (swapE e) = -g e := by
    intro e
    simp only [g, swapE]
    generalize verts.getD e.1 V3.zero = u
    generalize verts.getD e.2 V3.zero = w
    obtain ⟨ux, uy, uz⟩ := u; obtain ⟨wx, wy, wz⟩ := w; obtain ⟨px, py, pz⟩ := p
    unfold_model; ring
  have hz := sum_antisymm_zero hcl.nodup hcl.rev g hg
  rw [← sum_tri_edges S h3 g] at hz
  simp only [CP.signedVolume, Scalar.sum_real, List.map_map]
  have key : ∀ s : Face,
      ((fun t : Tri ℝ => V3.det3 t.a t.b t.c / Scalar.lit 6) ∘ fun s => (triOf verts s).map (· - p)) s =
      ((fun t : Tri ℝ => V3.det3 t.a t.b t.c / Scalar.lit 6) ∘ triOf verts) s -
        (g (s.getD 0 0, s.getD 1 0) + g (s.getD 1 0, s.getD 2 0) + g (s.getD 2 0, s.getD 0 0)) := by
    intro s
    simp only [Function.comp, triOf, Tri.map, g, det_translate, Scalar.lit, Scalar.ofNat_real]
    push_cast
    ring
  rw [List.map_congr_left (fun s _ => key s)]
  have hsub : ∀ (L : List Face) (f h : Face → ℝ), (L.map fun s => f s - h s).sum = (L.map f).sum - (L.map h).sum := by
    intro L f h
    induction L with
    | nil => simp
    | cons a L ih => simp only [List.map_cons, List.sum_cons, ih]; ring
  rw [hsub, hz]
  ring

/-- **an outward closed oriented triangulation has positive signed volume**: if every triangle
appears counter-clockwise from the side opposite to some point `p` -/
theorem signedVolume_pos_of_outward (verts : List (V3 ℝ)) (S : List Face) (hne : S ≠ [])
    (h3 : ∀ s ∈ S, s.length = 3) (hcl : ClosedOriented S) (p : V3 ℝ)
    (hout : StructSpec.outwardFromB verts p S = true) :
    0 < CP.signedVolume (S.map (triOf verts)) := by
  rw [← signedVolume_translate_closed verts S h3 hcl p]
  simp only [CP.signedVolume, Scalar.sum_real, List.map_map]
  unfold StructSpec.outwardFromB at hout
  simp only [List.all_eq_true, decide_eq_true_eq, Scalar.lit, Scalar.ofNat_real, Nat.cast_zero] at hout
  have hpos : ∀ s ∈ S, 0 < ((fun t : Tri ℝ => V3.det3 t.a t.b t.c / Scalar.lit 6) ∘
      fun s => (triOf verts s).map (· - p)) s := by
    intro s hs
    simp only [Function.comp, triOf, Tri.map, Scalar.lit, Scalar.ofNat_real]
    have := hout s hs
    push_cast
    linarith
  clear hout h3 hcl
  induction S with
  | nil => exact absurd rfl hne
  | cons s S ih =>
    simp only [List.map_cons, List.sum_cons]
    have h1 := hpos s List.mem_cons_self
    by_cases hS : S = []
    · subst hS; simpa using h1
    · have := ih hS (fun t ht => hpos t (List.mem_cons_of_mem _ ht))
      linarith

end StructLemmas
