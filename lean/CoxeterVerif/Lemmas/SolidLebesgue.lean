import CoxeterVerif.Lemmas.SolidIntegral
import Mathlib.MeasureTheory.Integral.Prod
import Mathlib.MeasureTheory.Function.Jacobian
/-!
  C01: the iterated integrals of `Lemmas/SolidIntegral.lean` ARE Lebesgue integrals over the tetrahedra as SUBSETS of
  `ℝ³` (`ℝ × ℝ × ℝ` with its product = Lebesgue measure).  The 3-D analogue of `Lemmas/PlanarLebesgue.lean` (C04).

  * `setIntegral_triSetL`  : Fubini on the right triangle with legs `L ≥ 0`;
  * `setIntegral_stdSet3`  : Fubini on the standard simplex `{0 ≤ s, 0 ≤ t, 0 ≤ u, s + t + u ≤ 1}`: the Lebesgue integral of a
    continuous function over the set is the iterated interval integral `simplexInt`;
  * `det_linPart3`         : the derivative of the affine parametrisation has determinant `tetJac T = det(B−A, C−A, D−A)`
    (matrix in the coordinate basis of `ℝ × ℝ × ℝ`, `Matrix.det_fin_three`);
  * `setIntegral_tetSet`   : change of variables (`MeasureTheory.integral_image_eq_integral_abs_det_fderiv_smul`):
    `∫_{tetSet T} F = |tetJac T| · simplexInt (F ∘ parametrisation)` for a non-degenerate tetrahedron, continuous `F`;
  * `tetInt_eq_lebesgue`, `tetInt_eq_lebesgue_pos` : `tetInt T f = sgn(det) · ∫_{tetSet T} f` (no sign for positive orientation);
  * `mem_tetSet`           : `tetSet T` is the set of convex combinations of the four vertices (the convex hull);
  * `solidInt_eq_lebInt`, `centroidInt_eq_centroidLeb`, `inertiaInt_eq_inertiaLeb` : the same for a list of positively
    oriented tetrahedra.
  What is still not formalised: that the tetrahedra of a certified tetrahedralisation overlap only in null sets and cover
  the polyhedron (`Σ_T ∫_T = ∫_{conv V}`); the per-run chain certificate stands for it.
-/
open MeasureTheory Set
noncomputable section
namespace SolidInt

/-- right triangle with legs `L` -/
def triSetL (L : ℝ) : Set (ℝ × ℝ) := {z | 0 ≤ z.1 ∧ 0 ≤ z.2 ∧ z.1 + z.2 ≤ L}

theorem isClosed_triSetL (L : ℝ) : IsClosed (triSetL L) := by
  unfold triSetL
  refine IsClosed.inter (isClosed_le continuous_const continuous_fst) (IsClosed.inter ?_ ?_)
  · exact isClosed_le continuous_const continuous_snd
  · exact isClosed_le (continuous_fst.add continuous_snd) continuous_const

theorem isCompact_triSetL (L : ℝ) : IsCompact (triSetL L) := by
  apply IsCompact.of_isClosed_subset (isCompact_Icc : IsCompact (Icc ((0:ℝ), (0:ℝ)) ((L:ℝ), (L:ℝ)))) (isClosed_triSetL L)
  intro z hz
  obtain ⟨h1, h2, h3⟩ := hz
  exact ⟨⟨h1, h2⟩, ⟨by linarith, by linarith⟩⟩

/-- Fubini on the right triangle with legs `L ≥ 0` -/
theorem setIntegral_triSetL (L : ℝ) (hL : 0 ≤ L) (g : ℝ → ℝ → ℝ) (hg : Continuous (fun z : ℝ × ℝ => g z.1 z.2)) :
    ∫ z in triSetL L, g z.1 z.2 = ∫ t in (0:ℝ)..L, ∫ u in (0:ℝ)..(L - t), g t u := by
  have hm := (isClosed_triSetL L).measurableSet
  have hint : Integrable ((triSetL L).indicator (fun z : ℝ × ℝ => g z.1 z.2)) (volume.prod volume) := by
    rw [integrable_indicator_iff hm]
    exact hg.continuousOn.integrableOn_compact (isCompact_triSetL L)
  rw [← integral_indicator hm, Measure.volume_eq_prod, integral_prod _ hint]
  have inner : ∀ s : ℝ, (∫ u, (triSetL L).indicator (fun z : ℝ × ℝ => g z.1 z.2) (s, u)) =
      (Icc (0:ℝ) L).indicator (fun s => ∫ u in (0:ℝ)..(L - s), g s u) s := by
    intro s
    by_cases hs : s ∈ Icc (0:ℝ) L
    · rw [indicator_of_mem hs]
      have e : (fun u => (triSetL L).indicator (fun z : ℝ × ℝ => g z.1 z.2) (s, u)) =
          (Icc (0:ℝ) (L - s)).indicator (fun u => g s u) := by
        funext u
        by_cases hu : u ∈ Icc (0:ℝ) (L - s)
        · rw [indicator_of_mem hu, indicator_of_mem]
          exact ⟨hs.1, hu.1, by linarith [hu.2]⟩
        · rw [indicator_of_notMem hu, indicator_of_notMem]
          rintro ⟨_, h2, h3⟩
          exact hu ⟨h2, by simp only at h3; linarith⟩
      rw [e, integral_indicator measurableSet_Icc, integral_Icc_eq_integral_Ioc,
        intervalIntegral.integral_of_le (by linarith [hs.2])]
    · rw [indicator_of_notMem hs]
      have e : (fun u => (triSetL L).indicator (fun z : ℝ × ℝ => g z.1 z.2) (s, u)) = fun _ => 0 := by
        funext u
        rw [indicator_of_notMem]
        rintro ⟨h1, h2, h3⟩
        exact hs ⟨h1, by simp only at h2 h3; linarith⟩
      rw [e, integral_zero]
  simp_rw [inner]
  rw [integral_indicator measurableSet_Icc, integral_Icc_eq_integral_Ioc,
    intervalIntegral.integral_of_le hL]

/-- the standard simplex as a subset of `ℝ³` -/
def stdSet3 : Set (ℝ × ℝ × ℝ) := {z | 0 ≤ z.1 ∧ 0 ≤ z.2.1 ∧ 0 ≤ z.2.2 ∧ z.1 + z.2.1 + z.2.2 ≤ 1}

theorem isClosed_stdSet3 : IsClosed stdSet3 := by
  unfold stdSet3
  refine IsClosed.inter (isClosed_le continuous_const continuous_fst) (IsClosed.inter ?_ (IsClosed.inter ?_ ?_))
  · exact isClosed_le continuous_const (continuous_fst.comp continuous_snd)
  · exact isClosed_le continuous_const (continuous_snd.comp continuous_snd)
  · exact isClosed_le ((continuous_fst.add (continuous_fst.comp continuous_snd)).add
      (continuous_snd.comp continuous_snd)) continuous_const

theorem measurableSet_stdSet3 : MeasurableSet stdSet3 := isClosed_stdSet3.measurableSet

theorem isCompact_stdSet3 : IsCompact stdSet3 := by
  apply IsCompact.of_isClosed_subset
    (isCompact_Icc : IsCompact (Icc ((0:ℝ), (0:ℝ), (0:ℝ)) ((1:ℝ), (1:ℝ), (1:ℝ)))) isClosed_stdSet3
  intro z hz
  obtain ⟨h1, h2, h3, h4⟩ := hz
  exact ⟨⟨h1, h2, h3⟩, ⟨by linarith, by linarith, by linarith⟩⟩

/-- **Fubini on the standard simplex** -/
theorem setIntegral_stdSet3 (g : ℝ → ℝ → ℝ → ℝ) (hg : Continuous (fun z : ℝ × ℝ × ℝ => g z.1 z.2.1 z.2.2)) :
    ∫ z in stdSet3, g z.1 z.2.1 z.2.2 = simplexInt g := by
  have hint : Integrable (stdSet3.indicator (fun z : ℝ × ℝ × ℝ => g z.1 z.2.1 z.2.2)) (volume.prod volume) := by
    rw [integrable_indicator_iff measurableSet_stdSet3]
    exact hg.continuousOn.integrableOn_compact isCompact_stdSet3
  rw [← integral_indicator measurableSet_stdSet3, Measure.volume_eq_prod, integral_prod _ hint]
  unfold simplexInt
  have inner : ∀ s : ℝ, (∫ w, stdSet3.indicator (fun z : ℝ × ℝ × ℝ => g z.1 z.2.1 z.2.2) (s, w)) =
      (Icc (0:ℝ) 1).indicator (fun s => ∫ t in (0:ℝ)..(1 - s), ∫ u in (0:ℝ)..(1 - s - t), g s t u) s := by
    intro s
    by_cases hs : s ∈ Icc (0:ℝ) 1
    · rw [indicator_of_mem hs]
      have e : (fun w : ℝ × ℝ => stdSet3.indicator (fun z : ℝ × ℝ × ℝ => g z.1 z.2.1 z.2.2) (s, w)) =
          (triSetL (1 - s)).indicator (fun w => g s w.1 w.2) := by
        funext w
        by_cases hw : w ∈ triSetL (1 - s)
        · rw [indicator_of_mem hw, indicator_of_mem]
          obtain ⟨a, b, c⟩ := hw
          exact ⟨hs.1, a, b, by simp only; linarith⟩
        · rw [indicator_of_notMem hw, indicator_of_notMem]
          rintro ⟨_, h2, h3, h4⟩
          exact hw ⟨h2, h3, by simp only at h4; linarith⟩
      rw [e, integral_indicator (isClosed_triSetL _).measurableSet]
      have hc : Continuous (fun w : ℝ × ℝ => g s w.1 w.2) :=
        hg.comp (continuous_const.prodMk continuous_id)
      exact setIntegral_triSetL (1 - s) (by linarith [hs.2]) (fun t u => g s t u) hc
    · rw [indicator_of_notMem hs]
      have e : (fun w : ℝ × ℝ => stdSet3.indicator (fun z : ℝ × ℝ × ℝ => g z.1 z.2.1 z.2.2) (s, w)) = fun _ => 0 := by
        funext w
        rw [indicator_of_notMem]
        rintro ⟨h1, h2, h3, h4⟩
        exact hs ⟨h1, by simp only at h2 h3 h4; linarith⟩
      rw [e, integral_zero]
  simp_rw [inner]
  rw [integral_indicator measurableSet_Icc, integral_Icc_eq_integral_Ioc,
    intervalIntegral.integral_of_le zero_le_one]

/-! ### the affine parametrisation and its derivative -/

/-- coordinates of `ℝ × ℝ × ℝ` as a function on `Fin 3` -/
def e3 : (ℝ × ℝ × ℝ) ≃ₗ[ℝ] (Fin 3 → ℝ) where
  toFun z := ![z.1, z.2.1, z.2.2]
  invFun v := (v 0, v 1, v 2)
  map_add' x y := by ext i; fin_cases i <;> simp
  map_smul' c x := by ext i; fin_cases i <;> simp
  left_inv z := by simp
  right_inv v := by ext i; fin_cases i <;> simp

def b3 : Module.Basis (Fin 3) ℝ (ℝ × ℝ × ℝ) := Module.Basis.ofEquivFun e3

/-- the linear part of the parametrisation: columns `B − A`, `C − A`, `D − A` -/
def linPart3 (T : Tet ℝ) : (ℝ × ℝ × ℝ) →ₗ[ℝ] (ℝ × ℝ × ℝ) where
  toFun z :=
    ((T.b.x - T.a.x) * z.1 + (T.c.x - T.a.x) * z.2.1 + (T.d.x - T.a.x) * z.2.2,
     (T.b.y - T.a.y) * z.1 + (T.c.y - T.a.y) * z.2.1 + (T.d.y - T.a.y) * z.2.2,
     (T.b.z - T.a.z) * z.1 + (T.c.z - T.a.z) * z.2.1 + (T.d.z - T.a.z) * z.2.2)
  map_add' x y := by
    simp only [Prod.fst_add, Prod.snd_add, Prod.mk_add_mk, Prod.mk.injEq]
    refine ⟨by ring, by ring, by ring⟩
  map_smul' c x := by
    simp only [Prod.smul_fst, Prod.smul_snd, smul_eq_mul, RingHom.id_apply, Prod.smul_mk, Prod.mk.injEq]
    refine ⟨by ring, by ring, by ring⟩

theorem toMatrix_linPart3 (T : Tet ℝ) :
    LinearMap.toMatrix b3 b3 (linPart3 T) =
      !![T.b.x - T.a.x, T.c.x - T.a.x, T.d.x - T.a.x;
         T.b.y - T.a.y, T.c.y - T.a.y, T.d.y - T.a.y;
         T.b.z - T.a.z, T.c.z - T.a.z, T.d.z - T.a.z] := by
  ext i j
  rw [LinearMap.toMatrix_apply]
  simp only [b3, Module.Basis.ofEquivFun_repr_apply, Module.Basis.coe_ofEquivFun]
  fin_cases i <;> fin_cases j <;> simp [e3, linPart3]

theorem det_linPart3 (T : Tet ℝ) : LinearMap.det (linPart3 T) = tetJac T := by
  rw [← LinearMap.det_toMatrix b3, toMatrix_linPart3, Matrix.det_fin_three]
  unfold tetJac V3.det3 V3.dot V3.cross
  simp only [V3.sub_x, V3.sub_y, V3.sub_z, Matrix.of_apply, Matrix.cons_val', Matrix.cons_val_zero,
    Matrix.cons_val_one, Matrix.cons_val, Matrix.cons_val_fin_one]
  ring

/-- a point of `ℝ³` as a `V3` and back -/
def toV3 (q : ℝ × ℝ × ℝ) : V3 ℝ := ⟨q.1, q.2.1, q.2.2⟩
def ofV3 (p : V3 ℝ) : ℝ × ℝ × ℝ := (p.x, p.y, p.z)

/-- the affine parametrisation `(s,t,u) ↦ A + s (B−A) + t (C−A) + u (D−A)` as a map of `ℝ³` -/
def affMap3 (T : Tet ℝ) (z : ℝ × ℝ × ℝ) : ℝ × ℝ × ℝ := ofV3 (tetPoint T z.1 z.2.1 z.2.2)

/-- **the tetrahedron as a subset of `ℝ³`**: the image of the standard simplex -/
def tetSet (T : Tet ℝ) : Set (ℝ × ℝ × ℝ) := affMap3 T '' stdSet3

theorem affMap3_eq (T : Tet ℝ) : affMap3 T = fun z => ofV3 T.a + linPart3 T z := by
  funext z
  simp only [affMap3, ofV3, tetPoint, linPart3, LinearMap.coe_mk, AddHom.coe_mk, Prod.mk_add_mk, V3.add_x, V3.add_y,
    V3.add_z, V3.smul_x, V3.smul_y, V3.smul_z, V3.sub_x, V3.sub_y, V3.sub_z, Prod.mk.injEq]
  refine ⟨by ring, by ring, by ring⟩

def linPart3C (T : Tet ℝ) : (ℝ × ℝ × ℝ) →L[ℝ] (ℝ × ℝ × ℝ) := LinearMap.toContinuousLinearMap (linPart3 T)

theorem det_linPart3C (T : Tet ℝ) : (linPart3C T).det = tetJac T := by
  unfold linPart3C
  rw [LinearMap.det_toContinuousLinearMap, det_linPart3]

theorem hasFDerivAt_affMap3 (T : Tet ℝ) (z : ℝ × ℝ × ℝ) : HasFDerivAt (affMap3 T) (linPart3C T) z := by
  rw [affMap3_eq]
  exact (linPart3C T).hasFDerivAt.const_add _

theorem continuous_affMap3 (T : Tet ℝ) : Continuous (affMap3 T) := by
  rw [affMap3_eq]; exact continuous_const.add (linPart3C T).continuous

theorem injective_affMap3 {T : Tet ℝ} (h : tetJac T ≠ 0) : Function.Injective (affMap3 T) := by
  intro z z' hzz
  rw [affMap3_eq] at hzz
  have hl : linPart3 T z = linPart3 T z' := add_left_cancel hzz
  simp only [linPart3, LinearMap.coe_mk, AddHom.coe_mk, Prod.mk.injEq] at hl
  obtain ⟨h1, h2, h3⟩ := hl
  unfold tetJac V3.det3 V3.dot V3.cross at h
  simp only [V3.sub_x, V3.sub_y, V3.sub_z] at h
  set bx := T.b.x - T.a.x
  set cx := T.c.x - T.a.x
  set dx := T.d.x - T.a.x
  set b_y := T.b.y - T.a.y
  set cy := T.c.y - T.a.y
  set dy := T.d.y - T.a.y
  set bz := T.b.z - T.a.z
  set cz := T.c.z - T.a.z
  set dz := T.d.z - T.a.z
  set J := bx * (cy * dz - cz * dy) + b_y * (cz * dx - cx * dz) + bz * (cx * dy - cy * dx) with hJ
  have e1 : (z.1 - z'.1) * J = 0 := by
    linear_combination (cy * dz - cz * dy) * h1 + (cz * dx - cx * dz) * h2 + (cx * dy - cy * dx) * h3
  have e2 : (z.2.1 - z'.2.1) * J = 0 := by
    linear_combination (dy * bz - dz * b_y) * h1 + (dz * bx - dx * bz) * h2 + (dx * b_y - dy * bx) * h3
  have e3' : (z.2.2 - z'.2.2) * J = 0 := by
    linear_combination (b_y * cz - bz * cy) * h1 + (bz * cx - bx * cz) * h2 + (bx * cy - b_y * cx) * h3
  have d1 := (mul_eq_zero.mp e1).resolve_right h
  have d2 := (mul_eq_zero.mp e2).resolve_right h
  have d3 := (mul_eq_zero.mp e3').resolve_right h
  exact Prod.ext (by linarith) (Prod.ext (by linarith) (by linarith))

/-- needed to see through the defeq `volume = volume.prod volume` -/
theorem haar2 : Measure.IsAddHaarMeasure (volume : Measure (ℝ × ℝ)) := Measure.prod.instIsAddHaarMeasure _ _
theorem haar3 : Measure.IsAddHaarMeasure (volume : Measure (ℝ × ℝ × ℝ)) :=
  have := haar2
  Measure.prod.instIsAddHaarMeasure _ _

/-- **change of variables**: the Lebesgue integral of a continuous `F` over a non-degenerate tetrahedron (as a subset
of `ℝ³`) is `|det(B−A, C−A, D−A)|` times the iterated integral over the standard simplex of `F ∘ parametrisation` -/
theorem setIntegral_tetSet (T : Tet ℝ) (h : tetJac T ≠ 0) (F : ℝ × ℝ × ℝ → ℝ) (hF : Continuous F) :
    ∫ q in tetSet T, F q = |tetJac T| * simplexInt (fun s t u => F (affMap3 T (s, t, u))) := by
  unfold tetSet
  have := haar3
  rw [integral_image_eq_integral_abs_det_fderiv_smul volume measurableSet_stdSet3
    (fun z _ => (hasFDerivAt_affMap3 T z).hasFDerivWithinAt) ((injective_affMap3 h).injOn) F]
  simp only [det_linPart3C, smul_eq_mul]
  rw [integral_const_mul]
  congr 1
  exact setIntegral_stdSet3 (fun s t u => F (affMap3 T (s, t, u))) (hF.comp (continuous_affMap3 T))

/-- **`tetInt` IS the Lebesgue integral over the tetrahedron as a set**, up to the orientation sign: for every
`f` that is continuous in the coordinates -/
theorem tetInt_eq_lebesgue (T : Tet ℝ) (h : tetJac T ≠ 0) (f : V3 ℝ → ℝ) (hf : Continuous fun q => f (toV3 q)) :
    tetInt T f = SignType.sign (tetJac T) * ∫ q in tetSet T, f (toV3 q) := by
  rw [setIntegral_tetSet T h _ hf]
  unfold tetInt
  have e : (fun s t u => f (toV3 (affMap3 T (s, t, u)))) = fun s t u => f (tetPoint T s t u) := by
    funext s t u; rfl
  rw [e, ← mul_assoc]
  congr 1
  rcases lt_or_gt_of_ne h with hneg | hpos
  · rw [sign_neg hneg, abs_of_neg hneg]; simp
  · rw [sign_pos hpos, abs_of_pos hpos]; simp

/-- positively oriented tetrahedron: no sign -/
theorem tetInt_eq_lebesgue_pos (T : Tet ℝ) (h : 0 < tetJac T) (f : V3 ℝ → ℝ) (hf : Continuous fun q => f (toV3 q)) :
    tetInt T f = ∫ q in tetSet T, f (toV3 q) := by
  rw [tetInt_eq_lebesgue T h.ne' f hf, sign_pos h]; simp

/-- the set is the convex hull of the four vertices, in barycentric form -/
theorem mem_tetSet (T : Tet ℝ) (q : ℝ × ℝ × ℝ) :
    q ∈ tetSet T ↔ ∃ w0 w1 w2 w3 : ℝ, 0 ≤ w0 ∧ 0 ≤ w1 ∧ 0 ≤ w2 ∧ 0 ≤ w3 ∧ w0 + w1 + w2 + w3 = 1 ∧
      q = w0 • ofV3 T.a + w1 • ofV3 T.b + w2 • ofV3 T.c + w3 • ofV3 T.d := by
  constructor
  · rintro ⟨z, ⟨h1, h2, h3, h4⟩, rfl⟩
    refine ⟨1 - z.1 - z.2.1 - z.2.2, z.1, z.2.1, z.2.2, by linarith, h1, h2, h3, by ring, ?_⟩
    simp only [affMap3, ofV3, tetPoint, Prod.smul_mk, smul_eq_mul, Prod.mk_add_mk, V3.add_x, V3.add_y, V3.add_z,
      V3.smul_x, V3.smul_y, V3.smul_z, V3.sub_x, V3.sub_y, V3.sub_z, Prod.mk.injEq]
    refine ⟨by ring, by ring, by ring⟩
  · rintro ⟨w0, w1, w2, w3, h0, h1, h2, h3, hs, rfl⟩
    refine ⟨(w1, w2, w3), ⟨h1, h2, h3, by simp only; linarith⟩, ?_⟩
    have e0 : w0 = 1 - w1 - w2 - w3 := by linarith
    subst e0
    simp only [affMap3, ofV3, tetPoint, Prod.smul_mk, smul_eq_mul, Prod.mk_add_mk, V3.add_x, V3.add_y, V3.add_z,
      V3.smul_x, V3.smul_y, V3.smul_z, V3.sub_x, V3.sub_y, V3.sub_z, Prod.mk.injEq]
    refine ⟨by ring, by ring, by ring⟩

/-! ### a list of positively oriented tetrahedra -/

/-- `Σ_T ∫_{T as a subset of ℝ³} f dλ³` -/
def lebInt (Ts : List (Tet ℝ)) (f : V3 ℝ → ℝ) : ℝ := (Ts.map fun T => ∫ q in tetSet T, f (toV3 q)).sum

theorem solidInt_eq_lebInt (Ts : List (Tet ℝ)) (hpos : ∀ T ∈ Ts, 0 < tetJac T) (f : V3 ℝ → ℝ)
    (hf : Continuous fun q => f (toV3 q)) : solidInt Ts f = lebInt Ts f := by
  unfold solidInt lebInt
  congr 1
  apply List.map_congr_left
  intro T hT
  exact tetInt_eq_lebesgue_pos T (hpos T hT) f hf

/-- with arbitrary orientations: every tetrahedron enters with its orientation sign -/
theorem solidInt_eq_signed_lebesgue (Ts : List (Tet ℝ)) (hnd : ∀ T ∈ Ts, tetJac T ≠ 0) (f : V3 ℝ → ℝ)
    (hf : Continuous fun q => f (toV3 q)) :
    solidInt Ts f = (Ts.map fun T => SignType.sign (tetJac T) * ∫ q in tetSet T, f (toV3 q)).sum := by
  unfold solidInt
  congr 1
  apply List.map_congr_left
  intro T hT
  exact tetInt_eq_lebesgue T (hnd T hT) f hf

/-- `∫_T 1 dλ³` is the Lebesgue measure of the tetrahedron -/
theorem lebInt_one (Ts : List (Tet ℝ)) : lebInt Ts (fun _ => 1) = (Ts.map fun T => volume.real (tetSet T)).sum := by
  unfold lebInt
  congr 1
  apply List.map_congr_left
  intro T _
  simp

def centroidLeb (Ts : List (Tet ℝ)) : V3 ℝ :=
  ⟨lebInt Ts (fun x => x.x) / lebInt Ts (fun _ => 1), lebInt Ts (fun x => x.y) / lebInt Ts (fun _ => 1),
   lebInt Ts (fun x => x.z) / lebInt Ts (fun _ => 1)⟩

def inertiaLeb (Ts : List (Tet ℝ)) : M3 ℝ :=
  ⟨lebInt Ts (fun x => x.y * x.y + x.z * x.z), -lebInt Ts (fun x => x.x * x.y), -lebInt Ts (fun x => x.x * x.z),
   -lebInt Ts (fun x => x.x * x.y), lebInt Ts (fun x => x.x * x.x + x.z * x.z), -lebInt Ts (fun x => x.y * x.z),
   -lebInt Ts (fun x => x.x * x.z), -lebInt Ts (fun x => x.y * x.z), lebInt Ts (fun x => x.x * x.x + x.y * x.y)⟩

theorem centroidInt_eq_centroidLeb (Ts : List (Tet ℝ)) (hpos : ∀ T ∈ Ts, 0 < tetJac T) :
    centroidInt Ts = centroidLeb Ts := by
  unfold centroidInt centroidLeb
  have c1 : Continuous fun q : ℝ × ℝ × ℝ => (1 : ℝ) := continuous_const
  have cx : Continuous fun q : ℝ × ℝ × ℝ => (toV3 q).x := by unfold toV3; fun_prop
  have cy : Continuous fun q : ℝ × ℝ × ℝ => (toV3 q).y := by unfold toV3; fun_prop
  have cz : Continuous fun q : ℝ × ℝ × ℝ => (toV3 q).z := by unfold toV3; fun_prop
  rw [solidInt_eq_lebInt Ts hpos (fun _ => 1) c1, solidInt_eq_lebInt Ts hpos (fun x => x.x) cx,
    solidInt_eq_lebInt Ts hpos (fun x => x.y) cy, solidInt_eq_lebInt Ts hpos (fun x => x.z) cz]

theorem inertiaInt_eq_inertiaLeb (Ts : List (Tet ℝ)) (hpos : ∀ T ∈ Ts, 0 < tetJac T) :
    inertiaInt Ts = inertiaLeb Ts := by
  unfold inertiaInt inertiaLeb
  have h : ∀ f : V3 ℝ → ℝ, (Continuous fun q => f (toV3 q)) → solidInt Ts f = lebInt Ts f :=
    fun f hf => solidInt_eq_lebInt Ts hpos f hf
  rw [h (fun x => x.y * x.y + x.z * x.z) (by unfold toV3; fun_prop), h (fun x => x.x * x.y) (by unfold toV3; fun_prop),
    h (fun x => x.x * x.z) (by unfold toV3; fun_prop), h (fun x => x.x * x.x + x.z * x.z) (by unfold toV3; fun_prop),
    h (fun x => x.y * x.z) (by unfold toV3; fun_prop), h (fun x => x.x * x.x + x.y * x.y) (by unfold toV3; fun_prop)]

end SolidInt
end
