import CoxeterVerif.Lemmas.MeshIO
/-!
  Helper lemmas of C20 (deepening round), decimal coordinate tokens — part 1 (no Mathlib):
  * a token the number grammar `tokSignMag` accepts consists of digits, signs, `.`, `e`, `E` only and is not empty,
    hence it is a well-formed coordinate token (`WFCoord`): no blank, newline, comma, not a `#` comment;
  * the per-run certificate `coordsReadAs` (decided by the driver over ℚ on the implementation's own tokens and
    doubles) is sound: it yields `Mesh.WF`'s coordinate clause and `ReadsAs` for every coordinate.
-/
set_option linter.unusedSimpArgs false
namespace MeshIO

/-- the characters of a decimal number -/
def okChar (c : Char) : Bool :=
  c.isDigit || c == '+' || c == '-' || c == '.' || c == 'e' || c == 'E'

theorem okChar_not_ws {c : Char} (h : okChar c = true) : isWsX c = false := by
  cases hw : isWsX c with
  | false => rfl
  | true =>
    simp [isWsX] at hw
    rcases hw with (((rfl | rfl) | rfl) | rfl) | rfl <;> simp [okChar, Char.isDigit] at h

theorem okChar_not_hash {c : Char} (h : okChar c = true) : c ≠ '#' := by
  rintro rfl
  simp [okChar, Char.isDigit] at h

theorem digitRun_ok {ds : Str} (h : digitRun ds = true) : ∀ c ∈ ds, okChar c = true := by
  intro c hc
  simp only [digitRun, List.all_eq_true] at h
  simp [okChar, h c hc]

/-- `cutAt` splits the string: either no character satisfies `p` and the first part is everything, or the string is
    `first ++ c :: rest` with `p c` -/
theorem cutAt_spec (p : Char → Bool) (s : Str) :
    ((cutAt p s).2 = none ∧ s = (cutAt p s).1)
    ∨ ∃ c r, (cutAt p s).2 = some r ∧ p c = true ∧ s = (cutAt p s).1 ++ c :: r := by
  induction s with
  | nil => left; simp [cutAt]
  | cons a s ih =>
    by_cases ha : p a = true
    · right
      exact ⟨a, s, by simp [cutAt, ha], ha, by simp [cutAt, ha]⟩
    · rcases ih with ⟨h1, h2⟩ | ⟨c, r, h1, h2, h3⟩
      · left
        refine ⟨by simp [cutAt, ha, h1], ?_⟩
        simp only [cutAt, ha, Bool.false_eq_true, ↓reduceIte, List.cons.injEq, true_and]
        exact h2
      · right
        refine ⟨c, r, by simp [cutAt, ha, h1], h2, ?_⟩
        simp only [cutAt, ha, Bool.false_eq_true, ↓reduceIte, List.cons_append, List.cons.injEq, true_and]
        exact h3

theorem cutAt_fst_free (p : Char → Bool) (s : Str) : ∀ c ∈ (cutAt p s).1, p c = false := by
  induction s with
  | nil => simp [cutAt]
  | cons a s ih =>
    by_cases ha : p a = true
    · simp [cutAt, ha]
    · intro c hc
      simp only [cutAt, ha, Bool.false_eq_true, ↓reduceIte, List.mem_cons] at hc
      rcases hc with rfl | hc
      · simpa using ha
      · exact ih c hc

theorem parseMant_ok {s : Str} {m : Str × Str} (h : parseMant s = some m) :
    s ≠ [] ∧ ∀ c ∈ s, okChar c = true := by
  unfold parseMant at h
  rcases cutAt_spec isDot s with ⟨h1, h2⟩ | ⟨c, r, h1, h2, h3⟩
  · rw [show cutAt isDot s = ((cutAt isDot s).1, (cutAt isDot s).2) from rfl, h1] at h
    simp only at h
    split at h
    · rename_i hc
      simp only [Bool.and_eq_true, Bool.not_eq_true', List.isEmpty_eq_false_iff] at hc
      rw [h2]
      exact ⟨hc.1, digitRun_ok hc.2⟩
    · cases h
  · rw [show cutAt isDot s = ((cutAt isDot s).1, (cutAt isDot s).2) from rfl, h1] at h
    simp only at h
    split at h
    · rename_i hc
      simp only [Bool.and_eq_true, Bool.not_eq_true'] at hc
      have hcd : c = '.' := by simpa [isDot] using h2
      rw [h3]
      refine ⟨by simp, ?_⟩
      intro x hx
      simp only [List.mem_append, List.mem_cons] at hx
      rcases hx with hx | rfl | hx
      · exact digitRun_ok hc.1.2 x hx
      · subst hcd; decide
      · exact digitRun_ok hc.2 x hx
    · cases h

theorem splitSign_spec (t : Str) :
    t = (splitSign t).2 ∨ t = '-' :: (splitSign t).2 ∨ t = '+' :: (splitSign t).2 := by
  unfold splitSign
  split <;> simp

theorem parseExp_ok {e : Str} {v : Int} (h : parseExp (some e) = some v) : ∀ c ∈ e, okChar c = true := by
  simp only [parseExp] at h
  split at h
  · rename_i hc
    simp only [Bool.and_eq_true, Bool.not_eq_true'] at hc
    intro c hcm
    rcases splitSign_spec e with he | he | he <;> rw [he] at hcm
    · exact digitRun_ok hc.2 c hcm
    · rcases List.mem_cons.mp hcm with rfl | hcm
      · decide
      · exact digitRun_ok hc.2 c hcm
    · rcases List.mem_cons.mp hcm with rfl | hcm
      · decide
      · exact digitRun_ok hc.2 c hcm
  · cases h

/-- what the number grammar accepts is made of number characters and is not empty -/
theorem tokSignMag_ok {t : Tok} {r : Bool × Rat} (h : tokSignMag t = some r) :
    t ≠ [] ∧ ∀ c ∈ t, okChar c = true := by
  unfold tokSignMag at h
  cases hm : parseMant (cutAt isExpChar (splitSign t).2).1 with
  | none => simp [hm] at h
  | some m =>
    cases he : parseExp (cutAt isExpChar (splitSign t).2).2 with
    | none => simp [hm, he] at h
    | some e =>
      have ⟨hne, hok⟩ := parseMant_ok hm
      have hbody : (splitSign t).2 ≠ [] ∧ ∀ c ∈ (splitSign t).2, okChar c = true := by
        rcases cutAt_spec isExpChar (splitSign t).2 with ⟨_, h2⟩ | ⟨c, r, h1, h2, h3⟩
        · rw [h2]; exact ⟨hne, hok⟩
        · rw [h3]
          refine ⟨by simp, ?_⟩
          intro x hx
          simp only [List.mem_append, List.mem_cons] at hx
          rcases hx with hx | rfl | hx
          · exact hok x hx
          · have : x = 'e' ∨ x = 'E' := by simpa [isExpChar] using h2
            rcases this with rfl | rfl <;> decide
          · rw [h1] at he
            exact parseExp_ok he x hx
      rcases splitSign_spec t with ht | ht | ht <;> rw [ht]
      · exact hbody
      · refine ⟨by simp, ?_⟩
        intro x hx
        rcases List.mem_cons.mp hx with rfl | hx
        · decide
        · exact hbody.2 x hx
      · refine ⟨by simp, ?_⟩
        intro x hx
        rcases List.mem_cons.mp hx with rfl | hx
        · decide
        · exact hbody.2 x hx

/-- a token that reads as a number is a well-formed coordinate token -/
theorem tokSignMag_wf {t : Tok} {r : Bool × Rat} (h : tokSignMag t = some r) : WFCoord t := by
  have ⟨hne, hok⟩ := tokSignMag_ok h
  refine ⟨WFTok.mk hne fun c hc => okChar_not_ws (hok c hc), ?_⟩
  cases t with
  | nil => exact absurd rfl hne
  | cons a r =>
    simp only [List.head?_cons, ne_eq, Option.some.injEq]
    exact okChar_not_hash (hok a (by simp))

/-- the token, read by a correctly rounding reader, is exactly the double `bits` -/
def ReadsAs (t : Tok) (bits : Nat) : Prop := readsAsB t bits = true

theorem ReadsAs.wf {t : Tok} {b : Nat} (h : ReadsAs t b) : WFCoord t := by
  unfold ReadsAs readsAsB at h
  split at h
  · cases h
  · rename_i r hr
    exact tokSignMag_wf hr

theorem ReadsAs.value {t : Tok} {b : Nat} (h : ReadsAs t b) :
    ∃ r, tokSignMag t = some r ∧ b < 2 ^ 64 ∧ b / 2 ^ 63 = (if r.1 then 1 else 0) ∧ roundsMag r.2 (b % 2 ^ 63) = true := by
  unfold ReadsAs readsAsB at h
  split at h
  · cases h
  · rename_i r hr
    simp only [Bool.and_eq_true, decide_eq_true_eq, beq_iff_eq] at h
    exact ⟨r, hr, h.1.1, h.1.2, h.2⟩

/-- vertex `v` (three tokens) reads as the three doubles `x` -/
def V3ReadsAs (v : V3T) (x : V3B) : Prop := ReadsAs v.1 x.1 ∧ ReadsAs v.2.1 x.2.1 ∧ ReadsAs v.2.2 x.2.2

/-- vertex by vertex: the token triples read as the double triples (same number of both) -/
inductive AllReadAs : List V3T → List V3B → Prop
  | nil : AllReadAs [] []
  | cons {v x vs xs} : V3ReadsAs v x → AllReadAs vs xs → AllReadAs (v :: vs) (x :: xs)

theorem AllReadAs.length_eq {vs xs} (h : AllReadAs vs xs) : vs.length = xs.length := by
  induction h with
  | nil => rfl
  | cons _ _ ih => simp [ih]

/-- soundness of the certificate checker the driver runs -/
theorem coordsReadAs_sound : ∀ {vs : List V3T} {xs : List V3B}, coordsReadAs vs xs = true →
    AllReadAs vs xs := by
  intro vs
  induction vs with
  | nil =>
    intro xs h
    cases xs with
    | nil => exact .nil
    | cons x xs => simp [coordsReadAs] at h
  | cons v vs ih =>
    intro xs h
    cases xs with
    | nil => simp [coordsReadAs] at h
    | cons x xs =>
      simp only [coordsReadAs, Bool.and_eq_true] at h
      exact .cons ⟨h.1.1.1, h.1.1.2, h.1.2⟩ (ih h.2)

theorem forall₂_wf {vs : List V3T} {xs : List V3B} (h : AllReadAs vs xs) :
    ∀ v ∈ vs, WFCoord v.1 ∧ WFCoord v.2.1 ∧ WFCoord v.2.2 := by
  induction h with
  | nil => intro v hv; cases hv
  | cons hx _ ih =>
    intro v hv
    rcases List.mem_cons.mp hv with rfl | hv
    · exact ⟨hx.1.wf, hx.2.1.wf, hx.2.2.wf⟩
    · exact ih v hv

/-- the certificate replaces the token hypotheses of `Mesh.WF` -/
theorem wf_of_cert {m : Mesh} {xs : List V3B} (hc : coordsReadAs m.verts xs = true)
    (arity : ∀ f ∈ m.faces, 3 ≤ f.length) (range : ∀ f ∈ m.faces, ∀ i ∈ f, i < m.verts.length) : m.WF :=
  ⟨forall₂_wf (coordsReadAs_sound hc), arity, range⟩

end MeshIO
