import CoxeterVerif.Lemmas.Solid
import CoxeterVerif.Model.Polyhedron
/-! Per-tetrahedron identities for the Eberly centroid and Kallay inertia formulas (C02). -/
open Scalar
set_option maxRecDepth 8000
noncomputable section

/-- Eberly "volume" term `normal[0]*f1[0]` -/
def ebVolPhi (t : Tri ℝ) : ℝ := (Poly3.eberlyTerm t).1
/-- Eberly centre term, component `i` -/
def ebCenPhi (i : Nat) (t : Tri ℝ) : ℝ := (Poly3.eberlyTerm t).2.get i

theorem ebVolPhi_oddCyclic : OddCyclic ebVolPhi := by
  constructor <;> intro ⟨⟨ax,ay,az⟩,⟨bx,b_y,bz⟩,⟨cx,cy,cz⟩⟩ <;> unfold ebVolPhi Poly3.eberlyTerm <;>
    unfold_model <;> ring

theorem ebVolPhi_tet (T : Tet ℝ) : sumOver ebVolPhi T.bdry = 6 * Spec.tetVol T := by
  obtain ⟨⟨ax,ay,az⟩,⟨bx,b_y,bz⟩,⟨cx,cy,cz⟩,⟨dx,dy,dz⟩⟩ := T
  unfold sumOver ebVolPhi Poly3.eberlyTerm Spec.tetVol; unfold_model; ring

theorem ebCenPhi_oddCyclic (i : Nat) (hi : i < 3) : OddCyclic (ebCenPhi i) := by
  cases3 i <;> constructor <;> intro ⟨⟨ax,ay,az⟩,⟨bx,b_y,bz⟩,⟨cx,cy,cz⟩⟩ <;>
    unfold ebCenPhi Poly3.eberlyTerm <;> unfold_model <;> ring

theorem ebCenPhi_tet (i : Nat) (hi : i < 3) (T : Tet ℝ) :
    sumOver (ebCenPhi i) T.bdry = 24 * (Spec.tetFirst T).get i := by
  obtain ⟨⟨ax,ay,az⟩,⟨bx,b_y,bz⟩,⟨cx,cy,cz⟩,⟨dx,dy,dz⟩⟩ := T
  cases3 i <;> unfold sumOver ebCenPhi Poly3.eberlyTerm Spec.tetFirst Spec.tetVol Spec.tetSum <;>
    unfold_model <;> ring

/-- Kallay term for the quadratic monomial `x_i x_j` with the SIGNED determinant -/
def kalPhi (i j : Nat) (t : Tri ℝ) : ℝ :=
  Poly3.kallay (V3.det3 t.a t.b t.c / lit 6) t (fun p => p.get i * p.get j)

theorem kalPhi_oddCyclic (i j : Nat) (hi : i < 3) (hj : j < 3) : OddCyclic (kalPhi i j) := by
  cases3 i <;> cases3 j <;> constructor <;> intro ⟨⟨ax,ay,az⟩,⟨bx,b_y,bz⟩,⟨cx,cy,cz⟩⟩ <;>
    unfold kalPhi Poly3.kallay <;> unfold_model <;> ring

theorem kalPhi_tet (i j : Nat) (hi : i < 3) (hj : j < 3) (T : Tet ℝ) :
    sumOver (kalPhi i j) T.bdry = Spec.tetSecond T i j := by
  obtain ⟨⟨ax,ay,az⟩,⟨bx,b_y,bz⟩,⟨cx,cy,cz⟩,⟨dx,dy,dz⟩⟩ := T
  cases3 i <;> cases3 j <;> unfold sumOver kalPhi Poly3.kallay Spec.tetSecond Spec.tetVol Spec.tetSum <;>
    unfold_model <;> ring

end
