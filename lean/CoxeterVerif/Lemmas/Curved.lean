import CoxeterVerif.Lemmas.Solid
import CoxeterVerif.Model.Curved
import CoxeterVerif.Spec.Curved
/-! Helper lemmas for C10: the model's comparisons / sorting at ℝ, in terms of `min` and `max`. -/
open Curved

@[simp] theorem Scalar.lt_real (a b : ℝ) : (@LT.lt ℝ (Scalar.toLT) a b) = (a < b) := rfl
@[simp] theorem Scalar.le_real (a b : ℝ) : (@LE.le ℝ (Scalar.toLE) a b) = (a ≤ b) := rfl

@[simp] theorem Scalar.max_real (a b : ℝ) : Scalar.max a b = Max.max a b := by
  unfold Scalar.max; split_ifs with h
  · exact (max_eq_right (le_of_lt h)).symm
  · exact (max_eq_left (not_lt.mp h)).symm

@[simp] theorem Scalar.min_real (a b : ℝ) : Scalar.min a b = Min.min a b := by
  unfold Scalar.min; split_ifs with h
  · exact (min_eq_right (le_of_lt h)).symm
  · exact (min_eq_left (not_lt.mp h)).symm

namespace Curved

/-- `sorted([x, y])` is `(min, max)` -/
theorem sort2_real (x y : ℝ) : sort2 x y = (Min.min x y, Max.max x y) := by
  unfold sort2
  split_ifs with h
  · have h' : y < x := h
    rw [min_eq_right h'.le, max_eq_left h'.le]
  · have h' : x ≤ y := not_lt.mp h
    rw [min_eq_left h', max_eq_right h']

/-- `sorted([x, y, z])` is `(min, median, max)` -/
theorem sort3_real (x y z : ℝ) :
    sort3 x y z = (Min.min (Min.min x y) z, Max.max (Min.min x y) (Min.min (Max.max x y) z),
      Max.max (Max.max x y) z) := by
  unfold sort3
  simp only [sort2_real, Prod.mk.injEq, and_true]
  have h : Min.min (Min.min x y) (Max.max x y) = Min.min x y :=
    min_eq_left (le_trans (min_le_left _ _) (le_max_left _ _))
  rw [← min_assoc, h]

theorem sort2_swap (x y : ℝ) : sort2 x y = sort2 y x := by
  simp only [sort2_real, min_comm x y, max_comm x y]

theorem sort3_swap12 (x y z : ℝ) : sort3 x y z = sort3 y x z := by
  simp only [sort3_real, min_comm x y, max_comm x y]

theorem sort3_swap23 (x y z : ℝ) : sort3 x y z = sort3 x z y := by
  simp only [sort3_real, Prod.mk.injEq]
  refine ⟨?_, ?_, ?_⟩
  · rw [min_assoc, min_comm y z, ← min_assoc]
  · rcases le_total x y with h1 | h1 <;> rcases le_total y z with h2 | h2 <;>
      rcases le_total x z with h3 | h3 <;> simp [*] <;> (try linarith)
  · rw [max_assoc, max_comm y z, ← max_assoc]

/-- sorting an already sorted triple does nothing -/
theorem sort3_sorted {x y z : ℝ} (h1 : x ≤ y) (h2 : y ≤ z) : sort3 x y z = (x, y, z) := by
  simp only [sort3_real, min_eq_left h1, max_eq_right h1, min_eq_left h2, max_eq_right h2,
    min_eq_left (h1.trans h2)]

/-- the output of `sort3` is ordered -/
theorem sort3_ordered (x y z : ℝ) : (sort3 x y z).1 ≤ (sort3 x y z).2.1 ∧ (sort3 x y z).2.1 ≤ (sort3 x y z).2.2 := by
  simp only [sort3_real]
  constructor
  · exact le_trans (min_le_left _ _) (le_max_left _ _)
  · apply max_le
    · exact le_trans (min_le_left _ _) (le_trans (le_max_left _ _) (le_max_left _ _))
    · exact le_trans (min_le_left _ _) (le_max_left _ _)

/-- scaling commutes with sorting -/
theorem sort3_scale {k : ℝ} (hk : 0 ≤ k) (x y z : ℝ) :
    sort3 (k * x) (k * y) (k * z) = (k * (sort3 x y z).1, k * (sort3 x y z).2.1, k * (sort3 x y z).2.2) := by
  simp only [sort3_real, ← mul_min_of_nonneg _ _ hk, ← mul_max_of_nonneg _ _ hk]

theorem sort2_scale {k : ℝ} (hk : 0 ≤ k) (x y : ℝ) :
    sort2 (k * x) (k * y) = (k * (sort2 x y).1, k * (sort2 x y).2) := by
  simp only [sort2_real, ← mul_min_of_nonneg _ _ hk, ← mul_max_of_nonneg _ _ hk]

end Curved
