import CoxeterVerif.Lemmas.Inside3DTet0
/-!
  C05, the single-tetrahedron winding lemma — part 5: the query point on the LINE of an edge of the
  face `(b, c, d)` opposite to the first vertex (outside the closed edge).

  Two barycentric coordinates vanish (`β₀` and one of `β₁, β₂, β₃`); the two faces through that edge
  contribute `0` (`triangle_sign = 0`), the other two are pierced together or not at all and carry
  opposite signs, so the four terms add up to `0` (`tet_any01/02/03`).
-/
open Scalar
set_option maxRecDepth 4000
noncomputable section

namespace Inside3D
open Spec.In3D

/-- the finite table: `β₀ = β₁ = 0`, `σ₂ ≠ σ₃` -/
theorem tet_table1 {s2 s3 ab ac ad bc bd : Int}
    (h2 : s2 = 1 ∨ s2 = -1) (h3 : s3 = 1 ∨ s3 = -1)
    (g1 : ab = 1 ∨ ab = -1) (g2 : ac = 1 ∨ ac = -1) (g3 : ad = 1 ∨ ad = -1)
    (g4 : bc = 1 ∨ bc = -1) (g5 : bd = 1 ∨ bd = -1)
    (hIa : s2 * ac = -(s3 * ad)) (hIb : s2 * bc = -(s3 * bd)) (hne : s2 ≠ s3) :
    s3 * pierceI ac (-bc) (-ab) + s2 * pierceI ab bd (-ad) = 0 := by
  rcases h2 with rfl | rfl <;> rcases h3 with rfl | rfl <;>
  rcases g1 with rfl | rfl <;> rcases g2 with rfl | rfl <;> rcases g3 with rfl | rfl <;>
  rcases g4 with rfl | rfl <;> rcases g5 with rfl | rfl <;>
  simp [pierceI] at hIa hIb hne ⊢

/-- generic position, the origin on the line `cd` -/
theorem tet_generic01 (a b c d : V3 ℝ)
    (hxa : a.x ≠ 0) (hxb : b.x ≠ 0) (hxc : c.x ≠ 0) (hxd : d.x ≠ 0)
    (hab : c2 a b ≠ 0) (hac : c2 a c ≠ 0) (had : c2 a d ≠ 0) (hbc : c2 b c ≠ 0) (hbd : c2 b d ≠ 0)
    (h0 : V3.det3 b c d = 0) (h1 : V3.det3 a d c = 0) (h2 : V3.det3 a b d ≠ 0) (h3 : V3.det3 a c b ≠ 0)
    (hne : sgn (V3.det3 a b d) ≠ sgn (V3.det3 a c b)) :
    contribD a c b + contribD a b d = 0 := by
  have nba : c2 b a ≠ 0 := by rw [c2_swap]; exact neg_ne_zero.mpr hab
  have nda : c2 d a ≠ 0 := by rw [c2_swap]; exact neg_ne_zero.mpr had
  have ncb : c2 c b ≠ 0 := by rw [c2_swap]; exact neg_ne_zero.mpr hbc
  rw [contribD_generic_int a c b hxa hxc hxb hac ncb nba,
    contribD_generic_int a b d hxa hxb hxd hab hbd nda]
  rw [c2_swap a b, c2_swap a d, c2_swap b c]
  simp only [sgn_neg]
  have Ia : V3.det3 a b d * c2 a c + V3.det3 a c b * c2 a d = 0 := by
    have : V3.det3 a d c * c2 a b + V3.det3 a b d * c2 a c + V3.det3 a c b * c2 a d = 0 := by
      unfold V3.det3 V3.dot V3.cross c2; ring
    rw [h1] at this; linarith
  have Ib : V3.det3 a b d * c2 b c + V3.det3 a c b * c2 b d = 0 := by
    have : -(V3.det3 b c d * c2 a b) + V3.det3 a b d * c2 b c + V3.det3 a c b * c2 b d = 0 := by
      unfold V3.det3 V3.dot V3.cross c2; ring
    rw [h0] at this; linarith
  have eIa := sgn_eq_neg_of_add_eq_zero Ia
  have eIb := sgn_eq_neg_of_add_eq_zero Ib
  simp only [sgn_mul] at eIa eIb
  exact tet_table1 (sgn_pm h2) (sgn_pm h3) (sgn_pm hab) (sgn_pm hac) (sgn_pm had) (sgn_pm hbc) (sgn_pm hbd)
    eIa eIb hne

/-- **any position, the origin on the line `cd`** (`β₀ = β₁ = 0`, `β₂`, `β₃` of opposite signs) -/
theorem tet_any01 (a b c d : V3 ℝ)
    (h0 : V3.det3 b c d = 0) (h1 : V3.det3 a d c = 0) (h2 : V3.det3 a b d ≠ 0) (h3 : V3.det3 a c b ≠ 0)
    (hne : sgn (V3.det3 a b d) ≠ sgn (V3.det3 a c b)) :
    contribD a c b + contribD a b d + contribD b c d + contribD a d c = 0 := by
  rw [contribD_zero_of_det h0, contribD_zero_of_det h1, add_zero, add_zero]
  let tv (u : V3 ℝ) : ℝ × ℝ × ℝ := (u.x, u.y, u.z)
  obtain ⟨ε, hε, hk⟩ := lex_eps [tv a, tv b, tv c, tv d,
    Poly.computeCross a c, Poly.computeCross c b, Poly.computeCross b a,
    Poly.computeCross a b, Poly.computeCross b d, Poly.computeCross d a,
    Poly.computeCross b c, Poly.computeCross a d]
  have hk' := hk ε hε le_rfl
  have va : VOK ε a := hk' (tv a) (by simp)
  have vb : VOK ε b := hk' (tv b) (by simp)
  have vc : VOK ε c := hk' (tv c) (by simp)
  have vd : VOK ε d := hk' (tv d) (by simp)
  have eac : EOK ε a c := hk' (Poly.computeCross a c) (by simp)
  have ecb : EOK ε c b := hk' (Poly.computeCross c b) (by simp)
  have eba : EOK ε b a := hk' (Poly.computeCross b a) (by simp)
  have eab : EOK ε a b := hk' (Poly.computeCross a b) (by simp)
  have ebd : EOK ε b d := hk' (Poly.computeCross b d) (by simp)
  have eda : EOK ε d a := hk' (Poly.computeCross d a) (by simp)
  have ebc : EOK ε b c := hk' (Poly.computeCross b c) (by simp)
  have ead : EOK ε a d := hk' (Poly.computeCross a d) (by simp)
  rw [← contribD_shear h3 va vc vb eac ecb eba, ← contribD_shear h2 va vb vd eab ebd eda]
  have h0' : V3.det3 (shear ε b) (shear ε c) (shear ε d) = 0 := by rw [det3_shear]; exact h0
  have h1' : V3.det3 (shear ε a) (shear ε d) (shear ε c) = 0 := by rw [det3_shear]; exact h1
  have h2' : V3.det3 (shear ε a) (shear ε b) (shear ε d) ≠ 0 := by rw [det3_shear]; exact h2
  have h3' : V3.det3 (shear ε a) (shear ε c) (shear ε b) ≠ 0 := by rw [det3_shear]; exact h3
  have h3c : V3.det3 c b a ≠ 0 := by rw [det3_cyc]; exact h3
  have h3b : V3.det3 b a c ≠ 0 := by rw [det3_cyc]; exact h3c
  have h2b : V3.det3 b d a ≠ 0 := by rw [det3_cyc]; exact h2
  have h2d : V3.det3 d a b ≠ 0 := by rw [det3_cyc]; exact h2b
  have hbca : V3.det3 b c a ≠ 0 := by
    rw [det3_cyc, det3_swap_last]; exact neg_ne_zero.mpr h3
  have hadb : V3.det3 a d b ≠ 0 := by rw [det3_swap_last]; exact neg_ne_zero.mpr h2
  exact tet_generic01 (shear ε a) (shear ε b) (shear ε c) (shear ε d)
    (shear_x_ne va (vec_ne_of_det h3)) (shear_x_ne vb (vec_ne_of_det h3b))
    (shear_x_ne vc (vec_ne_of_det h3c)) (shear_x_ne vd (vec_ne_of_det h2d))
    (shear_c2_ne eab (cc_ne_of_det h2)) (shear_c2_ne eac (cc_ne_of_det h3)) (shear_c2_ne ead (cc_ne_of_det hadb))
    (shear_c2_ne ebc (cc_ne_of_det hbca)) (shear_c2_ne ebd (cc_ne_of_det h2b))
    h0' h1' h2' h3' (by rw [det3_shear, det3_shear]; exact hne)

/-- the origin on the line `db` (`β₀ = β₂ = 0`): rotate `(b, c, d) → (c, d, b)` -/
theorem tet_any02 (a b c d : V3 ℝ)
    (h0 : V3.det3 b c d = 0) (h2 : V3.det3 a b d = 0) (h1 : V3.det3 a d c ≠ 0) (h3 : V3.det3 a c b ≠ 0)
    (hne : sgn (V3.det3 a c b) ≠ sgn (V3.det3 a d c)) :
    contribD a c b + contribD a b d + contribD b c d + contribD a d c = 0 := by
  have := tet_any01 a c d b (by rw [det3_cyc]; exact h0) h2 h3 h1 hne
  rw [contribD_rot b c d] at this
  linarith

/-- the origin on the line `bc` (`β₀ = β₃ = 0`): rotate `(b, c, d) → (d, b, c)` -/
theorem tet_any03 (a b c d : V3 ℝ)
    (h0 : V3.det3 b c d = 0) (h3 : V3.det3 a c b = 0) (h1 : V3.det3 a d c ≠ 0) (h2 : V3.det3 a b d ≠ 0)
    (hne : sgn (V3.det3 a d c) ≠ sgn (V3.det3 a b d)) :
    contribD a c b + contribD a b d + contribD b c d + contribD a d c = 0 := by
  have := tet_any01 a d b c (by rw [← det3_cyc]; exact h0) h3 h1 h2 hne
  rw [contribD_rot c d b, contribD_rot b c d] at this
  linarith

/-! ### statement on the model and the spec -/

/-- number of zeros among `β₁, β₂, β₃` is one, `β₀ = 0`, and `p ∉ T`: `p` is on the line of an edge
of the face opposite to `T.a`, outside the closed edge; the winding sum over `∂T` vanishes -/
theorem tet_winding_edge (T : Tet ℝ) (p : V3 ℝ) (h0 : orient p T.b T.c T.d = 0)
    (hz : (orient T.a p T.c T.d = 0 ∧ orient T.a T.b p T.d ≠ 0 ∧ orient T.a T.b T.c p ≠ 0) ∨
          (orient T.a p T.c T.d ≠ 0 ∧ orient T.a T.b p T.d = 0 ∧ orient T.a T.b T.c p ≠ 0) ∨
          (orient T.a p T.c T.d ≠ 0 ∧ orient T.a T.b p T.d ≠ 0 ∧ orient T.a T.b T.c p = 0))
    (hin : inTet T p = false) :
    Poly.windingSum T.bdry p = 0 := by
  obtain ⟨a, b, c, d⟩ := T
  simp only at h0 hz hin
  have e0 : V3.det3 (b - p) (c - p) (d - p) = orient p b c d := rfl
  have e1 : V3.det3 (a - p) (d - p) (c - p) = orient a p c d := by
    obtain ⟨ax, ay, az⟩ := a; obtain ⟨cx, cy, cz⟩ := c; obtain ⟨dx, dy, dz⟩ := d; obtain ⟨px, py, pz⟩ := p
    unfold orient V3.det3 V3.dot V3.cross
    simp only [V3.sub_x, V3.sub_y, V3.sub_z]; ring
  have e2 : V3.det3 (a - p) (b - p) (d - p) = orient a b p d := by
    obtain ⟨ax, ay, az⟩ := a; obtain ⟨bx, b_y, bz⟩ := b; obtain ⟨dx, dy, dz⟩ := d; obtain ⟨px, py, pz⟩ := p
    unfold orient V3.det3 V3.dot V3.cross
    simp only [V3.sub_x, V3.sub_y, V3.sub_z]; ring
  have e3 : V3.det3 (a - p) (c - p) (b - p) = orient a b c p := by
    obtain ⟨ax, ay, az⟩ := a; obtain ⟨bx, b_y, bz⟩ := b; obtain ⟨cx, cy, cz⟩ := c; obtain ⟨px, py, pz⟩ := p
    unfold orient V3.det3 V3.dot V3.cross
    simp only [V3.sub_x, V3.sub_y, V3.sub_z]; ring
  have hsum : orient p b c d + orient a p c d + orient a b p d + orient a b c p = orient a b c d := by
    obtain ⟨ax, ay, az⟩ := a; obtain ⟨bx, b_y, bz⟩ := b; obtain ⟨cx, cy, cz⟩ := c
    obtain ⟨dx, dy, dz⟩ := d; obtain ⟨px, py, pz⟩ := p
    unfold orient V3.det3 V3.dot V3.cross
    simp only [V3.sub_x, V3.sub_y, V3.sub_z]; ring
  have hW : Poly.windingSum (Tet.bdry ⟨a, b, c, d⟩) p =
      contribD (a - p) (c - p) (b - p) + contribD (a - p) (b - p) (d - p)
        + contribD (b - p) (c - p) (d - p) + contribD (a - p) (d - p) (c - p) := by
    simp only [Poly.windingSum, Tet.bdry, List.map_cons, List.map_nil, List.sum_cons, List.sum_nil,
      contribution_eq]
    ring
  rw [hW]
  simp only [inTet, bary, List.all_cons, List.all_nil, Bool.and_true, Bool.or_eq_false_iff,
    Bool.and_eq_false_iff, decide_eq_false_iff_not, Scalar.lit, Scalar.ofNat_real, Nat.cast_zero, not_lt,
    not_le] at hin
  rw [h0] at hin hsum
  obtain ⟨hA, hB⟩ := hin
  -- two non-zero coordinates `x`, `y` (the third is zero) cannot have one sign
  have opp : ∀ x y : ℝ, x ≠ 0 → y ≠ 0 → x + y = orient a b c d →
      (orient a b c d ≤ 0 ∨ x < 0 ∨ y < 0) → (0 ≤ orient a b c d ∨ 0 < x ∨ 0 < y) → sgn x ≠ sgn y := by
    intro x y hx hy hs hA' hB' he
    rcases sgn_cases hx with ⟨k, px⟩ | ⟨k, px⟩
    · have py := sgn_eq_one_iff.mp (he ▸ k)
      rcases hA' with h | h | h <;> linarith
    · have py := sgn_eq_neg_one_iff.mp (he ▸ k)
      rcases hB' with h | h | h <;> linarith
  rcases hz with ⟨z1, n2, n3⟩ | ⟨n1, z2, n3⟩ | ⟨n1, n2, z3⟩
  · rw [z1] at hA hB hsum
    apply tet_any01 _ _ _ _ (by rw [e0]; exact h0) (by rw [e1]; exact z1) (by rw [e2]; exact n2)
      (by rw [e3]; exact n3)
    rw [e2, e3]
    exact opp _ _ n2 n3 (by linarith)
      (by rcases hA with h | h | h | h | h <;> [exact Or.inl h; exact absurd h (lt_irrefl _);
            exact absurd h (lt_irrefl _); exact Or.inr (Or.inl h); exact Or.inr (Or.inr h)])
      (by rcases hB with h | h | h | h | h <;> [exact Or.inl h; exact absurd h (lt_irrefl _);
            exact absurd h (lt_irrefl _); exact Or.inr (Or.inl h); exact Or.inr (Or.inr h)])
  · rw [z2] at hA hB hsum
    apply tet_any02 _ _ _ _ (by rw [e0]; exact h0) (by rw [e2]; exact z2) (by rw [e1]; exact n1)
      (by rw [e3]; exact n3)
    rw [e1, e3]
    exact opp _ _ n3 n1 (by linarith)
      (by rcases hA with h | h | h | h | h <;> [exact Or.inl h; exact absurd h (lt_irrefl _);
            exact Or.inr (Or.inr h); exact absurd h (lt_irrefl _); exact Or.inr (Or.inl h)])
      (by rcases hB with h | h | h | h | h <;> [exact Or.inl h; exact absurd h (lt_irrefl _);
            exact Or.inr (Or.inr h); exact absurd h (lt_irrefl _); exact Or.inr (Or.inl h)])
  · rw [z3] at hA hB hsum
    apply tet_any03 _ _ _ _ (by rw [e0]; exact h0) (by rw [e3]; exact z3) (by rw [e1]; exact n1)
      (by rw [e2]; exact n2)
    rw [e1, e2]
    exact opp _ _ n1 n2 (by linarith)
      (by rcases hA with h | h | h | h | h <;> [exact Or.inl h; exact absurd h (lt_irrefl _);
            exact Or.inr (Or.inl h); exact Or.inr (Or.inr h); exact absurd h (lt_irrefl _)])
      (by rcases hB with h | h | h | h | h <;> [exact Or.inl h; exact absurd h (lt_irrefl _);
            exact Or.inr (Or.inl h); exact Or.inr (Or.inr h); exact absurd h (lt_irrefl _)])

end Inside3D
end
