import CoxeterVerif.Lemmas.Steiner
import Mathlib.Analysis.SpecialFunctions.Trigonometric.Angle
import Mathlib.Analysis.SpecialFunctions.Complex.Arg
import Mathlib.Data.List.Basic
/-!
  C11 (deepening round) — **the exterior angles of a strictly convex polygon add up to 2π**.

  Planar points are pairs; the turning angle of `Spec/Steiner.lean`
  (`atan2(cross, dot)` of two consecutive edge vectors) is the complex argument of the quotient of the
  two edges.  The proof is by cutting ears: removing the last vertex `p` of `… q' q p | a b …` changes
  the exterior angles at `q` and `a` by the two base angles of the triangle `q p a` and removes the
  exterior angle at `p`, which is their sum.  Additivity of `arg` is used only where all three
  arguments lie in `(0, π)` (`arg_mul_of_im_pos`), which is what the left-turn hypotheses give.
-/
open Scalar
open scoped List
namespace Steiner
noncomputable section

/-! ### complex arguments of left turns -/

/-- planar cross product of two complex numbers seen as vectors -/
def crossC (w z : ℂ) : ℝ := w.re * z.im - w.im * z.re

theorem crossC_pos_ne_zero {w z : ℂ} (h : 0 < crossC w z) : w ≠ 0 ∧ z ≠ 0 := by
  constructor
  · rintro rfl; simp [crossC] at h
  · rintro rfl; simp [crossC] at h

theorem crossC_add_right (u v w : ℂ) : crossC u (v + w) = crossC u v + crossC u w := by
  simp only [crossC, Complex.add_re, Complex.add_im]; ring

theorem crossC_add_left (u v w : ℂ) : crossC (u + v) w = crossC u w + crossC v w := by
  simp only [crossC, Complex.add_re, Complex.add_im]; ring

theorem crossC_self (u : ℂ) : crossC u u = 0 := by simp only [crossC]; ring

theorem im_div_pos {w z : ℂ} (h : 0 < crossC w z) : 0 < (z / w).im := by
  have hw := (crossC_pos_ne_zero h).1
  have hn : 0 < Complex.normSq w := Complex.normSq_pos.mpr hw
  rw [Complex.div_im]
  have : z.im * w.re / Complex.normSq w - z.re * w.im / Complex.normSq w
      = crossC w z / Complex.normSq w := by
    unfold crossC; ring
  rw [this]; positivity

theorem arg_mem_of_im_pos {z : ℂ} (h : 0 < z.im) : 0 < Complex.arg z ∧ Complex.arg z < Real.pi := by
  constructor
  · have h0 : 0 ≤ Complex.arg z := Complex.arg_nonneg_iff.mpr h.le
    rcases h0.lt_or_eq with h1 | h1
    · exact h1
    · exfalso
      have := (Complex.arg_eq_zero_iff.mp h1.symm).2
      linarith
  · exact Complex.arg_lt_pi_iff.mpr (Or.inr h.ne')

/-- `arg` is additive where both factors and the product lie in the open upper half plane -/
theorem arg_mul_of_im_pos {x y : ℂ} (hx : 0 < x.im) (hy : 0 < y.im) (hxy : 0 < (x * y).im) :
    Complex.arg (x * y) = Complex.arg x + Complex.arg y := by
  have hx0 : x ≠ 0 := by rintro rfl; simp at hx
  have hy0 : y ≠ 0 := by rintro rfl; simp at hy
  have h := Complex.arg_mul_coe_angle hx0 hy0
  rw [← Real.Angle.coe_add, Real.Angle.angle_eq_iff_two_pi_dvd_sub] at h
  obtain ⟨k, hk⟩ := h
  obtain ⟨a1, a2⟩ := arg_mem_of_im_pos hx
  obtain ⟨b1, b2⟩ := arg_mem_of_im_pos hy
  obtain ⟨c1, c2⟩ := arg_mem_of_im_pos hxy
  have hpi := Real.pi_pos
  have hk0 : k = 0 := by
    by_contra hne
    rcases lt_or_gt_of_ne hne with hlt | hgt
    · have h1 : (k : ℝ) ≤ -1 := by exact_mod_cast Int.le_sub_one_of_lt hlt
      nlinarith
    · have h1 : (1 : ℝ) ≤ k := by exact_mod_cast hgt
      nlinarith
  rw [hk0] at hk
  simp only [Int.cast_zero, mul_zero] at hk
  linarith

/-- **ear lemma** on edge vectors `u, v, w, x`: replacing the two edges `v, w` by their sum keeps the
total turning -/
theorem ear_args {u v w x : ℂ} (h1 : 0 < crossC u v) (h2 : 0 < crossC v w) (h3 : 0 < crossC w x)
    (h4 : 0 < crossC u (v + w)) (h5 : 0 < crossC (v + w) x) :
    Complex.arg (v / u) + Complex.arg (w / v) + Complex.arg (x / w)
      = Complex.arg ((v + w) / u) + Complex.arg (x / (v + w)) := by
  have hv := (crossC_pos_ne_zero h1).2
  have hw := (crossC_pos_ne_zero h2).2
  have hd : v + w ≠ 0 := (crossC_pos_ne_zero h5).1
  have hvd : 0 < crossC v (v + w) := by rw [crossC_add_right, crossC_self]; linarith
  have hdw : 0 < crossC (v + w) w := by rw [crossC_add_left, crossC_self]; linarith
  have e1 : v / u * ((v + w) / v) = (v + w) / u := by field_simp
  have e2 : w / (v + w) * (x / w) = x / (v + w) := by field_simp
  have e3 : (v + w) / v * (w / (v + w)) = w / v := by field_simp
  have a1 := arg_mul_of_im_pos (im_div_pos h1) (im_div_pos hvd) (by rw [e1]; exact im_div_pos h4)
  have a2 := arg_mul_of_im_pos (im_div_pos hdw) (im_div_pos h3) (by rw [e2]; exact im_div_pos h5)
  have a3 := arg_mul_of_im_pos (im_div_pos hvd) (im_div_pos hdw) (by rw [e3]; exact im_div_pos h2)
  rw [e1] at a1; rw [e2] at a2; rw [e3] at a3
  linarith

/-- **triangle**: three left turns that close up turn by exactly `2π` -/
theorem triangle_args {u v w : ℂ} (h1 : 0 < crossC u v) (h2 : 0 < crossC v w) (h3 : 0 < crossC w u) :
    Complex.arg (v / u) + Complex.arg (w / v) + Complex.arg (u / w) = 2 * Real.pi := by
  have hu := (crossC_pos_ne_zero h1).1
  have hv := (crossC_pos_ne_zero h1).2
  have hw := (crossC_pos_ne_zero h2).2
  have n1 : v / u ≠ 0 := div_ne_zero hv hu
  have n2 : w / v ≠ 0 := div_ne_zero hw hv
  have n3 : u / w ≠ 0 := div_ne_zero hu hw
  have hprod : v / u * (w / v) * (u / w) = 1 := by field_simp
  have hA := Complex.arg_mul_coe_angle (mul_ne_zero n1 n2) n3
  rw [Complex.arg_mul_coe_angle n1 n2, hprod, Complex.arg_one] at hA
  rw [← Real.Angle.coe_add, ← Real.Angle.coe_add, eq_comm, Real.Angle.coe_zero,
    Real.Angle.coe_eq_zero_iff] at hA
  obtain ⟨k, hk⟩ := hA
  obtain ⟨a1, a2⟩ := arg_mem_of_im_pos (im_div_pos h1)
  obtain ⟨b1, b2⟩ := arg_mem_of_im_pos (im_div_pos h2)
  obtain ⟨c1, c2⟩ := arg_mem_of_im_pos (im_div_pos h3)
  have hpi := Real.pi_pos
  rw [zsmul_eq_mul] at hk
  have hk1 : k = 1 := by
    have hlo : 0 < k := by
      by_contra hneg
      have h1 : (k : ℝ) ≤ 0 := by exact_mod_cast not_lt.mp hneg
      nlinarith
    have hhi : k < 2 := by
      by_contra hge
      have h1 : (2 : ℝ) ≤ k := by exact_mod_cast not_lt.mp hge
      nlinarith
    omega
  rw [hk1] at hk
  simp only [Int.cast_one, one_mul] at hk
  linarith

/-! ### points -/

def toC (p : ℝ × ℝ) : ℂ := ⟨p.1, p.2⟩

theorem toC_sub (b a : ℝ × ℝ) : toC b - toC a = toC (SteinerSpec.sub2 b a) := by
  apply Complex.ext <;> simp [toC, SteinerSpec.sub2]

/-- the turning angle of the spec is the argument of the quotient of the two edges -/
theorem turnAngle_eq_arg (a b c : ℝ × ℝ) :
    SteinerSpec.turnAngle a b c = Complex.arg ((toC c - toC b) / (toC b - toC a)) := by
  rw [toC_sub, toC_sub]
  unfold SteinerSpec.turnAngle
  set e := SteinerSpec.sub2 b a
  set f := SteinerSpec.sub2 c b
  show Complex.arg ⟨SteinerSpec.dot2 e f, SteinerSpec.cross2 e f⟩ = _
  by_cases he : toC e = 0
  · have h1 : e.1 = 0 := by simpa [toC] using congrArg Complex.re he
    have h2 : e.2 = 0 := by simpa [toC] using congrArg Complex.im he
    rw [he, div_zero]
    have : (⟨SteinerSpec.dot2 e f, SteinerSpec.cross2 e f⟩ : ℂ) = 0 := by
      apply Complex.ext <;> simp [SteinerSpec.dot2, SteinerSpec.cross2, h1, h2]
    rw [this]
  · have hn : 0 < Complex.normSq (toC e) := Complex.normSq_pos.mpr he
    have hq : toC f / toC e
        = (⟨SteinerSpec.dot2 e f, SteinerSpec.cross2 e f⟩ : ℂ) * (((Complex.normSq (toC e))⁻¹ : ℝ) : ℂ) := by
      rw [div_eq_mul_inv, Complex.inv_def, ← mul_assoc]
      congr 1
      apply Complex.ext <;> simp [toC, SteinerSpec.dot2, SteinerSpec.cross2] <;> ring
    rw [hq, Complex.arg_mul_real (inv_pos.mpr hn)]

/-- orientation of the triple (twice the signed area of the triangle) -/
def orient (a b c : ℝ × ℝ) : ℝ := SteinerSpec.cross2 (SteinerSpec.sub2 b a) (SteinerSpec.sub2 c a)

theorem orient_rot (a b c : ℝ × ℝ) : orient b c a = orient a b c := by
  simp only [orient, SteinerSpec.cross2, SteinerSpec.sub2]; ring

theorem orient_eq_crossC (a b c : ℝ × ℝ) : orient a b c = crossC (toC b - toC a) (toC c - toC b) := by
  simp only [orient, SteinerSpec.cross2, SteinerSpec.sub2, crossC, toC, Complex.sub_re, Complex.sub_im]
  ring

/-- ear lemma on points: `… q' q p a b …` versus `… q' q a b …` -/
theorem ear_points {q' q p a b : ℝ × ℝ} (o1 : 0 < orient q' q p) (o2 : 0 < orient q p a)
    (o3 : 0 < orient p a b) (o4 : 0 < orient q' q a) (o5 : 0 < orient q a b) :
    SteinerSpec.turnAngle q' q p + SteinerSpec.turnAngle q p a + SteinerSpec.turnAngle p a b
      = SteinerSpec.turnAngle q' q a + SteinerSpec.turnAngle q a b := by
  simp only [turnAngle_eq_arg]
  rw [orient_eq_crossC] at o1 o2 o3 o4 o5
  have hd : toC a - toC q = (toC p - toC q) + (toC a - toC p) := by ring
  rw [hd] at o4 o5 ⊢
  exact ear_args o1 o2 o3 o4 o5

theorem triangle_points {a b c : ℝ × ℝ} (o : 0 < orient a b c) :
    SteinerSpec.turnAngle a b c + SteinerSpec.turnAngle b c a + SteinerSpec.turnAngle c a b
      = 2 * Real.pi := by
  simp only [turnAngle_eq_arg]
  have o2 : 0 < orient b c a := by rw [orient_rot]; exact o
  have o3 : 0 < orient c a b := by rw [orient_rot, orient_rot]; exact o
  rw [orient_eq_crossC] at o o2 o3
  exact triangle_args o o2 o3

/-! ### lists -/

/-- every triple in list order is a strict left turn -/
def AllCcw (l : List (ℝ × ℝ)) : Prop := ∀ a b c, [a, b, c] <+ l → 0 < orient a b c

theorem AllCcw.sublist {l m : List (ℝ × ℝ)} (h : AllCcw l) (hm : m <+ l) : AllCcw m :=
  fun a b c hs => h a b c (hs.trans hm)

theorem pairsAll_sound (p : ℝ × ℝ → ℝ × ℝ → Bool) :
    ∀ t : List (ℝ × ℝ), SteinerSpec.pairsAll p t = true → ∀ b c, [b, c] <+ t → p b c = true
  | [], _, b, c, hs => by cases hs
  | b0 :: t, h, b, c, hs => by
    simp only [SteinerSpec.pairsAll, Bool.and_eq_true, List.all_eq_true] at h
    rcases List.sublist_cons_iff.mp hs with h1 | ⟨r, hr, hrs⟩
    · exact pairsAll_sound p t h.2 b c h1
    · injection hr with hb hr'
      subst hb; subst hr'
      exact h.1 c (List.singleton_sublist.mp hrs)

/-- the decidable check of the spec is sound for `AllCcw` -/
theorem allCcw_sound : ∀ l : List (ℝ × ℝ), SteinerSpec.allCcw l = true → AllCcw l
  | [], _ => fun a b c hs => by cases hs
  | a0 :: t, h => by
    simp only [SteinerSpec.allCcw, Bool.and_eq_true] at h
    intro a b c hs
    rcases List.sublist_cons_iff.mp hs with h1 | ⟨r, hr, hrs⟩
    · exact allCcw_sound t h.2 a b c h1
    · injection hr with ha hr'
      subst ha; subst hr'
      have := pairsAll_sound _ t h.1 b c hrs
      simpa [SteinerSpec.ccw, orient] using this

theorem pathTurn_split (x y : ℝ × ℝ) (w : List (ℝ × ℝ)) :
    ∀ u : List (ℝ × ℝ), SteinerSpec.pathTurn (u ++ x :: y :: w)
      = SteinerSpec.pathTurn (u ++ [x, y]) + SteinerSpec.pathTurn (x :: y :: w)
  | [] => by simp [SteinerSpec.pathTurn]
  | [a] => by simp [SteinerSpec.pathTurn]
  | [a, b] => by
    have := pathTurn_split x y w [b]
    simp only [List.cons_append, List.nil_append, SteinerSpec.pathTurn] at this ⊢
    rw [this]; simp only [Scalar.lit, Scalar.ofNat_real]; ring
  | a :: b :: c :: u => by
    have := pathTurn_split x y w (b :: c :: u)
    simp only [List.cons_append, SteinerSpec.pathTurn] at this ⊢
    rw [this]; ring

theorem exists_decomp (l : List (ℝ × ℝ)) (n : ℕ) (hl : l.length = n + 4) :
    ∃ a s q' q p, l = a :: (s ++ [q', q, p]) ∧ s.length = n := by
  match l, hl with
  | a :: t, hl =>
    have ht : t.length = n + 3 := by simpa using hl
    have hd : (t.drop n).length = 3 := by rw [List.length_drop]; omega
    obtain ⟨q', q, p, hqp⟩ := List.length_eq_three.mp hd
    refine ⟨a, t.take n, q', q, p, ?_, ?_⟩
    · rw [← hqp, List.take_append_drop]
    · rw [List.length_take]; omega

/-- **the exterior angles of a strictly convex counter-clockwise polygon add up to `2π`** -/
theorem turnSum_eq_two_pi : ∀ (n : ℕ) (l : List (ℝ × ℝ)), l.length = n + 3 → AllCcw l →
    SteinerSpec.turnSum l = 2 * Real.pi
  | 0, l, hl, h => by
    obtain ⟨a, b, c, rfl⟩ := List.length_eq_three.mp (by simpa using hl)
    have o := h a b c (List.Sublist.refl _)
    have := triangle_points o
    simp only [SteinerSpec.turnSum, SteinerSpec.closeUp, List.take, List.cons_append, List.nil_append,
      SteinerSpec.pathTurn, Scalar.lit, Scalar.ofNat_real]
    push_cast; linarith
  | n + 1, l, hl, h => by
    obtain ⟨a, s, q', q, p, rfl, hs⟩ := exists_decomp l n (by omega)
    have hm : a :: (s ++ [q', q]) <+ a :: (s ++ [q', q, p]) := by
      apply List.Sublist.cons_cons
      rw [List.append_sublist_append_left]
      exact List.Sublist.cons_cons _ (List.Sublist.cons_cons _ (List.nil_sublist _))
    have ih := turnSum_eq_two_pi n (a :: (s ++ [q', q])) (by simp; omega) (h.sublist hm)
    rw [← ih]
    have o1 : 0 < orient q' q p := h _ _ _ (by
      apply List.Sublist.cons; exact List.sublist_append_right _ _)
    have o2 : 0 < orient q p a := by
      rw [orient_rot]
      exact h _ _ _ (List.Sublist.cons_cons _ (List.Sublist.trans
        (List.Sublist.cons _ (List.Sublist.refl _)) (List.sublist_append_right _ _)))
    have o4 : 0 < orient q' q a := by
      rw [orient_rot]
      exact h _ _ _ (List.Sublist.cons_cons _ (List.Sublist.trans
        (List.Sublist.cons_cons _ (List.Sublist.cons_cons _ (List.nil_sublist _)))
        (List.sublist_append_right _ _)))
    cases s with
    | nil =>
      have o3 : 0 < orient p a q' := by
        rw [orient_rot, orient_rot]
        exact h _ _ _ (List.Sublist.cons_cons _ (List.Sublist.cons_cons _
          (List.Sublist.cons _ (List.Sublist.refl _))))
      have o5 : 0 < orient q a q' := by
        rw [orient_rot, orient_rot]
        exact h _ _ _ (List.Sublist.cons_cons _ (List.Sublist.cons_cons _
          (List.Sublist.cons_cons _ (List.nil_sublist _))))
      have := ear_points o1 o2 o3 o4 o5
      simp only [SteinerSpec.turnSum, SteinerSpec.closeUp, List.take, List.cons_append, List.nil_append,
        SteinerSpec.pathTurn, Scalar.lit, Scalar.ofNat_real]
      push_cast; linarith
    | cons b s' =>
      have o3 : 0 < orient p a b := by
        rw [orient_rot, orient_rot]
        exact h _ _ _ (List.Sublist.cons_cons _ (List.Sublist.cons_cons _ (List.Sublist.trans
          (List.Sublist.cons _ (List.Sublist.cons _ (List.Sublist.refl _)))
          (List.sublist_append_right _ _))))
      have o5 : 0 < orient q a b := by
        rw [orient_rot, orient_rot]
        exact h _ _ _ (List.Sublist.cons_cons _ (List.Sublist.cons_cons _ (List.Sublist.trans
          (List.Sublist.cons _ (List.Sublist.cons_cons _ (List.nil_sublist _)))
          (List.sublist_append_right _ _))))
      have hear := ear_points o1 o2 o3 o4 o5
      have e1 : (a :: (b :: s' ++ [q', q, p])) ++ List.take 2 (a :: (b :: s' ++ [q', q, p]))
          = (a :: b :: s') ++ q' :: q :: [p, a, b] := by simp
      have e2 : (a :: (b :: s' ++ [q', q])) ++ List.take 2 (a :: (b :: s' ++ [q', q]))
          = (a :: b :: s') ++ q' :: q :: [a, b] := by simp
      simp only [SteinerSpec.turnSum, SteinerSpec.closeUp]
      rw [e1, e2, pathTurn_split, pathTurn_split q' q [a, b]]
      simp only [SteinerSpec.pathTurn, Scalar.lit, Scalar.ofNat_real]
      push_cast; linarith

/-- statement in terms of the spec's decidable check -/
theorem turnSum_of_allCcw (l : List (ℝ × ℝ)) (h3 : 3 ≤ l.length) (h : SteinerSpec.allCcw l = true) :
    SteinerSpec.turnSum l = 2 * Real.pi :=
  turnSum_eq_two_pi (l.length - 3) l (by omega) (allCcw_sound l h)

/-! ### the sums of the decomposition -/

theorem stripSum_eq (r : ℝ) : ∀ l : List (ℝ × ℝ), SteinerSpec.stripSum r l = SteinerSpec.pathLen l * r
  | [] => by simp [SteinerSpec.stripSum, SteinerSpec.pathLen]
  | [a] => by simp [SteinerSpec.stripSum, SteinerSpec.pathLen]
  | a :: b :: t => by
    have := stripSum_eq r (b :: t)
    simp only [SteinerSpec.stripSum, SteinerSpec.pathLen, this]; ring

theorem sectorSum_eq (r : ℝ) : ∀ l : List (ℝ × ℝ),
    SteinerSpec.sectorSum r l = SteinerSpec.pathTurn l / 2 * (r * r)
  | [] => by simp [SteinerSpec.sectorSum, SteinerSpec.pathTurn]
  | [a] => by simp [SteinerSpec.sectorSum, SteinerSpec.pathTurn]
  | [a, b] => by simp [SteinerSpec.sectorSum, SteinerSpec.pathTurn]
  | a :: b :: c :: t => by
    have := sectorSum_eq r (b :: c :: t)
    simp only [SteinerSpec.sectorSum, SteinerSpec.pathTurn, SteinerSpec.sectorArea, this, Scalar.lit,
      Scalar.ofNat_real]
    push_cast; ring

theorem arcSum_eq (r : ℝ) : ∀ l : List (ℝ × ℝ),
    SteinerSpec.arcSum r l = SteinerSpec.pathTurn l * r
  | [] => by simp [SteinerSpec.arcSum, SteinerSpec.pathTurn]
  | [a] => by simp [SteinerSpec.arcSum, SteinerSpec.pathTurn]
  | [a, b] => by simp [SteinerSpec.arcSum, SteinerSpec.pathTurn]
  | a :: b :: c :: t => by
    have := arcSum_eq r (b :: c :: t)
    simp only [SteinerSpec.arcSum, SteinerSpec.pathTurn, SteinerSpec.arcLength, this]
    ring

/-! ### vertex caps: angular defects add up to `4π` -/

theorem pathInterior_eq : ∀ l : List (ℝ × ℝ),
    SteinerSpec.pathInterior l = ((l.length : ℝ) - 2) * Real.pi - SteinerSpec.pathTurn l ∨ l.length < 2
  | [] => Or.inr (by simp)
  | [a] => Or.inr (by simp)
  | [a, b] => Or.inl (by simp [SteinerSpec.pathInterior, SteinerSpec.pathTurn])
  | a :: b :: c :: t => by
    left
    rcases pathInterior_eq (b :: c :: t) with h | h
    · simp only [SteinerSpec.pathInterior, SteinerSpec.pathTurn, SteinerSpec.interiorAngle, h,
        List.length_cons, Scalar.pi_real]
      push_cast; ring
    · simp at h

/-- the interior angles of a strictly convex polygon with `n` vertices add up to `(n − 2)π` -/
theorem faceAngleSum_eq (f : List (ℝ × ℝ)) (h3 : 3 ≤ f.length) (h : SteinerSpec.allCcw f = true) :
    SteinerSpec.faceAngleSum f = ((f.length : ℝ) - 2) * Real.pi := by
  have ht := turnSum_of_allCcw f h3 h
  unfold SteinerSpec.turnSum at ht
  unfold SteinerSpec.faceAngleSum
  have hlen : (SteinerSpec.closeUp f).length = f.length + 2 := by
    simp [SteinerSpec.closeUp, List.length_take]; omega
  rcases pathInterior_eq (SteinerSpec.closeUp f) with h1 | h1
  · rw [h1, ht, hlen]; push_cast; ring
  · omega

theorem sum_faceAngleSum : ∀ faces : List (List (ℝ × ℝ)),
    (∀ f ∈ faces, 3 ≤ f.length ∧ SteinerSpec.allCcw f = true) →
    (faces.map SteinerSpec.faceAngleSum).sum
      = Real.pi * (((faces.map List.length).sum : ℕ) : ℝ) - 2 * Real.pi * (faces.length : ℝ)
  | [], _ => by simp
  | f :: fs, h => by
    have hf := h f List.mem_cons_self
    have ih := sum_faceAngleSum fs (fun g hg => h g (List.mem_cons_of_mem _ hg))
    simp only [List.map_cons, List.sum_cons, List.length_cons, ih, faceAngleSum_eq f hf.1 hf.2]
    push_cast; ring

/-- **the exterior solid angles (angular defects) of a convex polytope add up to `4π`**: every face a
strictly convex polygon, Euler's formula for the counts -/
theorem capAngleSum_eq (nV : Nat) (faces : List (List (ℝ × ℝ)))
    (hf : ∀ f ∈ faces, 3 ≤ f.length ∧ SteinerSpec.allCcw f = true)
    (he : SteinerSpec.eulerOk nV (faces.map List.length) = true) :
    SteinerSpec.capAngleSum nV faces = 4 * Real.pi := by
  unfold SteinerSpec.capAngleSum
  rw [Scalar.sum_real, sum_faceAngleSum faces hf]
  simp only [SteinerSpec.eulerOk, List.length_map, beq_iff_eq] at he
  generalize (faces.map List.length).sum = N at he ⊢
  generalize faces.length = F at he ⊢
  have he' : (2 : ℝ) * ((nV : ℝ) + (F : ℝ)) = (N : ℝ) + 4 := by exact_mod_cast he
  simp only [Scalar.lit, Scalar.ofNat_real, Scalar.pi_real]
  push_cast
  linear_combination Real.pi * he'

end
end Steiner
