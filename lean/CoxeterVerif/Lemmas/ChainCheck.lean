import CoxeterVerif.Lemmas.Planar
import CoxeterVerif.Model.ChainCheck
/-!
  Soundness of the computable chain checkers of `Model/ChainCheck.lean`, the cone construction
  over a closed surface, and the boundary (edge-chain) form of per-face area and centroid.

  The checkers run at any scalar type whose `eqb` is sound (`ℝ`, and `ℚ` — what the driver uses);
  the conclusions are about the real triangles obtained through a vertex map `f : V3 α → V3 ℝ`.
-/
open Scalar ChainCheck
set_option maxRecDepth 4000
noncomputable section
namespace CCk

/-! ### generic soundness -/

/-- transport a triangle along a vertex map into `ℝ³` -/
def triTo {α : Type} (f : V3 α → V3 ℝ) (t : Tri α) : Tri ℝ := ⟨f t.a, f t.b, f t.c⟩
def tetTo {α : Type} (f : V3 α → V3 ℝ) (T : Tet α) : Tet ℝ := ⟨f T.a, f T.b, f T.c, f T.d⟩
def edgeTo {α : Type} (f : V3 α → V3 ℝ) (e : V3 α × V3 α) : Edge := (f e.1, f e.2)

theorem triTo_id : triTo (id : V3 ℝ → V3 ℝ) = id := rfl
theorem tetTo_id : tetTo (id : V3 ℝ → V3 ℝ) = id := rfl
theorem edgeTo_id : edgeTo (id : V3 ℝ → V3 ℝ) = id := rfl

theorem flatMap_bdry_tetTo {α : Type} [Scalar α] (f : V3 α → V3 ℝ) (Ts : List (Tet α)) :
    (Ts.flatMap Tet.bdry).map (triTo f) = (Ts.map (tetTo f)).flatMap Tet.bdry := by
  induction Ts with
  | nil => rfl
  | cons T Ts ih =>
    simp only [List.flatMap_cons, List.map_append, List.map_cons, ih]
    rfl

theorem flatMap_edgesOf_triTo {α : Type} [Scalar α] (f : V3 α → V3 ℝ) (S : List (Tri α)) :
    (S.flatMap edgesOf).map (edgeTo f) = (S.map (triTo f)).flatMap triEdges := by
  induction S with
  | nil => rfl
  | cons t S ih =>
    simp only [List.flatMap_cons, List.map_append, List.map_cons, ih]
    rfl

theorem removeFirst_some {β : Type} {p : β → Bool} :
    ∀ {l l' : List β}, removeFirst p l = some l' → ∃ x, p x = true ∧ l.Perm (x :: l')
  | [], _, h => by simp [removeFirst] at h
  | y :: ys, l', h => by
    unfold removeFirst at h
    by_cases hp : p y = true
    · rw [if_pos hp] at h
      cases h
      exact ⟨y, hp, List.Perm.refl _⟩
    · rw [if_neg hp] at h
      cases hr : removeFirst p ys with
      | none => rw [hr] at h; cases h
      | some r =>
        rw [hr] at h
        cases h
        obtain ⟨x, hx, hperm⟩ := removeFirst_some hr
        exact ⟨x, hx, (hperm.cons y).trans (List.Perm.swap x y r)⟩

theorem sumOver_map_rev {φ : Tri ℝ → ℝ} (hφ : OddCyclic φ) (T : List (Tri ℝ)) :
    sumOver φ (T.map Tri.rev) = -sumOver φ T := by
  induction T with
  | nil => simp [sumOver]
  | cons t T ih =>
    simp only [sumOver, List.map_cons, List.sum_cons] at ih ⊢
    rw [ih, hφ.rev]; ring

theorem chainEq_cons (t : Tri ℝ) {S T : List (Tri ℝ)} (h : ChainEq S T) : ChainEq (t :: S) (t :: T) :=
  ChainEq.append (ChainEq.refl [t]) h

/-- `S − T = 0` as a chain gives `S = T` as chains -/
theorem chainEq_of_sub_nil {S T : List (Tri ℝ)} (h : ChainEq (S ++ T.map Tri.rev) []) : ChainEq S T := by
  intro φ hφ
  have := h φ hφ
  simp only [sumOver, List.map_append, List.sum_append, List.map_nil, List.sum_nil] at this
  have h2 := sumOver_map_rev hφ T
  simp only [sumOver] at h2 ⊢
  linarith

section generic
variable {α : Type} [Scalar α] (heq : ∀ a b : α, Scalar.eqb a b = true → a = b)
include heq

theorem v3Eqb_sound {u v : V3 α} (h : v3Eqb u v = true) : u = v := by
  obtain ⟨ux, uy, uz⟩ := u; obtain ⟨vx, vy, vz⟩ := v
  simp only [v3Eqb, Bool.and_eq_true] at h
  obtain ⟨⟨h1, h2⟩, h3⟩ := h
  rw [heq _ _ h1, heq _ _ h2, heq _ _ h3]

theorem triEqb_sound {s t : Tri α} (h : triEqb s t = true) : s = t := by
  obtain ⟨sa, sb, sc⟩ := s; obtain ⟨ta, tb, tc⟩ := t
  simp only [triEqb, Bool.and_eq_true] at h
  obtain ⟨⟨h1, h2⟩, h3⟩ := h
  rw [v3Eqb_sound heq h1, v3Eqb_sound heq h2, v3Eqb_sound heq h3]

theorem triCycEqb_sound {s t : Tri α} (h : triCycEqb s t = true) :
    s = t ∨ s = t.rot ∨ s = t.rot.rot := by
  simp only [triCycEqb, Bool.or_eq_true] at h
  rcases h with (h | h) | h
  · exact Or.inl (triEqb_sound heq h)
  · exact Or.inr (Or.inl (triEqb_sound heq h))
  · exact Or.inr (Or.inr (triEqb_sound heq h))

/-- everything cancels ⇒ the (transported) list is the zero chain -/
theorem cancelAll_sound (f : V3 α → V3 ℝ) :
    ∀ (fuel : Nat) (L : List (Tri α)), cancelAll fuel L = true → ChainEq (L.map (triTo f)) []
  | _, [], _ => ChainEq.refl _
  | 0, _ :: _, h => by simp [cancelAll] at h
  | fuel + 1, t :: rest, h => by
    unfold cancelAll at h
    cases hr : removeFirst (fun s => triCycEqb s t.rev) rest with
    | none => rw [hr] at h; cases h
    | some rest' =>
      rw [hr] at h
      simp only at h
      obtain ⟨x, hx, hperm⟩ := removeFirst_some hr
      have ih := cancelAll_sound f fuel rest' h
      have hxT : ChainEq (triTo f x :: rest'.map (triTo f)) ((triTo f t).rev :: rest'.map (triTo f)) := by
        rcases triCycEqb_sound heq hx with rfl | rfl | rfl
        · exact ChainEq.refl _
        · exact ChainEq.rot (triTo f t).rev _
        · exact (ChainEq.rot (triTo f t).rev.rot _).trans (ChainEq.rot (triTo f t).rev _)
      have h1 : ChainEq ((t :: rest).map (triTo f)) (triTo f t :: triTo f x :: rest'.map (triTo f)) := by
        simp only [List.map_cons]
        exact ChainEq.perm (by simpa using (hperm.map (triTo f)).cons (triTo f t))
      exact h1.trans ((chainEq_cons _ hxT).trans ((ChainEq.cancel _ _).trans ih))

/-- **Soundness of the chain checker** (generic scalar, transported to `ℝ`). -/
theorem chainCheck_sound_gen (f : V3 α → V3 ℝ) {S T : List (Tri α)}
    (h : chainCheck S T = true) : ChainEq (S.map (triTo f)) (T.map (triTo f)) := by
  have := cancelAll_sound heq f _ _ h
  apply chainEq_of_sub_nil
  simpa [List.map_append, List.map_map, Function.comp_def, triTo, Tri.rev] using this

theorem edgeRevEqb_sound {e g : V3 α × V3 α} (h : edgeRevEqb e g = true) :
    e = (g.2, g.1) := by
  obtain ⟨e1, e2⟩ := e
  simp only [edgeRevEqb, Bool.and_eq_true] at h
  rw [v3Eqb_sound heq h.1, v3Eqb_sound heq h.2]

theorem cancelEdges_sound (f : V3 α → V3 ℝ) :
    ∀ (fuel : Nat) (L : List (V3 α × V3 α)), cancelEdges fuel L = true →
      EdgeChainEq (L.map (edgeTo f)) []
  | _, [], _ => EdgeChainEq.refl _
  | 0, _ :: _, h => by simp [cancelEdges] at h
  | fuel + 1, e :: rest, h => by
    unfold cancelEdges at h
    cases hr : removeFirst (fun g => edgeRevEqb g e) rest with
    | none => rw [hr] at h; cases h
    | some rest' =>
      rw [hr] at h
      simp only at h
      obtain ⟨x, hx, hperm⟩ := removeFirst_some hr
      have ih := cancelEdges_sound f fuel rest' h
      have hx' := edgeRevEqb_sound heq hx
      subst hx'
      have h1 : EdgeChainEq ((e :: rest).map (edgeTo f))
          ((f e.1, f e.2) :: (f e.2, f e.1) :: rest'.map (edgeTo f)) := by
        simp only [List.map_cons]
        exact EdgeChainEq.perm (by simpa [edgeTo] using (hperm.map (edgeTo f)).cons (edgeTo f e))
      exact h1.trans ((EdgeChainEq.cancel _ _ _).trans ih)

end generic

/-! ### the two instances: `ℝ` (identity) and `ℚ` (the driver's exact mode, cast to `ℝ`) -/

theorem eqb_real_sound (a b : ℝ) (h : Scalar.eqb a b = true) : a = b := of_decide_eq_true h
theorem eqb_rat_sound (a b : ℚ) (h : Scalar.eqb a b = true) : a = b := of_decide_eq_true h

/-- the exact real value of a rational vector / triangle / tetrahedron -/
def v3OfRat (v : V3 ℚ) : V3 ℝ := ⟨(v.x : ℝ), (v.y : ℝ), (v.z : ℝ)⟩
def triOfRat (t : Tri ℚ) : Tri ℝ := triTo v3OfRat t
def tetOfRat (T : Tet ℚ) : Tet ℝ := tetTo v3OfRat T

/-- a surface is closed when the directed edges of its triangles sum to the zero 1-chain -/
def ClosedSurface (S : List (Tri ℝ)) : Prop := EdgeChainEq (S.flatMap triEdges) []

/-! ### the cone over a closed surface -/

theorem oddCyclic_swap {φ : Tri ℝ → ℝ} (hφ : OddCyclic φ) (p x y : V3 ℝ) :
    φ ⟨p, y, x⟩ = -φ ⟨p, x, y⟩ := by
  have h1 := hφ.rev ⟨x, y, p⟩
  have h2 := hφ.rot ⟨p, x, y⟩
  simp only [Tri.rev, Tri.rot] at h1 h2
  rw [h1, h2]

/-- the boundary of the cone over `S` is `S` minus the cone over the edges of `S` -/
theorem sumOver_cone {φ : Tri ℝ → ℝ} (hφ : OddCyclic φ) (p : V3 ℝ) (S : List (Tri ℝ)) :
    sumOver φ ((cone p S).flatMap Tet.bdry)
      = sumOver φ S - sumEdges (fun e => φ ⟨p, e.1, e.2⟩) (S.flatMap triEdges) := by
  induction S with
  | nil => simp [sumOver, sumEdges, cone]
  | cons t S ih =>
    obtain ⟨a, b, c⟩ := t
    have e1 := oddCyclic_swap hφ p a b
    have e2 := oddCyclic_swap hφ p c a
    have e3 := oddCyclic_swap hφ p b c
    simp only [cone, sumOver, sumEdges, List.map_cons, List.flatMap_cons, Tet.bdry, triEdges,
      List.map_append, List.sum_append, List.sum_cons, List.map_nil, List.sum_nil] at ih ⊢
    rw [ih, e1, e2, e3]; ring

/-! ### per-face boundary functionals -/

def faceMomentPhi (u o : V3 ℝ) (i : Nat) : Edge → ℝ :=
  fun e => FacePlane.edgeCross u o e * (o + e.1 + e.2).get i

theorem edgeCross_odd (u o : V3 ℝ) : OddEdge (FacePlane.edgeCross u o) := by
  intro ⟨px, py, pz⟩ ⟨qx, qy, qz⟩
  obtain ⟨ux, uy, uz⟩ := u; obtain ⟨ox, oy, oz⟩ := o
  unfold FacePlane.edgeCross; unfold_model; ring

theorem faceMomentPhi_odd (u o : V3 ℝ) (i : Nat) (hi : i < 3) : OddEdge (faceMomentPhi u o i) := by
  intro ⟨px, py, pz⟩ ⟨qx, qy, qz⟩
  obtain ⟨ux, uy, uz⟩ := u; obtain ⟨ox, oy, oz⟩ := o
  cases3 i <;> unfold faceMomentPhi FacePlane.edgeCross <;> unfold_model <;> ring

/-- round any triangle the edge crosses sum to `u · (b−a)×(c−a)` (for every `o`) -/
theorem edgeCross_tri (u o : V3 ℝ) (T : Tri ℝ) :
    sumEdges (FacePlane.edgeCross u o) (triEdges T) = V3.dot u T.nvec := by
  obtain ⟨⟨ax, ay, az⟩, ⟨bx, b_y, bz⟩, ⟨cx, cy, cz⟩⟩ := T
  obtain ⟨ux, uy, uz⟩ := u; obtain ⟨ox, oy, oz⟩ := o
  simp only [sumEdges, triEdges, FacePlane.edgeCross, List.map_cons, List.map_nil, List.sum_cons, List.sum_nil]
  unfold_model; ring

/-- round a triangle lying IN the plane `u·(x−o) = 0` the moment functional sums to
`[u·(b−a)×(c−a)]·(a+b+c)_i`; the defect is `det(a−o, b−o, c−o)·u_i`, a combination of the three
plane equations. -/
theorem faceMomentPhi_tri (u o : V3 ℝ) (i : Nat) (hi : i < 3) (T : Tri ℝ)
    (ha : V3.dot u (T.a - o) = 0) (hb : V3.dot u (T.b - o) = 0) (hc : V3.dot u (T.c - o) = 0) :
    sumEdges (faceMomentPhi u o i) (triEdges T) = V3.dot u T.nvec * (T.a + T.b + T.c).get i := by
  obtain ⟨⟨ax, ay, az⟩, ⟨bx, b_y, bz⟩, ⟨cx, cy, cz⟩⟩ := T
  obtain ⟨ux, uy, uz⟩ := u; obtain ⟨ox, oy, oz⟩ := o
  simp only [V3.dot, V3.sub_x, V3.sub_y, V3.sub_z] at ha hb hc
  cases3 i <;>
    simp only [sumEdges, triEdges, faceMomentPhi, FacePlane.edgeCross, List.map_cons, List.map_nil,
      List.sum_cons, List.sum_nil] <;> unfold_model
  · linear_combination
      (-((b_y - oy) * (cz - oz) - (bz - oz) * (cy - oy))) * ha
      + (-((cy - oy) * (az - oz) - (cz - oz) * (ay - oy))) * hb
      + (-((ay - oy) * (bz - oz) - (az - oz) * (b_y - oy))) * hc
  · linear_combination
      (-((bz - oz) * (cx - ox) - (bx - ox) * (cz - oz))) * ha
      + (-((cz - oz) * (ax - ox) - (cx - ox) * (az - oz))) * hb
      + (-((az - oz) * (bx - ox) - (ax - ox) * (bz - oz))) * hc
  · linear_combination
      (-((bx - ox) * (cy - oy) - (b_y - oy) * (cx - ox))) * ha
      + (-((cx - ox) * (ay - oy) - (cy - oy) * (ax - ox))) * hb
      + (-((ax - ox) * (b_y - oy) - (ay - oy) * (bx - ox))) * hc

theorem v3_sum_get (l : List (V3 ℝ)) (i : Nat) (hi : i < 3) : (V3.sum l).get i = (l.map (·.get i)).sum := by
  cases3 i
  · simpa using V3.sum_x l
  · simpa using V3.sum_y l
  · simpa using V3.sum_z l

theorem v3_sdiv_get (v : V3 ℝ) (k : ℝ) (i : Nat) (hi : i < 3) : (V3.sdiv v k).get i = v.get i / k := by
  cases3 i <;> rfl

theorem v3_smul_get (v : V3 ℝ) (k : ℝ) (i : Nat) (hi : i < 3) : (V3.smul k v).get i = k * v.get i := by
  cases3 i <;> rfl

theorem normSq_of_norm_one {u : V3 ℝ} (hu : V3.norm u = 1) : V3.dot u u = 1 := by
  unfold V3.norm V3.normSq at hu
  simp only [Scalar.sqrt_real] at hu
  have h0 : 0 ≤ V3.dot u u := by
    by_contra hneg
    rw [Real.sqrt_eq_zero_of_nonpos (le_of_not_ge hneg)] at hu
    norm_num at hu
  have := Real.sq_sqrt h0
  rw [hu] at this
  linarith

theorem norm_smul_unit {u : V3 ℝ} (hu : V3.norm u = 1) (k : ℝ) (hk : 0 ≤ k) :
    V3.norm (V3.smul k u) = k := by
  unfold V3.norm V3.normSq V3.dot at hu ⊢
  simp only [V3.smul_x, V3.smul_y, V3.smul_z, Scalar.sqrt_real] at hu ⊢
  rw [show k * u.x * (k * u.x) + k * u.y * (k * u.y) + k * u.z * (k * u.z)
      = k ^ 2 * (u.x * u.x + u.y * u.y + u.z * u.z) by ring,
    Real.sqrt_mul (by positivity), Real.sqrt_sq hk, hu, mul_one]

/-- a simplex whose normal vector is `λ•u` (`λ ≥ 0`, `|u| = 1`) has area `λ/2` -/
theorem triArea_of_lam {u : V3 ℝ} (hu : V3.norm u = 1) {t : Tri ℝ} {k : ℝ} (hk : 0 ≤ k)
    (hn : t.nvec = V3.smul k u) : CP.triArea t = k / 2 := by
  have := triArea_two t
  simp only [Scalar.lit, Scalar.ofNat_real] at this
  rw [hn, norm_smul_unit hu _ hk] at this
  push_cast at this; linarith

theorem dot_nvec_of_lam {u : V3 ℝ} (hu : V3.norm u = 1) {t : Tri ℝ} {k : ℝ}
    (hn : t.nvec = V3.smul k u) : V3.dot u t.nvec = k := by
  have h1 := normSq_of_norm_one hu
  rw [hn]
  unfold V3.dot at h1 ⊢
  simp only [V3.smul_x, V3.smul_y, V3.smul_z]
  linear_combination k * h1


/-! ### what the driver evaluates in ℚ is what the theorems need in ℝ -/

theorem gsub_x {α : Type} [Scalar α] (u v : V3 α) : (u - v).x = u.x - v.x := rfl
theorem gsub_y {α : Type} [Scalar α] (u v : V3 α) : (u - v).y = u.y - v.y := rfl
theorem gsub_z {α : Type} [Scalar α] (u v : V3 α) : (u - v).z = u.z - v.z := rfl

theorem nvec_ofRat (s : Tri ℚ) : (triOfRat s).nvec = v3OfRat s.nvec := by
  obtain ⟨⟨ax,ay,az⟩,⟨bx,b_y,bz⟩,⟨cx,cy,cz⟩⟩ := s
  simp only [triOfRat, triTo, v3OfRat, Tri.nvec, V3.cross, gsub_x, gsub_y, gsub_z]
  ext <;> push_cast <;> ring

theorem eqb_rat_complete (a : ℚ) : Scalar.eqb a a = true := decide_eq_true rfl

theorem norm_eq_zero {v : V3 ℝ} (h : V3.norm v = 0) : v.x = 0 ∧ v.y = 0 ∧ v.z = 0 := by
  unfold V3.norm V3.normSq V3.dot at h
  simp only [Scalar.sqrt_real] at h
  have h2 := (Real.sqrt_eq_zero').mp h
  refine ⟨?_, ?_, ?_⟩ <;> nlinarith [mul_self_nonneg v.x, mul_self_nonneg v.y, mul_self_nonneg v.z]

/-- soundness of the exact non-degeneracy test -/
theorem nondegCheck_rat_sound {S : List (Tri ℚ)} (h : nondegCheck S = true) :
    ∀ t ∈ S.map triOfRat, V3.norm t.nvec ≠ 0 := by
  intro t ht hn
  obtain ⟨s, hs, rfl⟩ := List.mem_map.mp ht
  rw [nvec_ofRat] at hn
  obtain ⟨hx, hy, hz⟩ := norm_eq_zero hn
  simp only [v3OfRat] at hx hy hz
  have hx' : s.nvec.x = 0 := by exact_mod_cast hx
  have hy' : s.nvec.y = 0 := by exact_mod_cast hy
  have hz' : s.nvec.z = 0 := by exact_mod_cast hz
  have hall := List.all_eq_true.mp h s hs
  have : v3Eqb s.nvec V3.zero = true := by
    simp only [v3Eqb, V3.zero, hx', hy', hz', Scalar.lit, Bool.and_eq_true]
    exact ⟨⟨decide_eq_true rfl, decide_eq_true rfl⟩, decide_eq_true rfl⟩
  simp [this] at hall

theorem tetVol_ofRat (T : Tet ℚ) : Spec.tetVol (tetOfRat T) = ((Spec.tetVol T : ℚ) : ℝ) := by
  obtain ⟨⟨ax,ay,az⟩,⟨bx,b_y,bz⟩,⟨cx,cy,cz⟩,⟨dx,dy,dz⟩⟩ := T
  simp only [Spec.tetVol, tetOfRat, tetTo, v3OfRat, V3.det3, V3.dot, V3.cross, gsub_x, gsub_y, gsub_z,
    Scalar.lit]
  show _ / ((6 : ℕ) : ℝ) = ((_ / ((6 : ℕ) : ℚ) : ℚ) : ℝ)
  push_cast; ring

theorem scalar_sum_rat (l : List ℚ) : ((Scalar.sum l : ℚ) : ℝ) = (l.map (fun q : ℚ => (q : ℝ))).sum := by
  induction l with
  | nil => simp [Scalar.sum]; rfl
  | cons a l ih =>
    simp only [Scalar.sum, List.foldr_cons, List.map_cons, List.sum_cons] at ih ⊢
    rw [← ih]; push_cast; rfl

theorem vol_ofRat (Ts : List (Tet ℚ)) : Spec.vol (Ts.map tetOfRat) = ((Spec.vol Ts : ℚ) : ℝ) := by
  unfold Spec.vol
  rw [Scalar.sum_real, scalar_sum_rat, List.map_map, List.map_map]
  congr 1
  apply List.map_congr_left
  intro T _
  exact tetVol_ofRat T

end CCk
end
