import CoxeterVerif.Lemmas.CovarianceSim
import CoxeterVerif.Lemmas.Inside3DCert
import CoxeterVerif.Lemmas.Inside3DGlue
/-!
  Helper lemmas for C09, part 5: the 3-D containment models of C05 (`Model/Inside3D.lean`, imported
  unchanged) under a proper similarity `g : x ↦ k R x + t` (`Sim`, `Sim.Proper`).

  * plane equations move as `(n, d) ↦ (R n, k d − (R n)·t)` (`Sim.plane`) and every entry of
    `_point_plane_distances` is multiplied by `k`: `ConvexPolyhedron.is_inside` is invariant TERM-WISE;
  * sphere: `|g p − g c| = k |p − c|`; ellipsoid: translations, scalings (and the quarter turn that swaps
    the semi-axes) — the axis-aligned model has no general rotation;
  * spheropolyhedron: candidate test, prism, cylinder and cap tests are each invariant;
  * general polyhedron: the winding summand is built from COORDINATE signs with tie-breaking
    (`x`, then `y`, then `z`): it is invariant term-wise under translations and positive scalings, NOT under
    rotations (`Poly.contribution_rot_fails`); the DECISION is rotation invariant for every closed surface
    bounding a tetrahedralised solid and every point in general position, through `poly_inside_iff` of C05
    and the invariance of the orientation determinants.
-/
open Scalar Inside3D Spec.In3D
set_option maxRecDepth 4000
noncomputable section

namespace Sim
variable (g : Sim)

/-- image of a row of `_equations` (`n · x + d ≤ 0` with unit normal `n`) -/
def plane (e : Plane ℝ) : Plane ℝ := ⟨g.dir e.n, g.k * e.d - V3.dot g.t (g.dir e.n)⟩
def tri (t : Tri ℝ) : Tri ℝ := t.map g.pt
def tet (T : Tet ℝ) : Tet ℝ := T.map g.pt

variable {g} (hg : g.Proper)
include hg

theorem planeDist (e : Plane ℝ) (p : V3 ℝ) : CP.planeDist (g.plane e) (g.pt p) = g.k * CP.planeDist e p := by
  unfold CP.planeDist plane
  have h := vec_dot_dir hg p e.n
  unfold pt
  have e1 : V3.dot (V3.smul g.k (M3.mulVec g.R p) + g.t) (g.dir e.n)
      = V3.dot (g.vec p) (g.dir e.n) + V3.dot g.t (g.dir e.n) := by
    unfold vec V3.dot; simp only [V3.add_x, V3.add_y, V3.add_z]; ring
  rw [e1, h]; simp only []; ring

theorem planeDists (eqs : List (Plane ℝ)) (p : V3 ℝ) :
    CP.planeDists (eqs.map g.plane) (g.pt p) = (CP.planeDists eqs p).map (g.k * ·) := by
  unfold CP.planeDists
  simp only [List.map_map]
  apply List.map_congr_left
  intro e _
  simp only [Function.comp, planeDist hg]

/-- `ConvexPolyhedron.is_inside`, one point: term-wise invariant -/
theorem cp_isInside1 (eqs : List (Plane ℝ)) (p : V3 ℝ) :
    CP.isInside1 (eqs.map g.plane) (g.pt p) = CP.isInside1 eqs p := by
  unfold CP.isInside1
  rw [planeDists hg, List.all_map]
  congr 1
  funext d
  simp only [Function.comp, Scalar.lit, Scalar.ofNat_real, Nat.cast_zero]
  exact decide_pos_mul_le_zero hg.kpos d

omit hg in
/-- (`cp_batch_eq_map_single` of `Props/C05`, restated here so that this file needs C05's lemma files only: `Props/C05`
and `Props/C06` cannot be imported together — both declare a root-level `winding_additive`) -/
theorem cp_batch (eqs : List (Plane ℝ)) (pts : List (V3 ℝ)) :
    CP.isInside eqs pts = pts.map (CP.isInside1 eqs) := by
  unfold CP.isInside CP.isInside1
  simp only [List.map_map]; rfl

/-- `ConvexPolyhedron.is_inside`, the batch as NumPy computes it -/
theorem cp_isInside (eqs : List (Plane ℝ)) (pts : List (V3 ℝ)) :
    CP.isInside (eqs.map g.plane) (pts.map g.pt) = CP.isInside eqs pts := by
  rw [cp_batch, cp_batch, List.map_map]
  apply List.map_congr_left
  intro p _
  exact cp_isInside1 hg eqs p

/-! ### sphere, ellipsoid -/

theorem sphere_isInside1 (r : ℝ) (c p : V3 ℝ) :
    Sphere.isInside1 (g.k * r) (g.pt c) (g.pt p) = Sphere.isInside1 r c p := by
  unfold Sphere.isInside1
  rw [dist hg]
  exact decide_mul_le_mul hg.kpos _ _

theorem sphere_isInside (r : ℝ) (c : V3 ℝ) (pts : List (V3 ℝ)) :
    Sphere.isInside (g.k * r) (g.pt c) (pts.map g.pt) = Sphere.isInside r c pts := by
  unfold Sphere.isInside
  rw [List.map_map]
  apply List.map_congr_left
  intro p _
  exact sphere_isInside1 hg r c p

omit hg in
/-- ellipsoid (axis-aligned model): translation and positive scaling -/
theorem ellipsoid_isInside1 {k : ℝ} (hk : 0 < k) (t : V3 ℝ) (a b c : ℝ) (cen p : V3 ℝ) :
    Ellipsoid.isInside1 (k * a) (k * b) (k * c) (V3.smul k cen + t) (V3.smul k p + t)
      = Ellipsoid.isInside1 a b c cen p := by
  unfold Ellipsoid.isInside1
  have e : ∀ x y u : ℝ, (k * x + u - (k * y + u)) = k * (x - y) := by intros; ring
  simp only [V3.sub_x, V3.sub_y, V3.sub_z, V3.add_x, V3.add_y, V3.add_z, V3.smul_x, V3.smul_y, V3.smul_z, e,
    mul_div_mul_left _ _ hk.ne']
  rfl

omit hg in
/-- ellipsoid: the quarter turn about `z` exchanges the semi-axes `a` and `b` -/
theorem ellipsoid_isInside1_quarter (a b c : ℝ) (cen p : V3 ℝ) :
    Ellipsoid.isInside1 b a c ⟨-cen.y, cen.x, cen.z⟩ ⟨-p.y, p.x, p.z⟩ = Ellipsoid.isInside1 a b c cen p := by
  unfold Ellipsoid.isInside1 V3.norm V3.normSq V3.dot
  simp only [V3.sub_x, V3.sub_y, V3.sub_z]
  congr 2
  ring_nf

/-! ### general polyhedron: the exact predicates -/

theorem orient_sim (a b c d : V3 ℝ) :
    orient (g.pt a) (g.pt b) (g.pt c) (g.pt d) = g.k ^ 3 * orient a b c d := by
  unfold orient
  rw [pt_sub, pt_sub, pt_sub, vec_det3 hg]

theorem k3pos : 0 < g.k ^ 3 := pow_pos hg.kpos 3

theorem bary_sim (T : Tet ℝ) (p : V3 ℝ) : bary (g.tet T) (g.pt p) = (bary T p).map (g.k ^ 3 * ·) := by
  simp only [bary, tet, Tet.map, orient_sim hg, List.map_cons, List.map_nil]

theorem inTet_sim (T : Tet ℝ) (p : V3 ℝ) : inTet (g.tet T) (g.pt p) = inTet T p := by
  unfold inTet
  rw [bary_sim hg]
  simp only [tet, Tet.map, orient_sim hg, List.all_map, Function.comp_def, Scalar.lit, Scalar.ofNat_real,
    Nat.cast_zero]
  have h3 := k3pos hg
  have e1 : ∀ x : ℝ, decide (0 < g.k ^ 3 * x) = decide (0 < x) := fun x => by
    rw [decide_eq_decide]; exact pos_mul_pos_iff h3 x
  have e2 : ∀ x : ℝ, decide (g.k ^ 3 * x < 0) = decide (x < 0) := fun x => by
    rw [decide_eq_decide]; exact pos_mul_lt_zero h3 x
  have e3 : ∀ x : ℝ, decide (0 ≤ g.k ^ 3 * x) = decide (0 ≤ x) := fun x => by
    rw [decide_eq_decide]; exact pos_mul_nonneg_iff h3 x
  have e4 : ∀ x : ℝ, decide (g.k ^ 3 * x ≤ 0) = decide (x ≤ 0) := fun x => by
    rw [decide_eq_decide]; exact pos_mul_le_zero h3 x
  simp only [e1, e2, e3, e4]

theorem inTets_sim (Ts : List (Tet ℝ)) (p : V3 ℝ) : inTets (Ts.map g.tet) (g.pt p) = inTets Ts p := by
  unfold inTets
  rw [List.any_map]
  congr 1
  funext T
  exact inTet_sim hg T p

theorem eqb_sim (x : ℝ) : Scalar.eqb (g.k ^ 3 * x) (lit 0 : ℝ) = Scalar.eqb x (lit 0 : ℝ) := by
  show decide (g.k ^ 3 * x = ((0 : Nat) : ℝ)) = decide (x = ((0 : Nat) : ℝ))
  rw [decide_eq_decide]; simp only [Nat.cast_zero]
  exact pos_mul_eq_zero (k3pos hg) x

theorem offApex_sim (T : Tet ℝ) (p : V3 ℝ) : offApex (g.tet T) (g.pt p) = offApex T p := by
  unfold offApex
  rw [inTet_sim hg]
  simp only [tet, Tet.map, orient_sim hg, eqb_sim hg]

theorem offCone_sim (Ts : List (Tet ℝ)) (p : V3 ℝ) : offCone (Ts.map g.tet) (g.pt p) = offCone Ts p := by
  unfold offCone
  rw [List.all_map]
  congr 1
  funext T
  exact offApex_sim hg T p

omit hg in
theorem flatMap_bdry_tet (g : Sim) (Ts : List (Tet ℝ)) :
    (Ts.map g.tet).flatMap Tet.bdry = (Ts.flatMap Tet.bdry).map g.tri := by
  unfold tet tri
  exact flatMap_bdry_map g.pt Ts

/-- **`Polyhedron.is_inside` is invariant under every proper similarity** — for every closed surface
bounding a tetrahedralised solid and every point in general position (the hypotheses of
`poly_inside_iff`, stated for `x` only: they transfer to `g(x)`). -/
theorem poly_isInside1 {S : List (Tri ℝ)} {Ts : List (Tet ℝ)}
    (h : ChainEq S (Ts.flatMap Tet.bdry)) (hor : ∀ T ∈ Ts, 0 ≤ orient T.a T.b T.c T.d)
    (p : V3 ℝ) (hoff : offCone Ts p = true) :
    Poly.isInside1 (S.map g.tri) (g.pt p) = Poly.isInside1 S p := by
  have hch : ChainEq (S.map g.tri) ((Ts.map g.tet).flatMap Tet.bdry) := by
    rw [flatMap_bdry_tet]; exact ChainEq.map g.pt h
  have hor' : ∀ T ∈ Ts.map g.tet, 0 ≤ orient T.a T.b T.c T.d := by
    intro T hT
    obtain ⟨U, hU, rfl⟩ := List.mem_map.mp hT
    show 0 ≤ orient (g.pt U.a) (g.pt U.b) (g.pt U.c) (g.pt U.d)
    rw [orient_sim hg]
    exact mul_nonneg (k3pos hg).le (hor U hU)
  have hoff' : offCone (Ts.map g.tet) (g.pt p) = true := by rw [offCone_sim hg]; exact hoff
  -- `poly_inside_iff` of `Props/C05`, through the lemmas it is proved from
  have iff : ∀ {S : List (Tri ℝ)} {Ts : List (Tet ℝ)}, ChainEq S (Ts.flatMap Tet.bdry) →
      (∀ T ∈ Ts, 0 ≤ orient T.a T.b T.c T.d) → ∀ p : V3 ℝ, offCone Ts p = true →
      (Poly.isInside1 S p = true ↔ inTets Ts p = true) := by
    intro S Ts h hor p hoff
    rw [isInside1_iff_signedCount' h p hoff, signedCount_eq_count Ts p hor, countTets_ne_zero_iff]
  rw [Bool.eq_iff_iff, iff hch hor' (g.pt p) hoff', iff h hor p hoff, inTets_sim hg]

end Sim

/-! ### general polyhedron: the summand itself (translations and positive scalings only) -/

namespace Inside3D.Poly

theorem sgn_pos_mul {c : ℝ} (hc : 0 < c) (x : ℝ) : sgn (c * x) = sgn x := by
  rw [sgn_mul, sgn_pos' hc, one_mul]

theorem vertexSign_smul {k : ℝ} (hk : 0 < k) (d : V3 ℝ) : vertexSign (V3.smul k d) = vertexSign d := by
  unfold vertexSign
  simp only [V3.smul_x, V3.smul_y, V3.smul_z, sgn_pos_mul hk]

theorem computeCross_smul (k : ℝ) (u v : V3 ℝ) :
    computeCross (V3.smul k u) (V3.smul k v) =
      (k ^ 2 * (computeCross u v).1, k ^ 2 * (computeCross u v).2.1, k ^ 2 * (computeCross u v).2.2) := by
  unfold computeCross
  simp only [V3.smul_x, V3.smul_y, V3.smul_z, Prod.mk.injEq]
  refine ⟨?_, ?_, ?_⟩ <;> ring

/-- **the winding summand is invariant under `x ↦ k x + t`, `k > 0`, for every triangle and point** -/
theorem contribution_trans_scale {k : ℝ} (hk : 0 < k) (t p : V3 ℝ) (u : Tri ℝ) :
    contribution (V3.smul k p + t) (u.map fun x => V3.smul k x + t) = contribution p u := by
  have e : ∀ a : V3 ℝ, (V3.smul k a + t) - (V3.smul k p + t) = V3.smul k (a - p) := by
    intro a
    ext <;> simp only [V3.add_x, V3.add_y, V3.add_z, V3.sub_x, V3.sub_y, V3.sub_z, V3.smul_x, V3.smul_y,
      V3.smul_z] <;> ring
  have hk2 : 0 < k ^ 2 := pow_pos hk 2
  unfold contribution
  simp only [Tri.map, e, vertexSign_smul hk, computeCross_smul, edgeSign, sgn_pos_mul hk2, V3.smul_z]
  have e3 : ∀ a b c d f h : ℝ, -(k ^ 2 * a) * (k * b) - k ^ 2 * c * (k * d) - k ^ 2 * f * (k * h)
      = k ^ 3 * (-a * b - c * d - f * h) := by intros; ring
  rw [e3, sgn_pos_mul (pow_pos hk 3)]
  rfl

/-- **…but NOT under rotations**: the quarter turn about `z` changes the summand of one triangle (the
half-space classes `vertexSign` are made of coordinate signs).  Rotation invariance holds for the SUM over
a closed surface only (`Sim.poly_isInside1`). -/
theorem contribution_rot_fails :
    ¬ (∀ (R : M3 ℝ), IsRot R → ∀ (p : V3 ℝ) (u : Tri ℝ),
        contribution (M3.mulVec R p) (u.map (M3.mulVec R)) = contribution p u) := by
  intro h
  have hR : IsRot (⟨0, -1, 0, 1, 0, 0, 0, 0, 1⟩ : M3 ℝ) := by
    constructor <;> simp [M3.det]
  have := h _ hR ⟨0, 0, 0⟩ ⟨⟨-1, -1, -1⟩, ⟨-1, 0, -1⟩, ⟨0, 0, 1⟩⟩
  revert this
  simp only [contribution, Tri.map, M3.mulVec, vertexSign, computeCross, edgeSign, signOr, mask, sgn,
    V3.sub_x, V3.sub_y, V3.sub_z, Scalar.lit, Scalar.ofNat_real, Nat.cast_zero]
  norm_num

end Inside3D.Poly

/-! ### spheropolyhedron -/

namespace Sim
variable {g : Sim} (hg : g.Proper)
include hg

theorem inCylinder_sim (r : ℝ) (p s e : V3 ℝ) :
    Sphero.inCylinder (g.k * r) (g.pt p) (g.pt s) (g.pt e) = Sphero.inCylinder r p s e := by
  unfold Sphero.inCylinder
  simp only [pt_sub, vec_norm hg, sdiv_vec hg, vec_dot_dir hg]
  have e1 : g.vec (p - s) - V3.smul (g.k * V3.dot (p - s) (V3.sdiv (e - s) (V3.norm (e - s))))
        (g.dir (V3.sdiv (e - s) (V3.norm (e - s))))
      = g.vec ((p - s) - V3.smul (V3.dot (p - s) (V3.sdiv (e - s) (V3.norm (e - s))))
          (V3.sdiv (e - s) (V3.norm (e - s)))) := by
    rw [vec_sub g (p - s) (V3.smul _ _), vec_smul, vec_eq_smul_dir g (V3.sdiv (e - s) (V3.norm (e - s)))]
    ext <;> simp only [V3.sub_x, V3.sub_y, V3.sub_z, V3.smul_x, V3.smul_y, V3.smul_z] <;> ring
  rw [e1, vec_norm hg]
  simp only [Scalar.lit, Scalar.ofNat_real, Nat.cast_zero]
  rw [decide_mul_le_mul hg.kpos, decide_mul_le_mul hg.kpos]
  congr 2
  rw [decide_eq_decide]; exact pos_mul_nonneg_iff hg.kpos _

theorem inCap_sim (r : ℝ) (p s : V3 ℝ) : Sphero.inCap (g.k * r) (g.pt p) (g.pt s) = Sphero.inCap r p s := by
  unfold Sphero.inCap
  rw [dist hg]; exact decide_mul_le_mul hg.kpos _ _

omit hg in
theorem roll_map {β γ : Type} (f : β → γ) (l : List β) : Inside3D.roll (l.map f) = (Inside3D.roll l).map f := by
  cases l <;> simp [Inside3D.roll]

theorem checkFace_sim (r : ℝ) (prism : List (Plane ℝ)) (facePts : List (V3 ℝ)) (p : V3 ℝ) :
    Sphero.checkFace (g.k * r) (prism.map g.plane) (facePts.map g.pt) (g.pt p)
      = Sphero.checkFace r prism facePts p := by
  unfold Sphero.checkFace
  rw [cp_isInside1 hg, roll_map, List.zip_map, List.any_map, List.any_map]
  simp only [Function.comp_def, Prod.map, inCylinder_sim hg, inCap_sim hg]

theorem toCheck_sim (r d : ℝ) : Sphero.toCheck (g.k * r) (g.k * d) = Sphero.toCheck r d := by
  unfold Sphero.toCheck
  simp only [Scalar.lit, Scalar.ofNat_real, Nat.cast_zero]
  rw [decide_mul_le_mul hg.kpos, decide_pos_mul_le_zero hg.kpos]

/-- **`ConvexSpheropolyhedron.is_inside`, one point**: core planes, candidate faces, extruded prisms
(their Qhull equations move like every plane), cylinders and caps are all invariant. -/
theorem sphero_isInside1 (r : ℝ) (eqs : List (Plane ℝ)) (faces : List (List (V3 ℝ)))
    (extruded : List (List (Plane ℝ))) (p : V3 ℝ) :
    Sphero.isInside1 (g.k * r) (eqs.map g.plane) (faces.map (List.map g.pt))
        (extruded.map (List.map g.plane)) (g.pt p)
      = Sphero.isInside1 r eqs faces extruded p := by
  unfold Sphero.isInside1
  rw [cp_isInside1 hg, planeDists hg, List.map_map]
  congr 1
  have hz : (extruded.map (List.map g.plane)).zip (faces.map (List.map g.pt))
      = (extruded.zip faces).map (fun ef => (ef.1.map g.plane, ef.2.map g.pt)) := by
    rw [List.zip_map]; rfl
  rw [hz]
  have hm : List.map ((Sphero.toCheck (g.k * r)) ∘ fun x => g.k * x) (CP.planeDists eqs p)
      = List.map (Sphero.toCheck r) (CP.planeDists eqs p) := by
    apply List.map_congr_left
    intro d _
    simp only [Function.comp, toCheck_sim hg]
  rw [hm]
  generalize List.map (Sphero.toCheck r) (CP.planeDists eqs p) = cs
  generalize extruded.zip faces = efs
  induction cs generalizing efs with
  | nil => simp
  | cons c cs ih =>
    cases efs with
    | nil => simp
    | cons ef efs =>
      simp only [List.map_cons, List.zip_cons_cons, List.any_cons, checkFace_sim hg, ih efs]

end Sim

end
