import CoxeterVerif.Lemmas.Constructors
/-!
  C15, deepening round: `_reorder_verts` is idempotent.

  `sortKeys rot = rot.map (keyOf a₀)` with `a₀ = atan2` of the first aligned vertex: the key of a vertex depends on the
  vertex and on the reference angle only.  Sorting the (key, vertex, payload) triples and reading off the vertices gives
  a list whose keys — recomputed with the same reference angle — are the sorted keys; a second `_reorder_verts` finds
  them sorted and (stable insertion sort) changes nothing.
-/
open Scalar C15 C15.Spec
set_option maxRecDepth 4000
set_option linter.unusedSimpArgs false
set_option linter.unusedVariables false
noncomputable section

namespace C15
variable {β γ : Type}

/-- reference angle of `_reorder_verts`: `angles[ref_index = 0]` -/
def refAngle (rot : List (V3 ℝ)) : ℝ := (rot.map fun v => Scalar.atan2 v.y v.x).getD 0 (Scalar.lit 0)

/-- the sort key of one aligned vertex, given the reference angle -/
def keyOf (a0 : ℝ) (v : V3 ℝ) : ℝ × ℝ := (pmod (Scalar.atan2 v.y v.x - a0) (Scalar.lit 2 * Scalar.pi), V3.norm v)

theorem sortKeys_eq_map (rot : List (V3 ℝ)) : sortKeys rot = rot.map (keyOf (refAngle rot)) := by
  unfold sortKeys relAngles refAngle keyOf
  rw [List.map_map, List.zip_map']
  rfl

/-- sorting does not look at the payload: it commutes with any map of the payload -/
theorem insertBy_map (g : β → γ) (x : (ℝ × ℝ) × β) (l : List ((ℝ × ℝ) × β)) :
    (insertBy keyLt x l).map (Prod.map id g) = insertBy keyLt (Prod.map id g x) (l.map (Prod.map id g)) := by
  induction l with
  | nil => rfl
  | cons y ys ih =>
    simp only [insertBy, List.map_cons]
    have : keyLt (Prod.map id g y) (Prod.map id g x) = keyLt y x := rfl
    rw [this]
    split_ifs
    · simp only [List.map_cons, ih]
    · simp only [List.map_cons]

theorem isort_map (g : β → γ) (l : List ((ℝ × ℝ) × β)) :
    (isort keyLt l).map (Prod.map id g) = isort keyLt (l.map (Prod.map id g)) := by
  induction l with
  | nil => rfl
  | cons x xs ih => simp only [isort, List.map_cons, insertBy_map, ih]

/-- an already sorted list is left alone (the insertion sort is stable) -/
theorem isort_of_sorted (l : List ((ℝ × ℝ) × β)) (h : l.Pairwise keyLe) : isort keyLt l = l := by
  rw [isort_eq]; exact List.Pairwise.insertionSort_eq h

/-- **`_reorder_verts` leaves vertices that are already in (angle, distance) order unchanged** -/
theorem reorder_sorted_fixed_aux (rot : List (V3 ℝ)) (payload : List β) (hlen : rot.length = payload.length)
    (hs : (List.zip (sortKeys rot) payload).Pairwise keyLe) : reorder rot payload = payload := by
  unfold reorder
  rw [isort_of_sorted _ hs]
  apply List.map_snd_zip
  rw [sortKeys_eq_map, List.length_map, hlen]

/-- **`_reorder_verts` is idempotent**: re-ordering the re-ordered vertices (aligned points `reorder rot rot`, any
payload re-ordered along) changes nothing, provided the first re-ordered vertex has the reference angle of the first
original one (it IS the first original one under `reorder_keeps_first`). -/
theorem reorder_idempotent_aux (rot : List (V3 ℝ)) (payload : List β) (hlen : rot.length = payload.length)
    (href : refAngle (reorder rot rot) = refAngle rot) :
    reorder (reorder rot rot) (reorder rot payload) = reorder rot payload := by
  set k := keyOf (refAngle rot) with hk
  -- the triples (key, (vertex, payload)), sorted
  set S := isort keyLt (List.zip (rot.map k) (List.zip rot payload)) with hS
  have hzlen : (List.zip rot payload).length = rot.length := by simp [hlen]
  have h1 : reorder rot rot = S.map (·.2.1) := by
    unfold reorder
    rw [sortKeys_eq_map, ← hk]
    have : List.zip (rot.map k) rot = (List.zip (rot.map k) (List.zip rot payload)).map (Prod.map id Prod.fst) := by
      rw [← List.zip_map (f := id) (g := Prod.fst), List.map_id, List.map_fst_zip (by omega)]
    rw [this, ← isort_map, List.map_map]
    rfl
  have h2 : reorder rot payload = S.map (·.2.2) := by
    unfold reorder
    rw [sortKeys_eq_map, ← hk]
    have : List.zip (rot.map k) payload = (List.zip (rot.map k) (List.zip rot payload)).map (Prod.map id Prod.snd) := by
      rw [← List.zip_map (f := id) (g := Prod.snd), List.map_id, List.map_snd_zip (by omega)]
    rw [this, ← isort_map, List.map_map]
    rfl
  -- every triple carries the key of its own vertex
  have hinv : ∀ t ∈ S, t.1 = k t.2.1 := by
    intro t ht
    have ht' : t ∈ List.zip (rot.map k) (List.zip rot payload) := (isort_perm _).mem_iff.1 ht
    have : List.zip (rot.map k) (List.zip rot payload)
        = (List.zip rot payload).map (fun p => (k p.1, p)) := by
      have e1 : rot.map k = (List.zip rot payload).map (fun p => k p.1) := by
        have : (List.zip rot payload).map (fun p => k p.1) = ((List.zip rot payload).map Prod.fst).map k := by
          rw [List.map_map]; rfl
        rw [this, List.map_fst_zip (by omega)]
      have e2 : List.zip rot payload = (List.zip rot payload).map id := by rw [List.map_id]
      conv_lhs => rw [e1]; arg 2; rw [e2]
      rw [List.zip_map']
      rfl
    rw [this, List.mem_map] at ht'
    obtain ⟨p, _, rfl⟩ := ht'
    rfl
  have hsorted : S.Pairwise keyLe := isort_sorted _
  rw [h1, h2]
  apply reorder_sorted_fixed_aux
  · simp
  · rw [sortKeys_eq_map, ← h1, href, ← hk, h1, List.map_map]
    have : List.zip (S.map (k ∘ fun t => t.2.1)) (S.map (·.2.2)) = S.map (fun t => (t.1, t.2.2)) := by
      rw [List.zip_map']
      apply List.map_congr_left
      intro t ht
      simp only [Function.comp, hinv t ht]
    rw [this, List.pairwise_map]
    exact hsorted.imp (fun {a b} h => h)

end C15
end
