import CoxeterVerif.Lemmas.DistToSurface
/-!
  C14, convex polygon: `DTS.ChainOK` (the angular bins of `_distance_to_surface_from` are ordered and
  narrower than π) DERIVED from the geometric hypotheses of the property: strictly convex,
  counter-clockwise, centre strictly inside (`Spec.strictConvexCCW`, `Spec.strictlyInsideCCW`).

  * `cross_eq_sin`, `wrap_or_not`: an edge with the centre strictly on its left spans an angle in
    `(0, π)`, either directly or through the direction `0 ≡ 2π`;
  * `no_second_wrap`: only ONE edge can span the direction `0` (plane geometry: the vertex of
    smallest angle would be a strict convex combination of the centre and the end points of the
    second such edge);
  * `chainOK_of_convex`, `rolled_chainOK`: the list the loop runs over (rolled to `np.argmin` of the
    vertex angles) satisfies `ChainOK`, and has the same edges as the input list.
-/
open Scalar
noncomputable section
namespace DTS

/-- `cross(p,q) = |p||q| sin(α_q − α_p)` with the vertex angles the code computes -/
theorem cross_eq_sin (p q : P2 ℝ) :
    Spec.cross p q = P2.norm p * P2.norm q * Real.sin (vang q - vang p) := by
  obtain ⟨hp1, hp2⟩ := polar_vertexAngle p
  obtain ⟨hq1, hq2⟩ := polar_vertexAngle q
  change P2.norm p * Real.cos (vang p) = p.x at hp1
  change P2.norm p * Real.sin (vang p) = p.y at hp2
  change P2.norm q * Real.cos (vang q) = q.x at hq1
  change P2.norm q * Real.sin (vang q) = q.y at hq2
  rw [Real.sin_sub]
  simp only [Spec.cross]
  linear_combination (-q.y) * hp1 + (-(P2.norm p * Real.cos (vang p))) * hq2 + q.x * hp2 +
    (P2.norm p * Real.sin (vang p)) * hq1

theorem norm_pos_of_cross_pos (p q : P2 ℝ) (h : 0 < Spec.cross p q) :
    0 < P2.norm p ∧ 0 < P2.norm q := by
  rw [cross_eq_sin] at h
  have hp := P2.norm_nonneg p
  have hq := P2.norm_nonneg q
  constructor
  · rcases hp.lt_or_eq with h1 | h1
    · exact h1
    · rw [← h1] at h; simp at h
  · rcases hq.lt_or_eq with h1 | h1
    · exact h1
    · rw [← h1] at h; simp at h

theorem sin_pos_of_cross_pos (p q : P2 ℝ) (h : 0 < Spec.cross p q) :
    0 < Real.sin (vang q - vang p) := by
  obtain ⟨hp, hq⟩ := norm_pos_of_cross_pos p q h
  rw [cross_eq_sin] at h
  by_contra hs
  have : P2.norm p * P2.norm q * Real.sin (vang q - vang p) ≤ 0 :=
    mul_nonpos_of_nonneg_of_nonpos (mul_pos hp hq).le (not_lt.mp hs)
  linarith

/-- an edge seen counter-clockwise from the centre either does not cross the direction `0`
(angles increase by less than π) or crosses it (they increase by less than π through `2π`) -/
theorem wrap_or_not (p q : P2 ℝ) (h : 0 < Spec.cross p q) :
    (vang p < vang q ∧ vang q - vang p < Real.pi) ∨
    (vang q < vang p ∧ vang q + twoPi - vang p < Real.pi) := by
  have hs := sin_pos_of_cross_pos p q h
  obtain ⟨hp0, hp2⟩ := vang_range p
  obtain ⟨hq0, hq2⟩ := vang_range q
  rw [twoPi_real] at *
  have hpi := Real.pi_pos
  set δ := vang q - vang p with hδ
  by_cases h1 : 0 < δ
  · left
    refine ⟨by linarith, ?_⟩
    by_contra h2
    have h2 : Real.pi ≤ δ := not_lt.mp h2
    have : Real.sin δ = -Real.sin (δ - Real.pi) := by rw [Real.sin_sub_pi]; ring
    have h3 : 0 ≤ Real.sin (δ - Real.pi) :=
      Real.sin_nonneg_of_nonneg_of_le_pi (by linarith) (by linarith)
    linarith
  · right
    have h1 : δ ≤ 0 := not_lt.mp h1
    have hne : δ ≠ 0 := by intro h0; rw [h0, Real.sin_zero] at hs; exact lt_irrefl _ hs
    have h1' : δ < 0 := lt_of_le_of_ne h1 hne
    refine ⟨by linarith, ?_⟩
    by_contra h2
    have h2 : Real.pi ≤ δ + 2 * Real.pi := by linarith [not_lt.mp h2]
    have : Real.sin δ = -Real.sin (-δ) := by rw [Real.sin_neg]; ring
    have h3 : 0 ≤ Real.sin (-δ) :=
      Real.sin_nonneg_of_nonneg_of_le_pi (by linarith) (by linarith)
    linarith

/-- A second edge crossing the direction `0` is impossible in a strictly convex polygon around
the centre: if `p → q` crosses it and the vertex `p0` of smallest angle is strictly to the left of
`p → q`, then `p0` is a strict convex combination of `p`, `q` and the centre, which contradicts
`p0` being an end point of an edge `l → p0` that has `p`, `q` on its left and the centre strictly
on its left. -/
theorem no_second_wrap (p q p0 l : P2 ℝ)
    (hpq : 0 < Spec.cross p q)
    (hwrap : vang q < vang p ∧ vang q + twoPi - vang p < Real.pi)
    (hmin : vang p0 ≤ vang q) (hp0 : 0 < P2.norm p0)
    (hf : 0 < Spec.cross (q - p) (p0 - p))
    (hg0 : 0 < Spec.cross l p0)
    (hgp : 0 ≤ Spec.cross (p0 - l) (p - l)) (hgq : 0 ≤ Spec.cross (p0 - l) (q - l)) : False := by
  obtain ⟨hnp, hnq⟩ := norm_pos_of_cross_pos p q hpq
  obtain ⟨hp00, hp02⟩ := vang_range p0
  obtain ⟨hpa0, hpa2⟩ := vang_range p
  obtain ⟨hqa0, hqa2⟩ := vang_range q
  have hpi := Real.pi_pos
  rw [twoPi_real] at *
  -- `p0` lies in the sector of the edge
  have hB : 0 ≤ Spec.cross p p0 := by
    rw [cross_eq_sin]
    have : Real.sin (vang p0 - vang p) = Real.sin (vang p0 - vang p + 2 * Real.pi) := by
      rw [Real.sin_add_two_pi]
    rw [this]
    exact mul_nonneg (mul_pos hnp hp0).le
      (Real.sin_nonneg_of_nonneg_of_le_pi (by linarith) (by linarith))
  have hA : 0 ≤ Spec.cross p0 q := by
    rw [cross_eq_sin]
    exact mul_nonneg (mul_pos hp0 hnq).le
      (Real.sin_nonneg_of_nonneg_of_le_pi (by linarith) (by linarith))
  have hγ : 0 < Spec.cross p q - Spec.cross p0 q - Spec.cross p p0 := by
    have e : Spec.cross (q - p) (p0 - p) = Spec.cross p q - Spec.cross p0 q - Spec.cross p p0 := by
      simp only [Spec.cross, P2.sub_x, P2.sub_y]; ring
    rw [← e]; exact hf
  have key : Spec.cross p0 q * Spec.cross (p0 - l) (p - l) + Spec.cross p p0 * Spec.cross (p0 - l) (q - l) +
      (Spec.cross p q - Spec.cross p0 q - Spec.cross p p0) * Spec.cross l p0 = 0 := by
    simp only [Spec.cross, P2.sub_x, P2.sub_y]; ring
  have h1 := mul_nonneg hA hgp
  have h2 := mul_nonneg hB hgq
  have h3 := mul_pos hγ hg0
  linarith

/-! ### from convexity to the chain of vertex angles -/

/-- what `ChainOK` says about one edge of the rolled list -/
def EdgeOK (p0 : P2 ℝ) (e : P2 ℝ × P2 ℝ) : Prop :=
  P2.norm e.1 ≠ 0 ∧ P2.norm e.2 ≠ 0 ∧
  (e.2 ≠ p0 → vang e.1 < vang e.2 ∧ vang e.2 - vang e.1 < Real.pi) ∧
  (e.2 = p0 → vang e.1 < vang p0 + twoPi ∧ vang p0 + twoPi - vang e.1 < Real.pi)

theorem chainOK_of_edges (p0 : P2 ℝ) : ∀ S : List (P2 ℝ),
    (∀ e ∈ cycPairs p0 S, EdgeOK p0 e) → (∀ x ∈ S.tail, x ≠ p0) → ChainOK p0 S := by
  intro S
  induction S with
  | nil => intro _ _; trivial
  | cons p S' ih =>
    intro hE hT
    cases S' with
    | nil =>
      obtain ⟨h1, h2, _, h4⟩ := hE (p, p0) (by simp [cycPairs])
      obtain ⟨h5, h6⟩ := h4 rfl
      exact ⟨h1, h2, h5, h6⟩
    | cons q rest =>
      obtain ⟨h1, h2, h3, _⟩ := hE (p, q) (by simp [cycPairs])
      obtain ⟨h5, h6⟩ := h3 (hT q (by simp))
      refine ⟨h1, h2, h5, h6, ih ?_ ?_⟩
      · intro e he; exact hE e (by simp [cycPairs, he])
      · intro x hx; exact hT x (by simp at hx ⊢; exact Or.inr hx)

theorem cycPairs_mem (f : P2 ℝ) : ∀ (S : List (P2 ℝ)) (e : P2 ℝ × P2 ℝ), e ∈ cycPairs f S →
    e.1 ∈ S ∧ (e.2 ∈ S ∨ e.2 = f) := by
  intro S
  induction S with
  | nil => intro e he; simp [cycPairs] at he
  | cons p S' ih =>
    intro e he
    cases S' with
    | nil =>
      simp only [cycPairs, List.mem_singleton] at he
      subst he; simp
    | cons q rest =>
      simp only [cycPairs, List.mem_cons] at he
      rcases he with he | he
      · subst he; simp
      · obtain ⟨h1, h2⟩ := ih e (by simpa [cycPairs] using he)
        refine ⟨List.mem_cons_of_mem _ h1, ?_⟩
        rcases h2 with h2 | h2
        · exact Or.inl (List.mem_cons_of_mem _ h2)
        · exact Or.inr h2

theorem cycPairs_closing (f : P2 ℝ) : ∀ S : List (P2 ℝ), S ≠ [] → ∃ l, (l, f) ∈ cycPairs f S := by
  intro S
  induction S with
  | nil => intro h; exact absurd rfl h
  | cons p S' ih =>
    intro _
    cases S' with
    | nil => exact ⟨p, by simp [cycPairs]⟩
    | cons q rest =>
      obtain ⟨l, hl⟩ := ih (by simp)
      exact ⟨l, by simp only [cycPairs, List.mem_cons]; exact Or.inr hl⟩

/-- **`ChainOK` from convexity.** `W = p0 :: T` is strictly convex, counter-clockwise, has the
centre (the origin) strictly inside and starts at a vertex of smallest angle ⇒ the vertex angles
the code computes increase along `W` with gaps `< π`, the wrap gap included. -/
theorem chainOK_of_convex (p0 : P2 ℝ) (T : List (P2 ℝ))
    (hconv : Spec.strictConvexCCW (p0 :: T))
    (hin : ∀ e ∈ Spec.edgesOf (p0 :: T), 0 < Spec.cross e.1 e.2)
    (hmin : ∀ w ∈ p0 :: T, vang p0 ≤ vang w) :
    ChainOK p0 (p0 :: T) := by
  obtain ⟨hnd, hcv⟩ := hconv
  rw [edgesOf_cons] at hin hcv
  set W := p0 :: T with hW
  obtain ⟨l, hl⟩ := cycPairs_closing p0 W (by simp [hW])
  have hp0W : p0 ∈ W := by simp [hW]
  have hmemW : ∀ e ∈ cycPairs p0 W, e.1 ∈ W ∧ e.2 ∈ W := by
    intro e he
    obtain ⟨h1, h2⟩ := cycPairs_mem p0 W e he
    exact ⟨h1, h2.elim id (fun h => h ▸ hp0W)⟩
  have hlW := (hmemW _ hl).1
  have hg0 : 0 < Spec.cross l p0 := hin _ hl
  -- every vertex is weakly to the left of the closing edge
  have hweak : ∀ w ∈ W, 0 ≤ Spec.cross (p0 - l) (w - l) := by
    intro w hw
    by_cases h1 : w = l
    · subst h1; simp [Spec.cross]
    · by_cases h2 : w = p0
      · subst h2; simp only [Spec.cross]; nlinarith
      · have := (hcv _ hl w hw h1 h2).le
        simpa [Scalar.lit] using this
  have hpi := Real.pi_pos
  apply chainOK_of_edges
  · intro e he
    obtain ⟨p, q⟩ := e
    have hpq : 0 < Spec.cross p q := hin _ he
    obtain ⟨hnp, hnq⟩ := norm_pos_of_cross_pos p q hpq
    obtain ⟨hpW, hqW⟩ := hmemW _ he
    simp only at hpW hqW
    refine ⟨hnp.ne', hnq.ne', ?_, ?_⟩
    · intro hq
      simp only at hq ⊢
      rcases wrap_or_not p q hpq with h | h
      · exact h
      · exfalso
        by_cases hp : p = p0
        · subst hp
          have := hmin q hqW
          linarith [h.1]
        · have hf := hcv _ he p0 hp0W (Ne.symm hp) (Ne.symm hq)
          simp only [Scalar.lit, Scalar.ofNat_real, Nat.cast_zero] at hf
          exact no_second_wrap p q p0 l hpq h (hmin q hqW) (norm_pos_of_cross_pos l p0 hg0).2 hf hg0
            (hweak p hpW) (hweak q hqW)
    · intro hq
      simp only at hq ⊢
      subst hq
      have h2 := (vang_range p).2
      have h0 := (vang_range q).1
      have htp := twoPi_pos
      rcases wrap_or_not p q hpq with h | h
      · have := hmin p hpW; linarith [h.1]
      · exact ⟨by linarith, by linarith [h.2]⟩
  · intro x hx
    simp only [hW, List.tail_cons] at hx
    intro hxe
    subst hxe
    exact (List.nodup_cons.mp hnd).1 hx

/-! ### rolling, `np.argmin` -/

theorem rollL_eq_rotate {β : Type} (k : Nat) (A : List β) (hk : k ≤ A.length) :
    rollL k A = A.rotate k := (List.rotate_eq_drop_append_take hk).symm

theorem edgesOf_eq_zip_rotate (V : List (P2 ℝ)) : Spec.edgesOf V = V.zip (V.rotate 1) := by
  unfold Spec.edgesOf
  cases V with
  | nil => simp
  | cons a l => rw [List.rotate_eq_drop_append_take (by simp)]

theorem edgesOf_rotate (V : List (P2 ℝ)) (k : Nat) :
    Spec.edgesOf (V.rotate k) = (Spec.edgesOf V).rotate k := by
  rw [edgesOf_eq_zip_rotate, edgesOf_eq_zip_rotate, List.zip_eq_zipWith, List.zip_eq_zipWith,
    List.zipWith_rotate_distrib _ _ _ _ (by simp), List.rotate_rotate, List.rotate_rotate, Nat.add_comm]

theorem mem_edgesOf_rotate (V : List (P2 ℝ)) (k : Nat) (e : P2 ℝ × P2 ℝ) :
    e ∈ Spec.edgesOf (V.rotate k) ↔ e ∈ Spec.edgesOf V := by
  rw [edgesOf_rotate, List.mem_rotate]

theorem edgesOf_map (f : P2 ℝ → P2 ℝ) (V : List (P2 ℝ)) :
    Spec.edgesOf (V.map f) = (Spec.edgesOf V).map (Prod.map f f) := by
  rw [edgesOf_eq_zip_rotate, edgesOf_eq_zip_rotate, ← List.map_rotate, List.zip_map]

theorem argminAux_spec : ∀ (xs pre : List ℝ) (best : ℝ) (bi : Nat),
    pre[bi]? = some best → (∀ x ∈ pre, best ≤ x) →
    ∃ m, (pre ++ xs)[argminAux xs pre.length best bi]? = some m ∧ ∀ x ∈ pre ++ xs, m ≤ x := by
  intro xs
  induction xs with
  | nil =>
    intro pre best bi h1 h2
    exact ⟨best, by simpa [argminAux] using h1, by simpa using h2⟩
  | cons x xs ih =>
    intro pre best bi h1 h2
    have hbi : bi < pre.length := by
      by_contra h
      rw [List.getElem?_eq_none (not_lt.mp h)] at h1
      exact absurd h1 (by simp)
    simp only [argminAux]
    have hl : (pre ++ [x]).length = pre.length + 1 := by simp
    have happ : pre ++ x :: xs = (pre ++ [x]) ++ xs := by simp
    split_ifs with hx
    · have := ih (pre ++ [x]) x pre.length (by simp) (by
        intro y hy
        rcases List.mem_append.mp hy with hy | hy
        · exact (hx.trans_le (h2 y hy)).le
        · simp at hy; rw [hy])
      rw [hl] at this
      rw [happ]; exact this
    · have := ih (pre ++ [x]) best bi (by rw [List.getElem?_append_left hbi]; exact h1) (by
        intro y hy
        rcases List.mem_append.mp hy with hy | hy
        · exact h2 y hy
        · simp at hy; rw [hy]; exact not_lt.mp hx)
      rw [hl] at this
      rw [happ]; exact this

/-- `np.argmin` returns the index of a smallest element -/
theorem argmin_spec (l : List ℝ) (hne : l ≠ []) :
    ∃ m, l[argmin l]? = some m ∧ ∀ x ∈ l, m ≤ x := by
  cases l with
  | nil => exact absurd rfl hne
  | cons x xs =>
    have := argminAux_spec xs [x] x 0 (by simp) (by simp)
    simpa [argmin] using this

/-- the vertex list the loop runs over: a rotation of the aligned list that starts at a vertex
of smallest angle; strictly convex polygons around the centre give `ChainOK` -/
theorem rolled_chainOK (A : List (P2 ℝ)) (hne : A ≠ [])
    (hconv : Spec.strictConvexCCW A)
    (hin : ∀ e ∈ Spec.edgesOf A, 0 < Spec.cross e.1 e.2) :
    ∃ p0 T, rollL (argmin (vertexAngles A)) A = p0 :: T ∧ ChainOK p0 (p0 :: T) ∧
      (∀ e, e ∈ Spec.edgesOf (p0 :: T) ↔ e ∈ Spec.edgesOf A) := by
  have hva : vertexAngles A = A.map vang := rfl
  obtain ⟨m, hm, hmin⟩ := argmin_spec (vertexAngles A) (by rw [hva]; simpa using hne)
  set k := argmin (vertexAngles A) with hk
  have hklt : k < A.length := by
    by_contra h
    rw [hva, List.getElem?_eq_none (by simpa using not_lt.mp h)] at hm
    exact absurd hm (by simp)
  rw [rollL_eq_rotate k A hklt.le]
  have hhead : (A.rotate k).head? = some A[k] := by
    rw [List.head?_rotate hklt, List.getElem?_eq_getElem hklt]
  have hmk : m = vang A[k] := by
    rw [hva, List.getElem?_map, List.getElem?_eq_getElem hklt] at hm
    simpa using hm.symm
  cases hW : A.rotate k with
  | nil => rw [hW] at hhead; exact absurd hhead (by simp)
  | cons p0 T =>
    rw [hW] at hhead
    have hp0 : p0 = A[k] := by simpa using hhead
    have hedges : ∀ e, e ∈ Spec.edgesOf (p0 :: T) ↔ e ∈ Spec.edgesOf A := by
      intro e; rw [← hW]; exact mem_edgesOf_rotate A k e
    have hmem : ∀ w, w ∈ p0 :: T ↔ w ∈ A := by
      intro w; rw [← hW]; exact List.mem_rotate
    refine ⟨p0, T, rfl, ?_, hedges⟩
    apply chainOK_of_convex
    · refine ⟨?_, ?_⟩
      · rw [← hW]; exact List.nodup_rotate.mpr hconv.1
      · intro e he w hw
        exact hconv.2 e ((hedges e).mp he) w ((hmem w).mp hw)
    · intro e he; exact hin e ((hedges e).mp he)
    · intro w hw
      rw [hp0, ← hmk]
      apply hmin
      rw [hva]
      exact List.mem_map_of_mem ((hmem w).mp hw)

/-! ### clockwise storage: the reversed list has the reversed edges -/

theorem rotate_pred_succ {β : Type} (V : List β) :
    (V.rotate (V.length - 1 % V.length)).rotate 1 = V := by
  rw [List.rotate_rotate]
  rcases Nat.lt_or_ge V.length 2 with h | h
  · match V, h with
    | [], _ => simp
    | [a], _ => simp
  · have h1 : 1 % V.length = 1 := Nat.mod_eq_of_lt (by omega)
    rw [h1, Nat.sub_add_cancel (by omega), List.rotate_length]

theorem mem_edgesOf_reverse (V : List (P2 ℝ)) (a b : P2 ℝ) :
    (a, b) ∈ Spec.edgesOf V.reverse ↔ (b, a) ∈ Spec.edgesOf V := by
  set K := V.length - 1 % V.length with hK
  have h1 : Spec.edgesOf V.reverse = (V.zip (V.rotate K)).reverse := by
    rw [edgesOf_eq_zip_rotate, List.rotate_reverse, ← hK, List.zip_eq_zipWith, List.zip_eq_zipWith,
      List.reverse_zipWith (by simp)]
  have h2 : Spec.edgesOf (V.rotate K) = (V.rotate K).zip V := by
    rw [edgesOf_eq_zip_rotate, hK, rotate_pred_succ]
  rw [h1, List.mem_reverse, ← mem_edgesOf_rotate V K (b, a), h2]
  constructor
  · intro h; rw [← List.zip_swap]; exact List.mem_map.mpr ⟨(a, b), h, rfl⟩
  · intro h; rw [← List.zip_swap]; exact List.mem_map.mpr ⟨(b, a), h, rfl⟩

theorem onSegment_symm (p a b : P2 ℝ) (h : Spec.onSegment p a b) : Spec.onSegment p b a := by
  obtain ⟨s, h0, h1, hx, hy⟩ := h
  simp only [Scalar.lit, Scalar.ofNat_real, Nat.cast_zero, Nat.cast_one] at h0 h1
  refine ⟨1 - s, ?_, ?_, ?_, ?_⟩
  · simp only [Scalar.lit, Scalar.ofNat_real, Nat.cast_zero]; linarith
  · simp only [Scalar.lit, Scalar.ofNat_real, Nat.cast_one]; linarith
  · rw [hx]; ring
  · rw [hy]; ring

theorem onPolyBoundary_reverse (V : List (P2 ℝ)) (p : P2 ℝ) (h : Spec.onPolyBoundary V.reverse p) :
    Spec.onPolyBoundary V p := by
  obtain ⟨⟨a, b⟩, he, hs⟩ := h
  exact ⟨(b, a), (mem_edgesOf_reverse V a b).mp he, onSegment_symm p a b hs⟩

end DTS
end
