import CoxeterVerif.Lemmas.PolytriWinding
import CoxeterVerif.Lemmas.Inside2DFrame
/-!
  C02 (deepening): for triangles that bound a polygon as a chain and are positively oriented in a planar
  frame `g`, the number of triangles strictly containing a point `p` (off their closed edges) IS the winding
  number `Polygon.is_inside` computes for the polygon about `p`.  Hence, where the winding number is 1 exactly
  one triangle contains the point, where it is 0 none does: the triangles do not overlap and cover exactly
  the interior of a simple polygon.  (C06's `winding_triangle`, re-derived here from `Lemmas/Winding2D.lean`
  so that only lemma files are imported.)
-/
open Scalar Inside2D Inside2D.Polygon Spec.In2D
set_option maxRecDepth 4000
noncomputable section

namespace Polytri

/-- the triangle `t` of space seen in the planar frame `g` -/
def proj2 (g : V3 ℝ → P2 ℝ) (t : Tri ℝ) : Tri2 ℝ := ⟨g t.a, g t.b, g t.c⟩

theorem winding_tri (t : Tri2 ℝ) (p : P2 ℝ) (hpos : 0 < orient t.a t.b t.c)
    (hoff : onBoundary t p = false) :
    halfTurn p t.a t.b + halfTurn p t.b t.c + halfTurn p t.c t.a = if inTriangle t p then 2 else 0 := by
  obtain ⟨h1, h2, h3⟩ := (onBoundary_false_iff t p).mp hoff
  have hp : 0 < crossR (rel t.a p) (rel t.b p) + crossR (rel t.b p) (rel t.c p) +
      crossR (rel t.c p) (rel t.a p) := by rw [← orient_tri_eq]; exact hpos
  rw [halfTurn_eq_ht, halfTurn_eq_ht, halfTurn_eq_ht, ht_triangle h1 h2 h3 hp]
  exact if_congr (inTriangle_pos_iff t p hpos).symm rfl rfl

theorem sum_ite_count2 (Ts : List (Tri2 ℝ)) (p : P2 ℝ) :
    (Ts.map fun t => if inTriangle t p then (2 : Int) else 0).sum = 2 * (count Ts p : Int) := by
  unfold count
  induction Ts with
  | nil => simp
  | cons t Ts ih =>
    simp only [List.map_cons, List.sum_cons, ih, List.filter_cons]
    cases inTriangle t p <;> simp; ring

/-- **count = winding number** for a positively oriented chain triangulation, in any planar frame -/
theorem count_eq_winding (g : V3 ℝ → P2 ℝ) (p : P2 ℝ) (w : List (V3 ℝ)) (Ts : List (Tri ℝ))
    (h : EdgeChainEq (cycleEdges w) (Ts.flatMap triEdges))
    (hpos : ∀ t ∈ Ts, 0 < orient (g t.a) (g t.b) (g t.c))
    (hoff : ∀ t ∈ Ts, onBoundary (proj2 g t) p = false) :
    windingNumber (w.map g) p = (count (Ts.map (proj2 g)) p : Int) := by
  have hs : halfTurnSum (w.map g) p = 2 * (count (Ts.map (proj2 g)) p : Int) := by
    rw [halfTurnSum_additive g p w Ts h, ← sum_ite_count2, List.map_map]
    congr 1
    apply List.map_congr_left
    intro t ht
    exact winding_tri (proj2 g t) p (hpos t ht) (hoff t ht)
  unfold windingNumber
  rw [hs, Int.fdiv_eq_ediv_of_nonneg _ (by decide)]
  omega

/-- no overlap: where the polygon winds at most once, at most one triangle contains the point -/
theorem count_le_one (g : V3 ℝ → P2 ℝ) (p : P2 ℝ) (w : List (V3 ℝ)) (Ts : List (Tri ℝ))
    (h : EdgeChainEq (cycleEdges w) (Ts.flatMap triEdges))
    (hpos : ∀ t ∈ Ts, 0 < orient (g t.a) (g t.b) (g t.c))
    (hoff : ∀ t ∈ Ts, onBoundary (proj2 g t) p = false)
    (hw : windingNumber (w.map g) p ≤ 1) : count (Ts.map (proj2 g)) p ≤ 1 := by
  have := count_eq_winding g p w Ts h hpos hoff
  omega

end Polytri

end
