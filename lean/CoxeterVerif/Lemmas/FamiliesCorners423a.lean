import CoxeterVerif.Spec.Families
import CoxeterVerif.Generated.Planes
/-! Corner solid of Family423 on the regenerated table (cuboctahedron at (1,2)); `decide +kernel` over ℤ[√5]. -/
open Fam
set_option maxRecDepth 100000
namespace FamTables
theorem c423_cuboctahedron : Gen.fam423.cornerIs ⟨1, 0⟩ ⟨2, 0⟩ cuboctahedronT = true := by
  decide +kernel
end FamTables
