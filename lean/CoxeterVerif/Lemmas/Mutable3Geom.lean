import CoxeterVerif.Lemmas.Mutable3
import CoxeterVerif.Lemmas.PlanarTilted
/-!
  Geometry behind the unconditional `Polyhedron` history theorem of C03: the on-demand measures
  `volume = Σ(−d)A/3` and `surface_area = ΣA` of a polyhedron with planar faces that satisfies the
  closure relation `Σ A_f n_f = 0` follow translations, positive scalings and proper rotations
  (`volume`, `area` ↦ `k³·`, `k²·`), so that their positivity is an invariant of every history.
-/
open Scalar Mut
set_option maxRecDepth 4000
noncomputable section
namespace Mut

/-- plane equation `_find_equations` computes for one face (from its first three vertices) -/
def faceEq (vs : List (V3 ℝ)) (f : List Nat) : V3 ℝ × ℝ :=
  Poly3.faceEquation (vget vs (f.getD 0 0)) (vget vs (f.getD 1 0)) (vget vs (f.getD 2 0))

def facePts (vs : List (V3 ℝ)) (f : List Nat) : List (V3 ℝ) := f.map (vget vs)

theorem facePolyArea_eq (vs : List (V3 ℝ)) (f : List Nat) :
    facePolyArea vs f = Poly2.area (facePts vs f) (faceEq vs f).1 := rfl

theorem findEquations_eq (vs : List (V3 ℝ)) (faces : List (List Nat)) :
    PHState.findEquations vs faces = (faces.map fun f => (faceEq vs f).1, faces.map fun f => (faceEq vs f).2) := by
  unfold PHState.findEquations CPState.findEquations faceHeads faceEq
  simp only [List.map_map]
  rfl

theorem volume_eq {s : PHState ℝ} (h : s.Coherent) :
    s.volume = (s.faces.map fun f => -(faceEq s.verts f).2 * facePolyArea s.verts f).sum / 3 := by
  unfold PHState.Coherent at h
  rw [findEquations_eq] at h
  have e2 : s.eqD = s.faces.map fun f => (faceEq s.verts f).2 := congrArg Prod.snd h
  unfold PHState.volume Poly3.volume PHState.faceAreas
  rw [e2, List.zip_map', List.map_map]
  simp only [Scalar.sum_real, Scalar.lit, Scalar.ofNat_real]
  norm_num
  rfl

theorem surfaceArea_eq (s : PHState ℝ) : s.surfaceArea = (s.faces.map (facePolyArea s.verts)).sum := by
  unfold PHState.surfaceArea PHState.faceAreas; simp only [Scalar.sum_real]

/-! ### one face under the three kinds of motion -/

/-- a face with at least three in-range indices, a unit normal, all of whose vertices lie in the
plane `_find_equations` stores for it -/
structure FaceGeom (vs : List (V3 ℝ)) (f : List Nat) : Prop where
  len : 3 ≤ f.length
  rng : ∀ i ∈ f, i < vs.length
  unit : V3.norm (faceEq vs f).1 = 1
  planar : ∀ i ∈ f, V3.dot (faceEq vs f).1 (vget vs i) = -(faceEq vs f).2

theorem getD_mem {f : List Nat} {k : Nat} (h : k < f.length) : f.getD k 0 ∈ f := by
  rw [List.getD_eq_getElem?_getD, List.getElem?_eq_getElem h]; exact List.getElem_mem h

theorem FaceGeom.heads {vs : List (V3 ℝ)} {f : List Nat} (h : FaceGeom vs f) :
    f.getD 0 0 < vs.length ∧ f.getD 1 0 < vs.length ∧ f.getD 2 0 < vs.length :=
  ⟨h.rng _ (getD_mem (by have := h.len; omega)), h.rng _ (getD_mem (by have := h.len; omega)),
    h.rng _ (getD_mem (by have := h.len; omega))⟩

/-- translation: normal kept, offset `d − n·t` -/
theorem faceEquation_translate (t v0 v1 v2 : V3 ℝ) :
    Poly3.faceEquation (v0 + t) (v1 + t) (v2 + t)
      = ((Poly3.faceEquation v0 v1 v2).1,
         (Poly3.faceEquation v0 v1 v2).2 - V3.dot (Poly3.faceEquation v0 v1 v2).1 t) := by
  unfold Poly3.faceEquation
  simp only [v3_add_sub_add]
  refine Prod.ext rfl ?_
  simp only [V3.dot, V3.add_x, V3.add_y, V3.add_z]; ring

theorem faceEq_translate {vs : List (V3 ℝ)} {f : List Nat} (h : FaceGeom vs f) (t : V3 ℝ) :
    faceEq (vs.map (· + t)) f = ((faceEq vs f).1, (faceEq vs f).2 - V3.dot (faceEq vs f).1 t) := by
  obtain ⟨h0, h1, h2⟩ := h.heads
  unfold faceEq
  rw [vget_map_add t vs _ h0, vget_map_add t vs _ h1, vget_map_add t vs _ h2, faceEquation_translate]

theorem facePts_translate {vs : List (V3 ℝ)} {f : List Nat} (h : FaceGeom vs f) (t : V3 ℝ) :
    facePts (vs.map (· + t)) f = (facePts vs f).map (· + t) := by
  unfold facePts
  rw [List.map_map]
  apply List.map_congr_left
  intro i hi
  exact vget_map_add t vs i (h.rng i hi)

theorem facePolyArea_translate {vs : List (V3 ℝ)} {f : List Nat} (h : FaceGeom vs f) (t : V3 ℝ) :
    facePolyArea (vs.map (· + t)) f = facePolyArea vs f := by
  rw [facePolyArea_eq, facePolyArea_eq, faceEq_translate h, facePts_translate h, area_translate]

theorem FaceGeom.translate {vs : List (V3 ℝ)} {f : List Nat} (h : FaceGeom vs f) (t : V3 ℝ) :
    FaceGeom (vs.map (· + t)) f := by
  refine ⟨h.len, fun i hi => by rw [List.length_map]; exact h.rng i hi, ?_, ?_⟩
  · rw [faceEq_translate h]; exact h.unit
  · intro i hi
    rw [faceEq_translate h, vget_map_add t vs i (h.rng i hi)]
    have := h.planar i hi
    simp only [V3.dot, V3.add_x, V3.add_y, V3.add_z] at this ⊢
    linarith

/-- scaling by `k > 0` -/
theorem faceEq_smul {k : ℝ} (hk : 0 < k) (vs : List (V3 ℝ)) (f : List Nat) :
    faceEq (vs.map (V3.smul k)) f = ((faceEq vs f).1, (faceEq vs f).2 * k) := by
  unfold faceEq
  simp only [vget_map_smul, faceEquation_smul hk]

theorem FaceGeom.smul {vs : List (V3 ℝ)} {f : List Nat} (h : FaceGeom vs f) {k : ℝ} (hk : 0 < k) :
    FaceGeom (vs.map (V3.smul k)) f := by
  refine ⟨h.len, fun i hi => by rw [List.length_map]; exact h.rng i hi, ?_, ?_⟩
  · rw [faceEq_smul hk]; exact h.unit
  · intro i hi
    rw [faceEq_smul hk, vget_map_smul]
    have := h.planar i hi
    simp only [V3.dot, V3.smul_x, V3.smul_y, V3.smul_z] at this ⊢
    linear_combination k * this

/-! ### proper rotations -/

theorem cross_rowMul {Q : M3 ℝ} (hQ : IsOrth Q) (u w : V3 ℝ) :
    V3.cross (rowMul u Q) (rowMul w Q) = V3.smul (mdet Q) (rowMul (V3.cross u w) Q) := by
  obtain ⟨e1, e2, e3, e4, e5, e6, e7, e8, e9⟩ := hQ.cof_eq
  obtain ⟨ux, uy, uz⟩ := u; obtain ⟨wx, wy, wz⟩ := w
  ext <;> simp only [V3.cross, rowMul, V3.smul_x, V3.smul_y, V3.smul_z]
  · linear_combination (uy * wz - uz * wy) * e1 + (uz * wx - ux * wz) * e4 + (ux * wy - uy * wx) * e7
  · linear_combination (uy * wz - uz * wy) * e2 + (uz * wx - ux * wz) * e5 + (ux * wy - uy * wx) * e8
  · linear_combination (uy * wz - uz * wy) * e3 + (uz * wx - ux * wz) * e6 + (ux * wy - uy * wx) * e9

theorem rowMul_add (Q : M3 ℝ) (u v : V3 ℝ) : rowMul (u + v) Q = rowMul u Q + rowMul v Q := by
  obtain ⟨ux, uy, uz⟩ := u; obtain ⟨vx, vy, vz⟩ := v
  ext <;> simp only [rowMul, V3.add_x, V3.add_y, V3.add_z] <;> ring

theorem rowMul_sdiv (Q : M3 ℝ) (u : V3 ℝ) (s : ℝ) : rowMul (V3.sdiv u s) Q = V3.sdiv (rowMul u Q) s := by
  obtain ⟨ux, uy, uz⟩ := u
  ext <;> simp only [rowMul, V3.sdiv_x, V3.sdiv_y, V3.sdiv_z] <;> ring

theorem rowMul_smul (Q : M3 ℝ) (u : V3 ℝ) (s : ℝ) : rowMul (V3.smul s u) Q = V3.smul s (rowMul u Q) := by
  obtain ⟨ux, uy, uz⟩ := u
  ext <;> simp only [rowMul, V3.smul_x, V3.smul_y, V3.smul_z] <;> ring

theorem rowMul_sum (Q : M3 ℝ) (l : List (V3 ℝ)) : V3.sum (l.map (rowMul · Q)) = rowMul (V3.sum l) Q := by
  induction l with
  | nil => simpa [V3.sum] using (rowMul_zero Q).symm
  | cons a l ih =>
    simp only [List.map_cons, V3.sum, List.foldr_cons] at ih ⊢
    rw [ih]; exact (rowMul_add Q a _).symm

theorem faceEquation_rowMul {Q : M3 ℝ} (hQ : IsOrth Q) (hd : mdet Q = 1) (v0 v1 v2 : V3 ℝ) :
    Poly3.faceEquation (rowMul v0 Q) (rowMul v1 Q) (rowMul v2 Q)
      = (rowMul (Poly3.faceEquation v0 v1 v2).1 Q, (Poly3.faceEquation v0 v1 v2).2) := by
  unfold Poly3.faceEquation
  have hc : V3.cross (rowMul v2 Q - rowMul v1 Q) (rowMul v0 Q - rowMul v1 Q)
      = rowMul (V3.cross (v2 - v1) (v0 - v1)) Q := by
    rw [rowMul_sub, rowMul_sub, cross_rowMul hQ, hd]
    ext <;> simp
  simp only [hc, hQ.norm_rowMul, ← rowMul_sdiv, hQ.dot_rowMul]

theorem faceEq_rowMul {Q : M3 ℝ} (hQ : IsOrth Q) (hd : mdet Q = 1) (vs : List (V3 ℝ)) (f : List Nat) :
    faceEq (vs.map (rowMul · Q)) f = (rowMul (faceEq vs f).1 Q, (faceEq vs f).2) := by
  unfold faceEq
  simp only [vget_map_rowMul, faceEquation_rowMul hQ hd]

theorem facePts_rowMul (Q : M3 ℝ) (vs : List (V3 ℝ)) (f : List Nat) :
    facePts (vs.map (rowMul · Q)) f = (facePts vs f).map (rowMul · Q) := by
  unfold facePts
  rw [List.map_map]
  apply List.map_congr_left
  intro i _
  exact vget_map_rowMul Q vs i

theorem cyc_map {β γ : Type} (g : β → γ) (l : List β) : Spec3.cyc (l.map g) = (Spec3.cyc l).map g := by
  unfold Spec3.cyc; simp [List.map_take]

theorem areaVector_rowMul {Q : M3 ℝ} (hQ : IsOrth Q) (hd : mdet Q = 1) (l : List (V3 ℝ)) :
    Spec3.areaVector (l.map (rowMul · Q)) = rowMul (Spec3.areaVector l) Q := by
  unfold Spec3.areaVector
  rw [cyc_map, List.zipWith_map]
  have : (fun a b => V3.cross (rowMul a Q) (rowMul b Q)) = fun a b => rowMul (V3.cross a b) Q := by
    funext a b
    rw [cross_rowMul hQ, hd]; ext <;> simp
  rw [this, rowMul_sdiv, ← rowMul_sum, List.map_zipWith]

theorem FaceGeom.planar_pts {vs : List (V3 ℝ)} {f : List Nat} (h : FaceGeom vs f) :
    ∀ v ∈ facePts vs f, V3.dot (faceEq vs f).1 v = -(faceEq vs f).2 := by
  intro v hv
  obtain ⟨i, hi, rfl⟩ := List.mem_map.mp hv
  exact h.planar i hi

/-- the area `get_face_area` computes for a planar face with a unit normal is `|n · A|`,
`A` the area vector of the face cycle -/
theorem FaceGeom.area_eq {vs : List (V3 ℝ)} {f : List Nat} (h : FaceGeom vs f) :
    facePolyArea vs f = |V3.dot (faceEq vs f).1 (Spec3.areaVector (facePts vs f))| := by
  rw [facePolyArea_eq]; unfold Poly2.area
  rw [signedArea_eq_dot_areaVector _ _ _ h.planar_pts h.unit]; rfl

theorem FaceGeom.rowMul {vs : List (V3 ℝ)} {f : List Nat} (h : FaceGeom vs f) {Q : M3 ℝ} (hQ : IsOrth Q)
    (hd : mdet Q = 1) : FaceGeom (vs.map (rowMul · Q)) f := by
  refine ⟨h.len, fun i hi => by rw [List.length_map]; exact h.rng i hi, ?_, ?_⟩
  · rw [faceEq_rowMul hQ hd, hQ.norm_rowMul]; exact h.unit
  · intro i hi
    rw [faceEq_rowMul hQ hd, vget_map_rowMul, hQ.dot_rowMul]; exact h.planar i hi

theorem facePolyArea_rowMul {vs : List (V3 ℝ)} {f : List Nat} (h : FaceGeom vs f) {Q : M3 ℝ} (hQ : IsOrth Q)
    (hd : mdet Q = 1) : facePolyArea (vs.map (rowMul · Q)) f = facePolyArea vs f := by
  rw [(h.rowMul hQ hd).area_eq, h.area_eq, faceEq_rowMul hQ hd, facePts_rowMul, areaVector_rowMul hQ hd,
    hQ.dot_rowMul]

/-! ### sums over the faces -/

theorem v3sum_map_smul (k : ℝ) {β : Type} (g : β → V3 ℝ) (l : List β) :
    V3.sum (l.map fun x => V3.smul k (g x)) = V3.smul k (V3.sum (l.map g)) := by
  induction l with
  | nil => ext <;> simp [V3.sum, V3.zero, Scalar.lit]
  | cons a l ih =>
    simp only [List.map_cons, V3.sum, List.foldr_cons] at ih ⊢
    rw [ih]; ext <;> simp [V3.add] <;> ring

theorem dot_v3sum {β : Type} (t : V3 ℝ) (N : β → V3 ℝ) (A : β → ℝ) (l : List β) :
    (l.map fun f => V3.dot (N f) t * A f).sum = V3.dot (V3.sum (l.map fun f => V3.smul (A f) (N f))) t := by
  induction l with
  | nil => simp [V3.sum, V3.zero, V3.dot, Scalar.lit]
  | cons a l ih =>
    simp only [List.map_cons, List.sum_cons, V3.sum, List.foldr_cons] at ih ⊢
    rw [ih]
    simp only [V3.dot, V3.add, V3.smul]; ring

/-! ### the invariant of a `Polyhedron` history -/

/-- a polyhedron whose stored equations are those of its faces, whose faces are planar with unit
normals, which satisfies the closure relation `Σ A_f n_f = 0` of a closed surface, and whose
on-demand volume and surface area are positive -/
structure PHGeom (s : PHState ℝ) : Prop where
  coh : s.Coherent
  faces : ∀ f ∈ s.faces, FaceGeom s.verts f
  closure : V3.sum (s.faces.map fun f => V3.smul (facePolyArea s.verts f) (faceEq s.verts f).1) = V3.zero
  vol : 0 < s.volume
  area : 0 < s.surfaceArea

theorem rescale_coherent' (s : PHState ℝ) {k : ℝ} (hk : 0 < k) (h : s.Coherent) : (s.rescale k).Coherent := by
  unfold PHState.Coherent PHState.findEquations at h ⊢
  show (s.eqN, s.eqD.map (· * k)) = CPState.findEquations (s.verts.map (V3.smul k)) (faceHeads s.faces)
  rw [findEquations_smul hk, ← h]

theorem dot_zero_left (t : V3 ℝ) : V3.dot (V3.zero : V3 ℝ) t = 0 := by
  simp [V3.dot, V3.zero, Scalar.lit]

/-- **translation** (the centroid setter; `to_hoomd` is two of them) -/
theorem PHGeom.setCentroid {s : PHState ℝ} (h : PHGeom s) (cur c : V3 ℝ) : PHGeom (s.setCentroid cur c) := by
  set t := c - cur with ht
  have hcoh : (s.setCentroid cur c).Coherent := rfl
  have hfaces : ∀ f ∈ s.faces, FaceGeom (s.verts.map (· + t)) f := fun f hf => (h.faces f hf).translate t
  have hterm : ∀ f ∈ s.faces, facePolyArea (s.verts.map (· + t)) f = facePolyArea s.verts f :=
    fun f hf => facePolyArea_translate (h.faces f hf) t
  have hvol : (s.setCentroid cur c).volume = s.volume := by
    rw [volume_eq hcoh, volume_eq h.coh]
    show (s.faces.map fun f => -(faceEq (s.verts.map (· + t)) f).2 * facePolyArea (s.verts.map (· + t)) f).sum / 3 = _
    have e : (s.faces.map fun f => -(faceEq (s.verts.map (· + t)) f).2 * facePolyArea (s.verts.map (· + t)) f)
        = s.faces.map fun f => (-(faceEq s.verts f).2 * facePolyArea s.verts f)
            + V3.dot (faceEq s.verts f).1 t * facePolyArea s.verts f := by
      apply List.map_congr_left
      intro f hf
      rw [hterm f hf, faceEq_translate (h.faces f hf)]; ring
    rw [e, List.sum_map_add, dot_v3sum, h.closure, dot_zero_left, add_zero]
  refine ⟨hcoh, hfaces, ?_, ?_, ?_⟩
  · show V3.sum (s.faces.map fun f => V3.smul (facePolyArea (s.verts.map (· + t)) f)
        (faceEq (s.verts.map (· + t)) f).1) = V3.zero
    rw [← h.closure]
    congr 1
    apply List.map_congr_left
    intro f hf
    rw [hterm f hf, faceEq_translate (h.faces f hf)]
  · rw [hvol]; exact h.vol
  · rw [surfaceArea_eq]
    show 0 < (s.faces.map (facePolyArea (s.verts.map (· + t)))).sum
    rw [List.map_congr_left hterm, ← surfaceArea_eq]; exact h.area

/-- **scaling by `k > 0`** (`_rescale`): volume `k³·`, surface area `k²·` -/
theorem PHGeom.rescale {s : PHState ℝ} (h : PHGeom s) {k : ℝ} (hk : 0 < k) : PHGeom (s.rescale k) := by
  have hcoh := rescale_coherent' s hk h.coh
  have hvol : (s.rescale k).volume = k * k * k * s.volume := by
    rw [volume_eq hcoh, volume_eq h.coh]
    show (s.faces.map fun f => -(faceEq (s.verts.map (V3.smul k)) f).2
      * facePolyArea (s.verts.map (V3.smul k)) f).sum / 3 = _
    have e : (s.faces.map fun f => -(faceEq (s.verts.map (V3.smul k)) f).2
          * facePolyArea (s.verts.map (V3.smul k)) f)
        = s.faces.map fun f => (k * k * k) * (-(faceEq s.verts f).2 * facePolyArea s.verts f) := by
      apply List.map_congr_left
      intro f _
      rw [facePolyArea_smul hk, faceEq_smul hk]; ring
    rw [e, List.sum_map_mul_left]; ring
  have harea : (s.rescale k).surfaceArea = k * k * s.surfaceArea := by
    rw [surfaceArea_eq, surfaceArea_eq]
    show (s.faces.map (facePolyArea (s.verts.map (V3.smul k)))).sum = _
    have e : s.faces.map (facePolyArea (s.verts.map (V3.smul k)))
        = s.faces.map fun f => (k * k) * facePolyArea s.verts f :=
      List.map_congr_left fun f _ => facePolyArea_smul hk s.verts f
    rw [e, List.sum_map_mul_left]
  refine ⟨hcoh, fun f hf => (h.faces f hf).smul hk, ?_, ?_, ?_⟩
  · show V3.sum (s.faces.map fun f => V3.smul (facePolyArea (s.verts.map (V3.smul k)) f)
        (faceEq (s.verts.map (V3.smul k)) f).1) = V3.zero
    have e : (s.faces.map fun f => V3.smul (facePolyArea (s.verts.map (V3.smul k)) f)
          (faceEq (s.verts.map (V3.smul k)) f).1)
        = s.faces.map fun f => V3.smul (k * k) (V3.smul (facePolyArea s.verts f) (faceEq s.verts f).1) := by
      apply List.map_congr_left
      intro f _
      rw [facePolyArea_smul hk, faceEq_smul hk]
      ext <;> simp <;> ring
    rw [e, v3sum_map_smul, h.closure]
    ext <;> simp [V3.zero, Scalar.lit]
  · rw [hvol]; have := h.vol; positivity
  · rw [harea]; have := h.area; positivity

/-- **proper rotation** (`diagonalize_inertia` after the handedness correction) -/
theorem PHGeom.rotate {s : PHState ℝ} (h : PHGeom s) {Q : M3 ℝ} (hQ : IsOrth Q) (hd : mdet Q = 1) :
    PHGeom (s.rotate Q) := by
  have hcoh : (s.rotate Q).Coherent := rfl
  have hterm : ∀ f ∈ s.faces, facePolyArea (s.verts.map (rowMul · Q)) f = facePolyArea s.verts f :=
    fun f hf => facePolyArea_rowMul (h.faces f hf) hQ hd
  have hvol : (s.rotate Q).volume = s.volume := by
    rw [volume_eq hcoh, volume_eq h.coh]
    show (s.faces.map fun f => -(faceEq (s.verts.map (rowMul · Q)) f).2
      * facePolyArea (s.verts.map (rowMul · Q)) f).sum / 3 = _
    congr 2
    apply List.map_congr_left
    intro f hf
    rw [hterm f hf, faceEq_rowMul hQ hd]
  refine ⟨hcoh, fun f hf => (h.faces f hf).rowMul hQ hd, ?_, ?_, ?_⟩
  · show V3.sum (s.faces.map fun f => V3.smul (facePolyArea (s.verts.map (rowMul · Q)) f)
        (faceEq (s.verts.map (rowMul · Q)) f).1) = V3.zero
    have e : (s.faces.map fun f => V3.smul (facePolyArea (s.verts.map (rowMul · Q)) f)
          (faceEq (s.verts.map (rowMul · Q)) f).1)
        = (s.faces.map fun f => V3.smul (facePolyArea s.verts f) (faceEq s.verts f).1).map (rowMul · Q) := by
      rw [List.map_map]
      apply List.map_congr_left
      intro f hf
      simp only [Function.comp]
      rw [hterm f hf, faceEq_rowMul hQ hd, rowMul_smul]
    rw [e, rowMul_sum, h.closure, rowMul_zero]
  · rw [hvol]; exact h.vol
  · rw [surfaceArea_eq]
    show 0 < (s.faces.map (facePolyArea (s.verts.map (rowMul · Q)))).sum
    rw [List.map_congr_left hterm, ← surfaceArea_eq]; exact h.area

end Mut
end
