import CoxeterVerif.Lemmas.BallsCert
import CoxeterVerif.Lemmas.BallsLstsq
/-!
  C13 — the certificate checkers as the DRIVER runs them: at exact `ℚ` (every double is a rational).
  Each checker / exact number computed over `ℚ` equals the same checker / number over `ℝ` on the
  cast data (`ℚ → ℝ` is an ordered-field embedding), so the soundness theorems of
  `BallsCert` / `BallsLstsq` apply verbatim to what the driver prints.
-/
noncomputable section
namespace Balls
open BallSpec

/-- the real point with the same (rational) coordinates -/
def castV (v : V3 ℚ) : V3 ℝ := ⟨(v.x : ℝ), (v.y : ℝ), (v.z : ℝ)⟩
def castRow (row : Row ℚ) : Row ℝ := ⟨castV row.a, (row.k : ℝ), (row.b : ℝ)⟩
def castSup (s : ℚ × V3 ℚ) : ℝ × V3 ℝ := ((s.1 : ℝ), castV s.2)

@[simp] theorem castV_x (v : V3 ℚ) : (castV v).x = (v.x : ℝ) := rfl
@[simp] theorem castV_y (v : V3 ℚ) : (castV v).y = (v.y : ℝ) := rfl
@[simp] theorem castV_z (v : V3 ℚ) : (castV v).z = (v.z : ℝ) := rfl

theorem castV_injective {u v : V3 ℚ} (h : castV u = castV v) : u = v := by
  obtain ⟨a, b, c⟩ := u; obtain ⟨d, e, f⟩ := v
  simp only [castV, V3.mk.injEq, Rat.cast_inj] at h
  obtain ⟨h1, h2, h3⟩ := h
  rw [h1, h2, h3]

/-! the `Scalar ℚ` operations are the field operations of `ℚ` -/
theorem lit_rat (n : Nat) : (Scalar.lit n : ℚ) = (n : ℚ) := rfl

theorem cast_lit (n : Nat) : (((Scalar.lit n : ℚ)) : ℝ) = (Scalar.lit n : ℝ) := by
  rw [lit_rat, Scalar.lit_real]; exact Rat.cast_natCast n

theorem cast_dot (u v : V3 ℚ) : ((V3.dot u v : ℚ) : ℝ) = V3.dot (castV u) (castV v) := by
  show ((u.x * v.x + u.y * v.y + u.z * v.z : ℚ) : ℝ) = _
  rw [V3.dot_eq]; push_cast; rfl

theorem castV_sub (u v : V3 ℚ) : castV (u - v) = castV u - castV v := by
  ext
  · show ((u.x - v.x : ℚ) : ℝ) = _; push_cast; rfl
  · show ((u.y - v.y : ℚ) : ℝ) = _; push_cast; rfl
  · show ((u.z - v.z : ℚ) : ℝ) = _; push_cast; rfl

theorem castV_add (u v : V3 ℚ) : castV (V3.add u v) = castV u + castV v := by
  ext
  · show ((u.x + v.x : ℚ) : ℝ) = _; push_cast; rfl
  · show ((u.y + v.y : ℚ) : ℝ) = _; push_cast; rfl
  · show ((u.z + v.z : ℚ) : ℝ) = _; push_cast; rfl

theorem castV_smul (k : ℚ) (u : V3 ℚ) : castV (V3.smul k u) = V3.smul (k : ℝ) (castV u) := by
  ext
  · show ((k * u.x : ℚ) : ℝ) = _; push_cast; rfl
  · show ((k * u.y : ℚ) : ℝ) = _; push_cast; rfl
  · show ((k * u.z : ℚ) : ℝ) = _; push_cast; rfl

theorem castV_sdiv (u : V3 ℚ) (k : ℚ) : castV (V3.sdiv u k) = V3.sdiv (castV u) (k : ℝ) := by
  ext
  · show ((u.x / k : ℚ) : ℝ) = _; push_cast; rfl
  · show ((u.y / k : ℚ) : ℝ) = _; push_cast; rfl
  · show ((u.z / k : ℚ) : ℝ) = _; push_cast; rfl

theorem castV_zero : castV (V3.zero : V3 ℚ) = (V3.zero : V3 ℝ) := by
  ext <;> simp [V3.zero, lit_rat]

theorem cast_distSq (p c : V3 ℚ) : ((distSq p c : ℚ) : ℝ) = distSq (castV p) (castV c) := by
  unfold distSq V3.normSq
  rw [cast_dot, castV_sub]

theorem cast_sum (l : List ℚ) :
    ((Scalar.sum l : ℚ) : ℝ) = Scalar.sum (List.map (Rat.cast : ℚ → ℝ) l) := by
  induction l with
  | nil => exact cast_lit 0
  | cons a l ih =>
    show ((a + Scalar.sum l : ℚ) : ℝ) = (a : ℝ) + Scalar.sum (List.map (Rat.cast : ℚ → ℝ) l)
    rw [← ih]; push_cast; rfl

theorem castV_sum (l : List (V3 ℚ)) : castV (V3.sum l) = V3.sum (l.map castV) := by
  induction l with
  | nil => exact castV_zero
  | cons a l ih =>
    show castV (V3.add a (V3.sum l)) = castV a + V3.sum (l.map castV)
    rw [castV_add, ih]

theorem cast_resid (row : Row ℚ) (x : V3 ℚ) (r : ℚ) :
    ((row.resid x r : ℚ) : ℝ) = (castRow row).resid (castV x) (r : ℝ) := by
  show ((V3.dot row.a x + row.k * r - row.b : ℚ) : ℝ) = V3.dot (castV row.a) (castV x) + (row.k : ℝ) * r - row.b
  rw [← cast_dot]; push_cast; rfl

/-- **the exact residual the driver prints is the real one** -/
theorem cast_sumSq (rows : List (Row ℚ)) (x : V3 ℚ) (r : ℚ) :
    ((sumSq rows x r : ℚ) : ℝ) = sumSq (rows.map castRow) (castV x) (r : ℝ) := by
  unfold sumSq
  rw [cast_sum, List.map_map, List.map_map]
  congr 1
  apply List.map_congr_left
  intro row _
  show (((row.resid x r) * (row.resid x r) : ℚ) : ℝ) = _
  rw [Function.comp_apply, Scalar.sqr_real, ← cast_resid]; push_cast; rfl

theorem cast_normalGrad (rows : List (Row ℚ)) (x : V3 ℚ) (r : ℚ) :
    castV (normalGrad rows x r).1 = (normalGrad (rows.map castRow) (castV x) (r : ℝ)).1 ∧
      (((normalGrad rows x r).2 : ℚ) : ℝ) = (normalGrad (rows.map castRow) (castV x) (r : ℝ)).2 := by
  unfold normalGrad
  constructor
  · simp only
    rw [castV_sum, List.map_map, List.map_map]
    congr 1
    apply List.map_congr_left
    intro row _
    simp only [Function.comp_apply]
    rw [castV_smul, cast_resid]; rfl
  · simp only
    rw [cast_sum, List.map_map, List.map_map]
    congr 1
    apply List.map_congr_left
    intro row _
    show (((row.resid x r) * row.k : ℚ) : ℝ) = _
    rw [Function.comp_apply, ← cast_resid]; push_cast; rfl

theorem isZero_rat (a : ℚ) : isZero a = true ↔ a = 0 := by
  unfold isZero
  show decide (a = ((0 : ℕ) : ℚ)) = true ↔ a = 0
  simp

theorem isZero_cast (a : ℚ) : isZero ((a : ℚ) : ℝ) = isZero a := by
  rw [Bool.eq_iff_iff, isZero_real, isZero_rat]; exact Rat.cast_eq_zero

/-- **the least-squares certificate over ℚ** (what `s.lstsqmin` / `s.lstsqcert` evaluate) is the
certificate over ℝ on the same data … -/
theorem lstsqCert_cast (rows : List (Row ℚ)) (x : V3 ℚ) (r : ℚ) :
    lstsqCert (rows.map castRow) (castV x) (r : ℝ) = lstsqCert rows x r := by
  obtain ⟨h1, h2⟩ := cast_normalGrad rows x r
  unfold lstsqCert
  simp only
  rw [← h1, ← h2]
  simp only [castV_x, castV_y, castV_z, isZero_cast]

/-- … hence **sound and complete over ℚ**: the driver's flag is `true` iff `(x, r)` is a least-squares
minimiser of the real system. -/
theorem lstsqCert_rat_iff (rows : List (Row ℚ)) (x : V3 ℚ) (r : ℚ) :
    lstsqCert rows x r = true ↔ IsLstsqMin (rows.map castRow) (castV x) (r : ℝ) := by
  rw [← lstsqCert_cast, lstsqCert_iff]

/-! ### the minimal-ball bracket over ℚ -/

theorem cast_max (a b : ℚ) : ((Scalar.max a b : ℚ) : ℝ) = Scalar.max (a : ℝ) (b : ℝ) := by
  unfold Scalar.max
  by_cases h : a < b
  · have h' : (a : ℝ) < (b : ℝ) := Rat.cast_lt.mpr h
    rw [if_pos h, if_pos h']
  · have h' : ¬ (a : ℝ) < (b : ℝ) := fun hh => h (Rat.cast_lt.mp hh)
    rw [if_neg h, if_neg h']

theorem cast_foldl_maxd (c : V3 ℚ) (pts : List (V3 ℚ)) (m : ℚ) :
    ((pts.foldl (fun m p => Scalar.max m (distSq p c)) m : ℚ) : ℝ) =
      (pts.map castV).foldl (fun m p => Scalar.max m (distSq p (castV c))) (m : ℝ) := by
  induction pts generalizing m with
  | nil => rfl
  | cons p pts ih =>
    simp only [List.foldl_cons, List.map_cons]
    rw [ih, cast_max, cast_distSq]

/-- the exact `max_i ‖p_i − c‖²` the driver prints -/
theorem cast_maxDistSq (pts : List (V3 ℚ)) (c : V3 ℚ) :
    ((maxDistSq pts c : ℚ) : ℝ) = maxDistSq (pts.map castV) (castV c) := by
  unfold maxDistSq
  rw [cast_foldl_maxd, cast_lit]

theorem cast_supWeight (sup : List (ℚ × V3 ℚ)) :
    ((supWeight sup : ℚ) : ℝ) = supWeight (sup.map castSup) := by
  unfold supWeight
  rw [cast_sum, List.map_map, List.map_map]; rfl

theorem castV_supCentre (sup : List (ℚ × V3 ℚ)) : castV (supCentre sup) = supCentre (sup.map castSup) := by
  unfold supCentre
  rw [castV_sdiv, castV_sum, cast_supWeight, List.map_map, List.map_map]
  congr 2
  apply List.map_congr_left
  intro s _
  simp only [Function.comp_apply]
  rw [castV_smul]; rfl

/-- the exact lower bound the driver prints -/
theorem cast_certLower (sup : List (ℚ × V3 ℚ)) :
    ((certLower sup : ℚ) : ℝ) = certLower (sup.map castSup) := by
  unfold certLower
  show (((Scalar.sum (sup.map fun s => s.1 * distSq s.2 (supCentre sup))) / supWeight sup : ℚ) : ℝ) = _
  rw [Rat.cast_div, cast_supWeight, cast_sum, List.map_map, List.map_map]
  congr 2
  apply List.map_congr_left
  intro s _
  show (((s.1 * distSq s.2 (supCentre sup)) : ℚ) : ℝ) = _
  rw [Function.comp_apply, Rat.cast_mul, cast_distSq, castV_supCentre]; rfl

theorem v3Eqb_rat {u v : V3 ℚ} (h : v3Eqb u v = true) : u = v := by
  obtain ⟨a, b, c⟩ := u; obtain ⟨d, e, f⟩ := v
  simp only [v3Eqb, Bool.and_eq_true] at h
  obtain ⟨⟨h1, h2⟩, h3⟩ := h
  have e1 : a = d := of_decide_eq_true h1
  have e2 : b = e := of_decide_eq_true h2
  have e3 : c = f := of_decide_eq_true h3
  rw [e1, e2, e3]

theorem v3Eqb_refl_real (u : V3 ℝ) : v3Eqb u u = true := by
  simp only [v3Eqb, Bool.and_eq_true]
  exact ⟨⟨decide_eq_true rfl, decide_eq_true rfl⟩, decide_eq_true rfl⟩

/-- the side conditions over ℚ imply the side conditions over ℝ on the cast data -/
theorem certSide_cast {pts : List (V3 ℚ)} {sup : List (ℚ × V3 ℚ)} (h : certSide pts sup = true) :
    certSide (pts.map castV) (sup.map castSup) = true := by
  unfold certSide at h ⊢
  simp only [Bool.and_eq_true, List.all_eq_true, List.any_eq_true, decide_eq_true_eq] at h ⊢
  obtain ⟨hall, hpos⟩ := h
  constructor
  · intro s hs
    obtain ⟨t, ht, rfl⟩ := List.mem_map.mp hs
    obtain ⟨hnn, p, hp, he⟩ := hall t ht
    refine ⟨?_, castV p, List.mem_map.mpr ⟨p, hp, rfl⟩, ?_⟩
    · have : (0 : ℚ) ≤ t.1 := by simpa [lit_rat] using hnn
      show (Scalar.lit 0 : ℝ) ≤ ((t.1 : ℚ) : ℝ)
      rw [Scalar.lit_real]; exact_mod_cast this
    · show v3Eqb (castV t.2) (castV p) = true
      rw [v3Eqb_rat he]; exact v3Eqb_refl_real _
  · rw [← cast_supWeight]
    have : (0 : ℚ) < supWeight sup := by simpa [lit_rat] using hpos
    show (Scalar.lit 0 : ℝ) < _
    rw [Scalar.lit_real]; exact_mod_cast this

/-- **the bracket as the driver computes it (over ℚ) is sound**: if `s.certbracket` reports the side
conditions fulfilled, a lower bound `lo` and `hi = max_i ‖p_i − c‖²`, then the squared radius of the
minimal bounding ball of the (real) points lies in `[lo, hi]`. -/
theorem cert_bracket_rat {pts : List (V3 ℚ)} {sup : List (ℚ × V3 ℚ)} (h : certSide pts sup = true)
    (c : V3 ℚ) {c0 : V3 ℝ} {r0 : ℝ} (hmin : IsMinimalBounding c0 r0 (pts.map castV)) :
    ((certLower sup : ℚ) : ℝ) ≤ r0 * r0 ∧ r0 * r0 ≤ ((maxDistSq pts c : ℚ) : ℝ) := by
  rw [cast_certLower, cast_maxDistSq]
  exact cert_bracket (certSide_cast h) (castV c) hmin

end Balls
end
