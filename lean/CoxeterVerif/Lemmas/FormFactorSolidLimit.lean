import CoxeterVerif.Lemmas.FormFactorSolid
import CoxeterVerif.Lemmas.FormFactorLimits
/-!
  Small-`q` behaviour of the tetrahedron integral and of the surface form of a closed surface:
  `‖Ktet a β γ δ − 1/6‖ ≤ |a| + |β| + |γ| + |δ|`, hence `‖tetsFT Ts q − Σ 6V/6‖ ≤ |q| · tetsLip Ts`, and the surface form
  `(i/|q|²) Σ_T (q·N_T) ∫∫_T e^{-iq·r}` of every closed triangulated surface tends to the (signed cone) volume as
  `q → 0` along every ray.
-/
open Scalar MeasureTheory
set_option maxRecDepth 4000
namespace FF
noncomputable section

theorem integral_inner_lin (L : ℝ) : (∫ t in (0:ℝ)..L, ((L - t : ℝ) : ℂ)) = ((L ^ 2 / 2 : ℝ) : ℂ) := by
  rw [intervalIntegral.integral_ofReal]
  congr 1
  rw [intervalIntegral.integral_sub (by simp) (by simp)]
  simp
  ring

theorem integral_outer_quad : (∫ s in (0:ℝ)..1, (((1 - s) ^ 2 / 2 : ℝ) : ℂ)) = 1 / 6 := by
  rw [intervalIntegral.integral_ofReal]
  have h : ∀ s : ℝ, (1 - s) ^ 2 / 2 = 1 / 2 - s + s ^ 2 / 2 := fun s => by ring
  simp_rw [h]
  have : (∫ s in (0:ℝ)..1, (1 / 2 - s + s ^ 2 / 2 : ℝ)) = 1 / 6 := by
    rw [intervalIntegral.integral_add (by apply Continuous.intervalIntegrable; fun_prop)
      (by apply Continuous.intervalIntegrable; fun_prop),
      intervalIntegral.integral_sub (by simp) (by simp)]
    simp only [intervalIntegral.integral_div, integral_pow, integral_id, intervalIntegral.integral_const]
    norm_num
  rw [this]; norm_num

/-- `‖Ktet a β γ δ − 1/6‖ ≤ |a| + |β| + |γ| + |δ|` -/
theorem Ktet_sub_sixth_le (a β γ δ : ℝ) : ‖Ktet a β γ δ - 1 / 6‖ ≤ |a| + |β| + |γ| + |δ| := by
  set M := |a| + |β| + |γ| + |δ| with hM
  have hM0 : 0 ≤ M := by positivity
  -- innermost
  have h3 : ∀ s t : ℝ, 0 < s → 0 < t → t ≤ 1 - s →
      ‖(∫ u in (0:ℝ)..(1 - s - t), cexp (a + s * β + t * γ + u * δ)) - ((1 - s - t : ℝ) : ℂ)‖ ≤ M := by
    intro s t hs ht hts
    have hL : 0 ≤ 1 - s - t := by linarith
    have e : (∫ u in (0:ℝ)..(1 - s - t), cexp (a + s * β + t * γ + u * δ)) - ((1 - s - t : ℝ) : ℂ) =
        ∫ u in (0:ℝ)..(1 - s - t), (cexp (a + s * β + t * γ + u * δ) - 1) := by
      rw [intervalIntegral.integral_sub (intervalIntegrable_cexp (by fun_prop) _ _) (by simp)]
      simp
    rw [e]
    have hb : ∀ u ∈ Set.uIoc (0:ℝ) (1 - s - t), ‖cexp (a + s * β + t * γ + u * δ) - 1‖ ≤ M := by
      intro u hu
      rw [Set.uIoc_of_le hL] at hu
      refine (norm_cexp_sub_one_le _).trans ?_
      have hs1 : |s| ≤ 1 := by rw [abs_of_pos hs]; linarith
      have ht1 : |t| ≤ 1 := by rw [abs_of_pos ht]; linarith
      have hu1 : |u| ≤ 1 := by rw [abs_of_pos hu.1]; linarith [hu.2]
      have h1 : |s * β| ≤ |β| := by rw [abs_mul]; nlinarith [abs_nonneg β]
      have h2 : |t * γ| ≤ |γ| := by rw [abs_mul]; nlinarith [abs_nonneg γ]
      have h4 : |u * δ| ≤ |δ| := by rw [abs_mul]; nlinarith [abs_nonneg δ]
      calc |a + s * β + t * γ + u * δ| ≤ |a + s * β + t * γ| + |u * δ| := abs_add_le _ _
        _ ≤ |a + s * β| + |t * γ| + |u * δ| := by linarith [abs_add_le (a + s * β) (t * γ)]
        _ ≤ |a| + |s * β| + |t * γ| + |u * δ| := by linarith [abs_add_le a (s * β)]
        _ ≤ M := by rw [hM]; linarith
    have := intervalIntegral.norm_integral_le_of_norm_le_const hb
    rw [sub_zero, abs_of_nonneg hL] at this
    nlinarith
  -- middle
  have hc3 : ∀ s : ℝ, Continuous fun t : ℝ => ∫ u in (0:ℝ)..(1 - s - t), cexp (a + s * β + t * γ + u * δ) := by
    intro s
    have := (cont_inner3 (fun z => a + z.1.1 * β + z.1.2 * γ + z.2 * δ) (by fun_prop)).comp
      (continuous_const.prodMk continuous_id : Continuous fun t : ℝ => ((s, t) : ℝ × ℝ))
    exact this
  have hlin : ∀ s : ℝ, Continuous fun t : ℝ => ((1 - s - t : ℝ) : ℂ) := fun s =>
    Complex.continuous_ofReal.comp (continuous_const.sub continuous_id)
  have h2 : ∀ s ∈ Set.uIoc (0:ℝ) 1,
      ‖(∫ t in (0:ℝ)..(1 - s), ∫ u in (0:ℝ)..(1 - s - t), cexp (a + s * β + t * γ + u * δ)) -
        (((1 - s) ^ 2 / 2 : ℝ) : ℂ)‖ ≤ M := by
    intro s hs
    rw [Set.uIoc_of_le zero_le_one] at hs
    have hL : 0 ≤ 1 - s := by linarith [hs.2]
    rw [← integral_inner_lin (1 - s), ← intervalIntegral.integral_sub ((hc3 s).intervalIntegrable _ _)
      ((hlin s).intervalIntegrable _ _)]
    have hb : ∀ t ∈ Set.uIoc (0:ℝ) (1 - s),
        ‖(∫ u in (0:ℝ)..(1 - s - t), cexp (a + s * β + t * γ + u * δ)) - ((1 - s - t : ℝ) : ℂ)‖ ≤ M := by
      intro t ht
      rw [Set.uIoc_of_le hL] at ht
      exact h3 s t hs.1 ht.1 ht.2
    have := intervalIntegral.norm_integral_le_of_norm_le_const hb
    rw [sub_zero, abs_of_nonneg hL] at this
    nlinarith [hs.1]
  -- outer
  have hcm := cont_mid3 (fun z => a + z.1.1 * β + z.1.2 * γ + z.2 * δ) (by fun_prop)
  have hquad : Continuous fun s : ℝ => (((1 - s) ^ 2 / 2 : ℝ) : ℂ) :=
    Complex.continuous_ofReal.comp (by fun_prop)
  have e : Ktet a β γ δ - 1 / 6 = ∫ s in (0:ℝ)..1,
      ((∫ t in (0:ℝ)..(1 - s), ∫ u in (0:ℝ)..(1 - s - t), cexp (a + s * β + t * γ + u * δ)) -
        (((1 - s) ^ 2 / 2 : ℝ) : ℂ)) := by
    rw [intervalIntegral.integral_sub (hcm.intervalIntegrable _ _) (hquad.intervalIntegrable _ _),
      integral_outer_quad]
    rfl
  rw [e]
  have := intervalIntegral.norm_integral_le_of_norm_le_const h2
  simpa using this

/-- Lipschitz constant of the small-`q` expansion of a list of tetrahedra -/
def tetsLip (Ts : List (Tet ℝ)) : ℝ :=
  (Ts.map fun T => |tet6 T.a T.b T.c T.d| *
    (V3.norm T.a + V3.norm (T.b - T.a) + V3.norm (T.c - T.a) + V3.norm (T.d - T.a))).sum

/-- Σ of the signed volumes -/
def tetsVol (Ts : List (Tet ℝ)) : ℝ := (Ts.map fun T => tet6 T.a T.b T.c T.d / 6).sum

theorem tetsFT_sub_le (Ts : List (Tet ℝ)) (qv : V3 ℝ) :
    ‖tetsFT Ts qv - ((tetsVol Ts : ℝ) : ℂ)‖ ≤ V3.norm qv * tetsLip Ts := by
  unfold tetsFT tetsLip tetsVol
  induction Ts with
  | nil => simp
  | cons T Ts ih =>
    simp only [List.map_cons, List.sum_cons]
    have hT : ‖((tet6 T.a T.b T.c T.d : ℝ) : ℂ) * tetFT T.a T.b T.c T.d qv - ((tet6 T.a T.b T.c T.d / 6 : ℝ) : ℂ)‖ ≤
        V3.norm qv * (|tet6 T.a T.b T.c T.d| *
          (V3.norm T.a + V3.norm (T.b - T.a) + V3.norm (T.c - T.a) + V3.norm (T.d - T.a))) := by
      have e : ((tet6 T.a T.b T.c T.d : ℝ) : ℂ) * tetFT T.a T.b T.c T.d qv - ((tet6 T.a T.b T.c T.d / 6 : ℝ) : ℂ) =
          ((tet6 T.a T.b T.c T.d : ℝ) : ℂ) * (tetFT T.a T.b T.c T.d qv - 1 / 6) := by push_cast; ring
      rw [e, norm_mul, Complex.norm_real, Real.norm_eq_abs, tetFT_eq_Ktet]
      have hK := Ktet_sub_sixth_le (V3.dot qv T.a) (V3.dot qv T.b - V3.dot qv T.a) (V3.dot qv T.c - V3.dot qv T.a)
        (V3.dot qv T.d - V3.dot qv T.a)
      rw [← dot_sub_right, ← dot_sub_right, ← dot_sub_right] at hK ⊢
      have b1 := abs_dot_le qv T.a
      have b2 := abs_dot_le qv (T.b - T.a)
      have b3 := abs_dot_le qv (T.c - T.a)
      have b4 := abs_dot_le qv (T.d - T.a)
      have h0 : 0 ≤ |tet6 T.a T.b T.c T.d| := abs_nonneg _
      calc |tet6 T.a T.b T.c T.d| *
            ‖Ktet (V3.dot qv T.a) (V3.dot qv (T.b - T.a)) (V3.dot qv (T.c - T.a)) (V3.dot qv (T.d - T.a)) - 1 / 6‖
          ≤ |tet6 T.a T.b T.c T.d| * (V3.norm qv * V3.norm T.a + V3.norm qv * V3.norm (T.b - T.a) +
              V3.norm qv * V3.norm (T.c - T.a) + V3.norm qv * V3.norm (T.d - T.a)) := by
            apply mul_le_mul_of_nonneg_left _ h0
            linarith
        _ = V3.norm qv * (|tet6 T.a T.b T.c T.d| *
              (V3.norm T.a + V3.norm (T.b - T.a) + V3.norm (T.c - T.a) + V3.norm (T.d - T.a))) := by ring
    have e2 : ((tet6 T.a T.b T.c T.d : ℝ) : ℂ) * tetFT T.a T.b T.c T.d qv +
          (Ts.map fun T => ((tet6 T.a T.b T.c T.d : ℝ) : ℂ) * tetFT T.a T.b T.c T.d qv).sum -
          (((tet6 T.a T.b T.c T.d / 6 + (Ts.map fun T => tet6 T.a T.b T.c T.d / 6).sum) : ℝ) : ℂ) =
        (((tet6 T.a T.b T.c T.d : ℝ) : ℂ) * tetFT T.a T.b T.c T.d qv - ((tet6 T.a T.b T.c T.d / 6 : ℝ) : ℂ)) +
          ((Ts.map fun T => ((tet6 T.a T.b T.c T.d : ℝ) : ℂ) * tetFT T.a T.b T.c T.d qv).sum -
            (((Ts.map fun T => tet6 T.a T.b T.c T.d / 6).sum : ℝ) : ℂ)) := by
      push_cast; ring
    rw [e2]
    refine (norm_add_le _ _).trans ?_
    rw [mul_add]
    exact add_le_add hT ih

/-- **`q → 0` for every closed triangulated surface**: the surface form (= the non-zero branch of the polyhedron
model, `polyhedronNonzero_eq_surf`) tends to the signed cone volume along every ray `q = k u`. -/
theorem surface_form_tendsto_volume {S : List (Tri ℝ)} (hclosed : CCk.ClosedSurface S) (p u : V3 ℝ)
    (hu0 : V3.dot u u ≠ 0) :
    Filter.Tendsto
      (fun k : ℝ => (Complex.I / ((V3.dot (V3.smul k u) (V3.smul k u) : ℝ) : ℂ)) * surfSum (V3.smul k u) S)
      (nhdsWithin 0 {0}ᶜ) (nhds ((tetsVol (ChainCheck.cone p S) : ℝ) : ℂ)) := by
  rw [tendsto_iff_norm_sub_tendsto_zero]
  set L := tetsLip (ChainCheck.cone p S) with hL
  have hsq : ∀ k : ℝ, V3.dot (V3.smul k u) (V3.smul k u) = k ^ 2 * V3.dot u u := by
    intro k; obtain ⟨x, y, z⟩ := u; simp [V3.dot, V3.smul]; ring
  have hnorm : ∀ k : ℝ, V3.norm (V3.smul k u) = |k| * V3.norm u := by
    intro k
    rw [norm_eq, norm_eq, hsq, Real.sqrt_mul (sq_nonneg k), Real.sqrt_sq_eq_abs]
  have hb : Filter.Tendsto (fun k : ℝ => |k| * V3.norm u * L) (nhdsWithin 0 {0}ᶜ) (nhds 0) := by
    have : Filter.Tendsto (fun k : ℝ => |k| * V3.norm u * L) (nhds 0) (nhds (|(0:ℝ)| * V3.norm u * L)) :=
      Continuous.tendsto (by fun_prop) 0
    simp only [abs_zero, zero_mul] at this
    exact this.mono_left nhdsWithin_le_nhds
  refine squeeze_zero' (Filter.Eventually.of_forall fun _ => norm_nonneg _) ?_ hb
  filter_upwards [self_mem_nhdsWithin] with k hk
  have hk' : k ≠ 0 := hk
  have hQ : V3.dot (V3.smul k u) (V3.smul k u) ≠ 0 := by
    rw [hsq]; exact mul_ne_zero (pow_ne_zero 2 hk') hu0
  rw [closed_surface_form_cone _ hQ hclosed p]
  have := tetsFT_sub_le (ChainCheck.cone p S) (V3.smul k u)
  rwa [hnorm] at this

end
end FF
