import CoxeterVerif.Lemmas.DistToSurfaceSphero
import CoxeterVerif.Lemmas.DistToSurfaceUnique
/-!
  C14, spheropolygon: the arc loop as a whole (`arcsFold`), the corner list (`corners`,
  `np.roll(verts, ±1)`), and the case split of `ConvexSpheropolygon.distance_to_surface`:
  either no arc range contains the reduced angle and the kernel value is returned, or the value is
  the arc root of a corner whose range contains it — and that root is positive and puts the point
  at distance exactly `r` from a core vertex.
-/
open Scalar
set_option maxRecDepth 4000
noncomputable section
theorem P2.sub_inj' (c : P2 ℝ) {u v : P2 ℝ} (h : u - c = v - c) : u = v := by
  have hx : (u - c).x = (v - c).x := congrArg P2.x h
  have hy : (u - c).y = (v - c).y := congrArg P2.y h
  simp only [P2.sub_x, P2.sub_y] at hx hy
  cases u; cases v; simp only at hx hy; congr <;> linarith

namespace DTS

theorem mem_zip3With {β γ δ ε : Type} (f : β → γ → δ → ε) :
    ∀ (A : List β) (B : List γ) (C : List δ) (k : ε), k ∈ zip3With f A B C →
      ∃ a b c, (a, b) ∈ A.zip B ∧ (b, c) ∈ B.zip C ∧ k = f a b c := by
  intro A
  induction A with
  | nil => intro B C k h; simp [zip3With] at h
  | cons a A ih =>
    intro B C k h
    cases B with
    | nil => simp [zip3With] at h
    | cons b B =>
      cases C with
      | nil => simp [zip3With] at h
      | cons c C =>
        simp only [zip3With, List.mem_cons] at h
        rcases h with h | h
        · exact ⟨a, b, c, by simp, by simp, h⟩
        · obtain ⟨a', b', c', h1, h2, h3⟩ := ih B C k h
          exact ⟨a', b', c', by simp [h1], by simp [h2], h3⟩

theorem length_zip3With {β γ δ ε : Type} (f : β → γ → δ → ε) :
    ∀ (A : List β) (B : List γ) (C : List δ), A.length = B.length → A.length = C.length →
      (zip3With f A B C).length = A.length := by
  intro A
  induction A with
  | nil => intro B C _ _; simp [zip3With]
  | cons a A ih =>
    intro B C hB hC
    cases B with
    | nil => simp at hB
    | cons b B =>
      cases C with
      | nil => simp at hC
      | cons c C =>
        simp only [List.length_cons, Nat.add_right_cancel_iff] at hB hC
        simp only [zip3With, List.length_cons, ih B C hB hC]

theorem length_corners (r : ℝ) (W : List (P2 ℝ)) : (corners r W).length = W.length := by
  unfold corners
  have h1 : (rollR1 W).length = W.length := by
    simp only [rollR1, List.length_append, List.length_drop, List.length_take]; omega
  have h2 : (rollL 1 W).length = W.length := by
    simp only [rollL, List.length_append, List.length_drop, List.length_take]; omega
  rw [length_zip3With _ _ _ _ h1 (by rw [h1, h2]), h1]

/-- every corner of the loop is `corner r v1 v2 v3` for two consecutive edges `v1 → v2 → v3` -/
theorem corners_mem (r : ℝ) (W : List (P2 ℝ)) (h2 : 2 ≤ W.length) (k : Corner ℝ)
    (hk : k ∈ corners r W) :
    ∃ v1 v2 v3, k = corner r v1 v2 v3 ∧ (v1, v2) ∈ Spec.edgesOf W ∧ (v2, v3) ∈ Spec.edgesOf W := by
  obtain ⟨a, b, c, h1, h3, rfl⟩ := mem_zip3With _ _ _ _ k hk
  refine ⟨a, b, c, rfl, ?_, ?_⟩
  · have hK : W.length - 1 % W.length = W.length - 1 := by
      rw [Nat.mod_eq_of_lt (by omega)]
    have hr1 : rollR1 W = W.rotate (W.length - 1) := by
      unfold rollR1
      rw [List.rotate_eq_drop_append_take (by omega)]
    have hE : Spec.edgesOf (W.rotate (W.length - 1)) = (W.rotate (W.length - 1)).zip W := by
      rw [edgesOf_eq_zip_rotate]
      have := rotate_pred_succ W
      rw [hK] at this
      rw [this]
    rw [hr1, ← hE] at h1
    exact (mem_edgesOf_rotate W _ _).mp h1
  · exact h3

instance (k : Corner ℝ) (a : ℝ) : Decidable (inArc k a) := Classical.propDecidable _

/-- the range test of the loop, as a `Bool`, is `inArc` -/
theorem arcsFold_cons (r a : ℝ) (k : Corner ℝ) (rest : List (Corner ℝ)) (acc : Option ℝ) :
    arcsFold r a (k :: rest) acc =
      arcsFold r a rest (if inArc k a then some (arcDist k.v r a) else acc) := by
  simp only [arcsFold]
  congr 1
  by_cases h : k.theta2 < k.theta1
  · have e : inArc k a ↔ (k.theta1 ≤ a ∨ a ≤ k.theta2) := by unfold inArc; rw [if_pos h]
    by_cases hi : inArc k a
    · rw [if_pos hi]; simp [h, e.mp hi]
    · rw [if_neg hi]; simp [h, mt e.mpr hi]
  · have e : inArc k a ↔ (k.theta1 ≤ a ∧ a ≤ k.theta2) := by unfold inArc; rw [if_neg h]
    by_cases hi : inArc k a
    · rw [if_pos hi]; simp [h, e.mp hi]
    · rw [if_neg hi]
      have := mt e.mpr hi
      simp only [h, if_false, Bool.and_eq_true, decide_eq_true_eq, this]

/-- the arc loop returns the kernel value iff no arc range contains the angle; otherwise the arc
root of a corner whose range contains it -/
theorem arcsFold_cases (r a : ℝ) : ∀ (ks : List (Corner ℝ)) (acc : Option ℝ),
    (arcsFold r a ks acc = acc ∧ ∀ k ∈ ks, ¬ inArc k a) ∨
    (∃ k ∈ ks, inArc k a ∧ arcsFold r a ks acc = some (arcDist k.v r a)) := by
  intro ks
  induction ks with
  | nil => intro acc; left; exact ⟨rfl, by simp⟩
  | cons k rest ih =>
    intro acc
    rw [arcsFold_cons]
    rcases ih (if inArc k a then some (arcDist k.v r a) else acc) with ⟨h1, h2⟩ | ⟨k', hk', h1, h2⟩
    · by_cases hin : inArc k a
      · right
        exact ⟨k, by simp, hin, by rw [h1, if_pos hin]⟩
      · left
        refine ⟨by rw [h1, if_neg hin], ?_⟩
        intro k' hk'
        rcases List.mem_cons.mp hk' with rfl | h
        · exact hin
        · exact h2 k' h
    · right
      exact ⟨k', List.mem_cons_of_mem _ hk', h1, h2⟩

/-- translation invariance of the two geometric hypotheses -/
theorem mem_edgesOf_translate (V : List (P2 ℝ)) (c : P2 ℝ) (e : P2 ℝ × P2 ℝ) :
    e ∈ Spec.edgesOf (V.map (· - c)) ↔ ∃ e0 ∈ Spec.edgesOf V, e = (e0.1 - c, e0.2 - c) := by
  rw [edgesOf_map, List.mem_map]
  constructor
  · rintro ⟨e0, h0, rfl⟩; exact ⟨e0, h0, rfl⟩
  · rintro ⟨e0, h0, rfl⟩; exact ⟨e0, h0, rfl⟩


/-- the two edges at a corner of a strictly convex counter-clockwise polygon around `c` form a
convex corner around the centre (in centred coordinates) -/
theorem convex_corner_of_edges (V : List (P2 ℝ)) (c : P2 ℝ)
    (hconv : Spec.strictConvexCCW V) (hin : Spec.strictlyInsideCCW V c)
    (v1 v2 v3 : P2 ℝ) (h12 : (v1, v2) ∈ Spec.edgesOf (V.map (· - c)))
    (h23 : (v2, v3) ∈ Spec.edgesOf (V.map (· - c))) :
    0 < Spec.cross v1 v2 ∧ 0 < Spec.cross v2 v3 ∧ 0 < Spec.cross (v2 - v1) (v3 - v2) ∧
    ∃ v ∈ V, v2 = v - c := by
  obtain ⟨e0, he0, hee⟩ := (mem_edgesOf_translate V c _).mp h12
  obtain ⟨f0, hf0, hff⟩ := (mem_edgesOf_translate V c _).mp h23
  have e1 : v1 = e0.1 - c := congrArg Prod.fst hee
  have e2 : v2 = e0.2 - c := congrArg Prod.snd hee
  have f1 : v2 = f0.1 - c := congrArg Prod.fst hff
  have f2 : v3 = f0.2 - c := congrArg Prod.snd hff
  have hfe : f0.1 = e0.2 := P2.sub_inj' c (by rw [← f1, ← e2])
  have hce := hin e0 he0
  have hcf := hin f0 hf0
  simp only [Scalar.lit, Scalar.ofNat_real, Nat.cast_zero] at hce hcf
  obtain ⟨_, hf2V⟩ := edgesOf_mem V f0 hf0
  obtain ⟨_, he2V⟩ := edgesOf_mem V e0 he0
  have hne2 : f0.2 ≠ e0.2 := by
    intro h
    rw [← hfe] at h
    rw [h] at hcf
    simp only [Spec.cross, P2.sub_x, P2.sub_y] at hcf
    linarith
  have hne1 : f0.2 ≠ e0.1 := by
    intro h
    rw [h, hfe] at hcf
    simp only [Spec.cross, P2.sub_x, P2.sub_y] at hcf hce
    linarith
  have hturn := hconv.2 e0 he0 f0.2 hf2V hne1 hne2
  simp only [Scalar.lit, Scalar.ofNat_real, Nat.cast_zero] at hturn
  refine ⟨?_, ?_, ?_, e0.2, he2V, e2⟩
  · rw [e1, e2]
    simp only [Spec.cross, P2.sub_x, P2.sub_y] at hce ⊢; linarith
  · rw [f1, f2]
    simp only [Spec.cross, P2.sub_x, P2.sub_y] at hcf ⊢; linarith
  · rw [e1, e2, f2]
    simp only [Spec.cross, P2.sub_x, P2.sub_y] at hturn ⊢; linarith

/-- **the case split of `ConvexSpheropolygon.distance_to_surface`** (counter-clockwise core,
`r > 0`): either no arc range contains the reduced angle and the value is the kernel's, or the value
is an arc root — positive, and the point `c + d (cos θ, sin θ)` is at distance exactly `r` from a
core vertex. -/
theorem spg_cases (Rk : M2 ℝ) (fk : Bool) (V : List (P2 ℝ)) (c : P2 ℝ) (r θ : ℝ) (hr : 0 < r)
    (h3 : 3 ≤ V.length) (hconv : Spec.strictConvexCCW V) (hin : Spec.strictlyInsideCCW V c) :
    (spgDts Rk fk false V c r θ =
        cpolyDtsFrom Rk fk (spgNewVerts false V c r) P2.zero (fmod θ twoPi) ∧
      ∀ k ∈ corners r (V.map (· - c)), ¬ inArc k (fmod θ twoPi)) ∨
    (∃ v ∈ V, ∃ d, spgDts Rk fk false V c r θ = some d ∧ 0 < d ∧
      (c.x + d * Real.cos θ - v.x) ^ 2 + (c.y + d * Real.sin θ - v.y) ^ 2 = r ^ 2) := by
  obtain ⟨ha0, ha2⟩ := fmod_range θ
  have hca : Real.cos (fmod θ twoPi) = Real.cos θ := cos_fmod θ
  have hsa : Real.sin (fmod θ twoPi) = Real.sin θ := sin_fmod θ
  have hW : spgVerts false V c = V.map (· - c) := by simp [spgVerts]
  unfold spgDts spgNewVerts
  simp only [hW]
  rcases arcsFold_cases r (fmod θ twoPi) (corners r (V.map (· - c)))
      (cpolyDtsFrom Rk fk ((corners r (V.map (· - c))).map (·.newVert)) P2.zero (fmod θ twoPi)) with
    ⟨h1, h2⟩ | ⟨k, hk, hin', hval⟩
  · left; exact ⟨h1, h2⟩
  · right
    obtain ⟨v1, v2, v3, rfl, h12, h23⟩ := corners_mem r _ (by simp; omega) k hk
    obtain ⟨c12, c23, cturn, v, hv, hv2⟩ := convex_corner_of_edges V c hconv hin v1 v2 v3 h12 h23
    obtain ⟨hpos, hcirc⟩ := corner_arc_correct r hr v1 v2 v3 _ ha0 ha2 c12 c23 cturn hin'
    subst hv2
    refine ⟨v, hv, _, hval, hpos, ?_⟩
    rw [hca, hsa] at hcirc
    simp only [P2.sub_x, P2.sub_y] at hcirc
    linear_combination hcirc

/-! ### consecutive corners share a core edge; the straight parts -/

theorem zip3With_eq_zipWith {β γ δ ε : Type} (f : β → γ → δ → ε) :
    ∀ (A : List β) (B : List γ) (C : List δ),
      zip3With f A B C = List.zipWith (fun (ab : β × γ) c => f ab.1 ab.2 c) (A.zip B) C := by
  intro A
  induction A with
  | nil => intro B C; simp [zip3With]
  | cons a A ih =>
    intro B C
    cases B with
    | nil => simp [zip3With]
    | cons b B =>
      cases C with
      | nil => simp [zip3With]
      | cons c C => simp [zip3With, ih]

theorem zip3With_rotate {β γ δ ε : Type} (f : β → γ → δ → ε) (A : List β) (B : List γ) (C : List δ)
    (m : Nat) (hAB : A.length = B.length) (hAC : A.length = C.length) :
    (zip3With f A B C).rotate m = zip3With f (A.rotate m) (B.rotate m) (C.rotate m) := by
  rw [zip3With_eq_zipWith, zip3With_eq_zipWith, List.zipWith_rotate_distrib _ _ _ _ (by simp [← hAB, hAC]),
    List.zip_eq_zipWith, List.zip_eq_zipWith, List.zipWith_rotate_distrib _ _ _ _ hAB]

theorem mem_zip_zip3With {β γ δ ε : Type} (f : β → γ → δ → ε) :
    ∀ (A : List β) (B : List γ) (C : List δ) (A' : List β) (B' : List γ) (C' : List δ) (k k' : ε),
      (k, k') ∈ (zip3With f A B C).zip (zip3With f A' B' C') →
      ∃ a b c a' b' c', k = f a b c ∧ k' = f a' b' c' ∧ (a, b) ∈ A.zip B ∧ (b, c) ∈ B.zip C ∧
        (b, a') ∈ B.zip A' ∧ (c, b') ∈ C.zip B' ∧ (b', c') ∈ B'.zip C' := by
  intro A
  induction A with
  | nil => intro B C A' B' C' k k' h; simp [zip3With] at h
  | cons a A ih =>
    intro B C A' B' C' k k' h
    cases B with
    | nil => simp [zip3With] at h
    | cons b B =>
      cases C with
      | nil => simp [zip3With] at h
      | cons c C =>
        cases A' with
        | nil => simp [zip3With] at h
        | cons a' A' =>
          cases B' with
          | nil => simp [zip3With] at h
          | cons b' B' =>
            cases C' with
            | nil => simp [zip3With] at h
            | cons c' C' =>
              simp only [zip3With, List.zip_cons_cons, List.mem_cons, Prod.mk.injEq] at h
              rcases h with ⟨h1, h2⟩ | h
              · exact ⟨a, b, c, a', b', c', h1, h2, by simp, by simp, by simp, by simp, by simp⟩
              · obtain ⟨x1, x2, x3, y1, y2, y3, e1, e2, m1, m2, m3, m4, m5⟩ := ih B C A' B' C' k k' h
                exact ⟨x1, x2, x3, y1, y2, y3, e1, e2, by simp [m1], by simp [m2], by simp [m3], by simp [m4],
                  by simp [m5]⟩

theorem mem_zip_self {β : Type} : ∀ (L : List β) (x y : β), (x, y) ∈ L.zip L → x = y := by
  intro L
  induction L with
  | nil => intro x y h; simp at h
  | cons a L ih =>
    intro x y h
    simp only [List.zip_cons_cons, List.mem_cons, Prod.mk.injEq] at h
    rcases h with ⟨h1, h2⟩ | h
    · rw [h1, h2]
    · exact ih x y h

/-- two consecutive expanded vertices come from two consecutive corners, which share a core edge -/
theorem newVerts_edges (r : ℝ) (W : List (P2 ℝ)) (h2 : 2 ≤ W.length) (A B : P2 ℝ)
    (h : (A, B) ∈ Spec.edgesOf ((corners r W).map (·.newVert))) :
    ∃ a p q d, A = (corner r a p q).newVert ∧ B = (corner r p q d).newVert ∧
      (a, p) ∈ Spec.edgesOf W ∧ (p, q) ∈ Spec.edgesOf W ∧ (q, d) ∈ Spec.edgesOf W ∧
      corner r a p q ∈ corners r W ∧ corner r p q d ∈ corners r W := by
  rw [edgesOf_eq_zip_rotate, ← List.map_rotate, List.zip_map, List.mem_map] at h
  obtain ⟨⟨k, k'⟩, hkk, hAB⟩ := h
  have hk1 : k ∈ corners r W := (List.of_mem_zip hkk).1
  have hk2 : k' ∈ corners r W := List.mem_rotate.mp (List.of_mem_zip hkk).2
  have hA : A = k.newVert := (congrArg Prod.fst hAB).symm
  have hB : B = k'.newVert := (congrArg Prod.snd hAB).symm
  have hr1 : rollR1 W = W.rotate (W.length - 1) := by
    unfold rollR1; rw [List.rotate_eq_drop_append_take (by omega)]
  have hl1 : rollL 1 W = W.rotate 1 := by
    unfold rollL; rw [List.rotate_eq_drop_append_take (by omega)]
  have hK : W.length - 1 % W.length = W.length - 1 := by rw [Nat.mod_eq_of_lt (by omega)]
  have hback : (W.rotate (W.length - 1)).rotate 1 = W := by
    have := rotate_pred_succ W; rw [hK] at this; exact this
  unfold corners at hkk
  rw [hr1, hl1, zip3With_rotate _ _ _ _ 1 (by simp) (by simp), hback, List.rotate_rotate] at hkk
  obtain ⟨a, b, c, a', b', c', rfl, rfl, m1, m2, m3, m4, m5⟩ := mem_zip_zip3With _ _ _ _ _ _ _ _ _ hkk
  have e1 : b = a' := mem_zip_self W b a' m3
  have e2 : c = b' := mem_zip_self _ c b' m4
  subst e1; subst e2
  refine ⟨a, b, c, c', hA, hB, ?_, ?_, ?_, hk1, hk2⟩
  · have hE : Spec.edgesOf (W.rotate (W.length - 1)) = (W.rotate (W.length - 1)).zip W := by
      rw [edgesOf_eq_zip_rotate, hback]
    rw [← hE] at m1
    exact (mem_edgesOf_rotate W _ _).mp m1
  · rw [edgesOf_eq_zip_rotate]; exact m2
  · have hE : Spec.edgesOf (W.rotate 1) = (W.rotate 1).zip (W.rotate (1 + 1)) := by
      rw [edgesOf_eq_zip_rotate, List.rotate_rotate]
    rw [← hE] at m5
    exact (mem_edgesOf_rotate W _ _).mp m5

theorem rightNormal_translate (p q c : P2 ℝ) : rightNormal (p - c) (q - c) = rightNormal p q := by
  have : (q - c) - (p - c) = q - p := by
    cases p; cases q; cases c; simp only [HSub.hSub, Sub.sub, P2.sub]; congr 1 <;> ring
  unfold rightNormal
  rw [this]
  simp only [P2.sub_x, P2.sub_y]
  congr 1 <;> ring

/-- **the straight parts.**  A point on an edge segment of the offset polygon `new_verts` (in centred
coordinates) is at signed distance exactly `r`, on the outer side, from the supporting line of a
core edge. -/
theorem offset_edge_distance (V : List (P2 ℝ)) (c : P2 ℝ) (r : ℝ) (h3 : 3 ≤ V.length)
    (hconv : Spec.strictConvexCCW V) (hin : Spec.strictlyInsideCCW V c) (X : P2 ℝ)
    (hX : Spec.onPolyBoundary (spgNewVerts false V c r) X) :
    ∃ e ∈ Spec.edgesOf V,
      (rightNormal e.1 e.2).x * (c.x + X.x - e.1.x) + (rightNormal e.1 e.2).y * (c.y + X.y - e.1.y) = r := by
  obtain ⟨⟨A, B⟩, hAB, s, _, _, hx, hy⟩ := hX
  have hW : spgVerts false V c = V.map (· - c) := by simp [spgVerts]
  unfold spgNewVerts at hAB
  rw [hW] at hAB
  obtain ⟨a, p, q, d, hA, hB, e1, e2, e3, _, _⟩ := newVerts_edges r _ (by simp; omega) A B hAB
  obtain ⟨c1, c2, t1, _⟩ := convex_corner_of_edges V c hconv hin a p q e1 e2
  obtain ⟨_, c3, t2, _⟩ := convex_corner_of_edges V c hconv hin p q d e2 e3
  obtain ⟨_, hA2, _⟩ := corner_newVert_on_lines r a p q c1 c2 t1
  obtain ⟨hB1, _⟩ := corner_newVert_on_lines r p q d c2 c3 t2
  obtain ⟨_, hperp, _⟩ := rightNormal_props p q c2
  obtain ⟨e0, he0, hee⟩ := (mem_edgesOf_translate V c _).mp e2
  have hp : p = e0.1 - c := congrArg Prod.fst hee
  have hq : q = e0.2 - c := congrArg Prod.snd hee
  refine ⟨e0, he0, ?_⟩
  rw [← rightNormal_translate e0.1 e0.2 c, ← hp, ← hq]
  have hpx : p.x = e0.1.x - c.x := by rw [hp]; rfl
  have hpy : p.y = e0.1.y - c.y := by rw [hp]; rfl
  simp only at hx hy hA2 hB1 hperp
  rw [← hA] at hA2
  rw [← hB] at hB1
  set n := rightNormal p q
  have : n.x * (c.x + X.x - e0.1.x) + n.y * (c.y + X.y - e0.1.y) =
      (1 - s) * (n.x * (A.x - p.x) + n.y * (A.y - p.y)) +
      s * ((n.x * (B.x - q.x) + n.y * (B.y - q.y)) + (n.x * (q.x - p.x) + n.y * (q.y - p.y))) := by
    rw [hx, hy, hpx, hpy]; ring
  rw [this, hA2, hB1, hperp]; ring

end DTS

/-! ### a concrete spheropolygon: the square `[−1,1]²` with `r = 1/2` -/

theorem sq_norm2 : P2.norm (⟨0, 2⟩ : P2 ℝ) = 2 := by
  rw [P2.norm_real]; simp only [mul_zero, zero_add]
  exact Real.sqrt_mul_self (by norm_num)
theorem sq_norm2' : P2.norm (⟨-2, 0⟩ : P2 ℝ) = 2 := by
  rw [P2.norm_real]; simp only [mul_zero, add_zero]
  rw [show (-2 : ℝ) * -2 = 2 * 2 by norm_num]; exact Real.sqrt_mul_self (by norm_num)
theorem sq_norm2'' : P2.norm (⟨0, -2⟩ : P2 ℝ) = 2 := by
  rw [P2.norm_real]; simp only [mul_zero, zero_add]
  rw [show (-2 : ℝ) * -2 = 2 * 2 by norm_num]; exact Real.sqrt_mul_self (by norm_num)
theorem sq_norm2''' : P2.norm (⟨2, 0⟩ : P2 ℝ) = 2 := by
  rw [P2.norm_real]; simp only [mul_zero, add_zero]
  exact Real.sqrt_mul_self (by norm_num)

theorem P2.ext'' {u v : P2 ℝ} (hx : u.x = v.x) (hy : u.y = v.y) : u = v := by
  cases u; cases v; simp only at hx hy; rw [hx, hy]

/-- offset vertices of the square `[−1,1]²`, `r = 1/2` -/
theorem square_newVerts :
    DTS.spgNewVerts false [⟨1, -1⟩, ⟨1, 1⟩, ⟨-1, 1⟩, ⟨-1, -1⟩] (⟨0, 0⟩ : P2 ℝ) (1 / 2) =
      [⟨3 / 2, -3 / 2⟩, ⟨3 / 2, 3 / 2⟩, ⟨-3 / 2, 3 / 2⟩, ⟨-3 / 2, -3 / 2⟩] := by
  have hsub : ∀ p : P2 ℝ, p - (⟨0, 0⟩ : P2 ℝ) = p := by
    intro p; apply P2.ext'' <;> simp <;> norm_num
  simp only [DTS.spgNewVerts, DTS.spgVerts, Bool.false_eq_true, if_false, List.map_cons, List.map_nil, hsub,
    DTS.corners, DTS.rollR1, DTS.rollL, List.length_cons, List.length_nil, List.drop_succ_cons, List.drop_zero,
    List.take_succ_cons, List.take_zero, List.cons_append, List.nil_append, DTS.zip3With, List.drop_nil,
    List.append_nil, Nat.reduceAdd, Nat.reduceSub]
  have n1 : DTS.rightNormal (⟨-1, -1⟩ : P2 ℝ) ⟨1, -1⟩ = ⟨0, -1⟩ := by
    unfold DTS.rightNormal
    have : (⟨1, -1⟩ : P2 ℝ) - ⟨-1, -1⟩ = ⟨2, 0⟩ := by apply P2.ext'' <;> simp <;> norm_num
    rw [this, sq_norm2''']; apply P2.ext'' <;> simp <;> norm_num
  have n2 : DTS.rightNormal (⟨1, -1⟩ : P2 ℝ) ⟨1, 1⟩ = ⟨1, 0⟩ := by
    unfold DTS.rightNormal
    have : (⟨1, 1⟩ : P2 ℝ) - ⟨1, -1⟩ = ⟨0, 2⟩ := by apply P2.ext'' <;> simp <;> norm_num
    rw [this, sq_norm2]; apply P2.ext'' <;> simp <;> norm_num
  have n3 : DTS.rightNormal (⟨1, 1⟩ : P2 ℝ) ⟨-1, 1⟩ = ⟨0, 1⟩ := by
    unfold DTS.rightNormal
    have : (⟨-1, 1⟩ : P2 ℝ) - ⟨1, 1⟩ = ⟨-2, 0⟩ := by apply P2.ext'' <;> simp <;> norm_num
    rw [this, sq_norm2']; apply P2.ext'' <;> simp <;> norm_num
  have n4 : DTS.rightNormal (⟨-1, 1⟩ : P2 ℝ) ⟨-1, -1⟩ = ⟨-1, 0⟩ := by
    unfold DTS.rightNormal
    have : (⟨-1, -1⟩ : P2 ℝ) - ⟨-1, 1⟩ = ⟨0, -2⟩ := by apply P2.ext'' <;> simp <;> norm_num
    rw [this, sq_norm2'']; apply P2.ext'' <;> simp <;> norm_num
  obtain ⟨a1, a2, _⟩ := DTS.corner_newVert_on_lines (1 / 2) (⟨-1, -1⟩ : P2 ℝ) ⟨1, -1⟩ ⟨1, 1⟩
    (by norm_num [Spec.cross]) (by norm_num [Spec.cross]) (by norm_num [Spec.cross])
  obtain ⟨b1, b2, _⟩ := DTS.corner_newVert_on_lines (1 / 2) (⟨1, -1⟩ : P2 ℝ) ⟨1, 1⟩ ⟨-1, 1⟩
    (by norm_num [Spec.cross]) (by norm_num [Spec.cross]) (by norm_num [Spec.cross])
  obtain ⟨c1, c2, _⟩ := DTS.corner_newVert_on_lines (1 / 2) (⟨1, 1⟩ : P2 ℝ) ⟨-1, 1⟩ ⟨-1, -1⟩
    (by norm_num [Spec.cross]) (by norm_num [Spec.cross]) (by norm_num [Spec.cross])
  obtain ⟨d1, d2, _⟩ := DTS.corner_newVert_on_lines (1 / 2) (⟨-1, 1⟩ : P2 ℝ) ⟨-1, -1⟩ ⟨1, -1⟩
    (by norm_num [Spec.cross]) (by norm_num [Spec.cross]) (by norm_num [Spec.cross])
  simp only [n1, n2, n3, n4] at a1 a2 b1 b2 c1 c2 d1 d2
  congr 1
  · apply P2.ext'' <;> simp <;> norm_num only <;> linarith
  congr 1
  · apply P2.ext'' <;> simp <;> norm_num only <;> linarith
  congr 1
  · apply P2.ext'' <;> simp <;> norm_num only <;> linarith
  congr 1
  · apply P2.ext'' <;> simp <;> norm_num only <;> linarith


end
