import CoxeterVerif.Lemmas.FormFactorFan
import Mathlib.Analysis.SpecialFunctions.Trigonometric.Bounds
import Mathlib.Analysis.SpecialFunctions.Trigonometric.Sinc
import Mathlib.Analysis.SpecialFunctions.Integrals.Basic
/-!
  Small-`q` behaviour of the formulas behind the `np.isclose(q², 0)` switch, as theorems:

  * polygon: `‖(boundary form)(q) − signed area‖ ≤ |q| · fanLip`  (from the triangle representation and
    `‖e^{ix} − 1‖ ≤ |x|`), hence the non-zero branch tends to the area as `q∥ → 0` along every in-plane ray;
  * sphere: the non-zero branch `4π (sin kR − kR cos kR)/k³` IS the radial integral
    `∫₀ᴿ 4π r² sinc(k r) dr`, differs from the volume by at most `V (kR)²/10`, is STRICTLY smaller than the
    volume for every `k ≠ 0`, and tends to the volume as `k → 0`.
-/
open Scalar MeasureTheory
set_option maxRecDepth 4000
namespace FF
noncomputable section

/-! ### polygon -/

theorem norm_cexp_sub_one_le (x : ℝ) : ‖cexp x - 1‖ ≤ |x| := by
  have h := Real.norm_exp_I_mul_ofReal_sub_one_le (x := -x)
  have e : Complex.exp (Complex.I * ((-x : ℝ) : ℂ)) = cexp x := by
    unfold cexp; congr 1; push_cast; ring
  rw [e] at h
  simpa using h

theorem integral_one_sub : (∫ s in (0:ℝ)..1, ((1 - s : ℝ) : ℂ)) = 1 / 2 := by
  have h : (∫ s in (0:ℝ)..1, (1 - s : ℝ)) = 1 / 2 := by
    rw [intervalIntegral.integral_sub (by simp) (by simp)]
    simp
    norm_num
  rw [intervalIntegral.integral_ofReal, h]
  norm_num

/-- `‖Jtri a β γ − 1/2‖ ≤ |a| + |β| + |γ|` -/
theorem Jtri_sub_half_le (a β γ : ℝ) : ‖Jtri a β γ - 1 / 2‖ ≤ |a| + |β| + |γ| := by
  set M := |a| + |β| + |γ| with hM
  have hM0 : 0 ≤ M := by positivity
  have hcontInner : ∀ s : ℝ, Continuous fun t : ℝ => cexp (a + s * β + t * γ) := fun s =>
    continuous_cexp_comp (by fun_prop)
  -- inner integral minus (1 - s)
  have hinner : ∀ s ∈ Set.uIoc (0:ℝ) 1,
      ‖(∫ t in (0:ℝ)..(1 - s), cexp (a + s * β + t * γ)) - ((1 - s : ℝ) : ℂ)‖ ≤ M := by
    intro s hs
    rw [Set.uIoc_of_le zero_le_one] at hs
    have hs0 : 0 ≤ 1 - s := by linarith [hs.2]
    have e : (∫ t in (0:ℝ)..(1 - s), cexp (a + s * β + t * γ)) - ((1 - s : ℝ) : ℂ) =
        ∫ t in (0:ℝ)..(1 - s), (cexp (a + s * β + t * γ) - 1) := by
      rw [intervalIntegral.integral_sub ((hcontInner s).intervalIntegrable _ _) (by simp)]
      simp
    rw [e]
    have hb : ∀ t ∈ Set.uIoc (0:ℝ) (1 - s), ‖cexp (a + s * β + t * γ) - 1‖ ≤ M := by
      intro t ht
      rw [Set.uIoc_of_le hs0] at ht
      refine (norm_cexp_sub_one_le _).trans ?_
      have h1 : |s * β| ≤ |β| := by
        rw [abs_mul]
        have : |s| ≤ 1 := by rw [abs_of_pos hs.1]; exact hs.2
        nlinarith [abs_nonneg β]
      have h2 : |t * γ| ≤ |γ| := by
        rw [abs_mul]
        have : |t| ≤ 1 := by rw [abs_of_pos ht.1]; linarith [ht.2, hs.1]
        nlinarith [abs_nonneg γ]
      calc |a + s * β + t * γ| ≤ |a + s * β| + |t * γ| := abs_add_le _ _
        _ ≤ |a| + |s * β| + |t * γ| := by linarith [abs_add_le a (s * β)]
        _ ≤ M := by rw [hM]; linarith
    have := intervalIntegral.norm_integral_le_of_norm_le_const hb
    rw [sub_zero, abs_of_nonneg hs0] at this
    nlinarith [hs.1]
  have hcontOuter : Continuous fun s : ℝ => ∫ t in (0:ℝ)..(1 - s), cexp (a + s * β + t * γ) := by
    have hf : Continuous (Function.uncurry fun (s t : ℝ) => cexp (a + s * β + t * γ)) := by
      show Continuous fun p : ℝ × ℝ => cexp (a + p.1 * β + p.2 * γ)
      unfold cexp
      fun_prop
    exact intervalIntegral.continuous_parametric_intervalIntegral_of_continuous hf
      (continuous_const.sub continuous_id)
  have hcontLin : Continuous fun s : ℝ => ((1 - s : ℝ) : ℂ) :=
    Complex.continuous_ofReal.comp (continuous_const.sub continuous_id)
  have e : Jtri a β γ - 1 / 2 =
      ∫ s in (0:ℝ)..1, ((∫ t in (0:ℝ)..(1 - s), cexp (a + s * β + t * γ)) - ((1 - s : ℝ) : ℂ)) := by
    rw [intervalIntegral.integral_sub (hcontOuter.intervalIntegrable _ _)
      (hcontLin.intervalIntegrable _ _), integral_one_sub]
    rfl
  rw [e]
  have := intervalIntegral.norm_integral_le_of_norm_le_const hinner
  simpa using this

theorem dot_sq_le (u v : V3 ℝ) : V3.dot u v * V3.dot u v ≤ V3.dot u u * V3.dot v v := by
  obtain ⟨a, b, c⟩ := u; obtain ⟨x, y, z⟩ := v
  simp only [V3.dot]
  nlinarith [sq_nonneg (a * y - b * x), sq_nonneg (a * z - c * x), sq_nonneg (b * z - c * y)]

theorem norm_eq (u : V3 ℝ) : V3.norm u = Real.sqrt (V3.dot u u) := rfl

/-- Cauchy–Schwarz -/
theorem abs_dot_le (u v : V3 ℝ) : |V3.dot u v| ≤ V3.norm u * V3.norm v := by
  rw [norm_eq, norm_eq, ← Real.sqrt_mul (dot_self_nonneg' u)]
  apply Real.abs_le_sqrt
  rw [sq]; exact dot_sq_le u v
where
  dot_self_nonneg' (u : V3 ℝ) : 0 ≤ V3.dot u u := by
    obtain ⟨x, y, z⟩ := u
    simp only [V3.dot]; nlinarith [mul_self_nonneg x, mul_self_nonneg y, mul_self_nonneg z]

/-- Lipschitz constant of the small-`q` expansion of the fan:
`Σ_T |2·area_T| (|A| + |B − A| + |C − A|)` -/
def trisLip (Ts : List (Tri ℝ)) (n : V3 ℝ) : ℝ :=
  (Ts.map fun T => |tri2 T.a T.b T.c n| *
    (V3.norm T.a + V3.norm (T.b - T.a) + V3.norm (T.c - T.a))).sum

theorem trisFT_sub_le (Ts : List (Tri ℝ)) (n qp : V3 ℝ) :
    ‖trisFT Ts n qp - (((Ts.map fun T => tri2 T.a T.b T.c n).sum / 2 : ℝ) : ℂ)‖ ≤
      V3.norm qp * trisLip Ts n := by
  unfold trisFT trisLip
  induction Ts with
  | nil => simp
  | cons T Ts ih =>
    simp only [List.map_cons, List.sum_cons]
    have hT : ‖(tri2 T.a T.b T.c n : ℂ) * triFT T.a T.b T.c qp - ((tri2 T.a T.b T.c n / 2 : ℝ) : ℂ)‖ ≤
        V3.norm qp * (|tri2 T.a T.b T.c n| * (V3.norm T.a + V3.norm (T.b - T.a) + V3.norm (T.c - T.a))) := by
      have e : (tri2 T.a T.b T.c n : ℂ) * triFT T.a T.b T.c qp - ((tri2 T.a T.b T.c n / 2 : ℝ) : ℂ) =
          (tri2 T.a T.b T.c n : ℂ) * (triFT T.a T.b T.c qp - 1 / 2) := by push_cast; ring
      rw [e, norm_mul, Complex.norm_real, Real.norm_eq_abs, triFT_eq_Jtri]
      have hJ := Jtri_sub_half_le (V3.dot qp T.a) (V3.dot qp T.b - V3.dot qp T.a) (V3.dot qp T.c - V3.dot qp T.a)
      rw [← dot_sub_right, ← dot_sub_right] at hJ ⊢
      have b1 := abs_dot_le qp T.a
      have b2 := abs_dot_le qp (T.b - T.a)
      have b3 := abs_dot_le qp (T.c - T.a)
      have h0 : 0 ≤ |tri2 T.a T.b T.c n| := abs_nonneg _
      calc |tri2 T.a T.b T.c n| * ‖Jtri (V3.dot qp T.a) (V3.dot qp (T.b - T.a)) (V3.dot qp (T.c - T.a)) - 1 / 2‖
          ≤ |tri2 T.a T.b T.c n| * (V3.norm qp * V3.norm T.a + V3.norm qp * V3.norm (T.b - T.a) +
              V3.norm qp * V3.norm (T.c - T.a)) := by
            apply mul_le_mul_of_nonneg_left _ h0
            linarith
        _ = V3.norm qp * (|tri2 T.a T.b T.c n| * (V3.norm T.a + V3.norm (T.b - T.a) + V3.norm (T.c - T.a))) := by
            ring
    have e2 : (tri2 T.a T.b T.c n : ℂ) * triFT T.a T.b T.c qp +
          (Ts.map fun T => (tri2 T.a T.b T.c n : ℂ) * triFT T.a T.b T.c qp).sum -
          (((tri2 T.a T.b T.c n + (Ts.map fun T => tri2 T.a T.b T.c n).sum) / 2 : ℝ) : ℂ) =
        ((tri2 T.a T.b T.c n : ℂ) * triFT T.a T.b T.c qp - ((tri2 T.a T.b T.c n / 2 : ℝ) : ℂ)) +
          ((Ts.map fun T => (tri2 T.a T.b T.c n : ℂ) * triFT T.a T.b T.c qp).sum -
            (((Ts.map fun T => tri2 T.a T.b T.c n).sum / 2 : ℝ) : ℂ)) := by
      push_cast; ring
    rw [e2]
    refine (norm_add_le _ _).trans ?_
    rw [mul_add]
    exact add_le_add hT ih

/-! ### sphere -/

/-- the non-zero branch of the sphere amplitude in Bessel form, `k = |q|` -/
def ballAmp (R k : ℝ) : ℝ := 4 * Real.pi * (Real.sin (k * R) - k * R * Real.cos (k * R)) / (k * k * k)

theorem radial_integrand_eq (k r : ℝ) (hk : k ≠ 0) :
    4 * Real.pi * (r * r) * Real.sinc (k * r) = 4 * Real.pi * r * Real.sin (k * r) / k := by
  by_cases hr : r = 0
  · subst hr; simp
  · rw [Real.sinc_of_ne_zero (mul_ne_zero hk hr)]
    field_simp

theorem hasDerivAt_ballAmp (k r : ℝ) (hk : k ≠ 0) :
    HasDerivAt (fun r : ℝ => ballAmp r k) (4 * Real.pi * r * Real.sin (k * r) / k) r := by
  unfold ballAmp
  have h1 : HasDerivAt (fun r : ℝ => k * r) k r := by simpa using (hasDerivAt_id r).const_mul k
  have hs := h1.sin
  have hc := h1.cos
  have h2 := (hs.sub (h1.mul hc)).const_mul (4 * Real.pi)
  have h3 := h2.div_const (k * k * k)
  refine h3.congr_deriv ?_
  field_simp
  ring

/-- **the sphere's non-zero branch is the radial integral** `∫₀ᴿ 4π r² sinc(k r) dr`
(shell of radius `r` × spherical average `sinc(k r)` of `e^{-i q·r}`) -/
theorem ballAmp_eq_radial (R k : ℝ) (hk : k ≠ 0) :
    (∫ r in (0:ℝ)..R, 4 * Real.pi * (r * r) * Real.sinc (k * r)) = ballAmp R k := by
  simp_rw [radial_integrand_eq k _ hk]
  rw [intervalIntegral.integral_eq_sub_of_hasDerivAt (f := fun r : ℝ => ballAmp r k)
    (fun r _ => hasDerivAt_ballAmp k r hk) (Continuous.intervalIntegrable (by fun_prop) _ _)]
  simp [ballAmp]

theorem volume_eq_radial (R : ℝ) : (∫ r in (0:ℝ)..R, 4 * Real.pi * (r * r)) = 4 / 3 * Real.pi * (R * R * R) := by
  have : ∀ r : ℝ, 4 * Real.pi * (r * r) = 4 * Real.pi * r ^ 2 := fun r => by ring
  simp_rw [this]
  rw [intervalIntegral.integral_const_mul, integral_pow]
  ring

theorem one_sub_sinc_nonneg (x : ℝ) : 0 ≤ 1 - Real.sinc x := by linarith [Real.sinc_le_one x]

theorem one_sub_sinc_le (x : ℝ) : 1 - Real.sinc x ≤ x ^ 2 / 6 := by
  by_cases hx : x = 0
  · subst hx; simp
  · rw [Real.sinc_of_ne_zero hx]
    have h := Real.abs_sub_sin_le x
    have e : 1 - Real.sin x / x = (x - Real.sin x) / x := by field_simp
    rw [e]
    have hxa : 0 < |x| := abs_pos.mpr hx
    have : (x - Real.sin x) / x ≤ |x - Real.sin x| / |x| := by
      rw [← abs_div]; exact le_abs_self _
    refine this.trans ?_
    rw [div_le_iff₀ hxa]
    have e2 : x ^ 2 / 6 * |x| = |x| ^ 3 / 6 := by
      rw [← sq_abs x]; ring
    rw [e2]; exact h

theorem one_sub_sinc_pos {x : ℝ} (hx : x ≠ 0) : 0 < 1 - Real.sinc x := by
  rw [Real.sinc_of_ne_zero hx]
  rcases lt_or_gt_of_ne hx with h | h
  · have h1 : -Real.sin x < -x := by
      have := Real.sin_lt (x := -x) (by linarith)
      rwa [Real.sin_neg] at this
    have : Real.sin x / x < 1 := by
      rw [div_lt_one_of_neg h]; linarith
    linarith
  · have : Real.sin x / x < 1 := by
      rw [div_lt_one h]; exact Real.sin_lt h
    linarith

theorem radial_diff (R k : ℝ) (hk : k ≠ 0) :
    4 / 3 * Real.pi * (R * R * R) - ballAmp R k =
      ∫ r in (0:ℝ)..R, 4 * Real.pi * (r * r) * (1 - Real.sinc (k * r)) := by
  rw [← volume_eq_radial, ← ballAmp_eq_radial R k hk, ← intervalIntegral.integral_sub]
  · congr 1; funext r; ring
  · exact Continuous.intervalIntegrable (by fun_prop) _ _
  · exact Continuous.intervalIntegrable
      ((by fun_prop : Continuous fun r : ℝ => 4 * Real.pi * (r * r)).mul
        (Real.continuous_sinc.comp (by fun_prop))) _ _

theorem continuous_radial_diff (k : ℝ) :
    Continuous fun r : ℝ => 4 * Real.pi * (r * r) * (1 - Real.sinc (k * r)) :=
  (by fun_prop : Continuous fun r : ℝ => 4 * Real.pi * (r * r)).mul
    (continuous_const.sub (Real.continuous_sinc.comp (by fun_prop)))

/-- **the sphere's non-zero branch is strictly below the volume** for every `k ≠ 0`, `R > 0` -/
theorem ballAmp_lt_volume (R k : ℝ) (hR : 0 < R) (hk : k ≠ 0) :
    ballAmp R k < 4 / 3 * Real.pi * (R * R * R) := by
  have h := radial_diff R k hk
  have hpos : 0 < ∫ r in (0:ℝ)..R, 4 * Real.pi * (r * r) * (1 - Real.sinc (k * r)) := by
    apply intervalIntegral.intervalIntegral_pos_of_pos_on ((continuous_radial_diff k).intervalIntegrable _ _) _ hR
    intro r hr
    have hr0 : r ≠ 0 := ne_of_gt hr.1
    have := one_sub_sinc_pos (mul_ne_zero hk hr0)
    have hr2 : 0 < r * r := mul_pos hr.1 hr.1
    exact mul_pos (by positivity) this
  linarith

/-- **window bound of the sphere**: `0 ≤ V − ballAmp ≤ V (kR)²/10` -/
theorem volume_sub_ballAmp_le (R k : ℝ) (hR : 0 ≤ R) (hk : k ≠ 0) :
    4 / 3 * Real.pi * (R * R * R) - ballAmp R k ≤ 4 / 3 * Real.pi * (R * R * R) * ((k * R) ^ 2 / 10) := by
  rw [radial_diff R k hk]
  have hle : (∫ r in (0:ℝ)..R, 4 * Real.pi * (r * r) * (1 - Real.sinc (k * r))) ≤
      ∫ r in (0:ℝ)..R, 4 * Real.pi * (k ^ 2 / 6) * r ^ 4 := by
    apply intervalIntegral.integral_mono_on hR ((continuous_radial_diff k).intervalIntegrable _ _)
      (Continuous.intervalIntegrable (by fun_prop) _ _)
    intro r _
    have h1 := one_sub_sinc_le (k * r)
    have h2 : 0 ≤ 4 * Real.pi * (r * r) := mul_nonneg (by positivity) (mul_self_nonneg r)
    calc 4 * Real.pi * (r * r) * (1 - Real.sinc (k * r)) ≤ 4 * Real.pi * (r * r) * ((k * r) ^ 2 / 6) :=
          mul_le_mul_of_nonneg_left h1 h2
      _ = 4 * Real.pi * (k ^ 2 / 6) * r ^ 4 := by ring
  refine hle.trans (le_of_eq ?_)
  rw [intervalIntegral.integral_const_mul, integral_pow]
  ring

theorem tendsto_ballAmp (R : ℝ) (hR : 0 ≤ R) :
    Filter.Tendsto (fun k : ℝ => ballAmp R k) (nhdsWithin 0 {0}ᶜ) (nhds (4 / 3 * Real.pi * (R * R * R))) := by
  set V := 4 / 3 * Real.pi * (R * R * R) with hV
  have hV0 : 0 ≤ V := by rw [hV]; positivity
  rw [tendsto_iff_norm_sub_tendsto_zero]
  have hb : Filter.Tendsto (fun k : ℝ => V * ((k * R) ^ 2 / 10)) (nhdsWithin 0 {0}ᶜ) (nhds 0) := by
    have : Filter.Tendsto (fun k : ℝ => V * ((k * R) ^ 2 / 10)) (nhds 0) (nhds (V * ((0 * R) ^ 2 / 10))) :=
      Continuous.tendsto (by fun_prop) 0
    simp only [zero_mul, ne_eq, OfNat.ofNat_ne_zero, not_false_eq_true, zero_pow, zero_div, mul_zero] at this
    exact this.mono_left nhdsWithin_le_nhds
  refine squeeze_zero' (Filter.Eventually.of_forall fun _ => norm_nonneg _) ?_ hb
  filter_upwards [self_mem_nhdsWithin] with k hk
  have hk' : k ≠ 0 := hk
  have h1 := volume_sub_ballAmp_le R k hR hk'
  have h2 : 0 ≤ V - ballAmp R k := by
    rw [hV, radial_diff R k hk']
    apply intervalIntegral.integral_nonneg hR
    intro r _
    have := one_sub_sinc_nonneg (k * r)
    exact mul_nonneg (mul_nonneg (by positivity) (mul_self_nonneg r)) this
  rw [Real.norm_eq_abs, abs_sub_comm, abs_of_nonneg h2]
  exact h1

end
end FF
