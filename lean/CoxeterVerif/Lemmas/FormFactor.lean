import CoxeterVerif.Lemmas.Basic
import CoxeterVerif.Model.FormFactor
import CoxeterVerif.Spec.FormFactor
import Mathlib.Data.List.Rotate
import Mathlib.Algebra.BigOperators.Group.List.Basic
/-! Helper lemmas for C12 (form factor amplitude): complex pairs at ℝ, sinc, cyclic list sums. -/
open Scalar

namespace Cx

@[ext] theorem ext' {z w : Cx ℝ} (hr : z.re = w.re) (hi : z.im = w.im) : z = w := by
  cases z; cases w; simp_all

@[simp] theorem zero_re : (zero : Cx ℝ).re = 0 := by simp [zero]
@[simp] theorem zero_im : (zero : Cx ℝ).im = 0 := by simp [zero]
@[simp] theorem I_re : (I : Cx ℝ).re = 0 := by simp [I]
@[simp] theorem I_im : (I : Cx ℝ).im = 1 := by simp [I]
@[simp] theorem ofReal_re (x : ℝ) : (ofReal x).re = x := rfl
@[simp] theorem ofReal_im (x : ℝ) : (ofReal x).im = 0 := by simp [ofReal]
@[simp] theorem add_re (z w : Cx ℝ) : (add z w).re = z.re + w.re := rfl
@[simp] theorem add_im (z w : Cx ℝ) : (add z w).im = z.im + w.im := rfl
@[simp] theorem neg_re (z : Cx ℝ) : (neg z).re = -z.re := rfl
@[simp] theorem neg_im (z : Cx ℝ) : (neg z).im = -z.im := rfl
@[simp] theorem conj_re (z : Cx ℝ) : (conj z).re = z.re := rfl
@[simp] theorem conj_im (z : Cx ℝ) : (conj z).im = -z.im := rfl
@[simp] theorem mul_re (z w : Cx ℝ) : (mul z w).re = z.re * w.re - z.im * w.im := rfl
@[simp] theorem mul_im (z w : Cx ℝ) : (mul z w).im = z.re * w.im + z.im * w.re := rfl
@[simp] theorem smul_re (k : ℝ) (z : Cx ℝ) : (smul k z).re = k * z.re := rfl
@[simp] theorem smul_im (k : ℝ) (z : Cx ℝ) : (smul k z).im = k * z.im := rfl
@[simp] theorem sdiv_re (k : ℝ) (z : Cx ℝ) : (sdiv z k).re = z.re / k := rfl
@[simp] theorem sdiv_im (k : ℝ) (z : Cx ℝ) : (sdiv z k).im = z.im / k := rfl
@[simp] theorem expNegI_re (x : ℝ) : (expNegI x).re = Real.cos x := rfl
@[simp] theorem expNegI_im (x : ℝ) : (expNegI x).im = -Real.sin x := rfl

theorem sum_re (l : List (Cx ℝ)) : (sum l).re = (l.map (·.re)).sum := by
  induction l with
  | nil => simp [sum]
  | cons a l ih => simp only [sum, List.foldr_cons, add_re, List.map_cons, List.sum_cons] at ih ⊢; rw [ih]
theorem sum_im (l : List (Cx ℝ)) : (sum l).im = (l.map (·.im)).sum := by
  induction l with
  | nil => simp [sum]
  | cons a l ih => simp only [sum, List.foldr_cons, add_im, List.map_cons, List.sum_cons] at ih ⊢; rw [ih]

@[simp] theorem sum_nil : sum ([] : List (Cx ℝ)) = zero := rfl
@[simp] theorem sum_cons (a : Cx ℝ) (l : List (Cx ℝ)) : sum (a :: l) = add a (sum l) := rfl

/-- `Σ conj (f x) = conj (Σ f x)` -/
theorem sum_map_conj {β : Type} (f : β → Cx ℝ) (l : List β) :
    sum (l.map fun x => conj (f x)) = conj (sum (l.map f)) := by
  induction l with
  | nil => ext <;> simp
  | cons a l ih => simp only [List.map_cons, sum_cons, ih]; ext <;> simp; ring

/-- `Σ (f x · c) = (Σ f x) · c` -/
theorem sum_map_mul_right {β : Type} (f : β → Cx ℝ) (c : Cx ℝ) (l : List β) :
    sum (l.map fun x => mul (f x) c) = mul (sum (l.map f)) c := by
  induction l with
  | nil => ext <;> simp
  | cons a l ih => simp only [List.map_cons, sum_cons, ih]; ext <;> simp <;> ring

/-- `Σ (k • f x) = k • Σ f x` -/
theorem sum_map_smul {β : Type} (f : β → Cx ℝ) (k : ℝ) (l : List β) :
    sum (l.map fun x => smul k (f x)) = smul k (sum (l.map f)) := by
  induction l with
  | nil => ext <;> simp
  | cons a l ih => simp only [List.map_cons, sum_cons, ih]; ext <;> simp <;> ring

theorem sum_map_neg {β : Type} (f : β → Cx ℝ) (l : List β) :
    sum (l.map fun x => neg (f x)) = neg (sum (l.map f)) := by
  induction l with
  | nil => ext <;> simp
  | cons a l ih => simp only [List.map_cons, sum_cons, ih]; ext <;> simp <;> ring

theorem sum_perm {l l' : List (Cx ℝ)} (h : l.Perm l') : sum l = sum l' := by
  ext
  · rw [sum_re, sum_re]; exact (h.map _).sum_eq
  · rw [sum_im, sum_im]; exact (h.map _).sum_eq

theorem sum_append (l l' : List (Cx ℝ)) : sum (l ++ l') = add (sum l) (sum l') := by
  ext <;> simp [sum_re, sum_im]

end Cx

namespace FF

/-! ### scalar helpers -/

@[simp] theorem eqb_real (a b : ℝ) : Scalar.eqb a b = decide (a = b) := rfl

theorem npSinc_neg (x : ℝ) : npSinc (-x) = npSinc x := by
  unfold npSinc
  simp only [eqb_real, Scalar.lit, Scalar.ofNat_real, Nat.cast_zero, Nat.cast_one, decide_eq_true_eq,
    neg_eq_zero, Scalar.sin_real, Scalar.pi_real]
  split_ifs
  · rfl
  · rw [mul_neg, Real.sin_neg, neg_div_neg_eq]

theorem npSinc_zero : npSinc (0 : ℝ) = 1 := by
  simp [npSinc]

theorem npSinc_of_ne {x : ℝ} (h : x ≠ 0) : npSinc x = Real.sin (Real.pi * x) / (Real.pi * x) := by
  simp [npSinc, h]

theorem sign_neg (x : ℝ) : sign (-x) = -sign x := by
  unfold sign
  simp only [Scalar.lit, Scalar.ofNat_real, Nat.cast_zero, Nat.cast_one]
  rcases lt_trichotomy x 0 with h | h | h
  · have h1 : ¬ (-x < 0) := by linarith
    have h2 : (0:ℝ) < -x := by linarith
    simp [h, h1, h2]
  · subst h; simp
  · have h1 : (-x < 0) := by linarith
    have h2 : ¬ (x < 0) := by linarith
    simp [h, h1, h2]

theorem sign_mul_self_abs (x : ℝ) : sign x * sign x * |x| = |x| := by
  unfold sign
  simp only [Scalar.lit, Scalar.ofNat_real, Nat.cast_zero, Nat.cast_one]
  rcases lt_trichotomy x 0 with h | h | h
  · simp [h]
  · subst h; simp
  · have h2 : ¬ (x < 0) := by linarith
    simp [h, h2]

/-! ### vectors -/

theorem project_neg (n q : V3 ℝ) : project n (-q) = -(project n q) := by
  obtain ⟨nx, ny, nz⟩ := n; obtain ⟨qx, qy, qz⟩ := q
  unfold project
  ext <;> simp [V3.dot] <;> ring

theorem dot_neg_neg (u : V3 ℝ) : V3.dot (-u) (-u) = V3.dot u u := by
  obtain ⟨x, y, z⟩ := u
  simp [V3.dot]

theorem dot_neg_left (u v : V3 ℝ) : V3.dot (-u) v = -V3.dot u v := by
  obtain ⟨x, y, z⟩ := u; obtain ⟨a, b, c⟩ := v
  simp [V3.dot]; ring

theorem dot_neg_right (u v : V3 ℝ) : V3.dot u (-v) = -V3.dot u v := by
  obtain ⟨x, y, z⟩ := u; obtain ⟨a, b, c⟩ := v
  simp [V3.dot]; ring

/-! ### the edge term in closed form -/

/-- real amplitude of an edge term -/
noncomputable def edgeAmp (n qp : V3 ℝ) (qsq : ℝ) (vw : V3 ℝ × V3 ℝ) : ℝ :=
  V3.dot (V3.cross (vw.2 - vw.1) qp) n * npSinc (1 / 2 * V3.dot (vw.2 - vw.1) qp / Real.pi) / qsq

/-- phase of an edge term: midpoint · q -/
noncomputable def edgePhase (qp : V3 ℝ) (vw : V3 ℝ × V3 ℝ) : ℝ :=
  V3.dot (V3.sdiv (vw.1 + vw.2) 2) qp

theorem edgeTerm_eq (n qp : V3 ℝ) (qsq : ℝ) (vw : V3 ℝ × V3 ℝ) :
    edgeTerm n qp qsq vw =
      ⟨edgeAmp n qp qsq vw * Real.sin (edgePhase qp vw), edgeAmp n qp qsq vw * Real.cos (edgePhase qp vw)⟩ := by
  unfold edgeTerm edgeAmp edgePhase
  ext <;> simp [Scalar.q, Scalar.lit]

theorem edgeAmp_neg (n qp : V3 ℝ) (qsq : ℝ) (vw : V3 ℝ × V3 ℝ) :
    edgeAmp n (-qp) qsq vw = -edgeAmp n qp qsq vw := by
  unfold edgeAmp
  have h1 : V3.cross (vw.2 - vw.1) (-qp) = -(V3.cross (vw.2 - vw.1) qp) := by
    obtain ⟨x, y, z⟩ := qp
    ext <;> simp [V3.cross] <;> ring
  rw [h1, dot_neg_left, dot_neg_right]
  have h2 : 1 / 2 * -V3.dot (vw.2 - vw.1) qp / Real.pi = -(1 / 2 * V3.dot (vw.2 - vw.1) qp / Real.pi) := by ring
  rw [h2, npSinc_neg]; ring

theorem edgePhase_neg (qp : V3 ℝ) (vw : V3 ℝ × V3 ℝ) : edgePhase (-qp) vw = -edgePhase qp vw := by
  unfold edgePhase; rw [dot_neg_right]

theorem edgeTerm_neg (n qp : V3 ℝ) (qsq : ℝ) (vw : V3 ℝ × V3 ℝ) :
    edgeTerm n (-qp) qsq vw = Cx.conj (edgeTerm n qp qsq vw) := by
  rw [edgeTerm_eq, edgeTerm_eq, edgeAmp_neg, edgePhase_neg]
  ext <;> simp

end FF

/-! ### cyclic lists: `roll1`, reversal, rotation -/
namespace FF

theorem roll1_eq_rotate {β : Type} (l : List β) : roll1 l = l.rotate 1 := by
  cases l with
  | nil => rfl
  | cons a l => simp [roll1, List.rotate_cons_succ]

theorem roll1_map {β γ : Type} (f : β → γ) (l : List β) : roll1 (l.map f) = (roll1 l).map f := by
  cases l <;> simp [roll1]

theorem edgesOf_map (f : V3 ℝ → V3 ℝ) (vs : List (V3 ℝ)) :
    edgesOf (vs.map f) = (edgesOf vs).map (Prod.map f f) := by
  unfold edgesOf; rw [roll1_map, List.zip_map]

/-- zipping co-rotated lists of equal length is a permutation of the zip -/
theorem zip_rotate_perm {β γ : Type} (A : List β) (B : List γ) (h : A.length = B.length) (k : ℕ) :
    (List.zip (A.rotate k) (B.rotate k)).Perm (List.zip A B) := by
  rw [List.zip_eq_zipWith, List.zip_eq_zipWith, ← List.zipWith_rotate_distrib Prod.mk A B k h]
  exact List.rotate_perm _ k

theorem zip_reverse {β γ : Type} (A : List β) (B : List γ) (h : A.length = B.length) :
    List.zip A.reverse B.reverse = (List.zip A B).reverse := by
  rw [List.zip_eq_zipWith, List.zip_eq_zipWith, List.reverse_zipWith h]

theorem rotate_reverse_of_lt {β : Type} (l : List β) (k : ℕ) (hk : k < l.length) :
    l.reverse.rotate k = (l.rotate (l.length - k)).reverse := by
  rw [List.rotate_reverse, Nat.mod_eq_of_lt hk]

theorem rotate_sub_add {β : Type} (l : List β) (k : ℕ) (hk : k ≤ l.length) :
    (l.rotate (l.length - k)).rotate k = l := by
  rw [List.rotate_rotate, Nat.sub_add_cancel hk, List.rotate_length]

/-- the directed edges of the reversed vertex list are the reversed edges, up to order -/
theorem edges_reverse_perm {β : Type} (l : List β) :
    (List.zip l.reverse (l.reverse.rotate 1)).Perm ((List.zip l (l.rotate 1)).map Prod.swap) := by
  rcases l with _ | ⟨a, _ | ⟨b, l⟩⟩
  · simp
  · simp
  · set L := a :: b :: l with hL
    have hlen : 1 < L.length := by simp [hL]
    rw [rotate_reverse_of_lt L 1 hlen, zip_reverse L _ (by simp), List.zip_swap]
    refine (List.reverse_perm _).trans ?_
    have := zip_rotate_perm L (L.rotate (L.length - 1)) (by simp) 1
    rw [rotate_sub_add L 1 hlen.le] at this
    exact this.symm

/-- the consecutive triples of the reversed list, arranged as the model's `signed_area` zips them -/
theorem triples_reverse_perm {β : Type} (l : List β) (h : 2 < l.length) :
    (List.zip (l.reverse.rotate 1) (List.zip (l.reverse.rotate 2) l.reverse)).Perm
      (List.zip (l.rotate 1) (List.zip l (l.rotate 2))) := by
  rw [rotate_reverse_of_lt l 1 (by omega), rotate_reverse_of_lt l 2 h,
    zip_reverse _ l (by simp), zip_reverse _ _ (by simp)]
  refine (List.reverse_perm _).trans ?_
  have h1 := zip_rotate_perm (l.rotate (l.length - 1)) (List.zip (l.rotate (l.length - 2)) l) (by simp) 2
  refine h1.symm.trans ?_
  have e1 : (l.rotate (l.length - 1)).rotate 2 = l.rotate 1 := by
    rw [List.rotate_rotate, ← List.rotate_mod]
    congr 1
    have : l.length - 1 + 2 = 1 + l.length := by omega
    rw [this, Nat.add_mod_right, Nat.mod_eq_of_lt (by omega)]
  have e2 : (List.zip (l.rotate (l.length - 2)) l).rotate 2 = List.zip l (l.rotate 2) := by
    rw [List.zip_eq_zipWith, List.zipWith_rotate_distrib Prod.mk _ _ 2 (by simp), rotate_sub_add l 2 h.le,
      ← List.zip_eq_zipWith]
  rw [e1, e2]

end FF

/-! ### the shoelace sum of `Polygon.signed_area` -/
namespace FF

theorem sum_map_add' {β : Type} (f g : β → ℝ) (l : List β) :
    (l.map fun x => f x + g x).sum = (l.map f).sum + (l.map g).sum := by
  induction l with
  | nil => simp
  | cons a l ih => simp only [List.map_cons, List.sum_cons, ih]; ring

theorem sum_map_sub' {β : Type} (f g : β → ℝ) (l : List β) :
    (l.map fun x => f x - g x).sum = (l.map f).sum - (l.map g).sum := by
  induction l with
  | nil => simp
  | cons a l ih => simp only [List.map_cons, List.sum_cons, ih]; ring

theorem sum_map_neg' {β : Type} (f : β → ℝ) (l : List β) :
    (l.map fun x => -f x).sum = -(l.map f).sum := by
  induction l with
  | nil => simp
  | cons a l ih => simp only [List.map_cons, List.sum_cons, ih]; ring

theorem sum_map_mul' {β : Type} (c : ℝ) (f : β → ℝ) (l : List β) :
    (l.map fun x => c * f x).sum = c * (l.map f).sum := by
  induction l with
  | nil => simp
  | cons a l ih => simp only [List.map_cons, List.sum_cons, ih]; ring

theorem get_add (u v : V3 ℝ) (i : Nat) : (u + v).get i = u.get i + v.get i := by
  unfold V3.get; split_ifs <;> simp

/-- `Σ_i v_{i+1}[c1] · (v_{i+2}[c2] − v_i[c2])` (cyclic) -/
noncomputable def saSum (c1 c2 : Nat) (vs : List (V3 ℝ)) : ℝ :=
  ((List.zip (vs.rotate 1) (List.zip (vs.rotate 2) vs)).map
    fun t => t.1.get c1 * (t.2.1.get c2 - t.2.2.get c2)).sum

theorem signedArea_eq (vs : List (V3 ℝ)) (n : V3 ℝ) :
    signedArea vs n =
      saSum ((argmaxAbs n + 1) % 3) ((argmaxAbs n + 2) % 3) vs *
        (V3.norm ⟨|n.x|, |n.y|, |n.z|⟩ / (2 * n.get (argmaxAbs n))) := by
  unfold signedArea saSum
  simp only [Scalar.sum_real, roll1_eq_rotate, List.rotate_rotate, Scalar.abs_real, Scalar.lit,
    Scalar.ofNat_real, Nat.cast_ofNat]
  congr 2
  rw [← List.map_uncurry_zip_eq_zipWith]
  rfl

theorem saSum_small (c1 c2 : Nat) (vs : List (V3 ℝ)) (h : vs.length ≤ 2) : saSum c1 c2 vs = 0 := by
  rcases vs with _ | ⟨a, _ | ⟨b, _ | ⟨c, l⟩⟩⟩
  · simp [saSum]
  · simp [saSum]
  · simp [saSum, List.rotate_cons_succ]
  · simp at h

theorem saSum_reverse (c1 c2 : Nat) (vs : List (V3 ℝ)) :
    saSum c1 c2 vs.reverse = -saSum c1 c2 vs := by
  by_cases h : vs.length ≤ 2
  · rw [saSum_small c1 c2 vs h, saSum_small c1 c2 vs.reverse (by simpa using h)]; simp
  · have hp := triples_reverse_perm vs (by omega)
    unfold saSum
    rw [(hp.map _).sum_eq, ← sum_map_neg']
    have : List.zip (vs.rotate 1) (List.zip vs (vs.rotate 2)) =
        (List.zip (vs.rotate 1) (List.zip (vs.rotate 2) vs)).map (Prod.map id Prod.swap) := by
      rw [← List.zip_swap (vs.rotate 2) vs]
      conv_rhs => rw [← List.zip_map, List.map_id]
    rw [this, List.map_map]
    congr 1
    apply List.map_congr_left
    intro t _
    simp only [Function.comp_apply, Prod.map, id, Prod.swap]
    ring

theorem saSum_translate (c1 c2 : Nat) (vs : List (V3 ℝ)) (t : V3 ℝ) :
    saSum c1 c2 (vs.map (· + t)) = saSum c1 c2 vs := by
  unfold saSum
  rw [← List.map_rotate, ← List.map_rotate, List.zip_map, List.zip_map, List.map_map]
  have hfun : ((fun s : V3 ℝ × V3 ℝ × V3 ℝ => s.1.get c1 * (s.2.1.get c2 - s.2.2.get c2)) ∘
        Prod.map (· + t) (Prod.map (· + t) (· + t))) =
      fun s => s.1.get c1 * (s.2.1.get c2 - s.2.2.get c2) + t.get c1 * (s.2.1.get c2 - s.2.2.get c2) := by
    funext s; simp only [Function.comp_apply, Prod.map, get_add]; ring
  rw [hfun, sum_map_add', sum_map_mul']
  have hz : ((List.zip (vs.rotate 1) (List.zip (vs.rotate 2) vs)).map
      fun s => s.2.1.get c2 - s.2.2.get c2).sum = 0 := by
    have e1 : ((List.zip (vs.rotate 1) (List.zip (vs.rotate 2) vs)).map
        fun s => s.2.1.get c2 - s.2.2.get c2) =
        ((List.zip (vs.rotate 2) vs).map fun s => s.1.get c2 - s.2.get c2) := by
      have := List.map_snd_zip (l₁ := vs.rotate 1) (l₂ := List.zip (vs.rotate 2) vs) (by simp)
      conv_rhs => rw [← this, List.map_map]
      rfl
    rw [e1, sum_map_sub']
    have e2 : ((List.zip (vs.rotate 2) vs).map fun s => s.1.get c2) = (vs.rotate 2).map (·.get c2) := by
      have := List.map_fst_zip (l₁ := vs.rotate 2) (l₂ := vs) (by simp)
      conv_rhs => rw [← this, List.map_map]
      rfl
    have e3 : ((List.zip (vs.rotate 2) vs).map fun s => s.2.get c2) = vs.map (·.get c2) := by
      have := List.map_snd_zip (l₁ := vs.rotate 2) (l₂ := vs) (by simp)
      conv_rhs => rw [← this, List.map_map]
      rfl
    rw [e2, e3, ((List.rotate_perm vs 2).map _).sum_eq]; ring
  rw [hz]; ring

theorem signedArea_reverse (vs : List (V3 ℝ)) (n : V3 ℝ) :
    signedArea vs.reverse n = -signedArea vs n := by
  rw [signedArea_eq, signedArea_eq, saSum_reverse]; ring

theorem signedArea_translate (vs : List (V3 ℝ)) (n t : V3 ℝ) :
    signedArea (vs.map (· + t)) n = signedArea vs n := by
  rw [signedArea_eq, signedArea_eq, saSum_translate]

theorem polygonArea_reverse (vs : List (V3 ℝ)) (n : V3 ℝ) :
    polygonArea vs.reverse n = polygonArea vs n := by
  unfold polygonArea; rw [signedArea_reverse]; simp

theorem polygonArea_translate (vs : List (V3 ℝ)) (n t : V3 ℝ) :
    polygonArea (vs.map (· + t)) n = polygonArea vs n := by
  unfold polygonArea; rw [signedArea_translate]

end FF

/-! ### polygon: conjugation, reversal, translation, density -/
namespace FF

theorem polygonNonzero_neg (vs : List (V3 ℝ)) (n qp : V3 ℝ) :
    polygonNonzero vs n (-qp) = Cx.conj (polygonNonzero vs n qp) := by
  unfold polygonNonzero
  rw [dot_neg_neg]
  have : (edgesOf vs).map (edgeTerm n (-qp) (V3.dot qp qp)) =
      (edgesOf vs).map fun vw => Cx.conj (edgeTerm n qp (V3.dot qp qp) vw) :=
    List.map_congr_left fun vw _ => edgeTerm_neg n qp _ vw
  rw [this, Cx.sum_map_conj]
  ext <;> simp

theorem polygonFF_neg (vs : List (V3 ℝ)) (n qv : V3 ℝ) (rho : ℝ) :
    polygonFF vs n (-qv) rho = Cx.conj (polygonFF vs n qv rho) := by
  unfold polygonFF
  simp only [project_neg, dot_neg_neg]
  split_ifs
  · ext <;> simp
  · rw [polygonNonzero_neg]; ext <;> simp

theorem edgeAmp_swap (n qp : V3 ℝ) (qsq : ℝ) (vw : V3 ℝ × V3 ℝ) :
    edgeAmp n qp qsq vw.swap = -edgeAmp n qp qsq vw := by
  obtain ⟨v, w⟩ := vw
  unfold edgeAmp
  simp only [Prod.swap]
  have h1 : v - w = -(w - v) := by ext <;> simp
  rw [h1]
  have h2 : V3.cross (-(w - v)) qp = -(V3.cross (w - v) qp) := by
    obtain ⟨x, y, z⟩ := qp
    ext <;> simp [V3.cross] <;> ring
  rw [h2, dot_neg_left, dot_neg_left]
  have h3 : 1 / 2 * -V3.dot (w - v) qp / Real.pi = -(1 / 2 * V3.dot (w - v) qp / Real.pi) := by ring
  rw [h3, npSinc_neg]; ring

theorem edgePhase_swap (qp : V3 ℝ) (vw : V3 ℝ × V3 ℝ) : edgePhase qp vw.swap = edgePhase qp vw := by
  obtain ⟨v, w⟩ := vw
  unfold edgePhase
  simp only [Prod.swap]
  have : w + v = v + w := by ext <;> simp <;> ring
  rw [this]

theorem edgeTerm_swap (n qp : V3 ℝ) (qsq : ℝ) (vw : V3 ℝ × V3 ℝ) :
    edgeTerm n qp qsq vw.swap = Cx.neg (edgeTerm n qp qsq vw) := by
  rw [edgeTerm_eq, edgeTerm_eq, edgeAmp_swap, edgePhase_swap]
  ext <;> simp

theorem edgesOf_reverse_perm (vs : List (V3 ℝ)) :
    (edgesOf vs.reverse).Perm ((edgesOf vs).map Prod.swap) := by
  unfold edgesOf
  rw [roll1_eq_rotate, roll1_eq_rotate]
  exact edges_reverse_perm vs

theorem polygonNonzero_reverse (vs : List (V3 ℝ)) (n qp : V3 ℝ) :
    polygonNonzero vs.reverse n qp = polygonNonzero vs n qp := by
  unfold polygonNonzero
  rw [Cx.sum_perm ((edgesOf_reverse_perm vs).map _), List.map_map, signedArea_reverse, sign_neg]
  have : (edgeTerm n qp (V3.dot qp qp) ∘ Prod.swap) = fun vw => Cx.neg (edgeTerm n qp (V3.dot qp qp) vw) := by
    funext vw; exact edgeTerm_swap n qp _ vw
  rw [this, Cx.sum_map_neg]
  ext <;> simp

theorem polygonFF_reverse (vs : List (V3 ℝ)) (n qv : V3 ℝ) (rho : ℝ) :
    polygonFF vs.reverse n qv rho = polygonFF vs n qv rho := by
  unfold polygonFF
  simp only [polygonNonzero_reverse, polygonArea_reverse]

theorem edgeAmp_translate (n qp t : V3 ℝ) (qsq : ℝ) (vw : V3 ℝ × V3 ℝ) :
    edgeAmp n qp qsq (Prod.map (· + t) (· + t) vw) = edgeAmp n qp qsq vw := by
  obtain ⟨v, w⟩ := vw
  unfold edgeAmp
  simp only [Prod.map]
  have : w + t - (v + t) = w - v := by ext <;> simp
  rw [this]

theorem edgePhase_translate (qp t : V3 ℝ) (vw : V3 ℝ × V3 ℝ) :
    edgePhase qp (Prod.map (· + t) (· + t) vw) = edgePhase qp vw + V3.dot t qp := by
  obtain ⟨⟨vx, vy, vz⟩, ⟨wx, wy, wz⟩⟩ := vw
  obtain ⟨tx, ty, tz⟩ := t
  obtain ⟨x, y, z⟩ := qp
  unfold edgePhase
  simp [V3.dot, Prod.map]; ring

theorem edgeTerm_translate (n qp t : V3 ℝ) (qsq : ℝ) (vw : V3 ℝ × V3 ℝ) :
    edgeTerm n qp qsq (Prod.map (· + t) (· + t) vw) =
      Cx.mul (edgeTerm n qp qsq vw) (Cx.expNegI (V3.dot t qp)) := by
  rw [edgeTerm_eq, edgeTerm_eq, edgeAmp_translate, edgePhase_translate, Real.sin_add, Real.cos_add]
  ext <;> simp <;> ring

theorem polygonNonzero_translate (vs : List (V3 ℝ)) (n qp t : V3 ℝ) :
    polygonNonzero (vs.map (· + t)) n qp =
      Cx.mul (polygonNonzero vs n qp) (Cx.expNegI (V3.dot t qp)) := by
  unfold polygonNonzero
  rw [edgesOf_map, List.map_map, signedArea_translate]
  have : (edgeTerm n qp (V3.dot qp qp) ∘ Prod.map (· + t) (· + t)) =
      fun vw => Cx.mul (edgeTerm n qp (V3.dot qp qp) vw) (Cx.expNegI (V3.dot t qp)) := by
    funext vw; exact edgeTerm_translate n qp t _ vw
  rw [this, Cx.sum_map_mul_right]
  ext <;> simp <;> ring

theorem polygonFF_translate (vs : List (V3 ℝ)) (n qv t : V3 ℝ) (rho : ℝ)
    (h : isCloseZero (V3.dot (project n qv) (project n qv)) = false ∨ V3.dot t (project n qv) = 0) :
    polygonFF (vs.map (· + t)) n qv rho =
      Cx.mul (polygonFF vs n qv rho) (Cx.expNegI (V3.dot t (project n qv))) := by
  unfold polygonFF
  simp only [polygonArea_translate]
  by_cases hz : isCloseZero (V3.dot (project n qv) (project n qv)) = true
  · have h0 : V3.dot t (project n qv) = 0 := by
      rcases h with h | h
      · rw [hz] at h; cases h
      · exact h
    simp only [hz, if_true, h0]
    ext <;> simp
  · simp only [hz, if_false, Bool.false_eq_true, polygonNonzero_translate]
    ext <;> simp <;> ring

theorem polygonFF_density (vs : List (V3 ℝ)) (n qv : V3 ℝ) (rho : ℝ) :
    polygonFF vs n qv rho = Cx.smul rho (polygonFF vs n qv 1) := by
  unfold polygonFF
  ext <;> simp

end FF

/-! ### polyhedron -/
namespace FF

theorem expNegI_add (a b : ℝ) : Cx.expNegI (a + b) = Cx.mul (Cx.expNegI a) (Cx.expNegI b) := by
  ext <;> simp [Real.cos_add, Real.sin_add]

theorem expNegI_zero : Cx.expNegI (0 : ℝ) = ⟨1, 0⟩ := by
  ext <;> simp

theorem faceTerm_neg (qv : V3 ℝ) (qsq : ℝ) (f : Face ℝ) :
    faceTerm (-qv) qsq f = Cx.conj (faceTerm qv qsq f) := by
  unfold faceTerm
  simp only [polygonFF_neg, dot_neg_left]
  ext <;> simp <;> ring

theorem polyhedronNonzero_neg (faces : List (Face ℝ)) (qv : V3 ℝ) :
    polyhedronNonzero faces (-qv) = Cx.conj (polyhedronNonzero faces qv) := by
  unfold polyhedronNonzero
  rw [dot_neg_neg]
  have : faces.map (faceTerm (-qv) (V3.dot qv qv)) =
      faces.map fun f => Cx.conj (faceTerm qv (V3.dot qv qv) f) :=
    List.map_congr_left fun f _ => faceTerm_neg qv _ f
  rw [this, Cx.sum_map_conj]

theorem polyhedronFF_neg (faces : List (Face ℝ)) (vol : ℝ) (qv : V3 ℝ) (rho : ℝ) :
    polyhedronFF faces vol (-qv) rho = Cx.conj (polyhedronFF faces vol qv rho) := by
  unfold polyhedronFF
  simp only [dot_neg_neg]
  split_ifs
  · ext <;> simp
  · rw [polyhedronNonzero_neg]; ext <;> simp

/-- the face of the translated solid: same normal, `eqn[3] = -n·(v0 + t)` -/
noncomputable def Face.translate (t : V3 ℝ) (f : Face ℝ) : Face ℝ :=
  ⟨f.verts.map (· + t), f.normal, f.off - V3.dot f.normal t⟩

theorem sdiv_one (u : V3 ℝ) : V3.sdiv u 1 = u := by ext <;> simp

theorem dot_project_add (n qv t : V3 ℝ) :
    V3.dot t (project n qv) + V3.dot qv n * V3.dot n t = V3.dot t qv := by
  obtain ⟨nx, ny, nz⟩ := n; obtain ⟨qx, qy, qz⟩ := qv; obtain ⟨tx, ty, tz⟩ := t
  simp [project, V3.dot]; ring

theorem faceTerm_translate (qv t : V3 ℝ) (qsq : ℝ) (f : Face ℝ) (hunit : V3.norm f.normal = 1)
    (h : isCloseZero (V3.dot (project f.normal qv) (project f.normal qv)) = false ∨
      V3.dot t (project f.normal qv) = 0) :
    faceTerm qv qsq (Face.translate t f) = Cx.mul (faceTerm qv qsq f) (Cx.expNegI (V3.dot t qv)) := by
  unfold faceTerm Face.translate
  simp only [hunit, sdiv_one]
  rw [polygonFF_translate f.verts f.normal qv t _ h, ← dot_project_add f.normal qv t, expNegI_add]
  have : V3.dot qv f.normal * -(f.off - V3.dot f.normal t) =
      V3.dot qv f.normal * -f.off + V3.dot qv f.normal * V3.dot f.normal t := by ring
  rw [this, expNegI_add]
  ext <;> simp <;> ring

theorem polyhedronNonzero_translate (faces : List (Face ℝ)) (qv t : V3 ℝ)
    (hunit : ∀ f ∈ faces, V3.norm f.normal = 1)
    (h : ∀ f ∈ faces, isCloseZero (V3.dot (project f.normal qv) (project f.normal qv)) = false ∨
      V3.dot t (project f.normal qv) = 0) :
    polyhedronNonzero (faces.map (Face.translate t)) qv =
      Cx.mul (polyhedronNonzero faces qv) (Cx.expNegI (V3.dot t qv)) := by
  unfold polyhedronNonzero
  rw [List.map_map, ← Cx.sum_map_mul_right]
  congr 1
  apply List.map_congr_left
  intro f hf
  exact faceTerm_translate qv t _ f (hunit f hf) (h f hf)

theorem polyhedronFF_density (faces : List (Face ℝ)) (vol : ℝ) (qv : V3 ℝ) (rho : ℝ) :
    polyhedronFF faces vol qv rho = Cx.smul rho (polyhedronFF faces vol qv 1) := by
  unfold polyhedronFF
  ext <;> simp

/-! ### sphere -/

theorem sphereFF_neg (r : ℝ) (c qv : V3 ℝ) (rho : ℝ) :
    sphereFF r c (-qv) rho = Cx.conj (sphereFF r c qv rho) := by
  unfold sphereFF
  simp only [dot_neg_neg]
  rw [dot_neg_left]
  ext <;> simp

theorem dot_add_right (u v w : V3 ℝ) : V3.dot u (v + w) = V3.dot u v + V3.dot u w := by
  obtain ⟨x, y, z⟩ := u; obtain ⟨a, b, c⟩ := v; obtain ⟨d, e, f⟩ := w
  simp [V3.dot]; ring

theorem sphereFF_translate (r : ℝ) (c qv t : V3 ℝ) (rho : ℝ) :
    sphereFF r (c + t) qv rho = Cx.mul (sphereFF r c qv rho) (Cx.expNegI (V3.dot qv t)) := by
  unfold sphereFF
  simp only [dot_add_right, expNegI_add]
  ext <;> simp <;> split_ifs <;> ring

theorem sphereFF_density (r : ℝ) (c qv : V3 ℝ) (rho : ℝ) :
    sphereFF r c qv rho = Cx.smul rho (sphereFF r c qv 1) := by
  unfold sphereFF
  ext <;> simp <;> split_ifs <;> ring

/-! ### batches: the masked NumPy computation is the map of the single-vector function -/

theorem scatter_selectNot {β γ : Type} (z : γ) (p : β → Bool) (g : β → γ) (xs : List β) :
    scatter z (xs.map p) ((selectNot (xs.map p) xs).map g) = xs.map fun x => if p x then z else g x := by
  induction xs with
  | nil => rfl
  | cons x xs ih =>
    by_cases hp : p x = true
    · simp [scatter, selectNot, hp, ih]
    · simp only [Bool.not_eq_true] at hp
      simp [scatter, selectNot, hp, ih]

end FF

/-! ### the model's edge sum is the boundary (Green) form of the specification -/
namespace FF

theorem cyclicPairs_go (first a : V3 ℝ) (l : List (V3 ℝ)) :
    Spec.cyclicPairs.go first a l = List.zip (a :: l) (l ++ [first]) := by
  induction l generalizing a with
  | nil => simp [Spec.cyclicPairs.go]
  | cons b l ih => simp [Spec.cyclicPairs.go, ih]

theorem cyclicPairs_eq_edgesOf (vs : List (V3 ℝ)) : Spec.cyclicPairs vs = edgesOf vs := by
  cases vs with
  | nil => rfl
  | cons v l => simp [Spec.cyclicPairs, cyclicPairs_go, edgesOf, roll1]

theorem npSinc_eq_sinc (b : ℝ) : npSinc (1 / 2 * b / Real.pi) = Spec.sinc (b / 2) := by
  unfold npSinc Spec.sinc
  have hpi : Real.pi ≠ 0 := Real.pi_ne_zero
  simp only [eqb_real, Scalar.lit, Scalar.ofNat_real, Nat.cast_zero, Nat.cast_one, decide_eq_true_eq,
    Scalar.sin_real, Scalar.pi_real]
  have e : Real.pi * (1 / 2 * b / Real.pi) = b / 2 := by field_simp
  by_cases hb : b = 0
  · subst hb; simp
  · have h1 : 1 / 2 * b / Real.pi ≠ 0 := by
      intro h; apply hb; field_simp at h; linarith
    have h2 : b / 2 ≠ 0 := by intro h; apply hb; linarith
    simp only [h1, h2, if_false, e]

theorem triple_swap (e qp n : V3 ℝ) : V3.dot (V3.cross e qp) n = -V3.dot qp (V3.cross e n) := by
  obtain ⟨a, b, c⟩ := e; obtain ⟨x, y, z⟩ := qp; obtain ⟨u, v, w⟩ := n
  simp [V3.dot, V3.cross]; ring

theorem dot_sub_right (u v w : V3 ℝ) : V3.dot u (v - w) = V3.dot u v - V3.dot u w := by
  obtain ⟨x, y, z⟩ := u; obtain ⟨a, b, c⟩ := v; obtain ⟨d, e, f⟩ := w
  simp [V3.dot]; ring

theorem dot_comm (u v : V3 ℝ) : V3.dot u v = V3.dot v u := by
  obtain ⟨x, y, z⟩ := u; obtain ⟨a, b, c⟩ := v
  simp [V3.dot]; ring

theorem edgePhase_eq (qp : V3 ℝ) (vw : V3 ℝ × V3 ℝ) :
    edgePhase qp vw = V3.dot qp vw.1 + V3.dot qp (vw.2 - vw.1) / 2 := by
  obtain ⟨⟨vx, vy, vz⟩, ⟨wx, wy, wz⟩⟩ := vw
  obtain ⟨x, y, z⟩ := qp
  unfold edgePhase
  simp [V3.dot]; ring

theorem sum_map_mul_left {β : Type} (f : β → Cx ℝ) (c : Cx ℝ) (l : List β) :
    Cx.sum (l.map fun x => Cx.mul c (f x)) = Cx.mul c (Cx.sum (l.map f)) := by
  induction l with
  | nil => ext <;> simp
  | cons a l ih => simp only [List.map_cons, Cx.sum_cons, ih]; ext <;> simp <;> ring

/-- one edge: the model's term is minus `(i/|q|²)` times the specification's term -/
theorem edgeTerm_eq_spec (n qp : V3 ℝ) (vw : V3 ℝ × V3 ℝ) :
    edgeTerm n qp (V3.dot qp qp) vw =
      Cx.neg (Cx.mul (Cx.sdiv Cx.I (V3.dot qp qp))
        (Cx.smul (V3.dot qp (V3.cross (vw.2 - vw.1) n))
          (Spec.edgeIntegral (V3.dot qp vw.1) (V3.dot qp (vw.2 - vw.1))))) := by
  rw [edgeTerm_eq, edgePhase_eq]
  unfold edgeAmp
  rw [triple_swap, dot_comm (vw.2 - vw.1) qp, npSinc_eq_sinc]
  ext <;> simp [Spec.edgeIntegral, Spec.cis, Scalar.lit] <;> ring

/-- **model = boundary form**, for every vertex list, normal and in-plane wave vector -/
theorem polygonNonzero_eq_boundary (vs : List (V3 ℝ)) (n qp : V3 ℝ) :
    polygonNonzero vs n qp = Cx.smul (sign (signedArea vs n)) (Spec.boundaryForm vs n qp) := by
  unfold polygonNonzero Spec.boundaryForm
  rw [cyclicPairs_eq_edgesOf]
  have : (edgesOf vs).map (edgeTerm n qp (V3.dot qp qp)) =
      (edgesOf vs).map fun vw => Cx.neg (Cx.mul (Cx.sdiv Cx.I (V3.dot qp qp))
        (Cx.smul (V3.dot qp (V3.cross (vw.2 - vw.1) n))
          (Spec.edgeIntegral (V3.dot qp vw.1) (V3.dot qp (vw.2 - vw.1))))) :=
    List.map_congr_left fun vw _ => edgeTerm_eq_spec n qp vw
  rw [this, Cx.sum_map_neg, sum_map_mul_left]
  ext <;> simp

end FF

/-! ### `Polygon.signed_area` is the fan (shoelace) area for planar polygons with a unit normal -/
namespace FF

theorem zip3_drop_third {β γ δ ε : Type} (h : β → γ → ε) :
    ∀ (A : List β) (B : List γ) (C : List δ), B.length ≤ C.length →
      (List.zip A (List.zip B C)).map (fun t => h t.1 t.2.1) = (List.zip A B).map fun s => h s.1 s.2
  | [], _, _, _ => by simp
  | _ :: _, [], _, _ => by simp
  | _ :: _, _ :: _, [], hl => by simp at hl
  | a :: A, b :: B, c :: C, hl => by
    simp only [List.zip_cons_cons, List.map_cons]
    rw [zip3_drop_third h A B C (by simpa using hl)]

theorem zip3_drop_second {β γ δ ε : Type} (h : β → δ → ε) :
    ∀ (A : List β) (B : List γ) (C : List δ), C.length ≤ B.length →
      (List.zip A (List.zip B C)).map (fun t => h t.1 t.2.2) = (List.zip A C).map fun s => h s.1 s.2
  | [], _, _, _ => by simp
  | _ :: _, _, [], _ => by simp
  | _ :: _, [], _ :: _, hl => by simp at hl
  | a :: A, b :: B, c :: C, hl => by
    simp only [List.zip_cons_cons, List.map_cons]
    rw [zip3_drop_second h A B C (by simpa using hl)]

/-- cyclic telescoping -/
theorem cyc_sub_zero (f : V3 ℝ → ℝ) (l : List (V3 ℝ)) :
    ((List.zip l (l.rotate 1)).map fun s => f s.1 - f s.2).sum = 0 := by
  rw [sum_map_sub']
  have e1 : ((List.zip l (l.rotate 1)).map fun s => f s.1) = l.map f := by
    have := List.map_fst_zip (l₁ := l) (l₂ := l.rotate 1) (by simp)
    conv_rhs => rw [← this, List.map_map]
    rfl
  have e2 : ((List.zip l (l.rotate 1)).map fun s => f s.2) = (l.rotate 1).map f := by
    have := List.map_snd_zip (l₁ := l) (l₂ := l.rotate 1) (by simp)
    conv_rhs => rw [← this, List.map_map]
    rfl
  rw [e1, e2, ((List.rotate_perm l 1).map _).sum_eq]; ring

theorem saSum_eq_shoelace (c1 c2 : Nat) (l : List (V3 ℝ)) :
    saSum c1 c2 l = ((List.zip l (l.rotate 1)).map fun s => s.1.get c1 * s.2.get c2 - s.2.get c1 * s.1.get c2).sum := by
  unfold saSum
  have hf : (fun t : V3 ℝ × V3 ℝ × V3 ℝ => t.1.get c1 * (t.2.1.get c2 - t.2.2.get c2)) =
      fun t => t.1.get c1 * t.2.1.get c2 - t.1.get c1 * t.2.2.get c2 := by funext t; ring
  rw [hf, sum_map_sub', sum_map_sub']
  rw [zip3_drop_third (fun (a b : V3 ℝ) => a.get c1 * b.get c2) _ _ l (by simp),
    zip3_drop_second (fun (a b : V3 ℝ) => a.get c1 * b.get c2) _ (l.rotate 2) l (by simp)]
  congr 1
  · have hp := zip_rotate_perm l (l.rotate 1) (by simp) 1
    rw [List.rotate_rotate] at hp
    exact (hp.map _).sum_eq
  · rw [← List.zip_swap l (l.rotate 1), List.map_map]
    rfl

theorem argmaxAbs_lt (n : V3 ℝ) : argmaxAbs n < 3 := by
  unfold argmaxAbs; simp only; split_ifs <;> omega

theorem cross_get (a b : V3 ℝ) (p : Nat) (hp : p < 3) :
    a.get ((p + 1) % 3) * b.get ((p + 2) % 3) - b.get ((p + 1) % 3) * a.get ((p + 2) % 3) =
      (V3.cross a b).get p := by
  obtain ⟨ax, ay, az⟩ := a; obtain ⟨bx, b_y, bz⟩ := b
  have h3 : p = 0 ∨ p = 1 ∨ p = 2 := by omega
  rcases h3 with h | h | h <;> subst h <;> simp [V3.get, V3.cross] <;> ring

theorem cross_sub_get (a b v0 : V3 ℝ) (p : Nat) :
    (V3.cross (a - v0) (b - v0)).get p =
      (V3.cross a b).get p - ((V3.cross a v0).get p - (V3.cross b v0).get p) := by
  obtain ⟨ax, ay, az⟩ := a; obtain ⟨bx, b_y, bz⟩ := b; obtain ⟨x, y, z⟩ := v0
  unfold V3.get; split_ifs <;> simp [V3.cross] <;> ring

theorem planar_cross (u w n : V3 ℝ) (hu : V3.dot u n = 0) (hw : V3.dot w n = 0) (p : Nat) :
    (V3.cross u w).get p * V3.dot n n = V3.dot (V3.cross u w) n * n.get p := by
  obtain ⟨ux, uy, uz⟩ := u; obtain ⟨wx, wy, wz⟩ := w; obtain ⟨nx, ny, nz⟩ := n
  simp only [V3.dot] at hu hw
  unfold V3.get; split_ifs <;> simp only [V3.cross, V3.dot]
  · linear_combination (ny * wz - nz * wy) * hu - (ny * uz - nz * uy) * hw
  · linear_combination (nz * wx - nx * wz) * hu - (nz * ux - nx * uz) * hw
  · linear_combination (nx * wy - ny * wx) * hu - (nx * uy - ny * ux) * hw

/-- **`signed_area` = fan area.** For a planar vertex list (every `v - v0 ⟂ n`) and a unit normal whose
largest component is non-zero, the projected shoelace formula of `Polygon.signed_area` equals half the
triangle-fan sum `Σ ((v_i - v_0) × (v_{i+1} - v_0))·n` of the specification. -/
theorem signedArea_eq_fan (v0 : V3 ℝ) (rest : List (V3 ℝ)) (n : V3 ℝ)
    (hplanar : ∀ v ∈ v0 :: rest, V3.dot (v - v0) n = 0) (hunit : V3.dot n n = 1)
    (hnp : n.get (argmaxAbs n) ≠ 0) :
    signedArea (v0 :: rest) n = Spec.fanArea2 (v0 :: rest) n / 2 := by
  set l := v0 :: rest with hl
  have hp := argmaxAbs_lt n
  rw [signedArea_eq, saSum_eq_shoelace]
  have hnorm : V3.norm (⟨|n.x|, |n.y|, |n.z|⟩ : V3 ℝ) = 1 := by
    unfold V3.norm V3.normSq
    have : V3.dot (⟨|n.x|, |n.y|, |n.z|⟩ : V3 ℝ) ⟨|n.x|, |n.y|, |n.z|⟩ = V3.dot n n := by
      simp only [V3.dot, abs_mul_abs_self]
    rw [this, hunit]; simp
  rw [hnorm]
  unfold Spec.fanArea2
  simp only [hl, cyclicPairs_eq_edgesOf, Scalar.sum_real]
  rw [← hl]
  unfold edgesOf
  rw [roll1_eq_rotate]
  -- per-edge rewriting
  have e1 : ((List.zip l (l.rotate 1)).map fun s =>
        s.1.get ((argmaxAbs n + 1) % 3) * s.2.get ((argmaxAbs n + 2) % 3) -
          s.2.get ((argmaxAbs n + 1) % 3) * s.1.get ((argmaxAbs n + 2) % 3)).sum =
      ((List.zip l (l.rotate 1)).map fun s => (V3.cross (s.1 - v0) (s.2 - v0)).get (argmaxAbs n)).sum := by
    have : ((List.zip l (l.rotate 1)).map fun s => (V3.cross (s.1 - v0) (s.2 - v0)).get (argmaxAbs n)) =
        (List.zip l (l.rotate 1)).map fun s => (V3.cross s.1 s.2).get (argmaxAbs n) -
          ((V3.cross s.1 v0).get (argmaxAbs n) - (V3.cross s.2 v0).get (argmaxAbs n)) :=
      List.map_congr_left fun s _ => cross_sub_get s.1 s.2 v0 _
    rw [this, sum_map_sub' (fun s : V3 ℝ × V3 ℝ => (V3.cross s.1 s.2).get (argmaxAbs n))
        (fun s => (V3.cross s.1 v0).get (argmaxAbs n) - (V3.cross s.2 v0).get (argmaxAbs n)),
      cyc_sub_zero (fun x => (V3.cross x v0).get (argmaxAbs n)) l, sub_zero]
    congr 1
    exact List.map_congr_left fun s _ => cross_get s.1 s.2 _ hp
  rw [e1]
  have e2 : ((List.zip l (l.rotate 1)).map fun s => (V3.cross (s.1 - v0) (s.2 - v0)).get (argmaxAbs n)).sum =
      ((List.zip l (l.rotate 1)).map ((fun p : V3 ℝ × V3 ℝ => V3.dot (V3.cross (p.1 - v0) (p.2 - v0)) n))).sum *
        n.get (argmaxAbs n) := by
    rw [mul_comm, ← sum_map_mul']
    congr 1
    apply List.map_congr_left
    intro s hs
    have h1 : s.1 ∈ l := (List.of_mem_zip hs).1
    have h2 : s.2 ∈ l := by
      have := (List.of_mem_zip hs).2
      exact List.mem_rotate.mp this
    have := planar_cross (s.1 - v0) (s.2 - v0) n (hplanar _ h1) (hplanar _ h2) (argmaxAbs n)
    rw [hunit, mul_one] at this
    rw [this]; ring
  rw [e2]
  field_simp

end FF

namespace FF

theorem argmax_ne_zero (n : V3 ℝ) (hunit : V3.dot n n = 1) : n.get (argmaxAbs n) ≠ 0 := by
  obtain ⟨x, y, z⟩ := n
  simp only [V3.dot] at hunit
  unfold argmaxAbs
  simp only [Scalar.abs_real]
  intro h0
  split_ifs at h0 with h1 h2
  · simp only [V3.get_zero] at h0
    subst h0
    obtain ⟨ha, hb⟩ := h1
    simp only [abs_zero, abs_nonpos_iff] at ha hb
    subst ha; subst hb; norm_num at hunit
  · simp only [V3.get_one] at h0
    subst h0
    simp only [abs_zero, abs_nonpos_iff] at h2
    subst h2
    simp only [abs_zero] at h1
    exact h1 ⟨abs_nonneg x, abs_nonneg x⟩
  · simp only [V3.get_two] at h0
    subst h0
    simp only [abs_zero, not_le] at h2
    exact absurd h2 (not_lt.mpr (abs_nonneg y))

/-- model amplitude of the sphere outside the zero window is the spherical Bessel form -/
theorem sphere_amp_eq (r qsq : ℝ) (hr : r ≠ 0) (hq : 0 < qsq) :
    (4 * Real.pi * r * (npSinc (Real.sqrt qsq * r / Real.pi) - Real.cos (Real.sqrt qsq * r))) / qsq =
      4 * Real.pi * (Real.sin (Real.sqrt qsq * r) - Real.sqrt qsq * r * Real.cos (Real.sqrt qsq * r)) /
        (Real.sqrt qsq * Real.sqrt qsq * Real.sqrt qsq) := by
  have hs : Real.sqrt qsq ≠ 0 := (Real.sqrt_pos.mpr hq).ne'
  have hpi : Real.pi ≠ 0 := Real.pi_ne_zero
  have hx : Real.sqrt qsq * r / Real.pi ≠ 0 := by
    apply div_ne_zero (mul_ne_zero hs hr) hpi
  rw [npSinc_of_ne hx]
  have e : Real.pi * (Real.sqrt qsq * r / Real.pi) = Real.sqrt qsq * r := by field_simp
  rw [e]
  have hsq : Real.sqrt qsq * Real.sqrt qsq = qsq := Real.mul_self_sqrt hq.le
  rw [hsq]
  have hq0 : qsq ≠ 0 := hq.ne'
  field_simp

end FF

namespace FF

theorem isCloseZero_iff (x : ℝ) : isCloseZero x = true ↔ |x| ≤ 1 / 100000000 := by
  simp [isCloseZero, Scalar.q]

theorem isCloseZero_zero : isCloseZero (0 : ℝ) = true := by
  rw [isCloseZero_iff]; norm_num

theorem sign_half (a : ℝ) : sign (a / 2) = Spec.orient_of a := by
  unfold sign Spec.orient_of
  simp only [Scalar.lit, Scalar.ofNat_real, Nat.cast_zero, Nat.cast_one]
  have h1 : a / 2 < 0 ↔ a < 0 := by constructor <;> intro h <;> linarith
  have h2 : 0 < a / 2 ↔ 0 < a := by constructor <;> intro h <;> linarith
  simp only [h1, h2]

end FF
