import CoxeterVerif.Lemmas.Basic
import CoxeterVerif.Model.FormFactor
import CoxeterVerif.Spec.FormFactor
import Mathlib.Data.List.Rotate
import Mathlib.Algebra.BigOperators.Group.List.Basic
/-! Helper lemmas for C12 (form factor amplitude): complex pairs at ℝ, sinc, cyclic list sums. -/
open Scalar

namespace Cx

@[ext] theorem ext' {z w : Cx ℝ} (hr : z.re = w.re) (hi : z.im = w.im) : z = w := by
  cases z; cases w; simp_all

@[simp] theorem zero_re : (zero : Cx ℝ).re = 0 := by simp [zero]
@[simp] theorem zero_im : (zero : Cx ℝ).im = 0 := by simp [zero]
@[simp] theorem I_re : (I : Cx ℝ).re = 0 := by simp [I]
@[simp] theorem I_im : (I : Cx ℝ).im = 1 := by simp [I]
@[simp] theorem ofReal_re (x : ℝ) : (ofReal x).re = x := rfl
@[simp] theorem ofReal_im (x : ℝ) : (ofReal x).im = 0 := by simp [ofReal]
@[simp] theorem add_re (z w : Cx ℝ) : (add z w).re = z.re + w.re := rfl
@[simp] theorem add_im (z w : Cx ℝ) : (add z w).im = z.im + w.im := rfl
@[simp] theorem neg_re (z : Cx ℝ) : (neg z).re = -z.re := rfl
@[simp] theorem neg_im (z : Cx ℝ) : (neg z).im = -z.im := rfl
@[simp] theorem conj_re (z : Cx ℝ) : (conj z).re = z.re := rfl
@[simp] theorem conj_im (z : Cx ℝ) : (conj z).im = -z.im := rfl
@[simp] theorem mul_re (z w : Cx ℝ) : (mul z w).re = z.re * w.re - z.im * w.im := rfl
@[simp] theorem mul_im (z w : Cx ℝ) : (mul z w).im = z.re * w.im + z.im * w.re := rfl
@[simp] theorem smul_re (k : ℝ) (z : Cx ℝ) : (smul k z).re = k * z.re := rfl
@[simp] theorem smul_im (k : ℝ) (z : Cx ℝ) : (smul k z).im = k * z.im := rfl
@[simp] theorem sdiv_re (k : ℝ) (z : Cx ℝ) : (sdiv z k).re = z.re / k := rfl
@[simp] theorem sdiv_im (k : ℝ) (z : Cx ℝ) : (sdiv z k).im = z.im / k := rfl
@[simp] theorem expNegI_re (x : ℝ) : (expNegI x).re = Real.cos x := rfl
@[simp] theorem expNegI_im (x : ℝ) : (expNegI x).im = -Real.sin x := rfl

theorem sum_re (l : List (Cx ℝ)) : (sum l).re = (l.map (·.re)).sum := by
  induction l with
  | nil => simp [sum]
  | cons a l ih => simp only [sum, List.foldr_cons, add_re, List.map_cons, List.sum_cons] at ih ⊢; rw [ih]
theorem sum_im (l : List (Cx ℝ)) : (sum l).im = (l.map (·.im)).sum := by
  induction l with
  | nil => simp [sum]
  | cons a l ih => simp only [sum, List.foldr_cons, add_im, List.map_cons, List.sum_cons] at ih ⊢; rw [ih]

@[simp] theorem sum_nil : sum ([] : List (Cx ℝ)) = zero := rfl
@[simp] theorem sum_cons (a : Cx ℝ) (l : List (Cx ℝ)) : sum (a :: l) = add a (sum l) := rfl

/-- `Σ conj (f x) = conj (Σ f x)` -/
theorem sum_map_conj {β : Type} (f : β → Cx ℝ) (l : List β) :
    sum (l.map fun x => conj (f x)) = conj (sum (l.map f)) := by
  induction l with
  | nil => ext <;> simp
  | cons a l ih => simp only [List.map_cons, sum_cons, ih]; ext <;> simp; ring

/-- `Σ (f x · c) = (Σ f x) · c` -/
theorem sum_map_mul_right {β : Type} (f : β → Cx ℝ) (c : Cx ℝ) (l : List β) :
    sum (l.map fun x => mul (f x) c) = mul (sum (l.map f)) c := by
  induction l with
  | nil => ext <;> simp
  | cons a l ih => simp only [List.map_cons, sum_cons, ih]; ext <;> simp <;> ring

/-- `Σ (k • f x) = k • Σ f x` -/
theorem sum_map_smul {β : Type} (f : β → Cx ℝ) (k : ℝ) (l : List β) :
    sum (l.map fun x => smul k (f x)) = smul k (sum (l.map f)) := by
  induction l with
  | nil => ext <;> simp
  | cons a l ih => simp only [List.map_cons, sum_cons, ih]; ext <;> simp <;> ring

theorem sum_map_neg {β : Type} (f : β → Cx ℝ) (l : List β) :
    sum (l.map fun x => neg (f x)) = neg (sum (l.map f)) := by
  induction l with
  | nil => ext <;> simp
  | cons a l ih => simp only [List.map_cons, sum_cons, ih]; ext <;> simp <;> ring

theorem sum_perm {l l' : List (Cx ℝ)} (h : l.Perm l') : sum l = sum l' := by
  ext
  · rw [sum_re, sum_re]; exact (h.map _).sum_eq
  · rw [sum_im, sum_im]; exact (h.map _).sum_eq

theorem sum_append (l l' : List (Cx ℝ)) : sum (l ++ l') = add (sum l) (sum l') := by
  ext <;> simp [sum_re, sum_im]

end Cx

namespace FF

/-! ### scalar helpers -/

@[simp] theorem eqb_real (a b : ℝ) : Scalar.eqb a b = decide (a = b) := rfl

theorem npSinc_neg (x : ℝ) : npSinc (-x) = npSinc x := by
  unfold npSinc
  simp only [eqb_real, Scalar.lit, Scalar.ofNat_real, Nat.cast_zero, Nat.cast_one, decide_eq_true_eq,
    neg_eq_zero, Scalar.sin_real, Scalar.pi_real]
  split_ifs
  · rfl
  · rw [mul_neg, Real.sin_neg, neg_div_neg_eq]

theorem npSinc_zero : npSinc (0 : ℝ) = 1 := by
  simp [npSinc]

theorem npSinc_of_ne {x : ℝ} (h : x ≠ 0) : npSinc x = Real.sin (Real.pi * x) / (Real.pi * x) := by
  simp [npSinc, h]

theorem sign_neg (x : ℝ) : sign (-x) = -sign x := by
  unfold sign
  simp only [Scalar.lit, Scalar.ofNat_real, Nat.cast_zero, Nat.cast_one]
  rcases lt_trichotomy x 0 with h | h | h
  · have h1 : ¬ (-x < 0) := by linarith
    have h2 : (0:ℝ) < -x := by linarith
    simp [h, h1, h2]
  · subst h; simp
  · have h1 : (-x < 0) := by linarith
    have h2 : ¬ (x < 0) := by linarith
    simp [h, h1, h2]

theorem sign_mul_self_abs (x : ℝ) : sign x * sign x * |x| = |x| := by
  unfold sign
  simp only [Scalar.lit, Scalar.ofNat_real, Nat.cast_zero, Nat.cast_one]
  rcases lt_trichotomy x 0 with h | h | h
  · simp [h]
  · subst h; simp
  · have h2 : ¬ (x < 0) := by linarith
    simp [h, h2]

/-! ### vectors -/

theorem project_neg (n q : V3 ℝ) : project n (-q) = -(project n q) := by
  obtain ⟨nx, ny, nz⟩ := n; obtain ⟨qx, qy, qz⟩ := q
  unfold project
  ext <;> simp [V3.dot] <;> ring

theorem dot_neg_neg (u : V3 ℝ) : V3.dot (-u) (-u) = V3.dot u u := by
  obtain ⟨x, y, z⟩ := u
  simp [V3.dot]

theorem dot_neg_left (u v : V3 ℝ) : V3.dot (-u) v = -V3.dot u v := by
  obtain ⟨x, y, z⟩ := u; obtain ⟨a, b, c⟩ := v
  simp [V3.dot]; ring

theorem dot_neg_right (u v : V3 ℝ) : V3.dot u (-v) = -V3.dot u v := by
  obtain ⟨x, y, z⟩ := u; obtain ⟨a, b, c⟩ := v
  simp [V3.dot]; ring

/-! ### the edge term in closed form -/

/-- real amplitude of an edge term -/
noncomputable def edgeAmp (n qp : V3 ℝ) (qsq : ℝ) (vw : V3 ℝ × V3 ℝ) : ℝ :=
  V3.dot (V3.cross (vw.2 - vw.1) qp) n * npSinc (1 / 2 * V3.dot (vw.2 - vw.1) qp / Real.pi) / qsq

/-- phase of an edge term: midpoint · q -/
noncomputable def edgePhase (qp : V3 ℝ) (vw : V3 ℝ × V3 ℝ) : ℝ :=
  V3.dot (V3.sdiv (vw.1 + vw.2) 2) qp

theorem edgeTerm_eq (n qp : V3 ℝ) (qsq : ℝ) (vw : V3 ℝ × V3 ℝ) :
    edgeTerm n qp qsq vw =
      ⟨edgeAmp n qp qsq vw * Real.sin (edgePhase qp vw), edgeAmp n qp qsq vw * Real.cos (edgePhase qp vw)⟩ := by
  unfold edgeTerm edgeAmp edgePhase
  ext <;> simp [Scalar.q, Scalar.lit]

theorem edgeAmp_neg (n qp : V3 ℝ) (qsq : ℝ) (vw : V3 ℝ × V3 ℝ) :
    edgeAmp n (-qp) qsq vw = -edgeAmp n qp qsq vw := by
  unfold edgeAmp
  have h1 : V3.cross (vw.2 - vw.1) (-qp) = -(V3.cross (vw.2 - vw.1) qp) := by
    obtain ⟨x, y, z⟩ := qp
    ext <;> simp [V3.cross] <;> ring
  rw [h1, dot_neg_left, dot_neg_right]
  have h2 : 1 / 2 * -V3.dot (vw.2 - vw.1) qp / Real.pi = -(1 / 2 * V3.dot (vw.2 - vw.1) qp / Real.pi) := by ring
  rw [h2, npSinc_neg]; ring

theorem edgePhase_neg (qp : V3 ℝ) (vw : V3 ℝ × V3 ℝ) : edgePhase (-qp) vw = -edgePhase qp vw := by
  unfold edgePhase; rw [dot_neg_right]

theorem edgeTerm_neg (n qp : V3 ℝ) (qsq : ℝ) (vw : V3 ℝ × V3 ℝ) :
    edgeTerm n (-qp) qsq vw = Cx.conj (edgeTerm n qp qsq vw) := by
  rw [edgeTerm_eq, edgeTerm_eq, edgeAmp_neg, edgePhase_neg]
  ext <;> simp

end FF
