import CoxeterVerif.Lemmas.CovarianceSim
import CoxeterVerif.Model.Inside2D
/-!
  Helper lemmas for C09, part 7: `Circle.is_inside` / `Ellipse.is_inside` under similarities.

  The out-of-plane switch of both functions was `np.isclose(z, 0)` (absolute `1e-8`; finding of this property) and is,
  since fixes bab419e, `np.isclose(z, 0, atol = 1e-8 * size)` (`size` = radius, resp. `max(a, b)`).  The model of these
  functions lives in C06's `Model/Inside2D.lean`, which is being moved to the repaired expression by its owner; so that
  this file does not depend on the moment at which that happens, BOTH expressions are written out here, statement by
  statement as in the Python (`circleInsideAbs` / `circleInsideRel`, `ellipseInsideAbs` / `ellipseInsideRel`); the
  repaired ones ARE C06's model as it is now (`circle_model_eq`, `ellipse_model_eq`, by `rfl`), and the covariance
  theorems are restated for `Inside2D.Circle.isInside1` / `Inside2D.Ellipse.isInside1`:

  * repaired expression: FULLY covariant — circle under every similarity keeping the `z` direction (rotation about `z`,
    any translation, any positive scale), ellipse (the coded one-sided box test) under translations and positive
    scalings; the quarter turn still breaks the box test (C06 finding);
  * old expression: covariant exactly when the offset and its image are on the same side of `1e-8`; witness of the
    failure inside the property's range (kept as a statement about the old expression: it is what the oracle's corpus
    case would report if the absolute tolerance returned).
-/
open Scalar
set_option maxRecDepth 4000
noncomputable section

namespace Inside2D

/-- `np.isclose(z, 0, atol = atol)` with the default `rtol = 1e-5`: `|z − 0| ≤ atol + rtol·|0|` -/
def iscloseAtol (z atol : ℝ) : Bool :=
  decide (Scalar.abs (z - lit 0) ≤ atol + q 1 100000 * Scalar.abs (lit 0 : ℝ))

/-- the old switch `np.isclose(z, 0)`: default `atol = 1e-8` -/
def iscloseZeroAbs (z : ℝ) : Bool := iscloseAtol z (q 1 100000000)

theorem iscloseAtol_iff (z atol : ℝ) : iscloseAtol z atol = true ↔ |z| ≤ atol := by
  unfold iscloseAtol
  simp only [Scalar.lit, Scalar.q, Scalar.ofNat_real, Scalar.abs_real, decide_eq_true_eq, Nat.cast_zero, sub_zero,
    abs_zero, mul_zero, add_zero]

/-- `Circle.is_inside` for one row, OLD: `norm(p − c) ≤ r ∧ isclose(z, 0)` -/
def circleInsideAbs (r : ℝ) (c p : V3 ℝ) : Bool :=
  let d := p - c
  decide (V3.norm d ≤ r) && iscloseZeroAbs d.z

/-- `Circle.is_inside` for one row, REPAIRED (bab419e): `norm(p − c) ≤ r ∧ isclose(z, 0, atol=1e-8 * self.radius)` -/
def circleInsideRel (r : ℝ) (c p : V3 ℝ) : Bool :=
  let d := p - c
  decide (V3.norm d ≤ r) && iscloseAtol d.z (q 1 100000000 * r)

/-- `Ellipse.is_inside` for one row, OLD: the one-sided box test `∧ isclose(z, 0)` -/
def ellipseInsideAbs (a b : ℝ) (c p : V3 ℝ) : Bool :=
  let d := p - c
  (decide (d.x / a ≤ lit 1) && decide (d.y / b ≤ lit 1) && true) && iscloseZeroAbs d.z

/-- `Ellipse.is_inside` for one row, REPAIRED: `… ∧ isclose(z, 0, atol=1e-8 * max(self.a, self.b))` -/
def ellipseInsideRel (a b : ℝ) (c p : V3 ℝ) : Bool :=
  let d := p - c
  (decide (d.x / a ≤ lit 1) && decide (d.y / b ≤ lit 1) && true) && iscloseAtol d.z (q 1 100000000 * Scalar.max a b)

/-- `np.isclose(z, 0)` as a statement -/
theorem iscloseZero_window (z : ℝ) : iscloseZeroAbs z = true ↔ |z| ≤ 1 / 100000000 := by
  unfold iscloseZeroAbs
  rw [iscloseAtol_iff]
  simp only [Scalar.q, Scalar.ofNat_real]
  norm_num

/-- a similarity that keeps the `z` direction (rotation about `z`, any translation, any scale) -/
def KeepsZ (g : Sim) : Prop := ∀ v : V3 ℝ, (g.dir v).z = v.z

theorem rotZ_keepsZ (c s : ℝ) (t : V3 ℝ) (k : ℝ) : KeepsZ ⟨k, ⟨c, -s, 0, s, c, 0, 0, 0, 1⟩, t⟩ := by
  intro v; simp [Sim.dir, M3.mulVec]

theorem rotZ_isRot (c s : ℝ) (h : c * c + s * s = 1) : IsRot (⟨c, -s, 0, s, c, 0, 0, 0, 1⟩ : M3 ℝ) := by
  constructor <;> simp only [M3.det] <;> linarith

theorem sim_sub_z {g : Sim} (hz : KeepsZ g) (p c : V3 ℝ) : (g.pt p - g.pt c).z = g.k * (p - c).z := by
  rw [Sim.pt_sub]
  show (V3.smul g.k (g.dir (p - c))).z = _
  rw [V3.smul_z, hz]

/-- **OLD `Circle.is_inside` under an in-plane similarity**: covariant exactly when the image of the
out-of-plane offset is on the same side of the ABSOLUTE window `1e-8` as the offset itself. -/
theorem circle_isInside1_sim {g : Sim} (hg : g.Proper) (hz : KeepsZ g) (r : ℝ) (c p : V3 ℝ)
    (hwin : |g.k * (p - c).z| ≤ 1 / 100000000 ↔ |(p - c).z| ≤ 1 / 100000000) :
    circleInsideAbs (g.k * r) (g.pt c) (g.pt p) = circleInsideAbs r c p := by
  unfold circleInsideAbs
  simp only []
  rw [Sim.dist hg, sim_sub_z hz, decide_eq_decide.mpr (mul_le_mul_iff_right₀ hg.kpos)]
  congr 1
  rw [Bool.eq_iff_iff, iscloseZero_window, iscloseZero_window]
  exact hwin

/-- points of the circle's own plane: every in-plane similarity, every scale -/
theorem circle_isInside1_inplane {g : Sim} (hg : g.Proper) (hz : KeepsZ g) (r : ℝ) (c p : V3 ℝ)
    (hp : p.z = c.z) : circleInsideAbs (g.k * r) (g.pt c) (g.pt p) = circleInsideAbs r c p := by
  apply circle_isInside1_sim hg hz
  simp only [V3.sub_z, hp, sub_self, mul_zero, abs_zero]

/-- rigid motions (`k = 1`): every point of space -/
theorem circle_isInside1_rigid {g : Sim} (hg : g.Proper) (hz : KeepsZ g) (hk : g.k = 1) (r : ℝ) (c p : V3 ℝ) :
    circleInsideAbs r (g.pt c) (g.pt p) = circleInsideAbs r c p := by
  have := circle_isInside1_sim hg hz r c p (by rw [hk, one_mul])
  rw [hk, one_mul] at this; exact this

/-- **range of scale covariance**: for a scale factor `k` and an out-of-plane offset `dz`, the two
window tests agree iff `dz` is not in the band between `1e-8` and `1e-8 / k`: in particular whenever
`|dz| ≤ 1e-8 · min(1, 1/k)` or `|dz| > 1e-8 · max(1, 1/k)`. -/
theorem isclose_window_scale {k dz : ℝ} (hk : 0 < k)
    (h : |dz| ≤ 1 / 100000000 * Min.min 1 (1 / k) ∨ 1 / 100000000 * Max.max 1 (1 / k) < |dz|) :
    (|k * dz| ≤ 1 / 100000000 ↔ |dz| ≤ 1 / 100000000) := by
  rw [abs_mul, abs_of_pos hk]
  have hk1 : k * (1 / k) = 1 := by field_simp
  rcases h with h | h
  · have h1 : |dz| ≤ 1 / 100000000 := le_trans h (by
      have := min_le_left (1:ℝ) (1 / k); nlinarith)
    have h2 : k * |dz| ≤ 1 / 100000000 := by
      have h3 : |dz| ≤ 1 / 100000000 * (1 / k) := le_trans h (by
        have := min_le_right (1:ℝ) (1 / k); nlinarith)
      calc k * |dz| ≤ k * (1 / 100000000 * (1 / k)) := mul_le_mul_of_nonneg_left h3 hk.le
        _ = 1 / 100000000 := by rw [mul_comm (1 / 100000000 : ℝ), ← mul_assoc, hk1, one_mul]
    exact ⟨fun _ => h1, fun _ => h2⟩
  · have h1 : 1 / 100000000 < |dz| := lt_of_le_of_lt (by
      have := le_max_left (1:ℝ) (1 / k); nlinarith) h
    have h2 : 1 / 100000000 < k * |dz| := by
      have h3 : 1 / 100000000 * (1 / k) < |dz| := lt_of_le_of_lt (by
        have := le_max_right (1:ℝ) (1 / k); nlinarith) h
      calc (1 / 100000000 : ℝ) = k * (1 / 100000000 * (1 / k)) := by
            rw [mul_comm (1 / 100000000 : ℝ), ← mul_assoc, hk1, one_mul]
        _ < k * |dz| := mul_lt_mul_of_pos_left h3 hk
    exact ⟨fun h' => absurd h' (not_le.mpr h2), fun h' => absurd h' (not_le.mpr h1)⟩

/-- **the OLD absolute window breaks scale covariance inside the property's range**: the point `2·10⁻⁸`
above the unit circle's centre is outside; after scaling everything by `1/10` (radius `0.1`, offset
`2·10⁻⁹`) it is inside. -/
theorem circle_inside_scale_fails :
    ¬ (∀ (k : ℝ), 0 < k → ∀ (r : ℝ) (c p : V3 ℝ),
        circleInsideAbs (k * r) (V3.smul k c) (V3.smul k p) = circleInsideAbs r c p) := by
  intro h
  have := h (1 / 10) (by norm_num) 1 ⟨0, 0, 0⟩ ⟨0, 0, 2 / 100000000⟩
  have hr : circleInsideAbs (1:ℝ) ⟨0, 0, 0⟩ ⟨0, 0, 2 / 100000000⟩ = false := by
    unfold circleInsideAbs
    have hz : iscloseZeroAbs ((⟨0, 0, 2 / 100000000⟩ : V3 ℝ) - ⟨0, 0, 0⟩).z = false := by
      rw [Bool.eq_false_iff]; intro hc
      rw [iscloseZero_window] at hc
      simp only [V3.sub_z] at hc
      rw [abs_of_nonneg (by norm_num)] at hc
      norm_num at hc
    simp only [hz, Bool.and_false]
  have hl : circleInsideAbs ((1:ℝ) / 10 * 1) (V3.smul (1 / 10) ⟨0, 0, 0⟩)
      (V3.smul (1 / 10) ⟨0, 0, 2 / 100000000⟩) = true := by
    unfold circleInsideAbs
    simp only [Bool.and_eq_true, decide_eq_true_eq]
    refine ⟨?_, ?_⟩
    · unfold V3.norm V3.normSq V3.dot
      simp only [V3.sub_x, V3.sub_y, V3.sub_z, V3.smul_x, V3.smul_y, V3.smul_z, Scalar.sqrt_real]
      rw [Real.sqrt_le_iff]
      norm_num
    · rw [iscloseZero_window]
      simp only [V3.sub_z, V3.smul_z]
      rw [abs_of_nonneg (by norm_num)]; norm_num
  rw [hl, hr] at this
  exact absurd this (by decide)

/-- **OLD `Ellipse.is_inside` (the coded one-sided box test)**: translations and positive scalings, same
window condition -/
theorem ellipse_isInside1_trans_scale {k : ℝ} (hk : 0 < k) (t : V3 ℝ) (a b : ℝ) (c p : V3 ℝ)
    (hwin : |k * (p - c).z| ≤ 1 / 100000000 ↔ |(p - c).z| ≤ 1 / 100000000) :
    ellipseInsideAbs (k * a) (k * b) (V3.smul k c + t) (V3.smul k p + t) = ellipseInsideAbs a b c p := by
  unfold ellipseInsideAbs
  have e : ∀ x y u : ℝ, (k * x + u - (k * y + u)) = k * (x - y) := by intros; ring
  simp only [V3.sub_x, V3.sub_y, V3.sub_z, V3.add_x, V3.add_y, V3.add_z, V3.smul_x, V3.smul_y, V3.smul_z, e,
    mul_div_mul_left _ _ hk.ne']
  congr 1
  rw [Bool.eq_iff_iff, iscloseZero_window, iscloseZero_window]
  simpa only [V3.sub_z] using hwin

/-- the quarter turn that maps the axis-aligned ellipse `(a, b)` to the axis-aligned ellipse `(b, a)`
does NOT preserve the coded test (consequence of the C06 finding) -/
theorem ellipse_inside_quarter_fails :
    ¬ (∀ (a b : ℝ) (c p : V3 ℝ),
        ellipseInsideAbs b a ⟨-c.y, c.x, c.z⟩ ⟨-p.y, p.x, p.z⟩ = ellipseInsideAbs a b c p) := by
  intro h
  have := h 1 2 ⟨0, 0, 0⟩ ⟨-5, -5, 0⟩
  revert this
  unfold ellipseInsideAbs iscloseZeroAbs iscloseAtol
  simp only [V3.sub_x, V3.sub_y, V3.sub_z, Scalar.lit, Scalar.q, Scalar.ofNat_real, Scalar.abs_real]
  norm_num

/-! ### the repaired expressions: fully covariant -/

/-- **`Circle.is_inside` (as repaired, `atol = 1e-8 · radius`) is covariant under EVERY similarity that keeps the
`z` direction** — rotation about `z`, any translation, any positive scale, every point of space. -/
theorem circleInsideRel_sim {g : Sim} (hg : g.Proper) (hz : KeepsZ g) (r : ℝ) (c p : V3 ℝ) :
    circleInsideRel (g.k * r) (g.pt c) (g.pt p) = circleInsideRel r c p := by
  unfold circleInsideRel
  simp only []
  rw [Sim.dist hg, sim_sub_z hz, decide_eq_decide.mpr (mul_le_mul_iff_right₀ hg.kpos)]
  congr 1
  rw [Bool.eq_iff_iff, iscloseAtol_iff, iscloseAtol_iff, abs_mul, abs_of_pos hg.kpos]
  have : q 1 100000000 * (g.k * r) = g.k * (q 1 100000000 * r) := by ring
  rw [this]
  exact mul_le_mul_iff_right₀ hg.kpos

/-- **`Ellipse.is_inside` (as repaired, `atol = 1e-8 · max(a, b)`; still the coded box test) is covariant under
every translation and positive scaling**, every point of space -/
theorem ellipseInsideRel_trans_scale {k : ℝ} (hk : 0 < k) (t : V3 ℝ) (a b : ℝ) (c p : V3 ℝ) :
    ellipseInsideRel (k * a) (k * b) (V3.smul k c + t) (V3.smul k p + t) = ellipseInsideRel a b c p := by
  unfold ellipseInsideRel
  have e : ∀ x y u : ℝ, (k * x + u - (k * y + u)) = k * (x - y) := by intros; ring
  simp only [V3.sub_x, V3.sub_y, V3.sub_z, V3.add_x, V3.add_y, V3.add_z, V3.smul_x, V3.smul_y, V3.smul_z, e,
    mul_div_mul_left _ _ hk.ne', smax_mul hk]
  congr 1
  rw [Bool.eq_iff_iff, iscloseAtol_iff, iscloseAtol_iff, abs_mul, abs_of_pos hk]
  have : q 1 100000000 * (k * Scalar.max a b) = k * (q 1 100000000 * Scalar.max a b) := by ring
  rw [this]
  exact mul_le_mul_iff_right₀ hk

/-- the quarter turn mapping the axis-aligned ellipse `(a, b)` to `(b, a)` still does NOT preserve the coded box
test (consequence of the C06 finding; the out-of-plane switch plays no role: the witness is in the plane) -/
theorem ellipseInsideRel_quarter_fails :
    ¬ (∀ (a b : ℝ) (c p : V3 ℝ),
        ellipseInsideRel b a ⟨-c.y, c.x, c.z⟩ ⟨-p.y, p.x, p.z⟩ = ellipseInsideRel a b c p) := by
  intro h
  have := h 1 2 ⟨0, 0, 0⟩ ⟨-5, -5, 0⟩
  revert this
  unfold ellipseInsideRel iscloseAtol
  simp only [V3.sub_x, V3.sub_y, V3.sub_z, Scalar.lit, Scalar.q, Scalar.ofNat_real, Scalar.abs_real, Scalar.max]
  norm_num

/-- the witness that breaks the OLD expression is harmless for the repaired one: at every scale the point
`2·10⁻⁸` radii above the centre is outside -/
example (k : ℝ) (hk : 0 < k) :
    circleInsideRel (k * 1) (V3.smul k ⟨0, 0, 0⟩) (V3.smul k ⟨0, 0, 2 / 100000000⟩) = circleInsideRel 1 ⟨0, 0, 0⟩ ⟨0, 0, 2 / 100000000⟩ := by
  have hz : KeepsZ (Sim.scaling k) := by
    intro v; simp [Sim.dir, Sim.scaling, Sim.mulVec_id]
  have := circleInsideRel_sim (Sim.scaling_proper hk) hz 1 ⟨0, 0, 0⟩ ⟨0, 0, 2 / 100000000⟩
  rw [Sim.scaling_pt, Sim.scaling_pt] at this
  exact this

/-! ### the tie to C06's model (as moved to bab419e) -/

theorem circle_model_eq (r : ℝ) (c p : V3 ℝ) : Circle.isInside1 r c p = circleInsideRel r c p := rfl
theorem ellipse_model_eq (a b : ℝ) (c p : V3 ℝ) : Ellipse.isInside1 a b c p = ellipseInsideRel a b c p := rfl

/-- **`Circle.is_inside` (C06's model) is covariant under every similarity keeping the `z` direction** -/
theorem circle_isInside1_sim_full {g : Sim} (hg : g.Proper) (hz : KeepsZ g) (r : ℝ) (c p : V3 ℝ) :
    Circle.isInside1 (g.k * r) (g.pt c) (g.pt p) = Circle.isInside1 r c p := by
  rw [circle_model_eq, circle_model_eq]; exact circleInsideRel_sim hg hz r c p

/-- **`Ellipse.is_inside` (C06's model) is covariant under every translation and positive scaling** -/
theorem ellipse_isInside1_trans_scale_full {k : ℝ} (hk : 0 < k) (t : V3 ℝ) (a b : ℝ) (c p : V3 ℝ) :
    Ellipse.isInside1 (k * a) (k * b) (V3.smul k c + t) (V3.smul k p + t) = Ellipse.isInside1 a b c p := by
  rw [ellipse_model_eq, ellipse_model_eq]; exact ellipseInsideRel_trans_scale hk t a b c p

theorem ellipse_isInside1_quarter_fails :
    ¬ (∀ (a b : ℝ) (c p : V3 ℝ),
        Ellipse.isInside1 b a ⟨-c.y, c.x, c.z⟩ ⟨-p.y, p.x, p.z⟩ = Ellipse.isInside1 a b c p) := by
  simp only [ellipse_model_eq]; exact ellipseInsideRel_quarter_fails

end Inside2D

end
