import CoxeterVerif.Lemmas.FamiliesSolid
/-! The uniform antiprism of `common.py` as a union of tetrahedra: unit volume and centroid at the
    origin, for every `n ≥ 3`. -/
open Scalar
set_option maxRecDepth 4000

namespace Fam
noncomputable section

/-- cones over a surface given sector-wise are a swept solid when every sector is the rotated
    first one -/
theorem cones_swept (n : Nat) (tri : Nat → List (Tri ℝ)) (S0 : List (Tet ℝ))
    (h : ∀ k < n, conesOver (tri k) = S0.map (Tet.map (rotZ ((k : ℝ) * delta n)))) :
    conesOver ((List.range n).flatMap tri) = swept n S0 := by
  unfold swept
  have : conesOver ((List.range n).flatMap tri) = (List.range n).flatMap fun k => conesOver (tri k) := by
    unfold conesOver; rw [List.map_flatMap]
  rw [this]
  apply List.flatMap_congr
  intro k hk
  exact h k (List.mem_range.mp hk)

theorem vtx_two_rings (lo hi : Nat → V3 ℝ) (n : Nat) (tail : List (V3 ℝ)) {k : Nat} (hk : k < n) :
    vtx ((List.range n).map lo ++ ((List.range n).map hi ++ tail)) k = lo k ∧
    vtx ((List.range n).map lo ++ ((List.range n).map hi ++ tail)) (n + k) = hi k := by
  refine ⟨vtx_ring_left lo n _ hk, ?_⟩
  have := vtx_ring_right ((List.range n).map lo) ((List.range n).map hi ++ tail) k
  simp only [List.length_map, List.length_range] at this
  rw [this]
  exact vtx_ring_left hi n _ hk

/-- the sector of the antiprism: cones over the top and bottom fan triangles and the two side
    triangles between the vertices 0 and 1 of the rings -/
def antiprismSector (lo0 lo1 hi0 hi1 : V3 ℝ) : List (Tet ℝ) :=
  [⟨V3.zero, axisPoint hi0, hi0, hi1⟩, ⟨V3.zero, axisPoint lo0, lo1, lo0⟩,
   ⟨V3.zero, hi0, lo0, hi1⟩, ⟨V3.zero, lo0, lo1, hi1⟩]

/-- the antiprism's surface cones are the swept sector -/
theorem antiprism_cones_swept {n : Nat} (hn : 3 ≤ n) (zl zh Al Ah al ah : ℝ) :
    let lo := ngonVertex n zl Al al
    let hi := ngonVertex n zh Ah ah
    conesOver (antiprismSurface n ((List.range n).map lo ++ (List.range n).map hi))
      = swept n (antiprismSector (lo 0) (lo 1) (hi 0) (hi 1)) := by
  intro lo hi
  unfold antiprismSurface
  apply cones_swept
  intro k hk
  have hv := vtx_two_rings lo hi n [] hk
  have hv' := vtx_two_rings lo hi n [] (succ_mod_lt hk)
  simp only [List.append_nil] at hv hv'
  have plo : lo ((k + 1) % n) = lo (k + 1) :=
    ring_succ_mod lo (by simpa using ngonVertex_periodic hn zl Al al 0) hk
  have phi : hi ((k + 1) % n) = hi (k + 1) :=
    ring_succ_mod hi (by simpa using ngonVertex_periodic hn zh Ah ah 0) hk
  simp only [hv.1, hv.2, hv'.1, hv'.2, plo, phi]
  have r0l : lo k = rotZ (k * delta n) (lo 0) := ngonVertex_rot n zl Al al k
  have r1l : lo (k + 1) = rotZ (k * delta n) (lo 1) := ngonVertex_succ_rot n zl Al al k
  have r0h : hi k = rotZ (k * delta n) (hi 0) := ngonVertex_rot n zh Ah ah k
  have r1h : hi (k + 1) = rotZ (k * delta n) (hi 1) := ngonVertex_succ_rot n zh Ah ah k
  rw [r0l, r1l, r0h, r1h]
  simp [conesOver, antiprismSector, Tet.map, rotZ_zero_vec, axisPoint_rot]

/-- volume and z-moment of the antiprism sector for rings of radius `r` at heights `∓H`, the lower
    one turned by `x = δ/2` -/
theorem antiprismSector_spec (r H x : ℝ) :
    let δ := 2 * x
    let lo0 : V3 ℝ := ⟨Real.cos x * r, Real.sin x * r, -H⟩
    let lo1 : V3 ℝ := ⟨Real.cos (δ + x) * r, Real.sin (δ + x) * r, -H⟩
    let hi0 : V3 ℝ := ⟨r, 0, H⟩
    let hi1 : V3 ℝ := ⟨Real.cos δ * r, Real.sin δ * r, H⟩
    Spec.vol (antiprismSector lo0 lo1 hi0 hi1) = 2 / 3 * H * r * r * (Real.sin δ + Real.sin x) ∧
    (Spec.first (antiprismSector lo0 lo1 hi0 hi1)).z = 0 := by
  intro δ lo0 lo1 hi0 hi1
  have h1 := Real.sin_sq_add_cos_sq x
  have h2 := Real.sin_sq_add_cos_sq δ
  have h3 : Real.sin δ * Real.cos x - Real.cos δ * Real.sin x = Real.sin x := by
    rw [← Real.sin_sub]; congr 1; simp only [δ]; ring
  have c3 : Real.cos (δ + x) = Real.cos δ * Real.cos x - Real.sin δ * Real.sin x := Real.cos_add _ _
  have s3 : Real.sin (δ + x) = Real.sin δ * Real.cos x + Real.cos δ * Real.sin x := Real.sin_add _ _
  simp only [lo0, lo1, hi0, hi1, c3, s3]
  generalize Real.cos x = cx at *
  generalize Real.sin x = sx at *
  generalize Real.cos δ = cd at *
  generalize Real.sin δ = sd at *
  constructor
  · simp only [antiprismSector, vol_cons, vol_nil, Spec.tetVol, V3.det3, V3.dot, V3.cross, V3.sub_x,
      V3.sub_y, V3.sub_z, V3.zero_x, V3.zero_y, V3.zero_z, axisPoint, Scalar.lit, Scalar.ofNat_real]
    linear_combination (1 / 6 * (2 * H * r * r * sd)) * h1 + (1 / 6 * (2 * H * r * r)) * h3
      + (1 / 6 * (H * r * r * sx)) * h2
  · simp only [antiprismSector, first_cons, first_nil, Spec.tetFirst, Spec.tetSum, Spec.tetVol, V3.det3,
      V3.dot, V3.cross, V3.sub_x, V3.sub_y, V3.sub_z, V3.add_x, V3.add_y, V3.add_z, V3.smul_z,
      V3.zero_x, V3.zero_y, V3.zero_z, axisPoint, Scalar.lit, Scalar.ofNat_real]
    linear_combination (-(H * H * r * r / 24) * 4 * sd) * h1 - (H * H * r * r / 24 * sx) * h2

end
end Fam

namespace Fam
noncomputable section

/-- `cot(y) + cot(2y) = (2cos 2y + 1)/sin 2y` -/
theorem cot_half_add_cot {y : ℝ} (hs : 0 < Real.sin y) (hc : 0 < Real.cos y) (hs2 : 0 < Real.sin (2 * y)) :
    1 / Real.tan y + 1 / Real.tan (2 * y) = (2 * Real.cos (2 * y) + 1) / Real.sin (2 * y) := by
  rw [Real.tan_eq_sin_div_cos, Real.tan_eq_sin_div_cos, one_div_div, one_div_div]
  have e1 : Real.sin (2 * y) = 2 * Real.sin y * Real.cos y := Real.sin_two_mul y
  have e2 : Real.cos (2 * y) = 2 * Real.cos y ^ 2 - 1 := Real.cos_two_mul y
  rw [e1] at hs2 ⊢
  rw [e2]
  field_simp
  ring

/-- the closed form behind `UniformAntiprismFamily`: with the coded edge length, height and base
    area, `n · (2/3)·(h/2)·r²·(sin 2x + sin x) = 1` (`x = π/n`, `r` the circumradius of the rings) -/
theorem antiprism_volume_closed {n : Nat} (hn : 3 ≤ n) :
    (n : ℝ) * (2 / 3 * ((antiprismH n : ℝ) / 2) * ngonScale n (antiprismArea n : ℝ) * ngonScale n (antiprismArea n : ℝ)
      * (Real.sin (2 * (Real.pi / n)) + Real.sin (Real.pi / n))) = 1 := by
  have hn0 : (0:ℝ) < n := by exact_mod_cast (by omega : 0 < n)
  have hsx := sin_pi_div_pos hn
  have hcx := cos_pi_div_pos hn
  have hsy := sin_hx_pos hn
  have hcy2 := cos_hx_gt_half hn
  have hcy : 0 < Real.cos (hx n) := by linarith
  have hxy : Real.pi / n = 2 * hx n := pi_div_eq_two_hx n
  -- q = sqrt(1 − sec²y/4)
  set q := Real.sqrt (1 - 1 / 4 * (1 / Real.cos (hx n) * (1 / Real.cos (hx n)))) with hq
  have hqarg : 0 < 1 - 1 / 4 * (1 / Real.cos (hx n) * (1 / Real.cos (hx n))) := by
    have : 1 / Real.cos (hx n) * (1 / Real.cos (hx n)) < 4 := by
      rw [one_div_mul_one_div, div_lt_iff₀ (by positivity)]; nlinarith
    linarith
  have hqpos : 0 < q := Real.sqrt_pos.mpr hqarg
  have hqsq : q * q = 1 - 1 / 4 * (1 / Real.cos (hx n) * (1 / Real.cos (hx n))) := Real.mul_self_sqrt hqarg.le
  have hsqrt4 : Real.sqrt (4 - 1 / Real.cos (hx n) * (1 / Real.cos (hx n))) = 2 * q := by
    rw [show 4 - 1 / Real.cos (hx n) * (1 / Real.cos (hx n)) = (2 * q) * (2 * q) by nlinarith [hqsq]]
    exact Real.sqrt_mul_self (by positivity)
  have hH : (antiprismH n : ℝ) = q * antiprismS n := by
    simp [antiprismH, sec_real, Scalar.lit, Scalar.sqr, Scalar.q, hx, hq]
  -- S³
  have hcot : 1 / Real.tan (hx n) + 1 / Real.tan (Real.pi / n)
      = (2 * Real.cos (Real.pi / n) + 1) / Real.sin (Real.pi / n) := by
    rw [hxy]; exact cot_half_add_cot hsy hcy (by rw [← hxy]; exact hsx)
  have hSreal : (antiprismS n : ℝ) = Scalar.cbrt (24 / (n * (1 / Real.tan (hx n) + 1 / Real.tan (Real.pi / n))
      * Real.sqrt (4 - 1 / Real.cos (hx n) * (1 / Real.cos (hx n))))) := by
    simp [antiprismS, cot_real, sec_real, Scalar.lit, Scalar.sqr, hx]
  have h2c : 0 < 2 * Real.cos (Real.pi / n) + 1 := by linarith
  have hSarg : 0 < 24 / (n * (1 / Real.tan (hx n) + 1 / Real.tan (Real.pi / n))
      * Real.sqrt (4 - 1 / Real.cos (hx n) * (1 / Real.cos (hx n)))) := by
    rw [hcot, hsqrt4]; positivity
  have hS3 : (antiprismS n : ℝ) ^ 3 = 24 / (n * ((2 * Real.cos (Real.pi / n) + 1) / Real.sin (Real.pi / n)) * (2 * q)) := by
    rw [hSreal, cbrt_cube hSarg.le, hcot, hsqrt4]
  have hr := ngon_radius_sq hn (antiprismArea_nonneg hn)
  rw [mul_assoc (2 / 3 * ((antiprismH n : ℝ) / 2)), hr, antiprismArea_real, Real.tan_eq_sin_div_cos, one_div_div,
    hH, Real.sin_two_mul]
  generalize (antiprismS n : ℝ) = S at *
  generalize Real.sin (Real.pi / n) = s at *
  generalize Real.cos (Real.pi / n) = c at *
  field_simp at hS3 ⊢
  nlinarith [hS3]

end
end Fam

namespace Fam
noncomputable section

/-- **Antiprism as a solid.** The union of the cones from the origin over the 4n boundary triangles
    of the vertex array built by `UniformAntiprismFamily.make_vertices(n)` has volume 1 and
    vanishing first moments (centroid at the origin), for every `n ≥ 3`. -/
theorem antiprism_solid {n : Nat} (hn : 3 ≤ n) :
    let h : ℝ := antiprismH n
    let A : ℝ := antiprismArea n
    let lo := ngonVertex n (-h / 2) A (Real.pi / n)
    let hi := ngonVertex n (h / 2) A 0
    solidVolume (antiprismSurface n ((List.range n).map lo ++ (List.range n).map hi)) = 1 ∧
    solidFirst (antiprismSurface n ((List.range n).map lo ++ (List.range n).map hi)) = ⟨0, 0, 0⟩ := by
  intro h A lo hi
  have hsw := antiprism_cones_swept hn (-h / 2) (h / 2) A A (Real.pi / n) 0
  simp only [] at hsw
  unfold solidVolume solidFirst
  rw [hsw]
  obtain ⟨hv, hf⟩ := swept_spec hn (antiprismSector (lo 0) (lo 1) (hi 0) (hi 1))
  have e_lo0 : lo 0 = ⟨Real.cos (Real.pi / n) * ngonScale n A, Real.sin (Real.pi / n) * ngonScale n A, -(h / 2)⟩ := by
    simp [lo, ngonVertex_real, neg_div]
  have e_lo1 : lo 1 = ⟨Real.cos (2 * (Real.pi / n) + Real.pi / n) * ngonScale n A,
      Real.sin (2 * (Real.pi / n) + Real.pi / n) * ngonScale n A, -(h / 2)⟩ := by
    simp [lo, ngonVertex_real, neg_div, delta_eq_two_mul]
  have e_hi0 : hi 0 = ⟨ngonScale n A, 0, h / 2⟩ := by
    simp [hi, ngonVertex_real]
  have e_hi1 : hi 1 = ⟨Real.cos (2 * (Real.pi / n)) * ngonScale n A, Real.sin (2 * (Real.pi / n)) * ngonScale n A, h / 2⟩ := by
    simp [hi, ngonVertex_real, delta_eq_two_mul]
  have hs := antiprismSector_spec (ngonScale n A) (h / 2) (Real.pi / n)
  simp only [] at hs
  rw [← e_lo0, ← e_lo1, ← e_hi0, ← e_hi1] at hs
  rw [hv, hf, hs.1, hs.2, mul_zero]
  exact ⟨antiprism_volume_closed hn, rfl⟩

end
end Fam
