import CoxeterVerif.Lemmas.CurvedMeasure
import Mathlib.MeasureTheory.Integral.DominatedConvergence
/-!
  C10: the surface integral of the ellipsoid (area element of the standard parametrisation, `CSpec.surfElement`),
  the lower bound `S ≥ (4π/3)(ab+bc+ca)` (pointwise Jensen on the area element) and the isoperimetric inequality
  `36π V² ≤ S³` for EVERY ellipsoid that follows from it (AM-GM), with equality only for the sphere.
-/
open Curved MeasureTheory intervalIntegral
noncomputable section
namespace C10

/-- **surface area = integral of the area element** `|∂θ × ∂φ|` of `(θ,φ) ↦ (a sinθ cosφ, b sinθ sinφ, c cosθ)`
over `[0,π] × [0,2π]` -/
def surfaceIntegral (a b c : ℝ) : ℝ :=
  ∫ θ in (0:ℝ)..Real.pi, ∫ φ in (0:ℝ)..2 * Real.pi, CSpec.surfElement a b c θ φ

theorem surfElement_real (a b c θ φ : ℝ) :
    CSpec.surfElement a b c θ φ = Real.sin θ * Real.sqrt ((b * c) ^ 2 * (Real.sin θ ^ 2 * Real.cos φ ^ 2)
      + (a * c) ^ 2 * (Real.sin θ ^ 2 * Real.sin φ ^ 2) + (a * b) ^ 2 * Real.cos θ ^ 2) := by
  simp only [CSpec.surfElement, Scalar.sqrt_real, Scalar.sin_real, Scalar.cos_real]
  congr 2; ring

theorem surfElement_continuous (a b c : ℝ) : Continuous (Function.uncurry (CSpec.surfElement a b c)) := by
  have : Function.uncurry (CSpec.surfElement a b c) = fun p : ℝ × ℝ =>
      Real.sin p.1 * Real.sqrt ((b * c) ^ 2 * (Real.sin p.1 ^ 2 * Real.cos p.2 ^ 2)
      + (a * c) ^ 2 * (Real.sin p.1 ^ 2 * Real.sin p.2 ^ 2) + (a * b) ^ 2 * Real.cos p.1 ^ 2) := by
    funext p; exact surfElement_real a b c p.1 p.2
  rw [this]; fun_prop

/-- Jensen for three weights: `w₁X₁ + w₂X₂ + w₃X₃ ≤ √(w₁X₁² + w₂X₂² + w₃X₃²)` when `w ≥ 0`, `Σw = 1` -/
theorem jensen3 (w1 w2 w3 X1 X2 X3 : ℝ) (h1 : 0 ≤ w1) (h2 : 0 ≤ w2) (h3 : 0 ≤ w3) (hs : w1 + w2 + w3 = 1) :
    w1 * X1 + w2 * X2 + w3 * X3 ≤ Real.sqrt (X1 ^ 2 * w1 + X2 ^ 2 * w2 + X3 ^ 2 * w3) := by
  apply Real.le_sqrt_of_sq_le
  have e : X1 ^ 2 * w1 + X2 ^ 2 * w2 + X3 ^ 2 * w3 - (w1 * X1 + w2 * X2 + w3 * X3) ^ 2
      = w1 * w2 * (X1 - X2) ^ 2 + w1 * w3 * (X1 - X3) ^ 2 + w2 * w3 * (X2 - X3) ^ 2 := by
    have : w3 = 1 - w1 - w2 := by linarith
    subst this; ring
  have : 0 ≤ w1 * w2 * (X1 - X2) ^ 2 + w1 * w3 * (X1 - X3) ^ 2 + w2 * w3 * (X2 - X3) ^ 2 := by positivity
  linarith

/-- the integrand of the lower bound -/
def surfLower (a b c θ φ : ℝ) : ℝ :=
  Real.sin θ * (b * c * (Real.sin θ ^ 2 * Real.cos φ ^ 2) + a * c * (Real.sin θ ^ 2 * Real.sin φ ^ 2)
    + a * b * Real.cos θ ^ 2)

theorem surfLower_le (a b c θ φ : ℝ) (hθ : 0 ≤ Real.sin θ) :
    surfLower a b c θ φ ≤ CSpec.surfElement a b c θ φ := by
  rw [surfElement_real, surfLower]
  apply mul_le_mul_of_nonneg_left _ hθ
  have hw : Real.sin θ ^ 2 * Real.cos φ ^ 2 + Real.sin θ ^ 2 * Real.sin φ ^ 2 + Real.cos θ ^ 2 = 1 := by
    have h1 := Real.sin_sq_add_cos_sq θ
    have h2 := Real.sin_sq_add_cos_sq φ
    linear_combination Real.sin θ ^ 2 * h2 + h1
  have := jensen3 (Real.sin θ ^ 2 * Real.cos φ ^ 2) (Real.sin θ ^ 2 * Real.sin φ ^ 2) (Real.cos θ ^ 2)
    (b * c) (a * c) (a * b) (by positivity) (by positivity) (by positivity) hw
  linarith

theorem surfLower_continuous (a b c : ℝ) : Continuous (Function.uncurry (surfLower a b c)) := by
  unfold surfLower; fun_prop

theorem surfLower_inner (a b c θ : ℝ) :
    ∫ φ in (0:ℝ)..2 * Real.pi, surfLower a b c θ φ
      = Real.pi * (b * c + a * c) * Real.sin θ ^ 3 + 2 * Real.pi * (a * b) * (Real.sin θ * Real.cos θ ^ 2) := by
  have e : ∀ φ, surfLower a b c θ φ = (Real.sin θ ^ 3 * (b * c)) * Real.cos φ ^ 2
      + (Real.sin θ ^ 3 * (a * c)) * Real.sin φ ^ 2 + Real.sin θ * (a * b) * Real.cos θ ^ 2 := by
    intro φ; unfold surfLower; ring
  simp only [e]
  rw [intervalIntegral.integral_add, intervalIntegral.integral_add, intervalIntegral.integral_const_mul, intervalIntegral.integral_const_mul, integral_cos_sq, integral_sin_sq,
    intervalIntegral.integral_const]
  · simp only [Real.sin_two_pi, Real.cos_two_pi, Real.sin_zero, Real.cos_zero, smul_eq_mul]; ring
  · exact (Continuous.intervalIntegrable (by fun_prop) _ _)
  · exact (Continuous.intervalIntegrable (by fun_prop) _ _)
  · exact (Continuous.intervalIntegrable (by fun_prop) _ _)
  · exact (Continuous.intervalIntegrable (by fun_prop) _ _)

theorem surfLower_integral (a b c : ℝ) :
    ∫ θ in (0:ℝ)..Real.pi, ∫ φ in (0:ℝ)..2 * Real.pi, surfLower a b c θ φ
      = 4 * Real.pi / 3 * (a * b + b * c + c * a) := by
  simp only [surfLower_inner]
  rw [intervalIntegral.integral_add, intervalIntegral.integral_const_mul, intervalIntegral.integral_const_mul, integral_sin_pow_three, integral_sin_mul_cos_sq]
  · simp only [Real.cos_zero, Real.cos_pi]; ring
  · exact (Continuous.intervalIntegrable (by fun_prop) _ _)
  · exact (Continuous.intervalIntegrable (by fun_prop) _ _)

/-- **`S ≥ (4π/3)(ab + bc + ca)`** for the surface integral of every ellipsoid -/
theorem surfaceIntegral_ge (a b c : ℝ) :
    4 * Real.pi / 3 * (a * b + b * c + c * a) ≤ surfaceIntegral a b c := by
  rw [← surfLower_integral, surfaceIntegral]
  apply integral_mono_on Real.pi_pos.le
  · exact (continuous_parametric_intervalIntegral_of_continuous' (surfLower_continuous a b c) _ _).intervalIntegrable _ _
  · exact (continuous_parametric_intervalIntegral_of_continuous' (surfElement_continuous a b c) _ _).intervalIntegrable _ _
  · intro θ hθ
    apply integral_mono_on (by positivity)
    · exact (Continuous.intervalIntegrable ((surfLower_continuous a b c).comp (by fun_prop : Continuous fun φ : ℝ => (θ, φ))) _ _)
    · exact (Continuous.intervalIntegrable ((surfElement_continuous a b c).comp (by fun_prop : Continuous fun φ : ℝ => (θ, φ))) _ _)
    · intro φ _
      exact surfLower_le a b c θ φ (Real.sin_nonneg_of_nonneg_of_le_pi hθ.1 hθ.2)

/-! ### isoperimetric inequality from the lower bound -/

theorem amgm3 (x y z : ℝ) (hx : 0 ≤ x) (hy : 0 ≤ y) (hz : 0 ≤ z) : 27 * (x * y * z) ≤ (x + y + z) ^ 3 := by
  nlinarith [mul_nonneg hx (sq_nonneg (y - z)), mul_nonneg hy (sq_nonneg (z - x)), mul_nonneg hz (sq_nonneg (x - y)),
    mul_nonneg (add_nonneg (add_nonneg hx hy) hz) (sq_nonneg (x - y)),
    mul_nonneg (add_nonneg (add_nonneg hx hy) hz) (sq_nonneg (y - z)),
    mul_nonneg (add_nonneg (add_nonneg hx hy) hz) (sq_nonneg (z - x))]

theorem amgm3_strict (x y z : ℝ) (hx : 0 < x) (hy : 0 < y) (hz : 0 < z) (hne : ¬ (x = y ∧ y = z)) :
    27 * (x * y * z) < (x + y + z) ^ 3 := by
  have key : 0 < z * (x - y) ^ 2 + x * (y - z) ^ 2 := by
    by_cases h : x = y
    · have h2 : y ≠ z := fun h' => hne ⟨h, h'⟩
      have : 0 < (y - z) ^ 2 := by have := sub_ne_zero.mpr h2; positivity
      have : 0 < x * (y - z) ^ 2 := by positivity
      nlinarith [mul_nonneg hz.le (sq_nonneg (x - y))]
    · have : 0 < (x - y) ^ 2 := by have := sub_ne_zero.mpr h; positivity
      have : 0 < z * (x - y) ^ 2 := by positivity
      nlinarith [mul_nonneg hx.le (sq_nonneg (y - z))]
  nlinarith [mul_nonneg hy.le (sq_nonneg (z - x)),
    mul_nonneg (add_nonneg (add_nonneg hx.le hy.le) hz.le) (sq_nonneg (x - y)),
    mul_nonneg (add_nonneg (add_nonneg hx.le hy.le) hz.le) (sq_nonneg (y - z)),
    mul_nonneg (add_nonneg (add_nonneg hx.le hy.le) hz.le) (sq_nonneg (z - x))]

/-- the rational majorant of the isoperimetric quotient -/
def iqBound (a b c : ℝ) : ℝ := 27 * (a * b * c) ^ 2 / (a * b + b * c + c * a) ^ 3

theorem iqBound_le_one (a b c : ℝ) (ha : 0 < a) (hb : 0 < b) (hc : 0 < c) : iqBound a b c ≤ 1 := by
  unfold iqBound
  rw [div_le_one (by positivity)]
  have := amgm3 (a * b) (b * c) (c * a) (by positivity) (by positivity) (by positivity)
  nlinarith

theorem iqBound_lt_one (a b c : ℝ) (ha : 0 < a) (hb : 0 < b) (hc : 0 < c) (hne : ¬ (a = b ∧ b = c)) :
    iqBound a b c < 1 := by
  unfold iqBound
  rw [div_lt_one (by positivity)]
  have hne' : ¬ (a * b = b * c ∧ b * c = c * a) := by
    rintro ⟨h1, h2⟩
    have e1 : a = c := by
      have : b * a = b * c := by linarith
      exact mul_left_cancel₀ hb.ne' this
    have e2 : b = a := by
      have : c * b = c * a := by linarith
      exact mul_left_cancel₀ hc.ne' this
    exact hne ⟨e2.symm, e2.trans e1⟩
  have := amgm3_strict (a * b) (b * c) (c * a) (by positivity) (by positivity) (by positivity) hne'
  nlinarith

/-- **isoperimetric inequality for every ellipsoid**, on the defining integrals: `36π V²/S³ ≤ 27(abc)²/(ab+bc+ca)³` -/
theorem iq3_surfaceIntegral_le (a b c : ℝ) (ha : 0 < a) (hb : 0 < b) (hc : 0 < c) (S : ℝ)
    (hS : surfaceIntegral a b c ≤ S) :
    iq3 (Ellipsoid.volume a b c) S ≤ iqBound a b c := by
  have hpi := Real.pi_pos
  have hσ : 0 < a * b + b * c + c * a := by positivity
  have h0 : 0 < 4 * Real.pi / 3 * (a * b + b * c + c * a) := by positivity
  have hS0 := (surfaceIntegral_ge a b c).trans hS
  have hSpos : 0 < S := lt_of_lt_of_le h0 hS0
  have hcube : (4 * Real.pi / 3 * (a * b + b * c + c * a)) ^ 3 ≤ S ^ 3 := pow_le_pow_left₀ h0.le hS0 3
  simp only [iq3, Ellipsoid.volume, iqBound, Scalar.lit, Scalar.q, Scalar.sqr, Scalar.cube, Scalar.ofNat_real,
    Nat.cast_ofNat, Scalar.pi_real]
  rw [div_le_div_iff₀ (by positivity) (by positivity)]
  have e : (4 * Real.pi / 3 * (a * b + b * c + c * a)) ^ 3
      = 64 * Real.pi ^ 3 / 27 * (a * b + b * c + c * a) ^ 3 := by ring
  rw [e] at hcube
  have hk : 0 ≤ 27 * (a * b * c) ^ 2 := by positivity
  have := mul_le_mul_of_nonneg_left hcube hk
  nlinarith [this]

end C10
