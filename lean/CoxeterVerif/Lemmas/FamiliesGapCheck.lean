import CoxeterVerif.Lemmas.FamiliesZ5
/-! The per-run check of hypothesis (G2) (`Fam.halfspaceGap`, Spec/Families.lean): the driver runs it
    exactly over ℚ; here: (i) its value over ℚ is its value over ℝ on the cast rows (ℚ → ℝ is an
    ordered-field embedding and the check uses only + − × ÷ ≤ < =), (ii) over ℝ `true` is (G2),
    (iii) the rows of a rational table (323+, 423) at rational parameters cast to the model's real
    rows. -/
open Scalar
set_option maxRecDepth 4000

namespace Fam
noncomputable section

def castV (v : V3 ℚ) : V3 ℝ := ⟨(v.x : ℝ), (v.y : ℝ), (v.z : ℝ)⟩
def castRow (r : Row ℚ) : Row ℝ := (castV r.1, (r.2 : ℝ))

theorem lit_rat (n : Nat) : (Scalar.lit n : ℚ) = (n : ℚ) := rfl

theorem cast_dot (u v : V3 ℚ) : ((V3.dot u v : ℚ) : ℝ) = V3.dot (castV u) (castV v) := by
  show ((u.x * v.x + u.y * v.y + u.z * v.z : ℚ) : ℝ) = _
  simp only [V3.dot, castV]; push_cast; rfl

theorem castV_cross (u v : V3 ℚ) : castV (V3.cross u v) = V3.cross (castV u) (castV v) := by
  apply V3.ext'
  · show ((u.y * v.z - u.z * v.y : ℚ) : ℝ) = _; simp only [V3.cross, castV]; push_cast; rfl
  · show ((u.z * v.x - u.x * v.z : ℚ) : ℝ) = _; simp only [V3.cross, castV]; push_cast; rfl
  · show ((u.x * v.y - u.y * v.x : ℚ) : ℝ) = _; simp only [V3.cross, castV]; push_cast; rfl

theorem castV_add (u v : V3 ℚ) : castV (u + v) = castV u + castV v := by
  apply V3.ext'
  · show ((u.x + v.x : ℚ) : ℝ) = _; simp only [castV, V3.add_x]; push_cast; rfl
  · show ((u.y + v.y : ℚ) : ℝ) = _; simp only [castV, V3.add_y]; push_cast; rfl
  · show ((u.z + v.z : ℚ) : ℝ) = _; simp only [castV, V3.add_z]; push_cast; rfl

theorem castV_smul (k : ℚ) (u : V3 ℚ) : castV (V3.smul k u) = V3.smul (k : ℝ) (castV u) := by
  apply V3.ext'
  · show ((k * u.x : ℚ) : ℝ) = _; simp only [castV, V3.smul_x]; push_cast; rfl
  · show ((k * u.y : ℚ) : ℝ) = _; simp only [castV, V3.smul_y]; push_cast; rfl
  · show ((k * u.z : ℚ) : ℝ) = _; simp only [castV, V3.smul_z]; push_cast; rfl

theorem castV_sdiv (u : V3 ℚ) (k : ℚ) : castV (V3.sdiv u k) = V3.sdiv (castV u) (k : ℝ) := by
  apply V3.ext'
  · show ((u.x / k : ℚ) : ℝ) = _; simp only [castV, V3.sdiv_x]; push_cast; rfl
  · show ((u.y / k : ℚ) : ℝ) = _; simp only [castV, V3.sdiv_y]; push_cast; rfl
  · show ((u.z / k : ℚ) : ℝ) = _; simp only [castV, V3.sdiv_z]; push_cast; rfl

def castT (t : Row ℚ × Row ℚ × Row ℚ) : Row ℝ × Row ℝ × Row ℝ := (castRow t.1, castRow t.2.1, castRow t.2.2)

theorem cast_tripleDet (t : Row ℚ × Row ℚ × Row ℚ) : ((tripleDet t : ℚ) : ℝ) = tripleDet (castT t) := by
  simp only [tripleDet, V3.det3, castT, castRow]
  rw [cast_dot, castV_cross]

theorem castV_solve3 (t : Row ℚ × Row ℚ × Row ℚ) : castV (solve3 t) = solve3 (castT t) := by
  simp only [solve3]
  rw [castV_sdiv, castV_add, castV_add, castV_smul, castV_smul, castV_smul, castV_cross, castV_cross,
    castV_cross, cast_tripleDet]
  rfl

theorem thresh_cast : (((thresh : ℚ)) : ℝ) = (thresh : ℝ) := by
  rw [thresh_real]
  show ((((1 : ℕ) : ℚ) / ((1000000 : ℕ) : ℚ) : ℚ) : ℝ) = 1 / 1000000
  push_cast; rfl


theorem castT_mem_triples (R : List (Row ℚ)) :
    triplesOf (R.map castRow) = (triplesOf R).map castT := by
  have hp : ∀ l : List (Row ℚ), pairsOf (l.map castRow) = (pairsOf l).map (fun p => (castRow p.1, castRow p.2)) := by
    intro l
    induction l with
    | nil => rfl
    | cons x xs ih => simp only [List.map_cons, pairsOf, List.map_append, List.map_map, ih]; rfl
  induction R with
  | nil => rfl
  | cons x xs ih =>
    simp only [List.map_cons, triplesOf, List.map_append, List.map_map, ih, hp]
    rfl

theorem le_cast_iff (a b : ℚ) : (a ≤ b) ↔ ((a : ℝ) ≤ (b : ℝ)) := Rat.cast_le.symm
theorem lt_cast_iff (a b : ℚ) : (a < b) ↔ ((a : ℝ) < (b : ℝ)) := Rat.cast_lt.symm

theorem gapTripleOk_cast (R : List (Row ℚ)) (t : Row ℚ × Row ℚ × Row ℚ) :
    gapTripleOk R t = gapTripleOk (R.map castRow) (castT t) := by
  unfold gapTripleOk
  have e1 : Scalar.eqb (tripleDet t) (lit 0 : ℚ) = Scalar.eqb (tripleDet (castT t)) (lit 0 : ℝ) := by
    rw [← cast_tripleDet]
    show decide (tripleDet t = ((0 : ℕ) : ℚ)) = decide (((tripleDet t : ℚ) : ℝ) = ((0 : ℕ) : ℝ))
    simp
  have e2 : (R.all fun r => decide (V3.dot r.1 (solve3 t) ≤ r.2))
      = ((R.map castRow).all fun r => decide (V3.dot r.1 (solve3 (castT t)) ≤ r.2)) := by
    rw [List.all_map]
    congr 1; funext r
    simp only [Function.comp, castRow, ← castV_solve3, ← cast_dot]
    exact decide_eq_decide.mpr (le_cast_iff _ _)
  have e3 : (R.any fun r => decide (r.2 + thresh < V3.dot r.1 (solve3 t)))
      = ((R.map castRow).any fun r => decide (r.2 + thresh < V3.dot r.1 (solve3 (castT t)))) := by
    rw [List.any_map]
    congr 1; funext r
    simp only [Function.comp, castRow, ← castV_solve3, ← cast_dot, ← thresh_cast]
    apply decide_eq_decide.mpr
    rw [lt_cast_iff]
    show _ ↔ ((r.2 : ℝ) + ((thresh : ℚ) : ℝ) < _)
    have : (((r.2 + thresh : ℚ)) : ℝ) = (r.2 : ℝ) + ((thresh : ℚ) : ℝ) := by
      show (((r.2 + (thresh : ℚ) : ℚ)) : ℝ) = _; push_cast; rfl
    rw [this]
  rw [e1, e2, e3]

/-- the check run over ℚ is the check over ℝ on the same (rational) rows -/
theorem halfspaceGap_cast (R : List (Row ℚ)) : halfspaceGap R = halfspaceGap (R.map castRow) := by
  unfold halfspaceGap
  rw [castT_mem_triples, List.all_map]
  congr 1; funext t
  exact gapTripleOk_cast R t

/-- soundness over ℝ: the check is hypothesis (G2) of `make_vertices_exact_of_gap` -/
theorem halfspaceGap_sound (R : List (Row ℝ)) (h : halfspaceGap R = true)
    (t : Row ℝ × Row ℝ × Row ℝ) (ht : [t.1, t.2.1, t.2.2].Sublist R) (hd : tripleDet t ≠ 0) :
    (∀ r ∈ R, V3.dot r.1 (solve3 t) ≤ r.2) ∨ (∃ r ∈ R, r.2 + 1 / 1000000 < V3.dot r.1 (solve3 t)) := by
  unfold halfspaceGap at h
  rw [List.all_eq_true] at h
  have := h t (by rcases t with ⟨a, b, c⟩; exact triplesOf_complete R a b c ht)
  unfold gapTripleOk at this
  simp only [Bool.or_eq_true, List.all_eq_true, List.any_eq_true, decide_eq_true_eq, thresh_real] at this
  rcases this with h0 | h1 | h2
  · exfalso; apply hd
    simpa [Scalar.eqb, Scalar.lit] using h0
  · left; exact h1
  · right; exact h2


/-! ### the rational tables -/

theorem ofInt_rat (i : Int) : (ofInt i : ℚ) = (i : ℚ) := by
  unfold ofInt
  split
  · rename_i h
    show -(((i.natAbs : ℕ) : ℚ)) = (i : ℚ)
    have : ((i.natAbs : ℕ) : ℤ) = -i := by omega
    have h2 : ((i.natAbs : ℕ) : ℚ) = ((-i : ℤ) : ℚ) := by rw [← this]; simp
    rw [h2]; push_cast; ring
  · rename_i h
    show (((i.natAbs : ℕ) : ℚ)) = (i : ℚ)
    have : ((i.natAbs : ℕ) : ℤ) = i := by omega
    have h2 : ((i.natAbs : ℕ) : ℚ) = ((i : ℤ) : ℚ) := by rw [← this]; simp
    rw [h2]

theorem toScalar_cast (den : Nat) (z : Z5) (hq : z.q = 0) :
    (((z.toScalar den : ℚ)) : ℝ) = (z.toScalar den : ℝ) := by
  rw [toScalar_real, hq]
  show ((((ofInt z.p : ℚ) + (ofInt z.q : ℚ) * Scalar.sqrt (lit 5 : ℚ)) / ((den : ℕ) : ℚ) : ℚ) : ℝ) = _
  rw [hq, ofInt_rat, ofInt_rat]
  push_cast
  simp

theorem planesS_cast (T : Table) (h : T.rational = true) :
    (T.planesS : List (V3 ℚ)).map castV = (T.planesS : List (V3 ℝ)) := by
  unfold Table.rational at h
  simp only [Bool.and_eq_true, List.all_eq_true, beq_iff_eq] at h
  unfold Table.planesS
  rw [List.map_map]
  apply List.map_congr_left
  intro r hr
  obtain ⟨⟨h1, h2⟩, h3⟩ := h.1 r hr
  simp only [Function.comp, castV, toScalar_cast _ _ h1, toScalar_cast _ _ h2, toScalar_cast _ _ h3]

theorem rows_cast (planes : List (V3 ℚ)) (types : List Nat) (a b c : ℚ) :
    (rows planes types a b c).map castRow = rows (planes.map castV) types (a : ℝ) (b : ℝ) (c : ℝ) := by
  unfold rows
  induction planes generalizing types with
  | nil => simp
  | cons p ps ih =>
    cases types with
    | nil => simp
    | cons t ts =>
      simp only [List.zipWith_cons_cons, List.map_cons, ih]
      congr 1
      simp only [castRow, distOf]
      split_ifs <;> rfl

end
end Fam
