import CoxeterVerif.Lemmas.DistToSurfaceCentroid
/-!
  C14: the boundary point on a ray from a strictly interior point of a strictly convex polygon is
  UNIQUE, so "the `d` with `c + d (cos θ, sin θ)` on the boundary" determines `d`.
-/
open Scalar
noncomputable section
namespace DTS

theorem edgesOf_mem (V : List (P2 ℝ)) (e : P2 ℝ × P2 ℝ) (he : e ∈ Spec.edgesOf V) :
    e.1 ∈ V ∧ e.2 ∈ V := by
  obtain ⟨a, b⟩ := e
  have := List.of_mem_zip he
  refine ⟨this.1, ?_⟩
  rcases List.mem_append.mp this.2 with h | h
  · exact List.mem_of_mem_drop h
  · exact List.mem_of_mem_take h

/-- every vertex of a strictly convex counter-clockwise polygon is weakly to the left of every edge -/
theorem weakLeft_of_convex (V : List (P2 ℝ)) (hconv : Spec.strictConvexCCW V)
    (e : P2 ℝ × P2 ℝ) (he : e ∈ Spec.edgesOf V) (w : P2 ℝ) (hw : w ∈ V) : 0 ≤ leftOf e.1 e.2 w := by
  by_cases h1 : w = e.1
  · rw [h1]; simp [leftOf, Spec.cross]
  · by_cases h2 : w = e.2
    · rw [h2]; simp only [leftOf, Spec.cross]; nlinarith
    · have := hconv.2 e he w hw h1 h2
      have : 0 < leftOf e.1 e.2 w := by simpa [leftOf, Scalar.lit] using this
      exact this.le

/-- a point on an edge segment is weakly to the left of every edge -/
theorem weakLeft_of_onBoundary (V : List (P2 ℝ)) (hconv : Spec.strictConvexCCW V)
    (e : P2 ℝ × P2 ℝ) (he : e ∈ Spec.edgesOf V) (Y : P2 ℝ) (hY : Spec.onPolyBoundary V Y) :
    0 ≤ leftOf e.1 e.2 Y := by
  obtain ⟨e', he', s, hs0, hs1, hx, hy⟩ := hY
  simp only [Scalar.lit, Scalar.ofNat_real, Nat.cast_zero, Nat.cast_one] at hs0 hs1
  obtain ⟨ha, hb⟩ := edgesOf_mem V e' he'
  have wa := weakLeft_of_convex V hconv e he _ ha
  have wb := weakLeft_of_convex V hconv e he _ hb
  have : leftOf e.1 e.2 Y = (1 - s) * leftOf e.1 e.2 e'.1 + s * leftOf e.1 e.2 e'.2 := by
    simp only [leftOf, Spec.cross, P2.sub_x, P2.sub_y, hx, hy]; ring
  rw [this]
  have := mul_nonneg (by linarith : (0:ℝ) ≤ 1 - s) wa
  have := mul_nonneg hs0 wb
  linarith

theorem boundary_unique_aux (V : List (P2 ℝ)) (c : P2 ℝ) (θ d d' : ℝ)
    (hconv : Spec.strictConvexCCW V) (hin : Spec.strictlyInsideCCW V c) (hd : 0 < d) (hlt : d < d')
    (hX : Spec.onPolyBoundary V (c + Spec.rayPoint d θ))
    (hY : Spec.onPolyBoundary V (c + Spec.rayPoint d' θ)) : False := by
  obtain ⟨e, he, s, _, _, hx, hy⟩ := hX
  have hc : 0 < leftOf e.1 e.2 c := by
    have := hin e he; simpa [leftOf, Scalar.lit] using this
  have hX0 : leftOf e.1 e.2 (c + Spec.rayPoint d θ) = 0 := by
    simp only [leftOf, Spec.cross, P2.sub_x, P2.sub_y, hx, hy]; ring
  have hYw := weakLeft_of_onBoundary V hconv e he _ hY
  -- affine along the ray
  have haff : d * leftOf e.1 e.2 (c + Spec.rayPoint d' θ) =
      (d - d') * leftOf e.1 e.2 c + d' * leftOf e.1 e.2 (c + Spec.rayPoint d θ) := by
    simp only [leftOf, Spec.cross, P2.sub_x, P2.sub_y, P2.add_x, P2.add_y, Spec.rayPoint]; ring
  rw [hX0, mul_zero, add_zero] at haff
  have h1 : 0 ≤ d * leftOf e.1 e.2 (c + Spec.rayPoint d' θ) := mul_nonneg hd.le hYw
  have h2 : (d - d') * leftOf e.1 e.2 c < 0 := mul_neg_of_neg_of_pos (by linarith) hc
  linarith

/-- **uniqueness of the boundary point on a ray from the centre** -/
theorem boundary_unique (V : List (P2 ℝ)) (c : P2 ℝ) (θ d d' : ℝ)
    (hconv : Spec.strictConvexCCW V) (hin : Spec.strictlyInsideCCW V c) (hd : 0 < d) (hd' : 0 < d')
    (hX : Spec.onPolyBoundary V (c + Spec.rayPoint d θ))
    (hY : Spec.onPolyBoundary V (c + Spec.rayPoint d' θ)) : d = d' := by
  rcases lt_trichotomy d d' with h | h | h
  · exact (boundary_unique_aux V c θ d d' hconv hin hd h hX hY).elim
  · exact h
  · exact (boundary_unique_aux V c θ d' d hconv hin hd' h hY hX).elim

end DTS
end
