import CoxeterVerif.Lemmas.Solid
import CoxeterVerif.Model.Structure
import CoxeterVerif.Spec.Structure
import Mathlib.Data.List.Sort
import Mathlib.Data.List.Perm.Subperm
import Mathlib.Data.List.Nodup
/-!
  Helper lemmas of C07 (structure of polyhedra): list utilities, `_face_to_edges` as the cyclic
  successor relation, characterisation of `_get_face_intersections` / `_find_neighbors`, counting
  of directed edges, invariant of the orientation traversal, algebra of `_find_equations`.
-/

open Struct

namespace StructLemmas

/-! ### generic list helpers -/

theorem mem_dedup {β : Type} [BEq β] [LawfulBEq β] (l : List β) (x : β) : x ∈ dedup l ↔ x ∈ l := by
  induction l with
  | nil => simp [dedup]
  | cons a l ih =>
    simp only [dedup, List.mem_cons, List.mem_filter, ih]
    constructor
    · rintro (h | ⟨h, _⟩)
      · exact Or.inl h
      · exact Or.inr h
    · rintro (h | h)
      · exact Or.inl h
      · by_cases hx : x = a
        · exact Or.inl hx
        · exact Or.inr ⟨h, by simpa using hx⟩

theorem nodup_dedup {β : Type} [BEq β] [LawfulBEq β] (l : List β) : (dedup l).Nodup := by
  induction l with
  | nil => simp [dedup]
  | cons a l ih =>
    simp only [dedup, List.nodup_cons, List.mem_filter]
    refine ⟨?_, ih.filter _⟩
    rintro ⟨_, h⟩
    simp at h

theorem dedup_sublist {β : Type} [BEq β] (l : List β) : (dedup l).Sublist l := by
  induction l with
  | nil => simp [dedup]
  | cons a l ih =>
    simp only [dedup]
    exact List.Sublist.cons_cons a ((List.filter_sublist).trans ih)

theorem insertBy_eq {β : Type} (le : β → β → Bool) (a : β) (l : List β) :
    insertBy le a l = List.orderedInsert (fun x y => le x y = true) a l := by
  induction l with
  | nil => rfl
  | cons b l ih =>
    simp only [insertBy, List.orderedInsert_cons, ih]

theorem sortBy_eq {β : Type} (le : β → β → Bool) (l : List β) :
    sortBy le l = List.insertionSort (fun x y => le x y = true) l := by
  induction l with
  | nil => rfl
  | cons b l ih => simp only [sortBy, List.insertionSort_cons, ih, insertBy_eq]

theorem sortBy_perm {β : Type} (le : β → β → Bool) (l : List β) : (sortBy le l).Perm l := by
  rw [sortBy_eq]; exact List.perm_insertionSort _ l

theorem sortBy_pairwise {β : Type} (le : β → β → Bool)
    (htot : ∀ a b, le a b = true ∨ le b a = true)
    (htr : ∀ a b c, le a b = true → le b c = true → le a c = true) (l : List β) :
    (sortBy le l).Pairwise (fun x y => le x y = true) := by
  rw [sortBy_eq]
  have : Std.Total (fun x y : β => le x y = true) := ⟨htot⟩
  have : IsTrans β (fun x y => le x y = true) := ⟨htr⟩
  exact List.pairwise_insertionSort _ l

/-! ### `_face_to_edges` is the index-wise cyclic successor relation -/

theorem faceToEdges_length (f : Face) : (faceToEdges f).length = f.length := by
  cases f with
  | nil => rfl
  | cons a t => simp [faceToEdges]

theorem faceToEdges_eq_dirEdges (f : Face) : faceToEdges f = StructSpec.dirEdges f := by
  cases f with
  | nil => rfl
  | cons a t =>
    apply List.ext_getElem
    · simp [faceToEdges, StructSpec.dirEdges]
    · intro i h1 h2
      have hi : i < t.length + 1 := by simpa [faceToEdges] using h1
      simp only [faceToEdges, StructSpec.dirEdges, List.getElem_zip, List.getElem_map,
        List.getElem_range, StructSpec.cycEdge, List.length_cons]
      congr 1
      · simp [List.getD_eq_getElem?_getD, hi]
      · by_cases hlast : i + 1 < t.length + 1
        · rw [Nat.mod_eq_of_lt hlast]
          have : i < t.length := by omega
          simp [List.getD_eq_getElem?_getD, List.getElem_append_left, this]
        · have : i = t.length := by omega
          subst this
          simp [List.getD_eq_getElem?_getD]

theorem allDirected_eq_allDir (F : List Face) : allDirected F = StructSpec.allDir F := by
  unfold allDirected StructSpec.allDir
  congr 1
  funext f
  exact faceToEdges_eq_dirEdges f

/-- membership in the directed edges, by index -/
theorem mem_dirEdges {f : Face} {a b : Nat} :
    (a, b) ∈ StructSpec.dirEdges f ↔
      ∃ i, i < f.length ∧ f.getD i 0 = a ∧ f.getD ((i + 1) % f.length) 0 = b := by
  simp only [StructSpec.dirEdges, List.mem_map, List.mem_range, StructSpec.cycEdge, Prod.mk.injEq]

theorem getD_of_lt (f : Face) {i : Nat} (h : i < f.length) : f.getD i 0 = f[i] := by
  simp [List.getD_eq_getElem?_getD, h]

/-- `_face_to_edges(f, reverse=True)` lists exactly the reversed pairs of `_face_to_edges(f)` -/
theorem mem_faceToEdgesRev {f : Face} {a b : Nat} :
    (a, b) ∈ faceToEdgesRev f ↔ (b, a) ∈ StructSpec.dirEdges f := by
  rw [mem_dirEdges]
  unfold faceToEdgesRev
  rcases hf : f.getLast? with _ | z
  · have : f = [] := by simpa using hf
    subst this; simp
  · have hne : f ≠ [] := by rintro rfl; simp at hf
    have hn : 0 < f.length := List.length_pos_iff.mpr hne
    have hz : z = f[f.length - 1] := by
      rw [List.getLast?_eq_getElem?] at hf
      have : f[f.length - 1]? = some f[f.length - 1] := List.getElem?_eq_getElem (by omega)
      rw [this] at hf; exact (Option.some.inj hf).symm
    simp only
    constructor
    · intro h
      obtain ⟨j, hj1, hj2⟩ := List.mem_iff_getElem.mp h
      have hjf : j < f.length := by
        have := hj1; simp only [List.length_zip, List.length_cons, List.length_dropLast] at this; omega
      rw [List.getElem_zip] at hj2
      have ha : f[j] = a := by have := congrArg Prod.fst hj2; simpa using this
      have hb : (z :: f.dropLast)[j]'(by simp; omega) = b := by have := congrArg Prod.snd hj2; simpa using this
      rcases j with _ | k
      · refine ⟨f.length - 1, by omega, ?_, ?_⟩
        · rw [getD_of_lt f (by omega)]; simp at hb; rw [← hb, hz]
        · have : (f.length - 1 + 1) % f.length = 0 := by
            rw [Nat.sub_add_cancel hn]; exact Nat.mod_self _
          rw [this, getD_of_lt f hn]; exact ha
      · refine ⟨k, by omega, ?_, ?_⟩
        · rw [getD_of_lt f (by omega)]
          simp only [List.getElem_cons_succ, List.getElem_dropLast] at hb; exact hb
        · rw [Nat.mod_eq_of_lt hjf, getD_of_lt f hjf]; exact ha
    · rintro ⟨i, hi, h1, h2⟩
      rw [getD_of_lt f hi] at h1
      by_cases hlast : i + 1 < f.length
      · rw [Nat.mod_eq_of_lt hlast, getD_of_lt f hlast] at h2
        refine List.mem_iff_getElem.mpr ⟨i + 1, by simp; omega, ?_⟩
        rw [List.getElem_zip]
        simp only [List.getElem_cons_succ, List.getElem_dropLast, h1, h2]
      · have hi' : i = f.length - 1 := by omega
        have : (i + 1) % f.length = 0 := by
          rw [hi', Nat.sub_add_cancel hn]; exact Nat.mod_self _
        rw [this, getD_of_lt f hn] at h2
        refine List.mem_iff_getElem.mpr ⟨0, by simp; omega, ?_⟩
        rw [List.getElem_zip]
        simp only [List.getElem_cons_zero, h2, hz, ← h1, hi']

/-- reversing a cycle reverses every directed edge -/
theorem mem_dirEdges_reverse {f : Face} {a b : Nat} (h : (a, b) ∈ StructSpec.dirEdges f) :
    (b, a) ∈ StructSpec.dirEdges f.reverse := by
  rw [mem_dirEdges] at h ⊢
  obtain ⟨i, hi, h1, h2⟩ := h
  have hn : 0 < f.length := by omega
  rw [getD_of_lt f hi] at h1
  simp only [List.length_reverse]
  by_cases hlast : i + 1 < f.length
  · rw [Nat.mod_eq_of_lt hlast, getD_of_lt f hlast] at h2
    refine ⟨f.length - 2 - i, by omega, ?_, ?_⟩
    · rw [getD_of_lt _ (by simp; omega), List.getElem_reverse]
      have : f.length - 1 - (f.length - 2 - i) = i + 1 := by omega
      simp only [this]; exact h2
    · have e : (f.length - 2 - i + 1) % f.length = f.length - 1 - i := by
        have : f.length - 2 - i + 1 = f.length - 1 - i := by omega
        rw [this]; exact Nat.mod_eq_of_lt (by omega)
      rw [e, getD_of_lt _ (by simp; omega), List.getElem_reverse]
      have : f.length - 1 - (f.length - 1 - i) = i := by omega
      simp only [this]; exact h1
  · have hi' : i = f.length - 1 := by omega
    have e0 : (i + 1) % f.length = 0 := by
      rw [hi', Nat.sub_add_cancel hn]; exact Nat.mod_self _
    rw [e0, getD_of_lt f hn] at h2
    refine ⟨f.length - 1, by omega, ?_, ?_⟩
    · rw [getD_of_lt _ (by simp; omega), List.getElem_reverse]
      have : f.length - 1 - (f.length - 1) = 0 := by omega
      simp only [this]; exact h2
    · have e : (f.length - 1 + 1) % f.length = 0 := by
        rw [Nat.sub_add_cancel hn]; exact Nat.mod_self _
      rw [e, getD_of_lt _ (by simp; omega), List.getElem_reverse]
      have : f.length - 1 - 0 = i := by omega
      simp only [this]; exact h1

theorem mem_dirEdges_reverse_iff {f : Face} {a b : Nat} :
    (b, a) ∈ StructSpec.dirEdges f.reverse ↔ (a, b) ∈ StructSpec.dirEdges f :=
  ⟨fun h => by simpa using mem_dirEdges_reverse h, mem_dirEdges_reverse⟩

/-! ### neighbours -/

theorem mem_edgeSet {f : Face} {e : Edge} : e ∈ edgeSet f ↔ StructSpec.Adj f e.1 e.2 := by
  unfold edgeSet StructSpec.Adj
  rw [mem_dedup, List.mem_append, faceToEdges_eq_dirEdges]
  obtain ⟨a, b⟩ := e
  rw [mem_faceToEdgesRev]

theorem commonEdges_ne_nil {f g : Face} : commonEdges f g ≠ [] ↔ StructSpec.SharesEdge f g := by
  unfold commonEdges StructSpec.SharesEdge
  rw [← List.length_pos_iff, List.length_pos_iff_exists_mem]
  constructor
  · rintro ⟨e, he⟩
    rw [List.mem_filter] at he
    exact ⟨e.1, e.2, mem_edgeSet.mp he.1, mem_edgeSet.mp (by simpa using he.2)⟩
  · rintro ⟨a, b, h1, h2⟩
    exact ⟨(a, b), List.mem_filter.mpr ⟨mem_edgeSet.mpr h1, by simpa using mem_edgeSet.mpr h2⟩⟩

theorem SharesEdge_symm {f g : Face} (h : StructSpec.SharesEdge f g) : StructSpec.SharesEdge g f := by
  obtain ⟨a, b, h1, h2⟩ := h; exact ⟨a, b, h2, h1⟩

theorem mem_indexPairs {n i j : Nat} : (i, j) ∈ indexPairs n ↔ i < j ∧ j < n := by
  simp only [indexPairs, List.mem_flatMap, List.mem_range, List.mem_map, List.mem_filter,
    decide_eq_true_eq, Prod.mk.injEq]
  constructor
  · rintro ⟨a, ha, b, ⟨hb1, hb2⟩, rfl, rfl⟩; exact ⟨hb2, hb1⟩
  · rintro ⟨h1, h2⟩; exact ⟨i, by omega, j, ⟨h2, h1⟩, rfl, rfl⟩

/-- the fold of `_get_face_intersections` over an arbitrary list of index pairs -/
def fiFold (F : List Face) (ps : List (Nat × Nat)) : Except String (List (Nat × Nat × Edge)) :=
  ps.foldr (fun p acc =>
      let c := commonEdges (F.getD p.1 []) (F.getD p.2 [])
      match c with
      | [] => acc
      | e :: _ => if c.length = 2 then acc.map ((p.1, p.2, canonEdge e) :: ·) else .error "AssertionError")
    (.ok [])

theorem faceIntersections_eq (F : List Face) : faceIntersections F = fiFold F (indexPairs F.length) := rfl

theorem fiFold_spec (F : List Face) : ∀ (ps : List (Nat × Nat)) (P : List (Nat × Nat × Edge)),
    fiFold F ps = .ok P →
    ∀ i j, (∃ e, (i, j, e) ∈ P) ↔ ((i, j) ∈ ps ∧ commonEdges (F.getD i []) (F.getD j []) ≠ []) := by
  intro ps
  induction ps with
  | nil =>
    intro P h i j
    simp only [fiFold, List.foldr_nil, Except.ok.injEq] at h
    subst h; simp
  | cons p ps ih =>
    intro P h i j
    simp only [fiFold, List.foldr_cons] at h
    change (match commonEdges (F.getD p.1 []) (F.getD p.2 []) with
      | [] => fiFold F ps
      | e :: _ => if (commonEdges (F.getD p.1 []) (F.getD p.2 [])).length = 2
          then (fiFold F ps).map ((p.1, p.2, canonEdge e) :: ·) else .error "AssertionError") = .ok P at h
    rcases hc : commonEdges (F.getD p.1 []) (F.getD p.2 []) with _ | ⟨e, es⟩
    · rw [hc] at h
      simp only at h
      rw [ih P h i j]
      constructor
      · rintro ⟨h1, h2⟩; exact ⟨List.mem_cons_of_mem _ h1, h2⟩
      · rintro ⟨h1, h2⟩
        rcases List.mem_cons.mp h1 with h1 | h1
        · exfalso; apply h2; rw [← hc, ← h1]
        · exact ⟨h1, h2⟩
    · rw [hc] at h
      simp only at h
      split_ifs at h with hlen
      rcases hrec : fiFold F ps with err | Q
      · rw [hrec] at h; simp [Except.map] at h
      · rw [hrec] at h
        simp only [Except.map, Except.ok.injEq] at h
        subst h
        have := ih Q hrec i j
        constructor
        · rintro ⟨e', he'⟩
          rcases List.mem_cons.mp he' with he' | he'
          · simp only [Prod.mk.injEq] at he'
            obtain ⟨rfl, rfl, _⟩ := he'
            exact ⟨List.mem_cons_self, by rw [hc]; simp⟩
          · obtain ⟨h1, h2⟩ := this.mp ⟨e', he'⟩
            exact ⟨List.mem_cons_of_mem _ h1, h2⟩
        · rintro ⟨h1, h2⟩
          rcases List.mem_cons.mp h1 with h1 | h1
          · exact ⟨canonEdge e, by rw [← h1]; exact List.mem_cons_self⟩
          · obtain ⟨e', he'⟩ := this.mpr ⟨h1, h2⟩
            exact ⟨e', List.mem_cons_of_mem _ he'⟩

/-- `_get_face_intersections` yields `(i, j, …)` exactly for the pairs `i < j` of faces sharing an edge -/
theorem faceIntersections_spec {F : List Face} {P : List (Nat × Nat × Edge)}
    (h : faceIntersections F = .ok P) (i j : Nat) :
    (∃ e, (i, j, e) ∈ P) ↔ (i < j ∧ j < F.length ∧ StructSpec.SharesEdge (F.getD i []) (F.getD j [])) := by
  rw [faceIntersections_eq] at h
  rw [fiFold_spec F _ P h i j, mem_indexPairs, commonEdges_ne_nil, and_assoc]

theorem mem_getD_modify_append {N : List (List Nat)} {i k x y : Nat} (hi : i < N.length) :
    x ∈ (N.modify i (· ++ [y])).getD k [] ↔ x ∈ N.getD k [] ∨ (k = i ∧ x = y) := by
  simp only [List.getD_eq_getElem?_getD, List.getElem?_modify]
  by_cases hk : k < N.length
  · rw [List.getElem?_eq_getElem hk]
    simp only [Option.map_eq_map, Option.map_some, Option.getD_some]
    by_cases hik : i = k
    · subst hik; simp
    · simp only [if_neg hik]
      constructor
      · exact Or.inl
      · rintro (h | ⟨h, _⟩)
        · exact h
        · exact absurd h.symm hik
  · have : N[k]? = none := List.getElem?_eq_none (by omega)
    rw [this]
    simp only [Option.map_eq_map, Option.map_none, Option.getD_none, List.not_mem_nil, false_or]
    constructor
    · exact False.elim
    · rintro ⟨h, _⟩; omega

theorem addNeighbor_length (N : List (List Nat)) (i j : Nat) : (addNeighbor N i j).length = N.length := by
  simp [addNeighbor, List.length_modify]

theorem mem_addNeighbor {N : List (List Nat)} {i j k x : Nat} (hi : i < N.length) (hj : j < N.length) :
    x ∈ (addNeighbor N i j).getD k [] ↔ x ∈ N.getD k [] ∨ (k = i ∧ x = j) ∨ (k = j ∧ x = i) := by
  unfold addNeighbor
  rw [mem_getD_modify_append (by simpa [List.length_modify] using hj), mem_getD_modify_append hi, or_assoc]

theorem foldl_addNeighbor_length (P : List (Nat × Nat × Edge)) (N : List (List Nat)) :
    (P.foldl (fun N p => addNeighbor N p.1 p.2.1) N).length = N.length := by
  induction P generalizing N with
  | nil => rfl
  | cons p P ih => simp only [List.foldl_cons, ih, addNeighbor_length]

theorem mem_foldl_addNeighbor (P : List (Nat × Nat × Edge)) (N : List (List Nat))
    (hP : ∀ p ∈ P, p.1 < N.length ∧ p.2.1 < N.length) (k x : Nat) :
    x ∈ (P.foldl (fun N p => addNeighbor N p.1 p.2.1) N).getD k [] ↔
      x ∈ N.getD k [] ∨ (∃ e, (k, x, e) ∈ P) ∨ (∃ e, (x, k, e) ∈ P) := by
  induction P generalizing N with
  | nil => simp
  | cons p P ih =>
    obtain ⟨hp1, hp2⟩ := hP p List.mem_cons_self
    simp only [List.foldl_cons]
    rw [ih (addNeighbor N p.1 p.2.1)
      (fun q hq => by
        rw [addNeighbor_length]; exact hP q (List.mem_cons_of_mem _ hq)),
      mem_addNeighbor hp1 hp2]
    obtain ⟨pi, pj, pe⟩ := p
    simp only [List.mem_cons, Prod.mk.injEq]
    constructor
    · rintro ((h | ⟨rfl, rfl⟩ | ⟨rfl, rfl⟩) | ⟨e, he⟩ | ⟨e, he⟩)
      · exact Or.inl h
      · exact Or.inr (Or.inl ⟨pe, Or.inl ⟨rfl, rfl, rfl⟩⟩)
      · exact Or.inr (Or.inr ⟨pe, Or.inl ⟨rfl, rfl, rfl⟩⟩)
      · exact Or.inr (Or.inl ⟨e, Or.inr he⟩)
      · exact Or.inr (Or.inr ⟨e, Or.inr he⟩)
    · rintro (h | ⟨e, (⟨rfl, rfl, rfl⟩ | he)⟩ | ⟨e, (⟨rfl, rfl, rfl⟩ | he)⟩)
      · exact Or.inl (Or.inl h)
      · exact Or.inl (Or.inr (Or.inl ⟨rfl, rfl⟩))
      · exact Or.inr (Or.inl ⟨e, he⟩)
      · exact Or.inl (Or.inr (Or.inr ⟨rfl, rfl⟩))
      · exact Or.inr (Or.inr ⟨e, he⟩)

/-- characterisation of `_find_neighbors` -/
theorem findNeighbors_spec {F : List Face} {N : List (List Nat)} (h : findNeighbors F = .ok N) (i j : Nat) :
    j ∈ N.getD i [] ↔
      (i < F.length ∧ j < F.length ∧ i ≠ j ∧ StructSpec.SharesEdge (F.getD i []) (F.getD j [])) := by
  unfold findNeighbors at h
  rcases hP : faceIntersections F with err | P
  · rw [hP] at h; simp [Except.map] at h
  · rw [hP] at h
    simp only [Except.map, Except.ok.injEq] at h
    subst h
    have hb : ∀ p ∈ P, p.1 < (List.replicate F.length ([] : List Nat)).length ∧
        p.2.1 < (List.replicate F.length ([] : List Nat)).length := by
      intro p hp
      obtain ⟨pi, pj, pe⟩ := p
      have := (faceIntersections_spec hP pi pj).mp ⟨pe, hp⟩
      simp only [List.length_replicate]; omega
    rw [mem_foldl_addNeighbor P _ hb, faceIntersections_spec hP, faceIntersections_spec hP]
    have h0 : j ∉ (List.replicate F.length ([] : List Nat)).getD i [] := by
      simp [List.getD_eq_getElem?_getD, List.getElem?_replicate]
      split_ifs <;> simp
    constructor
    · rintro (h | ⟨h1, h2, h3⟩ | ⟨h1, h2, h3⟩)
      · exact absurd h h0
      · exact ⟨by omega, h2, by omega, h3⟩
      · exact ⟨h2, by omega, by omega, SharesEdge_symm h3⟩
    · rintro ⟨h1, h2, h3, h4⟩
      rcases Nat.lt_or_gt_of_ne h3 with hlt | hgt
      · exact Or.inr (Or.inl ⟨hlt, h2, h4⟩)
      · exact Or.inr (Or.inr ⟨hgt, h1, SharesEdge_symm h4⟩)

theorem findNeighbors_length {F : List Face} {N : List (List Nat)} (h : findNeighbors F = .ok N) :
    N.length = F.length := by
  unfold findNeighbors at h
  rcases hP : faceIntersections F with err | P
  · rw [hP] at h; simp [Except.map] at h
  · rw [hP] at h
    simp only [Except.map, Except.ok.injEq] at h
    subst h
    rw [foldl_addNeighbor_length, List.length_replicate]

/-! ### edges -/

theorem lexLe_total (a b : Edge) : lexLe a b = true ∨ lexLe b a = true := by
  simp only [lexLe, Bool.or_eq_true, Bool.and_eq_true, decide_eq_true_eq]; omega

theorem lexLe_trans (a b c : Edge) : lexLe a b = true → lexLe b c = true → lexLe a c = true := by
  simp only [lexLe, Bool.or_eq_true, Bool.and_eq_true, decide_eq_true_eq]; omega

theorem lexLt_of_lexLe_ne {a b : Edge} (h : lexLe a b = true) (hne : a ≠ b) : StructSpec.LexLt a b := by
  simp only [lexLe, Bool.or_eq_true, Bool.and_eq_true, decide_eq_true_eq] at h
  unfold StructSpec.LexLt
  rcases h with h | ⟨h1, h2⟩
  · exact Or.inl h
  · refine Or.inr ⟨h1, ?_⟩
    rcases Nat.lt_or_ge a.2 b.2 with h3 | h3
    · exact h3
    · exfalso; apply hne; exact Prod.ext h1 (by omega)

theorem edges_perm (F : List Face) :
    (edges F).Perm ((StructSpec.allDir F).filter fun e => decide (e.1 < e.2)) := by
  unfold edges; rw [allDirected_eq_allDir]; exact sortBy_perm _ _

theorem allDir_length (F : List Face) : (StructSpec.allDir F).length = (F.map List.length).sum := by
  induction F with
  | nil => rfl
  | cons f F ih =>
    simp only [StructSpec.allDir, List.flatMap_cons, List.length_append, List.map_cons, List.sum_cons] at ih ⊢
    rw [ih, ← faceToEdges_eq_dirEdges, faceToEdges_length]

/-- the half of the directed edges with `i < j` is as long as the half with `j < i` -/
theorem halves_equal {D : List Edge} (hnd : D.Nodup) (hrev : ∀ e ∈ D, (e.2, e.1) ∈ D) :
    (D.filter fun e => decide (e.1 < e.2)).length = (D.filter fun e => decide (e.2 < e.1)).length := by
  have swap_inj : Function.Injective (fun e : Edge => (e.2, e.1)) := by
    intro a b h; simp only [Prod.mk.injEq] at h; exact Prod.ext h.2 h.1
  apply Nat.le_antisymm
  · have hnd' : ((D.filter fun e => decide (e.1 < e.2)).map fun e : Edge => (e.2, e.1)).Nodup :=
      (hnd.filter _).map swap_inj
    have hsub : ((D.filter fun e => decide (e.1 < e.2)).map fun e : Edge => (e.2, e.1)) ⊆
        (D.filter fun e => decide (e.2 < e.1)) := by
      intro x hx
      obtain ⟨e, he, rfl⟩ := List.mem_map.mp hx
      rw [List.mem_filter] at he ⊢
      exact ⟨hrev e he.1, by simpa using he.2⟩
    simpa using (List.subperm_of_subset hnd' hsub).length_le
  · have hnd' : ((D.filter fun e => decide (e.2 < e.1)).map fun e : Edge => (e.2, e.1)).Nodup :=
      (hnd.filter _).map swap_inj
    have hsub : ((D.filter fun e => decide (e.2 < e.1)).map fun e : Edge => (e.2, e.1)) ⊆
        (D.filter fun e => decide (e.1 < e.2)) := by
      intro x hx
      obtain ⟨e, he, rfl⟩ := List.mem_map.mp hx
      rw [List.mem_filter] at he ⊢
      exact ⟨hrev e he.1, by simpa using he.2⟩
    simpa using (List.subperm_of_subset hnd' hsub).length_le

theorem halves_cover {D : List Edge} (hnl : ∀ e ∈ D, e.1 ≠ e.2) :
    D.length = (D.filter fun e => decide (e.1 < e.2)).length + (D.filter fun e => decide (e.2 < e.1)).length := by
  induction D with
  | nil => rfl
  | cons e D ih =>
    have h1 := hnl e List.mem_cons_self
    have ih' := ih (fun x hx => hnl x (List.mem_cons_of_mem _ hx))
    rcases Nat.lt_or_gt_of_ne h1 with h | h
    · have h' : ¬ e.2 < e.1 := by omega
      simp only [List.filter_cons, h, h', decide_true, decide_false, if_true, List.length_cons]
      simp only [Bool.false_eq_true, if_false]; omega
    · have h' : ¬ e.1 < e.2 := by omega
      simp only [List.filter_cons, h, h', decide_true, decide_false, if_true, List.length_cons]
      simp only [Bool.false_eq_true, if_false]; omega

/-! ### orientation propagation -/

theorem dirEdges_nil : StructSpec.dirEdges [] = [] := rfl

theorem orientAgainst_go_cases (cur : List Edge) (nb : Face) (es : List Edge) :
    orientAgainst.go cur nb es = nb ∨ orientAgainst.go cur nb es = nb.reverse := by
  induction es with
  | nil => exact Or.inl rfl
  | cons e es ih =>
    simp only [orientAgainst.go]
    split_ifs
    · exact Or.inr rfl
    · exact Or.inl rfl
    · exact ih

theorem orientAgainst_cases (cur : List Edge) (nb : Face) :
    orientAgainst cur nb = nb ∨ orientAgainst cur nb = nb.reverse :=
  orientAgainst_go_cases cur nb _

theorem orientAgainst_go_opposite (curF nb : Face) (es : List Edge)
    (hsub : ∀ e ∈ es, e ∈ StructSpec.dirEdges nb)
    (hex : ∃ e ∈ es, e ∈ StructSpec.dirEdges curF ∨ (e.2, e.1) ∈ StructSpec.dirEdges curF) :
    StructSpec.OppositeOn curF (orientAgainst.go (faceToEdges curF) nb es) := by
  induction es with
  | nil => obtain ⟨e, he, _⟩ := hex; simp at he
  | cons e es ih =>
    simp only [orientAgainst.go, faceToEdges_eq_dirEdges, List.contains_iff_mem]
    have he := hsub e List.mem_cons_self
    obtain ⟨a, b⟩ := e
    split_ifs with h1 h2
    · exact ⟨a, b, h1, mem_dirEdges_reverse he⟩
    · exact ⟨b, a, h2, he⟩
    · have := ih (fun x hx => hsub x (List.mem_cons_of_mem _ hx)) (by
        obtain ⟨x, hx, hx'⟩ := hex
        rcases List.mem_cons.mp hx with rfl | hx
        · rcases hx' with hx' | hx'
          · exact absurd hx' h1
          · exact absurd hx' h2
        · exact ⟨x, hx, hx'⟩)
      simpa only [faceToEdges_eq_dirEdges] using this

theorem sharesEdge_iff {f g : Face} :
    StructSpec.SharesEdge f g ↔
      ∃ e ∈ StructSpec.dirEdges g, e ∈ StructSpec.dirEdges f ∨ (e.2, e.1) ∈ StructSpec.dirEdges f := by
  unfold StructSpec.SharesEdge StructSpec.Adj
  constructor
  · rintro ⟨a, b, h1, h2 | h2⟩
    · exact ⟨(a, b), h2, h1⟩
    · exact ⟨(b, a), h2, h1.symm⟩
  · rintro ⟨⟨a, b⟩, h1, h2⟩
    exact ⟨a, b, h2, Or.inl h1⟩

theorem sharesEdge_reverse_right {f g : Face} (h : StructSpec.SharesEdge f g.reverse) :
    StructSpec.SharesEdge f g := by
  obtain ⟨a, b, h1, h2⟩ := h
  refine ⟨a, b, h1, ?_⟩
  unfold StructSpec.Adj at h2 ⊢
  rcases h2 with h2 | h2
  · exact Or.inr (mem_dirEdges_reverse_iff.mp h2)
  · exact Or.inl (mem_dirEdges_reverse_iff.mp h2)

/-- the two faces are "linked": if they share an edge they traverse one in opposite directions -/
def Linked (f g : Face) : Prop := StructSpec.SharesEdge f g → StructSpec.OppositeOn f g

/-- after the inner loop the neighbour is linked to the current face -/
theorem orientAgainst_linked (curF nb : Face) : Linked curF (orientAgainst (faceToEdges curF) nb) := by
  intro hs
  have hs' : StructSpec.SharesEdge curF nb := by
    rcases orientAgainst_cases (faceToEdges curF) nb with h | h
    · rwa [h] at hs
    · rw [h] at hs; exact sharesEdge_reverse_right hs
  unfold orientAgainst
  apply orientAgainst_go_opposite
  · intro e he; rwa [faceToEdges_eq_dirEdges] at he
  · obtain ⟨e, he, h⟩ := sharesEdge_iff.mp hs'
    exact ⟨e, by rwa [faceToEdges_eq_dirEdges], h⟩

theorem linked_nil (f : Face) : Linked f [] := by
  intro h
  obtain ⟨e, he, _⟩ := sharesEdge_iff.mp h
  simp [dirEdges_nil] at he

theorem getD_modify_ne {l : List Face} {g : Face → Face} {i k : Nat} (h : i ≠ k) :
    (l.modify i g).getD k [] = l.getD k [] := by
  simp only [List.getD_eq_getElem?_getD, List.getElem?_modify, if_neg h]
  cases l[k]? <;> rfl

theorem getD_modify_self {l : List Face} {g : Face → Face} {i : Nat} (h : i < l.length) :
    (l.modify i g).getD i [] = g (l.getD i []) := by
  simp only [List.getD_eq_getElem?_getD, List.getElem?_modify, List.getElem?_eq_getElem h]
  simp

theorem getD_modify_ge {l : List Face} {g : Face → Face} {i : Nat} (h : l.length ≤ i) :
    (l.modify i g).getD i [] = [] := by
  simp only [List.getD_eq_getElem?_getD, List.getElem?_modify, List.getElem?_eq_none h]
  simp

/-- invariant of the traversal -/
structure Inv (nbrs : List (List Nat)) (F0 : List Face) (st : PState) : Prop where
  len : st.faces.length = F0.length
  orig : ∀ k, st.faces.getD k [] = F0.getD k [] ∨ st.faces.getD k [] = (F0.getD k []).reverse
  tree : ∀ v ∈ st.visited, v = 0 ∨ ∃ u ∈ st.visited, u ≠ v ∧ v ∈ nbrs.getD u [] ∧
    Linked (st.faces.getD u []) (st.faces.getD v [])
  stackOk : ∀ s ∈ st.stack, s = 0 ∨ s ∈ st.visited

theorem visitNeighbors_inv (nbrs : List (List Nat)) (F0 : List Face) (cur : Nat) (cf : Face) :
    ∀ (nbs : List Nat) (st : PState), (∀ nb ∈ nbs, nb ∈ nbrs.getD cur []) →
      Inv nbrs F0 st → cur ∈ st.visited → st.faces.getD cur [] = cf →
      Inv nbrs F0 (visitNeighbors (faceToEdges cf) nbs st) := by
  intro nbs
  induction nbs with
  | nil => intro st _ h _ _; exact h
  | cons nb nbs ih =>
    intro st hsub hinv hcur hcf
    simp only [visitNeighbors, List.foldl_cons]
    by_cases hv : st.visited.contains nb = true
    · rw [if_pos hv]
      exact ih st (fun x hx => hsub x (List.mem_cons_of_mem _ hx)) hinv hcur hcf
    · rw [if_neg hv]
      have hnv : nb ∉ st.visited := by simpa using hv
      have hne : cur ≠ nb := fun h => hnv (h ▸ hcur)
      refine ih _ (fun x hx => hsub x (List.mem_cons_of_mem _ hx)) ?_ ?_ ?_
      · constructor
        · simp only [List.length_modify]; exact hinv.len
        · intro k
          by_cases hk : nb = k
          · subst hk
            by_cases hlt : nb < st.faces.length
            · simp only [getD_modify_self hlt]
              rcases orientAgainst_cases (faceToEdges cf) (st.faces.getD nb []) with h | h <;>
                rcases hinv.orig nb with h' | h' <;> rw [h, h']
              · exact Or.inl rfl
              · exact Or.inr rfl
              · exact Or.inr rfl
              · exact Or.inl (List.reverse_reverse _)
            · have hge : st.faces.length ≤ nb := by omega
              have : st.faces.getD nb [] = [] := by
                simp [List.getD_eq_getElem?_getD, List.getElem?_eq_none hge]
              simp only [getD_modify_ge hge]
              rcases hinv.orig nb with h' | h'
              · exact Or.inl (by rw [← h', this])
              · exact Or.inr (by rw [← h', this])
          · simp only [getD_modify_ne hk]; exact hinv.orig k
        · intro v hvmem
          simp only [List.mem_append, List.mem_singleton] at hvmem
          rcases hvmem with hvmem | rfl
          · rcases hinv.tree v hvmem with h0 | ⟨u, hu, huv, hnb, hl⟩
            · exact Or.inl h0
            · refine Or.inr ⟨u, List.mem_append_left _ hu, huv, hnb, ?_⟩
              have h1 : nb ≠ u := fun h => hnv (h ▸ hu)
              have h2 : nb ≠ v := fun h => hnv (h ▸ hvmem)
              simp only [getD_modify_ne h1, getD_modify_ne h2]; exact hl
          · refine Or.inr ⟨cur, List.mem_append_left _ hcur, hne, hsub v List.mem_cons_self, ?_⟩
            simp only [getD_modify_ne hne.symm, hcf]
            by_cases hlt : v < st.faces.length
            · simp only [getD_modify_self hlt]; exact orientAgainst_linked cf _
            · simp only [getD_modify_ge (by omega : st.faces.length ≤ v)]; exact linked_nil cf
        · intro s hs
          simp only [List.mem_cons] at hs
          rcases hs with rfl | hs
          · exact Or.inr (by simp)
          · rcases hinv.stackOk s hs with h | h
            · exact Or.inl h
            · exact Or.inr (List.mem_append_left _ h)
      · exact List.mem_append_left _ hcur
      · simp only [getD_modify_ne hne.symm]; exact hcf

theorem propagateLoop_inv (nbrs : List (List Nat)) (F0 : List Face) :
    ∀ (fuel : Nat) (st : PState), Inv nbrs F0 st → Inv nbrs F0 (propagateLoop nbrs fuel st) := by
  intro fuel
  induction fuel with
  | zero => intro st h; exact h
  | succ fuel ih =>
    intro st hinv
    unfold propagateLoop
    rcases hst : st.stack with _ | ⟨cur, rest⟩
    · simp only; exact hinv
    · simp only
      apply ih
      apply visitNeighbors_inv nbrs F0 cur (st.faces.getD cur []) _ _ (fun _ h => h)
      · constructor
        · exact hinv.len
        · exact hinv.orig
        · intro v hv
          simp only [List.mem_append, List.mem_singleton] at hv
          have key : ∀ w ∈ st.visited, w = 0 ∨ ∃ u ∈ st.visited ++ [cur], u ≠ w ∧ w ∈ nbrs.getD u [] ∧
              Linked (st.faces.getD u []) (st.faces.getD w []) := by
            intro w hw
            rcases hinv.tree w hw with h0 | ⟨u, hu, h⟩
            · exact Or.inl h0
            · exact Or.inr ⟨u, List.mem_append_left _ hu, h⟩
          rcases hv with hv | rfl
          · exact key v hv
          · rcases hinv.stackOk v (by rw [hst]; exact List.mem_cons_self) with h0 | hvis
            · exact Or.inl h0
            · exact key v hvis
        · intro s hs
          rcases hinv.stackOk s (by rw [hst]; exact List.mem_cons_of_mem _ hs) with h | h
          · exact Or.inl h
          · exact Or.inr (List.mem_append_left _ h)
      · simp
      · rfl

theorem propagate_inv (nbrs : List (List Nat)) (F : List Face) : Inv nbrs F (propagate nbrs F) := by
  unfold propagate
  apply propagateLoop_inv
  constructor
  · rfl
  · intro k; exact Or.inl rfl
  · intro v hv; simp at hv
  · intro s hs; simp at hs; exact Or.inl hs

/-! ### sorted unique, unions -/

theorem mem_sortedUnique (l : List Nat) (x : Nat) : x ∈ sortedUnique l ↔ x ∈ l := by
  unfold sortedUnique
  rw [mem_dedup, (sortBy_perm _ l).mem_iff]

theorem sortedUnique_strict (l : List Nat) : (sortedUnique l).Pairwise (· < ·) := by
  unfold sortedUnique
  have hs := sortBy_pairwise (fun a b : Nat => decide (a ≤ b))
    (by intro a b; simp only [decide_eq_true_eq]; omega)
    (by intro a b c; simp only [decide_eq_true_eq]; omega) l
  have hs' := hs.sublist (dedup_sublist _)
  have hn : (dedup (sortBy (fun a b : Nat => decide (a ≤ b)) l)).Pairwise (· ≠ ·) := nodup_dedup _
  refine (hs'.and hn).imp ?_
  intro a b h
  simp only [decide_eq_true_eq] at h
  omega

/-! ### geometry of `_find_equations` -/

open Scalar

theorem norm_sq_eq (n : V3 ℝ) : V3.norm n * V3.norm n = V3.normSq n := by
  unfold V3.norm
  rw [Scalar.sqrt_real]
  exact Real.mul_self_sqrt (by unfold V3.normSq V3.dot; nlinarith [sq_nonneg n.x, sq_nonneg n.y, sq_nonneg n.z])

theorem norm_nonneg (n : V3 ℝ) : 0 ≤ V3.norm n := by
  unfold V3.norm; rw [Scalar.sqrt_real]; exact Real.sqrt_nonneg _

/-- the raw normal of `_find_equations` (`cross(v2 - v1, v0 - v1)`) is the right-hand normal
    `cross(v1 - v0, v2 - v0)` of the first three vertices -/
theorem faceEquation_raw (v0 v1 v2 : V3 ℝ) :
    V3.cross (v2 - v1) (v0 - v1) = StructSpec.rawNormal v0 v1 v2 := by
  obtain ⟨ax, ay, az⟩ := v0; obtain ⟨bx, b_y, bz⟩ := v1; obtain ⟨cx, cy, cz⟩ := v2
  unfold StructSpec.rawNormal
  ext <;> unfold_model <;> ring

/-- signed volume of the tetrahedron `p v0 v1 v2` through the raw normal -/
theorem det_eq_dot_raw (p v0 v1 v2 : V3 ℝ) :
    V3.det3 (v0 - p) (v1 - p) (v2 - p) = V3.dot (StructSpec.rawNormal v0 v1 v2) (v0 - p) := by
  obtain ⟨ax, ay, az⟩ := v0; obtain ⟨bx, b_y, bz⟩ := v1; obtain ⟨cx, cy, cz⟩ := v2
  obtain ⟨px, py, pz⟩ := p
  unfold StructSpec.rawNormal
  unfold_model; ring



/-! ### the traversal reproduces a consistent reference orientation up to one global flip -/

open StructSpec (flipIf RefOrientation)

theorem sharesEdge_reverse_left {f g : Face} (h : StructSpec.SharesEdge f g) :
    StructSpec.SharesEdge f.reverse g := by
  obtain ⟨a, b, h1, h2⟩ := h
  refine ⟨a, b, ?_, h2⟩
  unfold StructSpec.Adj at h1 ⊢
  rcases h1 with h1 | h1
  · exact Or.inr (mem_dirEdges_reverse h1)
  · exact Or.inl (mem_dirEdges_reverse h1)

theorem sharesEdge_reverse_right' {f g : Face} (h : StructSpec.SharesEdge f g) :
    StructSpec.SharesEdge f g.reverse :=
  SharesEdge_symm (sharesEdge_reverse_left (SharesEdge_symm h))

/-- key step: a neighbour oriented against a face that agrees with `G` up to the flip `c` agrees
with `G` up to the same flip -/
theorem orient_agrees {gu gv new : Face} (c : Bool)
    (hsh : StructSpec.SharesEdge gu gv) (hcons : StructSpec.Consistent gu gv)
    (hlink : Linked (flipIf c gu) new) (hnew : new = gv ∨ new = gv.reverse) :
    new = flipIf c gv := by
  cases c with
  | false =>
    simp only [flipIf, Bool.false_eq_true, if_false] at hlink ⊢
    rcases hnew with h | h
    · exact h
    · exfalso
      rw [h] at hlink
      obtain ⟨a, b, h1, h2⟩ := hlink (sharesEdge_reverse_right' hsh)
      exact hcons (a, b) (mem_dirEdges_reverse_iff.mp h2) h1
  | true =>
    simp only [flipIf, if_true] at hlink ⊢
    rcases hnew with h | h
    · exfalso
      rw [h] at hlink
      obtain ⟨a, b, h1, h2⟩ := hlink (sharesEdge_reverse_left hsh)
      exact hcons (b, a) h2 (mem_dirEdges_reverse_iff.mp h1)
    · exact h

/-- second invariant: agreement with the reference orientation, and bookkeeping of the stack -/
structure Inv2 (nbrs : List (List Nat)) (G : List Face) (st : PState) : Prop where
  agree : ∃ c : Bool, ∀ v ∈ st.visited, st.faces.getD v [] = flipIf c (G.getD v [])
  stackOk : (∀ s ∈ st.stack, s ∈ st.visited) ∨ (st.visited = [] ∧ st.stack = [0])

theorem visitNeighbors_inv2 (nbrs : List (List Nat)) (F0 G : List Face) (href : RefOrientation nbrs F0 G)
    (cur : Nat) (cf : Face) :
    ∀ (nbs : List Nat) (st : PState), (∀ nb ∈ nbs, nb ∈ nbrs.getD cur []) →
      Inv nbrs F0 st → Inv2 nbrs G st → cur ∈ st.visited → st.faces.getD cur [] = cf →
      Inv2 nbrs G (visitNeighbors (faceToEdges cf) nbs st) ∧
      (∀ nb ∈ nbs, nb ∈ (visitNeighbors (faceToEdges cf) nbs st).visited) ∧
      (∀ x ∈ st.visited, x ∈ (visitNeighbors (faceToEdges cf) nbs st).visited) ∧
      (∀ x ∈ st.stack, x ∈ (visitNeighbors (faceToEdges cf) nbs st).stack) := by
  intro nbs
  induction nbs with
  | nil => intro st _ _ h _ _; exact ⟨h, by simp, fun x hx => hx, fun x hx => hx⟩
  | cons nb nbs ih =>
    intro st hsub hinv hinv2 hcur hcf
    simp only [visitNeighbors, List.foldl_cons]
    by_cases hv : st.visited.contains nb = true
    · rw [if_pos hv]
      obtain ⟨r1, r2, r3, r4⟩ := ih st (fun x hx => hsub x (List.mem_cons_of_mem _ hx)) hinv hinv2 hcur hcf
      refine ⟨r1, ?_, r3, r4⟩
      intro x hx
      rcases List.mem_cons.mp hx with rfl | hx
      · exact r3 _ (by simpa using hv)
      · exact r2 x hx
    · rw [if_neg hv]
      have hnv : nb ∉ st.visited := by simpa using hv
      have hne : cur ≠ nb := fun h => hnv (h ▸ hcur)
      -- the state after this single step
      set st' : PState := { faces := st.faces.modify nb (orientAgainst (faceToEdges cf)),
                            visited := st.visited ++ [nb], stack := nb :: st.stack } with hst'
      have hinv' : Inv nbrs F0 st' := by
        have := visitNeighbors_inv nbrs F0 cur cf [nb] st
          (fun x hx => hsub x (by rw [List.mem_singleton.mp hx]; exact List.mem_cons_self)) hinv hcur hcf
        simpa only [visitNeighbors, List.foldl_cons, List.foldl_nil, if_neg hv] using this
      have hcur' : cur ∈ st'.visited := List.mem_append_left _ hcur
      have hcf' : st'.faces.getD cur [] = cf := by
        simp only [hst', getD_modify_ne hne.symm]; exact hcf
      have hinv2' : Inv2 nbrs G st' := by
        constructor
        · obtain ⟨c, hc⟩ := hinv2.agree
          refine ⟨c, ?_⟩
          intro v hvm
          simp only [hst', List.mem_append, List.mem_singleton] at hvm
          rcases hvm with hvm | rfl
          · have : nb ≠ v := fun h => hnv (h ▸ hvm)
            simp only [hst', getD_modify_ne this]; exact hc v hvm
          · have hnbr := hsub v List.mem_cons_self
            by_cases hlt : v < st.faces.length
            · simp only [hst', getD_modify_self hlt]
              have hcfG : cf = flipIf c (G.getD cur []) := by rw [← hcf]; exact hc cur hcur
              have hl := orientAgainst_linked cf (st.faces.getD v [])
              refine orient_agrees c (href.shares cur v hnbr) (href.consistent cur v hnbr) ?_ ?_
              · generalize orientAgainst (faceToEdges cf) (st.faces.getD v []) = new at hl ⊢
                rw [hcfG] at hl; exact hl
              · rcases orientAgainst_cases (faceToEdges cf) (st.faces.getD v []) with h | h <;>
                  rcases hinv.orig v with h' | h' <;> rcases href.orig v with h'' | h'' <;>
                  (rw [h, h', h'']; simp)
            · -- index outside the face list: impossible, the reference faces share an edge
              exfalso
              have hge : F0.length ≤ v := by rw [← hinv.len]; omega
              have hnil : G.getD v [] = [] := by
                have : F0.getD v [] = [] := by simp [List.getD_eq_getElem?_getD, List.getElem?_eq_none hge]
                rcases href.orig v with h | h
                · rw [h, this]
                · rw [h, this]; rfl
              have := href.shares cur v hnbr
              rw [hnil] at this
              obtain ⟨e, he, _⟩ := sharesEdge_iff.mp this
              simp [dirEdges_nil] at he
        · left
          intro s hs
          simp only [hst', List.mem_cons] at hs
          rcases hs with rfl | hs
          · simp [hst']
          · rcases hinv2.stackOk with h | ⟨h, _⟩
            · exact List.mem_append_left _ (h s hs)
            · rw [h] at hcur; simp at hcur
      obtain ⟨r1, r2, r3, r4⟩ := ih st' (fun x hx => hsub x (List.mem_cons_of_mem _ hx)) hinv' hinv2' hcur' hcf'
      refine ⟨r1, ?_, ?_, ?_⟩
      · intro x hx
        rcases List.mem_cons.mp hx with rfl | hx
        · exact r3 _ (by simp [hst'])
        · exact r2 x hx
      · intro x hx; exact r3 x (List.mem_append_left _ hx)
      · intro x hx; exact r4 x (List.mem_cons_of_mem _ hx)

theorem propagateLoop_inv2 (nbrs : List (List Nat)) (F0 G : List Face) (href : RefOrientation nbrs F0 G) :
    ∀ (fuel : Nat) (st : PState), Inv nbrs F0 st → Inv2 nbrs G st →
      Inv2 nbrs G (propagateLoop nbrs fuel st) := by
  intro fuel
  induction fuel with
  | zero => intro st _ h; exact h
  | succ fuel ih =>
    intro st hinv hinv2
    unfold propagateLoop
    rcases hst : st.stack with _ | ⟨cur, rest⟩
    · simp only; exact hinv2
    · simp only
      -- state after the pop
      set st1 : PState := { faces := st.faces, visited := st.visited ++ [cur], stack := rest } with hst1
      have hinv1 : Inv nbrs F0 st1 := by
        have := propagateLoop_inv nbrs F0 1 st hinv
        constructor
        · exact hinv.len
        · exact hinv.orig
        · intro v hv
          simp only [hst1, List.mem_append, List.mem_singleton] at hv
          have key : ∀ w ∈ st.visited, w = 0 ∨ ∃ u ∈ st.visited ++ [cur], u ≠ w ∧ w ∈ nbrs.getD u [] ∧
              Linked (st.faces.getD u []) (st.faces.getD w []) := by
            intro w hw
            rcases hinv.tree w hw with h0 | ⟨u, hu, h⟩
            · exact Or.inl h0
            · exact Or.inr ⟨u, List.mem_append_left _ hu, h⟩
          rcases hv with hv | rfl
          · exact key v hv
          · rcases hinv.stackOk v (by rw [hst]; exact List.mem_cons_self) with h0 | hvis
            · exact Or.inl h0
            · exact key v hvis
        · intro s hs
          rcases hinv.stackOk s (by rw [hst]; exact List.mem_cons_of_mem _ hs) with h | h
          · exact Or.inl h
          · exact Or.inr (List.mem_append_left _ h)
      have hinv21 : Inv2 nbrs G st1 := by
        constructor
        · rcases hinv2.stackOk with h | ⟨h1, h2⟩
          · obtain ⟨c, hc⟩ := hinv2.agree
            refine ⟨c, ?_⟩
            intro v hv
            simp only [hst1, List.mem_append, List.mem_singleton] at hv
            rcases hv with hv | rfl
            · exact hc v hv
            · exact hc v (h v (by rw [hst]; exact List.mem_cons_self))
          · -- very first pop: visited = [], cur = 0; choose the flip of face 0
            rcases hinv.orig cur with h | h <;> rcases href.orig cur with h' | h'
            · refine ⟨false, ?_⟩
              intro v hv
              simp only [hst1, h1, List.nil_append, List.mem_singleton] at hv
              subst hv; simp only [flipIf, Bool.false_eq_true, if_false]; rw [h, h']
            · refine ⟨true, ?_⟩
              intro v hv
              simp only [hst1, h1, List.nil_append, List.mem_singleton] at hv
              subst hv; simp only [flipIf, if_true]; rw [h, h', List.reverse_reverse]
            · refine ⟨true, ?_⟩
              intro v hv
              simp only [hst1, h1, List.nil_append, List.mem_singleton] at hv
              subst hv; simp only [flipIf, if_true]; rw [h, h']
            · refine ⟨false, ?_⟩
              intro v hv
              simp only [hst1, h1, List.nil_append, List.mem_singleton] at hv
              subst hv; simp only [flipIf, Bool.false_eq_true, if_false]; rw [h, h']
        · left
          intro s hs
          rcases hinv2.stackOk with h | ⟨_, h2⟩
          · exact List.mem_append_left _ (h s (by rw [hst]; exact List.mem_cons_of_mem _ hs))
          · rw [hst] at h2
            have : rest = [] := (List.cons.inj h2).2
            simp only [hst1, this] at hs; simp at hs
      have hcur1 : cur ∈ st1.visited := by simp [hst1]
      obtain ⟨r1, _, _, _⟩ := visitNeighbors_inv2 nbrs F0 G href cur (st1.faces.getD cur [])
        (nbrs.getD cur []) st1 (fun _ h => h) hinv1 hinv21 hcur1 rfl
      have rI := visitNeighbors_inv nbrs F0 cur (st1.faces.getD cur []) (nbrs.getD cur []) st1
        (fun _ h => h) hinv1 hcur1 rfl
      exact ih _ rI r1

theorem propagate_inv2 (nbrs : List (List Nat)) (F G : List Face) (href : RefOrientation nbrs F G) :
    Inv2 nbrs G (propagate nbrs F) := by
  unfold propagate
  apply propagateLoop_inv2 nbrs F G href
  · constructor
    · rfl
    · intro k; exact Or.inl rfl
    · intro v hv; simp at hv
    · intro s hs; simp at hs; exact Or.inl hs
  · constructor
    · exact ⟨false, by intro v hv; simp at hv⟩
    · exact Or.inr ⟨rfl, rfl⟩

/-! ### the traversal visits everything reachable (when it terminates with an empty stack) -/

/-- every visited face is still on the stack, is the face being processed, or has all its
neighbours visited -/
def ClosedExcept (nbrs : List (List Nat)) (cur : Option Nat) (st : PState) : Prop :=
  ∀ u ∈ st.visited, some u = cur ∨ u ∈ st.stack ∨ ∀ v ∈ nbrs.getD u [], v ∈ st.visited

theorem visitNeighbors_closed (nbrs : List (List Nat)) (cur : Nat) (ce : List Edge) :
    ∀ (nbs : List Nat) (st : PState), ClosedExcept nbrs (some cur) st →
      ClosedExcept nbrs (some cur) (visitNeighbors ce nbs st) ∧
      (∀ nb ∈ nbs, nb ∈ (visitNeighbors ce nbs st).visited) ∧
      (∀ x ∈ st.visited, x ∈ (visitNeighbors ce nbs st).visited) := by
  intro nbs
  induction nbs with
  | nil => intro st h; exact ⟨h, by simp, fun x hx => hx⟩
  | cons nb nbs ih =>
    intro st hcl
    simp only [visitNeighbors, List.foldl_cons]
    by_cases hv : st.visited.contains nb = true
    · rw [if_pos hv]
      obtain ⟨r1, r2, r3⟩ := ih st hcl
      refine ⟨r1, ?_, r3⟩
      intro x hx
      rcases List.mem_cons.mp hx with rfl | hx
      · exact r3 _ (by simpa using hv)
      · exact r2 x hx
    · rw [if_neg hv]
      let st' : PState := PState.mk (st.faces.modify nb (orientAgainst ce)) (st.visited ++ [nb]) (nb :: st.stack)
      obtain ⟨r1, r2, r3⟩ := ih st' (by
        intro u hu
        change u ∈ st.visited ++ [nb] at hu
        change some u = some cur ∨ u ∈ nb :: st.stack ∨ ∀ v ∈ nbrs.getD u [], v ∈ st.visited ++ [nb]
        simp only [List.mem_append, List.mem_singleton] at hu
        rcases hu with hu | rfl
        · rcases hcl u hu with h | h | h
          · exact Or.inl h
          · exact Or.inr (Or.inl (List.mem_cons_of_mem _ h))
          · exact Or.inr (Or.inr (fun v hv => List.mem_append_left _ (h v hv)))
        · exact Or.inr (Or.inl List.mem_cons_self))
      refine ⟨r1, ?_, fun x hx => r3 x (List.mem_append_left _ hx)⟩
      intro x hx
      rcases List.mem_cons.mp hx with rfl | hx
      · exact r3 _ (by change x ∈ st.visited ++ [x]; simp)
      · exact r2 x hx

theorem propagateLoop_closed (nbrs : List (List Nat)) :
    ∀ (fuel : Nat) (st : PState), ClosedExcept nbrs none st →
      ClosedExcept nbrs none (propagateLoop nbrs fuel st) := by
  intro fuel
  induction fuel with
  | zero => intro st h; exact h
  | succ fuel ih =>
    intro st hcl
    unfold propagateLoop
    rcases hst : st.stack with _ | ⟨cur, rest⟩
    · simp only; exact hcl
    · simp only
      apply ih
      obtain ⟨r1, r2, r3⟩ := visitNeighbors_closed nbrs cur
        (faceToEdges (st.faces.getD cur [])) (nbrs.getD cur [])
        (PState.mk st.faces (st.visited ++ [cur]) rest) (by
          intro u hu
          simp only [List.mem_append, List.mem_singleton] at hu
          rcases hu with hu | rfl
          · rcases hcl u hu with h | h | h
            · simp at h
            · rw [hst] at h
              rcases List.mem_cons.mp h with rfl | h
              · exact Or.inl rfl
              · exact Or.inr (Or.inl h)
            · exact Or.inr (Or.inr (fun v hv => List.mem_append_left _ (h v hv)))
          · exact Or.inl rfl)
      intro u hu
      rcases r1 u hu with h | h | h
      · have : u = cur := by simpa using h
        subst this
        exact Or.inr (Or.inr r2)
      · exact Or.inr (Or.inl h)
      · exact Or.inr (Or.inr h)

theorem propagate_closed (nbrs : List (List Nat)) (F : List Face)
    (hdone : (propagate nbrs F).stack = []) :
    ∀ u ∈ (propagate nbrs F).visited, ∀ v ∈ nbrs.getD u [], v ∈ (propagate nbrs F).visited := by
  have h := propagateLoop_closed nbrs (propagateFuel nbrs) { faces := F, visited := [], stack := [0] }
    (by intro u hu; simp at hu)
  intro u hu
  rcases h u hu with h | h | h
  · simp at h
  · unfold propagate at hdone; rw [hdone] at h; simp at h
  · exact h

theorem visitNeighbors_visited_mono (ce : List Edge) :
    ∀ (nbs : List Nat) (st : PState) (x : Nat), x ∈ st.visited → x ∈ (visitNeighbors ce nbs st).visited := by
  intro nbs
  induction nbs with
  | nil => intro st x h; exact h
  | cons nb nbs ih =>
    intro st x hx
    simp only [visitNeighbors, List.foldl_cons]
    by_cases hv : st.visited.contains nb = true
    · rw [if_pos hv]; exact ih st x hx
    · rw [if_neg hv]; exact ih _ x (List.mem_append_left _ hx)

theorem propagateLoop_visited_mono (nbrs : List (List Nat)) :
    ∀ (fuel : Nat) (st : PState) (x : Nat), x ∈ st.visited → x ∈ (propagateLoop nbrs fuel st).visited := by
  intro fuel
  induction fuel with
  | zero => intro st x h; exact h
  | succ fuel ih =>
    intro st x hx
    unfold propagateLoop
    rcases hst : st.stack with _ | ⟨cur, rest⟩
    · simp only; exact hx
    · simp only
      apply ih
      exact visitNeighbors_visited_mono _ _ _ x (List.mem_append_left _ hx)

/-- face 0 is always visited -/
theorem zero_mem_visited (nbrs : List (List Nat)) (F : List Face) : 0 ∈ (propagate nbrs F).visited := by
  unfold propagate propagateFuel
  rw [show (nbrs.map List.length).sum + 2 = ((nbrs.map List.length).sum + 1) + 1 from rfl]
  unfold propagateLoop
  simp only
  apply propagateLoop_visited_mono
  apply visitNeighbors_visited_mono
  simp

end StructLemmas
