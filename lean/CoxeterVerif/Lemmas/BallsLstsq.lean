import CoxeterVerif.Lemmas.Balls
/-!
  C13 — the `np.linalg.lstsq` contract as a decidable certificate.

  `BallSpec.lstsqCert rows x r` (Spec/Balls.lean) tests the normal equations `Aᵀ(A(x,r) − b) = 0`
  exactly; the driver evaluates it over ℚ on the exact least-squares solution it computes itself
  (`BallSpec.solveNormal`, Gauss–Jordan, untrusted).  Here: the certificate is SOUND and COMPLETE
  for "`(x, r)` minimises `‖A(x,r) − b‖²`", and any other `(x', r')` exceeds the minimum by exactly
  `‖A((x',r') − (x,r))‖²` (so the excess of LAPACK's answer is an exactly computable number).
-/
noncomputable section
namespace Balls
open BallSpec

/-- homogeneous part of a row: `a·dx + k·dr` -/
def Row.lin (row : Row ℝ) (dx : V3 ℝ) (dr : ℝ) : ℝ := V3.dot row.a dx + row.k * dr

/-- `‖A(dx,dr)‖²` -/
def linSq (rows : List (Row ℝ)) (dx : V3 ℝ) (dr : ℝ) : ℝ :=
  (rows.map fun row => row.lin dx dr * row.lin dx dr).sum

theorem linSq_nonneg (rows : List (Row ℝ)) (dx : V3 ℝ) (dr : ℝ) : 0 ≤ linSq rows dx dr :=
  sum_sq_nonneg _ _

theorem linSq_eq_zero_iff (rows : List (Row ℝ)) (dx : V3 ℝ) (dr : ℝ) :
    linSq rows dx dr = 0 ↔ ∀ row ∈ rows, row.lin dx dr = 0 := by
  constructor
  · intro h row hrow
    have := sum_sq_ge_mem (fun row : Row ℝ => row.lin dx dr) rows row hrow
    unfold linSq at h
    rw [h] at this
    exact mul_self_eq_zero.mp (le_antisymm this (mul_self_nonneg _))
  · intro h
    unfold linSq
    apply List.sum_eq_zero
    intro y hy
    obtain ⟨row, hrow, rfl⟩ := List.mem_map.mp hy
    rw [h row hrow]; ring

/-- the four components of `normalGrad` as plain sums -/
theorem normalGrad_x (rows : List (Row ℝ)) (x : V3 ℝ) (r : ℝ) :
    (normalGrad rows x r).1.x = (rows.map fun row => row.resid x r * row.a.x).sum := by
  simp [normalGrad, V3.sum_x, List.map_map, Function.comp_def]
theorem normalGrad_y (rows : List (Row ℝ)) (x : V3 ℝ) (r : ℝ) :
    (normalGrad rows x r).1.y = (rows.map fun row => row.resid x r * row.a.y).sum := by
  simp [normalGrad, V3.sum_y, List.map_map, Function.comp_def]
theorem normalGrad_z (rows : List (Row ℝ)) (x : V3 ℝ) (r : ℝ) :
    (normalGrad rows x r).1.z = (rows.map fun row => row.resid x r * row.a.z).sum := by
  simp [normalGrad, V3.sum_z, List.map_map, Function.comp_def]
theorem normalGrad_k (rows : List (Row ℝ)) (x : V3 ℝ) (r : ℝ) :
    (normalGrad rows x r).2 = (rows.map fun row => row.resid x r * row.k).sum := by
  simp [normalGrad]

/-- **expansion about a point**:
`‖A(x',r') − b‖² = ‖A(x,r) − b‖² + 2 g·((x',r') − (x,r)) + ‖A((x',r') − (x,r))‖²`, `g = Aᵀ(A(x,r) − b)` -/
theorem sumSq_shift (rows : List (Row ℝ)) (x x' : V3 ℝ) (r r' : ℝ) :
    sumSq rows x' r' = sumSq rows x r
      + 2 * (V3.dot (normalGrad rows x r).1 (x' - x) + (normalGrad rows x r).2 * (r' - r))
      + linSq rows (x' - x) (r' - r) := by
  rw [V3.dot_eq, normalGrad_x, normalGrad_y, normalGrad_z, normalGrad_k, sumSq_eq, sumSq_eq]
  unfold linSq
  induction rows with
  | nil => simp
  | cons row rows ih =>
    simp only [List.map_cons, List.sum_cons]
    rw [ih]
    simp only [Row.resid, Row.lin, V3.dot_eq, V3.sub_x, V3.sub_y, V3.sub_z]
    ring

/-- the contract of `np.linalg.lstsq` used by C13: `(x, r)` minimises `‖A·(x,r) − b‖²` -/
def IsLstsqMin (rows : List (Row ℝ)) (x : V3 ℝ) (r : ℝ) : Prop :=
  ∀ x' r', sumSq rows x r ≤ sumSq rows x' r'

/-- the normal equations hold at `(x, r)` -/
def NormalEq (rows : List (Row ℝ)) (x : V3 ℝ) (r : ℝ) : Prop :=
  (normalGrad rows x r).1 = V3.zero ∧ (normalGrad rows x r).2 = 0

theorem isZero_real (a : ℝ) : isZero a = true ↔ a = 0 := by
  unfold isZero
  show decide (a = ((0 : ℕ) : ℝ)) = true ↔ a = 0
  simp

/-- the Boolean checker says exactly that the normal equations hold -/
theorem lstsqCert_iff_normalEq (rows : List (Row ℝ)) (x : V3 ℝ) (r : ℝ) :
    lstsqCert rows x r = true ↔ NormalEq rows x r := by
  unfold lstsqCert NormalEq
  simp only [Bool.and_eq_true, isZero_real]
  constructor
  · rintro ⟨⟨⟨h1, h2⟩, h3⟩, h4⟩
    exact ⟨by ext <;> simp [h1, h2, h3], h4⟩
  · rintro ⟨h, h4⟩
    rw [h]
    exact ⟨⟨⟨by simp, by simp⟩, by simp⟩, h4⟩

/-- **soundness**: normal equations ⇒ least-squares minimiser -/
theorem normalEq_imp_min {rows : List (Row ℝ)} {x : V3 ℝ} {r : ℝ} (h : NormalEq rows x r) :
    IsLstsqMin rows x r := by
  intro x' r'
  rw [sumSq_shift rows x x' r r', h.1, h.2]
  have := linSq_nonneg rows (x' - x) (r' - r)
  simp only [V3.dot_eq, V3.zero_x, V3.zero_y, V3.zero_z]
  linarith

/-- **exact excess**: with the normal equations at `(x, r)`, any `(x', r')` has
`‖A(x',r') − b‖² = min + ‖A((x',r') − (x,r))‖²` -/
theorem sumSq_excess {rows : List (Row ℝ)} {x : V3 ℝ} {r : ℝ} (h : NormalEq rows x r)
    (x' : V3 ℝ) (r' : ℝ) : sumSq rows x' r' = sumSq rows x r + linSq rows (x' - x) (r' - r) := by
  rw [sumSq_shift rows x x' r r', h.1, h.2]
  simp only [V3.dot_eq, V3.zero_x, V3.zero_y, V3.zero_z]
  ring

/-- **completeness**: a least-squares minimiser satisfies the normal equations (move against the
gradient: `f(z − t g) = f(z) − 2t‖g‖² + t²‖Ag‖²` is smaller for small `t > 0` unless `g = 0`) -/
theorem min_imp_normalEq {rows : List (Row ℝ)} {x : V3 ℝ} {r : ℝ} (h : IsLstsqMin rows x r) :
    NormalEq rows x r := by
  set g := (normalGrad rows x r).1 with hg
  set gk := (normalGrad rows x r).2 with hgk
  set G := V3.normSq g + gk * gk with hG
  have hGnn : 0 ≤ G := by have := V3.normSq_nonneg g; nlinarith [mul_self_nonneg gk]
  have key : G = 0 := by
    by_contra hne
    have hGpos : 0 < G := lt_of_le_of_ne hGnn (Ne.symm hne)
    set Q := linSq rows (V3.smul (-1) g) (-gk) with hQ
    have hQnn : 0 ≤ Q := linSq_nonneg _ _ _
    set t := G / (Q + 1) with ht
    have htpos : 0 < t := div_pos hGpos (by linarith)
    have hmin := h (x + V3.smul (-t) g) (r + -t * gk)
    have hs := sumSq_shift rows x (x + V3.smul (-t) g) r (r + -t * gk)
    rw [hs] at hmin
    have e1 : x + V3.smul (-t) g - x = V3.smul t (V3.smul (-1) g) := by ext <;> simp
    have e2 : r + -t * gk - r = t * -gk := by ring
    have hlin : linSq rows (V3.smul t (V3.smul (-1) g)) (t * -gk) = t * t * Q := by
      rw [hQ]; unfold linSq
      rw [← List.sum_map_mul_left]
      congr 1
      apply List.map_congr_left
      intro row _
      simp only [Row.lin, V3.dot_eq, V3.smul_x, V3.smul_y, V3.smul_z]; ring
    rw [e1, e2, hlin] at hmin
    have hdot : V3.dot g (V3.smul t (V3.smul (-1) g)) + gk * (t * -gk) = -t * G := by
      rw [hG]; simp only [V3.dot_eq, V3.normSq_eq, V3.smul_x, V3.smul_y, V3.smul_z]; ring
    have hdot' : V3.dot (normalGrad rows x r).1 (V3.smul t (V3.smul (-1) g))
        + (normalGrad rows x r).2 * (t * -gk) = -t * G := hdot
    rw [hdot'] at hmin
    -- 0 ≤ -2 t G + t² Q  with  t (Q+1) = G
    have htQ : t * (Q + 1) = G := by rw [ht]; field_simp
    have : 0 ≤ t * (-2 * G + t * Q) := by nlinarith
    have h2 : -2 * G + t * Q < 0 := by nlinarith
    nlinarith
  have hg0 : V3.normSq g = 0 ∧ gk * gk = 0 := by
    have := V3.normSq_nonneg g; have := mul_self_nonneg gk
    constructor <;> nlinarith
  refine ⟨?_, mul_self_eq_zero.mp hg0.2⟩
  have hn := hg0.1
  rw [V3.normSq_eq] at hn
  have hx : g.x = 0 := by nlinarith [mul_self_nonneg g.x, mul_self_nonneg g.y, mul_self_nonneg g.z]
  have hy : g.y = 0 := by nlinarith [mul_self_nonneg g.x, mul_self_nonneg g.y, mul_self_nonneg g.z]
  have hz : g.z = 0 := by nlinarith [mul_self_nonneg g.x, mul_self_nonneg g.y, mul_self_nonneg g.z]
  show g = V3.zero
  ext <;> simp [hx, hy, hz]

/-- **the least-squares certificate is sound and complete** -/
theorem lstsqCert_iff (rows : List (Row ℝ)) (x : V3 ℝ) (r : ℝ) :
    lstsqCert rows x r = true ↔ IsLstsqMin rows x r :=
  (lstsqCert_iff_normalEq rows x r).trans ⟨normalEq_imp_min, min_imp_normalEq⟩

/-- two minimisers have the same residual, and differ by a kernel vector of `A` -/
theorem min_unique_resid {rows : List (Row ℝ)} {x x' : V3 ℝ} {r r' : ℝ}
    (h : IsLstsqMin rows x r) (h' : IsLstsqMin rows x' r') :
    sumSq rows x r = sumSq rows x' r' ∧ ∀ row ∈ rows, row.lin (x' - x) (r' - r) = 0 := by
  have e := sumSq_excess (min_imp_normalEq h) x' r'
  have h1 := h x' r'; have h2 := h' x r
  have hz : linSq rows (x' - x) (r' - r) = 0 := by
    have := linSq_nonneg rows (x' - x) (r' - r); linarith
  exact ⟨le_antisymm h1 h2, (linSq_eq_zero_iff _ _ _).mp hz⟩

/-- the system has full column rank in the `x` unknowns: only `dx = 0` is annihilated by every
row (three-column systems: circumsphere / circumcircle) -/
def InjRows3 (rows : List (Row ℝ)) : Prop :=
  ∀ dx : V3 ℝ, (∀ row ∈ rows, V3.dot row.a dx = 0) → dx = V3.zero

/-- full column rank in all four unknowns (insphere / incircle) -/
def InjRows4 (rows : List (Row ℝ)) : Prop :=
  ∀ (dx : V3 ℝ) (dr : ℝ), (∀ row ∈ rows, row.lin dx dr = 0) → dx = V3.zero ∧ dr = 0

end Balls
end
