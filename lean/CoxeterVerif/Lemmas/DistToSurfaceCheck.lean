import CoxeterVerif.Lemmas.DistToSurface
/-!
  C14: soundness of the executable hypothesis checkers `Spec.strictConvexCCWb`,
  `Spec.strictlyInsideCCWb` (the driver evaluates them exactly over ℚ on the vertices the
  implementation stores, op `c14.hyp`): `true` implies the `Prop` the theorems assume.
-/
open Scalar
noncomputable section
namespace DTS

theorem p2eqb_iff (u v : P2 ℝ) : Spec.p2eqb u v = true ↔ u = v := by
  cases u; cases v
  simp [Spec.p2eqb]

theorem nodupb_sound : ∀ V : List (P2 ℝ), Spec.nodupb V = true → V.Nodup := by
  intro V
  induction V with
  | nil => intro _; exact List.nodup_nil
  | cons v vs ih =>
    intro h
    simp only [Spec.nodupb, Bool.and_eq_true, List.all_eq_true, Bool.not_eq_true'] at h
    refine List.nodup_cons.mpr ⟨?_, ih h.2⟩
    intro hv
    have := h.1 v hv
    have h2 : Spec.p2eqb v v = true := (p2eqb_iff v v).mpr rfl
    rw [h2] at this
    exact absurd this (by simp)

/-- **checker soundness** (convexity) -/
theorem strictConvexCCWb_sound (V : List (P2 ℝ)) (h : Spec.strictConvexCCWb V = true) :
    Spec.strictConvexCCW V := by
  simp only [Spec.strictConvexCCWb, Bool.and_eq_true, List.all_eq_true, Bool.or_eq_true,
    decide_eq_true_eq] at h
  refine ⟨nodupb_sound V h.1, ?_⟩
  intro e he w hw h1 h2
  rcases h.2 e he w hw with (h3 | h3) | h3
  · exact absurd ((p2eqb_iff _ _).mp h3) h1
  · exact absurd ((p2eqb_iff _ _).mp h3) h2
  · exact h3

/-- **checker soundness** (centre strictly inside) -/
theorem strictlyInsideCCWb_sound (V : List (P2 ℝ)) (p : P2 ℝ) (h : Spec.strictlyInsideCCWb V p = true) :
    Spec.strictlyInsideCCW V p := by
  simp only [Spec.strictlyInsideCCWb, List.all_eq_true, decide_eq_true_eq] at h
  exact h

end DTS
end
