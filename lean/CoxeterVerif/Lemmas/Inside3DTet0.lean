import CoxeterVerif.Lemmas.Inside3DWinding
/-!
  C05, the single-tetrahedron winding lemma — part 4: the query point may lie IN THE PLANE of the
  face `(b, c, d)` opposite to the first vertex (as long as it is not on that closed triangle).

  This is the situation of a cone tetrahedron `(o, t)` over a surface triangle `t` and a query point
  that is coplanar with `t` — e.g. a lattice point of a voxel solid, coplanar with many faces.
  The face `(b, c, d)` then contributes `0` (`triangle_sign = 0`), and for the other three faces the
  barycentric identities degenerate to `β₂ p_bc + β₃ p_bd = 0`, …; the finite table `tetTable0OK`
  (2³·2⁶ patterns) gives: the three terms add up to `±1` when `β₁, β₂, β₃` have one sign (the point
  is in the open triangle `(b, c, d)` — excluded) and to `0` otherwise.
-/
open Scalar
set_option maxRecDepth 4000
noncomputable section

namespace Inside3D
open Spec.In3D

/-! ### the finite table for `β₀ = 0` -/

def tetRow0 (s1 s2 s3 ab ac ad bc bd cd : Int) : Bool :=
  decide (s1 * ab = s2 * ac ∧ s2 * ac = s3 * ad) ||
  !decide (s2 * bc = -(s3 * bd)) || !decide (s1 * bc = s3 * cd) || !decide (s1 * bd = -(s2 * cd)) ||
  decide (s3 * pierceI ac (-bc) (-ab) + s2 * pierceI ab bd (-ad) + s1 * pierceI ad (-cd) (-ac)
    = (if s1 = 1 ∧ s2 = 1 ∧ s3 = 1 then 1 else 0) - (if s1 = -1 ∧ s2 = -1 ∧ s3 = -1 then 1 else 0))

def tetTable0OK : Bool :=
  pm.all fun s1 => pm.all fun s2 => pm.all fun s3 =>
  pm.all fun ab => pm.all fun ac => pm.all fun ad => pm.all fun bc => pm.all fun bd => pm.all fun cd =>
    tetRow0 s1 s2 s3 ab ac ad bc bd cd

theorem tetTable0OK_true : tetTable0OK = true := by decide +kernel

theorem tet_table0 {s1 s2 s3 ab ac ad bc bd cd : Int}
    (h1 : s1 = 1 ∨ s1 = -1) (h2 : s2 = 1 ∨ s2 = -1) (h3 : s3 = 1 ∨ s3 = -1)
    (g1 : ab = 1 ∨ ab = -1) (g2 : ac = 1 ∨ ac = -1) (g3 : ad = 1 ∨ ad = -1)
    (g4 : bc = 1 ∨ bc = -1) (g5 : bd = 1 ∨ bd = -1) (g6 : cd = 1 ∨ cd = -1)
    (hIa : ¬ (s1 * ab = s2 * ac ∧ s2 * ac = s3 * ad))
    (hIb : s2 * bc = -(s3 * bd)) (hIc : s1 * bc = s3 * cd) (hId : s1 * bd = -(s2 * cd)) :
    s3 * pierceI ac (-bc) (-ab) + s2 * pierceI ab bd (-ad) + s1 * pierceI ad (-cd) (-ac)
    = (if s1 = 1 ∧ s2 = 1 ∧ s3 = 1 then 1 else 0) - (if s1 = -1 ∧ s2 = -1 ∧ s3 = -1 then 1 else 0) := by
  have h := tetTable0OK_true
  simp only [tetTable0OK, List.all_eq_true] at h
  have hr := h s1 (mem_pm h1) s2 (mem_pm h2) s3 (mem_pm h3) ab (mem_pm g1) ac (mem_pm g2)
    ad (mem_pm g3) bc (mem_pm g4) bd (mem_pm g5) cd (mem_pm g6)
  unfold tetRow0 at hr
  simp only [Bool.or_eq_true, decide_eq_true_iff, Bool.not_eq_true', decide_eq_false_iff_not] at hr
  rcases hr with (((hr | hr) | hr) | hr) | hr
  · exact absurd hr hIa
  · exact absurd hIb hr
  · exact absurd hIc hr
  · exact absurd hId hr
  · exact hr

theorem sgn_eq_neg_of_add_eq_zero {x y : ℝ} (h : x + y = 0) : sgn x = -sgn y := by
  have : x = -y := by linarith
  rw [this, sgn_neg]

/-- a triangle coplanar with the query point contributes nothing -/
theorem contribD_zero_of_det {d0 d1 d2 : V3 ℝ} (h : V3.det3 d0 d1 d2 = 0) : contribD d0 d1 d2 = 0 := by
  unfold contribD
  simp only
  rw [triSign_eq_det, h, sgn_zero']
  split_ifs <;> rfl

/-- **generic position, `β₀ = 0`** -/
theorem tet_generic0 (a b c d : V3 ℝ)
    (hxa : a.x ≠ 0) (hxb : b.x ≠ 0) (hxc : c.x ≠ 0) (hxd : d.x ≠ 0)
    (hab : c2 a b ≠ 0) (hac : c2 a c ≠ 0) (had : c2 a d ≠ 0)
    (hbc : c2 b c ≠ 0) (hbd : c2 b d ≠ 0) (hcd : c2 c d ≠ 0)
    (h0 : V3.det3 b c d = 0) (h1 : V3.det3 a d c ≠ 0) (h2 : V3.det3 a b d ≠ 0) (h3 : V3.det3 a c b ≠ 0) :
    contribD a c b + contribD a b d + contribD a d c =
      (if sgn (V3.det3 a d c) = 1 ∧ sgn (V3.det3 a b d) = 1 ∧ sgn (V3.det3 a c b) = 1 then 1 else 0)
      - (if sgn (V3.det3 a d c) = -1 ∧ sgn (V3.det3 a b d) = -1 ∧ sgn (V3.det3 a c b) = -1 then 1 else 0) := by
  have nba : c2 b a ≠ 0 := by rw [c2_swap]; exact neg_ne_zero.mpr hab
  have nca : c2 c a ≠ 0 := by rw [c2_swap]; exact neg_ne_zero.mpr hac
  have nda : c2 d a ≠ 0 := by rw [c2_swap]; exact neg_ne_zero.mpr had
  have ncb : c2 c b ≠ 0 := by rw [c2_swap]; exact neg_ne_zero.mpr hbc
  have ndc : c2 d c ≠ 0 := by rw [c2_swap]; exact neg_ne_zero.mpr hcd
  rw [contribD_generic_int a c b hxa hxc hxb hac ncb nba,
    contribD_generic_int a b d hxa hxb hxd hab hbd nda,
    contribD_generic_int a d c hxa hxd hxc had ndc nca]
  rw [c2_swap a b, c2_swap a c, c2_swap a d, c2_swap b c, c2_swap c d]
  simp only [sgn_neg]
  have Ia : V3.det3 a d c * c2 a b + V3.det3 a b d * c2 a c + V3.det3 a c b * c2 a d = 0 := by
    unfold V3.det3 V3.dot V3.cross c2; ring
  have Ib : V3.det3 a b d * c2 b c + V3.det3 a c b * c2 b d = 0 := by
    have : -(V3.det3 b c d * c2 a b) + V3.det3 a b d * c2 b c + V3.det3 a c b * c2 b d = 0 := by
      unfold V3.det3 V3.dot V3.cross c2; ring
    rw [h0] at this; linarith
  have Ic : -(V3.det3 a d c * c2 b c) + V3.det3 a c b * c2 c d = 0 := by
    have : -(V3.det3 b c d * c2 a c) + -(V3.det3 a d c * c2 b c) + V3.det3 a c b * c2 c d = 0 := by
      unfold V3.det3 V3.dot V3.cross c2; ring
    rw [h0] at this; linarith
  have Id : V3.det3 a d c * c2 b d + V3.det3 a b d * c2 c d = 0 := by
    have : -(V3.det3 b c d * c2 a d) + -(V3.det3 a d c * c2 b d) + -(V3.det3 a b d * c2 c d) = 0 := by
      unfold V3.det3 V3.dot V3.cross c2; ring
    rw [h0] at this; linarith
  have eIa := sgn_sum3_excl Ia (mul_ne_zero h1 hab)
  have eIb := sgn_eq_neg_of_add_eq_zero Ib
  have eIc := sgn_eq_neg_of_add_eq_zero Ic
  have eId := sgn_eq_neg_of_add_eq_zero Id
  simp only [sgn_neg, sgn_mul] at eIa eIb eIc eId
  have := tet_table0 (sgn_pm h1) (sgn_pm h2) (sgn_pm h3) (sgn_pm hab) (sgn_pm hac) (sgn_pm had)
    (sgn_pm hbc) (sgn_pm hbd) (sgn_pm hcd) eIa eIb (by linarith [eIc]) eId
  linarith [this]

theorem det3_swap_last (A B C : V3 ℝ) : V3.det3 A C B = -V3.det3 A B C := by
  unfold V3.det3 V3.dot V3.cross; ring

/-- **any position, `β₀ = 0`**: the query point (origin) in the plane of `(b, c, d)`, off the three
planes through `a` -/
theorem tet_any0 (a b c d : V3 ℝ)
    (h0 : V3.det3 b c d = 0) (h1 : V3.det3 a d c ≠ 0) (h2 : V3.det3 a b d ≠ 0) (h3 : V3.det3 a c b ≠ 0) :
    contribD a c b + contribD a b d + contribD b c d + contribD a d c =
      (if sgn (V3.det3 a d c) = 1 ∧ sgn (V3.det3 a b d) = 1 ∧ sgn (V3.det3 a c b) = 1 then 1 else 0)
      - (if sgn (V3.det3 a d c) = -1 ∧ sgn (V3.det3 a b d) = -1 ∧ sgn (V3.det3 a c b) = -1 then 1 else 0) := by
  rw [contribD_zero_of_det h0, add_zero]
  let tv (u : V3 ℝ) : ℝ × ℝ × ℝ := (u.x, u.y, u.z)
  obtain ⟨ε, hε, hk⟩ := lex_eps [tv a, tv b, tv c, tv d,
    Poly.computeCross a c, Poly.computeCross c b, Poly.computeCross b a,
    Poly.computeCross a b, Poly.computeCross b d, Poly.computeCross d a,
    Poly.computeCross b c, Poly.computeCross c d,
    Poly.computeCross a d, Poly.computeCross d c, Poly.computeCross c a]
  have hk' := hk ε hε le_rfl
  have va : VOK ε a := hk' (tv a) (by simp)
  have vb : VOK ε b := hk' (tv b) (by simp)
  have vc : VOK ε c := hk' (tv c) (by simp)
  have vd : VOK ε d := hk' (tv d) (by simp)
  have eac : EOK ε a c := hk' (Poly.computeCross a c) (by simp)
  have ecb : EOK ε c b := hk' (Poly.computeCross c b) (by simp)
  have eba : EOK ε b a := hk' (Poly.computeCross b a) (by simp)
  have eab : EOK ε a b := hk' (Poly.computeCross a b) (by simp)
  have ebd : EOK ε b d := hk' (Poly.computeCross b d) (by simp)
  have eda : EOK ε d a := hk' (Poly.computeCross d a) (by simp)
  have ebc : EOK ε b c := hk' (Poly.computeCross b c) (by simp)
  have ecd : EOK ε c d := hk' (Poly.computeCross c d) (by simp)
  have ead : EOK ε a d := hk' (Poly.computeCross a d) (by simp)
  have edc : EOK ε d c := hk' (Poly.computeCross d c) (by simp)
  have eca : EOK ε c a := hk' (Poly.computeCross c a) (by simp)
  rw [← contribD_shear h3 va vc vb eac ecb eba, ← contribD_shear h2 va vb vd eab ebd eda,
    ← contribD_shear h1 va vd vc ead edc eca,
    ← det3_shear ε a d c, ← det3_shear ε a b d, ← det3_shear ε a c b]
  have h0' : V3.det3 (shear ε b) (shear ε c) (shear ε d) = 0 := by rw [det3_shear]; exact h0
  have h1' : V3.det3 (shear ε a) (shear ε d) (shear ε c) ≠ 0 := by rw [det3_shear]; exact h1
  have h2' : V3.det3 (shear ε a) (shear ε b) (shear ε d) ≠ 0 := by rw [det3_shear]; exact h2
  have h3' : V3.det3 (shear ε a) (shear ε c) (shear ε b) ≠ 0 := by rw [det3_shear]; exact h3
  have h3c : V3.det3 c b a ≠ 0 := by rw [det3_cyc]; exact h3
  have h3b : V3.det3 b a c ≠ 0 := by rw [det3_cyc]; exact h3c
  have h2b : V3.det3 b d a ≠ 0 := by rw [det3_cyc]; exact h2
  have h2d : V3.det3 d a b ≠ 0 := by rw [det3_cyc]; exact h2b
  have h1c : V3.det3 c a d ≠ 0 := by rw [← det3_cyc, ← det3_cyc] at h1; exact h1
  have hbca : V3.det3 b c a ≠ 0 := by
    rw [det3_cyc, det3_swap_last]; exact neg_ne_zero.mpr h3
  have hcda : V3.det3 c d a ≠ 0 := by
    rw [det3_cyc, det3_swap_last]; exact neg_ne_zero.mpr h1
  exact tet_generic0 (shear ε a) (shear ε b) (shear ε c) (shear ε d)
    (shear_x_ne va (vec_ne_of_det h3)) (shear_x_ne vb (vec_ne_of_det h3b))
    (shear_x_ne vc (vec_ne_of_det h3c)) (shear_x_ne vd (vec_ne_of_det h2d))
    (shear_c2_ne eab (cc_ne_of_det h2)) (shear_c2_ne eac (cc_ne_of_det h3)) (shear_c2_ne ead (cc_ne_of_det h1))
    (shear_c2_ne ebc (cc_ne_of_det hbca)) (shear_c2_ne ebd (cc_ne_of_det h2b))
    (shear_c2_ne ecd (cc_ne_of_det hcda))
    h0' h1' h2' h3'

/-! ### statement on the model and the spec -/

/-- **Single-tetrahedron winding lemma, extended.**  `p` off the three face planes through `T.a`;
it may lie in the plane of the opposite face `(T.b, T.c, T.d)` provided it is not in that (closed)
triangle, i.e. provided `inTet T p = false` in that case.  Same formula as `tet_winding`. -/
theorem tet_winding' (T : Tet ℝ) (p : V3 ℝ)
    (h1 : orient T.a p T.c T.d ≠ 0) (h2 : orient T.a T.b p T.d ≠ 0) (h3 : orient T.a T.b T.c p ≠ 0)
    (h0 : orient p T.b T.c T.d ≠ 0 ∨ inTet T p = false) :
    Poly.windingSum T.bdry p =
      2 * (if inTet T p = true then sgn (orient T.a T.b T.c T.d) else 0) := by
  by_cases hb0 : orient p T.b T.c T.d = 0
  · have hin : inTet T p = false := by
      rcases h0 with h | h
      · exact absurd hb0 h
      · exact h
    rw [hin]
    simp only [Bool.false_eq_true, if_false, mul_zero]
    obtain ⟨a, b, c, d⟩ := T
    simp only at h1 h2 h3 hb0 hin
    have e0 : V3.det3 (b - p) (c - p) (d - p) = orient p b c d := rfl
    have e1 : V3.det3 (a - p) (d - p) (c - p) = orient a p c d := by
      obtain ⟨ax, ay, az⟩ := a; obtain ⟨cx, cy, cz⟩ := c; obtain ⟨dx, dy, dz⟩ := d; obtain ⟨px, py, pz⟩ := p
      unfold orient V3.det3 V3.dot V3.cross
      simp only [V3.sub_x, V3.sub_y, V3.sub_z]; ring
    have e2 : V3.det3 (a - p) (b - p) (d - p) = orient a b p d := by
      obtain ⟨ax, ay, az⟩ := a; obtain ⟨bx, b_y, bz⟩ := b; obtain ⟨dx, dy, dz⟩ := d; obtain ⟨px, py, pz⟩ := p
      unfold orient V3.det3 V3.dot V3.cross
      simp only [V3.sub_x, V3.sub_y, V3.sub_z]; ring
    have e3 : V3.det3 (a - p) (c - p) (b - p) = orient a b c p := by
      obtain ⟨ax, ay, az⟩ := a; obtain ⟨bx, b_y, bz⟩ := b; obtain ⟨cx, cy, cz⟩ := c; obtain ⟨px, py, pz⟩ := p
      unfold orient V3.det3 V3.dot V3.cross
      simp only [V3.sub_x, V3.sub_y, V3.sub_z]; ring
    have hsum : orient p b c d + orient a p c d + orient a b p d + orient a b c p = orient a b c d := by
      obtain ⟨ax, ay, az⟩ := a; obtain ⟨bx, b_y, bz⟩ := b; obtain ⟨cx, cy, cz⟩ := c
      obtain ⟨dx, dy, dz⟩ := d; obtain ⟨px, py, pz⟩ := p
      unfold orient V3.det3 V3.dot V3.cross
      simp only [V3.sub_x, V3.sub_y, V3.sub_z]; ring
    have key := tet_any0 (a - p) (b - p) (c - p) (d - p) (by rw [e0]; exact hb0) (by rw [e1]; exact h1)
      (by rw [e2]; exact h2) (by rw [e3]; exact h3)
    rw [e1, e2, e3] at key
    have hW : Poly.windingSum (Tet.bdry ⟨a, b, c, d⟩) p =
        contribD (a - p) (c - p) (b - p) + contribD (a - p) (b - p) (d - p)
          + contribD (b - p) (c - p) (d - p) + contribD (a - p) (d - p) (c - p) := by
      simp only [Poly.windingSum, Tet.bdry, List.map_cons, List.map_nil, List.sum_cons, List.sum_nil,
        contribution_eq]
      ring
    rw [hW, key]
    -- `inTet = false` with `β₀ = 0` forbids one sign for `β₁, β₂, β₃`
    simp only [inTet, bary, List.all_cons, List.all_nil, Bool.and_true, Bool.or_eq_false_iff,
      Bool.and_eq_false_iff, decide_eq_false_iff_not, Scalar.lit, Scalar.ofNat_real, Nat.cast_zero, not_lt,
      not_le] at hin
    rw [hb0] at hin hsum
    obtain ⟨hA, hB⟩ := hin
    have np : ¬ (sgn (orient a p c d) = 1 ∧ sgn (orient a b p d) = 1 ∧ sgn (orient a b c p) = 1) := by
      rintro ⟨p1, p2, p3⟩
      have q1 := sgn_eq_one_iff.mp p1; have q2 := sgn_eq_one_iff.mp p2; have q3 := sgn_eq_one_iff.mp p3
      rcases hA with h | h | h | h | h <;> linarith
    have nn : ¬ (sgn (orient a p c d) = -1 ∧ sgn (orient a b p d) = -1 ∧ sgn (orient a b c p) = -1) := by
      rintro ⟨p1, p2, p3⟩
      have q1 := sgn_eq_neg_one_iff.mp p1; have q2 := sgn_eq_neg_one_iff.mp p2
      have q3 := sgn_eq_neg_one_iff.mp p3
      rcases hB with h | h | h | h | h <;> linarith
    rw [if_neg np, if_neg nn]; rfl
  · apply tet_winding
    intro x hx
    simp only [bary, List.mem_cons, List.not_mem_nil, or_false] at hx
    rcases hx with rfl | rfl | rfl | rfl
    exacts [hb0, h1, h2, h3]

end Inside3D
end
