import CoxeterVerif.Lemmas.Inside2DCert
/-!
  C06 — the rotation into the `xy` frame (`_align_points_by_normal`): for every matrix `R`
  satisfying the Kabsch contract for the stored normal `n` (`RᵀR = 1`, `det R = 1`, `R n = ẑ`)
  the 2-D predicates evaluated on the rotated-and-projected points are the INTRINSIC predicates of
  the polygon's plane in 3-space (`orient3 n`, `inTriangle3 n`, `onSegment3 n`) — independent of
  which admissible `R` Kabsch returned, and `inTriangle3` is independent of the sign of `n`.
-/
open Inside2D Inside2D.Polygon Spec.In2D Scalar
set_option maxRecDepth 4000
noncomputable section
namespace Inside2D

/-- `RᵀR = 1` -/
structure IsOrtho (R : M3 ℝ) : Prop where
  c11 : R.xx * R.xx + R.yx * R.yx + R.zx * R.zx = 1
  c22 : R.xy * R.xy + R.yy * R.yy + R.zy * R.zy = 1
  c33 : R.xz * R.xz + R.yz * R.yz + R.zz * R.zz = 1
  c12 : R.xx * R.xy + R.yx * R.yy + R.zx * R.zy = 0
  c13 : R.xx * R.xz + R.yx * R.yz + R.zx * R.zz = 0
  c23 : R.xy * R.xz + R.yy * R.yz + R.zy * R.zz = 0

def det3 (R : M3 ℝ) : ℝ :=
  R.xx * (R.yy * R.zz - R.yz * R.zy) - R.xy * (R.yx * R.zz - R.yz * R.zx) +
    R.xz * (R.yx * R.zy - R.yy * R.zx)

/-- the contract of `rowan.mapping.kabsch([n, −n], [ẑ, −ẑ])` -/
structure IsFrame (R : M3 ℝ) (n : V3 ℝ) : Prop where
  ortho : IsOrtho R
  det : det3 R = 1
  align : rotate R n = ⟨0, 0, 1⟩

theorem sq3_zero {a b c : ℝ} (h : a * a + b * b + c * c = 0) : a = 0 ∧ b = 0 ∧ c = 0 := by
  have ha := mul_self_nonneg a
  have hb := mul_self_nonneg b
  have hc := mul_self_nonneg c
  refine ⟨?_, ?_, ?_⟩
  · exact mul_self_eq_zero.mp (by linarith)
  · exact mul_self_eq_zero.mp (by linarith)
  · exact mul_self_eq_zero.mp (by linarith)

/-- the third row of a frame matrix is the normal -/
theorem frame_row3 {R : M3 ℝ} {n : V3 ℝ} (h : IsFrame R n) : n = ⟨R.zx, R.zy, R.zz⟩ := by
  obtain ⟨nx, ny, nz⟩ := n
  have hn := h.align
  have ho := h.ortho
  unfold rotate at hn
  simp only [V3.mk.injEq] at hn
  obtain ⟨e1, e2, e3⟩ := hn
  have hx : nx = R.zx := by
    linear_combination (-nx) * ho.c11 - ny * ho.c12 - nz * ho.c13 + R.xx * e1 + R.yx * e2 + R.zx * e3
  have hy : ny = R.zy := by
    linear_combination (-nx) * ho.c12 - ny * ho.c22 - nz * ho.c23 + R.xy * e1 + R.yy * e2 + R.zy * e3
  have hz : nz = R.zz := by
    linear_combination (-nx) * ho.c13 - ny * ho.c23 - nz * ho.c33 + R.xz * e1 + R.yz * e2 + R.zz * e3
  rw [hx, hy, hz]

/-- for a rotation matrix, the cross product of two columns is the third: `c₂ × c₃ = c₁`,
    `c₃ × c₁ = c₂`, `c₁ × c₂ = c₃` (only the `z` components are needed: they are the components
    of `row₁ × row₂`) -/
theorem frame_cofactor {R : M3 ℝ} (ho : IsOrtho R) (hd : det3 R = 1) :
    R.xy * R.yz - R.xz * R.yy = R.zx ∧ R.xz * R.yx - R.xx * R.yz = R.zy ∧
      R.xx * R.yy - R.xy * R.yx = R.zz := by
  unfold det3 at hd
  -- |c2 × c3 − c1|² = 0
  have s1 := sq3_zero (a := R.yy * R.zz - R.zy * R.yz - R.xx) (b := R.zy * R.xz - R.xy * R.zz - R.yx)
    (c := R.xy * R.yz - R.yy * R.xz - R.zx) (by
      linear_combination (R.xz * R.xz + R.yz * R.yz + R.zz * R.zz) * ho.c22 + ho.c33 -
        (R.xy * R.xz + R.yy * R.yz + R.zy * R.zz) * ho.c23 - 2 * hd + ho.c11)
  have s2 := sq3_zero (a := R.yz * R.zx - R.zz * R.yx - R.xy) (b := R.zz * R.xx - R.xz * R.zx - R.yy)
    (c := R.xz * R.yx - R.yz * R.xx - R.zy) (by
      linear_combination (R.xx * R.xx + R.yx * R.yx + R.zx * R.zx) * ho.c33 + ho.c11 -
        (R.xx * R.xz + R.yx * R.yz + R.zx * R.zz) * ho.c13 - 2 * hd + ho.c22)
  have s3 := sq3_zero (a := R.yx * R.zy - R.zx * R.yy - R.xz) (b := R.zx * R.xy - R.xx * R.zy - R.yz)
    (c := R.xx * R.yy - R.yx * R.xy - R.zz) (by
      linear_combination (R.xy * R.xy + R.yy * R.yy + R.zy * R.zy) * ho.c11 + ho.c22 -
        (R.xx * R.xy + R.yx * R.yy + R.zx * R.zy) * ho.c12 - 2 * hd + ho.c33)
  refine ⟨?_, ?_, ?_⟩
  · linarith [s1.2.2]
  · linarith [s2.2.2]
  · linarith [s3.2.2]

/-- **the orientation determinant in the rotated frame is the intrinsic one** -/
theorem orient_rotate {R : M3 ℝ} {n : V3 ℝ} (h : IsFrame R n) (a b p : V3 ℝ) :
    orient (proj (rotate R a)) (proj (rotate R b)) (proj (rotate R p)) = orient3 n a b p := by
  obtain ⟨k1, k2, k3⟩ := frame_cofactor h.ortho h.det
  rw [frame_row3 h]
  obtain ⟨ax, ay, az⟩ := a; obtain ⟨bx, «by», bz⟩ := b; obtain ⟨px, py, pz⟩ := p
  unfold orient orient3 proj rotate V3.dot V3.cross
  simp only [V3.sub_x, V3.sub_y, V3.sub_z]
  rw [← k1, ← k2, ← k3]
  ring

/-- the rotation is an isometry -/
theorem rotate_dot {R : M3 ℝ} (h : IsOrtho R) (u v : V3 ℝ) :
    V3.dot (rotate R u) (rotate R v) = V3.dot u v := by
  obtain ⟨ux, uy, uz⟩ := u; obtain ⟨vx, vy, vz⟩ := v
  unfold rotate V3.dot
  linear_combination (ux * vx) * h.c11 + (uy * vy) * h.c22 + (uz * vz) * h.c33 +
    (ux * vy + uy * vx) * h.c12 + (ux * vz + uz * vx) * h.c13 + (uy * vz + uz * vy) * h.c23

theorem rotate_sub (R : M3 ℝ) (u v : V3 ℝ) : rotate R (u - v) = rotate R u - rotate R v := by
  obtain ⟨ux, uy, uz⟩ := u; obtain ⟨vx, vy, vz⟩ := v
  ext <;> simp [rotate] <;> ring

theorem rotate_z_eq {R : M3 ℝ} {n : V3 ℝ} (h : IsFrame R n) (u : V3 ℝ) : (rotate R u).z = V3.dot n u := by
  rw [frame_row3 h]; rfl

/-- the in-plane dot product -/
theorem dot2_rotate {R : M3 ℝ} {n : V3 ℝ} (h : IsFrame R n) (a b p : V3 ℝ) :
    dot2 (proj (rotate R a)) (proj (rotate R b)) (proj (rotate R p)) = dot3 n a b p := by
  have h1 := rotate_dot h.ortho (a - p) (b - p)
  have h2 := rotate_z_eq h (a - p)
  have h3 := rotate_z_eq h (b - p)
  rw [rotate_sub, rotate_sub] at h1
  rw [rotate_sub] at h2 h3
  unfold dot3
  rw [← h1, ← h2, ← h3]
  unfold dot2 proj V3.dot
  simp only [V3.sub_x, V3.sub_y, V3.sub_z]
  ring

def projT (R : M3 ℝ) (t : Tri3 ℝ) : Tri2 ℝ :=
  ⟨proj (rotate R t.a), proj (rotate R t.b), proj (rotate R t.c)⟩

theorem inTriangle_rotate {R : M3 ℝ} {n : V3 ℝ} (h : IsFrame R n) (t : Tri3 ℝ) (p : V3 ℝ) :
    inTriangle (projT R t) (proj (rotate R p)) = inTriangle3 n t p := by
  unfold inTriangle inTriangle3 projT
  simp only [orient_rotate h]

theorem onSegment_rotate {R : M3 ℝ} {n : V3 ℝ} (h : IsFrame R n) (a b p : V3 ℝ) :
    onSegment (proj (rotate R a)) (proj (rotate R b)) (proj (rotate R p)) = onSegment3 n a b p := by
  unfold onSegment onSegment3
  rw [orient_rotate h, dot2_rotate h]

theorem onBoundary_rotate {R : M3 ℝ} {n : V3 ℝ} (h : IsFrame R n) (t : Tri3 ℝ) (p : V3 ℝ) :
    onBoundary (projT R t) (proj (rotate R p)) = onBoundary3 n t p := by
  unfold onBoundary onBoundary3 projT
  simp only [onSegment_rotate h]

theorem inRegion_rotate {R : M3 ℝ} {n : V3 ℝ} (h : IsFrame R n) (Ts : List (Tri3 ℝ)) (p : V3 ℝ) :
    inRegion (Ts.map (projT R)) (proj (rotate R p)) = inRegion3 n Ts p := by
  unfold inRegion inRegion3
  rw [List.any_map]
  congr 1
  funext t
  exact inTriangle_rotate h t p

/-- membership does not depend on the sign of the normal -/
theorem orient3_neg (n a b p : V3 ℝ) : orient3 (-n) a b p = -orient3 n a b p := by
  unfold orient3 V3.dot; simp only [V3.neg_x, V3.neg_y, V3.neg_z]; ring

theorem inTriangle3_neg (n : V3 ℝ) (t : Tri3 ℝ) (p : V3 ℝ) :
    inTriangle3 (-n) t p = inTriangle3 n t p := by
  unfold inTriangle3
  simp only [orient3_neg, Scalar.lit, Scalar.ofNat_real, Nat.cast_zero, Left.neg_pos_iff,
    Left.neg_neg_iff]
  rw [Bool.or_comm]

theorem inRegion3_neg (n : V3 ℝ) (Ts : List (Tri3 ℝ)) (p : V3 ℝ) :
    inRegion3 (-n) Ts p = inRegion3 n Ts p := by
  unfold inRegion3; simp only [inTriangle3_neg]

/-! ### chains of edges in 3-space and their projections -/

abbrev Edge3 := V3 ℝ × V3 ℝ

/-- equality of 1-chains of directed edges of 3-space -/
def EdgeChainEq3 (E F : List Edge3) : Prop :=
  ∀ (G : Type) [AddCommGroup G] (φ : Edge3 → G), OddEdge2 φ → esum φ E = esum φ F

def _root_.Spec.In2D.Tri3.bdry (t : Tri3 ℝ) : List Edge3 := [(t.a, t.b), (t.b, t.c), (t.c, t.a)]

/-- a chain identity in space projects to the chain identity in any frame -/
theorem EdgeChainEq3.project {E F : List Edge3} (h : EdgeChainEq3 E F) (g : V3 ℝ → P2 ℝ) :
    EdgeChainEq2 (E.map fun e => (g e.1, g e.2)) (F.map fun e => (g e.1, g e.2)) := by
  intro G _ φ hφ
  have := h G (fun e => φ (g e.1, g e.2)) (fun a b => hφ (g a) (g b))
  simpa [esum, List.map_map, Function.comp_def] using this

theorem flatMap_bdry_project (g : V3 ℝ → P2 ℝ) (Ts : List (Tri3 ℝ)) :
    (Ts.flatMap Tri3.bdry).map (fun e => (g e.1, g e.2)) =
      (Ts.map fun t => (⟨g t.a, g t.b, g t.c⟩ : Tri2 ℝ)).flatMap Tri2.bdry := by
  induction Ts with
  | nil => rfl
  | cons T Ts ih =>
    simp only [List.flatMap_cons, List.map_append, List.map_cons, ih]
    rfl

end Inside2D
