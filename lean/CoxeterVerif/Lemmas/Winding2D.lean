import CoxeterVerif.Lemmas.Basic
import CoxeterVerif.Model.Inside2D
import CoxeterVerif.Spec.Inside2D
/-!
  Helper lemmas for C06.

  1. Edge chains (2-D analogue of `Lemmas/Chain.lean`): `EdgeChainEq2 E F` — two lists of directed
     edges are equal as simplicial 1-chains, i.e. every odd functional on directed edges (with
     values in any commutative group) has the same sum over both.  Moves: permutation, cancelling
     `e, e.rev`, congruence under append, vertex maps.  Backbone `esum_bdry`.
  2. Cyclic sums over `edges vs = zip vs (roll vs)`: invariance under rotation of the start
     vertex, negation under reversal of the vertex list.
  3. The geometry of the half-plane classification used by `Polygon.is_inside`:
     the two classes `R = {x>0 ∨ x=0∧y>0}`, `L = {x<0 ∨ x=0∧y<0}` are convex cones, so three
     vectors of one class cannot wind positively round the origin (`no_wind_R`), and a vector of
     one class with two of the other winds iff both crossing edges turn the same way (`wind_RLL`).
-/
open Inside2D Inside2D.Polygon Spec.In2D

/-! ## 1. edge chains -/

/-- a directed edge of the plane -/
abbrev Edge2 := P2 ℝ × P2 ℝ

section chains
variable {β : Type} {G : Type} [AddCommGroup G]

/-- `Σ_{e ∈ E} φ e` -/
def esum (φ : β × β → G) (E : List (β × β)) : G := (E.map φ).sum

/-- odd functional on directed edges: reversing the edge negates the value -/
def OddEdge2 (φ : β × β → G) : Prop := ∀ a b, φ (b, a) = -φ (a, b)

@[simp] theorem esum_nil (φ : β × β → G) : esum φ [] = 0 := rfl
@[simp] theorem esum_cons (φ : β × β → G) (e) (E) : esum φ (e :: E) = φ e + esum φ E := by
  simp [esum]
@[simp] theorem esum_append (φ : β × β → G) (E F) : esum φ (E ++ F) = esum φ E + esum φ F := by
  simp [esum]

end chains

/-- equality of 1-chains: all odd functionals (into every commutative group) agree -/
def EdgeChainEq2 (E F : List Edge2) : Prop :=
  ∀ (G : Type) [AddCommGroup G] (φ : Edge2 → G), OddEdge2 φ → esum φ E = esum φ F

namespace EdgeChainEq2
theorem refl (E) : EdgeChainEq2 E E := fun _ _ _ _ => rfl
theorem symm {E F} (h : EdgeChainEq2 E F) : EdgeChainEq2 F E := fun G _ φ hφ => (h G φ hφ).symm
theorem trans {E F H} (h₁ : EdgeChainEq2 E F) (h₂ : EdgeChainEq2 F H) : EdgeChainEq2 E H :=
  fun G _ φ hφ => (h₁ G φ hφ).trans (h₂ G φ hφ)
theorem perm {E F : List Edge2} (h : E.Perm F) : EdgeChainEq2 E F :=
  fun _ _ φ _ => by unfold esum; exact (h.map φ).sum_eq
/-- an edge and its reverse cancel -/
theorem cancel (a b : P2 ℝ) (E) : EdgeChainEq2 ((a, b) :: (b, a) :: E) E :=
  fun _ _ φ hφ => by simp [hφ a b]
theorem append {E E' F F'} (h₁ : EdgeChainEq2 E E') (h₂ : EdgeChainEq2 F F') :
    EdgeChainEq2 (E ++ F) (E' ++ F') := fun G _ φ hφ => by
  simp only [esum_append, h₁ G φ hφ, h₂ G φ hφ]
/-- chains are preserved by moving the vertices with any map -/
theorem map (f : P2 ℝ → P2 ℝ) {E F} (h : EdgeChainEq2 E F) :
    EdgeChainEq2 (E.map fun e => (f e.1, f e.2)) (F.map fun e => (f e.1, f e.2)) :=
  fun G _ φ hφ => by
    have := h G (fun e => φ (f e.1, f e.2)) (fun a b => hφ (f a) (f b))
    simpa [esum, List.map_map, Function.comp_def] using this
end EdgeChainEq2

/-- boundary of a triangle as a chain of three directed edges -/
def Spec.In2D.Tri2.bdry (t : Tri2 ℝ) : List Edge2 := [(t.a, t.b), (t.b, t.c), (t.c, t.a)]

theorem esum_flatMap {G : Type} [AddCommGroup G] (φ : Edge2 → G) (Ts : List (Tri2 ℝ)) :
    esum φ (Ts.flatMap Tri2.bdry) = (Ts.map fun T => esum φ T.bdry).sum := by
  induction Ts with
  | nil => simp
  | cons T Ts ih => simp [List.flatMap_cons, ih]

/-- **Backbone.** If `φ` is odd and its sum round the boundary of any single triangle of `Ts` is
`Φ`, then round any polygon that is the boundary chain of the triangulation `Ts` it is `Σ Φ`. -/
theorem esum_bdry {G : Type} [AddCommGroup G] {φ : Edge2 → G} {Φ : Tri2 ℝ → G} (hφ : OddEdge2 φ)
    {E : List Edge2} {Ts : List (Tri2 ℝ)} (hT : ∀ T ∈ Ts, esum φ T.bdry = Φ T)
    (h : EdgeChainEq2 E (Ts.flatMap Tri2.bdry)) : esum φ E = (Ts.map Φ).sum := by
  rw [h G φ hφ, esum_flatMap]; congr 1; exact List.map_congr_left hT

/-! ## 2. cyclic sums over `edges vs` -/

section cyclic
variable {β : Type} {G : Type} [AddCommGroup G]

/-- sum of `φ` along the open path `l₀ → l₁ → … ` -/
def pathSum (φ : β × β → G) : List β → G
  | [] => 0
  | [_] => 0
  | a :: b :: l => φ (a, b) + pathSum φ (b :: l)

theorem esum_zip_path (φ : β × β → G) (l : List β) (a x : β) :
    esum φ ((a :: l).zip (l ++ [x])) = pathSum φ (a :: (l ++ [x])) := by
  induction l generalizing a with
  | nil => simp [pathSum]
  | cons b l ih =>
    have := ih b
    simp only [List.cons_append, List.zip_cons_cons, esum_cons, pathSum] at this ⊢
    rw [this]

/-- the cyclic sum is the path sum round the closed path `a → … → a` -/
theorem esum_edges_cons (φ : β × β → G) (a : β) (l : List β) :
    esum φ (edges (a :: l)) = pathSum φ (a :: (l ++ [a])) := by
  unfold edges roll; exact esum_zip_path φ l a a

theorem pathSum_append_two (φ : β × β → G) (l : List β) (x y : β) :
    pathSum φ (l ++ [x, y]) = pathSum φ (l ++ [x]) + φ (x, y) := by
  induction l with
  | nil => simp [pathSum]
  | cons a l ih =>
    cases l with
    | nil => simp [pathSum]
    | cons b l =>
      simp only [List.cons_append, pathSum] at ih ⊢
      rw [ih]; abel

theorem pathSum_reverse {φ : β × β → G} (hφ : OddEdge2 φ) (l : List β) :
    pathSum φ l.reverse = -pathSum φ l := by
  induction l with
  | nil => simp [pathSum]
  | cons a l ih =>
    cases l with
    | nil => simp [pathSum]
    | cons b l =>
      have h : (a :: b :: l).reverse = l.reverse ++ [b, a] := by simp
      rw [h, pathSum_append_two, hφ a b]
      have h2 : l.reverse ++ [b] = (b :: l).reverse := by simp
      rw [h2, ih]; simp only [pathSum]; abel

/-- the cyclic sum does not depend on the start vertex -/
theorem esum_edges_roll (φ : β × β → G) (vs : List β) :
    esum φ (edges (roll vs)) = esum φ (edges vs) := by
  cases vs with
  | nil => rfl
  | cons a l =>
    cases l with
    | nil => rfl
    | cons b l =>
      have h : roll (a :: b :: l) = b :: (l ++ [a]) := rfl
      rw [h, esum_edges_cons, esum_edges_cons]
      have h2 : b :: ((l ++ [a]) ++ [b]) = (b :: l) ++ [a, b] := by simp
      rw [h2, pathSum_append_two]
      simp only [List.cons_append, pathSum]; abel

/-- reversing the vertex list negates the cyclic sum of an odd functional -/
theorem esum_edges_reverse {φ : β × β → G} (hφ : OddEdge2 φ) (vs : List β) :
    esum φ (edges vs.reverse) = -esum φ (edges vs) := by
  cases vs with
  | nil => simp [edges, roll]
  | cons a l =>
    have h : (a :: l).reverse = roll (a :: l.reverse) := by simp [roll]
    rw [h, esum_edges_roll, esum_edges_cons, esum_edges_cons]
    have h2 : a :: (l.reverse ++ [a]) = (a :: (l ++ [a])).reverse := by simp
    rw [h2, pathSum_reverse hφ]

end cyclic

/-! ## 3. signs and the half-plane classes over ℝ -/

namespace Inside2D
noncomputable section

theorem sgn_cases (x : ℝ) : (x < 0 ∧ sgn x = -1) ∨ (x = 0 ∧ sgn x = 0) ∨ (0 < x ∧ sgn x = 1) := by
  unfold sgn
  simp only [Scalar.lit, Scalar.ofNat_real, Nat.cast_zero]
  rcases lt_trichotomy x 0 with h | h | h
  · left; exact ⟨h, if_pos h⟩
  · right; left; subst h; simp
  · right; right; exact ⟨h, by rw [if_neg (not_lt.mpr h.le), if_pos h]⟩

theorem sgn_of_neg {x : ℝ} (h : x < 0) : sgn x = -1 := by
  rcases sgn_cases x with ⟨_, e⟩ | ⟨h', _⟩ | ⟨h', _⟩
  · exact e
  · linarith
  · linarith
theorem sgn_of_pos {x : ℝ} (h : 0 < x) : sgn x = 1 := by
  rcases sgn_cases x with ⟨h', _⟩ | ⟨h', _⟩ | ⟨_, e⟩
  · linarith
  · linarith
  · exact e
@[simp] theorem sgn_zero : sgn (0 : ℝ) = 0 := by
  rcases sgn_cases (0 : ℝ) with ⟨h', _⟩ | ⟨_, e⟩ | ⟨h', _⟩
  · exact absurd h' (lt_irrefl _)
  · exact e
  · exact absurd h' (lt_irrefl _)

theorem sgn_neg (x : ℝ) : sgn (-x) = -sgn x := by
  rcases lt_trichotomy x 0 with h | h | h
  · rw [sgn_of_neg h, sgn_of_pos (by linarith)]; rfl
  · subst h; simp
  · rw [sgn_of_pos h, sgn_of_neg (by linarith)]

theorem sgn_pos_mul {k : ℝ} (hk : 0 < k) (x : ℝ) : sgn (k * x) = sgn x := by
  rcases lt_trichotomy x 0 with h | h | h
  · rw [sgn_of_neg h, sgn_of_neg (mul_neg_of_pos_of_neg hk h)]
  · subst h; simp
  · rw [sgn_of_pos h, sgn_of_pos (mul_pos hk h)]

/-- 2-D cross product -/
def crossR (u v : P2 ℝ) : ℝ := u.x * v.y - u.y * v.x
def dotR (u v : P2 ℝ) : ℝ := u.x * v.x + u.y * v.y
/-- `a − p` -/
def rel (a p : P2 ℝ) : P2 ℝ := ⟨a.x - p.x, a.y - p.y⟩

/-- the right class `R` of the classification (closed on the positive `y` half-axis) -/
def inR (u : P2 ℝ) : Prop := 0 < u.x ∨ (u.x = 0 ∧ 0 < u.y)
/-- the left class `L` -/
def inL (u : P2 ℝ) : Prop := u.x < 0 ∨ (u.x = 0 ∧ u.y < 0)

/-- class of a vector (as the implementation computes it) -/
def cls (u : P2 ℝ) : Int := vertexSign u.x u.y

theorem cls_cases (u : P2 ℝ) :
    (u.x = 0 ∧ u.y = 0 ∧ cls u = 0) ∨ (inR u ∧ cls u = 1) ∨ (inL u ∧ cls u = -1) := by
  unfold cls vertexSign inR inL
  rcases sgn_cases u.x with ⟨hx, ex⟩ | ⟨hx, ex⟩ | ⟨hx, ex⟩
  · right; right; exact ⟨Or.inl hx, by simp [ex]⟩
  · rcases sgn_cases u.y with ⟨hy, ey⟩ | ⟨hy, ey⟩ | ⟨hy, ey⟩
    · right; right; exact ⟨Or.inr ⟨hx, hy⟩, by simp [ex, ey]⟩
    · left; exact ⟨hx, hy, by simp [ex, ey]⟩
    · right; left; exact ⟨Or.inr ⟨hx, hy⟩, by simp [ex, ey]⟩
  · right; left; exact ⟨Or.inl hx, by simp [ex]⟩

/-- origin-centred half turn of the edge `u → v` -/
def ht (u v : P2 ℝ) : Int := sgn (crossR u v) * crossing (cls u) (cls v)

theorem halfTurn_eq_ht (p a b : P2 ℝ) : halfTurn p a b = ht (rel a p) (rel b p) := rfl

theorem crossR_swap (u v : P2 ℝ) : crossR v u = -crossR u v := by unfold crossR; ring

theorem crossing_symm (s t : Int) : crossing t s = crossing s t := by
  unfold crossing; by_cases h : s = t
  · subst h; simp
  · have h1 : t - s ≠ 0 := by omega
    have h2 : s - t ≠ 0 := by omega
    simp [h1, h2]

/-- the half-turn term is antisymmetric under reversing the edge -/
theorem ht_swap (u v : P2 ℝ) : ht v u = -ht u v := by
  unfold ht; rw [crossR_swap, sgn_neg, crossing_symm]; ring

theorem halfTurn_swap (p a b : P2 ℝ) : halfTurn p b a = -halfTurn p a b := by
  rw [halfTurn_eq_ht, halfTurn_eq_ht, ht_swap]

theorem orient_eq_crossR (a b p : P2 ℝ) : orient a b p = crossR (rel a p) (rel b p) := by
  unfold orient crossR rel; ring

theorem orient_tri_eq (a b c p : P2 ℝ) :
    orient a b c = crossR (rel a p) (rel b p) + crossR (rel b p) (rel c p) + crossR (rel c p) (rel a p) := by
  unfold orient crossR rel; ring

/-- Plücker identity `(u×v) w + (v×w) u + (w×u) v = 0`, first coordinate -/
theorem cross_cyclic_x (u v w : P2 ℝ) :
    crossR u v * w.x + crossR v w * u.x + crossR w u * v.x = 0 := by unfold crossR; ring
theorem cross_cyclic_y (u v w : P2 ℝ) :
    crossR u v * w.y + crossR v w * u.y + crossR w u * v.y = 0 := by unfold crossR; ring

theorem inR_x_nonneg {u : P2 ℝ} (h : inR u) : 0 ≤ u.x := by
  rcases h with h | ⟨h, _⟩ <;> linarith
theorem inL_x_nonpos {u : P2 ℝ} (h : inL u) : u.x ≤ 0 := by
  rcases h with h | ⟨h, _⟩ <;> linarith

/-- negation swaps the classes -/
def negP (u : P2 ℝ) : P2 ℝ := ⟨-u.x, -u.y⟩
theorem inL_iff_inR_neg (u : P2 ℝ) : inL u ↔ inR (negP u) := by
  unfold inL inR negP; constructor <;> rintro (h | ⟨h1, h2⟩)
  · left; simpa using h
  · right; exact ⟨by simpa using h1, by simpa using h2⟩
  · left; simpa using h
  · right; exact ⟨by simpa using h1, by simpa using h2⟩
theorem inR_iff_inL_neg (u : P2 ℝ) : inR u ↔ inL (negP u) := by
  rw [inL_iff_inR_neg]; cases u; simp [negP]
theorem crossR_neg (u v : P2 ℝ) : crossR (negP u) (negP v) = crossR u v := by
  unfold crossR negP; ring

/-- **Three vectors of the class `R` cannot wind positively round the origin.** -/
theorem no_wind_R {u v w : P2 ℝ} (hu : inR u) (hv : inR v) (hw : inR w)
    (h1 : 0 < crossR u v) (h2 : 0 < crossR v w) (h3 : 0 < crossR w u) : False := by
  have hx := cross_cyclic_x u v w
  have a1 := mul_nonneg h1.le (inR_x_nonneg hw)
  have a2 := mul_nonneg h2.le (inR_x_nonneg hu)
  have a3 := mul_nonneg h3.le (inR_x_nonneg hv)
  have e2 : crossR v w * u.x = 0 := by linarith
  have e3 : crossR w u * v.x = 0 := by linarith
  have ux : u.x = 0 := by
    rcases mul_eq_zero.mp e2 with h | h
    · linarith
    · exact h
  have vx : v.x = 0 := by
    rcases mul_eq_zero.mp e3 with h | h
    · linarith
    · exact h
  unfold crossR at h1; rw [ux, vx] at h1; simp at h1

theorem no_wind_L {u v w : P2 ℝ} (hu : inL u) (hv : inL v) (hw : inL w)
    (h1 : 0 < crossR u v) (h2 : 0 < crossR v w) (h3 : 0 < crossR w u) : False :=
  no_wind_R ((inL_iff_inR_neg u).mp hu) ((inL_iff_inR_neg v).mp hv) ((inL_iff_inR_neg w).mp hw)
    (by rwa [crossR_neg]) (by rwa [crossR_neg]) (by rwa [crossR_neg])

/-- one vector in `R`, two in `L`, both crossing edges turn left ⇒ the third edge turns left too
    (the origin is inside) -/
theorem wind_RLL {u v w : P2 ℝ} (hu : inR u) (hv : inL v) (hw : inL w)
    (h1 : 0 < crossR u v) (h3 : 0 < crossR w u) : 0 < crossR v w := by
  have hx := cross_cyclic_x u v w
  have hvx := inL_x_nonpos hv
  have hwx := inL_x_nonpos hw
  rcases hu with hux | ⟨hux, huy⟩
  · -- u.x > 0
    have a1 : crossR u v * w.x ≤ 0 := mul_nonpos_of_nonneg_of_nonpos h1.le hwx
    have a3 : crossR w u * v.x ≤ 0 := mul_nonpos_of_nonneg_of_nonpos h3.le hvx
    have hge : 0 ≤ crossR v w * u.x := by linarith
    by_contra hneg
    have hle : crossR v w ≤ 0 := not_lt.mp hneg
    have : crossR v w * u.x ≤ 0 := mul_nonpos_of_nonpos_of_nonneg hle hux.le
    have e0 : crossR v w * u.x = 0 := le_antisymm this hge
    have e1 : crossR u v * w.x = 0 := by linarith
    have e3 : crossR w u * v.x = 0 := by linarith
    have wx : w.x = 0 := by
      rcases mul_eq_zero.mp e1 with h | h
      · linarith
      · exact h
    have vx : v.x = 0 := by
      rcases mul_eq_zero.mp e3 with h | h
      · linarith
      · exact h
    -- v = (0, vy) with vy < 0 : u × v = u.x * vy < 0
    have vy : v.y < 0 := by
      rcases hv with h | ⟨_, h⟩
      · linarith
      · exact h
    unfold crossR at h1; rw [vx] at h1
    have : u.x * v.y < 0 := mul_neg_of_pos_of_neg hux vy
    linarith
  · -- u = (0, uy), uy > 0
    unfold crossR at h1 h3
    rw [hux] at h1 h3
    have : 0 < w.x * u.y := by linarith
    have hwpos : 0 < w.x := by
      by_contra h
      have : w.x * u.y ≤ 0 := mul_nonpos_of_nonpos_of_nonneg (not_lt.mp h) huy.le
      linarith
    linarith

theorem wind_LRR {u v w : P2 ℝ} (hu : inL u) (hv : inR v) (hw : inR w)
    (h1 : 0 < crossR u v) (h3 : 0 < crossR w u) : 0 < crossR v w := by
  have := wind_RLL ((inL_iff_inR_neg u).mp hu) ((inR_iff_inL_neg v).mp hv) ((inR_iff_inL_neg w).mp hw)
    (by rwa [crossR_neg]) (by rwa [crossR_neg])
  rwa [crossR_neg] at this


/-! ## 4. the half-turn sum round one triangle -/

theorem cls_pos_smul {k : ℝ} (hk : 0 < k) (u : P2 ℝ) : cls ⟨k * u.x, k * u.y⟩ = cls u := by
  unfold cls vertexSign; simp only [sgn_pos_mul hk]

/-- parallel vectors pointing the same way are in the same class -/
theorem cls_eq_of_parallel {u v : P2 ℝ} (hc : crossR u v = 0) (hd : 0 < dotR u v) :
    cls v = cls u := by
  unfold crossR at hc; unfold dotR at hd
  have huu : 0 < u.x * u.x + u.y * u.y := by
    by_contra h
    have h0 : u.x * u.x + u.y * u.y ≤ 0 := not_lt.mp h
    have hx : u.x = 0 := by nlinarith [mul_self_nonneg u.x, mul_self_nonneg u.y]
    have hy : u.y = 0 := by nlinarith [mul_self_nonneg u.x, mul_self_nonneg u.y]
    rw [hx, hy] at hd; simp at hd
  have hk : 0 < (u.x * v.x + u.y * v.y) / (u.x * u.x + u.y * u.y) := div_pos hd huu
  have ex : v.x = (u.x * v.x + u.y * v.y) / (u.x * u.x + u.y * u.y) * u.x := by
    rw [div_mul_eq_mul_div, eq_div_iff huu.ne']; linear_combination (-u.y) * hc
  have ey : v.y = (u.x * v.x + u.y * v.y) / (u.x * u.x + u.y * u.y) * u.y := by
    rw [div_mul_eq_mul_div, eq_div_iff huu.ne']; linear_combination (u.x) * hc
  have : v = ⟨(u.x * v.x + u.y * v.y) / (u.x * u.x + u.y * u.y) * u.x,
      (u.x * v.x + u.y * v.y) / (u.x * u.x + u.y * u.y) * u.y⟩ := by
    cases v; simp only [P2.mk.injEq]; exact ⟨ex, ey⟩
  rw [this, cls_pos_smul hk]

/-- the origin is not on the closed segment `[u, v]` -/
def OffSeg (u v : P2 ℝ) : Prop := crossR u v ≠ 0 ∨ 0 < dotR u v

theorem OffSeg.cross_ne {u v : P2 ℝ} (h : OffSeg u v) (hc : cls u ≠ cls v) : crossR u v ≠ 0 := by
  rcases h with h | h
  · exact h
  · intro h0; exact hc (cls_eq_of_parallel h0 h).symm

theorem OffSeg.cls_ne_zero {u v : P2 ℝ} (h : OffSeg u v) : cls u ≠ 0 := by
  intro h0
  rcases cls_cases u with ⟨hx, hy, _⟩ | ⟨_, e⟩ | ⟨_, e⟩
  · rcases h with h | h
    · apply h; unfold crossR; rw [hx, hy]; ring
    · unfold dotR at h; rw [hx, hy] at h; simp at h
  · rw [e] at h0; exact absurd h0 (by decide)
  · rw [e] at h0; exact absurd h0 (by decide)

theorem OffSeg.symm {u v : P2 ℝ} (h : OffSeg u v) : OffSeg v u := by
  rcases h with h | h
  · left; rw [crossR_swap]; exact neg_ne_zero.mpr h
  · right; unfold dotR at *; linarith

theorem inR_or_inL_of_cls_ne_zero {u : P2 ℝ} (h : cls u ≠ 0) :
    (inR u ∧ cls u = 1) ∨ (inL u ∧ cls u = -1) := by
  rcases cls_cases u with ⟨_, _, e⟩ | h1 | h1
  · exact absurd e h
  · exact Or.inl h1
  · exact Or.inr h1

/-- `u` is the odd one out (its class differs from that of `v` and `w`): the two crossing edges
    contribute `sgn(u×v) + sgn(w×u)`, which is `2` exactly when the origin is inside. -/
theorem ht_tri_odd {u v w : P2 ℝ}
    (hc : (inR u ∧ inL v ∧ inL w) ∨ (inL u ∧ inR v ∧ inR w))
    (h1 : crossR u v ≠ 0) (h3 : crossR w u ≠ 0)
    (hpos : 0 < crossR u v + crossR v w + crossR w u) :
    sgn (crossR u v) + sgn (crossR w u) =
      if 0 < crossR u v ∧ 0 < crossR v w ∧ 0 < crossR w u then 2 else 0 := by
  have key : ∀ {u v w : P2 ℝ}, 0 < crossR u v → 0 < crossR w u →
      ((inR u ∧ inL v ∧ inL w) ∨ (inL u ∧ inR v ∧ inR w)) → 0 < crossR v w := by
    intro u v w a b hc
    rcases hc with ⟨hu, hv, hw⟩ | ⟨hu, hv, hw⟩
    · exact wind_RLL hu hv hw a b
    · exact wind_LRR hu hv hw a b
  rcases lt_or_gt_of_ne h1 with n1 | p1 <;> rcases lt_or_gt_of_ne h3 with n3 | p3
  · -- both crossing edges turn right: then v×w < 0 too, contradicting the orientation
    exfalso
    have a : 0 < crossR u w := by rw [crossR_swap]; linarith
    have b : 0 < crossR v u := by rw [crossR_swap]; linarith
    have hc' : (inR u ∧ inL w ∧ inL v) ∨ (inL u ∧ inR w ∧ inR v) := by
      rcases hc with ⟨hu, hv, hw⟩ | ⟨hu, hv, hw⟩
      · exact Or.inl ⟨hu, hw, hv⟩
      · exact Or.inr ⟨hu, hw, hv⟩
    have := key a b hc'
    rw [crossR_swap] at this; linarith
  · rw [sgn_of_neg n1, sgn_of_pos p3, if_neg (fun h => by linarith [h.1])]; rfl
  · rw [sgn_of_pos p1, sgn_of_neg n3, if_neg (fun h => by linarith [h.2.2])]; rfl
  · rw [sgn_of_pos p1, sgn_of_pos p3, if_pos ⟨p1, key p1 p3 hc, p3⟩]; rfl

theorem crossing_self (s : Int) : crossing s s = 0 := by simp [crossing]
theorem crossing_pm : crossing 1 (-1) = 1 := by decide
theorem crossing_mp : crossing (-1) 1 = 1 := by decide

/-- **Half-turn sum round a positively oriented triangle, origin-centred form.**  If the origin is
    on none of the three closed edges, the sum is `2` when the origin is strictly inside and `0`
    otherwise. -/
theorem ht_triangle {u v w : P2 ℝ} (huv : OffSeg u v) (hvw : OffSeg v w) (hwu : OffSeg w u)
    (hpos : 0 < crossR u v + crossR v w + crossR w u) :
    ht u v + ht v w + ht w u =
      if 0 < crossR u v ∧ 0 < crossR v w ∧ 0 < crossR w u then 2 else 0 := by
  rcases inR_or_inL_of_cls_ne_zero huv.cls_ne_zero with ⟨ru, eu⟩ | ⟨ru, eu⟩ <;>
  rcases inR_or_inL_of_cls_ne_zero hvw.cls_ne_zero with ⟨rv, ev⟩ | ⟨rv, ev⟩ <;>
  rcases inR_or_inL_of_cls_ne_zero hwu.cls_ne_zero with ⟨rw', ew⟩ | ⟨rw', ew⟩
  · -- R R R
    unfold ht; rw [eu, ev, ew]; simp only [crossing_self, mul_zero, add_zero]
    rw [if_neg (fun h => no_wind_R ru rv rw' h.1 h.2.1 h.2.2)]
  · -- R R L : w is the odd one out
    have h := ht_tri_odd (u := w) (v := u) (w := v) (Or.inr ⟨rw', ru, rv⟩)
      (hwu.cross_ne (by rw [eu, ew]; decide)) (hvw.cross_ne (by rw [ev, ew]; decide)) (by linarith)
    unfold ht; rw [eu, ev, ew]; simp only [crossing_self, crossing_pm, crossing_mp, mul_zero, mul_one]
    rw [if_congr (show (0 < crossR u v ∧ 0 < crossR v w ∧ 0 < crossR w u) ↔
        (0 < crossR w u ∧ 0 < crossR u v ∧ 0 < crossR v w) by tauto) rfl rfl, ← h]; ring
  · -- R L R : v is the odd one out
    have h := ht_tri_odd (u := v) (v := w) (w := u) (Or.inr ⟨rv, rw', ru⟩)
      (hvw.cross_ne (by rw [ev, ew]; decide)) (huv.cross_ne (by rw [eu, ev]; decide)) (by linarith)
    unfold ht; rw [eu, ev, ew]; simp only [crossing_self, crossing_pm, crossing_mp, mul_zero, mul_one]
    rw [if_congr (show (0 < crossR u v ∧ 0 < crossR v w ∧ 0 < crossR w u) ↔
        (0 < crossR v w ∧ 0 < crossR w u ∧ 0 < crossR u v) by tauto) rfl rfl, ← h]; ring
  · -- R L L : u is the odd one out
    have h := ht_tri_odd (u := u) (v := v) (w := w) (Or.inl ⟨ru, rv, rw'⟩)
      (huv.cross_ne (by rw [eu, ev]; decide)) (hwu.cross_ne (by rw [eu, ew]; decide)) hpos
    unfold ht; rw [eu, ev, ew]; simp only [crossing_self, crossing_pm, crossing_mp, mul_zero, mul_one]
    rw [← h]; ring
  · -- L R R : u is the odd one out
    have h := ht_tri_odd (u := u) (v := v) (w := w) (Or.inr ⟨ru, rv, rw'⟩)
      (huv.cross_ne (by rw [eu, ev]; decide)) (hwu.cross_ne (by rw [eu, ew]; decide)) hpos
    unfold ht; rw [eu, ev, ew]; simp only [crossing_self, crossing_pm, crossing_mp, mul_zero, mul_one]
    rw [← h]; ring
  · -- L R L : v is the odd one out
    have h := ht_tri_odd (u := v) (v := w) (w := u) (Or.inl ⟨rv, rw', ru⟩)
      (hvw.cross_ne (by rw [ev, ew]; decide)) (huv.cross_ne (by rw [eu, ev]; decide)) (by linarith)
    unfold ht; rw [eu, ev, ew]; simp only [crossing_self, crossing_pm, crossing_mp, mul_zero, mul_one]
    rw [if_congr (show (0 < crossR u v ∧ 0 < crossR v w ∧ 0 < crossR w u) ↔
        (0 < crossR v w ∧ 0 < crossR w u ∧ 0 < crossR u v) by tauto) rfl rfl, ← h]; ring
  · -- L L R : w is the odd one out
    have h := ht_tri_odd (u := w) (v := u) (w := v) (Or.inl ⟨rw', ru, rv⟩)
      (hwu.cross_ne (by rw [eu, ew]; decide)) (hvw.cross_ne (by rw [ev, ew]; decide)) (by linarith)
    unfold ht; rw [eu, ev, ew]; simp only [crossing_self, crossing_pm, crossing_mp, mul_zero, mul_one]
    rw [if_congr (show (0 < crossR u v ∧ 0 < crossR v w ∧ 0 < crossR w u) ↔
        (0 < crossR w u ∧ 0 < crossR u v ∧ 0 < crossR v w) by tauto) rfl rfl, ← h]; ring
  · -- L L L
    unfold ht; rw [eu, ev, ew]; simp only [crossing_self, mul_zero, add_zero]
    rw [if_neg (fun h => no_wind_L ru rv rw' h.1 h.2.1 h.2.2)]


/-! ## 5. parity of the half-turn sum; links to the spec predicates -/

section parity
variable {β : Type} {G : Type} [AddCommGroup G]

/-- the path sum of an exact functional telescopes -/
theorem pathSum_exact (g : β → G) (a x : β) (l : List β) :
    pathSum (fun e : β × β => g e.2 - g e.1) (a :: (l ++ [x])) = g x - g a := by
  induction l generalizing a with
  | nil => simp [pathSum]
  | cons b l ih =>
    have := ih b
    simp only [List.cons_append, pathSum] at this ⊢
    rw [this]; abel

/-- the cyclic sum of an exact functional vanishes -/
theorem esum_edges_exact (g : β → G) (vs : List β) :
    esum (fun e : β × β => g e.2 - g e.1) (edges vs) = 0 := by
  cases vs with
  | nil => rfl
  | cons a l => rw [esum_edges_cons, pathSum_exact]; abel

end parity

/-- on an edge that does not pass through the origin, twice the half turn is the class
    difference modulo 4 -/
theorem two_ht_mod4 {u v : P2 ℝ} (h : OffSeg u v) : ∃ k : Int, 2 * ht u v = (cls v - cls u) + 4 * k := by
  rcases inR_or_inL_of_cls_ne_zero h.cls_ne_zero with ⟨_, eu⟩ | ⟨_, eu⟩ <;>
  rcases inR_or_inL_of_cls_ne_zero h.symm.cls_ne_zero with ⟨_, ev⟩ | ⟨_, ev⟩
  · exact ⟨0, by unfold ht; rw [eu, ev, crossing_self]; ring⟩
  · have hc := h.cross_ne (by rw [eu, ev]; decide)
    unfold ht; rw [eu, ev, crossing_pm]
    rcases lt_or_gt_of_ne hc with n | p
    · exact ⟨0, by rw [sgn_of_neg n]; ring⟩
    · exact ⟨1, by rw [sgn_of_pos p]; ring⟩
  · have hc := h.cross_ne (by rw [eu, ev]; decide)
    unfold ht; rw [eu, ev, crossing_mp]
    rcases lt_or_gt_of_ne hc with n | p
    · exact ⟨-1, by rw [sgn_of_neg n]; ring⟩
    · exact ⟨0, by rw [sgn_of_pos p]; ring⟩
  · exact ⟨0, by unfold ht; rw [eu, ev, crossing_self]; ring⟩

theorem esum_mod4 {φ ψ : Edge2 → Int} (E : List Edge2)
    (h : ∀ e ∈ E, ∃ k : Int, 2 * φ e = ψ e + 4 * k) : ∃ k : Int, 2 * esum φ E = esum ψ E + 4 * k := by
  induction E with
  | nil => exact ⟨0, by simp⟩
  | cons e E ih =>
    obtain ⟨k1, h1⟩ := h e (List.mem_cons_self)
    obtain ⟨k2, h2⟩ := ih (fun e' he' => h e' (List.mem_cons_of_mem _ he'))
    exact ⟨k1 + k2, by simp only [esum_cons]; linarith⟩

theorem eqb_real (a b : ℝ) : Scalar.eqb a b = decide (a = b) := rfl

theorem onSegment_false_iff (a b p : P2 ℝ) :
    onSegment a b p = false ↔ OffSeg (rel a p) (rel b p) := by
  unfold onSegment OffSeg
  rw [eqb_real, orient_eq_crossR]
  have hd : dot2 a b p = dotR (rel a p) (rel b p) := rfl
  rw [hd]
  simp only [Scalar.lit, Scalar.ofNat_real, Nat.cast_zero, Bool.and_eq_false_iff,
    decide_eq_false_iff_not, not_le]

theorem onBoundary_false_iff (t : Tri2 ℝ) (p : P2 ℝ) :
    onBoundary t p = false ↔
      OffSeg (rel t.a p) (rel t.b p) ∧ OffSeg (rel t.b p) (rel t.c p) ∧ OffSeg (rel t.c p) (rel t.a p) := by
  unfold onBoundary
  simp only [Bool.or_eq_false_iff, onSegment_false_iff, and_assoc]

/-- for a positively oriented triangle, `inTriangle` is "left of all three directed edges" -/
theorem inTriangle_pos_iff (t : Tri2 ℝ) (p : P2 ℝ) (hpos : 0 < orient t.a t.b t.c) :
    inTriangle t p = true ↔
      (0 < crossR (rel t.a p) (rel t.b p) ∧ 0 < crossR (rel t.b p) (rel t.c p) ∧
        0 < crossR (rel t.c p) (rel t.a p)) := by
  rw [orient_tri_eq t.a t.b t.c p] at hpos
  unfold inTriangle
  simp only [orient_eq_crossR, Scalar.lit, Scalar.ofNat_real, Nat.cast_zero, Bool.or_eq_true,
    Bool.and_eq_true, decide_eq_true_eq]
  constructor
  · rintro (⟨⟨h1, h2⟩, h3⟩ | ⟨⟨h1, h2⟩, h3⟩)
    · exact ⟨h1, h2, h3⟩
    · exfalso; linarith
  · rintro ⟨h1, h2, h3⟩; exact Or.inl ⟨⟨h1, h2⟩, h3⟩

end
end Inside2D
