import CoxeterVerif.Lemmas.MeshIOXml
/-!
  C20 — the text layer of the XML formats: a reader `parseXml : Str → Option Xml` written from the XML 1.0 grammar
  (restricted to what a non-validating reader needs for element-only documents) and the proof that it inverts the
  model's serialiser: `parseXml t.render = some t` for every tree `t` whose tags and attribute names are Names
  (`Xml.WFX`; attribute values and texts are ARBITRARY strings).  Consequences: `parseXml (toX3d cls m)` is
  `x3dTree false cls m` and `parseHtmlDoc (toHtml cls m)` is `htmlTree cls m`, for every class name and mesh.

  Grammar read (S = space, tab, CR, LF):

      document  := S* element S*
      element   := '<' Name (S+ Name S* '=' S* AttValue)* S* ( "/>" | '>' content "</" Name S* '>' )
      AttValue  := '"' ([^<&"] | Reference)* '"'  |  "'" ([^<&'] | Reference)* "'"
      content   := ([^<&] | Reference)* element*          -- character data only BEFORE the first child
      Reference := "&amp;" | "&lt;" | "&gt;" | "&quot;" | "&apos;" | "&#" [0-9]+ ';' | "&#x" [0-9a-fA-F]+ ';'
      Name      := a non-empty run of characters other than S  <  >  /  =  "  '  &

  * the end-tag Name must equal the start-tag Name; a character reference must denote an XML `Char`
    (#x9 | #xA | #xD | #x20–#xD7FF | #xE000–#xFFFD | #x10000–#x10FFFF);
  * a `&` that starts no such reference, a `<` in an attribute value, a missing quote, anything but white space after
    the root element: `none`;
  * `Xml` has a text only before the first child, so ANY character (white space included) between or after child
    elements is rejected; the text is preserved exactly (a text of one space stays one space);
  * not recognised (documents using them are rejected): comments, processing instructions / XML declaration, CDATA
    sections, DOCTYPE (except the exact prefix `<!DOCTYPE html>` stripped by `parseHtmlDoc`), user-defined entities.
    Name is the coarse class above, not the `NameStartChar NameChar*` of the standard; uniqueness of attribute names
    is not checked.
  * termination: the reference decoder `unesc` is a state machine, structurally recursive on the input; elements use
    fuel, `parseXml` supplies `s.length + 1` (`parseElem_render`: the length of the rendering suffices).
-/
set_option linter.unusedSimpArgs false
namespace MeshIO

/-! ## the parser -/

/-- XML white space `S` -/
def isS (c : Char) : Bool := c == ' ' || c == '\t' || c == '\r' || c == '\n'

/-- a character that can occur in a Name -/
def isNameChar (c : Char) : Bool :=
  !(isS c || c == '<' || c == '>' || c == '/' || c == '=' || c == '"' || c == '\'' || c == '&')

/-- a Name: a non-empty run of name characters -/
def isName (n : Str) : Bool := !n.isEmpty && n.all isNameChar

/-- the longest run of name characters at the front, and what follows -/
def takeName : Str → Str × Str
  | [] => ([], [])
  | c :: s => if isNameChar c then ((takeName s).1.cons c, (takeName s).2) else ([], c :: s)

/-- `S*` -/
def skipWs : Str → Str
  | [] => []
  | c :: s => if isS c then skipWs s else c :: s

/-- the next character must be `c` -/
def expect (c : Char) : Str → Option Str
  | [] => none
  | d :: r => if d = c then some r else none

/-- the input must start with the literal `p`; what follows it -/
def stripPre : Str → Str → Option Str
  | [], s => some s
  | _ :: _, [] => none
  | p :: ps, c :: cs => if p = c then stripPre ps cs else none

/-- the production `Char` of XML 1.0 -/
def isXmlChar (n : Nat) : Bool :=
  n == 9 || n == 10 || n == 13 || (decide (32 ≤ n) && decide (n ≤ 0xD7FF)) ||
  (decide (0xE000 ≤ n) && decide (n ≤ 0xFFFD)) || (decide (0x10000 ≤ n) && decide (n ≤ 0x10FFFF))

def xmlHexDigit (c : Char) : Option Nat :=
  if c.isDigit then some (c.toNat - 48)
  else if 'a'.toNat ≤ c.toNat ∧ c.toNat ≤ 'f'.toNat then some (c.toNat - 87)
  else if 'A'.toNat ≤ c.toNat ∧ c.toNat ≤ 'F'.toNat then some (c.toNat - 55)
  else none

/-- one or more hexadecimal digits -/
def xmlParseHex (t : Str) : Option Nat :=
  if t.isEmpty then none else t.foldl (fun acc c => acc.bind fun n => (xmlHexDigit c).map fun d => 16 * n + d) (some 0)

/-- the character denoted by the reference `&name;` -/
def decodeRef (name : Str) : Option Char :=
  if name = cs!"amp" then some '&'
  else if name = cs!"lt" then some '<'
  else if name = cs!"gt" then some '>'
  else if name = cs!"quot" then some '"'
  else if name = cs!"apos" then some '\''
  else match name with
    | [] => none
    | c :: ds =>
      if c = '#' then
        (match ds with
          | [] => none
          | x :: hs => if x = 'x' then xmlParseHex hs else parseNat ds).bind fun n =>
            if isXmlChar n then some (Char.ofNat n) else none
      else none

/-- character data up to (not including) the first character satisfying `isEnd`, or to the end of the input,
    with references replaced; state `some acc`: inside a reference, `acc` = its name so far, reversed.
    Returns the decoded data and the rest. -/
def unesc (isEnd : Char → Bool) : Option Str → Str → Option (Str × Str)
  | none, [] => some ([], [])
  | none, c :: s =>
    if c = '&' then unesc isEnd (some []) s
    else if isEnd c then some ([], c :: s)
    else (unesc isEnd none s).map fun r => (c :: r.1, r.2)
  | some _, [] => none
  | some acc, c :: s =>
    if c = ';' then
      (decodeRef acc.reverse).bind fun ch => (unesc isEnd none s).map fun r => (ch :: r.1, r.2)
    else if c = '&' || isEnd c then none
    else unesc isEnd (some (c :: acc)) s

/-- an attribute value ends at its quote; `<` is not allowed in it (`unesc` stops, the quote check then fails) -/
def isAttEnd (q c : Char) : Bool := c == q || c == '<'
/-- character data ends at the next markup -/
def isLt (c : Char) : Bool := c == '<'

/-- `(S+ Name S* '=' S* AttValue)* S*` → the attributes and the rest -/
def parseAttrsF : Nat → Str → Option (List (Str × Str) × Str)
  | 0, _ => none
  | fuel + 1, s =>
    match s with
    | [] => some ([], [])
    | c :: r =>
      if isS c then
        match skipWs r with
        | [] => some ([], [])
        | d :: r' =>
          if isNameChar d then
            (expect '=' (skipWs (takeName (d :: r')).2)).bind fun s1 =>
              match skipWs s1 with
              | [] => none
              | q :: s2 =>
                if q = '"' ∨ q = '\'' then
                  (unesc (isAttEnd q) none s2).bind fun v =>
                    (expect q v.2).bind fun s3 =>
                      (parseAttrsF fuel s3).map fun rs => (((takeName (d :: r')).1, v.1) :: rs.1, rs.2)
                else none
          else some ([], d :: r')
      else some ([], c :: r)

def parseAttrs (s : Str) : Option (List (Str × Str) × Str) := parseAttrsF s.length s

mutual
/-- one element at the front of the input → the element and the rest -/
def parseElem : Nat → Str → Option (Xml × Str)
  | 0, _ => none
  | fuel + 1, s =>
    (expect '<' s).bind fun s1 =>
      if (takeName s1).1.isEmpty then none
      else (parseAttrs (takeName s1).2).bind fun a =>
        match stripPre cs!"/>" a.2 with
        | some r => some (.node (takeName s1).1 a.1 [] [], r)
        | none =>
          (expect '>' a.2).bind fun s2 =>
            (unesc isLt none s2).bind fun tx =>
              (parseChildren fuel tx.2).bind fun ch =>
                if (takeName ch.2).1 = (takeName s1).1 then
                  (expect '>' (skipWs (takeName ch.2).2)).map fun r =>
                    (.node (takeName s1).1 a.1 tx.1 ch.1, r)
                else none
/-- `element* "</"` → the elements and what follows the `</` -/
def parseChildren : Nat → Str → Option (List Xml × Str)
  | 0, _ => none
  | fuel + 1, s =>
    match stripPre cs!"</" s with
    | some r => some ([], r)
    | none =>
      (parseElem fuel s).bind fun x =>
        (parseChildren fuel x.2).map fun xs => (x.1 :: xs.1, xs.2)
end

/-- a document: one element, optionally surrounded by white space -/
def parseXml (s : Str) : Option Xml :=
  (parseElem (s.length + 1) (skipWs s)).bind fun r => if (skipWs r.2).isEmpty then some r.1 else none

/-- an XHTML page as `to_html` writes it: `<!DOCTYPE html>` and one element -/
def parseHtmlDoc (s : Str) : Option Xml := (stripPre cs!"<!DOCTYPE html>" s).bind parseXml

/-! ## prefix lemmas -/

theorem isS_of_nameChar {c : Char} (h : isNameChar c = true) : isS c = false := by
  simp only [isNameChar, Bool.not_eq_true', Bool.or_eq_false_iff] at h
  exact h.1.1.1.1.1.1.1

theorem takeName_append {n : Str} (hn : n.all isNameChar = true) {d : Char} (hd : isNameChar d = false)
    (r : Str) : takeName (n ++ d :: r) = (n, d :: r) := by
  induction n with
  | nil => simp [takeName, hd]
  | cons c n ih =>
    simp only [List.all_cons, Bool.and_eq_true] at hn
    simp [takeName, hn.1, ih hn.2]

theorem skipWs_cons {d : Char} (hd : isS d = false) (r : Str) : skipWs (d :: r) = d :: r := by
  simp [skipWs, hd]

theorem decodeRef_13 : decodeRef cs!"#13" = some '\r' := by rfl
theorem decodeRef_10 : decodeRef cs!"#10" = some '\n' := by rfl
theorem decodeRef_09 : decodeRef cs!"#09" = some '\t' := by rfl
theorem decodeRef_amp : decodeRef cs!"amp" = some '&' := by rfl
theorem decodeRef_lt : decodeRef cs!"lt" = some '<' := by rfl
theorem decodeRef_gt : decodeRef cs!"gt" = some '>' := by rfl
theorem decodeRef_quot : decodeRef cs!"quot" = some '"' := by rfl

theorem unesc_attr (v r : Str) :
    unesc (isAttEnd '"') none (escapeAttrib v ++ '"' :: r) = some (v, '"' :: r) := by
  induction v with
  | nil => simp [escapeAttrib, unesc, isAttEnd]
  | cons c v ih =>
    have hc : escapeAttrib (c :: v) = escapeAttrib [c] ++ escapeAttrib v := by simp [escapeAttrib]
    rw [hc, List.append_assoc]
    by_cases h1 : c = '&'
    · subst h1; rw [show escapeAttrib ['&'] = cs!"&amp;" from rfl]; simp [unesc, isAttEnd, decodeRef_amp, ih]
    by_cases h2 : c = '<'
    · subst h2; rw [show escapeAttrib ['<'] = cs!"&lt;" from rfl]; simp [unesc, isAttEnd, decodeRef_lt, ih]
    by_cases h3 : c = '>'
    · subst h3; rw [show escapeAttrib ['>'] = cs!"&gt;" from rfl]; simp [unesc, isAttEnd, decodeRef_gt, ih]
    by_cases h4 : c = '"'
    · subst h4; rw [show escapeAttrib ['"'] = cs!"&quot;" from rfl]; simp [unesc, isAttEnd, decodeRef_quot, ih]
    by_cases h5 : c = '\r'
    · subst h5; rw [show escapeAttrib ['\r'] = cs!"&#13;" from rfl]; simp [unesc, isAttEnd, decodeRef_13, ih]
    by_cases h6 : c = '\n'
    · subst h6; rw [show escapeAttrib ['\n'] = cs!"&#10;" from rfl]; simp [unesc, isAttEnd, decodeRef_10, ih]
    by_cases h7 : c = '\t'
    · subst h7; rw [show escapeAttrib ['\t'] = cs!"&#09;" from rfl]; simp [unesc, isAttEnd, decodeRef_09, ih]
    rw [show escapeAttrib [c] = [c] by simp [escapeAttrib, h1, h2, h3, h4, h5, h6, h7]]
    simp [unesc, isAttEnd, h1, h2, h4, ih]

theorem unesc_text (t r : Str) :
    unesc isLt none (escapeCdata t ++ '<' :: r) = some (t, '<' :: r) := by
  induction t with
  | nil => simp [escapeCdata, unesc, isLt]
  | cons c t ih =>
    have hc : escapeCdata (c :: t) = escapeCdata [c] ++ escapeCdata t := by simp [escapeCdata]
    rw [hc, List.append_assoc]
    by_cases h1 : c = '&'
    · subst h1; rw [show escapeCdata ['&'] = cs!"&amp;" from rfl]; simp [unesc, isLt, decodeRef_amp, ih]
    by_cases h2 : c = '<'
    · subst h2; rw [show escapeCdata ['<'] = cs!"&lt;" from rfl]; simp [unesc, isLt, decodeRef_lt, ih]
    by_cases h3 : c = '>'
    · subst h3; rw [show escapeCdata ['>'] = cs!"&gt;" from rfl]; simp [unesc, isLt, decodeRef_gt, ih]
    rw [show escapeCdata [c] = [c] by simp [escapeCdata, h1, h2, h3]]
    simp [unesc, isLt, h1, h2, ih]

/-! ## attributes -/

/-- the attribute part of a start tag as `Xml.render` writes it -/
def renderAttrs (attrs : List (Str × Str)) : Str :=
  attrs.flatMap fun kv => ' ' :: kv.1 ++ cs!"=\"" ++ escapeAttrib kv.2 ++ cs!"\""

theorem length_renderAttrs (attrs : List (Str × Str)) : attrs.length ≤ (renderAttrs attrs).length := by
  induction attrs with
  | nil => simp
  | cons kv as ih =>
    simp only [renderAttrs, List.flatMap_cons, List.length_append, List.length_cons] at ih ⊢
    omega

theorem isName_cons {n : Str} (h : isName n = true) :
    ∃ d k, n = d :: k ∧ isNameChar d = true ∧ k.all isNameChar = true := by
  cases n with
  | nil => simp [isName] at h
  | cons d k =>
    simp only [isName, List.isEmpty_cons, Bool.not_false, Bool.true_and, List.all_cons, Bool.and_eq_true] at h
    exact ⟨d, k, rfl, h.1, h.2⟩

theorem parseAttrsF_render (tail tail' : Str) (ht : ∀ f, parseAttrsF (f + 1) tail = some ([], tail')) :
    ∀ (attrs : List (Str × Str)), attrs.all (fun kv => isName kv.1) = true → ∀ fuel, attrs.length < fuel →
      parseAttrsF fuel (renderAttrs attrs ++ tail) = some (attrs, tail') := by
  intro attrs
  induction attrs with
  | nil =>
    intro _ fuel hf
    cases fuel with
    | zero => omega
    | succ f => simpa [renderAttrs] using ht f
  | cons kv as ih =>
    intro hn fuel hf
    obtain ⟨k, v⟩ := kv
    simp only [List.all_cons, Bool.and_eq_true] at hn
    obtain ⟨d, k', rfl, hd, hk'⟩ := isName_cons hn.1
    cases fuel with
    | zero => omega
    | succ f =>
      have hf' : as.length < f := by simp only [List.length_cons] at hf; omega
      have e : renderAttrs ((d :: k', v) :: as) ++ tail
          = ' ' :: d :: (k' ++ '=' :: ('"' :: (escapeAttrib v ++ '"' :: (renderAttrs as ++ tail)))) := by
        simp [renderAttrs]
      have htn : ∀ R, takeName (d :: (k' ++ '=' :: R)) = (d :: k', '=' :: R) := fun R =>
        takeName_append (n := d :: k') (by simp [hd, hk']) (by rfl) R
      rw [e]
      simp [parseAttrsF, show isS ' ' = true from rfl, skipWs_cons (isS_of_nameChar hd), hd, htn, expect,
        show skipWs ('=' :: _) = _ from skipWs_cons (by rfl) _, unesc_attr, ih hn.2 f hf',
        show ∀ R, skipWs ('"' :: R) = '"' :: R from fun R => skipWs_cons (by rfl) R]

theorem parseAttrs_render {attrs : List (Str × Str)} (hn : attrs.all (fun kv => isName kv.1) = true)
    (tail tail' : Str) (hne : tail ≠ []) (ht : ∀ f, parseAttrsF (f + 1) tail = some ([], tail')) :
    parseAttrs (renderAttrs attrs ++ tail) = some (attrs, tail') := by
  apply parseAttrsF_render tail tail' ht attrs hn
  have := length_renderAttrs attrs
  have : 0 < tail.length := List.length_pos_iff.mpr hne
  simp only [List.length_append]; omega

/-! ## elements -/

mutual
/-- every tag and attribute name is a Name; attribute values and texts are arbitrary -/
def Xml.wfxB : Xml → Bool
  | .node tag attrs _ ch => isName tag && attrs.all (fun kv => isName kv.1) && Xml.wfxListB ch
def Xml.wfxListB : List Xml → Bool
  | [] => true
  | x :: xs => x.wfxB && Xml.wfxListB xs
end

/-- well-formed tree: what `Xml.render` serialises to well-formed XML that reads back as the same tree -/
def Xml.WFX (t : Xml) : Prop := t.wfxB = true
instance (t : Xml) : Decidable t.WFX := inferInstanceAs (Decidable (t.wfxB = true))

theorem wfxListB_iff (l : List Xml) : Xml.wfxListB l = true ↔ ∀ c ∈ l, c.WFX := by
  induction l with
  | nil => simp [Xml.wfxListB]
  | cons x xs ih => simp [Xml.wfxListB, ih, Xml.WFX]

theorem wfx_node (tag : Str) (attrs : List (Str × Str)) (text : Str) (ch : List Xml) :
    (Xml.node tag attrs text ch).WFX ↔
      isName tag = true ∧ (∀ kv ∈ attrs, isName kv.1 = true) ∧ ∀ c ∈ ch, c.WFX := by
  simp [Xml.WFX, Xml.wfxB, wfxListB_iff, and_assoc]

theorem render_node (tag : Str) (attrs : List (Str × Str)) (text : Str) (ch : List Xml) :
    (Xml.node tag attrs text ch).render =
      if text.isEmpty && ch.isEmpty then '<' :: (tag ++ (renderAttrs attrs ++ cs!" />"))
      else '<' :: (tag ++ (renderAttrs attrs ++ '>' :: (escapeCdata text ++ (Xml.renderList ch ++
        '<' :: '/' :: (tag ++ cs!">"))))) := by
  simp [Xml.render, renderAttrs]

theorem renderAttrs_head (attrs : List (Str × Str)) {d : Char} (hd : isNameChar d = false) (r : Str) :
    ∃ d' r', renderAttrs attrs ++ d :: r = d' :: r' ∧ isNameChar d' = false := by
  cases attrs with
  | nil => exact ⟨d, r, by simp [renderAttrs], hd⟩
  | cons kv as => exact ⟨' ', _, by simp [renderAttrs]; rfl, by rfl⟩

theorem render_head {t : Xml} (h : t.wfxB = true) :
    ∃ d r, t.render = '<' :: d :: r ∧ isNameChar d = true := by
  obtain ⟨tag, attrs, text, ch⟩ := t
  simp only [Xml.wfxB, Bool.and_eq_true] at h
  obtain ⟨d, k, rfl, hd, _⟩ := isName_cons h.1.1
  rw [render_node]
  split
  · exact ⟨d, _, rfl, hd⟩
  · exact ⟨d, _, rfl, hd⟩

theorem renderList_head (l : List Xml) (hl : Xml.wfxListB l = true) (r : Str) :
    ∃ y, Xml.renderList l ++ '<' :: r = '<' :: y := by
  cases l with
  | nil => exact ⟨r, by simp [Xml.renderList]⟩
  | cons x xs =>
    simp only [Xml.wfxListB, Bool.and_eq_true] at hl
    obtain ⟨d, r', e, _⟩ := render_head hl.1
    exact ⟨_, by simp [Xml.renderList, e]; rfl⟩

theorem parseAttrsF_tailA (rest : Str) (f : Nat) :
    parseAttrsF (f + 1) (' ' :: '/' :: '>' :: rest) = some ([], '/' :: '>' :: rest) := by
  simp [parseAttrsF, show isS ' ' = true from rfl, skipWs_cons (show isS '/' = false from rfl),
    show isNameChar '/' = false from rfl]

theorem parseAttrsF_tailB (rest : Str) (f : Nat) :
    parseAttrsF (f + 1) ('>' :: rest) = some ([], '>' :: rest) := by
  simp [parseAttrsF, show isS '>' = false from rfl]

mutual
theorem parseElem_render : ∀ (t : Xml), t.wfxB = true → ∀ (fuel : Nat), t.render.length ≤ fuel → ∀ rest : Str,
    parseElem fuel (t.render ++ rest) = some (t, rest)
  | .node tag attrs text ch, h, fuel, hf, rest => by
    simp only [Xml.wfxB, Bool.and_eq_true] at h
    obtain ⟨⟨htag, hattrs⟩, hch⟩ := h
    obtain ⟨d, k, rfl, hd, hk⟩ := isName_cons htag
    have hall : (d :: k).all isNameChar = true := by simp [hd, hk]
    rw [render_node] at hf ⊢
    cases fuel with
    | zero => split at hf <;> simp at hf
    | succ f =>
      by_cases he : (text.isEmpty && ch.isEmpty) = true
      · rw [if_pos he]
        simp only [Bool.and_eq_true, List.isEmpty_iff] at he
        obtain ⟨rfl, rfl⟩ := he
        obtain ⟨d', r', e1, hd'⟩ := renderAttrs_head attrs (show isNameChar ' ' = false from rfl) ('/' :: '>' :: rest)
        have hT : takeName ((d :: k) ++ (renderAttrs attrs ++ ' ' :: '/' :: '>' :: rest))
            = (d :: k, renderAttrs attrs ++ ' ' :: '/' :: '>' :: rest) := by
          rw [e1]; exact takeName_append hall hd' r'
        have hA := parseAttrs_render hattrs (' ' :: '/' :: '>' :: rest) ('/' :: '>' :: rest) (by simp)
          (parseAttrsF_tailA rest)
        simp only [List.cons_append, List.append_assoc, List.nil_append] at hT ⊢
        simp [parseElem, expect, hT, hA, stripPre]
      · rw [if_neg he] at hf ⊢
        have hfc : (Xml.renderList ch).length + 1 ≤ f := by
          simp only [List.length_cons, List.length_append] at hf; omega
        obtain ⟨d', r', e1, hd'⟩ := renderAttrs_head attrs (show isNameChar '>' = false from rfl)
          (escapeCdata text ++ (Xml.renderList ch ++ '<' :: '/' :: ((d :: k) ++ '>' :: rest)))
        have hT : takeName ((d :: k) ++ (renderAttrs attrs ++ '>' ::
            (escapeCdata text ++ (Xml.renderList ch ++ '<' :: '/' :: ((d :: k) ++ '>' :: rest)))))
            = (d :: k, renderAttrs attrs ++ '>' ::
                (escapeCdata text ++ (Xml.renderList ch ++ '<' :: '/' :: ((d :: k) ++ '>' :: rest)))) := by
          rw [e1]; exact takeName_append hall hd' r'
        have hA := parseAttrs_render hattrs
          ('>' :: (escapeCdata text ++ (Xml.renderList ch ++ '<' :: '/' :: ((d :: k) ++ '>' :: rest)))) _ (by simp)
          (parseAttrsF_tailB _)
        obtain ⟨y, hy⟩ := renderList_head ch hch ('/' :: ((d :: k) ++ '>' :: rest))
        have hU : unesc isLt none (escapeCdata text ++ (Xml.renderList ch ++ '<' :: '/' :: ((d :: k) ++ '>' :: rest)))
            = some (text, Xml.renderList ch ++ '<' :: '/' :: ((d :: k) ++ '>' :: rest)) := by
          rw [hy]; exact unesc_text text y
        have hC := parseChildren_render ch hch f hfc ((d :: k) ++ '>' :: rest)
        have hT2 : takeName ((d :: k) ++ '>' :: rest) = (d :: k, '>' :: rest) :=
          takeName_append hall (by rfl) rest
        simp only [List.cons_append, List.append_assoc, List.nil_append] at hT hA hU hC hT2 ⊢
        simp [parseElem, expect, hT, hA, stripPre, hU, hC, hT2, skipWs_cons (show isS '>' = false from rfl)]
theorem parseChildren_render : ∀ (l : List Xml), Xml.wfxListB l = true → ∀ (fuel : Nat),
    (Xml.renderList l).length + 1 ≤ fuel → ∀ rest : Str,
    parseChildren fuel (Xml.renderList l ++ '<' :: '/' :: rest) = some (l, rest)
  | [], _, fuel, hf, rest => by
    cases fuel with
    | zero => omega
    | succ f => simp [Xml.renderList, parseChildren, stripPre]
  | x :: xs, h, fuel, hf, rest => by
    simp only [Xml.wfxListB, Bool.and_eq_true] at h
    cases fuel with
    | zero => omega
    | succ f =>
      obtain ⟨d, r, e, hd⟩ := render_head h.1
      have hlen : 1 ≤ x.render.length := by rw [e]; simp
      simp only [Xml.renderList, List.length_append] at hf
      have h1 := parseElem_render x h.1 f (by omega) (Xml.renderList xs ++ '<' :: '/' :: rest)
      have h2 := parseChildren_render xs h.2 f (by omega) rest
      have hd' : ¬ ('/' = d) := by rintro rfl; simp [isNameChar] at hd
      have hs : stripPre cs!"</" (x.render ++ (Xml.renderList xs ++ '<' :: '/' :: rest)) = none := by
        rw [e]; simp [stripPre, hd']
      simp only [Xml.renderList, List.append_assoc]
      simp [parseChildren, hs, h1, h2]
end

/-- **reading back**: the parser inverts the serialiser on every well-formed tree -/
theorem parseXml_render (t : Xml) (h : t.WFX) : parseXml t.render = some t := by
  obtain ⟨d, r, e, _⟩ := render_head h
  have hs : skipWs t.render = t.render := by rw [e]; exact skipWs_cons (by rfl) _
  have := parseElem_render t h (t.render.length + 1) (by omega) []
  simp only [List.append_nil] at this
  simp [parseXml, hs, this, skipWs]

/-! ## the trees of `to_x3d` / `to_html` -/

theorem stripPre_append (p r : Str) : stripPre p (p ++ r) = some r := by
  induction p with
  | nil => rfl
  | cons c p ih => simp [stripPre, ih]

/-- no condition on the class name or the mesh: they only occur in attribute VALUES -/
theorem wfx_x3dTree (b : Bool) (cls : Str) (m : Mesh) : (x3dTree b cls m).WFX := by
  cases b <;> rfl

theorem wfx_htmlTree (cls : Str) (m : Mesh) : (htmlTree cls m).WFX := by
  rfl

theorem parseXml_toX3d (cls : Str) (m : Mesh) : parseXml (toX3d cls m) = some (x3dTree false cls m) :=
  parseXml_render _ (wfx_x3dTree false cls m)

theorem parseHtmlDoc_toHtml (cls : Str) (m : Mesh) : parseHtmlDoc (toHtml cls m) = some (htmlTree cls m) := by
  simp only [parseHtmlDoc, toHtml, stripPre_append, Option.bind_some]
  exact parseXml_render _ (wfx_htmlTree cls m)

/-- text → tree → mesh: the X3D file the model writes, read by the XML reader and the lenient X3D reader -/
theorem readX3dLenient_parseXml_toX3d (cls : Str) {m : Mesh} (h : m.WF) :
    (parseXml (toX3d cls m)).bind readX3dLenient = some (expand m) := by
  rw [parseXml_toX3d, Option.bind_some, readX3dLenient_tree false cls h]

/-- text → tree → mesh for the X3DOM page -/
theorem readHtml_parseHtmlDoc_toHtml (cls : Str) {m : Mesh} (h : m.WF) :
    (parseHtmlDoc (toHtml cls m)).bind readHtml = some (expand m) := by
  rw [parseHtmlDoc_toHtml, Option.bind_some, readHtml_tree cls h]

/-! ## examples -/

example : parseXml cs!"<a b=\"1 &amp; 2\"><c /><d e=\"&#10;\"> </d></a>"
    = some (.node cs!"a" [(cs!"b", cs!"1 & 2")] []
        [.node cs!"c" [] [] [], .node cs!"d" [(cs!"e", cs!"\n")] cs!" " []]) := by rfl
-- white space where the grammar allows it, single quotes, `&apos;`, hexadecimal reference, `<a></a>`
example : parseXml cs!" <a\n b = '&apos;&#x41;\"'\t><c></c ></a >\n"
    = some (.node cs!"a" [(cs!"b", cs!"'A\"")] [] [.node cs!"c" [] [] []]) := by rfl
-- mismatched end tag
example : parseXml cs!"<a><b></a></b>" = none := by rfl
example : parseXml cs!"<a></b>" = none := by rfl
-- missing quote
example : parseXml cs!"<a b=\"1></a>" = none := by rfl
example : parseXml cs!"<a b=1\"></a>" = none := by rfl
-- bare `&`, unknown entity, reference to a non-character
example : parseXml cs!"<a>1 & 2</a>" = none := by rfl
example : parseXml cs!"<a b=\"&\" />" = none := by rfl
example : parseXml cs!"<a>&nbsp;</a>" = none := by rfl
example : parseXml cs!"<a>&#0;</a>" = none := by rfl
-- `<` inside an attribute value
example : parseXml cs!"<a b=\"<\" />" = none := by rfl
-- trailing garbage, text after a child, no white space between attributes, unclosed element
example : parseXml cs!"<a />x" = none := by rfl
example : parseXml cs!"<a /><b />" = none := by rfl
example : parseXml cs!"<a><b />x</a>" = none := by rfl
example : parseXml cs!"<a b=\"1\"c=\"2\" />" = none := by rfl
example : parseXml cs!"<a><b>" = none := by rfl
example : parseHtmlDoc cs!"<!DOCTYPE html><html><body /></html>"
    = some (.node cs!"html" [] [] [.node cs!"body" [] [] []]) := by rfl
example : parseHtmlDoc cs!"<html />" = none := by rfl

end MeshIO
