import CoxeterVerif.Lemmas.CurvedSpheroid2
import Mathlib.MeasureTheory.Integral.IntervalIntegral.Periodic
/-!
  C10: symmetry `a ↔ b` of the surface integral (rotation of the azimuth by a quarter turn) and monotonicity in all
  three semi-axes.
-/
open Curved MeasureTheory intervalIntegral
noncomputable section
namespace C10

theorem surfElement_swap12 (a b c θ φ : ℝ) :
    CSpec.surfElement b a c θ φ = CSpec.surfElement a b c θ (Real.pi / 2 - φ) := by
  rw [surfElement_real, surfElement_real, Real.cos_pi_div_two_sub, Real.sin_pi_div_two_sub]
  congr 2; ring

theorem surfElement_periodic (a b c θ : ℝ) : Function.Periodic (CSpec.surfElement a b c θ) (2 * Real.pi) := by
  intro φ
  simp only [surfElement_real, Real.sin_add_two_pi, Real.cos_add_two_pi]

/-- the surface integral does not depend on which of the two equatorial semi-axes is called `a` -/
theorem surfaceIntegral_swap12 (a b c : ℝ) : surfaceIntegral b a c = surfaceIntegral a b c := by
  unfold surfaceIntegral
  congr 1; funext θ
  simp only [surfElement_swap12 a b c θ]
  rw [intervalIntegral.integral_comp_sub_left (fun φ => CSpec.surfElement a b c θ φ) (Real.pi / 2)]
  have h := (surfElement_periodic a b c θ).intervalIntegral_add_eq (Real.pi / 2 - 2 * Real.pi) 0
  rw [zero_add] at h
  rw [← h]
  congr 1; ring

theorem surfElement_mono (a a' b b' c c' θ φ : ℝ) (ha : 0 ≤ a) (hb : 0 ≤ b) (hc : 0 ≤ c) (haa : a ≤ a') (hbb : b ≤ b')
    (hcc : c ≤ c') (hθ : 0 ≤ Real.sin θ) :
    CSpec.surfElement a b c θ φ ≤ CSpec.surfElement a' b' c' θ φ := by
  rw [surfElement_real, surfElement_real]
  apply mul_le_mul_of_nonneg_left _ hθ
  apply Real.sqrt_le_sqrt
  have h1 : (b * c) ^ 2 ≤ (b' * c') ^ 2 := pow_le_pow_left₀ (by positivity) (mul_le_mul hbb hcc hc (hb.trans hbb)) 2
  have h2 : (a * c) ^ 2 ≤ (a' * c') ^ 2 := pow_le_pow_left₀ (by positivity) (mul_le_mul haa hcc hc (ha.trans haa)) 2
  have h3 : (a * b) ^ 2 ≤ (a' * b') ^ 2 := pow_le_pow_left₀ (by positivity) (mul_le_mul haa hbb hb (ha.trans haa)) 2
  have := mul_le_mul_of_nonneg_right h1 (by positivity : 0 ≤ Real.sin θ ^ 2 * Real.cos φ ^ 2)
  have := mul_le_mul_of_nonneg_right h2 (by positivity : 0 ≤ Real.sin θ ^ 2 * Real.sin φ ^ 2)
  have := mul_le_mul_of_nonneg_right h3 (sq_nonneg (Real.cos θ))
  linarith

/-- **the surface integral is monotone in every semi-axis** -/
theorem surfaceIntegral_mono (a a' b b' c c' : ℝ) (ha : 0 ≤ a) (hb : 0 ≤ b) (hc : 0 ≤ c) (haa : a ≤ a') (hbb : b ≤ b')
    (hcc : c ≤ c') : surfaceIntegral a b c ≤ surfaceIntegral a' b' c' := by
  unfold surfaceIntegral
  apply integral_mono_on Real.pi_pos.le
  · exact (continuous_parametric_intervalIntegral_of_continuous' (surfElement_continuous a b c) _ _).intervalIntegrable _ _
  · exact (continuous_parametric_intervalIntegral_of_continuous' (surfElement_continuous a' b' c') _ _).intervalIntegrable _ _
  · intro θ hθ
    apply integral_mono_on (by positivity)
    · exact (Continuous.intervalIntegrable ((surfElement_continuous a b c).comp (by fun_prop : Continuous fun φ : ℝ => (θ, φ))) _ _)
    · exact (Continuous.intervalIntegrable ((surfElement_continuous a' b' c').comp (by fun_prop : Continuous fun φ : ℝ => (θ, φ))) _ _)
    · intro φ _
      exact surfElement_mono a a' b b' c c' θ φ ha hb hc haa hbb hcc (Real.sin_nonneg_of_nonneg_of_le_pi hθ.1 hθ.2)

end C10
