import CoxeterVerif.Lemmas.MeshIOFloat
import CoxeterVerif.RealInst
/-!
  Helper lemmas of C20 (deepening round), decimal coordinate tokens — part 2:
  `floatRepr` (the model of `str(coord)`: CPython's `format_float_short(…, 'r', …)`) prints, in each of its four
  layouts (exponent notation; `0.000ddd`; `dd.ddd`; `ddd000.0`), a token of the number grammar whose exact value is
  `± d₁…dₙ · 10^(decpt − n)` — whatever digits and decimal-point position `dtoa` delivered.
-/
set_option linter.unusedSimpArgs false
namespace MeshIO

/-- value of a list of decimal digits, most significant first -/
def digitsVal (ds : List Nat) : Nat := ds.foldl (fun a d => 10 * a + d) 0

/-! ### characters of digits -/

theorem digitCh_isDigit {d : Nat} (h : d < 10) : (digitCh d).isDigit = true := by
  have : ∀ d, d < 10 → (digitCh d).isDigit = true := by decide
  exact this d h

theorem digitCh_notExp {d : Nat} (h : d < 10) : isExpChar (digitCh d) = false := by
  have : ∀ d, d < 10 → isExpChar (digitCh d) = false := by decide
  exact this d h

theorem digitCh_notDot {d : Nat} (h : d < 10) : isDot (digitCh d) = false := by
  have : ∀ d, d < 10 → isDot (digitCh d) = false := by decide
  exact this d h

theorem digitCh_notSign {d : Nat} (h : d < 10) : digitCh d ≠ '-' ∧ digitCh d ≠ '+' := by
  have : ∀ d, d < 10 → (digitCh d ≠ '-' ∧ digitCh d ≠ '+') := by decide
  exact this d h

theorem isDigit_notExp {c : Char} (h : c.isDigit = true) : isExpChar c = false := by
  cases he : isExpChar c with
  | false => rfl
  | true =>
    have : c = 'e' ∨ c = 'E' := by simpa [isExpChar] using he
    rcases this with rfl | rfl <;> simp [Char.isDigit] at h

theorem isDigit_notDot {c : Char} (h : c.isDigit = true) : isDot c = false := by
  cases he : isDot c with
  | false => rfl
  | true =>
    have : c = '.' := by simpa [isDot] using he
    subst this; simp [Char.isDigit] at h

theorem isDigit_notSign {c : Char} (h : c.isDigit = true) : c ≠ '-' ∧ c ≠ '+' := by
  constructor <;> rintro rfl <;> simp [Char.isDigit] at h

theorem digitRun_map {ds : List Nat} (hd : ∀ d ∈ ds, d < 10) : digitRun (ds.map digitCh) = true := by
  simp only [digitRun, List.all_eq_true, List.mem_map]
  rintro c ⟨d, hdm, rfl⟩
  exact digitCh_isDigit (hd d hdm)

theorem digitsNat_map_aux {ds : List Nat} (hd : ∀ d ∈ ds, d < 10) (init : Nat) :
    Nat.ofDigitChars 10 (ds.map digitCh) init = ds.foldl (fun a d => 10 * a + d) init := by
  induction ds generalizing init with
  | nil => simp
  | cons d ds ih =>
    simp only [List.map_cons, digitCh, List.foldl_cons]
    rw [Nat.ofDigitChars_cons_digitChar_of_lt_ten (hd d (by simp))]
    exact ih (fun x hx => hd x (by simp [hx])) _

theorem digitsNat_map {ds : List Nat} (hd : ∀ d ∈ ds, d < 10) : digitsNat (ds.map digitCh) = digitsVal ds :=
  digitsNat_map_aux hd 0

theorem digitRun_append {a b : Str} : digitRun (a ++ b) = (digitRun a && digitRun b) := by
  simp [digitRun]

theorem digitRun_zeros (n : Nat) : digitRun (zeros n) = true := by
  simp only [digitRun, zeros, List.all_eq_true]
  intro c hc
  rw [List.eq_of_mem_replicate hc]; decide

theorem digitsNat_append_zeros (a : Str) (n : Nat) : digitsNat (a ++ zeros n) = 10 ^ n * digitsNat a := by
  simp [digitsNat, zeros, Nat.ofDigitChars_append]

theorem digitsNat_zeros_append (n : Nat) (a : Str) : digitsNat (zeros n ++ a) = digitsNat a := by
  simp [digitsNat, zeros, Nat.ofDigitChars_append]

theorem digitsNat_zero_cons (a : Str) : digitsNat ('0' :: a) = digitsNat a := by
  simp [digitsNat, Nat.ofDigitChars_cons]

theorem digitRun_dec (n : Nat) : digitRun (dec n) = true := by
  simp only [digitRun, List.all_eq_true]
  exact fun c hc => Nat.isDigit_of_mem_toDigits (by decide) (by decide) hc

theorem digitsNat_dec (n : Nat) : digitsNat (dec n) = n := by simp [digitsNat, dec]

theorem pad2_spec (n : Nat) : digitRun (pad2 n) = true ∧ pad2 n ≠ [] ∧ digitsNat (pad2 n) = n := by
  unfold pad2
  split
  · refine ⟨?_, by simp, ?_⟩
    · simp only [digitRun, List.all_cons, Bool.and_eq_true]
      exact ⟨by decide, digitRun_dec n⟩
    · rw [digitsNat_zero_cons, digitsNat_dec]
  · exact ⟨digitRun_dec n, Nat.toDigits_ne_nil, digitsNat_dec n⟩

/-! ### the parsers on assembled strings -/

theorem cutAt_free {p : Char → Bool} {a : Str} (h : ∀ c ∈ a, p c = false) : cutAt p a = (a, none) := by
  induction a with
  | nil => rfl
  | cons c a ih =>
    have hc := h c (by simp)
    have := ih fun x hx => h x (by simp [hx])
    simp [cutAt, hc, this]

theorem cutAt_hit {p : Char → Bool} {a : Str} (h : ∀ c ∈ a, p c = false) {x : Char} (hx : p x = true) (r : Str) :
    cutAt p (a ++ x :: r) = (a, some r) := by
  induction a with
  | nil => simp [cutAt, hx]
  | cons c a ih =>
    have hc := h c (by simp)
    have := ih fun y hy => h y (by simp [hy])
    simp [cutAt, hc, this]

theorem digitRun_free {p : Char → Bool} (hp : ∀ c : Char, c.isDigit = true → p c = false) {a : Str}
    (h : digitRun a = true) : ∀ c ∈ a, p c = false := by
  intro c hc
  simp only [digitRun, List.all_eq_true] at h
  exact hp c (h c hc)

theorem parseMant_int {i : Str} (hi : digitRun i = true) (hne : i ≠ []) : parseMant i = some (i, []) := by
  unfold parseMant
  rw [cutAt_free (digitRun_free (fun _ => isDigit_notDot) hi)]
  have : i.isEmpty = false := by cases i <;> simp_all
  simp [this, hi]

theorem parseMant_dot {i f : Str} (hi : digitRun i = true) (hf : digitRun f = true) (hne : i ≠ []) :
    parseMant (i ++ '.' :: f) = some (i, f) := by
  unfold parseMant
  rw [cutAt_hit (digitRun_free (fun _ => isDigit_notDot) hi) (by decide)]
  have : i.isEmpty = false := by cases i <;> simp_all
  simp [this, hi, hf]

theorem parseExp_signed (neg : Bool) {ds : Str} (hd : digitRun ds = true) (hne : ds ≠ []) :
    parseExp (some ((if neg then '-' else '+') :: ds))
      = some (if neg then -(digitsNat ds : Int) else (digitsNat ds : Int)) := by
  have hem : ds.isEmpty = false := by cases ds <;> simp_all
  cases neg <;> simp [parseExp, splitSign, hem, hd]

/-- the exponent text `e±dd` written for `exp` -/
theorem parseExp_written (exp : Int) :
    parseExp (some ((if exp < 0 then ['-'] else ['+']) ++ pad2 exp.natAbs)) = some exp := by
  have ⟨h1, h2, h3⟩ := pad2_spec exp.natAbs
  have := parseExp_signed (decide (exp < 0)) h1 h2
  by_cases he : exp < 0
  · simp only [he, decide_true, ↓reduceIte, h3] at this
    simp only [he, ↓reduceIte, List.cons_append, List.nil_append, this, Option.some.injEq]
    omega
  · simp only [he, decide_false, Bool.false_eq_true, ↓reduceIte, h3] at this
    simp only [he, ↓reduceIte, List.cons_append, List.nil_append, this, Option.some.injEq]
    omega

theorem splitSign_sgn (neg : Bool) {body : Str} {c : Char} {r : Str} (hb : body = c :: r)
    (hc : c ≠ '-' ∧ c ≠ '+') : splitSign ((if neg then ['-'] else []) ++ body) = (neg, body) := by
  subst hb
  cases neg
  · simp only [Bool.false_eq_true, ↓reduceIte, List.nil_append]
    unfold splitSign
    split
    · rename_i h; exact absurd (List.cons.inj h).1 hc.1
    · rename_i h; exact absurd (List.cons.inj h).1 hc.2
    · rfl
  · simp [splitSign]

/-- a mantissa (all of whose characters are digits or the dot, beginning with a digit), optionally followed by an
    exponent part, after an optional minus sign -/
theorem tokSignMag_build (neg : Bool) {M : Str} {i f : Str} {c : Char} {r : Str} (hM : M = c :: r)
    (hc : c.isDigit = true) (hfree : ∀ x ∈ M, isExpChar x = false) (hm : parseMant M = some (i, f))
    (T : Str) (E : Int)
    (hT : (T = [] ∧ E = 0) ∨ ∃ X, T = 'e' :: X ∧ parseExp (some X) = some E) :
    tokSignMag ((if neg then ['-'] else []) ++ (M ++ T))
      = some (neg, scale10 (digitsNat (i ++ f)) (E - (f.length : Int))) := by
  have hs : splitSign ((if neg then ['-'] else []) ++ (M ++ T)) = (neg, M ++ T) :=
    splitSign_sgn neg (by rw [hM]; rfl) (isDigit_notSign hc)
  unfold tokSignMag
  rw [hs]
  rcases hT with ⟨rfl, rfl⟩ | ⟨X, rfl, hX⟩
  · simp only [List.append_nil]
    rw [cutAt_free hfree]
    simp [hm, parseExp]
  · simp only
    rw [cutAt_hit hfree (by decide)]
    simp [hm, hX]

/-! ### rational arithmetic -/

theorem scale10_nonneg (n a : Nat) : scale10 n (a : Int) = ((n * 10 ^ a : Nat) : Rat) := by
  simp [scale10]

theorem scale10_eq (n : Nat) (e : Int) : scale10 n e = (n : ℚ) * (10 : ℚ) ^ e := by
  unfold scale10
  split
  · rename_i h
    obtain ⟨a, rfl⟩ := Int.eq_ofNat_of_zero_le h
    simp
  · rename_i h
    have h' : e < 0 := by omega
    obtain ⟨a, ha⟩ := Int.exists_eq_neg_ofNat (le_of_lt h')
    subst ha
    simp only [neg_neg, Int.toNat_natCast, zpow_neg, zpow_natCast]
    rw [Rat.mkRat_eq_div]
    push_cast
    rw [div_eq_mul_inv]

/-- trailing zeros of the digit string against a negative exponent -/
theorem scale10_trailing (V a : Nat) : scale10 (10 ^ a * V * 10) (-1) = scale10 V (a : Int) := by
  rw [scale10_eq, scale10_eq]
  push_cast
  rw [zpow_neg, zpow_one, zpow_natCast]
  field_simp

/-! ### the four layouts of `floatRepr` -/

theorem map_ne_nil {ds : List Nat} (h : ds ≠ []) : ds.map digitCh ≠ [] := by simpa using h

theorem digits_free {ds : List Nat} (hd : ∀ d ∈ ds, d < 10) :
    ∀ x ∈ ds.map digitCh, isExpChar x = false :=
  digitRun_free (fun _ => isDigit_notExp) (digitRun_map hd)

theorem finish_eq {neg : Bool} {A B : Nat} {e1 e2 : Int} (hA : A = B) (he : e1 = e2) :
    some (neg, scale10 A e1) = some (neg, scale10 B e2) := by rw [hA, he]

/-- `str(coord)` is a token of the number grammar and its exact value is `± d₁…dₙ · 10^(decpt − n)`:
    for EVERY non-empty digit list and every `decpt`. -/
theorem tokSignMag_floatRepr (neg : Bool) (ds : List Nat) (k : Int) (hne : ds ≠ []) (hd : ∀ d ∈ ds, d < 10) :
    tokSignMag (floatRepr neg ds k) = some (neg, scale10 (digitsVal ds) (k - (ds.length : Int))) := by
  have hrun := digitRun_map hd
  have hfree := digits_free hd
  have hval := digitsNat_map hd
  unfold floatRepr
  simp only [List.length_map]
  split
  · -- exponent notation
    cases ds with
    | nil => exact absurd rfl hne
    | cons d r =>
      have hd0 : d < 10 := hd d (by simp)
      have hr : ∀ x ∈ r, x < 10 := fun x hx => hd x (by simp [hx])
      cases r with
      | nil =>
        have := tokSignMag_build neg (M := [digitCh d]) (i := [digitCh d]) (f := []) rfl (digitCh_isDigit hd0)
          (by simpa using digitCh_notExp hd0) (parseMant_int (by simpa using hrun) (by simp))
          ('e' :: ((if k - 1 < 0 then ['-'] else ['+']) ++ pad2 (k - 1).natAbs)) (k - 1)
          (Or.inr ⟨_, rfl, parseExp_written (k - 1)⟩)
        simp only [List.map_cons, List.map_nil, List.append_assoc, List.cons_append, List.nil_append] at this ⊢
        rw [this]
        exact finish_eq (by simpa using hval) (by simp)
      | cons d2 r2 =>
        have hrr : digitRun ((d2 :: r2).map digitCh) = true := digitRun_map hr
        have := tokSignMag_build neg (M := digitCh d :: '.' :: (d2 :: r2).map digitCh) (i := [digitCh d])
          (f := (d2 :: r2).map digitCh) rfl (digitCh_isDigit hd0)
          (by
            intro x hx
            simp only [List.mem_cons] at hx
            rcases hx with rfl | rfl | hx
            · exact digitCh_notExp hd0
            · decide
            · exact digits_free hr x (by simpa using hx))
          (parseMant_dot (i := [digitCh d]) (by simpa [digitRun] using digitCh_isDigit hd0) hrr (by simp))
          ('e' :: ((if k - 1 < 0 then ['-'] else ['+']) ++ pad2 (k - 1).natAbs)) (k - 1)
          (Or.inr ⟨_, rfl, parseExp_written (k - 1)⟩)
        simp only [List.map_cons, List.append_assoc, List.cons_append, List.nil_append] at this ⊢
        rw [this]
        refine finish_eq (by simpa using hval) ?_
        simp only [List.length_cons, List.length_map]
        push_cast
        omega
  · rename_i hk
    split
    · -- 0.000ddd
      rename_i hk0
      have hz : digitRun (zeros (-k).toNat ++ ds.map digitCh) = true := by
        rw [digitRun_append, digitRun_zeros, hrun]; rfl
      have := tokSignMag_build neg (M := '0' :: '.' :: (zeros (-k).toNat ++ ds.map digitCh)) (i := ['0'])
        (f := zeros (-k).toNat ++ ds.map digitCh) rfl (by decide)
        (by
          intro x hx
          simp only [List.mem_cons] at hx
          rcases hx with rfl | rfl | hx
          · decide
          · decide
          · exact digitRun_free (fun _ => isDigit_notExp) hz x hx)
        (parseMant_dot (i := ['0']) (by decide) hz (by simp)) [] 0 (Or.inl ⟨rfl, rfl⟩)
      simp only [List.append_assoc, List.cons_append, List.nil_append, List.append_nil] at this ⊢
      rw [this]
      refine finish_eq ?_ ?_
      · rw [digitsNat_zero_cons, digitsNat_zeros_append, hval]
      · simp only [List.length_append, List.length_map, zeros, List.length_replicate]
        push_cast
        omega
    · rename_i hk0
      split
      · -- dd.ddd
        rename_i hlt
        have hi : digitRun ((ds.map digitCh).take k.toNat) = true := by
          simp only [digitRun, List.all_eq_true] at hrun ⊢
          exact fun c hc => hrun c (List.mem_of_mem_take hc)
        have hf : digitRun ((ds.map digitCh).drop k.toNat) = true := by
          simp only [digitRun, List.all_eq_true] at hrun ⊢
          exact fun c hc => hrun c (List.mem_of_mem_drop hc)
        obtain ⟨j, hj⟩ : ∃ j, k.toNat = j + 1 := ⟨k.toNat - 1, by omega⟩
        have hine : (ds.map digitCh).take k.toNat ≠ [] := by
          cases ds with
          | nil => exact absurd rfl hne
          | cons d r => rw [hj]; simp
        have hhead : ∃ c r', (ds.map digitCh).take k.toNat ++ '.' :: (ds.map digitCh).drop k.toNat = c :: r'
            ∧ c.isDigit = true := by
          cases ds with
          | nil => exact absurd rfl hne
          | cons d r =>
            rw [hj]
            exact ⟨digitCh d, (r.map digitCh).take j ++ '.' :: (r.map digitCh).drop j, by simp,
              digitCh_isDigit (hd d (by simp))⟩
        obtain ⟨c, r', hcr, hcd⟩ := hhead
        have := tokSignMag_build neg
          (M := (ds.map digitCh).take k.toNat ++ '.' :: (ds.map digitCh).drop k.toNat)
          (i := (ds.map digitCh).take k.toNat) (f := (ds.map digitCh).drop k.toNat) hcr hcd
          (by
            intro x hx
            simp only [List.mem_append, List.mem_cons] at hx
            rcases hx with hx | rfl | hx
            · exact hfree x (List.mem_of_mem_take hx)
            · decide
            · exact hfree x (List.mem_of_mem_drop hx))
          (parseMant_dot hi hf hine) [] 0 (Or.inl ⟨rfl, rfl⟩)
        simp only [List.append_assoc, List.cons_append, List.nil_append, List.append_nil] at this ⊢
        rw [this]
        refine finish_eq ?_ ?_
        · rw [List.take_append_drop, hval]
        · simp only [List.length_drop, List.length_map]
          have : (k.toNat : Int) = k := Int.toNat_of_nonneg (by omega)
          omega
      · -- ddd000.0
        rename_i hge
        have hi : digitRun (ds.map digitCh ++ zeros (k.toNat - ds.length)) = true := by
          rw [digitRun_append, digitRun_zeros, hrun]; rfl
        obtain ⟨d, r, hdr⟩ : ∃ d r, ds = d :: r := by
          cases ds with
          | nil => exact absurd rfl hne
          | cons d r => exact ⟨d, r, rfl⟩
        have := tokSignMag_build neg
          (M := (ds.map digitCh ++ zeros (k.toNat - ds.length)) ++ '.' :: ['0'])
          (i := ds.map digitCh ++ zeros (k.toNat - ds.length)) (f := ['0'])
          (c := digitCh d) (r := r.map digitCh ++ zeros (k.toNat - ds.length) ++ '.' :: ['0'])
          (by rw [hdr]; simp) (digitCh_isDigit (hd d (by simp [hdr])))
          (by
            intro x hx
            simp only [List.mem_append, List.mem_cons, List.not_mem_nil, or_false] at hx
            rcases hx with (hx | hx) | rfl | rfl
            · exact hfree x hx
            · exact digitRun_free (fun _ => isDigit_notExp) (digitRun_zeros _) x hx
            · decide
            · decide)
          (parseMant_dot hi (by decide) (by simp [map_ne_nil hne])) [] 0 (Or.inl ⟨rfl, rfl⟩)
        simp only [List.append_assoc, List.cons_append, List.nil_append, List.append_nil] at this ⊢
        rw [this]
        simp only [Option.some.injEq, Prod.mk.injEq, true_and]
        rw [show ds.map digitCh ++ (zeros (k.toNat - ds.length) ++ ['0'])
            = (ds.map digitCh ++ zeros (k.toNat - ds.length)) ++ zeros 1 from by simp [zeros],
          digitsNat_append_zeros, digitsNat_append_zeros, hval]
        simp only [List.length_cons, List.length_nil]
        have hk' : k - (ds.length : Int) = ((k.toNat - ds.length : Nat) : Int) := by
          have : (k.toNat : Int) = k := Int.toNat_of_nonneg (by omega)
          omega
        rw [hk', ← scale10_trailing]
        congr 1
        ring

end MeshIO
