import CoxeterVerif.Lemmas.StructureCert
import CoxeterVerif.Lemmas.StructureCheck
/-!
  C07, deepening round — `Polyhedron.merge_faces`.

  * `mem_mergeGraph` : an entry `(i, j)` of the merge graph ⇔ `j` is a listed neighbour of `i` and
    the stored equations are `allclose` up to sign;
  * `Conn` : connectivity in the undirected graph; `minLabels_conn` : the model's own labelling only
    ever identifies connected faces; `labels_iff_conn` : under the label certificate
    (`labelsContract` + `labelsClosedB`, both evaluated by the driver on scipy's labels) two faces
    carry the same label EXACTLY when a chain of near-coplanar neighbours joins them;
  * `isclose_chain` : along such a chain the deviation can add up (`m·(atol + rtol·B)`), and
    `allclose_not_transitive` : it does — faces `0 ~ 1 ~ 2` are merged although `0` and `2` are
    not `allclose` (the transitivity caveat of `merge_faces`).
-/
open Struct Scalar
set_option maxRecDepth 4000


namespace StructLemmas

/-- connected in the undirected graph given by the list of entries -/
inductive Conn (graph : List (Nat × Nat)) : Nat → Nat → Prop where
  | refl (i : Nat) : Conn graph i i
  | step {i j k : Nat} : Conn graph i j → ((j, k) ∈ graph ∨ (k, j) ∈ graph) → Conn graph i k

theorem Conn.trans {g : List (Nat × Nat)} {i j k : Nat} (h1 : Conn g i j) (h2 : Conn g j k) : Conn g i k := by
  induction h2 with
  | refl => exact h1
  | step _ he ih => exact Conn.step ih he

theorem Conn.symm {g : List (Nat × Nat)} {i j : Nat} (h : Conn g i j) : Conn g j i := by
  induction h with
  | refl => exact Conn.refl _
  | step _ he ih => exact Conn.trans (Conn.step (Conn.refl _) he.symm) ih

theorem Conn.edge {g : List (Nat × Nat)} {a b : Nat} (h : (a, b) ∈ g) : Conn g a b :=
  Conn.step (Conn.refl a) (Or.inl h)

/-! ### the model's own labelling identifies only connected faces -/

/-- invariant of the relaxation: every label is a node connected to its owner -/
def LabInv (g : List (Nat × Nat)) (n : Nat) (lab : List Nat) : Prop :=
  lab.length = n ∧ ∀ i, i < n → Conn g i (lab.getD i 0)

theorem getD_set_eq (l : List Nat) (i j x : Nat) :
    (l.set i x).getD j 0 = if i = j ∧ i < l.length then x else l.getD j 0 := by
  simp only [List.getD_eq_getElem?_getD, List.getElem?_set]
  by_cases h : i = j
  · subst h
    by_cases h2 : i < l.length
    · simp [h2]
    · simp [h2]
  · simp [h]

theorem relax_edge_inv (g : List (Nat × Nat)) (n : Nat) (lab : List Nat) (e : Nat × Nat)
    (he : e ∈ g) (hv : e.1 < n ∧ e.2 < n) (h : LabInv g n lab) :
    LabInv g n ((lab.set e.1 (if lab.getD e.1 0 ≤ lab.getD e.2 0 then lab.getD e.1 0 else lab.getD e.2 0)).set e.2
      (if lab.getD e.1 0 ≤ lab.getD e.2 0 then lab.getD e.1 0 else lab.getD e.2 0)) := by
  obtain ⟨a, b⟩ := e
  simp only at hv ⊢
  obtain ⟨hlen, hc⟩ := h
  refine ⟨by simp [hlen], ?_⟩
  intro i hi
  have hab : Conn g a b := Conn.edge he
  set m := (if lab.getD a 0 ≤ lab.getD b 0 then lab.getD a 0 else lab.getD b 0) with hm
  have hma : Conn g a m := by
    rw [hm]; split_ifs
    · exact hc a hv.1
    · exact Conn.trans hab (hc b hv.2)
  have hmb : Conn g b m := Conn.trans hab.symm hma
  rw [getD_set_eq, getD_set_eq]
  simp only [List.length_set]
  by_cases h1 : b = i
  · subst h1
    rw [if_pos ⟨rfl, by omega⟩]; exact hmb
  · rw [if_neg (fun h => h1 h.1)]
    by_cases h2 : a = i
    · subst h2
      rw [if_pos ⟨rfl, by omega⟩]; exact hma
    · rw [if_neg (fun h => h2 h.1)]; exact hc i hi

theorem relax_round_inv (g : List (Nat × Nat)) (n : Nat) (hvalid : ∀ e ∈ g, e.1 < n ∧ e.2 < n) :
    ∀ (L : List (Nat × Nat)) (lab : List Nat), (∀ e ∈ L, e ∈ g) → LabInv g n lab →
      LabInv g n (L.foldl (fun lab e =>
        let a := lab.getD e.1 0
        let b := lab.getD e.2 0
        let m := if a ≤ b then a else b
        (lab.set e.1 m).set e.2 m) lab) := by
  intro L
  induction L with
  | nil => intro lab _ h; exact h
  | cons e L ih =>
    intro lab hsub h
    simp only [List.foldl_cons]
    apply ih _ (fun x hx => hsub x (List.mem_cons_of_mem _ hx))
    exact relax_edge_inv g n lab e (hsub e List.mem_cons_self) (hvalid e (hsub e List.mem_cons_self)) h

theorem relax_rounds_inv (g : List (Nat × Nat)) (n : Nat) (hvalid : ∀ e ∈ g, e.1 < n ∧ e.2 < n) :
    ∀ (R : List Nat) (lab : List Nat), LabInv g n lab →
      LabInv g n (R.foldl (fun lab _ => g.foldl (fun lab e =>
        let a := lab.getD e.1 0
        let b := lab.getD e.2 0
        let m := if a ≤ b then a else b
        (lab.set e.1 m).set e.2 m) lab) lab) := by
  intro R
  induction R with
  | nil => intro lab h; exact h
  | cons r R ih =>
    intro lab h
    simp only [List.foldl_cons]
    exact ih _ (relax_round_inv g n hvalid g lab (fun _ h => h) h)

/-- **`minLabels` only identifies connected nodes** -/
theorem minLabels_conn (n : Nat) (g : List (Nat × Nat)) (hvalid : ∀ e ∈ g, e.1 < n ∧ e.2 < n) :
    LabInv g n (minLabels n g) := by
  unfold minLabels
  apply relax_rounds_inv g n hvalid
  refine ⟨by simp, ?_⟩
  intro i hi
  have : (List.range n).getD i 0 = i := by simp [List.getD_eq_getElem?_getD, hi]
  rw [this]; exact Conn.refl i

/-- closure of the labelling under the graph ⇒ connected nodes carry the same label -/
theorem labels_eq_of_conn {g : List (Nat × Nat)} {labels : List Nat}
    (hcl : labelsClosedB g labels = true) {i j : Nat} (h : Conn g i j) :
    labels.getD i 0 = labels.getD j 0 := by
  unfold labelsClosedB at hcl
  simp only [List.all_eq_true, beq_iff_eq] at hcl
  induction h with
  | refl => rfl
  | step _ he ih =>
    rcases he with he | he
    · rw [ih]; exact hcl _ he
    · rw [ih]; exact (hcl _ he).symm

/-- **label certificate ⇒ labels are exactly the connected components**: for faces `i, j < n`,
`labels[i] = labels[j]` iff `i` and `j` are joined by a chain of graph entries -/
theorem labels_iff_conn (n : Nat) (g : List (Nat × Nat)) (labels : List Nat)
    (hcert : labelsCert n g labels = true) (i j : Nat) (hi : i < n) (hj : j < n) :
    labels.getD i 0 = labels.getD j 0 ↔ Conn g i j := by
  unfold labelsCert at hcert
  simp only [Bool.and_eq_true, List.all_eq_true, decide_eq_true_eq] at hcert
  obtain ⟨⟨hcontract, hclosed⟩, hvalid⟩ := hcert
  constructor
  · intro heq
    unfold labelsContract at hcontract
    simp only [Bool.and_eq_true, List.all_eq_true, List.mem_range, decide_eq_true_eq, beq_iff_eq] at hcontract
    have hij := hcontract.2 i hi j hj
    have hml : (minLabels n g).getD i 0 = (minLabels n g).getD j 0 := by
      have h1 : (labels.getD i 0 == labels.getD j 0) = true := by simpa using heq
      rw [h1] at hij
      simpa using hij.symm
    have hinv := minLabels_conn n g hvalid
    have h1 := hinv.2 i hi
    have h2 := hinv.2 j hj
    rw [hml] at h1
    exact Conn.trans h1 h2.symm
  · intro hc
    exact labels_eq_of_conn hclosed hc

/-! ### the merge graph -/

section real
noncomputable section

theorem mem_mergeGraph (eqs : List (Eqn ℝ)) (nbrs : List (List Nat)) (atol rtol : ℝ) (i j : Nat) :
    (i, j) ∈ mergeGraph eqs nbrs atol rtol ↔
      i < eqs.length ∧ j ∈ nbrs.getD i [] ∧
      (allclose atol rtol (eqs.getD i (V3.zero, lit 0)) (eqs.getD j (V3.zero, lit 0)) = true ∨
       allclose atol rtol (eqs.getD i (V3.zero, lit 0)) (negEqn (eqs.getD j (V3.zero, lit 0))) = true) := by
  unfold mergeGraph
  simp only [List.mem_flatMap, List.mem_range, List.mem_map, List.mem_filter, Bool.or_eq_true,
    Prod.mk.injEq]
  constructor
  · rintro ⟨a, ha, b, ⟨hb1, hb2⟩, rfl, rfl⟩
    exact ⟨ha, hb1, hb2⟩
  · rintro ⟨h1, h2, h3⟩
    exact ⟨i, h1, j, ⟨h2, h3⟩, rfl, rfl⟩

theorem isclose_real (a b rtol atol : ℝ) : isclose a b rtol atol = true ↔ |a - b| ≤ atol + rtol * |b| := by
  unfold isclose
  simp only [decide_eq_true_eq, Scalar.abs_real]

/-- closeness adds up along a chain: `m` steps of `isclose` between values bounded by `B` give
`|x₀ − x_m| ≤ m·(atol + rtol·B)` — and no better in general -/
theorem isclose_chain (atol rtol B : ℝ) (hr : 0 ≤ rtol) :
    ∀ (xs : List ℝ) (x0 : ℝ), (∀ x ∈ xs, |x| ≤ B) →
      List.IsChain (fun a b => isclose a b rtol atol = true) (x0 :: xs) →
      |x0 - (x0 :: xs).getLast (by simp)| ≤ xs.length * (atol + rtol * B) := by
  intro xs
  induction xs with
  | nil => intro x0 _ _; simp
  | cons x xs ih =>
    intro x0 hb hch
    rw [List.isChain_cons_cons] at hch
    have h1 := (isclose_real _ _ _ _).mp hch.1
    have h2 := ih x (fun y hy => hb y (List.mem_cons_of_mem _ hy)) hch.2
    have hx := hb x List.mem_cons_self
    have hlast : (x0 :: x :: xs).getLast (by simp) = (x :: xs).getLast (by simp) := by
      simp [List.getLast_cons]
    rw [hlast]
    have htri : |x0 - (x :: xs).getLast (by simp)| ≤ |x0 - x| + |x - (x :: xs).getLast (by simp)| := by
      have := abs_sub_le x0 x ((x :: xs).getLast (by simp))
      exact this
    have hrx : rtol * |x| ≤ rtol * B := mul_le_mul_of_nonneg_left hx hr
    simp only [List.length_cons]
    push_cast
    linarith

/-- **the transitivity caveat of `merge_faces`**: with the default tolerances three parallel
planes at offsets `0, 1e-8, 2e-8` are `allclose` in consecutive pairs, so they end up in one
component of the merge graph and are merged — although the first and the last are NOT `allclose`. -/
theorem allclose_not_transitive :
    let atol : ℝ := 1 / 100000000
    let rtol : ℝ := 1 / 100000
    let e0 : Eqn ℝ := (⟨0, 0, 1⟩, 0)
    let e1 : Eqn ℝ := (⟨0, 0, 1⟩, 1 / 100000000)
    let e2 : Eqn ℝ := (⟨0, 0, 1⟩, 2 / 100000000)
    allclose atol rtol e0 e1 = true ∧ allclose atol rtol e1 e2 = true ∧ allclose atol rtol e0 e2 = false ∧
    allclose atol rtol e0 (negEqn e2) = false ∧
    mergeGraph [e0, e1, e2] [[1], [0, 2], [1]] atol rtol = [(0, 1), (1, 0), (1, 2), (2, 1)] := by
  intro atol rtol e0 e1 e2
  have c01 : allclose atol rtol e0 e1 = true := by
    simp only [allclose, Bool.and_eq_true, isclose_real, e0, e1, atol, rtol]
    norm_num [abs_of_nonneg, abs_of_nonpos]
  have c12 : allclose atol rtol e1 e2 = true := by
    simp only [allclose, Bool.and_eq_true, isclose_real, e1, e2, atol, rtol]
    norm_num [abs_of_nonneg, abs_of_nonpos]
  have c02 : allclose atol rtol e0 e2 = false := by
    rw [Bool.eq_false_iff]
    simp only [ne_eq, allclose, Bool.and_eq_true, isclose_real, e0, e2, atol, rtol]
    norm_num [abs_of_nonneg, abs_of_nonpos]
  have c02n : allclose atol rtol e0 (negEqn e2) = false := by
    rw [Bool.eq_false_iff]
    simp only [ne_eq, allclose, negEqn, Bool.and_eq_true, isclose_real, e0, e2, atol, rtol, V3.neg_z]
    norm_num [abs_of_nonneg, abs_of_nonpos]
  have c10 : allclose atol rtol e1 e0 = true := by
    simp only [allclose, Bool.and_eq_true, isclose_real, e0, e1, atol, rtol]
    norm_num [abs_of_nonneg, abs_of_nonpos]
  have c21 : allclose atol rtol e2 e1 = true := by
    simp only [allclose, Bool.and_eq_true, isclose_real, e1, e2, atol, rtol]
    norm_num [abs_of_nonneg, abs_of_nonpos]
  refine ⟨c01, c12, c02, c02n, ?_⟩
  simp only [mergeGraph, List.length_cons, List.length_nil, List.range_succ, List.range_zero,
    List.nil_append, List.cons_append, List.flatMap_cons, List.flatMap_nil, List.getD_cons_zero,
    List.getD_cons_succ, List.filter_cons, List.filter_nil, c01, c12, c10, c21, Bool.true_or,
    if_true, List.map_cons, List.map_nil, List.append_nil]

end
end real

end StructLemmas
