import CoxeterVerif.Lemmas.Codec
import CoxeterVerif.Lemmas.CovarianceScale
import CoxeterVerif.Props.C01
import CoxeterVerif.Props.C02
/-!
  Helper lemmas for C19, part 2: `to_hoomd` as a step of objects that carry their caches
  (`CPObj`, `PHObj` of `Model/Codec.lean`), with the measure models of C01 / C02 as getters.

  * indexing commutes with moving the vertex array (`trisOf_map`, `pick_map`);
  * a surface that bounds a solid (`Closed`: the `ChainEq` certificate of C01 / C02) keeps doing so
    when translated; its signed volume is unchanged and both centroid formulas move with it
    (from the exactness theorems of C01 / C02 and the translation law of the exact integrals);
  * an object whose caches are fresh (`= CPObj.fresh …` / `PHObj.fresh …`) stays fresh under the
    centroid setter, and `centre; …; restore` gives back the very same object (caches included).
-/
namespace C19
open Scalar
set_option maxRecDepth 4000

/-! ### indexing -/

theorem trisOf_map (f : V3 ℝ → V3 ℝ) (vs : List (V3 ℝ)) (simp : List (Nat × Nat × Nat)) :
    trisOf (vs.map f) simp = (trisOf vs simp).map (Tri.map f) := by
  unfold trisOf
  rw [List.map_filterMap]
  congr 1
  funext s
  simp only [List.getElem?_map]
  cases vs[s.1]? <;> cases vs[s.2.1]? <;> cases vs[s.2.2]? <;> simp [Tri.map]

theorem pick_map (f : V3 ℝ → V3 ℝ) (vs : List (V3 ℝ)) (face : List Nat) :
    pick (vs.map f) face = (pick vs face).map f := by
  unfold pick
  rw [List.map_filterMap]
  congr 1
  funext i
  simp only [List.getElem?_map]

/-! ### closed surfaces under translation -/

/-- the triangle list bounds a tetrahedralised solid of positive volume (outward orientation): the
    certificate of C01 (checked per run by `chainCheck` on the object's own simplices) -/
def Closed (S : List (Tri ℝ)) : Prop :=
  ∃ Ts : List (Tet ℝ), ChainEq S (Ts.flatMap Tet.bdry) ∧ 0 < Spec.vol Ts

/-- … of non-zero volume (either orientation): the certificate of C02 -/
def Closed0 (S : List (Tri ℝ)) : Prop :=
  ∃ Ts : List (Tet ℝ), ChainEq S (Ts.flatMap Tet.bdry) ∧ Spec.vol Ts ≠ 0

theorem Closed.closed0 {S : List (Tri ℝ)} (h : Closed S) : Closed0 S := by
  obtain ⟨Ts, h1, h2⟩ := h; exact ⟨Ts, h1, h2.ne'⟩

theorem chain_addS {S : List (Tri ℝ)} {Ts : List (Tet ℝ)} (t : V3 ℝ)
    (h : ChainEq S (Ts.flatMap Tet.bdry)) : ChainEq (addS t S) ((addT t Ts).flatMap Tet.bdry) := by
  have := ChainEq.map (· + t) h
  rwa [← flatMap_bdry_map] at this

theorem Closed.add {S : List (Tri ℝ)} (h : Closed S) (t : V3 ℝ) : Closed (addS t S) := by
  obtain ⟨Ts, h1, h2⟩ := h
  exact ⟨addT t Ts, chain_addS t h1, by rw [Spec.vol_add]; exact h2⟩

theorem Closed0.add {S : List (Tri ℝ)} (h : Closed0 S) (t : V3 ℝ) : Closed0 (addS t S) := by
  obtain ⟨Ts, h1, h2⟩ := h
  exact ⟨addT t Ts, chain_addS t h1, by rw [Spec.vol_add]; exact h2⟩

theorem Closed.volume_add {S : List (Tri ℝ)} (h : Closed S) (t : V3 ℝ) :
    CP.volume (addS t S) = CP.volume S := by
  obtain ⟨Ts, h1, _⟩ := h
  unfold CP.volume
  rw [cp_volume_exact (chain_addS t h1), cp_volume_exact h1, Spec.vol_add]

theorem Closed.centroid_add {S : List (Tri ℝ)} (h : Closed S) (t : V3 ℝ) :
    CP.centroid (addS t S) (CP.volume (addS t S)) = CP.centroid S (CP.volume S) + t := by
  obtain ⟨Ts, h1, h2⟩ := h
  have hpos' : 0 < Spec.vol (addT t Ts) := by rw [Spec.vol_add]; exact h2
  rw [cp_centroid_exact (chain_addS t h1) hpos', cp_centroid_exact h1 h2, Spec.centroid_add Ts t h2.ne']

theorem Closed0.centroid_add {S : List (Tri ℝ)} (h : Closed0 S) (t : V3 ℝ) :
    Poly3.centroid (addS t S) = Poly3.centroid S + t := by
  obtain ⟨Ts, h1, h2⟩ := h
  have hv' : Spec.vol (addT t Ts) ≠ 0 := by rw [Spec.vol_add]; exact h2
  rw [poly_centroid_exact (chain_addS t h1) hv', poly_centroid_exact h1 h2, Spec.centroid_add Ts t h2]

/-! ### vector algebra -/

theorem V3.add_sub_cancel_right' (c v : V3 ℝ) : c + (v - c) = v := by
  apply V3.ext' <;> simp

theorem map_add_eq_addS (t : V3 ℝ) (vs : List (V3 ℝ)) (simp : List (Nat × Nat × Nat)) :
    trisOf (vs.map fun v => v + t) simp = addS t (trisOf vs simp) := trisOf_map _ vs simp

/-! ### the cached-normal form of the inertia sums is the measure model's -/

theorem inertiaCentredN_fresh (S : List (Tri ℝ)) (c : V3 ℝ) :
    inertiaCentredN S (S.map CP.simplexNormal) c = CP.inertiaCentred S c := by
  have : List.zipWith (fun (t : Tri ℝ) (n : V3 ℝ) =>
        (n, CP.triArea (t.map (· - c)) * lit 2, t.map (· - c))) S (S.map CP.simplexNormal)
      = S.map fun t => (CP.simplexNormal t, CP.triArea (t.map (· - c)) * lit 2, t.map (· - c)) := by
    induction S with
    | nil => rfl
    | cons t r ih => simp only [List.map_cons, List.zipWith_cons_cons, ih]
  unfold inertiaCentredN
  rw [this]
  rfl

/-! ### `ConvexPolyhedron` objects -/

/-- the centroid / volume / tensor a fresh object reports, in terms of the measure model of C01 -/
theorem CPObj.fresh_centroid (simp : List (Nat × Nat × Nat)) (f : List (List Nat)) (vs : List (V3 ℝ)) :
    (CPObj.fresh simp f vs).centroid = CP.centroid (trisOf vs simp) (CP.volume (trisOf vs simp)) := rfl

theorem CPObj.fresh_volume (simp : List (Nat × Nat × Nat)) (f : List (List Nat)) (vs : List (V3 ℝ)) :
    (CPObj.fresh simp f vs).volume = CP.volume (trisOf vs simp) := rfl

theorem CPObj.fresh_inertia (simp : List (Nat × Nat × Nat)) (f : List (List Nat)) (vs : List (V3 ℝ)) :
    (CPObj.fresh simp f vs).inertiaTensor =
      CP.inertia (trisOf vs simp) (CP.centroid (trisOf vs simp) (CP.volume (trisOf vs simp)))
        (CP.volume (trisOf vs simp)) := by
  unfold CPObj.inertiaTensor CP.inertia
  show CP.translateInertia _ (inertiaCentredN (trisOf vs simp) ((trisOf vs simp).map CP.simplexNormal) _) _ = _
  rw [inertiaCentredN_fresh]
  rfl

/-- **the centroid setter keeps a fresh object fresh** (every cache it refreshes gets the value a
constructor call on the moved vertices would compute; the `_volume` of before the move that
`_centroid_from_triangulated_surface` divides by is the volume of after the move) -/
theorem CPObj.setCentroid_fresh (simp : List (Nat × Nat × Nat)) (f : List (List Nat)) (vs : List (V3 ℝ))
    (hc : Closed (trisOf vs simp)) (value : V3 ℝ) :
    (CPObj.fresh simp f vs).setCentroid value =
      CPObj.fresh simp f (vs.map fun v => v + (value - (CPObj.fresh simp f vs).centroid)) := by
  unfold CPObj.setCentroid CPObj.fresh
  simp only
  rw [map_add_eq_addS, hc.volume_add]

/-- the centroid a fresh object reports moves with the vertex array -/
theorem CPObj.fresh_centroid_add (simp : List (Nat × Nat × Nat)) (f : List (List Nat)) (vs : List (V3 ℝ))
    (hc : Closed (trisOf vs simp)) (t : V3 ℝ) :
    (CPObj.fresh simp f (vs.map fun v => v + t)).centroid = (CPObj.fresh simp f vs).centroid + t := by
  rw [CPObj.fresh_centroid, CPObj.fresh_centroid, map_add_eq_addS, hc.centroid_add]

/-- after `obj.centroid = value` the object reports `value` -/
theorem CPObj.setCentroid_centroid (simp : List (Nat × Nat × Nat)) (f : List (List Nat)) (vs : List (V3 ℝ))
    (hc : Closed (trisOf vs simp)) (value : V3 ℝ) :
    ((CPObj.fresh simp f vs).setCentroid value).centroid = value := by
  rw [CPObj.setCentroid_fresh simp f vs hc, CPObj.fresh_centroid_add simp f vs hc]
  exact V3.add_sub_cancel_right' _ _

theorem CPObj.closed_moved (simp : List (Nat × Nat × Nat)) (vs : List (V3 ℝ))
    (hc : Closed (trisOf vs simp)) (t : V3 ℝ) : Closed (trisOf (vs.map fun v => v + t) simp) := by
  rw [map_add_eq_addS]; exact hc.add t

/-- closed form of `to_hoomd` on the object (by evaluation) -/
theorem CPObj.toHoomd_eq (o : CPObj ℝ) :
    o.toHoomd =
      let o1 := o.setCentroid V3.zero
      .ok ([("vertices", .mat (rows o1.verts)),
            ("faces", .idx o1.faces),
            ("centroid", .vec (v3list o1.centroid)),
            ("volume", .num o1.volume),
            ("moment_inertia", .mat (m3rows o1.inertiaTensor)),
            ("sweep_radius", .num (lit 0))],
           o1.setCentroid o.centroid) := by
  rfl

theorem CPObj.spheroToHoomd_eq (vol : CPObj ℝ → ℝ → ℝ) (r : ℝ) (o : CPObj ℝ) :
    CPObj.spheroToHoomd vol r o =
      let o1 := o.setCentroid V3.zero
      .ok ([("vertices", .mat (rows o1.verts)),
            ("sweep_radius", .num r),
            ("volume", .num (vol o1 r)),
            ("centroid", .vec [lit 0, lit 0, lit 0])],
           o1.setCentroid o.centroid) := by
  rfl

/-- **centre, then restore = the same object**, caches included -/
theorem CPObj.centre_restore (simp : List (Nat × Nat × Nat)) (f : List (List Nat)) (vs : List (V3 ℝ))
    (hc : Closed (trisOf vs simp)) :
    ((CPObj.fresh simp f vs).setCentroid V3.zero).setCentroid (CPObj.fresh simp f vs).centroid
      = CPObj.fresh simp f vs := by
  rw [CPObj.setCentroid_fresh simp f vs hc,
    CPObj.setCentroid_fresh simp f _ (CPObj.closed_moved simp vs hc _),
    CPObj.fresh_centroid_add simp f vs hc]
  congr 1
  rw [List.map_map]
  conv_rhs => rw [← List.map_id vs]
  apply List.map_congr_left
  intro v _
  simp only [Function.comp]
  apply V3.ext' <;> simp

/-- the centred object IS the fresh object on `vertices − centroid`, reporting centroid 0 -/
theorem CPObj.centre_fresh (simp : List (Nat × Nat × Nat)) (f : List (List Nat)) (vs : List (V3 ℝ))
    (hc : Closed (trisOf vs simp)) :
    (CPObj.fresh simp f vs).setCentroid V3.zero =
      CPObj.fresh simp f (Spec.centred vs (CPObj.fresh simp f vs).centroid) := by
  rw [CPObj.setCentroid_fresh simp f vs hc, map_shift_zero]

/-! ### general `Polyhedron` objects -/

theorem PHObj.setCentroid_fresh (faces : List (List Nat)) (tri : List (Nat × Nat × Nat)) (vs : List (V3 ℝ))
    (value : V3 ℝ) :
    (PHObj.fresh faces tri vs).setCentroid value =
      PHObj.fresh faces tri (vs.map fun v => v + (value - (PHObj.fresh faces tri vs).centroid)) := rfl

theorem PHObj.fresh_centroid_add (faces : List (List Nat)) (tri : List (Nat × Nat × Nat)) (vs : List (V3 ℝ))
    (hc : Closed0 (trisOf vs tri)) (t : V3 ℝ) :
    (PHObj.fresh faces tri (vs.map fun v => v + t)).centroid = (PHObj.fresh faces tri vs).centroid + t := by
  show Poly3.centroid (trisOf (vs.map fun v => v + t) tri) = Poly3.centroid (trisOf vs tri) + t
  rw [map_add_eq_addS, hc.centroid_add]

theorem PHObj.setCentroid_centroid (faces : List (List Nat)) (tri : List (Nat × Nat × Nat)) (vs : List (V3 ℝ))
    (hc : Closed0 (trisOf vs tri)) (value : V3 ℝ) :
    ((PHObj.fresh faces tri vs).setCentroid value).centroid = value := by
  rw [PHObj.setCentroid_fresh, PHObj.fresh_centroid_add faces tri vs hc]
  exact V3.add_sub_cancel_right' _ _

theorem PHObj.closed_moved (tri : List (Nat × Nat × Nat)) (vs : List (V3 ℝ))
    (hc : Closed0 (trisOf vs tri)) (t : V3 ℝ) : Closed0 (trisOf (vs.map fun v => v + t) tri) := by
  rw [map_add_eq_addS]; exact hc.add t

theorem PHObj.toHoomd_eq (o : PHObj ℝ) :
    o.toHoomd =
      let o1 := o.setCentroid V3.zero
      .ok ([("vertices", .mat (rows o1.verts)),
            ("faces", .idx o1.faces),
            ("centroid", .vec (v3list o1.centroid)),
            ("volume", .num o1.volume),
            ("moment_inertia", .mat (m3rows o1.inertiaTensor)),
            ("sweep_radius", .num (lit 0))],
           o1.setCentroid o.centroid) := by
  rfl

theorem PHObj.centre_restore (faces : List (List Nat)) (tri : List (Nat × Nat × Nat)) (vs : List (V3 ℝ))
    (hc : Closed0 (trisOf vs tri)) :
    ((PHObj.fresh faces tri vs).setCentroid V3.zero).setCentroid (PHObj.fresh faces tri vs).centroid
      = PHObj.fresh faces tri vs := by
  rw [PHObj.setCentroid_fresh, PHObj.setCentroid_fresh, PHObj.fresh_centroid_add faces tri vs hc]
  congr 1
  rw [List.map_map]
  conv_rhs => rw [← List.map_id vs]
  apply List.map_congr_left
  intro v _
  simp only [Function.comp]
  apply V3.ext' <;> simp

theorem PHObj.centre_fresh (faces : List (List Nat)) (tri : List (Nat × Nat × Nat)) (vs : List (V3 ℝ)) :
    (PHObj.fresh faces tri vs).setCentroid V3.zero =
      PHObj.fresh faces tri (Spec.centred vs (PHObj.fresh faces tri vs).centroid) := by
  rw [PHObj.setCentroid_fresh, map_shift_zero]

end C19
