import CoxeterVerif.Lemmas.Inside3DTet
/-!
  C05, the single-tetrahedron winding lemma — part 2: from ANY position to generic position.

  The lexicographic tie-breaking of `Polyhedron.is_inside` (`sign_or` on the vertex differences and
  on the three components of the edge cross products) is a symbolic perturbation.  We make it an
  actual one: for the shear
      `A_ε (x, y, z) = (x + ε y + ε²/2 z,  y + ε z,  z)`      (`det A_ε = 1`)
  and every sufficiently small `ε > 0`
    * `sign_or(sgn x, sgn y, sgn z) = sgn (A_ε d).x`                              (vertex classes),
    * `sign_or(sgn t₀, sgn t₁, sgn t₂) = −sgn c2(A_ε u, A_ε v)` for `t = compute_cross(u, v)`  (edge classes),
    * `det(A_ε u, A_ε v, A_ε w) = det(u, v, w)`                                   (triangle signs),
  so the per-triangle term of the code at `(d₀, d₁, d₂)` IS the per-triangle term at the sheared
  vectors, which are in generic position.  Hence `tet_generic` holds for every tetrahedron and
  every query point off its four face planes (`tet_any`).
-/
open Scalar
set_option maxRecDepth 4000
noncomputable section

namespace Inside3D
open Spec.In3D

/-- the lexicographic sign `sign_or(np.sign x, np.sign y, np.sign z)` -/
def lexSign (x y z : ℝ) : Int := Poly.signOr (sgn x) (sgn y) (sgn z)

theorem vertexSign_eq_lex (d : V3 ℝ) : Poly.vertexSign d = lexSign d.x d.y d.z := rfl
theorem edgeSign_eq_lex (t : ℝ × ℝ × ℝ) : Poly.edgeSign t = lexSign t.1 t.2.1 t.2.2 := rfl

/-- `ε` realises the lexicographic sign of `(x, y, z)` -/
def LexOK (ε x y z : ℝ) : Prop := sgn (x + ε * y + ε * ε / 2 * z) = lexSign x y z

/-- lexicographically positive -/
def LexPos (x y z : ℝ) : Prop := 0 < x ∨ (x = 0 ∧ 0 < y) ∨ (x = 0 ∧ y = 0 ∧ 0 < z)

theorem lexSign_of_pos {x y z : ℝ} (h : LexPos x y z) : lexSign x y z = 1 := by
  unfold lexSign Poly.signOr
  rcases h with h | ⟨h1, h2⟩ | ⟨h1, h2, h3⟩
  · rw [sgn_pos' h]; rfl
  · rw [h1, sgn_zero', sgn_pos' h2]; rfl
  · rw [h1, h2, sgn_zero', sgn_pos' h3]; rfl

theorem lexSign_neg (x y z : ℝ) : lexSign (-x) (-y) (-z) = -lexSign x y z := by
  unfold lexSign; rw [sgn_neg, sgn_neg, sgn_neg, signOr_neg]

theorem lex_trichotomy (x y z : ℝ) : LexPos x y z ∨ LexPos (-x) (-y) (-z) ∨ (x = 0 ∧ y = 0 ∧ z = 0) := by
  unfold LexPos
  rcases lt_trichotomy x 0 with hx | hx | hx
  · right; left; left; linarith
  · rcases lt_trichotomy y 0 with hy | hy | hy
    · right; left; right; left; exact ⟨by linarith, by linarith⟩
    · rcases lt_trichotomy z 0 with hz | hz | hz
      · right; left; right; right; exact ⟨by linarith, by linarith, by linarith⟩
      · right; right; exact ⟨hx, hy, hz⟩
      · left; right; right; exact ⟨hx, hy, hz⟩
    · left; right; left; exact ⟨hx, hy⟩
  · left; left; exact hx

/-- a positive number stays positive under a small bounded perturbation -/
theorem pos_small (a B : ℝ) (ha : 0 < a) (hB : 0 ≤ B) :
    ∃ ε0 : ℝ, 0 < ε0 ∧ ε0 ≤ 1 ∧ ∀ ε, 0 < ε → ε ≤ ε0 → ∀ t, |t| ≤ B → 0 < a + ε * t := by
  have hB1 : 0 < B + 1 := by linarith
  refine ⟨Min.min 1 (a / (B + 1)), lt_min one_pos (div_pos ha hB1), min_le_left _ _, ?_⟩
  intro ε hε hle t ht
  have h1 : ε ≤ a / (B + 1) := hle.trans (min_le_right _ _)
  have h2 : ε * (B + 1) ≤ a := (le_div_iff₀ hB1).mp h1
  have h3 : -B ≤ t := by have := neg_abs_le t; linarith
  have h4 : ε * (-B) ≤ ε * t := mul_le_mul_of_nonneg_left h3 hε.le
  nlinarith

theorem lexPos_eps {x y z : ℝ} (h : LexPos x y z) :
    ∃ ε0 : ℝ, 0 < ε0 ∧ ∀ ε, 0 < ε → ε ≤ ε0 → 0 < x + ε * y + ε * ε / 2 * z := by
  rcases h with h | ⟨h1, h2⟩ | ⟨h1, h2, h3⟩
  · obtain ⟨ε0, h0, hle1, hk⟩ := pos_small x (|y| + |z|) h (by positivity)
    refine ⟨ε0, h0, ?_⟩
    intro ε hε hle
    have hε1 : ε ≤ 1 := hle.trans hle1
    have hb : |y + ε / 2 * z| ≤ |y| + |z| := by
      refine (abs_add_le _ _).trans ?_
      rw [abs_mul, abs_of_pos (by linarith : 0 < ε / 2)]
      have : ε / 2 * |z| ≤ 1 * |z| := mul_le_mul_of_nonneg_right (by linarith) (abs_nonneg z)
      linarith
    have := hk ε hε hle _ hb
    have e : x + ε * y + ε * ε / 2 * z = x + ε * (y + ε / 2 * z) := by ring
    rw [e]; exact this
  · obtain ⟨ε0, h0, _, hk⟩ := pos_small y |z| h2 (abs_nonneg z)
    refine ⟨ε0, h0, ?_⟩
    intro ε hε hle
    have hb : |z / 2| ≤ |z| := by
      rw [abs_div, abs_of_pos (by norm_num : (0:ℝ) < 2)]; linarith [abs_nonneg z]
    have := hk ε hε hle _ hb
    have e : x + ε * y + ε * ε / 2 * z = ε * (y + ε * (z / 2)) := by rw [h1]; ring
    rw [e]; exact mul_pos hε this
  · refine ⟨1, one_pos, ?_⟩
    intro ε hε _
    rw [h1, h2]
    have : 0 < ε * ε / 2 * z := mul_pos (by positivity) h3
    linarith

/-- every sufficiently small `ε` realises the lexicographic sign of one triple -/
theorem lex_eps1 (x y z : ℝ) : ∃ ε0 : ℝ, 0 < ε0 ∧ ∀ ε, 0 < ε → ε ≤ ε0 → LexOK ε x y z := by
  unfold LexOK
  rcases lex_trichotomy x y z with h | h | ⟨h1, h2, h3⟩
  · obtain ⟨ε0, h0, hk⟩ := lexPos_eps h
    exact ⟨ε0, h0, fun ε hε hle => by rw [lexSign_of_pos h, sgn_pos' (hk ε hε hle)]⟩
  · obtain ⟨ε0, h0, hk⟩ := lexPos_eps h
    refine ⟨ε0, h0, fun ε hε hle => ?_⟩
    have hl : lexSign x y z = -1 := by
      have := lexSign_neg x y z; rw [lexSign_of_pos h] at this; omega
    have hneg : x + ε * y + ε * ε / 2 * z < 0 := by have := hk ε hε hle; linarith
    rw [hl, sgn_neg' hneg]
  · refine ⟨1, one_pos, fun ε _ _ => ?_⟩
    rw [h1, h2, h3]; simp [lexSign, Poly.signOr, sgn_zero']

/-- … and of finitely many triples at once -/
theorem lex_eps : ∀ l : List (ℝ × ℝ × ℝ),
    ∃ ε0 : ℝ, 0 < ε0 ∧ ∀ ε, 0 < ε → ε ≤ ε0 → ∀ t ∈ l, LexOK ε t.1 t.2.1 t.2.2
  | [] => ⟨1, one_pos, fun _ _ _ t ht => by simp at ht⟩
  | t :: l => by
    obtain ⟨e1, p1, k1⟩ := lex_eps1 t.1 t.2.1 t.2.2
    obtain ⟨e2, p2, k2⟩ := lex_eps l
    refine ⟨Min.min e1 e2, lt_min p1 p2, ?_⟩
    intro ε hε hle s hs
    rcases List.mem_cons.mp hs with rfl | hs
    · exact k1 ε hε (hle.trans (min_le_left _ _))
    · exact k2 ε hε (hle.trans (min_le_right _ _)) s hs

theorem lexSign_ne_zero {x y z : ℝ} (h : ¬ (x = 0 ∧ y = 0 ∧ z = 0)) : lexSign x y z ≠ 0 := by
  rcases lex_trichotomy x y z with h' | h' | h'
  · rw [lexSign_of_pos h']; decide
  · have := lexSign_neg x y z; rw [lexSign_of_pos h'] at this; omega
  · exact absurd h' h

theorem ne_zero_of_sgn_ne_zero {x : ℝ} (h : sgn x ≠ 0) : x ≠ 0 := by
  rintro rfl; exact h sgn_zero'

/-! ### the shear -/

/-- `A_ε` -/
def shear (ε : ℝ) (d : V3 ℝ) : V3 ℝ := ⟨d.x + ε * d.y + ε * ε / 2 * d.z, d.y + ε * d.z, d.z⟩

theorem det3_shear (ε : ℝ) (u v w : V3 ℝ) :
    V3.det3 (shear ε u) (shear ε v) (shear ε w) = V3.det3 u v w := by
  unfold V3.det3 V3.dot V3.cross shear; simp only; ring

theorem c2_shear (ε : ℝ) (u v : V3 ℝ) : c2 (shear ε u) (shear ε v) =
    -((Poly.computeCross u v).1 + ε * (Poly.computeCross u v).2.1 +
      ε * ε / 2 * (Poly.computeCross u v).2.2) := by
  unfold c2 shear Poly.computeCross; simp only; ring

/-- `ε` is good for the vertex difference `d` -/
def VOK (ε : ℝ) (d : V3 ℝ) : Prop := LexOK ε d.x d.y d.z
/-- `ε` is good for the (ordered) edge `u → v` -/
def EOK (ε : ℝ) (u v : V3 ℝ) : Prop :=
  LexOK ε (Poly.computeCross u v).1 (Poly.computeCross u v).2.1 (Poly.computeCross u v).2.2

theorem det3_eq_cc (u v w : V3 ℝ) : V3.det3 u v w =
    -(w.x * (Poly.computeCross u v).2.2) + w.y * (Poly.computeCross u v).2.1
      - w.z * (Poly.computeCross u v).1 := by
  unfold V3.det3 V3.dot V3.cross Poly.computeCross; simp only; ring

theorem det3_cyc (u v w : V3 ℝ) : V3.det3 v w u = V3.det3 u v w := by
  unfold V3.det3 V3.dot V3.cross; ring

theorem cc_ne_of_det {u v w : V3 ℝ} (h : V3.det3 u v w ≠ 0) :
    ¬ ((Poly.computeCross u v).1 = 0 ∧ (Poly.computeCross u v).2.1 = 0 ∧ (Poly.computeCross u v).2.2 = 0) := by
  rintro ⟨h1, h2, h3⟩
  apply h; rw [det3_eq_cc, h1, h2, h3]; ring

theorem vec_ne_of_det {u v w : V3 ℝ} (h : V3.det3 u v w ≠ 0) : ¬ (u.x = 0 ∧ u.y = 0 ∧ u.z = 0) := by
  rintro ⟨h1, h2, h3⟩
  apply h; unfold V3.det3 V3.dot; rw [h1, h2, h3]; ring

theorem shear_x_ne {ε : ℝ} {d : V3 ℝ} (hv : VOK ε d) (hd : ¬ (d.x = 0 ∧ d.y = 0 ∧ d.z = 0)) :
    (shear ε d).x ≠ 0 := by
  apply ne_zero_of_sgn_ne_zero
  unfold VOK LexOK at hv
  simp only [shear]; rw [hv]; exact lexSign_ne_zero hd

theorem shear_c2_ne {ε : ℝ} {u v : V3 ℝ} (he : EOK ε u v)
    (hc : ¬ ((Poly.computeCross u v).1 = 0 ∧ (Poly.computeCross u v).2.1 = 0 ∧ (Poly.computeCross u v).2.2 = 0)) :
    c2 (shear ε u) (shear ε v) ≠ 0 := by
  rw [c2_shear]; apply neg_ne_zero.mpr
  apply ne_zero_of_sgn_ne_zero
  unfold EOK LexOK at he
  rw [he]; exact lexSign_ne_zero hc

theorem vertexSign_shear {ε : ℝ} {d : V3 ℝ} (hv : VOK ε d) (hd : ¬ (d.x = 0 ∧ d.y = 0 ∧ d.z = 0)) :
    Poly.vertexSign (shear ε d) = Poly.vertexSign d := by
  rw [vertexSign_generic _ (shear_x_ne hv hd), vertexSign_eq_lex]
  exact hv

theorem edgeSign_shear {ε : ℝ} {u v : V3 ℝ} (he : EOK ε u v)
    (hc : ¬ ((Poly.computeCross u v).1 = 0 ∧ (Poly.computeCross u v).2.1 = 0 ∧ (Poly.computeCross u v).2.2 = 0)) :
    Poly.edgeSign (Poly.computeCross (shear ε u) (shear ε v)) = Poly.edgeSign (Poly.computeCross u v) := by
  rw [edgeSign_generic _ _ (shear_c2_ne he hc), c2_shear, sgn_neg, neg_neg, edgeSign_eq_lex]
  exact he

theorem triSign_eq_det (d0 d1 d2 : V3 ℝ) :
    -(Poly.computeCross d0 d1).1 * d2.z - (Poly.computeCross d1 d2).1 * d0.z
      - (Poly.computeCross d2 d0).1 * d1.z = V3.det3 d0 d1 d2 := by
  unfold Poly.computeCross V3.det3 V3.dot V3.cross; simp only; ring

/-- **the code's symbolic perturbation is the shear**: for a good `ε` and a triangle not coplanar
with the query point, the per-triangle term is unchanged by `A_ε` -/
theorem contribD_shear {ε : ℝ} {d0 d1 d2 : V3 ℝ} (hdet : V3.det3 d0 d1 d2 ≠ 0)
    (v0 : VOK ε d0) (v1 : VOK ε d1) (v2 : VOK ε d2)
    (e01 : EOK ε d0 d1) (e12 : EOK ε d1 d2) (e20 : EOK ε d2 d0) :
    contribD (shear ε d0) (shear ε d1) (shear ε d2) = contribD d0 d1 d2 := by
  have hdet1 : V3.det3 d1 d2 d0 ≠ 0 := by rw [det3_cyc]; exact hdet
  have hdet2 : V3.det3 d2 d0 d1 ≠ 0 := by rw [det3_cyc]; exact hdet1
  unfold contribD
  simp only
  rw [triSign_eq_det, triSign_eq_det, det3_shear,
    vertexSign_shear v0 (vec_ne_of_det hdet), vertexSign_shear v1 (vec_ne_of_det hdet1),
    vertexSign_shear v2 (vec_ne_of_det hdet2),
    edgeSign_shear e01 (cc_ne_of_det hdet), edgeSign_shear e12 (cc_ne_of_det hdet1),
    edgeSign_shear e20 (cc_ne_of_det hdet2)]

/-! ### the tetrahedron in any position -/

/-- **Single-tetrahedron lemma** (query point at the origin, ANY coordinates — ties in `x`, `y`,
edges whose projections pass through the query point, … are all allowed).  If the origin lies on
none of the four face planes, the four per-triangle terms of `Tet.bdry` add up to `2` when all
four face determinants are positive, `−2` when all are negative, `0` otherwise. -/
theorem tet_any (a b c d : V3 ℝ)
    (h0 : V3.det3 b c d ≠ 0) (h1 : V3.det3 a d c ≠ 0) (h2 : V3.det3 a b d ≠ 0) (h3 : V3.det3 a c b ≠ 0) :
    contribD a c b + contribD a b d + contribD b c d + contribD a d c =
      2 * (if sgn (V3.det3 b c d) = 1 ∧ sgn (V3.det3 a d c) = 1 ∧ sgn (V3.det3 a b d) = 1 ∧
            sgn (V3.det3 a c b) = 1 then 1 else 0)
      - 2 * (if sgn (V3.det3 b c d) = -1 ∧ sgn (V3.det3 a d c) = -1 ∧ sgn (V3.det3 a b d) = -1 ∧
            sgn (V3.det3 a c b) = -1 then 1 else 0) := by
  let tv (u : V3 ℝ) : ℝ × ℝ × ℝ := (u.x, u.y, u.z)
  obtain ⟨ε, hε, hk⟩ := lex_eps [tv a, tv b, tv c, tv d,
    Poly.computeCross a c, Poly.computeCross c b, Poly.computeCross b a,
    Poly.computeCross a b, Poly.computeCross b d, Poly.computeCross d a,
    Poly.computeCross b c, Poly.computeCross c d, Poly.computeCross d b,
    Poly.computeCross a d, Poly.computeCross d c, Poly.computeCross c a]
  have hk' := hk ε hε le_rfl
  have va : VOK ε a := hk' (tv a) (by simp)
  have vb : VOK ε b := hk' (tv b) (by simp)
  have vc : VOK ε c := hk' (tv c) (by simp)
  have vd : VOK ε d := hk' (tv d) (by simp)
  have eac : EOK ε a c := hk' (Poly.computeCross a c) (by simp)
  have ecb : EOK ε c b := hk' (Poly.computeCross c b) (by simp)
  have eba : EOK ε b a := hk' (Poly.computeCross b a) (by simp)
  have eab : EOK ε a b := hk' (Poly.computeCross a b) (by simp)
  have ebd : EOK ε b d := hk' (Poly.computeCross b d) (by simp)
  have eda : EOK ε d a := hk' (Poly.computeCross d a) (by simp)
  have ebc : EOK ε b c := hk' (Poly.computeCross b c) (by simp)
  have ecd : EOK ε c d := hk' (Poly.computeCross c d) (by simp)
  have edb : EOK ε d b := hk' (Poly.computeCross d b) (by simp)
  have ead : EOK ε a d := hk' (Poly.computeCross a d) (by simp)
  have edc : EOK ε d c := hk' (Poly.computeCross d c) (by simp)
  have eca : EOK ε c a := hk' (Poly.computeCross c a) (by simp)
  rw [← contribD_shear h3 va vc vb eac ecb eba, ← contribD_shear h2 va vb vd eab ebd eda,
    ← contribD_shear h0 vb vc vd ebc ecd edb, ← contribD_shear h1 va vd vc ead edc eca,
    ← det3_shear ε b c d, ← det3_shear ε a d c, ← det3_shear ε a b d, ← det3_shear ε a c b]
  have h0' : V3.det3 (shear ε b) (shear ε c) (shear ε d) ≠ 0 := by rw [det3_shear]; exact h0
  have h1' : V3.det3 (shear ε a) (shear ε d) (shear ε c) ≠ 0 := by rw [det3_shear]; exact h1
  have h2' : V3.det3 (shear ε a) (shear ε b) (shear ε d) ≠ 0 := by rw [det3_shear]; exact h2
  have h3' : V3.det3 (shear ε a) (shear ε c) (shear ε b) ≠ 0 := by rw [det3_shear]; exact h3
  exact tet_generic (shear ε a) (shear ε b) (shear ε c) (shear ε d)
    (shear_x_ne va (vec_ne_of_det h3)) (shear_x_ne vb (vec_ne_of_det h0))
    (shear_x_ne vc (vec_ne_of_det (by rw [det3_cyc]; exact h0))) (shear_x_ne vd (vec_ne_of_det (by rw [det3_cyc, det3_cyc]; exact h0)))
    (shear_c2_ne eab (cc_ne_of_det h2)) (shear_c2_ne eac (cc_ne_of_det h3)) (shear_c2_ne ead (cc_ne_of_det h1))
    (shear_c2_ne ebc (cc_ne_of_det h0)) (shear_c2_ne ebd (cc_ne_of_det (by rw [det3_cyc]; exact h2)))
    (shear_c2_ne ecd (cc_ne_of_det (by rw [det3_cyc]; exact h0)))
    h0' h1' h2' h3'

end Inside3D
end
