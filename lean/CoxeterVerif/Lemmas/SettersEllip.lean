import CoxeterVerif.Lemmas.Setters
/-!
  C08 — `Ellipse` and `Ellipsoid`: homogeneity of the measure getters (with the `scipy.special`
  elliptic integrals as arbitrary functions: their arguments are scale invariant), `_rescale` is
  atomic, every size setter reads back with both/all semi-axes scaled by one positive factor, a
  semi-axis setter changes that semi-axis only, bad targets are refused, eccentricity and the
  isoperimetric quotient are preserved.
-/
open Scalar Mut Setters
set_option maxRecDepth 4000
noncomputable section

namespace Setters

theorem sqr_ratio_scale {k : ℝ} (hk : 0 < k) (x y : ℝ) : sqr (k * x) / sqr (k * y) = sqr x / sqr y := by
  unfold Scalar.sqr
  rw [show k * x * (k * x) = (k * k) * (x * x) by ring, show k * y * (k * y) = (k * k) * (y * y) by ring,
    mul_div_mul_left _ _ (by positivity : k * k ≠ 0)]

/-! ### Ellipse -/
namespace EllipseS

theorem setA_ok (s : EllipseS ℝ) {v : ℝ} (hv : 0 < v) : s.setA v = .ok { s with a := v } := by
  unfold EllipseS.setA; rw [if_pos (lit0_lt.mpr hv)]; rfl
theorem setB_ok (s : EllipseS ℝ) {v : ℝ} (hv : 0 < v) : s.setB v = .ok { s with b := v } := by
  unfold EllipseS.setB; rw [if_pos (lit0_lt.mpr hv)]; rfl
theorem setA_bad (s : EllipseS ℝ) {v : ℝ} (hv : ¬ 0 < v) : s.setA v = .error "ValueError" := by
  unfold EllipseS.setA; rw [if_neg (fun h => hv (lit0_lt.mp h))]; rfl
theorem setB_bad (s : EllipseS ℝ) {v : ℝ} (hv : ¬ 0 < v) : s.setB v = .error "ValueError" := by
  unfold EllipseS.setB; rw [if_neg (fun h => hv (lit0_lt.mp h))]; rfl

theorem rescale_ok (s : EllipseS ℝ) (ha : 0 < s.a) (hb : 0 < s.b) {k : ℝ} (hk : 0 < k) :
    s.rescale k = .ok ⟨s.a * k, s.b * k, s.cen⟩ := by
  unfold EllipseS.rescale
  rw [setA_ok s (mul_pos ha hk)]
  show EllipseS.setB { s with a := s.a * k } (s.b * k) = _
  rw [setB_ok _ (mul_pos hb hk)]

/-- **`_rescale` is atomic**: when it raises, it raises at its first assignment (nothing has been
modified yet) — the two guarded assignments cannot disagree on a valid ellipse -/
theorem rescale_atomic (s : EllipseS ℝ) (ha : 0 < s.a) (hb : 0 < s.b) (k : ℝ) :
    (∃ s', s.rescale k = .ok s') ∨ s.setA (s.a * k) = .error "ValueError" := by
  by_cases hk : 0 < k
  · exact Or.inl ⟨_, rescale_ok s ha hb hk⟩
  · right
    apply setA_bad
    intro h
    have hk' : k ≤ 0 := not_lt.mp hk
    nlinarith [mul_nonneg ha.le (neg_nonneg.mpr hk')]

theorem area_scale (a b k : ℝ) : Curved.Ellipse.area (a * k) (b * k) = Curved.Ellipse.area a b * k ^ 2 := by
  unfold Curved.Ellipse.area; ring

theorem eccentricity_scale {k : ℝ} (hk : 0 < k) (a b : ℝ) :
    Curved.Ellipse.eccentricity (a * k) (b * k) = Curved.Ellipse.eccentricity a b := by
  unfold Curved.Ellipse.eccentricity
  rw [mul_comm a k, mul_comm b k, Curved.sort2_scale hk.le]
  simp only [sqr_ratio_scale hk]

theorem perimeter_scale (ellipe : ℝ → ℝ) {k : ℝ} (hk : 0 < k) (a b : ℝ) :
    Curved.Ellipse.perimeter ellipe (a * k) (b * k) = Curved.Ellipse.perimeter ellipe a b * k := by
  unfold Curved.Ellipse.perimeter Curved.Ellipse.ellipeArg
  rw [eccentricity_scale hk, mul_comm a k, mul_comm b k, Curved.sort2_scale hk.le]
  ring

/-- **the dimensionless descriptors of an ellipse are unchanged by a uniform scaling** -/
theorem dimensionless (ellipe : ℝ → ℝ) {k : ℝ} (hk : 0 < k) (a b : ℝ) :
    Curved.Ellipse.eccentricity (a * k) (b * k) = Curved.Ellipse.eccentricity a b ∧
    Curved.Ellipse.iq ellipe (a * k) (b * k) = Curved.Ellipse.iq ellipe a b := by
  refine ⟨eccentricity_scale hk a b, ?_⟩
  unfold Curved.Ellipse.iq Curved.iq2
  rw [area_scale, perimeter_scale ellipe hk]
  congr 1
  unfold Scalar.sqr
  have hk' : k ≠ 0 := hk.ne'
  by_cases hP : Curved.Ellipse.perimeter ellipe a b = 0
  · rw [hP]; simp
  · field_simp

/-- the radius the four ball getters return -/
def ballVal (bp : BallProp) (a b : ℝ) : ℝ :=
  match bp with
  | .minBounding | .minCentered => Max.max a b
  | .maxBounded | .maxCentered => Min.min a b

theorem ballVal_pos (bp : BallProp) {a b : ℝ} (ha : 0 < a) (hb : 0 < b) : 0 < ballVal bp a b := by
  cases bp <;> simp only [ballVal] <;> first | exact lt_max_of_lt_left ha | exact lt_min ha hb

theorem ballVal_scale (bp : BallProp) {k : ℝ} (hk : 0 ≤ k) (a b : ℝ) :
    ballVal bp (a * k) (b * k) = ballVal bp a b * k := by
  cases bp <;> simp only [ballVal] <;> first | exact (max_mul_of_nonneg a b hk).symm | exact (min_mul_of_nonneg a b hk).symm

theorem ballRadius_eq (bp : BallProp) (s : EllipseS ℝ) (ha : 0 < s.a) (hb : 0 < s.b) :
    ballRadius bp s = .ok (ballVal bp s.a s.b) := by
  have h := ballVal_pos bp ha hb
  cases bp <;> simp only [ballRadius, ballVal, Scalar.max_real, Scalar.min_real] at h ⊢ <;>
    rw [CircleS.mk'_ok h] <;> rfl

/-- **every size setter of `Ellipse` reads back and scales both semi-axes by one positive
factor, the centre untouched** (area: `√(v/πab)`; perimeter / circumference: `v / 4a'E(e²)` with
`ellipe` an arbitrary function; the four ball radii: `v / max(a,b)` resp. `v / min(a,b)`) -/
theorem set_size_reads_back (ellipe : ℝ → ℝ) (p : EllipseProp) (hp : p.isShapeParam = false)
    (s : EllipseS ℝ) (ha : 0 < s.a) (hb : 0 < s.b)
    (hP : 0 < Curved.Ellipse.perimeter ellipe s.a s.b) {v : ℝ} (hv : 0 < v) :
    ∃ k s', 0 < k ∧ set ellipe p s v = .ok s' ∧ get ellipe p s' = .ok v ∧
      s'.a = s.a * k ∧ s'.b = s.b * k ∧ s'.cen = s.cen := by
  have hpi := Real.pi_pos
  cases p with
  | a => cases hp
  | b => cases hp
  | area =>
    have hA : 0 < Curved.Ellipse.area s.a s.b := by
      unfold Curved.Ellipse.area; rw [Scalar.pi_real]; positivity
    have hq : 0 < v / Curved.Ellipse.area s.a s.b := div_pos hv hA
    have hk : 0 < Real.sqrt (v / Curved.Ellipse.area s.a s.b) := Real.sqrt_pos.mpr hq
    refine ⟨_, ⟨s.a * _, s.b * _, s.cen⟩, hk, ?_, ?_, rfl, rfl, rfl⟩
    · show (if (lit 0 : ℝ) < v then s.rescale (Scalar.sqrt (v / Curved.Ellipse.area s.a s.b)) else _) = _
      rw [if_pos (lit0_lt.mpr hv)]; exact rescale_ok s ha hb hk
    · show Except.ok (Curved.Ellipse.area (s.a * _) (s.b * _)) = Except.ok v
      rw [area_scale, pow_two, Real.mul_self_sqrt hq.le]; congr 1; field_simp
  | perimeter =>
    have hk : 0 < v / Curved.Ellipse.perimeter ellipe s.a s.b := div_pos hv hP
    refine ⟨_, ⟨s.a * _, s.b * _, s.cen⟩, hk, ?_, ?_, rfl, rfl, rfl⟩
    · show (if (lit 0 : ℝ) < v then s.rescale (v / Curved.Ellipse.perimeter ellipe s.a s.b) else _) = _
      rw [if_pos (lit0_lt.mpr hv)]; exact rescale_ok s ha hb hk
    · show Except.ok (Curved.Ellipse.perimeter ellipe (s.a * _) (s.b * _)) = Except.ok v
      rw [perimeter_scale ellipe hk]; congr 1; field_simp
  | circumference =>
    have hk : 0 < v / Curved.Ellipse.perimeter ellipe s.a s.b := div_pos hv hP
    refine ⟨_, ⟨s.a * _, s.b * _, s.cen⟩, hk, ?_, ?_, rfl, rfl, rfl⟩
    · show (if (lit 0 : ℝ) < v then s.rescale (v / Curved.Ellipse.perimeter ellipe s.a s.b) else _) = _
      rw [if_pos (lit0_lt.mpr hv)]; exact rescale_ok s ha hb hk
    · show Except.ok (Curved.Ellipse.perimeter ellipe (s.a * _) (s.b * _)) = Except.ok v
      rw [perimeter_scale ellipe hk]; congr 1; field_simp
  | ball bp =>
    have hB := ballVal_pos bp ha hb
    have hk : 0 < v / ballVal bp s.a s.b := div_pos hv hB
    refine ⟨_, ⟨s.a * (v / ballVal bp s.a s.b), s.b * (v / ballVal bp s.a s.b), s.cen⟩, hk, ?_, ?_, rfl, rfl, rfl⟩
    · show (do guardPos v; let cur ← ballRadius bp s; s.rescale (v / cur)) = _
      rw [guardPos_ok hv, ballRadius_eq bp s ha hb]
      exact rescale_ok s ha hb hk
    · show ballRadius bp ⟨s.a * _, s.b * _, s.cen⟩ = Except.ok v
      rw [ballRadius_eq bp _ (mul_pos ha hk) (mul_pos hb hk)]
      show Except.ok (ballVal bp (s.a * _) (s.b * _)) = _
      rw [ballVal_scale bp hk.le]; congr 1; field_simp

/-- **a semi-axis setter reads back and changes that semi-axis only** (a shape parameter: no
uniform scaling can realise it) -/
theorem set_shape_reads_back (ellipe : ℝ → ℝ) (s : EllipseS ℝ) {v : ℝ} (hv : 0 < v) :
    (∃ s', set ellipe .a s v = .ok s' ∧ get ellipe .a s' = .ok v ∧ s'.b = s.b ∧ s'.cen = s.cen) ∧
    (∃ s', set ellipe .b s v = .ok s' ∧ get ellipe .b s' = .ok v ∧ s'.a = s.a ∧ s'.cen = s.cen) :=
  ⟨⟨_, setA_ok s hv, rfl, rfl, rfl⟩, ⟨_, setB_ok s hv, rfl, rfl, rfl⟩⟩

/-- **bad targets are refused by every scalar setter of `Ellipse`** (semi-axes included) -/
theorem bad_target_refused (ellipe : ℝ → ℝ) (p : EllipseProp) (s : EllipseS ℝ) {v : ℝ} (hv : ¬ 0 < v) :
    set ellipe p s v = .error "ValueError" := by
  have h0 : ¬ (lit 0 : ℝ) < v := fun h => hv (lit0_lt.mp h)
  cases p with
  | a => exact setA_bad s hv
  | b => exact setB_bad s hv
  | area => show (if (lit 0 : ℝ) < v then _ else _) = _; rw [if_neg h0]; rfl
  | perimeter => show (if (lit 0 : ℝ) < v then _ else _) = _; rw [if_neg h0]; rfl
  | circumference => show (if (lit 0 : ℝ) < v then _ else _) = _; rw [if_neg h0]; rfl
  | ball bp =>
    show (do guardPos v; let cur ← ballRadius bp s; s.rescale (v / cur)) = _
    rw [guardPos_bad hv]; rfl

end EllipseS

/-! ### Ellipsoid -/
namespace EllipsoidS

theorem setA_ok (s : EllipsoidS ℝ) {v : ℝ} (hv : 0 < v) : s.setA v = .ok { s with a := v } := by
  unfold EllipsoidS.setA; rw [if_pos (lit0_lt.mpr hv)]; rfl
theorem setB_ok (s : EllipsoidS ℝ) {v : ℝ} (hv : 0 < v) : s.setB v = .ok { s with b := v } := by
  unfold EllipsoidS.setB; rw [if_pos (lit0_lt.mpr hv)]; rfl
theorem setC_ok (s : EllipsoidS ℝ) {v : ℝ} (hv : 0 < v) : s.setC v = .ok { s with c := v } := by
  unfold EllipsoidS.setC; rw [if_pos (lit0_lt.mpr hv)]; rfl
theorem setA_bad (s : EllipsoidS ℝ) {v : ℝ} (hv : ¬ 0 < v) : s.setA v = .error "ValueError" := by
  unfold EllipsoidS.setA; rw [if_neg (fun h => hv (lit0_lt.mp h))]; rfl
theorem setB_bad (s : EllipsoidS ℝ) {v : ℝ} (hv : ¬ 0 < v) : s.setB v = .error "ValueError" := by
  unfold EllipsoidS.setB; rw [if_neg (fun h => hv (lit0_lt.mp h))]; rfl
theorem setC_bad (s : EllipsoidS ℝ) {v : ℝ} (hv : ¬ 0 < v) : s.setC v = .error "ValueError" := by
  unfold EllipsoidS.setC; rw [if_neg (fun h => hv (lit0_lt.mp h))]; rfl

theorem rescale_ok (s : EllipsoidS ℝ) (ha : 0 < s.a) (hb : 0 < s.b) (hc : 0 < s.c) {k : ℝ} (hk : 0 < k) :
    s.rescale k = .ok ⟨s.a * k, s.b * k, s.c * k, s.cen⟩ := by
  unfold EllipsoidS.rescale
  rw [setA_ok s (mul_pos ha hk)]
  show (do let s2 ← EllipsoidS.setB { s with a := s.a * k } (s.b * k); s2.setC (s2.c * k)) = _
  rw [setB_ok _ (mul_pos hb hk)]
  show EllipsoidS.setC { s with a := s.a * k, b := s.b * k } (s.c * k) = _
  rw [setC_ok _ (mul_pos hc hk)]

/-- **`_rescale` is atomic** on a valid ellipsoid: a raise can only come from its first assignment -/
theorem rescale_atomic (s : EllipsoidS ℝ) (ha : 0 < s.a) (hb : 0 < s.b) (hc : 0 < s.c) (k : ℝ) :
    (∃ s', s.rescale k = .ok s') ∨ s.setA (s.a * k) = .error "ValueError" := by
  by_cases hk : 0 < k
  · exact Or.inl ⟨_, rescale_ok s ha hb hc hk⟩
  · right
    apply setA_bad
    intro h
    have hk' : k ≤ 0 := not_lt.mp hk
    nlinarith [mul_nonneg ha.le (neg_nonneg.mpr hk')]

theorem volume_scale (a b c k : ℝ) :
    Curved.Ellipsoid.volume (a * k) (b * k) (c * k) = Curved.Ellipsoid.volume a b c * k ^ 3 := by
  unfold Curved.Ellipsoid.volume; ring

theorem saM_scale {k : ℝ} (hk : 0 < k) (a b c : ℝ) :
    Curved.Ellipsoid.saM (k * a) (k * b) (k * c) = Curved.Ellipsoid.saM a b c := by
  unfold Curved.Ellipsoid.saM Scalar.sqr
  rw [show k * a * (k * a) * (k * b * (k * b) - k * c * (k * c)) = (k * k * (k * k)) * (a * a * (b * b - c * c)) by ring,
    show k * b * (k * b) * (k * a * (k * a) - k * c * (k * c)) = (k * k * (k * k)) * (b * b * (a * a - c * c)) by ring,
    mul_div_mul_left _ _ (by positivity : k * k * (k * k) ≠ 0)]

/-- the elliptic part of the surface area is scale invariant: the angle `arccos(c/a)` and the
parameter `m` handed to `ellipeinc` / `ellipkinc` are ratios -/
theorem ellipticPart_scale (einc kinc : ℝ → ℝ → ℝ) {k : ℝ} (hk : 0 < k) (a b c : ℝ) :
    Curved.Ellipsoid.ellipticPart einc kinc (k * a) (k * b) (k * c) = Curved.Ellipsoid.ellipticPart einc kinc a b c := by
  unfold Curved.Ellipsoid.ellipticPart Curved.Ellipsoid.saPhi
  have hiff : (k * c < k * a) ↔ (c < a) :=
    ⟨fun h => lt_of_mul_lt_mul_left h hk.le, fun h => mul_lt_mul_of_pos_left h hk⟩
  simp only [saM_scale hk, mul_div_mul_left _ _ hk.ne']
  by_cases h : c < a
  · rw [if_pos (show @LT.lt ℝ Scalar.toLT (k * c) (k * a) from hiff.mpr h), if_pos (show @LT.lt ℝ Scalar.toLT c a from h)]
  · rw [if_neg (show ¬ @LT.lt ℝ Scalar.toLT (k * c) (k * a) from fun h' => h (hiff.mp h')),
      if_neg (show ¬ @LT.lt ℝ Scalar.toLT c a from h)]

/-- the surface area (Legendre form with arbitrary `ellipeinc` / `ellipkinc`) is homogeneous of degree 2 -/
theorem surfaceArea_scale (einc kinc : ℝ → ℝ → ℝ) {k : ℝ} (hk : 0 < k) (a b c : ℝ) :
    Curved.Ellipsoid.surfaceArea einc kinc (a * k) (b * k) (c * k)
      = Curved.Ellipsoid.surfaceArea einc kinc a b c * k ^ 2 := by
  unfold Curved.Ellipsoid.surfaceArea
  rw [mul_comm a k, mul_comm b k, mul_comm c k, Curved.sort3_scale hk.le]
  simp only [ellipticPart_scale einc kinc hk]
  unfold Scalar.sqr; ring

/-- **the isoperimetric quotient of an ellipsoid is unchanged by a uniform scaling** -/
theorem dimensionless (einc kinc : ℝ → ℝ → ℝ) {k : ℝ} (hk : 0 < k) (a b c : ℝ) :
    Curved.Ellipsoid.iq einc kinc (a * k) (b * k) (c * k) = Curved.Ellipsoid.iq einc kinc a b c := by
  unfold Curved.Ellipsoid.iq Curved.iq3
  rw [volume_scale, surfaceArea_scale einc kinc hk]
  unfold Scalar.sqr Scalar.cube
  have hk' : k ≠ 0 := hk.ne'
  by_cases hS : Curved.Ellipsoid.surfaceArea einc kinc a b c = 0
  · rw [hS]; simp
  · field_simp

def ballVal (bp : BallProp) (a b c : ℝ) : ℝ :=
  match bp with
  | .minBounding | .minCentered => Max.max (Max.max a b) c
  | .maxBounded | .maxCentered => Min.min (Min.min a b) c

theorem ballVal_pos (bp : BallProp) {a b c : ℝ} (ha : 0 < a) (hb : 0 < b) (hc : 0 < c) : 0 < ballVal bp a b c := by
  cases bp <;> simp only [ballVal] <;>
    first | exact lt_max_of_lt_left (lt_max_of_lt_left ha) | exact lt_min (lt_min ha hb) hc

theorem ballVal_scale (bp : BallProp) {k : ℝ} (hk : 0 ≤ k) (a b c : ℝ) :
    ballVal bp (a * k) (b * k) (c * k) = ballVal bp a b c * k := by
  cases bp <;> simp only [ballVal] <;>
    first
    | rw [← max_mul_of_nonneg a b hk, ← max_mul_of_nonneg _ c hk]
    | rw [← min_mul_of_nonneg a b hk, ← min_mul_of_nonneg _ c hk]

theorem ballRadius_eq (bp : BallProp) (s : EllipsoidS ℝ) (ha : 0 < s.a) (hb : 0 < s.b) (hc : 0 < s.c) :
    ballRadius bp s = .ok (ballVal bp s.a s.b s.c) := by
  have h := ballVal_pos bp ha hb hc
  cases bp <;> simp only [ballRadius, ballVal, Scalar.max_real, Scalar.min_real] at h ⊢ <;>
    rw [SphereS.mk'_ok h] <;> rfl

/-- **every size setter of `Ellipsoid` reads back and scales all three semi-axes by one positive
factor, the centre untouched** -/
theorem set_size_reads_back (einc kinc : ℝ → ℝ → ℝ) (p : EllipsoidProp) (hp : p.isShapeParam = false)
    (s : EllipsoidS ℝ) (ha : 0 < s.a) (hb : 0 < s.b) (hc : 0 < s.c)
    (hS : 0 < Curved.Ellipsoid.surfaceArea einc kinc s.a s.b s.c) {v : ℝ} (hv : 0 < v) :
    ∃ k s', 0 < k ∧ set einc kinc p s v = .ok s' ∧ get einc kinc p s' = .ok v ∧
      s'.a = s.a * k ∧ s'.b = s.b * k ∧ s'.c = s.c * k ∧ s'.cen = s.cen := by
  have hpi := Real.pi_pos
  cases p with
  | a => cases hp
  | b => cases hp
  | c => cases hp
  | volume =>
    have hV : 0 < Curved.Ellipsoid.volume s.a s.b s.c := by
      unfold Curved.Ellipsoid.volume
      simp only [Scalar.q, Scalar.ofNat_real, Scalar.pi_real]; push_cast; positivity
    have hq : 0 < v / Curved.Ellipsoid.volume s.a s.b s.c := div_pos hv hV
    have hk := cbrt_pos hq
    refine ⟨_, ⟨s.a * _, s.b * _, s.c * _, s.cen⟩, hk, ?_, ?_, rfl, rfl, rfl, rfl⟩
    · show (if (lit 0 : ℝ) < v then s.rescale (Scalar.cbrt (v / Curved.Ellipsoid.volume s.a s.b s.c)) else _) = _
      rw [if_pos (lit0_lt.mpr hv)]; exact rescale_ok s ha hb hc hk
    · show Except.ok (Curved.Ellipsoid.volume (s.a * _) (s.b * _) (s.c * _)) = Except.ok v
      rw [volume_scale, show ∀ x : ℝ, x ^ 3 = x * x * x from fun x => by ring, cbrt_cube hq]; congr 1; field_simp
  | surfaceArea =>
    have hq : 0 < v / Curved.Ellipsoid.surfaceArea einc kinc s.a s.b s.c := div_pos hv hS
    have hk : 0 < Real.sqrt (v / Curved.Ellipsoid.surfaceArea einc kinc s.a s.b s.c) := Real.sqrt_pos.mpr hq
    refine ⟨_, ⟨s.a * _, s.b * _, s.c * _, s.cen⟩, hk, ?_, ?_, rfl, rfl, rfl, rfl⟩
    · show (if (lit 0 : ℝ) < v then
          s.rescale (Scalar.sqrt (v / Curved.Ellipsoid.surfaceArea einc kinc s.a s.b s.c)) else _) = _
      rw [if_pos (lit0_lt.mpr hv)]; exact rescale_ok s ha hb hc hk
    · show Except.ok (Curved.Ellipsoid.surfaceArea einc kinc (s.a * _) (s.b * _) (s.c * _)) = Except.ok v
      rw [surfaceArea_scale einc kinc hk, pow_two, Real.mul_self_sqrt hq.le]; congr 1; field_simp
  | ball bp =>
    have hB := ballVal_pos bp ha hb hc
    have hk : 0 < v / ballVal bp s.a s.b s.c := div_pos hv hB
    refine ⟨_, ⟨s.a * (v / ballVal bp s.a s.b s.c), s.b * (v / ballVal bp s.a s.b s.c),
      s.c * (v / ballVal bp s.a s.b s.c), s.cen⟩, hk, ?_, ?_, rfl, rfl, rfl, rfl⟩
    · show (do guardPos v; let cur ← ballRadius bp s; s.rescale (v / cur)) = _
      rw [guardPos_ok hv, ballRadius_eq bp s ha hb hc]
      exact rescale_ok s ha hb hc hk
    · show ballRadius bp ⟨s.a * _, s.b * _, s.c * _, s.cen⟩ = Except.ok v
      rw [ballRadius_eq bp _ (mul_pos ha hk) (mul_pos hb hk) (mul_pos hc hk)]
      show Except.ok (ballVal bp (s.a * _) (s.b * _) (s.c * _)) = _
      rw [ballVal_scale bp hk.le]; congr 1; field_simp

/-- **a semi-axis setter reads back and changes that semi-axis only** -/
theorem set_shape_reads_back (einc kinc : ℝ → ℝ → ℝ) (s : EllipsoidS ℝ) {v : ℝ} (hv : 0 < v) :
    (∃ s', set einc kinc .a s v = .ok s' ∧ get einc kinc .a s' = .ok v ∧ s'.b = s.b ∧ s'.c = s.c ∧ s'.cen = s.cen) ∧
    (∃ s', set einc kinc .b s v = .ok s' ∧ get einc kinc .b s' = .ok v ∧ s'.a = s.a ∧ s'.c = s.c ∧ s'.cen = s.cen) ∧
    (∃ s', set einc kinc .c s v = .ok s' ∧ get einc kinc .c s' = .ok v ∧ s'.a = s.a ∧ s'.b = s.b ∧ s'.cen = s.cen) :=
  ⟨⟨_, setA_ok s hv, rfl, rfl, rfl, rfl⟩, ⟨_, setB_ok s hv, rfl, rfl, rfl, rfl⟩, ⟨_, setC_ok s hv, rfl, rfl, rfl, rfl⟩⟩

theorem bad_target_refused (einc kinc : ℝ → ℝ → ℝ) (p : EllipsoidProp) (s : EllipsoidS ℝ) {v : ℝ}
    (hv : ¬ 0 < v) : set einc kinc p s v = .error "ValueError" := by
  have h0 : ¬ (lit 0 : ℝ) < v := fun h => hv (lit0_lt.mp h)
  cases p with
  | a => exact setA_bad s hv
  | b => exact setB_bad s hv
  | c => exact setC_bad s hv
  | volume => show (if (lit 0 : ℝ) < v then _ else _) = _; rw [if_neg h0]; rfl
  | surfaceArea => show (if (lit 0 : ℝ) < v then _ else _) = _; rw [if_neg h0]; rfl
  | ball bp =>
    show (do guardPos v; let cur ← ballRadius bp s; s.rescale (v / cur)) = _
    rw [guardPos_bad hv]; rfl

end EllipsoidS

end Setters
end
