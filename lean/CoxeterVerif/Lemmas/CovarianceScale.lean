import CoxeterVerif.Lemmas.Covariance
import CoxeterVerif.Lemmas.Planar
import CoxeterVerif.Lemmas.Polyhedron
/-!
  Helper lemmas for C09 (covariance), part 2: uniform scaling `x ↦ k x` of the measure models
  (`CP`, `Poly2`, `Poly3`) and of the exact integrals, cyclic shifts of a polygon's vertex list,
  and the term-wise translation invariance of the tensors about the centroid.
  All statements are for every list (any number of triangles / vertices), proved by list
  induction + `ring`.
-/
open Scalar
set_option maxRecDepth 8000
noncomputable section

abbrev scS (k : ℝ) (S : List (Tri ℝ)) : List (Tri ℝ) := S.map (Tri.map (V3.smul k))
abbrev scT (k : ℝ) (Ts : List (Tet ℝ)) : List (Tet ℝ) := Ts.map (Tet.map (V3.smul k))
abbrev scV (k : ℝ) (vs : List (V3 ℝ)) : List (V3 ℝ) := vs.map (V3.smul k)

theorem list_sum_map_mul' (c : ℝ) {β : Type} (f g : β → ℝ) (l : List β) (h : ∀ x ∈ l, f x = c * g x) :
    (l.map f).sum = c * (l.map g).sum := by
  rw [List.map_congr_left h, list_sum_map_mul]

/-! ### ConvexPolyhedron model -/
theorem CP.signedVolume_scale (k : ℝ) (S : List (Tri ℝ)) :
    CP.signedVolume (scS k S) = k ^ 3 * CP.signedVolume S := by
  simp only [CP.signedVolume, Scalar.sum_real, scS, List.map_map]
  apply list_sum_map_mul'
  intro ⟨⟨ax,ay,az⟩,⟨bx,b_y,bz⟩,⟨cx,cy,cz⟩⟩ _
  simp only [Function.comp]; unfold_model; ring

theorem CP.volume_scale {k : ℝ} (hk : 0 ≤ k) (S : List (Tri ℝ)) :
    CP.volume (scS k S) = k ^ 3 * CP.volume S := by
  unfold CP.volume
  rw [CP.signedVolume_scale, Scalar.abs_real, Scalar.abs_real, abs_mul, abs_of_nonneg (pow_nonneg hk 3)]

theorem CP.centroidTerm_scale (k : ℝ) (t : Tri ℝ) :
    CP.centroidTerm (t.map (V3.smul k)) = V3.smul (k ^ 4) (CP.centroidTerm t) := by
  obtain ⟨⟨ax,ay,az⟩,⟨bx,b_y,bz⟩,⟨cx,cy,cz⟩⟩ := t
  unfold CP.centroidTerm
  ext <;> unfold_model <;> ring

theorem V3.sum_map_smul (k : ℝ) {β : Type} (f g : β → V3 ℝ) (l : List β)
    (h : ∀ x ∈ l, f x = V3.smul k (g x)) : V3.sum (l.map f) = V3.smul k (V3.sum (l.map g)) := by
  induction l with
  | nil => ext <;> simp [V3.sum]
  | cons a l ih =>
    have e1 : V3.sum ((a :: l).map f) = f a + V3.sum (l.map f) := rfl
    have e2 : V3.sum ((a :: l).map g) = g a + V3.sum (l.map g) := rfl
    rw [e1, e2, ih (fun x hx => h x (List.mem_cons_of_mem _ hx)), h a List.mem_cons_self, V3.smul_add]

theorem CP.centroid_scale {k : ℝ} (hk : k ≠ 0) (S : List (Tri ℝ)) (v : ℝ) :
    CP.centroid (scS k S) (k ^ 3 * v) = V3.smul k (CP.centroid S v) := by
  unfold CP.centroid
  rw [scS, List.map_map, V3.sum_map_smul (k ^ 4) (CP.centroidTerm ∘ Tri.map (V3.smul k)) CP.centroidTerm S
    (fun t _ => CP.centroidTerm_scale k t)]
  simp only [Scalar.lit, Scalar.ofNat_real]; push_cast
  have : (1:ℝ) / (48 * (k ^ 3 * v)) * k ^ 4 = k * (1 / (48 * v)) := by
    by_cases hv : v = 0
    · subst hv; simp
    · field_simp
  ext <;> simp only [V3.smul_x, V3.smul_y, V3.smul_z] <;> rw [← mul_assoc, this] <;> ring

theorem CP.triArea_scale {k : ℝ} (hk : 0 ≤ k) (t : Tri ℝ) :
    CP.triArea (t.map (V3.smul k)) = k ^ 2 * CP.triArea t := by
  unfold CP.triArea
  simp only [Tri.map, ← V3.smul_sub, V3.cross_smul]
  rw [V3.norm_smul_nonneg (mul_nonneg hk hk)]; ring

theorem CP.surfaceArea_scale {k : ℝ} (hk : 0 ≤ k) (S : List (Tri ℝ)) :
    CP.surfaceArea (scS k S) = k ^ 2 * CP.surfaceArea S := by
  simp only [CP.surfaceArea, Scalar.sum_real, scS, List.map_map]
  exact list_sum_map_mul' _ _ _ _ (fun t _ => CP.triArea_scale hk t)

theorem CP.simplexNormal_scale {k : ℝ} (hk : 0 < k) (t : Tri ℝ) :
    CP.simplexNormal (t.map (V3.smul k)) = CP.simplexNormal t := by
  unfold CP.simplexNormal
  simp only [Tri.map, ← V3.smul_sub, V3.cross_smul]
  rw [V3.norm_smul_nonneg (mul_nonneg hk.le hk.le)]
  have hkk : k * k ≠ 0 := (mul_pos hk hk).ne'
  ext <;> simp only [V3.sdiv_x, V3.sdiv_y, V3.sdiv_z, V3.smul_x, V3.smul_y, V3.smul_z] <;>
    rw [mul_div_mul_left _ _ hkk]

theorem Tri.map_smul_sub (k : ℝ) (c : V3 ℝ) (t : Tri ℝ) :
    (t.map (V3.smul k)).map (· - V3.smul k c) = (t.map (· - c)).map (V3.smul k) := by
  simp only [Tri.map, V3.smul_sub]

theorem CP.innTerm_scale (k a : ℝ) (n : V3 ℝ) (u : Tri ℝ) (s0 s1 : Nat) (h0 : s0 < s1) (h1 : s1 < 3) :
    CP.innTerm n (k ^ 2 * a) (u.map (V3.smul k)) s0 s1 = k ^ 5 * CP.innTerm n a u s0 s1 := by
  obtain ⟨⟨ax,ay,az⟩,⟨bx,b_y,bz⟩,⟨cx,cy,cz⟩⟩ := u
  casespair s0 s1 <;> unfold CP.innTerm CP.quad CP.quadWeights CP.quadPoints <;> unfold_model <;> ring

theorem CP.inmTerm_scale (k a : ℝ) (n : V3 ℝ) (u : Tri ℝ) (s0 s1 : Nat) (h0 : s0 < s1) (h1 : s1 < 3) :
    CP.inmTerm n (k ^ 2 * a) (u.map (V3.smul k)) s0 s1 = k ^ 5 * CP.inmTerm n a u s0 s1 := by
  obtain ⟨⟨ax,ay,az⟩,⟨bx,b_y,bz⟩,⟨cx,cy,cz⟩⟩ := u
  casespair s0 s1 <;> unfold CP.inmTerm CP.quad CP.quadWeights CP.quadPoints <;> unfold_model <;> ring

/-- the (normal, doubled area, centred triangle) triple the inertia loop builds for one simplex -/
def CP.simplexData (c : V3 ℝ) (t : Tri ℝ) : V3 ℝ × ℝ × Tri ℝ :=
  (CP.simplexNormal t, CP.triArea (t.map (· - c)) * lit 2, t.map (· - c))

theorem CP.inn_sum_scale {k : ℝ} (hk : 0 < k) (S : List (Tri ℝ)) (c : V3 ℝ) (s0 s1 : Nat)
    (h0 : s0 < s1) (h1 : s1 < 3) :
    (((scS k S).map (CP.simplexData (V3.smul k c))).map fun d => CP.innTerm d.1 d.2.1 d.2.2 s0 s1).sum
      = k ^ 5 * ((S.map (CP.simplexData c)).map fun d => CP.innTerm d.1 d.2.1 d.2.2 s0 s1).sum := by
  simp only [scS, List.map_map]
  apply list_sum_map_mul'
  intro t _
  simp only [Function.comp, CP.simplexData]
  rw [CP.simplexNormal_scale hk, Tri.map_smul_sub, CP.triArea_scale hk.le, mul_assoc,
    CP.innTerm_scale k _ _ _ s0 s1 h0 h1]

theorem CP.inm_sum_scale {k : ℝ} (hk : 0 < k) (S : List (Tri ℝ)) (c : V3 ℝ) (s0 s1 : Nat)
    (h0 : s0 < s1) (h1 : s1 < 3) :
    (((scS k S).map (CP.simplexData (V3.smul k c))).map fun d => CP.inmTerm d.1 d.2.1 d.2.2 s0 s1).sum
      = k ^ 5 * ((S.map (CP.simplexData c)).map fun d => CP.inmTerm d.1 d.2.1 d.2.2 s0 s1).sum := by
  simp only [scS, List.map_map]
  apply list_sum_map_mul'
  intro t _
  simp only [Function.comp, CP.simplexData]
  rw [CP.simplexNormal_scale hk, Tri.map_smul_sub, CP.triArea_scale hk.le, mul_assoc,
    CP.inmTerm_scale k _ _ _ s0 s1 h0 h1]

theorem CP.inertiaCentred_eq (S : List (Tri ℝ)) (c : V3 ℝ) :
    CP.inertiaCentred S c =
      let inn := fun s0 s1 => ((S.map (CP.simplexData c)).map fun d => CP.innTerm d.1 d.2.1 d.2.2 s0 s1).sum / 6
      let inm := fun s0 s1 => -((S.map (CP.simplexData c)).map fun d => CP.inmTerm d.1 d.2.1 d.2.2 s0 s1).sum / 8
      ⟨inn 1 2, inm 0 1, inm 0 2, inm 0 1, inn 0 2, inm 1 2, inm 0 2, inm 1 2, inn 0 1⟩ := by
  unfold CP.inertiaCentred
  simp only [Scalar.sum_real, Scalar.lit, Scalar.ofNat_real]
  push_cast
  rfl

/-- **scaling, degree 5 (term-wise, every list of triangles)** -/
theorem CP.inertiaCentred_scale {k : ℝ} (hk : 0 < k) (S : List (Tri ℝ)) (c : V3 ℝ) :
    CP.inertiaCentred (scS k S) (V3.smul k c) = M3.smulR (k ^ 5) (CP.inertiaCentred S c) := by
  rw [CP.inertiaCentred_eq, CP.inertiaCentred_eq]
  simp only [CP.inn_sum_scale hk S c _ _ (by omega : 1 < 2) (by omega), CP.inn_sum_scale hk S c _ _ (by omega : 0 < 2) (by omega),
    CP.inn_sum_scale hk S c _ _ (by omega : 0 < 1) (by omega), CP.inm_sum_scale hk S c _ _ (by omega : 0 < 1) (by omega),
    CP.inm_sum_scale hk S c _ _ (by omega : 0 < 2) (by omega), CP.inm_sum_scale hk S c _ _ (by omega : 1 < 2) (by omega)]
  apply M3.ext' <;> simp only [M3.smulR] <;> ring

theorem CP.translateInertia_scale (k : ℝ) (d : V3 ℝ) (I : M3 ℝ) (v : ℝ) :
    CP.translateInertia (V3.smul k d) (M3.smulR (k ^ 5) I) (k ^ 3 * v) =
      M3.smulR (k ^ 5) (CP.translateInertia d I v) := by
  unfold CP.translateInertia
  apply M3.ext' <;> simp only [M3.smulR, V3.dot, V3.smul_x, V3.smul_y, V3.smul_z, Scalar.lit, Scalar.ofNat_real] <;>
    push_cast <;> ring

theorem CP.inertia_scale {k : ℝ} (hk : 0 < k) (S : List (Tri ℝ)) (c : V3 ℝ) (v : ℝ) :
    CP.inertia (scS k S) (V3.smul k c) (k ^ 3 * v) = M3.smulR (k ^ 5) (CP.inertia S c v) := by
  unfold CP.inertia
  rw [CP.inertiaCentred_scale hk, CP.translateInertia_scale]

/-! ### Polygon model -/
theorem Poly2.rotl_map {β γ : Type} (f : β → γ) (j : Nat) (l : List β) :
    Poly2.rotl j (l.map f) = (Poly2.rotl j l).map f := by
  unfold Poly2.rotl
  simp only [List.length_map, List.map_append, List.map_drop, List.map_take]

theorem sum_zipWith_mul {β γ : Type} (c : ℝ) (f g : β → γ → ℝ) (h : ∀ a b, f a b = c * g a b)
    (l : List β) (l' : List γ) : (List.zipWith f l l').sum = c * (List.zipWith g l l').sum := by
  induction l generalizing l' with
  | nil => simp
  | cons a t ih =>
    cases l' with
    | nil => simp
    | cons b t' => simp only [List.zipWith_cons_cons, List.sum_cons, ih t', h a b]; ring

theorem Poly2.signedArea_scale {k : ℝ} (vs : List (V3 ℝ)) (n : V3 ℝ) :
    Poly2.signedArea (scV k vs) n = k ^ 2 * Poly2.signedArea vs n := by
  unfold Poly2.signedArea
  simp only [scV, Poly2.rotl_map, List.zip_map, List.zipWith_map_left, List.zipWith_map_right, Scalar.sum_real]
  rw [sum_zipWith_mul (k ^ 2) _ (fun (ab : V3 ℝ × V3 ℝ) c =>
    ab.2.get ((Poly2.argmax3 (Scalar.abs n.x) (Scalar.abs n.y) (Scalar.abs n.z) + 1) % 3) *
      (c.get ((Poly2.argmax3 (Scalar.abs n.x) (Scalar.abs n.y) (Scalar.abs n.z) + 2) % 3) -
        ab.1.get ((Poly2.argmax3 (Scalar.abs n.x) (Scalar.abs n.y) (Scalar.abs n.z) + 2) % 3)))]
  · ring
  · intro ab c
    simp only [Prod.map, V3.get_smul]; ring

theorem Poly2.area_scale {k : ℝ} (vs : List (V3 ℝ)) (n : V3 ℝ) :
    Poly2.area (scV k vs) n = k ^ 2 * Poly2.area vs n := by
  unfold Poly2.area
  rw [Poly2.signedArea_scale, Scalar.abs_real, Scalar.abs_real, abs_mul, abs_of_nonneg (sq_nonneg k)]

theorem Poly2.perimeter_scale (k : ℝ) (vs : List (V3 ℝ)) :
    Poly2.perimeter (scV k vs) = |k| * Poly2.perimeter vs := by
  unfold Poly2.perimeter
  simp only [scV, Poly2.rotl_map, List.zipWith_map_left, List.zipWith_map_right, Scalar.sum_real]
  apply sum_zipWith_mul
  intro a b
  rw [← V3.smul_sub, V3.norm_smul]

theorem Poly2.align_scale (k : ℝ) (R : M3 ℝ) (vs : List (V3 ℝ)) :
    Poly2.align R (scV k vs) = scV k (Poly2.align R vs) := by
  simp only [Poly2.align, scV, List.map_map]
  apply List.map_congr_left
  intro p _
  simp only [Function.comp, mulVec_smul]

theorem Poly2.delta_smul (k : ℝ) (p q : V3 ℝ) :
    Poly2.delta (V3.smul k p) (V3.smul k q) = k ^ 2 * Poly2.delta p q := by
  simp only [Poly2.delta, V3.smul_x, V3.smul_y]; ring

theorem sum_zipWith_map_mul {β : Type} (c : ℝ) (φ : β → β) (f g : β → β → ℝ)
    (h : ∀ a b, f (φ a) (φ b) = c * g a b) (l l' : List β) :
    (List.zipWith f (l.map φ) (l'.map φ)).sum = c * (List.zipWith g l l').sum := by
  rw [List.zipWith_map_left, List.zipWith_map_right]
  exact sum_zipWith_mul c _ g h l l'

/-- **centroid scales with the polygon** (any `k ≠ 0`, any vertex list, any alignment matrix) -/
theorem Poly2.centroid_scale {k : ℝ} (hk : k ≠ 0) (vs : List (V3 ℝ)) (n : V3 ℝ) (R : M3 ℝ) :
    Poly2.centroid (scV k vs) n R = V3.smul k (Poly2.centroid vs n R) := by
  unfold Poly2.centroid
  simp only [Poly2.align_scale, Poly2.signedArea_scale]
  simp only [scV, Poly2.rotl_map, Scalar.sum_real, List.map_map, List.length_map]
  rw [sum_zipWith_map_mul (k ^ 3) (V3.smul k) (fun p q : V3 ℝ => (p.x + q.x) * Poly2.delta p q)
      (fun p q : V3 ℝ => (p.x + q.x) * Poly2.delta p q)
      (by intro p q; simp only [Poly2.delta_smul, V3.smul_x]; ring),
    sum_zipWith_map_mul (k ^ 3) (V3.smul k) (fun p q : V3 ℝ => (p.y + q.y) * Poly2.delta p q)
      (fun p q : V3 ℝ => (p.y + q.y) * Poly2.delta p q)
      (by intro p q; simp only [Poly2.delta_smul, V3.smul_y]; ring),
    list_sum_map_mul' k _ (fun p : V3 ℝ => p.z) _ (by intro p _; simp [Function.comp])]
  rw [← mulVec_smul]
  congr 1
  have hk2 : k ^ 2 ≠ 0 := pow_ne_zero 2 hk
  simp only [Scalar.lit, Scalar.ofNat_real]; push_cast
  have key : ∀ X : ℝ, k ^ 3 * X / (6 * (k ^ 2 * Poly2.signedArea vs n)) = k * (X / (6 * Poly2.signedArea vs n)) := by
    intro X
    rw [show k ^ 3 * X / (6 * (k ^ 2 * Poly2.signedArea vs n)) = (k ^ 2 * (k * X)) / (k ^ 2 * (6 * Poly2.signedArea vs n)) by ring,
      mul_div_mul_left _ _ hk2]; ring
  ext <;> simp only [V3.smul_x, V3.smul_y, V3.smul_z]
  · exact key _
  · exact key _
  · ring

theorem Poly2.sign_mul_pos {c : ℝ} (hc : 0 < c) (x : ℝ) : Poly2.sign (c * x) = Poly2.sign x := by
  unfold Poly2.sign
  simp only [Scalar.lit, Scalar.ofNat_real]; push_cast
  have h1 : (0 < c * x) ↔ 0 < x := by constructor <;> intro h <;> [exact (pos_iff_pos_of_mul_pos h).mp hc; exact mul_pos hc h]
  have h2 : (c * x < 0) ↔ x < 0 := by
    constructor
    · intro h; by_contra hx; rw [not_lt] at hx; nlinarith
    · intro h; nlinarith
  simp only [h1, h2]

/-- **planar moments scale with degree 4** (`k ≠ 0`) -/
theorem Poly2.planarMoments_scale {k : ℝ} (hk : k ≠ 0) (vs : List (V3 ℝ)) (R : M3 ℝ) :
    Poly2.planarMoments (scV k vs) R =
      (k ^ 4 * (Poly2.planarMoments vs R).1, k ^ 4 * (Poly2.planarMoments vs R).2.1,
       k ^ 4 * (Poly2.planarMoments vs R).2.2) := by
  unfold Poly2.planarMoments
  simp only [Poly2.align_scale]
  simp only [scV, Poly2.rotl_map, Scalar.sum_real]
  rw [sum_zipWith_map_mul (k ^ 4) (V3.smul k) (fun p q : V3 ℝ => Poly2.delta p q * (p.x * p.x + p.x * q.x + q.x * q.x))
      (fun p q : V3 ℝ => Poly2.delta p q * (p.x * p.x + p.x * q.x + q.x * q.x))
      (by intro p q; simp only [Poly2.delta_smul, V3.smul_x]; ring),
    sum_zipWith_map_mul (k ^ 4) (V3.smul k) (fun p q : V3 ℝ => Poly2.delta p q * (p.y * p.y + p.y * q.y + q.y * q.y))
      (fun p q : V3 ℝ => Poly2.delta p q * (p.y * p.y + p.y * q.y + q.y * q.y))
      (by intro p q; simp only [Poly2.delta_smul, V3.smul_y]; ring),
    sum_zipWith_map_mul (k ^ 4) (V3.smul k) (fun p q : V3 ℝ => Poly2.delta p q *
        (p.x * q.y + lit 2 * (p.x * p.y + q.x * q.y) + p.y * q.x))
      (fun p q : V3 ℝ => Poly2.delta p q * (p.x * q.y + lit 2 * (p.x * p.y + q.x * q.y) + p.y * q.x))
      (by intro p q; simp only [Poly2.delta_smul, V3.smul_x, V3.smul_y]; ring),
    sum_zipWith_map_mul (k ^ 2) (V3.smul k) Poly2.delta Poly2.delta
      (by intro p q; simp only [Poly2.delta_smul])]
  have hk4 : (0:ℝ) ≤ k ^ 4 := by positivity
  have hk2 : (0:ℝ) < k ^ 2 := by positivity
  rw [Poly2.sign_mul_pos hk2]
  simp only [Scalar.abs_real, Scalar.lit, Scalar.ofNat_real]
  refine Prod.ext ?_ (Prod.ext ?_ ?_) <;> simp only []
  · rw [mul_div_assoc, abs_mul, abs_of_nonneg hk4]
  · rw [mul_div_assoc, abs_mul, abs_of_nonneg hk4]
  · ring

theorem Poly2.polarMoment_scale {k : ℝ} (hk : k ≠ 0) (vs : List (V3 ℝ)) (R : M3 ℝ) :
    Poly2.polarMoment (scV k vs) R = k ^ 4 * Poly2.polarMoment vs R := by
  unfold Poly2.polarMoment
  rw [Poly2.planarMoments_scale hk]; ring

/-! ### cyclic shift of a polygon's vertex list (`np.roll`) -/
theorem sum_zipWith_rotl (f : V3 ℝ → V3 ℝ → ℝ) (w : List (V3 ℝ)) (k : Nat) :
    (List.zipWith f (Poly2.rotl k w) (Poly2.rotl 1 (Poly2.rotl k w))).sum
      = (List.zipWith f w (Poly2.rotl 1 w)).sum := by
  simp only [rotl_eq_rotate, List.rotate_rotate]
  rw [show k + 1 = 1 + k by ring, ← List.rotate_rotate,
    ← List.zipWith_rotate_distrib _ w (w.rotate 1) k (by simp)]
  exact (List.rotate_perm _ k).sum_eq

theorem sum_zipWith3_rotl (f : V3 ℝ × V3 ℝ → V3 ℝ → ℝ) (w : List (V3 ℝ)) (k : Nat) :
    (List.zipWith f ((Poly2.rotl k w).zip (Poly2.rotl 1 (Poly2.rotl k w))) (Poly2.rotl 2 (Poly2.rotl k w))).sum
      = (List.zipWith f (w.zip (Poly2.rotl 1 w)) (Poly2.rotl 2 w)).sum := by
  simp only [rotl_eq_rotate, List.rotate_rotate]
  rw [show k + 1 = 1 + k by ring, show k + 2 = 2 + k by ring, ← List.rotate_rotate, ← List.rotate_rotate]
  have hz : (w.rotate k).zip ((w.rotate 1).rotate k) = (w.zip (w.rotate 1)).rotate k := by
    simp only [List.zip_eq_zipWith]
    exact (List.zipWith_rotate_distrib _ w (w.rotate 1) k (by simp)).symm
  rw [hz, ← List.zipWith_rotate_distrib _ (w.zip (w.rotate 1)) (w.rotate 2) k (by simp)]
  exact (List.rotate_perm _ k).sum_eq

theorem Poly2.signedArea_rotl (vs : List (V3 ℝ)) (n : V3 ℝ) (k : Nat) :
    Poly2.signedArea (Poly2.rotl k vs) n = Poly2.signedArea vs n := by
  unfold Poly2.signedArea
  simp only [Scalar.sum_real, sum_zipWith3_rotl]

theorem Poly2.perimeter_rotl (vs : List (V3 ℝ)) (k : Nat) :
    Poly2.perimeter (Poly2.rotl k vs) = Poly2.perimeter vs := by
  unfold Poly2.perimeter
  simp only [Scalar.sum_real, sum_zipWith_rotl]

theorem Poly2.length_rotl {β : Type} (k : Nat) (l : List β) : (Poly2.rotl k l).length = l.length := by
  rw [rotl_eq_rotate, List.length_rotate]

theorem Poly2.centroid_rotl (vs : List (V3 ℝ)) (n : V3 ℝ) (R : M3 ℝ) (k : Nat) :
    Poly2.centroid (Poly2.rotl k vs) n R = Poly2.centroid vs n R := by
  unfold Poly2.centroid
  have ha : Poly2.align R (Poly2.rotl k vs) = Poly2.rotl k (Poly2.align R vs) := by
    unfold Poly2.align; rw [Poly2.rotl_map]
  have hz : ((Poly2.rotl k (Poly2.align R vs)).map (·.z)).sum = ((Poly2.align R vs).map (·.z)).sum := by
    rw [rotl_eq_rotate]; exact ((List.rotate_perm _ k).map _).sum_eq
  simp only [ha, Scalar.sum_real, sum_zipWith_rotl, Poly2.signedArea_rotl, hz, Poly2.length_rotl]

theorem Poly2.planarMoments_rotl (vs : List (V3 ℝ)) (R : M3 ℝ) (k : Nat) :
    Poly2.planarMoments (Poly2.rotl k vs) R = Poly2.planarMoments vs R := by
  unfold Poly2.planarMoments
  have ha : Poly2.align R (Poly2.rotl k vs) = Poly2.rotl k (Poly2.align R vs) := by
    unfold Poly2.align; rw [Poly2.rotl_map]
  simp only [ha, Scalar.sum_real, sum_zipWith_rotl]

/-! ### Polyhedron (mesh) model -/
theorem Poly3.eberlyTerm_scale (k : ℝ) (t : Tri ℝ) :
    (Poly3.eberlyTerm (t.map (V3.smul k))).1 = k ^ 3 * (Poly3.eberlyTerm t).1 ∧
    (Poly3.eberlyTerm (t.map (V3.smul k))).2 = V3.smul (k ^ 4) (Poly3.eberlyTerm t).2 := by
  obtain ⟨⟨ax,ay,az⟩,⟨bx,b_y,bz⟩,⟨cx,cy,cz⟩⟩ := t
  unfold Poly3.eberlyTerm
  refine ⟨?_, ?_⟩
  · unfold_model; ring
  · ext <;> unfold_model <;> ring

/-- **Eberly centroid scales with the mesh** (every triangle list, `k ≠ 0`) -/
theorem Poly3.centroid_scale {k : ℝ} (hk : k ≠ 0) (S : List (Tri ℝ)) :
    Poly3.centroid (scS k S) = V3.smul k (Poly3.centroid S) := by
  unfold Poly3.centroid
  simp only [scS, List.map_map, Scalar.sum_real]
  rw [list_sum_map_mul' (k ^ 3) ((fun t => (Poly3.eberlyTerm t).1) ∘ Tri.map (V3.smul k))
      (fun t => (Poly3.eberlyTerm t).1) S (fun t _ => (Poly3.eberlyTerm_scale k t).1),
    V3.sum_map_smul (k ^ 4) ((fun t => (Poly3.eberlyTerm t).2) ∘ Tri.map (V3.smul k))
      (fun t => (Poly3.eberlyTerm t).2) S (fun t _ => (Poly3.eberlyTerm_scale k t).2)]
  have hk3 : k ^ 3 ≠ 0 := pow_ne_zero 3 hk
  have key : ∀ X V : ℝ, k ^ 4 * X / (k ^ 3 * V) / 4 = k * (X / V / 4) := by
    intro X V
    rw [show k ^ 4 * X / (k ^ 3 * V) = (k ^ 3 * (k * X)) / (k ^ 3 * V) by ring, mul_div_mul_left _ _ hk3]; ring
  simp only [Scalar.lit, Scalar.ofNat_real]; push_cast
  ext <;> simp only [V3.sdiv_x, V3.sdiv_y, V3.sdiv_z, V3.smul_x, V3.smul_y, V3.smul_z] <;> exact key _ _

theorem Poly3.kallay_scale (k w : ℝ) (t : Tri ℝ) (i j : Nat) :
    Poly3.kallay (k ^ 3 * w) (t.map (V3.smul k)) (fun p => p.get i * p.get j)
      = k ^ 5 * Poly3.kallay w t (fun p => p.get i * p.get j) := by
  unfold Poly3.kallay
  simp only [Tri.map, ← V3.smul_add, V3.get_smul, Scalar.lit, Scalar.ofNat_real]; ring

theorem zipWith_map_self' {β γ : Type} (f : β → γ) (g : γ → β → ℝ) (l : List β) :
    List.zipWith g (l.map f) l = l.map fun t => g (f t) t := by
  induction l with
  | nil => rfl
  | cons a l ih => simp [ih]

theorem Poly3.kallay_scale_hom (k w : ℝ) (t : Tri ℝ) (f : V3 ℝ → ℝ)
    (hf : ∀ p, f (V3.smul k p) = k ^ 2 * f p) :
    Poly3.kallay (k ^ 3 * w) (t.map (V3.smul k)) f = k ^ 5 * Poly3.kallay w t f := by
  unfold Poly3.kallay
  simp only [Tri.map, ← V3.smul_add, hf]; ring

/-- the sign `np.sign(np.sum(volumes))` -/
def Poly3.sgn (total : ℝ) : ℝ := if lit 0 < total then lit 1 else if total < lit 0 then -(lit 1) else lit 0

theorem Poly3.sgn_mul_pos {c : ℝ} (hc : 0 < c) (x : ℝ) : Poly3.sgn (c * x) = Poly3.sgn x := by
  have := Poly2.sign_mul_pos hc x
  simpa [Poly3.sgn, Poly2.sign] using this

/-- the integral `triangle_integrate(f)` of the model, as a plain sum over the centred triangles -/
def Poly3.integ (L : List (Tri ℝ)) (f : V3 ℝ → ℝ) : ℝ :=
  (L.map fun t => Poly3.kallay (V3.det3 t.a t.b t.c / lit 6 *
    Poly3.sgn (L.map fun t => V3.det3 t.a t.b t.c / lit 6).sum) t f).sum

theorem Poly3.inertiaCentred_eq' (S : List (Tri ℝ)) (c : V3 ℝ) :
    Poly3.inertiaCentred S c =
      let L := S.map (Tri.map (· - c))
      ⟨Poly3.integ L fun t => t.y * t.y + t.z * t.z, Poly3.integ L fun t => -(t.x) * t.y,
       Poly3.integ L fun t => -(t.x) * t.z, Poly3.integ L fun t => -(t.x) * t.y,
       Poly3.integ L fun t => t.x * t.x + t.z * t.z, Poly3.integ L fun t => -(t.y) * t.z,
       Poly3.integ L fun t => -(t.x) * t.z, Poly3.integ L fun t => -(t.y) * t.z,
       Poly3.integ L fun t => t.x * t.x + t.y * t.y⟩ := by
  unfold Poly3.inertiaCentred Poly3.integ Poly3.sgn
  simp only [Scalar.sum_real, zipWith_map_self']

theorem Poly3.integ_scale {k : ℝ} (hk : 0 < k) (L : List (Tri ℝ)) (f : V3 ℝ → ℝ)
    (hf : ∀ p, f (V3.smul k p) = k ^ 2 * f p) :
    Poly3.integ (scS k L) f = k ^ 5 * Poly3.integ L f := by
  unfold Poly3.integ
  have hdet : ∀ t : Tri ℝ, V3.det3 (t.map (V3.smul k)).a (t.map (V3.smul k)).b (t.map (V3.smul k)).c / lit 6
      = k ^ 3 * (V3.det3 t.a t.b t.c / lit 6) := by
    intro ⟨⟨ax,ay,az⟩,⟨bx,b_y,bz⟩,⟨cx,cy,cz⟩⟩; unfold_model; ring
  have htot : ((scS k L).map fun t => V3.det3 t.a t.b t.c / lit 6).sum
      = k ^ 3 * (L.map fun t => V3.det3 t.a t.b t.c / lit 6).sum := by
    simp only [scS, List.map_map]
    exact list_sum_map_mul' _ _ _ _ (fun t _ => hdet t)
  rw [htot, Poly3.sgn_mul_pos (pow_pos hk 3)]
  simp only [scS, List.map_map]
  apply list_sum_map_mul'
  intro t _
  simp only [Function.comp]
  rw [hdet, mul_assoc, Poly3.kallay_scale_hom k _ t f hf]

/-- **Kallay inertia about the centroid scales with degree 5** (term-wise, every triangle list) -/
theorem Poly3.inertiaCentred_scale {k : ℝ} (hk : 0 < k) (S : List (Tri ℝ)) (c : V3 ℝ) :
    Poly3.inertiaCentred (scS k S) (V3.smul k c) = M3.smulR (k ^ 5) (Poly3.inertiaCentred S c) := by
  rw [Poly3.inertiaCentred_eq', Poly3.inertiaCentred_eq']
  have hS : (scS k S).map (Tri.map (· - V3.smul k c)) = scS k (S.map (Tri.map (· - c))) := by
    simp only [scS, List.map_map]
    apply List.map_congr_left
    intro t _
    simp only [Function.comp, Tri.map_smul_sub]
  simp only [hS]
  have h := fun f hf => Poly3.integ_scale hk (S.map (Tri.map (· - c))) f hf
  rw [h (fun t => t.y * t.y + t.z * t.z) (by intro p; simp only [V3.smul_y, V3.smul_z]; ring),
    h (fun t => -(t.x) * t.y) (by intro p; simp only [V3.smul_x, V3.smul_y]; ring),
    h (fun t => -(t.x) * t.z) (by intro p; simp only [V3.smul_x, V3.smul_z]; ring),
    h (fun t => t.x * t.x + t.z * t.z) (by intro p; simp only [V3.smul_x, V3.smul_z]; ring),
    h (fun t => -(t.y) * t.z) (by intro p; simp only [V3.smul_y, V3.smul_z]; ring),
    h (fun t => t.x * t.x + t.y * t.y) (by intro p; simp only [V3.smul_x, V3.smul_y]; ring)]
  rfl

theorem Poly3.inertia_scale {k : ℝ} (hk : 0 < k) (S : List (Tri ℝ)) (c : V3 ℝ) (v : ℝ) :
    Poly3.inertia (scS k S) (V3.smul k c) (k ^ 3 * v) = M3.smulR (k ^ 5) (Poly3.inertia S c v) := by
  unfold Poly3.inertia
  rw [Poly3.inertiaCentred_scale hk, CP.translateInertia_scale]

/-! ### translation: the tensors ABOUT THE CENTROID are term-wise invariant -/
theorem Tri.map_add_sub (t c : V3 ℝ) (u : Tri ℝ) : (u.map (· + t)).map (· - (c + t)) = u.map (· - c) := by
  obtain ⟨a, b, d⟩ := u
  simp only [Tri.map]
  congr 1 <;> ext <;> simp

theorem CP.simplexNormal_add (t : V3 ℝ) (u : Tri ℝ) : CP.simplexNormal (u.map (· + t)) = CP.simplexNormal u := by
  obtain ⟨a, b, d⟩ := u
  unfold CP.simplexNormal
  have e1 : (b + t) - (a + t) = b - a := by ext <;> simp
  have e2 : (d + t) - (a + t) = d - a := by ext <;> simp
  simp only [Tri.map, e1, e2]

theorem CP.simplexData_add (t c : V3 ℝ) (u : Tri ℝ) :
    CP.simplexData (c + t) (u.map (· + t)) = CP.simplexData c u := by
  unfold CP.simplexData
  rw [CP.simplexNormal_add, Tri.map_add_sub]

theorem CP.inertiaCentred_add (S : List (Tri ℝ)) (c t : V3 ℝ) :
    CP.inertiaCentred (addS t S) (c + t) = CP.inertiaCentred S c := by
  rw [CP.inertiaCentred_eq, CP.inertiaCentred_eq]
  have : (addS t S).map (CP.simplexData (c + t)) = S.map (CP.simplexData c) := by
    simp only [addS, List.map_map]
    exact List.map_congr_left (fun u _ => CP.simplexData_add t c u)
  rw [this]

theorem Poly3.inertiaCentred_add (S : List (Tri ℝ)) (c t : V3 ℝ) :
    Poly3.inertiaCentred (addS t S) (c + t) = Poly3.inertiaCentred S c := by
  rw [Poly3.inertiaCentred_eq', Poly3.inertiaCentred_eq', addS_sub]

/-! ### exact integrals under scaling -/
theorem Spec.tetVol_scale (k : ℝ) (T : Tet ℝ) : Spec.tetVol (T.map (V3.smul k)) = k ^ 3 * Spec.tetVol T := by
  obtain ⟨⟨ax,ay,az⟩,⟨bx,b_y,bz⟩,⟨cx,cy,cz⟩,⟨dx,dy,dz⟩⟩ := T
  unfold Spec.tetVol; unfold_model; ring

theorem Spec.vol_scale (k : ℝ) (Ts : List (Tet ℝ)) : Spec.vol (scT k Ts) = k ^ 3 * Spec.vol Ts := by
  rw [Spec.vol_eq, Spec.vol_eq, scT, List.map_map]
  exact list_sum_map_mul' _ _ _ _ (fun T _ => Spec.tetVol_scale k T)

theorem Spec.tetFirst_scale (k : ℝ) (T : Tet ℝ) :
    Spec.tetFirst (T.map (V3.smul k)) = V3.smul (k ^ 4) (Spec.tetFirst T) := by
  unfold Spec.tetFirst
  rw [Spec.tetVol_scale]
  simp only [Spec.tetSum, Tet.map, ← V3.smul_add]
  ext <;> simp only [V3.smul_x, V3.smul_y, V3.smul_z] <;> ring

theorem Spec.first_scale (k : ℝ) (Ts : List (Tet ℝ)) :
    Spec.first (scT k Ts) = V3.smul (k ^ 4) (Spec.first Ts) := by
  unfold Spec.first
  rw [scT, List.map_map]
  exact V3.sum_map_smul _ _ _ _ (fun T _ => Spec.tetFirst_scale k T)

theorem Spec.second_scale (k : ℝ) (Ts : List (Tet ℝ)) (i j : Nat) :
    Spec.second (scT k Ts) i j = k ^ 5 * Spec.second Ts i j := by
  rw [Spec.second_eq, Spec.second_eq, scT, List.map_map]
  apply list_sum_map_mul'
  intro T _
  simp only [Function.comp, Spec.tetSecond]
  rw [Spec.tetVol_scale]
  simp only [Spec.tetSum, Tet.map, ← V3.smul_add, V3.get_smul]
  ring

theorem Spec.centroid_scale {k : ℝ} (hk : k ≠ 0) (Ts : List (Tet ℝ)) :
    Spec.centroid (scT k Ts) = V3.smul k (Spec.centroid Ts) := by
  unfold Spec.centroid
  rw [Spec.first_scale, Spec.vol_scale]
  have hk3 : k ^ 3 ≠ 0 := pow_ne_zero 3 hk
  have key : ∀ X V : ℝ, k ^ 4 * X / (k ^ 3 * V) = k * (X / V) := by
    intro X V
    rw [show k ^ 4 * X / (k ^ 3 * V) = (k ^ 3 * (k * X)) / (k ^ 3 * V) by ring, mul_div_mul_left _ _ hk3]; ring
  ext <;> simp only [V3.sdiv_x, V3.sdiv_y, V3.sdiv_z, V3.smul_x, V3.smul_y, V3.smul_z] <;> exact key _ _

theorem Spec.inertia_scale (k : ℝ) (Ts : List (Tet ℝ)) :
    Spec.inertia (scT k Ts) = M3.smulR (k ^ 5) (Spec.inertia Ts) := by
  unfold Spec.inertia
  simp only [Spec.second_scale]
  apply M3.ext' <;> simp only [M3.smulR] <;> ring
/-! ### translation of a polygon's vertex list -/
abbrev addV (t : V3 ℝ) (vs : List (V3 ℝ)) : List (V3 ℝ) := vs.map (· + t)

theorem V3.get_add (a b : V3 ℝ) (i : Nat) : (a + b).get i = a.get i + b.get i := by
  unfold V3.get; split_ifs <;> rfl

theorem Poly2.perimeter_add (t : V3 ℝ) (vs : List (V3 ℝ)) :
    Poly2.perimeter (addV t vs) = Poly2.perimeter vs := by
  unfold Poly2.perimeter
  simp only [addV, Poly2.rotl_map, List.zipWith_map_left, List.zipWith_map_right]
  congr 2
  funext a b
  have : (b + t) - (a + t) = b - a := by ext <;> simp
  rw [this]

/-- sum over a zip of three equally long lists splits -/
theorem sum_zip3_diff (j : Nat) (l v1 v2 : List (V3 ℝ)) (h1 : v1.length = l.length) (h2 : v2.length = l.length) :
    (List.zipWith (fun (ab : V3 ℝ × V3 ℝ) c => c.get j - ab.1.get j) (l.zip v1) v2).sum
      = (v2.map (·.get j)).sum - (l.map (·.get j)).sum := by
  induction l generalizing v1 v2 with
  | nil =>
    have : v2 = [] := List.length_eq_zero_iff.mp (by simpa using h2)
    subst this; simp
  | cons a t ih =>
    match v1, v2, h1, h2 with
    | b :: t1, c :: t2, h1, h2 =>
      simp only [List.zip_cons_cons, List.zipWith_cons_cons, List.sum_cons, List.map_cons]
      rw [ih t1 t2 (by simpa using h1) (by simpa using h2)]
      ring

theorem sum_zipWith_add {β γ : Type} (f g : β → γ → ℝ) (l : List β) (l' : List γ) :
    (List.zipWith (fun a b => f a b + g a b) l l').sum = (List.zipWith f l l').sum + (List.zipWith g l l').sum := by
  induction l generalizing l' with
  | nil => simp
  | cons a t ih =>
    cases l' with
    | nil => simp
    | cons b t' => simp only [List.zipWith_cons_cons, List.sum_cons, ih t']; ring

/-- **translation invariance of `Polygon.signed_area`** for every closed vertex cycle: the summands
change, but the change `t_{c1} · Σ (v_{i+2} − v_i)_{c2}` telescopes round the cycle. -/
theorem Poly2.signedArea_add (t : V3 ℝ) (vs : List (V3 ℝ)) (n : V3 ℝ) :
    Poly2.signedArea (addV t vs) n = Poly2.signedArea vs n := by
  unfold Poly2.signedArea
  simp only [addV, Poly2.rotl_map, List.zip_map, List.zipWith_map_left, List.zipWith_map_right, Scalar.sum_real]
  congr 1
  set c1 := (Poly2.argmax3 (Scalar.abs n.x) (Scalar.abs n.y) (Scalar.abs n.z) + 1) % 3
  set c2 := (Poly2.argmax3 (Scalar.abs n.x) (Scalar.abs n.y) (Scalar.abs n.z) + 2) % 3
  have e : (fun (a : V3 ℝ × V3 ℝ) (b : V3 ℝ) =>
        (Prod.map (· + t) (· + t) a).2.get c1 * ((b + t).get c2 - (Prod.map (· + t) (· + t) a).1.get c2))
      = fun a b => a.2.get c1 * (b.get c2 - a.1.get c2) + t.get c1 * (b.get c2 - a.1.get c2) := by
    funext a b
    simp only [Prod.map, V3.get_add]; ring
  rw [e, sum_zipWith_add]
  have hz : (List.zipWith (fun (a : V3 ℝ × V3 ℝ) (b : V3 ℝ) => t.get c1 * (b.get c2 - a.1.get c2))
      (vs.zip (Poly2.rotl 1 vs)) (Poly2.rotl 2 vs)).sum = 0 := by
    rw [sum_zipWith_mul (t.get c1) _ (fun (a : V3 ℝ × V3 ℝ) (b : V3 ℝ) => b.get c2 - a.1.get c2) (fun _ _ => rfl),
      sum_zip3_diff c2 vs _ _ (Poly2.length_rotl 1 vs) (Poly2.length_rotl 2 vs)]
    have : ((Poly2.rotl 2 vs).map (·.get c2)).sum = (vs.map (·.get c2)).sum := by
      rw [rotl_eq_rotate]; exact ((List.rotate_perm _ 2).map _).sum_eq
    rw [this]; ring
  rw [hz, add_zero]
end
