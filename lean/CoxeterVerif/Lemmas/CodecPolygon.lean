import CoxeterVerif.Lemmas.Codec
import CoxeterVerif.Props.C04
/-!
  Helper lemmas for C19, part 4: the centroid getter of `Polygon` / `ConvexPolygon` (the measure
  model of C04, `Poly2.centroid`) commutes with translations of a PLANAR vertex cycle.

  Route: C04 proves that the getter returns the exact centroid `first moment / area` of any planar
  triangulation bounded by the cycle (`centroid_general_exact`); the exact centroid moves with the
  triangles (`Spec3.centroid_add`, term by term), and the certificates of C04 (plane, triangulation)
  are preserved by a translation.
-/
namespace C19
open Scalar
set_option maxRecDepth 4000

theorem Spec3.triArea_add (n c : V3 ℝ) (t : Tri ℝ) :
    Spec3.triArea n (t.map (· + c)) = Spec3.triArea n t := by
  obtain ⟨⟨ax,ay,az⟩,⟨bx,b_y,bz⟩,⟨cx,cy,cz⟩⟩ := t
  obtain ⟨c1,c2,c3⟩ := c
  simp only [Spec3.triArea, Tri.map]; unfold_model; ring

theorem Spec3.area_add (n c : V3 ℝ) (Ts : List (Tri ℝ)) :
    Spec3.area n (Ts.map (Tri.map (· + c))) = Spec3.area n Ts := by
  induction Ts with
  | nil => rfl
  | cons t r ih => rw [List.map_cons, Spec3.area_cons, Spec3.area_cons, ih, Spec3.triArea_add]

theorem Spec3.first_add (n c : V3 ℝ) (Ts : List (Tri ℝ)) :
    Spec3.first n (Ts.map (Tri.map (· + c))) = Spec3.first n Ts + V3.smul (Spec3.area n Ts) c := by
  induction Ts with
  | nil => apply V3.ext' <;> simp [Spec3.first_nil, Spec3.area, V3.zero, Scalar.lit]
  | cons t r ih =>
    rw [List.map_cons, Spec3.first_cons, Spec3.first_cons, Spec3.area_cons, ih]
    have ha := Spec3.triArea_add n c t
    obtain ⟨⟨ax,ay,az⟩,⟨bx,b_y,bz⟩,⟨cx,cy,cz⟩⟩ := t
    obtain ⟨c1,c2,c3⟩ := c
    simp only [Spec3.triFirst, ha]
    simp only [Tri.map]
    apply V3.ext' <;> simp [Scalar.lit] <;> ring

theorem Spec3.centroid_add (n c : V3 ℝ) (Ts : List (Tri ℝ)) (hA : Spec3.area n Ts ≠ 0) :
    Spec3.centroid n (Ts.map (Tri.map (· + c))) = Spec3.centroid n Ts + c := by
  unfold Spec3.centroid
  rw [Spec3.first_add, Spec3.area_add]
  apply V3.ext' <;> simp <;> field_simp

theorem dot_add_right' (u v w : V3 ℝ) : V3.dot u (v + w) = V3.dot u v + V3.dot u w := by
  obtain ⟨a, b, c⟩ := u; obtain ⟨d, e, f⟩ := v; obtain ⟨g, h, i⟩ := w
  simp only [V3.dot]; unfold_model; ring

/-- **the polygon centroid getter moves with a planar cycle** (hypotheses = the certificates of
C04: `R` is a frame for the stored normal, the vertices and a triangulation bounded by the cycle lie
in the plane `n · v = d`, non-zero area) -/
theorem polygon_centroid_add {vs : List (V3 ℝ)} {n : V3 ℝ} {d : ℝ} {R : M3 ℝ} {Ts : List (Tri ℝ)}
    (hF : IsFrame R n) (hpl : InPlane n d vs) (hT : TrisInPlane n d Ts) (h : Triangulates vs Ts)
    (hA : Spec3.area n Ts ≠ 0) (t : V3 ℝ) :
    Poly2.centroid (vs.map fun v => v + t) n R = Poly2.centroid vs n R + t := by
  have hpl' : InPlane n (d + V3.dot n t) (vs.map fun v => v + t) := by
    intro v hv
    obtain ⟨w, hw, rfl⟩ := List.mem_map.mp hv
    rw [dot_add_right', hpl w hw]
  have hT' : TrisInPlane n (d + V3.dot n t) (Ts.map (Tri.map (· + t))) := by
    intro u hu
    obtain ⟨w, hw, rfl⟩ := List.mem_map.mp hu
    obtain ⟨h1, h2, h3⟩ := hT w hw
    simp only [Tri.map, dot_add_right', h1, h2, h3, and_self]
  have h' : Triangulates (vs.map fun v => v + t) (Ts.map (Tri.map (· + t))) :=
    EdgeChainEq.map_vertices _ h
  have hA' : Spec3.area n (Ts.map (Tri.map (· + t))) ≠ 0 := by rw [Spec3.area_add]; exact hA
  rw [centroid_general_exact hF hpl' hT' h' hA', centroid_general_exact hF hpl hT h hA,
    Spec3.centroid_add n t Ts hA]

theorem polygon_centroid_equivariant {vs : List (V3 ℝ)} {n : V3 ℝ} {d : ℝ} {R : M3 ℝ} (R2 : M3 ℝ)
    {Ts : List (Tri ℝ)} (hF : IsFrame R n) (hpl : InPlane n d vs) (hT : TrisInPlane n d Ts)
    (h : Triangulates vs Ts) (hA : Spec3.area n Ts ≠ 0) :
    Spec.EquivariantAt (measPolygon n R R2) vs :=
  fun t => polygon_centroid_add hF hpl hT h hA t

end C19
