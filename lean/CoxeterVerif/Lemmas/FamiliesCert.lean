import CoxeterVerif.Lemmas.FamiliesZ5
/-! Soundness of the pair-certificate vertex-set checker `Fam.isVertexSetCert` with respect to the
    real polytope (`IsVertexR`): the kernel only CHECKS the certificates emitted by the translator;
    this file proves that a successful check is a statement about the polytope over ℝ.

    Geometry used (all elementary, over ℝ³, `u = a × b` the direction of the line on which the
    planes `a·x = α`, `b·x = β` meet):
    * `line_param`  — on that line every linear functional `e` varies as `(e·u)·σ/|u|²`;
    * `seg_end`     — a feasible point of the line at which a third plane with `c·u ≠ 0` is tight,
      while `e` (tight at `p`, `e·u < 0`) and `f` (tight at `q`, `f·u > 0`) confine it to `[p, q]`
      and `p`, `q` satisfy the third half-space, is `p` or `q`. -/
open Scalar
set_option maxRecDepth 4000

namespace Fam
noncomputable section

/-! ### geometry of a line in ℝ³ -/

theorem det3_eq_dot_cross (a b c : V3 ℝ) : V3.det3 a b c = V3.dot c (V3.cross a b) := by
  simp only [V3.det3, V3.dot, V3.cross]; ring

/-- two points with the same value of `a·` and `b·`: along `u = a × b` every functional `e` changes
    by `(e·u)(x·u − p·u)/|u|²` -/
theorem line_param (a b x p e : V3 ℝ) (ha : V3.dot a x = V3.dot a p) (hb : V3.dot b x = V3.dot b p) :
    (V3.dot e x - V3.dot e p) * V3.dot (V3.cross a b) (V3.cross a b)
      = V3.dot e (V3.cross a b) * (V3.dot x (V3.cross a b) - V3.dot p (V3.cross a b)) := by
  obtain ⟨a1, a2, a3⟩ := a
  obtain ⟨b1, b2, b3⟩ := b
  obtain ⟨x1, x2, x3⟩ := x
  obtain ⟨p1, p2, p3⟩ := p
  obtain ⟨e1, e2, e3⟩ := e
  simp only [V3.dot, V3.cross] at *
  linear_combination
    (e1 * ((a3 * b1 - a1 * b3) * a3 - (a1 * b2 - a2 * b1) * a2)
      + e2 * ((a1 * b2 - a2 * b1) * a1 - (a2 * b3 - a3 * b2) * a3)
      + e3 * ((a2 * b3 - a3 * b2) * a2 - (a3 * b1 - a1 * b3) * a1)) * hb
    - (e1 * ((a3 * b1 - a1 * b3) * b3 - (a1 * b2 - a2 * b1) * b2)
      + e2 * ((a1 * b2 - a2 * b1) * b1 - (a2 * b3 - a3 * b2) * b3)
      + e3 * ((a2 * b3 - a3 * b2) * b2 - (a3 * b1 - a1 * b3) * b1)) * ha

theorem normSq_pos_of_dot_ne (c u : V3 ℝ) (h : V3.dot c u ≠ 0) : 0 < V3.dot u u := by
  obtain ⟨c1, c2, c3⟩ := c
  obtain ⟨u1, u2, u3⟩ := u
  simp only [V3.dot] at *
  by_contra hn
  have h1 : u1 = 0 := by nlinarith [sq_nonneg u1, sq_nonneg u2, sq_nonneg u3]
  have h2 : u2 = 0 := by nlinarith [sq_nonneg u1, sq_nonneg u2, sq_nonneg u3]
  have h3 : u3 = 0 := by nlinarith [sq_nonneg u1, sq_nonneg u2, sq_nonneg u3]
  apply h; rw [h1, h2, h3]; ring

/-- same `a·`, `b·` and `u·` value (`u = a × b ≠ 0`): the same point -/
theorem eq_of_line_param (a b x p : V3 ℝ) (ha : V3.dot a x = V3.dot a p) (hb : V3.dot b x = V3.dot b p)
    (hu : 0 < V3.dot (V3.cross a b) (V3.cross a b))
    (hs : V3.dot x (V3.cross a b) - V3.dot p (V3.cross a b) = 0) : x = p := by
  have h1 := line_param a b x p ⟨1, 0, 0⟩ ha hb
  have h2 := line_param a b x p ⟨0, 1, 0⟩ ha hb
  have h3 := line_param a b x p ⟨0, 0, 1⟩ ha hb
  rw [hs, mul_zero] at h1 h2 h3
  have e1 := (mul_eq_zero.mp h1).resolve_right hu.ne'
  have e2 := (mul_eq_zero.mp h2).resolve_right hu.ne'
  have e3 := (mul_eq_zero.mp h3).resolve_right hu.ne'
  simp only [V3.dot] at e1 e2 e3
  apply V3.ext' <;> linarith

/-- **Ends of a segment.** `x`, `p`, `q` on the line of the planes `a`, `b`; `e` is tight at `p`,
    satisfied at `x` and decreases along `u`; `f` is tight at `q`, satisfied at `x` and increases
    along `u`; a third plane `c` with `c·u ≠ 0` is tight at `x` and satisfied at `p` and `q`.
    Then `x = p` or `x = q`. -/
theorem seg_end (a b c e f p q x : V3 ℝ) (Dk : ℝ)
    (hap : V3.dot a x = V3.dot a p) (hbp : V3.dot b x = V3.dot b p)
    (haq : V3.dot a x = V3.dot a q) (hbq : V3.dot b x = V3.dot b q)
    (he : V3.dot e x ≤ V3.dot e p) (heu : V3.dot e (V3.cross a b) < 0)
    (hf : V3.dot f x ≤ V3.dot f q) (hfu : 0 < V3.dot f (V3.cross a b))
    (hck : V3.dot c x = Dk) (hcp : V3.dot c p ≤ Dk) (hcq : V3.dot c q ≤ Dk)
    (hcu : V3.dot c (V3.cross a b) ≠ 0) : x = p ∨ x = q := by
  have hu := normSq_pos_of_dot_ne c _ hcu
  have Le := line_param a b x p e hap hbp
  have Lc := line_param a b x p c hap hbp
  have Lf := line_param a b x q f haq hbq
  have Lc' := line_param a b x q c haq hbq
  set U := V3.dot (V3.cross a b) (V3.cross a b) with hU
  set σ := V3.dot x (V3.cross a b) - V3.dot p (V3.cross a b) with hσ
  set σ' := V3.dot x (V3.cross a b) - V3.dot q (V3.cross a b) with hσ'
  -- σ ≥ 0, σ' ≤ 0
  have hσ0 : 0 ≤ σ := by
    have : V3.dot e (V3.cross a b) * σ ≤ 0 := by
      rw [← Le]; exact mul_nonpos_of_nonpos_of_nonneg (by linarith) hu.le
    by_contra hneg
    push Not at hneg
    nlinarith
  have hσ'0 : σ' ≤ 0 := by
    have : V3.dot f (V3.cross a b) * σ' ≤ 0 := by
      rw [← Lf]; exact mul_nonpos_of_nonpos_of_nonneg (by linarith) hu.le
    by_contra hpos
    push Not at hpos
    nlinarith
  have hc1 : 0 ≤ V3.dot c (V3.cross a b) * σ := by
    rw [← Lc]; exact mul_nonneg (by linarith) hu.le
  have hc2 : 0 ≤ V3.dot c (V3.cross a b) * σ' := by
    rw [← Lc']; exact mul_nonneg (by linarith) hu.le
  rcases lt_or_gt_of_ne hcu with hneg | hpos
  · left
    have : σ = 0 := by
      by_contra hne
      have : 0 < σ := lt_of_le_of_ne hσ0 (Ne.symm hne)
      nlinarith
    exact eq_of_line_param a b x p hap hbp hu this
  · right
    have : σ' = 0 := by
      by_contra hne
      have : σ' < 0 := lt_of_le_of_ne hσ'0 hne
      nlinarith
    exact eq_of_line_param a b x q haq hbq hu this

/-! ### the checker -/

theorem zTight_iff (r : ZRow) (v : ZV) (vd : Z5) :
    zTight r v vd = true ↔ V3.dot (ZV.toReal r.1) (ZV.toReal v) = r.2.toReal * vd.toReal := by
  simp only [zTight, Z5.isZero_iff, Z5.toReal_sub, Z5.toReal_mul, dot_toReal, sub_eq_zero]

/-- tightness at the point `v/vd` -/
theorem zTight_div (r : ZRow) (v : ZV) (vd : Z5) (hvd : 0 < vd.toReal) (h : zTight r v vd = true) :
    V3.dot (ZV.toReal r.1) (V3.sdiv (ZV.toReal v) vd.toReal) = r.2.toReal := by
  rw [dot_sdiv, (zTight_iff r v vd).mp h, mul_div_assoc, div_self hvd.ne', mul_one]

theorem feasible_div (R : List ZRow) (v : ZV) (vd : Z5) (hvd : 0 < vd.toReal)
    (h : zFeasible R v vd = true) (r : ZRow) (hr : r ∈ R) :
    V3.dot (ZV.toReal r.1) (V3.sdiv (ZV.toReal v) vd.toReal) ≤ r.2.toReal := by
  have := (feasible_div_iff R v vd hvd).mp h (rowR r) (List.mem_map_of_mem hr)
  simpa [rowR] using this

/-- **Soundness of one pair certificate.** If the check of the certificate of the planes `r0`, `r1`
    succeeds and every point of `V/vd` is feasible, then every feasible point on both planes at
    which a third plane `r2 ∈ R`, independent of the two, is tight, is a point of `V/vd`. -/
theorem pairCertOk_sound (R : List ZRow) (V : List ZV) (vd : Z5) (r0 r1 : ZRow) (cert : PairCert)
    (h : pairCertOk R V vd r0 r1 cert = true) (hvd : 0 < vd.toReal)
    (hV : ∀ v ∈ V, zFeasible R v vd = true)
    (x : V3 ℝ) (hfeas : ∀ r ∈ R, V3.dot (ZV.toReal r.1) x ≤ r.2.toReal)
    (h0 : V3.dot (ZV.toReal r0.1) x = r0.2.toReal) (h1 : V3.dot (ZV.toReal r1.1) x = r1.2.toReal)
    (r2 : ZRow) (hr2 : r2 ∈ R) (h2 : V3.dot (ZV.toReal r2.1) x = r2.2.toReal)
    (hdet : tripleDet (rowR r0, rowR r1, rowR r2) ≠ 0) :
    ∃ v ∈ V, x = V3.sdiv (ZV.toReal v) vd.toReal := by
  have hcu : V3.dot (ZV.toReal r2.1) (V3.cross (ZV.toReal r0.1) (ZV.toReal r1.1)) ≠ 0 := by
    rw [← det3_eq_dot_cross]; exact hdet
  cases cert with
  | par =>
    exfalso
    simp only [pairCertOk, Bool.and_eq_true, Z5.isZero_iff] at h
    obtain ⟨⟨hx, hy⟩, hz⟩ := h
    have hc := cross_toReal r0.1 r1.1
    apply hcu
    rw [← hc]
    simp only [V3.dot, ZV.toReal, hx, hy, hz]; ring
  | miss m1 m2 l1 l2 al be =>
    exfalso
    unfold pairCertOk at h
    cases hm1 : R[m1]? with
    | none => simp [hm1] at h
    | some e1 =>
      cases hm2 : R[m2]? with
      | none => simp [hm1, hm2] at h
      | some e2 =>
        simp only [hm1, hm2, Bool.and_eq_true, Z5.le_iff, Z5.lt_iff, zvbeq_iff, add_toReal, smul_toReal,
          Z5.toReal_add, Z5.toReal_mul, Z5.toReal_zero] at h
        obtain ⟨⟨⟨hl1, hl2⟩, hvec⟩, hlt⟩ := h
        have f1 := hfeas e1 (List.mem_of_getElem? hm1)
        have f2 := hfeas e2 (List.mem_of_getElem? hm2)
        have hx := congrArg V3.x hvec
        have hy := congrArg V3.y hvec
        have hz := congrArg V3.z hvec
        simp only [V3.add_x, V3.add_y, V3.add_z, V3.smul_x, V3.smul_y, V3.smul_z] at hx hy hz
        simp only [V3.dot] at f1 f2 h0 h1
        have key : l1.toReal * ((ZV.toReal e1.1).x * x.x + (ZV.toReal e1.1).y * x.y + (ZV.toReal e1.1).z * x.z)
            + l2.toReal * ((ZV.toReal e2.1).x * x.x + (ZV.toReal e2.1).y * x.y + (ZV.toReal e2.1).z * x.z)
            = al.toReal * r0.2.toReal + be.toReal * r1.2.toReal := by
          rw [← h0, ← h1]
          linear_combination x.x * hx + x.y * hy + x.z * hz
        have b1 := mul_le_mul_of_nonneg_left f1 hl1
        have b2 := mul_le_mul_of_nonneg_left f2 hl2
        linarith
  | seg v w mlo mhi =>
    unfold pairCertOk at h
    cases hv : V[v]? with
    | none => simp [hv] at h
    | some pv =>
      cases hw : V[w]? with
      | none => simp [hv, hw] at h
      | some pw =>
        cases hlo : R[mlo]? with
        | none => simp [hv, hw, hlo] at h
        | some elo =>
          cases hhi : R[mhi]? with
          | none => simp [hv, hw, hlo, hhi] at h
          | some ehi =>
            simp only [hv, hw, hlo, hhi, Bool.and_eq_true, Z5.lt_iff, dot_toReal, cross_toReal,
              Z5.toReal_zero] at h
            obtain ⟨⟨⟨⟨⟨⟨⟨t0v, t1v⟩, t0w⟩, t1w⟩, tlo⟩, slo⟩, thi⟩, shi⟩ := h
            have hpv := List.mem_of_getElem? hv
            have hpw := List.mem_of_getElem? hw
            have hElo := List.mem_of_getElem? hlo
            have hEhi := List.mem_of_getElem? hhi
            have := seg_end (ZV.toReal r0.1) (ZV.toReal r1.1) (ZV.toReal r2.1) (ZV.toReal elo.1)
              (ZV.toReal ehi.1) (V3.sdiv (ZV.toReal pv) vd.toReal) (V3.sdiv (ZV.toReal pw) vd.toReal) x
              r2.2.toReal
              (by rw [h0, zTight_div r0 pv vd hvd t0v]) (by rw [h1, zTight_div r1 pv vd hvd t1v])
              (by rw [h0, zTight_div r0 pw vd hvd t0w]) (by rw [h1, zTight_div r1 pw vd hvd t1w])
              (by rw [zTight_div elo pv vd hvd tlo]; exact hfeas elo hElo) slo
              (by rw [zTight_div ehi pw vd hvd thi]; exact hfeas ehi hEhi) shi
              h2 (feasible_div R pv vd hvd (hV pv hpv) r2 hr2) (feasible_div R pw vd hvd (hV pw hpw) r2 hr2)
              hcu
            rcases this with rfl | rfl
            · exact ⟨pv, hpv, rfl⟩
            · exact ⟨pw, hpw, rfl⟩

theorem zRowCertOk_spec (R : List ZRow) (V : List ZV) (vd : Z5) (r0 : ZRow) (L : List ZRow)
    (C : List PairCert) (h : zRowCertOk R V vd r0 L C = true) (r1 : ZRow) (hr1 : r1 ∈ L) :
    ∃ c, pairCertOk R V vd r0 r1 c = true := by
  induction L generalizing C with
  | nil => simp at hr1
  | cons y ys ih =>
    cases C with
    | nil => simp [zRowCertOk] at h
    | cons c cs =>
      simp only [zRowCertOk, Bool.and_eq_true] at h
      rcases List.mem_cons.mp hr1 with rfl | hmem
      · exact ⟨c, h.1⟩
      · exact ih cs h.2 hmem

theorem zPairsCertOk_spec (R : List ZRow) (V : List ZV) (vd : Z5) (L : List ZRow)
    (C : List (List PairCert)) (h : zPairsCertOk R V vd L C = true) (r0 r1 : ZRow)
    (hs : [r0, r1].Sublist L) : ∃ c, pairCertOk R V vd r0 r1 c = true := by
  induction L generalizing C with
  | nil => simp at hs
  | cons y ys ih =>
    cases C with
    | nil => simp [zPairsCertOk] at h
    | cons c cs =>
      simp only [zPairsCertOk, Bool.and_eq_true] at h
      cases hs with
      | cons _ h' => exact ih cs h.2 h'
      | cons_cons _ h' => exact zRowCertOk_spec R V vd _ ys c h.1 r1 (List.singleton_sublist.mp h')

/-- **Soundness of the certificate checker.** If `isVertexSetCert R V vd C` evaluates to `true`
    then `vd > 0` and the vertices of the real polytope `{x | ∀ (P,D) ∈ R, P·x ≤ D}` are exactly the
    points `v / vd`, `v ∈ V` — the same conclusion as `isVertexSet_sound`, for any certificate
    list `C` (the certificates are untrusted data). -/
theorem isVertexSetCert_sound (R : List ZRow) (V : List ZV) (vd : Z5) (C : List (List PairCert))
    (h : isVertexSetCert R V vd C = true) :
    0 < vd.toReal ∧
    ∀ x : V3 ℝ, IsVertexR (R.map rowR) x ↔ ∃ v ∈ V, x = V3.sdiv (ZV.toReal v) vd.toReal := by
  simp only [isVertexSetCert, Bool.and_eq_true, List.all_eq_true] at h
  obtain ⟨⟨⟨hvd, _⟩, hV⟩, hC⟩ := h
  have hvd' : 0 < vd.toReal := by simpa using (Z5.lt_iff _ _).mp hvd
  have hVf : ∀ v ∈ V, zFeasible R v vd = true := by
    intro v hv
    have := hV v hv
    simp only [zIsVertex, Bool.and_eq_true] at this
    exact this.1
  refine ⟨hvd', fun x => ⟨?_, ?_⟩⟩
  · rintro ⟨hfeas, t, hsub, hdet, h0, h1, h2⟩
    obtain ⟨l', hl', hmap⟩ := List.sublist_map_iff.mp hsub
    obtain ⟨r0, r1, r2, rfl⟩ : ∃ r0 r1 r2, l' = [r0, r1, r2] := by
      have hlen : l'.length = 3 := by
        have := congrArg List.length hmap; simp at this; omega
      match l', hlen with
      | [a, b, c], _ => exact ⟨a, b, c, rfl⟩
    simp only [List.map_cons, List.map_nil, List.cons.injEq, and_true] at hmap
    obtain ⟨e0, e1, e2⟩ := hmap
    have ht : t = (rowR r0, rowR r1, rowR r2) := by
      rcases t with ⟨a, b, c⟩; simp only at e0 e1 e2; rw [e0, e1, e2]
    subst ht
    have hpair : [r0, r1].Sublist R :=
      (List.Sublist.cons_cons r0 (List.Sublist.cons_cons r1 (List.nil_sublist [r2]))).trans hl'
    obtain ⟨c, hc⟩ := zPairsCertOk_spec R V vd R C hC r0 r1 hpair
    have hr2 : r2 ∈ R := hl'.subset (by simp)
    refine pairCertOk_sound R V vd r0 r1 c hc hvd' hVf x ?_ h0 h1 r2 hr2 h2 hdet
    intro r hr
    have := hfeas (rowR r) (List.mem_map_of_mem hr)
    simpa [rowR] using this
  · rintro ⟨v, hv, rfl⟩
    have hvert := hV v hv
    simp only [zIsVertex, Bool.and_eq_true] at hvert
    obtain ⟨hf, hind⟩ := hvert
    refine ⟨(feasible_div_iff R v vd hvd').mp hf, ?_⟩
    obtain ⟨r0, r1, r2, hsub, hz⟩ := indepTriple_spec _ hind
    have hsubR : [r0, r1, r2].Sublist R := hsub.trans List.filter_sublist
    have htight : ∀ r ∈ [r0, r1, r2], V3.dot (rowR r).1 (V3.sdiv (ZV.toReal v) vd.toReal) = (rowR r).2 := by
      intro r hr
      have hmem := hsub.subset hr
      simp only [List.mem_filter, Z5.isZero_iff, Z5.toReal_sub, Z5.toReal_mul, dot_toReal] at hmem
      rw [dot_sdiv]
      simp only [rowR]
      rw [div_eq_iff hvd'.ne']; linarith [hmem.2]
    refine ⟨(rowR r0, rowR r1, rowR r2), ?_, ?_, htight r0 (by simp), htight r1 (by simp), htight r2 (by simp)⟩
    · exact hsubR.map rowR
    · rw [← zDet_toReal]
      intro h0
      have := (Z5.isZero_iff _).mpr h0
      rw [this] at hz; cases hz

/-- **Corner solids through certificates, real form.** If the kernel evaluates
    `T.cornerIsCert a c S C` to `true` then, for the model's real plane table and the real parameters
    `a/den`, `c/den`, the vertices of `{x | ∀ j, P_j·x ≤ dist_j}` are exactly the points of `S`. -/
theorem cornerIsCert_sound (T : Table) (a c : Z5) (S : Solid) (C : List (List PairCert)) (hden : 0 < T.den)
    (h : T.cornerIsCert a c S C = true) (x : V3 ℝ) :
    IsVertexR (rows (T.planesS : List (V3 ℝ)) T.types (a.toScalar T.den) (T.b.toScalar T.den)
      (c.toScalar T.den)) x ↔ ∃ v ∈ S.V, x = V3.sdiv (ZV.toReal v) (S.td : ℝ) := by
  have hk : (0:ℝ) < 1 / (T.den : ℝ) := by
    have : (0:ℝ) < T.den := by exact_mod_cast hden
    positivity
  rw [rows_eq_scaled, isVertexR_scale _ hk]
  have := (isVertexSetCert_sound _ _ _ C h).2 x
  simpa using this

end
end Fam
