import CoxeterVerif.Lemmas.Basic
import CoxeterVerif.Model.Steiner
import CoxeterVerif.Spec.Steiner
/-! Helper lemmas for C11: fold/sum lemmas by list induction, `π ≠ 0`, norms, `Except` plumbing. -/
open Scalar

namespace Steiner
noncomputable section

theorem pi_ne_zero : (Real.pi : ℝ) ≠ 0 := Real.pi_pos.ne'

/-- `Σ (c · xᵢ) = c · Σ xᵢ` -/
theorem sum_map_mul_left (c : ℝ) {β : Type} (f : β → ℝ) (l : List β) :
    (l.map fun x => c * f x).sum = c * (l.map f).sum := by
  induction l with
  | nil => simp
  | cons a l ih => simp only [List.map_cons, List.sum_cons, ih]; ring

/-- the Python accumulation `acc = a; for e: acc += f e` is `a + Σ f e` -/
theorem foldl_add (f : β → ℝ) (l : List β) (a : ℝ) :
    l.foldl (fun acc e => acc + f e) a = a + (l.map f).sum := by
  induction l generalizing a with
  | nil => simp
  | cons b l ih => simp only [List.foldl_cons, List.map_cons, List.sum_cons, ih]; ring

/-- the edge sum `Σ L (π − φ)` as a `List.sum` -/
def edgeSumR (es : List (ℝ × ℝ)) : ℝ := (es.map fun e => e.1 * (Real.pi - e.2)).sum

theorem spec_edgeSum_eq (es : List (ℝ × ℝ)) : SteinerSpec.edgeSum es = edgeSumR es := by
  induction es with
  | nil => simp [SteinerSpec.edgeSum, edgeSumR]
  | cons e es ih =>
    simp only [SteinerSpec.edgeSum, SteinerSpec.exterior, ih, edgeSumR, List.map_cons, List.sum_cons,
      Scalar.pi_real]

/-- `mean_curvature` loop: `(Σ L(π−φ)) / 8π` -/
theorem meanCurvatureOf_eq (es : List (ℝ × ℝ)) :
    CP.meanCurvatureOf es = edgeSumR es / (8 * Real.pi) := by
  unfold CP.meanCurvatureOf
  rw [foldl_add (fun e : ℝ × ℝ => e.1 * (Scalar.pi - e.2))]
  simp only [edgeSumR, Scalar.lit, Scalar.ofNat_real, Scalar.pi_real]
  push_cast; ring

/-- `v_cyl` loop of `volume`: `(r²/2) Σ L(π−φ)` -/
theorem vCyl_eq (r : ℝ) (es : List (ℝ × ℝ)) :
    es.foldl (fun acc e => acc + (Scalar.pi * sqr r) * ((Scalar.pi - e.2) / (lit 2 * Scalar.pi)) * e.1)
      (lit 0) = r * r / 2 * edgeSumR es := by
  rw [foldl_add (fun e : ℝ × ℝ => (Scalar.pi * sqr r) * ((Scalar.pi - e.2) / (lit 2 * Scalar.pi)) * e.1)]
  have h : ∀ e : ℝ × ℝ, (Scalar.pi * sqr r) * ((Scalar.pi - e.2) / (lit 2 * Scalar.pi)) * e.1
      = (r * r / 2) * (e.1 * (Real.pi - e.2)) := by
    intro e
    simp only [Scalar.lit, Scalar.ofNat_real, Scalar.pi_real, Scalar.sqr]
    have := pi_ne_zero
    push_cast; field_simp
  rw [funext h, sum_map_mul_left (r * r / 2) (fun e : ℝ × ℝ => e.1 * (Real.pi - e.2))]
  simp only [edgeSumR, Scalar.lit, Scalar.ofNat_real]
  push_cast; ring

/-- `a_cyl` loop of `surface_area`: `r Σ L(π−φ)` -/
theorem aCyl_eq (r : ℝ) (es : List (ℝ × ℝ)) :
    es.foldl (fun acc e => acc + (lit 2 * Scalar.pi * r) * ((Scalar.pi - e.2) / (lit 2 * Scalar.pi)) * e.1)
      (lit 0) = r * edgeSumR es := by
  rw [foldl_add (fun e : ℝ × ℝ => (lit 2 * Scalar.pi * r) * ((Scalar.pi - e.2) / (lit 2 * Scalar.pi)) * e.1)]
  have h : ∀ e : ℝ × ℝ, (lit 2 * Scalar.pi * r) * ((Scalar.pi - e.2) / (lit 2 * Scalar.pi)) * e.1
      = r * (e.1 * (Real.pi - e.2)) := by
    intro e
    simp only [Scalar.lit, Scalar.ofNat_real, Scalar.pi_real]
    have := pi_ne_zero
    push_cast; field_simp
  rw [funext h, sum_map_mul_left r (fun e : ℝ × ℝ => e.1 * (Real.pi - e.2))]
  simp only [edgeSumR, Scalar.lit, Scalar.ofNat_real]
  push_cast; ring

/-! ### norms and perimeters -/

theorem norm_sub_comm (u v : V3 ℝ) : V3.norm (u - v) = V3.norm (v - u) := by
  unfold V3.norm
  congr 1
  simp only [V3.normSq, V3.dot, V3.sub_x, V3.sub_y, V3.sub_z]; ring

theorem norm_nonneg (u : V3 ℝ) : 0 ≤ V3.norm u := by
  unfold V3.norm; exact Real.sqrt_nonneg _

theorem zipWith_sum_nonneg {β γ : Type} (f : β → γ → ℝ) (hf : ∀ a b, 0 ≤ f a b) :
    ∀ (l1 : List β) (l2 : List γ), 0 ≤ (List.zipWith f l1 l2).sum
  | [], _ => by simp
  | _ :: _, [] => by simp
  | a :: l1, b :: l2 => by
    simp only [List.zipWith_cons_cons, List.sum_cons]
    have := zipWith_sum_nonneg f hf l1 l2
    have := hf a b
    linarith

theorem zipWith_swap {β γ : Type} (f : β → γ → ℝ) (g : γ → β → ℝ) (h : ∀ a b, f a b = g b a) :
    ∀ (l1 : List β) (l2 : List γ), List.zipWith f l1 l2 = List.zipWith g l2 l1
  | [], l2 => by cases l2 <;> simp
  | _ :: _, [] => by simp
  | a :: l1, b :: l2 => by
    simp only [List.zipWith_cons_cons, h a b, zipWith_swap f g h l1 l2]

/-- the two edge-length sums of `signed_area` and `perimeter` (opposite difference order) agree -/
theorem edgeLengthSum_eq_perimeter (vs : List (V3 ℝ)) :
    SpheroPolygon.edgeLengthSum vs = Polygon.perimeter vs := by
  unfold SpheroPolygon.edgeLengthSum Polygon.perimeter
  rw [zipWith_swap (fun v w : V3 ℝ => V3.norm (v - w)) (fun w v : V3 ℝ => V3.norm (w - v))
    (fun a b => norm_sub_comm a b) vs (roll vs)]

theorem perimeter_nonneg (vs : List (V3 ℝ)) : 0 ≤ Polygon.perimeter vs := by
  unfold Polygon.perimeter
  rw [Scalar.sum_real]
  exact zipWith_sum_nonneg _ (fun a b => norm_nonneg _) _ _

/-! ### `_find_neighbors` and the neighbour test of `get_dihedral` -/

/-- one step of `_find_neighbors` -/
def nbStep (nb : List (List Nat)) (f : FaceIx) : List (List Nat) :=
  (nb.modify f.i (· ++ [f.j])).modify f.j (· ++ [f.i])

theorem findNeighbors_eq (n : Nat) (fi : List FaceIx) :
    CP.findNeighbors n fi = fi.foldl nbStep (List.replicate n []) := rfl

theorem nbStep_length (nb : List (List Nat)) (f : FaceIx) : (nbStep nb f).length = nb.length := by
  simp [nbStep]

theorem nbStep_get (nb : List (List Nat)) (f : FaceIx) (a : Nat) :
    (nbStep nb f)[a]? =
      (nb[a]?).map fun l => (if f.j = a then (· ++ [f.i]) else id) ((if f.i = a then (· ++ [f.j]) else id) l) := by
  unfold nbStep
  rw [List.getElem?_modify, List.getElem?_modify]
  cases nb[a]? with
  | none => rfl
  | some l => by_cases h1 : f.i = a <;> by_cases h2 : f.j = a <;> simp [h1, h2]

theorem nbStep_mono (nb : List (List Nat)) (f : FaceIx) (a x : Nat) (na : List Nat)
    (h : nb[a]? = some na) (hx : x ∈ na) : ∃ na', (nbStep nb f)[a]? = some na' ∧ x ∈ na' := by
  rw [nbStep_get, h]
  refine ⟨_, rfl, ?_⟩
  by_cases h1 : f.i = a <;> by_cases h2 : f.j = a <;> simp [h1, h2, hx]

theorem nbStep_adds (nb : List (List Nat)) (f : FaceIx) (h : f.i < nb.length) :
    ∃ na', (nbStep nb f)[f.i]? = some na' ∧ f.j ∈ na' := by
  rw [nbStep_get, List.getElem?_eq_getElem h]
  refine ⟨_, rfl, ?_⟩
  by_cases h2 : f.j = f.i <;> simp [h2]

theorem foldl_nbStep_length (fi : List FaceIx) (nb : List (List Nat)) :
    (fi.foldl nbStep nb).length = nb.length := by
  induction fi generalizing nb with
  | nil => rfl
  | cons f fi ih => simp [List.foldl_cons, ih, nbStep_length]

theorem foldl_nbStep_mono (fi : List FaceIx) (nb : List (List Nat)) (a x : Nat) (na : List Nat)
    (h : nb[a]? = some na) (hx : x ∈ na) :
    ∃ na', (fi.foldl nbStep nb)[a]? = some na' ∧ x ∈ na' := by
  induction fi generalizing nb na with
  | nil => exact ⟨na, h, hx⟩
  | cons f fi ih =>
    obtain ⟨na1, h1, hx1⟩ := nbStep_mono nb f a x na h hx
    exact ih (nbStep nb f) na1 h1 hx1

/-- every pair yielded by `_get_face_intersections` passes the neighbour test of `get_dihedral` -/
theorem foldl_nbStep_mem (fi : List FaceIx) (nb : List (List Nat)) (f : FaceIx) (hf : f ∈ fi)
    (hi : f.i < nb.length) : ∃ na, (fi.foldl nbStep nb)[f.i]? = some na ∧ f.j ∈ na := by
  induction fi generalizing nb with
  | nil => cases hf
  | cons g fi ih =>
    rcases List.mem_cons.mp hf with rfl | hmem
    · obtain ⟨na1, h1, hx1⟩ := nbStep_adds nb f hi
      exact foldl_nbStep_mono fi _ _ _ na1 h1 hx1
    · exact ih (nbStep nb g) hmem (by rw [nbStep_length]; exact hi)

theorem mapM_ok_of_forall {β γ : Type} (g : β → Except String γ) (h : β → γ) (l : List β)
    (hg : ∀ x ∈ l, g x = .ok (h x)) : l.mapM g = .ok (l.map h) := by
  induction l with
  | nil => rfl
  | cons a l ih =>
    rw [List.mapM_cons, hg a (List.mem_cons_self), ih (fun x hx => hg x (List.mem_cons_of_mem _ hx))]
    rfl


/-! ### `Except` plumbing -/

theorem bind_ok {ε β γ : Type} (x : β) (f : β → Except ε γ) :
    ((Except.ok x : Except ε β) >>= f) = f x := rfl

theorem bind_error {ε β γ : Type} (e : ε) (f : β → Except ε γ) :
    ((Except.error e : Except ε β) >>= f) = Except.error e := rfl

/-! ### well-formed cores -/

/-- all indices stored in the face-intersection list are in range -/
def Core.WellFormed (c : Core ℝ) : Prop :=
  ∀ f ∈ c.fi, f.i < c.normals.length ∧ f.j < c.normals.length ∧
    f.e0 < c.vertices.length ∧ f.e1 < c.vertices.length

/-- `(L, φ)` of one face intersection -/
def Core.edgeOf (c : Core ℝ) (f : FaceIx) : ℝ × ℝ :=
  (V3.norm (c.vertices.getD f.e0 V3.zero - c.vertices.getD f.e1 V3.zero),
   CP.dihedralAngle (c.normals.getD f.i V3.zero) (c.normals.getD f.j V3.zero))

theorem sqrt4 : Real.sqrt 4 = 2 := by
  rw [show (4:ℝ) = 2 * 2 by norm_num]; exact Real.sqrt_mul_self (by norm_num)

end
end Steiner
