import CoxeterVerif.Lemmas.Covariance
/-!
  Helper lemmas for C09, part 4: the group the property quantifies over, as ONE object.

  `Sim` = a similarity `x ↦ k · R x + t` of 3-space (`k` a real, `R` nine reals, `t` a vector);
  `Sim.Proper` = `0 < k` and `IsRot R` (`RᵀR = 1`, `det R = 1`): the proper rotations, translations
  and positive uniform scalings of the property statement and all their compositions.
  `g.pt` is the action on points, `g.vec` the action on differences of points (no translation).
  Everything a model function is built from transforms homogeneously:
  `dot ↦ k²`, `norm ↦ k`, `cross ↦ k² R(·)`, `det3 ↦ k³`.
-/
open Scalar
set_option maxRecDepth 4000
noncomputable section

structure Sim where
  k : ℝ
  R : M3 ℝ
  t : V3 ℝ

namespace Sim

structure Proper (g : Sim) : Prop where
  kpos : 0 < g.k
  rot : IsRot g.R

/-- action on points -/
def pt (g : Sim) (p : V3 ℝ) : V3 ℝ := V3.smul g.k (M3.mulVec g.R p) + g.t
/-- action on vectors (differences of points, normals × length) -/
def vec (g : Sim) (v : V3 ℝ) : V3 ℝ := V3.smul g.k (M3.mulVec g.R v)
/-- action on directions (unit normals): rotation only -/
def dir (g : Sim) (n : V3 ℝ) : V3 ℝ := M3.mulVec g.R n

/-- the identity matrix -/
def idM : M3 ℝ := ⟨1, 0, 0, 0, 1, 0, 0, 0, 1⟩
theorem isRot_id : IsRot idM := by constructor <;> simp [idM, M3.det]
theorem mulVec_id (p : V3 ℝ) : M3.mulVec idM p = p := by
  obtain ⟨x, y, z⟩ := p; simp [idM, M3.mulVec]

/-- the three generators -/
def scaling (k : ℝ) : Sim := ⟨k, idM, ⟨0, 0, 0⟩⟩
def translation (t : V3 ℝ) : Sim := ⟨1, idM, t⟩
def rotation (R : M3 ℝ) : Sim := ⟨1, R, ⟨0, 0, 0⟩⟩

theorem scaling_pt (k : ℝ) (p : V3 ℝ) : (scaling k).pt p = V3.smul k p := by
  obtain ⟨x, y, z⟩ := p
  ext <;> simp [scaling, pt, mulVec_id]
theorem translation_pt (t p : V3 ℝ) : (translation t).pt p = p + t := by
  obtain ⟨x, y, z⟩ := p
  ext <;> simp [translation, pt, mulVec_id]
theorem rotation_pt (R : M3 ℝ) (p : V3 ℝ) : (rotation R).pt p = M3.mulVec R p := by
  ext <;> simp [rotation, pt]

theorem scaling_proper {k : ℝ} (hk : 0 < k) : (scaling k).Proper := ⟨hk, isRot_id⟩
theorem translation_proper (t : V3 ℝ) : (translation t).Proper := ⟨one_pos, isRot_id⟩
theorem rotation_proper {R : M3 ℝ} (h : IsRot R) : (rotation R).Proper := ⟨one_pos, h⟩

variable (g : Sim)

theorem pt_sub (a b : V3 ℝ) : g.pt a - g.pt b = g.vec (a - b) := by
  unfold pt vec
  rw [mulVec_sub, V3.smul_sub]
  ext <;> simp only [V3.add_x, V3.add_y, V3.add_z, V3.sub_x, V3.sub_y, V3.sub_z] <;> ring

theorem vec_sub (a b : V3 ℝ) : g.vec (a - b) = g.vec a - g.vec b := by
  unfold vec; rw [mulVec_sub, V3.smul_sub]
theorem vec_add (a b : V3 ℝ) : g.vec (a + b) = g.vec a + g.vec b := by
  unfold vec; rw [mulVec_add, V3.smul_add]
theorem vec_smul (c : ℝ) (a : V3 ℝ) : g.vec (V3.smul c a) = V3.smul c (g.vec a) := by
  unfold vec; rw [mulVec_smul]
  ext <;> simp only [V3.smul_x, V3.smul_y, V3.smul_z] <;> ring
theorem pt_add_vec (a v : V3 ℝ) : g.pt (a + v) = g.pt a + g.vec v := by
  unfold pt vec; rw [mulVec_add, V3.smul_add]
  ext <;> simp only [V3.add_x, V3.add_y, V3.add_z] <;> ring
theorem pt_sub_vec (a v : V3 ℝ) : g.pt (a - v) = g.pt a - g.vec v := by
  unfold pt vec; rw [mulVec_sub, V3.smul_sub]
  ext <;> simp only [V3.add_x, V3.add_y, V3.add_z, V3.sub_x, V3.sub_y, V3.sub_z] <;> ring
theorem vec_eq_smul_dir (v : V3 ℝ) : g.vec v = V3.smul g.k (g.dir v) := rfl
theorem dir_smul (c : ℝ) (a : V3 ℝ) : g.dir (V3.smul c a) = V3.smul c (g.dir a) := mulVec_smul _ _ _

variable {g} (hg : g.Proper)
include hg

theorem vec_dot (u v : V3 ℝ) : V3.dot (g.vec u) (g.vec v) = g.k ^ 2 * V3.dot u v := by
  unfold vec; rw [V3.dot_smul, hg.rot.dot_rot]; ring
theorem vec_dot_dir (u n : V3 ℝ) : V3.dot (g.vec u) (g.dir n) = g.k * V3.dot u n := by
  unfold vec dir
  have := V3.dot_smul g.k 1 (M3.mulVec g.R u) (M3.mulVec g.R n)
  have e : V3.smul 1 (M3.mulVec g.R n) = M3.mulVec g.R n := by
    ext <;> simp only [V3.smul_x, V3.smul_y, V3.smul_z, one_mul]
  rw [e] at this; rw [this, hg.rot.dot_rot]; ring
theorem dir_dot (m n : V3 ℝ) : V3.dot (g.dir m) (g.dir n) = V3.dot m n := hg.rot.dot_rot m n
theorem dir_norm (n : V3 ℝ) : V3.norm (g.dir n) = V3.norm n := hg.rot.norm_rot n
theorem vec_normSq (u : V3 ℝ) : V3.normSq (g.vec u) = g.k ^ 2 * V3.normSq u := vec_dot hg u u
theorem vec_norm (u : V3 ℝ) : V3.norm (g.vec u) = g.k * V3.norm u := by
  unfold vec; rw [V3.norm_smul_nonneg hg.kpos.le, hg.rot.norm_rot]
theorem vec_cross (u v : V3 ℝ) : V3.cross (g.vec u) (g.vec v) = V3.smul (g.k ^ 2) (g.dir (V3.cross u v)) := by
  unfold vec dir; rw [V3.cross_smul, hg.rot.cross_rot]
  ext <;> simp only [V3.smul_x, V3.smul_y, V3.smul_z] <;> ring
theorem vec_cross_dir (u n : V3 ℝ) : V3.cross (g.vec u) (g.dir n) = V3.smul g.k (g.dir (V3.cross u n)) := by
  unfold vec dir
  have := V3.cross_smul g.k (M3.mulVec g.R u) (M3.mulVec g.R n)
  rw [← hg.rot.cross_rot]
  obtain ⟨a, b, c⟩ := M3.mulVec g.R u; obtain ⟨d, e, f⟩ := M3.mulVec g.R n
  ext <;> simp only [V3.cross, V3.smul_x, V3.smul_y, V3.smul_z] <;> ring
theorem vec_det3 (u v w : V3 ℝ) : V3.det3 (g.vec u) (g.vec v) (g.vec w) = g.k ^ 3 * V3.det3 u v w := by
  unfold V3.det3
  rw [vec_cross hg, vec_eq_smul_dir g u]
  have := V3.dot_smul g.k (g.k ^ 2) (g.dir u) (g.dir (V3.cross v w))
  rw [this, dir_dot hg]; ring
theorem dist (a b : V3 ℝ) : V3.norm (g.pt a - g.pt b) = g.k * V3.norm (a - b) := by
  rw [pt_sub, vec_norm hg]
theorem sdiv_vec (e : V3 ℝ) (l : ℝ) : V3.sdiv (g.vec e) (g.k * l) = g.dir (V3.sdiv e l) := by
  have hk := hg.kpos.ne'
  unfold vec dir
  have : V3.sdiv e l = V3.smul (1 / l) e := by
    ext <;> simp only [V3.sdiv_x, V3.sdiv_y, V3.sdiv_z, V3.smul_x, V3.smul_y, V3.smul_z] <;> ring
  rw [this, mulVec_smul]
  ext <;> simp only [V3.sdiv_x, V3.sdiv_y, V3.sdiv_z, V3.smul_x, V3.smul_y, V3.smul_z] <;>
    rw [mul_div_mul_left _ _ hk] <;> ring

theorem pt_injective : Function.Injective g.pt := by
  intro a b h
  have h0 : V3.norm (g.pt a - g.pt b) = 0 := by
    rw [h]; unfold V3.norm V3.normSq V3.dot; simp
  rw [dist hg] at h0
  have hn : V3.norm (a - b) = 0 := by
    rcases mul_eq_zero.mp h0 with h1 | h1
    · exact absurd h1 hg.kpos.ne'
    · exact h1
  unfold V3.norm V3.normSq V3.dot at hn
  simp only [Scalar.sqrt_real, V3.sub_x, V3.sub_y, V3.sub_z] at hn
  have hs : (a.x - b.x) * (a.x - b.x) + (a.y - b.y) * (a.y - b.y) + (a.z - b.z) * (a.z - b.z) = 0 := by
    have h' := (Real.sqrt_eq_zero (add_nonneg (add_nonneg (mul_self_nonneg _) (mul_self_nonneg _)) (mul_self_nonneg _))).mp hn
    exact h'
  have hx : a.x - b.x = 0 := by nlinarith [mul_self_nonneg (a.x - b.x), mul_self_nonneg (a.y - b.y), mul_self_nonneg (a.z - b.z)]
  have hy : a.y - b.y = 0 := by nlinarith [mul_self_nonneg (a.x - b.x), mul_self_nonneg (a.y - b.y), mul_self_nonneg (a.z - b.z)]
  have hz : a.z - b.z = 0 := by nlinarith [mul_self_nonneg (a.x - b.x), mul_self_nonneg (a.y - b.y), mul_self_nonneg (a.z - b.z)]
  ext <;> linarith

end Sim

/-- sign tests are invariant under multiplication by a positive factor -/
theorem pos_mul_lt_zero {c : ℝ} (hc : 0 < c) (x : ℝ) : c * x < 0 ↔ x < 0 := by
  constructor
  · intro h; by_contra h'; rw [not_lt] at h'; nlinarith
  · intro h; nlinarith
theorem pos_mul_pos_iff {c : ℝ} (hc : 0 < c) (x : ℝ) : 0 < c * x ↔ 0 < x := by
  constructor
  · intro h; by_contra h'; rw [not_lt] at h'; nlinarith
  · intro h; positivity
theorem pos_mul_le_zero {c : ℝ} (hc : 0 < c) (x : ℝ) : c * x ≤ 0 ↔ x ≤ 0 := by
  constructor
  · intro h; by_contra h'; rw [not_le] at h'; nlinarith
  · intro h; nlinarith
theorem pos_mul_nonneg_iff {c : ℝ} (hc : 0 < c) (x : ℝ) : 0 ≤ c * x ↔ 0 ≤ x := by
  constructor
  · intro h; by_contra h'; rw [not_le] at h'; nlinarith
  · intro h; positivity
theorem pos_mul_eq_zero {c : ℝ} (hc : 0 < c) (x : ℝ) : c * x = 0 ↔ x = 0 := by
  constructor
  · intro h; rcases mul_eq_zero.mp h with h | h
    · exact absurd h hc.ne'
    · exact h
  · intro h; rw [h, mul_zero]

theorem decide_pos_mul_le_zero {c : ℝ} (hc : 0 < c) (x : ℝ) : decide (c * x ≤ 0) = decide (x ≤ 0) := by
  rw [decide_eq_decide]; exact pos_mul_le_zero hc x
theorem decide_mul_le_mul {c : ℝ} (hc : 0 < c) (x y : ℝ) : decide (c * x ≤ c * y) = decide (x ≤ y) := by
  rw [decide_eq_decide]; exact mul_le_mul_iff_right₀ hc

theorem decide_mul_lt_mul {c : ℝ} (hc : 0 < c) (x y : ℝ) : decide (c * x < c * y) = decide (x < y) := by
  rw [decide_eq_decide]; exact mul_lt_mul_iff_right₀ hc

/-- `Scalar.max` / `Scalar.min` (the `if a < b` forms of the models) are positively homogeneous -/
theorem smax_mul {c : ℝ} (hc : 0 < c) (a b : ℝ) : Scalar.max (c * a) (c * b) = c * Scalar.max a b := by
  unfold Scalar.max
  by_cases h : a < b
  · rw [if_pos h, if_pos (mul_lt_mul_of_pos_left h hc)]
  · rw [if_neg h, if_neg (fun h' => h ((mul_lt_mul_iff_right₀ hc).mp h'))]
theorem smin_mul {c : ℝ} (hc : 0 < c) (a b : ℝ) : Scalar.min (c * a) (c * b) = c * Scalar.min a b := by
  unfold Scalar.min
  by_cases h : b < a
  · rw [if_pos h, if_pos (mul_lt_mul_of_pos_left h hc)]
  · rw [if_neg h, if_neg (fun h' => h ((mul_lt_mul_iff_right₀ hc).mp h'))]
theorem foldl_smax_mul {c : ℝ} (hc : 0 < c) (l : List ℝ) (a : ℝ) :
    (l.map (c * ·)).foldl Scalar.max (c * a) = c * l.foldl Scalar.max a := by
  induction l generalizing a with
  | nil => rfl
  | cons x l ih => simp only [List.map_cons, List.foldl_cons, smax_mul hc, ih]
theorem foldl_smin_mul {c : ℝ} (hc : 0 < c) (l : List ℝ) (a : ℝ) :
    (l.map (c * ·)).foldl Scalar.min (c * a) = c * l.foldl Scalar.min a := by
  induction l generalizing a with
  | nil => rfl
  | cons x l ih => simp only [List.map_cons, List.foldl_cons, smin_mul hc, ih]

end
