import CoxeterVerif.Lemmas.ConstructorsConvex
/-!
  C15, deepening round: the certificate the check evaluates on every constructed ConvexPolygon — `Spec.ccwConvex n verts`,
  exact over ℚ — is sound for simplicity in the planes z = const seen against +z: it is `Spec.ccwConvex2` of the
  projected vertices, hence (pairwise different vertices) the polygon is simple.
-/
open Scalar C15 C15.Spec
set_option maxRecDepth 4000
set_option linter.unusedSimpArgs false
set_option linter.unusedVariables false
noncomputable section

namespace C15

theorem leftOf_z (a b r : V3 ℝ) : leftOf ⟨0, 0, 1⟩ a b r = decide (0 < orient (xy a) (xy b) (xy r)) := by
  unfold leftOf V3.det3 orient xy
  simp only [V3.dot, V3.cross, V3.sub_x, V3.sub_y, V3.sub_z, lit_zero]
  congr 1
  apply propext
  constructor <;> intro h <;> nlinarith

theorem v3Eq_planar (c : ℝ) (u v : V3 ℝ) (hu : u.z = c) (hv : v.z = c) : v3Eq u v = ptEq (xy u) (xy v) := by
  unfold v3Eq ptEq xy
  have : Scalar.eqb u.z v.z = true := by rw [eqb_iff, hu, hv]
  rw [this, Bool.and_true]

theorem cycEdges_mem_both {β : Type} (l : List β) (e : β × β) (h : e ∈ cycEdges l) : e.1 ∈ l ∧ e.2 ∈ l := by
  rw [cycEdges_eq_zip] at h
  have := List.of_mem_zip h
  exact ⟨this.1, (List.mem_rotate).1 this.2⟩

theorem all_congr_mem {β : Type} (l : List β) (p q : β → Bool) (h : ∀ a ∈ l, p a = q a) : l.all p = l.all q := by
  induction l with
  | nil => rfl
  | cons a t ih =>
    simp only [List.all_cons]
    rw [h a List.mem_cons_self, ih (fun b hb => h b (List.mem_cons_of_mem _ hb))]

/-- in a plane z = c, seen against +z, the 3-D predicate is the planar one -/
theorem ccwConvex_planar (c : ℝ) (verts : List (V3 ℝ)) (hz : ∀ v ∈ verts, v.z = c) :
    ccwConvex ⟨0, 0, 1⟩ verts = ccwConvex2 (verts.map xy) := by
  unfold ccwConvex ccwConvex2
  rw [List.length_map, cycEdges_map, List.all_map]
  congr 1
  apply all_congr_mem
  intro e he
  obtain ⟨h1, h2⟩ := cycEdges_mem_both verts e he
  simp only [Function.comp, Prod.map]
  rw [List.all_map]
  apply all_congr_mem
  intro r hr
  simp only [Function.comp]
  rw [v3Eq_planar c r e.1 (hz r hr) (hz _ h1), v3Eq_planar c r e.2 (hz r hr) (hz _ h2), leftOf_z, lit_zero]

end C15
end
