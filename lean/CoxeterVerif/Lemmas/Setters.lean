import CoxeterVerif.Lemmas.Mutable2
import CoxeterVerif.Lemmas.Curved
import CoxeterVerif.Model.Setters
/-!
  C08 — lemmas on the per-class setter tables of `Model/Setters.lean`: the guard, the factor with
  an external getter, and the curved classes `Circle` / `Sphere` (every settable property reads
  back, the centre is untouched, bad targets are refused).
-/
open Scalar Mut Setters
set_option maxRecDepth 4000
noncomputable section

namespace Setters

theorem lit0_lt {v : ℝ} : ((lit 0 : ℝ) < v) ↔ 0 < v := by simp [Scalar.lit]
theorem lit0_le {v : ℝ} : ((lit 0 : ℝ) ≤ v) ↔ 0 ≤ v := by simp [Scalar.lit]

theorem guardPos_ok {v : ℝ} (hv : 0 < v) : guardPos v = .ok () := by
  unfold guardPos; rw [if_pos (lit0_lt.mpr hv)]; rfl

theorem guardPos_bad {v : ℝ} (hv : ¬ 0 < v) : guardPos v = .error "ValueError" := by
  unfold guardPos; rw [if_neg (fun h => hv (lit0_lt.mp h))]; rfl

/-- a bad target is refused before the getter is even read -/
theorem factorE_bad (deg : Nat) (cur : Except String ℝ) {v : ℝ} (hv : ¬ 0 < v) :
    factorE deg cur v = .error "ValueError" := by
  unfold factorE; rw [guardPos_bad hv]; rfl

/-- a good target on a property whose getter raises: the getter's exception, nothing else -/
theorem factorE_getter_raises (deg : Nat) (e : String) {v : ℝ} (hv : 0 < v) :
    factorE deg (.error e) v = .error e := by
  unfold factorE; rw [guardPos_ok hv]; rfl

theorem factorE_ok (deg : Nat) (cur : ℝ) {v : ℝ} (hv : 0 < v) :
    factorE deg (.ok cur) v = setterFactor deg cur v := by
  unfold factorE; rw [guardPos_ok hv]; rfl

theorem factorE_spec {deg : Nat} (hdeg : deg = 1 ∨ deg = 2 ∨ deg = 3) {cur v : ℝ} (hc : 0 < cur) (hv : 0 < v) :
    ∃ k, 0 < k ∧ factorE deg (.ok cur) v = .ok k ∧ cur * k ^ deg = v := by
  obtain ⟨k, hk, hf, he⟩ := setterFactor_spec hdeg hc hv
  exact ⟨k, hk, by rw [factorE_ok deg cur hv, hf], he⟩

/-- the factor is accepted exactly for positive targets (given a readable getter) -/
theorem factorE_ok_iff (deg : Nat) (cur v : ℝ) : (∃ k, factorE deg (.ok cur) v = .ok k) ↔ 0 < v := by
  constructor
  · rintro ⟨k, hk⟩
    by_contra hneg
    rw [factorE_bad deg _ hneg] at hk; cases hk
  · intro hv
    rw [factorE_ok deg cur hv]
    unfold setterFactor
    rw [if_neg (not_not.mpr (lit0_lt.mpr hv))]
    split_ifs <;> exact ⟨_, rfl⟩


/-- **the generic guarded size setter** (`if not value > 0: raise; _rescale((value/getter)^(1/deg))`)
on any state type: when the property's getter is homogeneous of the setter's degree under
`_rescale`, the factor is positive and the getter reads back the target on the rescaled state -/
theorem size_set_reads_back {σ : Type} (getp : σ → Except String ℝ) (resc : σ → ℝ → σ) {deg : Nat}
    (hdeg : deg = 1 ∨ deg = 2 ∨ deg = 3) (s : σ)
    (hhom : ∀ k : ℝ, 0 < k → getp (resc s k) = Except.map (· * k ^ deg) (getp s))
    {cur v : ℝ} (hg : getp s = .ok cur) (hc : 0 < cur) (hv : 0 < v) :
    ∃ k, 0 < k ∧ factorE deg (getp s) v = .ok k ∧ getp (resc s k) = .ok v := by
  obtain ⟨k, hk, hf, he⟩ := factorE_spec hdeg hc hv
  refine ⟨k, hk, by rw [hg, hf], ?_⟩
  rw [hhom k hk, hg]
  exact congrArg Except.ok he

theorem P3Prop.deg_cases (p : P3Prop) : p.deg = 1 ∨ p.deg = 2 ∨ p.deg = 3 := by
  cases p <;> simp [P3Prop.deg]
theorem P2Prop.deg_cases (p : P2Prop) : p.deg = 1 ∨ p.deg = 2 ∨ p.deg = 3 := by
  cases p <;> simp [P2Prop.deg]
theorem SPGProp.deg_cases (p : SPGProp) : p.deg = 1 ∨ p.deg = 2 ∨ p.deg = 3 := by
  cases p <;> simp [SPGProp.deg]

/-! ### Circle -/

namespace CircleS

theorem setRadius_ok (s : CircleS ℝ) {v : ℝ} (hv : 0 < v) : s.setRadius v = .ok { s with radius := v } := by
  unfold CircleS.setRadius; rw [if_pos (lit0_lt.mpr hv)]; rfl

theorem setRadius_bad (s : CircleS ℝ) {v : ℝ} (hv : ¬ 0 < v) : s.setRadius v = .error "ValueError" := by
  unfold CircleS.setRadius; rw [if_neg (fun h => hv (lit0_lt.mp h))]; rfl

theorem mk'_ok {r : ℝ} (hr : 0 < r) (c : V3 ℝ) : CircleS.mk' r c = .ok ⟨r, c⟩ := by
  unfold CircleS.mk'; rw [if_pos (lit0_lt.mpr hr)]; rfl

theorem get_ball (b : BallProp) (s : CircleS ℝ) (hr : 0 < s.radius) : get (.ball b) s = .ok s.radius := by
  unfold get; rw [mk'_ok hr]; rfl

/-- **every scalar setter of `Circle` reads back**; the centre is untouched, the radius stays
positive (a circle scaled about its own centre by `k = r'/r > 0`) -/
theorem set_reads_back (p : CircleProp) (s : CircleS ℝ) (hr : 0 < s.radius) {v : ℝ} (hv : 0 < v) :
    ∃ s', set p s v = .ok s' ∧ get p s' = .ok v ∧ s'.cen = s.cen ∧ 0 < s'.radius := by
  have hpi := Real.pi_pos
  cases p with
  | radius => exact ⟨_, setRadius_ok s hv, rfl, rfl, hv⟩
  | area =>
    have hq : 0 < v / Real.pi := div_pos hv hpi
    have hs : 0 < Real.sqrt (v / Real.pi) := Real.sqrt_pos.mpr hq
    refine ⟨{ s with radius := Real.sqrt (v / Real.pi) }, ?_, ?_, rfl, hs⟩
    · show (if (lit 0 : ℝ) < v then s.setRadius (Scalar.sqrt (v / Scalar.pi)) else _) = _
      rw [if_pos (lit0_lt.mpr hv)]; exact setRadius_ok s hs
    · show Except.ok (Scalar.pi * (Real.sqrt (v / Real.pi) * Real.sqrt (v / Real.pi))) = Except.ok v
      rw [Real.mul_self_sqrt hq.le, Scalar.pi_real]; congr 1; field_simp
  | perimeter =>
    have hq : 0 < v / (2 * Real.pi) := by positivity
    refine ⟨{ s with radius := v / (2 * Real.pi) }, ?_, ?_, rfl, hq⟩
    · show (if (lit 0 : ℝ) < v then s.setRadius (v / (lit 2 * Scalar.pi)) else _) = _
      rw [if_pos (lit0_lt.mpr hv)]
      have : (v / (lit 2 * Scalar.pi) : ℝ) = v / (2 * Real.pi) := by simp [Scalar.lit]
      rw [this]; exact setRadius_ok s hq
    · show Except.ok (lit 2 * Scalar.pi * (v / (2 * Real.pi))) = Except.ok v
      congr 1; simp only [Scalar.lit, Scalar.ofNat_real, Scalar.pi_real]; push_cast; field_simp
  | circumference =>
    have hq : 0 < v / (2 * Real.pi) := by positivity
    refine ⟨{ s with radius := v / (2 * Real.pi) }, ?_, ?_, rfl, hq⟩
    · show (if (lit 0 : ℝ) < v then s.setRadius (v / (lit 2 * Scalar.pi)) else _) = _
      rw [if_pos (lit0_lt.mpr hv)]
      have : (v / (lit 2 * Scalar.pi) : ℝ) = v / (2 * Real.pi) := by simp [Scalar.lit]
      rw [this]; exact setRadius_ok s hq
    · show Except.ok (lit 2 * Scalar.pi * (v / (2 * Real.pi))) = Except.ok v
      congr 1; simp only [Scalar.lit, Scalar.ofNat_real, Scalar.pi_real]; push_cast; field_simp
  | ball b =>
    have hk : s.radius * (v / s.radius) = v := by field_simp
    refine ⟨{ s with radius := v }, ?_, ?_, rfl, hv⟩
    · show (do guardPos v; let cur ← get (.ball b) s; s.rescale (v / cur)) = _
      rw [guardPos_ok hv, get_ball b s hr]
      show s.setRadius (s.radius * (v / s.radius)) = _
      rw [hk]; exact setRadius_ok s hv
    · exact get_ball b { s with radius := v } hv

/-- **bad targets are refused by every scalar setter of `Circle`** -/
theorem bad_target_refused (p : CircleProp) (s : CircleS ℝ) {v : ℝ} (hv : ¬ 0 < v) :
    set p s v = .error "ValueError" := by
  have h0 : ¬ (lit 0 : ℝ) < v := fun h => hv (lit0_lt.mp h)
  cases p with
  | radius => exact setRadius_bad s hv
  | area => show (if (lit 0 : ℝ) < v then _ else _) = _; rw [if_neg h0]; rfl
  | perimeter => show (if (lit 0 : ℝ) < v then _ else _) = _; rw [if_neg h0]; rfl
  | circumference => show (if (lit 0 : ℝ) < v then _ else _) = _; rw [if_neg h0]; rfl
  | ball b =>
    show (do guardPos v; let cur ← get (.ball b) s; s.rescale (v / cur)) = _
    rw [guardPos_bad hv]; rfl

/-- the dimensionless descriptors of a circle are constants: nothing a setter could change -/
theorem dimensionless (r r' : ℝ) :
    Curved.Circle.iq r = Curved.Circle.iq r' ∧ Curved.Circle.eccentricity r = Curved.Circle.eccentricity r' :=
  ⟨rfl, rfl⟩

end CircleS

/-! ### Sphere -/

namespace SphereS

theorem setRadius_ok (s : SphereS ℝ) {v : ℝ} (hv : 0 < v) : s.setRadius v = .ok { s with radius := v } := by
  unfold SphereS.setRadius; rw [if_pos (lit0_lt.mpr hv)]; rfl

theorem setRadius_bad (s : SphereS ℝ) {v : ℝ} (hv : ¬ 0 < v) : s.setRadius v = .error "ValueError" := by
  unfold SphereS.setRadius; rw [if_neg (fun h => hv (lit0_lt.mp h))]; rfl

theorem mk'_ok {r : ℝ} (hr : 0 < r) (c : V3 ℝ) : SphereS.mk' r c = .ok ⟨r, c⟩ := by
  unfold SphereS.mk'; rw [if_pos (lit0_lt.mpr hr)]; rfl

theorem get_ball (b : BallProp) (s : SphereS ℝ) (hr : 0 < s.radius) : get (.ball b) s = .ok s.radius := by
  unfold get; rw [mk'_ok hr]; rfl

/-- **every scalar setter of `Sphere` reads back**; the centre is untouched -/
theorem set_reads_back (p : SphereProp) (s : SphereS ℝ) (hr : 0 < s.radius) {v : ℝ} (hv : 0 < v) :
    ∃ s', set p s v = .ok s' ∧ get p s' = .ok v ∧ s'.cen = s.cen ∧ 0 < s'.radius := by
  have hpi := Real.pi_pos
  cases p with
  | radius => exact ⟨_, setRadius_ok s hv, rfl, rfl, hv⟩
  | diameter =>
    refine ⟨{ s with radius := v / 2 }, ?_, ?_, rfl, by positivity⟩
    · show (if (lit 0 : ℝ) < v then Except.ok { s with radius := v / lit 2 } else _) = _
      rw [if_pos (lit0_lt.mpr hv)]
      have : (v / lit 2 : ℝ) = v / 2 := by simp [Scalar.lit]
      rw [this]
    · show Except.ok (lit 2 * (v / 2)) = Except.ok v
      congr 1; simp only [Scalar.lit, Scalar.ofNat_real]; push_cast; ring
  | volume =>
    have hq : 0 < 3 * v / (4 * Real.pi) := by positivity
    have harg : (lit 3 * v / (lit 4 * Scalar.pi) : ℝ) = 3 * v / (4 * Real.pi) := by
      simp only [Scalar.lit, Scalar.ofNat_real, Scalar.pi_real]; push_cast; ring
    have hc := cbrt_pos hq
    refine ⟨{ s with radius := Scalar.cbrt (3 * v / (4 * Real.pi)) }, ?_, ?_, rfl, hc⟩
    · show (if (lit 0 : ℝ) < v then s.setRadius (Scalar.cbrt (lit 3 * v / (lit 4 * Scalar.pi))) else _) = _
      rw [if_pos (lit0_lt.mpr hv), harg]; exact setRadius_ok s hc
    · show Except.ok (q 4 3 * Scalar.pi * (Scalar.cbrt (3 * v / (4 * Real.pi)) * Scalar.cbrt (3 * v / (4 * Real.pi))
          * Scalar.cbrt (3 * v / (4 * Real.pi)))) = Except.ok v
      rw [cbrt_cube hq]; congr 1
      simp only [Scalar.q, Scalar.ofNat_real, Scalar.pi_real]; push_cast; field_simp
  | surfaceArea =>
    have hq : 0 < v / (4 * Real.pi) := by positivity
    have harg : (v / (lit 4 * Scalar.pi) : ℝ) = v / (4 * Real.pi) := by
      simp only [Scalar.lit, Scalar.ofNat_real, Scalar.pi_real]; push_cast; ring
    have hs : 0 < Real.sqrt (v / (4 * Real.pi)) := Real.sqrt_pos.mpr hq
    refine ⟨{ s with radius := Real.sqrt (v / (4 * Real.pi)) }, ?_, ?_, rfl, hs⟩
    · show (if (lit 0 : ℝ) < v then s.setRadius (Scalar.sqrt (v / (lit 4 * Scalar.pi))) else _) = _
      rw [if_pos (lit0_lt.mpr hv), harg]; exact setRadius_ok s hs
    · show Except.ok (lit 4 * Scalar.pi * (Real.sqrt (v / (4 * Real.pi)) * Real.sqrt (v / (4 * Real.pi)))) = Except.ok v
      rw [Real.mul_self_sqrt hq.le]; congr 1
      simp only [Scalar.lit, Scalar.ofNat_real, Scalar.pi_real]; push_cast; field_simp
  | ball b =>
    have hk : s.radius * (v / s.radius) = v := by field_simp
    refine ⟨{ s with radius := v }, ?_, ?_, rfl, hv⟩
    · show (do guardPos v; let cur ← get (.ball b) s; s.rescale (v / cur)) = _
      rw [guardPos_ok hv, get_ball b s hr]
      show s.setRadius (s.radius * (v / s.radius)) = _
      rw [hk]; exact setRadius_ok s hv
    · exact get_ball b { s with radius := v } hv

theorem bad_target_refused (p : SphereProp) (s : SphereS ℝ) {v : ℝ} (hv : ¬ 0 < v) :
    set p s v = .error "ValueError" := by
  have h0 : ¬ (lit 0 : ℝ) < v := fun h => hv (lit0_lt.mp h)
  cases p with
  | radius => exact setRadius_bad s hv
  | diameter => show (if (lit 0 : ℝ) < v then _ else _) = _; rw [if_neg h0]; rfl
  | volume => show (if (lit 0 : ℝ) < v then _ else _) = _; rw [if_neg h0]; rfl
  | surfaceArea => show (if (lit 0 : ℝ) < v then _ else _) = _; rw [if_neg h0]; rfl
  | ball b =>
    show (do guardPos v; let cur ← get (.ball b) s; s.rescale (v / cur)) = _
    rw [guardPos_bad hv]; rfl

end SphereS

end Setters
end
