import CoxeterVerif.Lemmas.StructureCert
/-!
  C07, deepening round — the angular sort of `ConvexPolyhedron.sort_faces` /
  `ConvexPolygon._reorder_verts` (`Struct.angularOrder`).

  * `cross2_eq_sin` : for non-zero planar vectors `u × w = |u||w| sin(atan2 w − atan2 u)`;
  * `mod2pi_mem`, `sin_mod2pi` : `np.mod(·, 2π)` lands in `[0, 2π)` and does not change the sine;
  * `cross2_pos_of_gap` : a relative angle in `(0, π)` is a left turn about the pivot;
  * `angularOrder_sorted` : the output lists the indices with non-decreasing relative angle;
  * `gap_lt_pi` : for points centred on their mean and not all on one line through it, an empty
    angular sector has opening `< π`;
  * `angular_sort_ccw` : hence consecutive vertices of the sorted face (cyclically) make a strict
    left turn about the vertex mean — the face is listed counter-clockwise about its normal.
-/
open Struct Scalar
set_option maxRecDepth 4000
noncomputable section

namespace StructLemmas

/-- planar cross product of the `x,y` parts -/
def cross2 (u w : V3 ℝ) : ℝ := u.x * w.y - u.y * w.x

/-- the point as a complex number -/
def toC (u : V3 ℝ) : ℂ := ⟨u.x, u.y⟩

/-- `np.arctan2(y, x)` of the point -/
def ang (u : V3 ℝ) : ℝ := Scalar.atan2 u.y u.x

theorem ang_eq (u : V3 ℝ) : ang u = Complex.arg (toC u) := rfl

theorem x_eq (u : V3 ℝ) (h : toC u ≠ 0) : u.x = ‖toC u‖ * Real.cos (ang u) := by
  rw [ang_eq, Complex.cos_arg h]
  have : ‖toC u‖ ≠ 0 := norm_ne_zero_iff.mpr h
  field_simp
  rfl

theorem y_eq (u : V3 ℝ) (h : toC u ≠ 0) : u.y = ‖toC u‖ * Real.sin (ang u) := by
  rw [ang_eq, Complex.sin_arg]
  have : ‖toC u‖ ≠ 0 := norm_ne_zero_iff.mpr h
  field_simp
  rfl

/-- `u × w = |u| |w| sin(θ_w − θ_u)` -/
theorem cross2_eq_sin (u w : V3 ℝ) (hu : toC u ≠ 0) (hw : toC w ≠ 0) :
    cross2 u w = ‖toC u‖ * ‖toC w‖ * Real.sin (ang w - ang u) := by
  unfold cross2
  rw [Real.sin_sub]
  conv_lhs => rw [x_eq u hu, y_eq u hu, x_eq w hw, y_eq w hw]
  ring

theorem two_pi_pos : (0 : ℝ) < 2 * Real.pi := by positivity

theorem mod2pi_real (x : ℝ) : mod2pi x = x - (⌊x / (2 * Real.pi)⌋ : ℝ) * (2 * Real.pi) := by
  unfold mod2pi
  simp only [Scalar.lit, Scalar.ofNat_real, Scalar.pi_real]
  norm_num
  rfl

theorem sin_mod2pi (x : ℝ) : Real.sin (mod2pi x) = Real.sin x := by
  rw [mod2pi_real]; exact Real.sin_sub_int_mul_two_pi x _

theorem mod2pi_mem (x : ℝ) : 0 ≤ mod2pi x ∧ mod2pi x < 2 * Real.pi := by
  rw [mod2pi_real]
  have h1 := Int.floor_le (x / (2 * Real.pi))
  have h2 := Int.lt_floor_add_one (x / (2 * Real.pi))
  have hp := two_pi_pos
  rw [le_div_iff₀ hp] at h1
  rw [div_lt_iff₀ hp] at h2
  constructor <;> nlinarith

/-- `mod2pi` of a shifted argument: the two differ by a multiple of `2π` -/
theorem mod2pi_sub_int (x : ℝ) : ∃ k : ℤ, mod2pi x = x - k * (2 * Real.pi) :=
  ⟨⌊x / (2 * Real.pi)⌋, mod2pi_real x⟩

/-- **a relative angle in `(0, π)` is a strict left turn about the pivot** -/
theorem cross2_pos_of_gap (u w : V3 ℝ) (hu : toC u ≠ 0) (hw : toC w ≠ 0) (δ : ℝ)
    (hδ : ∃ k : ℤ, δ = ang w - ang u - k * (2 * Real.pi)) (h0 : 0 < δ) (h1 : δ < Real.pi) :
    0 < cross2 u w := by
  rw [cross2_eq_sin u w hu hw]
  obtain ⟨k, hk⟩ := hδ
  have hs : Real.sin (ang w - ang u) = Real.sin δ := by
    rw [hk, Real.sin_sub_int_mul_two_pi]
  rw [hs]
  have := Real.sin_pos_of_pos_of_lt_pi h0 h1
  have h2 : 0 < ‖toC u‖ := norm_pos_iff.mpr hu
  have h3 : 0 < ‖toC w‖ := norm_pos_iff.mpr hw
  positivity

/-- a relative angle in `[π, 2π]`, or `0`, is not a left turn -/
theorem cross2_nonpos_of_gap (u w : V3 ℝ) (hu : toC u ≠ 0) (hw : toC w ≠ 0) (δ : ℝ)
    (hδ : ∃ k : ℤ, δ = ang w - ang u - k * (2 * Real.pi)) (h : δ = 0 ∨ (Real.pi ≤ δ ∧ δ ≤ 2 * Real.pi)) :
    cross2 u w ≤ 0 := by
  rw [cross2_eq_sin u w hu hw]
  obtain ⟨k, hk⟩ := hδ
  have hs : Real.sin (ang w - ang u) = Real.sin δ := by
    rw [hk, Real.sin_sub_int_mul_two_pi]
  rw [hs]
  have h2 : 0 < ‖toC u‖ := norm_pos_iff.mpr hu
  have h3 : 0 < ‖toC w‖ := norm_pos_iff.mpr hw
  have hsin : Real.sin δ ≤ 0 := by
    rcases h with h | ⟨ha, hb⟩
    · rw [h]; simp
    · have : Real.sin δ = -Real.sin (δ - Real.pi) := by rw [Real.sin_sub_pi]; ring
      rw [this]
      have := Real.sin_nonneg_of_nonneg_of_le_pi (show 0 ≤ δ - Real.pi by linarith) (by linarith)
      linarith
  exact mul_nonpos_of_nonneg_of_nonpos (by positivity) hsin

/-! ### the keys of `angularOrder` -/

/-- relative angle of point `i` — the first sort key of `angularOrder`, verbatim -/
def relKey (pts : List (V3 ℝ)) (ref i : Nat) : ℝ :=
  ((pts.map fun p => Scalar.atan2 p.y p.x).map fun a =>
    mod2pi (a - (pts.map fun p => Scalar.atan2 p.y p.x).getD ref (lit 0))).getD i (lit 0)

theorem relKey_eq (pts : List (V3 ℝ)) (ref i : Nat) (hr : ref < pts.length) (hi : i < pts.length) :
    relKey pts ref i = mod2pi (ang (pts.getD i V3.zero) - ang (pts.getD ref V3.zero)) := by
  simp [relKey, List.getD_eq_getElem?_getD, hi, hr, ang]

/-- the order relation `np.lexsort((distances, angles))` sorts by -/
def angLe (pts : List (V3 ℝ)) (ref : Nat) (i j : Nat) : Bool :=
  let ang := pts.map fun p => Scalar.atan2 p.y p.x
  let a0 := ang.getD ref (lit 0)
  let rel := ang.map fun a => mod2pi (a - a0)
  let dist := pts.map V3.norm
  let key := fun i => (rel.getD i (lit 0), dist.getD i (lit 0))
  let ki := key i; let kj := key j
  decide (ki.1 < kj.1) || (Scalar.eqb ki.1 kj.1 && decide (ki.2 ≤ kj.2))

theorem angularOrder_eq (pts : List (V3 ℝ)) (ref : Nat) :
    angularOrder pts ref = sortBy (angLe pts ref) (List.range pts.length) := rfl

def distKey (pts : List (V3 ℝ)) (i : Nat) : ℝ := (pts.map V3.norm).getD i (lit 0)

theorem angLe_def (pts : List (V3 ℝ)) (ref i j : Nat) :
    angLe pts ref i j = (decide (relKey pts ref i < relKey pts ref j) ||
      (decide (relKey pts ref i = relKey pts ref j) && decide (distKey pts i ≤ distKey pts j))) := rfl

theorem angLe_total (pts : List (V3 ℝ)) (ref : Nat) (i j : Nat) :
    angLe pts ref i j = true ∨ angLe pts ref j i = true := by
  simp only [angLe_def, Bool.or_eq_true, Bool.and_eq_true, decide_eq_true_eq]
  generalize relKey pts ref i = a
  generalize relKey pts ref j = b
  generalize distKey pts i = c
  generalize distKey pts j = d
  rcases lt_trichotomy a b with h | h | h
  · exact Or.inl (Or.inl h)
  · rcases le_total c d with h' | h'
    · exact Or.inl (Or.inr ⟨h, h'⟩)
    · exact Or.inr (Or.inr ⟨h.symm, h'⟩)
  · exact Or.inr (Or.inl h)

theorem angLe_trans (pts : List (V3 ℝ)) (ref : Nat) (i j k : Nat) :
    angLe pts ref i j = true → angLe pts ref j k = true → angLe pts ref i k = true := by
  simp only [angLe_def, Bool.or_eq_true, Bool.and_eq_true, decide_eq_true_eq]
  generalize relKey pts ref i = a
  generalize relKey pts ref j = b
  generalize relKey pts ref k = c
  generalize distKey pts i = d
  generalize distKey pts j = e
  generalize distKey pts k = f
  rintro (h1 | ⟨h1, h1'⟩) (h2 | ⟨h2, h2'⟩)
  · exact Or.inl (lt_trans h1 h2)
  · exact Or.inl (h2 ▸ h1)
  · exact Or.inl (h1 ▸ h2)
  · exact Or.inr ⟨h1.trans h2, le_trans h1' h2'⟩

theorem relKey_of_angLe (pts : List (V3 ℝ)) (ref i j : Nat)
    (h : angLe pts ref i j = true) : relKey pts ref i ≤ relKey pts ref j := by
  simp only [angLe_def, Bool.or_eq_true, Bool.and_eq_true, decide_eq_true_eq] at h
  rcases h with h | ⟨h, _⟩
  · exact le_of_lt h
  · exact le_of_eq h

/-- **the angular sort lists the indices with non-decreasing relative angle**, and it is a
permutation of `0 … n−1` -/
theorem angularOrder_sorted (pts : List (V3 ℝ)) (ref : Nat) :
    (angularOrder pts ref).Pairwise (fun i j => relKey pts ref i ≤ relKey pts ref j) ∧
    (angularOrder pts ref).Perm (List.range pts.length) := by
  rw [angularOrder_eq]
  refine ⟨?_, sortBy_perm _ _⟩
  have := sortBy_pairwise (angLe pts ref) (angLe_total pts ref) (angLe_trans pts ref) (List.range pts.length)
  exact this.imp (fun h => relKey_of_angLe pts ref _ _ h)

/-! ### an empty angular sector has opening `< π` -/

theorem relKey_shift (pts : List (V3 ℝ)) (ref i : Nat) (hr : ref < pts.length) (hi : i < pts.length) :
    ∃ k : ℤ, relKey pts ref i = ang (pts.getD i V3.zero) - ang (pts.getD ref V3.zero) - k * (2 * Real.pi) := by
  rw [relKey_eq pts ref i hr hi]; exact mod2pi_sub_int _

theorem relKey_mem (pts : List (V3 ℝ)) (ref i : Nat) (hr : ref < pts.length) (hi : i < pts.length) :
    0 ≤ relKey pts ref i ∧ relKey pts ref i < 2 * Real.pi := by
  rw [relKey_eq pts ref i hr hi]; exact mod2pi_mem _

/-- counter-clockwise angle from point `a` to point `c`, in `[0, 2π)`, from the sort keys -/
def ccwGap (pts : List (V3 ℝ)) (ref a c : Nat) : ℝ :=
  if relKey pts ref a ≤ relKey pts ref c then relKey pts ref c - relKey pts ref a
  else relKey pts ref c - relKey pts ref a + 2 * Real.pi

theorem ccwGap_shift (pts : List (V3 ℝ)) (ref a c : Nat) (hr : ref < pts.length) (ha : a < pts.length)
    (hc : c < pts.length) :
    ∃ k : ℤ, ccwGap pts ref a c = ang (pts.getD c V3.zero) - ang (pts.getD a V3.zero) - k * (2 * Real.pi) := by
  obtain ⟨ka, hka⟩ := relKey_shift pts ref a hr ha
  obtain ⟨kc, hkc⟩ := relKey_shift pts ref c hr hc
  unfold ccwGap
  split_ifs
  · exact ⟨kc - ka, by rw [hka, hkc]; push_cast; ring⟩
  · exact ⟨kc - ka - 1, by rw [hka, hkc]; push_cast; ring⟩

theorem ccwGap_mem (pts : List (V3 ℝ)) (ref a c : Nat) (hr : ref < pts.length) (ha : a < pts.length)
    (hc : c < pts.length) : 0 ≤ ccwGap pts ref a c ∧ ccwGap pts ref a c < 2 * Real.pi := by
  have h1 := relKey_mem pts ref a hr ha
  have h2 := relKey_mem pts ref c hr hc
  unfold ccwGap
  split_ifs with h
  · constructor <;> linarith
  · constructor <;> linarith

theorem sum_cross2 (u : V3 ℝ) (pts : List (V3 ℝ)) :
    (pts.map fun p => cross2 u p).sum = u.x * (pts.map (·.y)).sum - u.y * (pts.map (·.x)).sum := by
  induction pts with
  | nil => simp
  | cons p pts ih =>
    simp only [List.map_cons, List.sum_cons]
    rw [ih]; unfold cross2; ring

theorem list_sum_nonpos : ∀ (l : List ℝ), (∀ x ∈ l, x ≤ 0) → l.sum ≤ 0
  | [], _ => by simp
  | a :: l, h => by
    have := list_sum_nonpos l (fun x hx => h x (List.mem_cons_of_mem _ hx))
    have := h a List.mem_cons_self
    simp only [List.sum_cons]; linarith

theorem all_zero_of_nonpos_sum_zero : ∀ (l : List ℝ), (∀ x ∈ l, x ≤ 0) → l.sum = 0 → ∀ x ∈ l, x = 0
  | [], _, _ => by simp
  | a :: l, h, hs => by
    have ha := h a List.mem_cons_self
    have hl : l.sum ≤ 0 := list_sum_nonpos l (fun x hx => h x (List.mem_cons_of_mem _ hx))
    simp only [List.sum_cons] at hs
    have ha0 : a = 0 := by linarith
    have hl0 : l.sum = 0 := by linarith
    intro x hx
    rcases List.mem_cons.mp hx with rfl | hx
    · exact ha0
    · exact all_zero_of_nonpos_sum_zero l (fun y hy => h y (List.mem_cons_of_mem _ hy)) hl0 x hx

theorem toC_ne_zero_iff (u : V3 ℝ) : toC u ≠ 0 ↔ (u.x ≠ 0 ∨ u.y ≠ 0) := by
  unfold toC
  rw [Ne, Complex.ext_iff]
  simp only [Complex.zero_re, Complex.zero_im]
  tauto

/-- **empty sector lemma.** Points centred on their mean (`Σ p = 0` in the plane), none at the
pivot, not all on one line through it: if no point lies strictly inside the counter-clockwise
sector from `a` to `b`, the sector is narrower than `π` — so `a → b` is a strict left turn. -/
theorem empty_sector_left_turn (pts : List (V3 ℝ)) (ref : Nat) (hr : ref < pts.length)
    (hnz : ∀ i, i < pts.length → toC (pts.getD i V3.zero) ≠ 0)
    (hcx : (pts.map (·.x)).sum = 0) (hcy : (pts.map (·.y)).sum = 0)
    (hnc : ∃ i j, i < pts.length ∧ j < pts.length ∧ cross2 (pts.getD i V3.zero) (pts.getD j V3.zero) ≠ 0)
    (a b : Nat) (ha : a < pts.length) (hb : b < pts.length)
    (hpos : 0 < ccwGap pts ref a b)
    (hempty : ∀ c, c < pts.length → ccwGap pts ref a c = 0 ∨ ccwGap pts ref a b ≤ ccwGap pts ref a c) :
    0 < cross2 (pts.getD a V3.zero) (pts.getD b V3.zero) := by
  have hlt : ccwGap pts ref a b < Real.pi := by
    by_contra hge
    have hge : Real.pi ≤ ccwGap pts ref a b := not_lt.mp hge
    -- every point is on the right of (or on) the ray through `a`
    have hall : ∀ c, c < pts.length → cross2 (pts.getD a V3.zero) (pts.getD c V3.zero) ≤ 0 := by
      intro c hc
      apply cross2_nonpos_of_gap _ _ (hnz a ha) (hnz c hc) (ccwGap pts ref a c) (ccwGap_shift pts ref a c hr ha hc)
      rcases hempty c hc with h0 | h1
      · exact Or.inl h0
      · exact Or.inr ⟨le_trans hge h1, le_of_lt (ccwGap_mem pts ref a c hr ha hc).2⟩
    have hsum := sum_cross2 (pts.getD a V3.zero) pts
    rw [hcx, hcy] at hsum
    simp only [mul_zero, sub_zero] at hsum
    have hz := all_zero_of_nonpos_sum_zero _ (by
      intro x hx
      obtain ⟨p, hp, rfl⟩ := List.mem_map.mp hx
      obtain ⟨c, hc, rfl⟩ := List.mem_iff_getElem.mp hp
      have := hall c hc
      simpa [List.getD_eq_getElem?_getD, hc] using this) hsum
    have hzero : ∀ c, c < pts.length → cross2 (pts.getD a V3.zero) (pts.getD c V3.zero) = 0 := by
      intro c hc
      have hm : cross2 (pts.getD a V3.zero) pts[c] ∈ pts.map fun p => cross2 (pts.getD a V3.zero) p :=
        List.mem_map.mpr ⟨pts[c], List.getElem_mem hc, rfl⟩
      have := hz _ hm
      simpa [List.getD_eq_getElem?_getD, hc] using this
    obtain ⟨i, j, hi, hj, hij⟩ := hnc
    apply hij
    have h1 := hzero i hi
    have h2 := hzero j hj
    have hane := (toC_ne_zero_iff _).mp (hnz a ha)
    unfold cross2 at h1 h2 ⊢
    set A := pts.getD a V3.zero
    set I := pts.getD i V3.zero
    set J := pts.getD j V3.zero
    have e1 : A.x * (I.x * J.y - I.y * J.x) = 0 := by
      have : A.x * (I.x * J.y - I.y * J.x) = I.x * (A.x * J.y - A.y * J.x) - J.x * (A.x * I.y - A.y * I.x) := by ring
      rw [this, h1, h2]; ring
    have e2 : A.y * (I.x * J.y - I.y * J.x) = 0 := by
      have : A.y * (I.x * J.y - I.y * J.x) = I.y * (A.x * J.y - A.y * J.x) - J.y * (A.x * I.y - A.y * I.x) := by ring
      rw [this, h1, h2]; ring
    rcases hane with h | h
    · exact (mul_eq_zero.mp e1).resolve_left h
    · exact (mul_eq_zero.mp e2).resolve_left h
  exact cross2_pos_of_gap _ _ (hnz a ha) (hnz b hb) _ (ccwGap_shift pts ref a b hr ha hb) hpos hlt

/-! ### the sorted face is counter-clockwise about the vertex mean -/

/-- **angular sort ⇒ counter-clockwise order.** `pts` = the vertices of one face after
`alignCentred` (centred on their mean, rotated so that the face normal is `ẑ`), none equal to the
mean, not all on a line through it, pairwise different relative angles (true for points in
strictly convex position: no two on one ray from an interior point). Then every two cyclically
consecutive indices `a, b` of `angularOrder pts ref` make a strict left turn about the mean:
`(p_a × p_b)·ẑ > 0`. -/
theorem angular_sort_ccw (pts : List (V3 ℝ)) (ref : Nat) (hr : ref < pts.length)
    (hnz : ∀ i, i < pts.length → toC (pts.getD i V3.zero) ≠ 0)
    (hcx : (pts.map (·.x)).sum = 0) (hcy : (pts.map (·.y)).sum = 0)
    (hnc : ∃ i j, i < pts.length ∧ j < pts.length ∧ cross2 (pts.getD i V3.zero) (pts.getD j V3.zero) ≠ 0)
    (hdist : ∀ i j, i < pts.length → j < pts.length → i ≠ j → relKey pts ref i ≠ relKey pts ref j) :
    (∀ l1 a b l2, angularOrder pts ref = l1 ++ a :: b :: l2 →
      0 < cross2 (pts.getD a V3.zero) (pts.getD b V3.zero)) ∧
    (∀ b mid a, angularOrder pts ref = b :: mid ++ [a] →
      0 < cross2 (pts.getD a V3.zero) (pts.getD b V3.zero)) := by
  obtain ⟨hsorted, hperm⟩ := angularOrder_sorted pts ref
  have hnd : (angularOrder pts ref).Nodup := hperm.nodup_iff.mpr List.nodup_range
  have hmem : ∀ c, c ∈ angularOrder pts ref ↔ c < pts.length := by
    intro c; rw [hperm.mem_iff, List.mem_range]
  constructor
  · intro l1 a b l2 hout
    rw [hout] at hsorted hnd
    have ha : a < pts.length := (hmem a).mp (by rw [hout]; simp)
    have hb : b < pts.length := (hmem b).mp (by rw [hout]; simp)
    have hab : a ≠ b := by
      intro h; subst h
      have := (List.nodup_append.mp hnd).2.1
      simp at this
    have hRab : relKey pts ref a < relKey pts ref b := by
      have h1 : relKey pts ref a ≤ relKey pts ref b := by
        have := (List.pairwise_append.mp hsorted).2.1
        exact (List.pairwise_cons.mp this).1 b List.mem_cons_self
      exact lt_of_le_of_ne h1 (hdist a b ha hb hab)
    have hgab : ccwGap pts ref a b = relKey pts ref b - relKey pts ref a := by
      unfold ccwGap; rw [if_pos (le_of_lt hRab)]
    apply empty_sector_left_turn pts ref hr hnz hcx hcy hnc a b ha hb
    · rw [hgab]; linarith
    · intro c hc
      have hcm : c ∈ l1 ++ a :: b :: l2 := by rw [← hout]; exact (hmem c).mpr hc
      have hRc := relKey_mem pts ref c hr hc
      have hRb := relKey_mem pts ref b hr hb
      rw [hgab]
      rcases List.mem_append.mp hcm with h1 | h1
      · -- before `a`
        have hle : relKey pts ref c ≤ relKey pts ref a :=
          (List.pairwise_append.mp hsorted).2.2 c h1 a List.mem_cons_self
        unfold ccwGap
        by_cases heq : relKey pts ref a ≤ relKey pts ref c
        · left; rw [if_pos heq]; linarith
        · right; rw [if_neg heq]; linarith
      · rcases List.mem_cons.mp h1 with rfl | h1
        · left; unfold ccwGap; simp
        · have hle : relKey pts ref b ≤ relKey pts ref c := by
            rcases List.mem_cons.mp h1 with rfl | h2
            · exact le_refl _
            · have := (List.pairwise_append.mp hsorted).2.1
              have := (List.pairwise_cons.mp (List.pairwise_cons.mp this).2).1 c h2
              exact this
          right
          unfold ccwGap
          rw [if_pos (by linarith)]; linarith
  · intro b mid a hout
    have hout' : angularOrder pts ref = (b :: mid) ++ [a] := by rw [hout]
    rw [hout'] at hsorted hnd
    have ha : a < pts.length := (hmem a).mp (by rw [hout']; simp)
    have hb : b < pts.length := (hmem b).mp (by rw [hout']; simp)
    have hab : a ≠ b := by
      intro h; subst h
      have := (List.nodup_append.mp hnd).2.2
      exact this a List.mem_cons_self a (List.mem_singleton.mpr rfl) rfl
    have hRba : relKey pts ref b < relKey pts ref a := by
      have h1 : relKey pts ref b ≤ relKey pts ref a :=
        (List.pairwise_append.mp hsorted).2.2 b List.mem_cons_self a (List.mem_singleton.mpr rfl)
      exact lt_of_le_of_ne h1 (fun h => hdist a b ha hb hab h.symm)
    have hgab : ccwGap pts ref a b = relKey pts ref b - relKey pts ref a + 2 * Real.pi := by
      unfold ccwGap; rw [if_neg (not_le.mpr hRba)]
    have hRa := relKey_mem pts ref a hr ha
    have hRb := relKey_mem pts ref b hr hb
    apply empty_sector_left_turn pts ref hr hnz hcx hcy hnc a b ha hb
    · rw [hgab]; linarith
    · intro c hc
      have hcm : c ∈ (b :: mid) ++ [a] := by rw [← hout']; exact (hmem c).mpr hc
      rw [hgab]
      rcases List.mem_append.mp hcm with h1 | h1
      · have hle : relKey pts ref c ≤ relKey pts ref a :=
          (List.pairwise_append.mp hsorted).2.2 c h1 a (List.mem_singleton.mpr rfl)
        have hge : relKey pts ref b ≤ relKey pts ref c := by
          rcases List.mem_cons.mp h1 with rfl | h2
          · exact le_refl _
          · exact (List.pairwise_cons.mp (List.pairwise_append.mp hsorted).1).1 c h2
        unfold ccwGap
        by_cases heq : relKey pts ref a ≤ relKey pts ref c
        · left; rw [if_pos heq]; linarith
        · right; rw [if_neg heq]; linarith
      · rw [List.mem_singleton.mp h1]
        left; unfold ccwGap; simp

/-- planar dot product of the `x,y` parts -/
def dot2 (u w : V3 ℝ) : ℝ := u.x * w.x + u.y * w.y

/-- **equal sort angles ⇒ same ray from the pivot**: the hypothesis "pairwise different relative
angles" of `angular_sort_ccw` follows from the polynomial condition that no two points lie on a
common ray from the pivot -/
theorem same_ray_of_relKey_eq (pts : List (V3 ℝ)) (ref i j : Nat) (hr : ref < pts.length)
    (hi : i < pts.length) (hj : j < pts.length)
    (hzi : toC (pts.getD i V3.zero) ≠ 0) (hzj : toC (pts.getD j V3.zero) ≠ 0)
    (h : relKey pts ref i = relKey pts ref j) :
    cross2 (pts.getD i V3.zero) (pts.getD j V3.zero) = 0 ∧ 0 < dot2 (pts.getD i V3.zero) (pts.getD j V3.zero) := by
  obtain ⟨ki, hki⟩ := relKey_shift pts ref i hr hi
  obtain ⟨kj, hkj⟩ := relKey_shift pts ref j hr hj
  set P := pts.getD i V3.zero
  set Q := pts.getD j V3.zero
  have hdiff : ang P - ang Q = ((ki - kj : ℤ) : ℝ) * (2 * Real.pi) := by
    push_cast; linarith
  have hP := Complex.arg_mem_Ioc (toC P)
  have hQ := Complex.arg_mem_Ioc (toC Q)
  rw [← ang_eq] at hP hQ
  have hpi := Real.pi_pos
  have hk : ki - kj = 0 := by
    by_contra hne
    rcases lt_or_gt_of_ne hne with hlt | hgt
    · have : ((ki - kj : ℤ) : ℝ) ≤ -1 := by exact_mod_cast Int.le_sub_one_of_lt hlt
      have h1 := hP.1; have h2 := hQ.2
      nlinarith
    · have : (1 : ℝ) ≤ ((ki - kj : ℤ) : ℝ) := by exact_mod_cast Int.add_one_le_of_lt hgt
      have h1 := hP.2; have h2 := hQ.1
      nlinarith
  have heq : ang P = ang Q := by
    rw [hk] at hdiff; simp at hdiff; linarith
  have hnP : 0 < ‖toC P‖ := norm_pos_iff.mpr hzi
  have hnQ : 0 < ‖toC Q‖ := norm_pos_iff.mpr hzj
  constructor
  · rw [cross2_eq_sin P Q hzi hzj, heq]; simp
  · unfold dot2
    rw [x_eq P hzi, y_eq P hzi, x_eq Q hzj, y_eq Q hzj, heq]
    have : ‖toC P‖ * Real.cos (ang Q) * (‖toC Q‖ * Real.cos (ang Q)) +
        ‖toC P‖ * Real.sin (ang Q) * (‖toC Q‖ * Real.sin (ang Q)) =
        ‖toC P‖ * ‖toC Q‖ * (Real.sin (ang Q) ^ 2 + Real.cos (ang Q) ^ 2) := by ring
    rw [this, Real.sin_sq_add_cos_sq, mul_one]
    positivity

/-! ### back to the face: centring and the kabsch rotation -/

/-- determinant of the rotation matrix, as `kabschContract` computes it -/
def detM (R : M3 ℝ) : ℝ := V3.det3 ⟨R.xx, R.xy, R.xz⟩ ⟨R.yx, R.yy, R.yz⟩ ⟨R.zx, R.zy, R.zz⟩

/-- in the rotated frame the planar cross product is the triple product with the face normal:
for ANY matrix with `R n = ẑ`, `(Ru × Rw)·ẑ = det R · det(n, u, w)` -/
theorem cross2_rotated (R : M3 ℝ) (n u w : V3 ℝ) (hn : M3.mulVec R n = ⟨0, 0, 1⟩) :
    cross2 (M3.mulVec R u) (M3.mulVec R w) = detM R * V3.det3 n u w := by
  have h1 : (M3.mulVec R n).x = 0 := by rw [hn]
  have h2 : (M3.mulVec R n).y = 0 := by rw [hn]
  have h3 : (M3.mulVec R n).z = 1 := by rw [hn]
  obtain ⟨a, b, c, d, e, f, g, h, i⟩ := R
  obtain ⟨nx, ny, nz⟩ := n; obtain ⟨ux, uy, uz⟩ := u; obtain ⟨wx, wy, wz⟩ := w
  simp only [M3.mulVec] at h1 h2 h3
  simp only [cross2, M3.mulVec, detM]
  unfold_model
  -- `det(Rn, Ru, Rw) = det R · det(n, u, w)` with `Rn = ẑ`
  have key : (a * ux + b * uy + c * uz) * (d * wx + e * wy + f * wz) -
      (d * ux + e * uy + f * uz) * (a * wx + b * wy + c * wz) =
      (a * nx + b * ny + c * nz) * ((d * ux + e * uy + f * uz) * (g * wx + h * wy + i * wz) -
          (g * ux + h * uy + i * uz) * (d * wx + e * wy + f * wz)) +
      (d * nx + e * ny + f * nz) * ((g * ux + h * uy + i * uz) * (a * wx + b * wy + c * wz) -
          (a * ux + b * uy + c * uz) * (g * wx + h * wy + i * wz)) +
      (g * nx + h * ny + i * nz) * ((a * ux + b * uy + c * uz) * (d * wx + e * wy + f * wz) -
          (d * ux + e * uy + f * uz) * (a * wx + b * wy + c * wz)) := by
    rw [h1, h2, h3]; ring
  rw [key]; ring

theorem sum_sub_mean (f : V3 ℝ → ℝ) (vs : List (V3 ℝ)) (hne : vs ≠ []) :
    (vs.map fun v => f v - (vs.map f).sum / (vs.length : ℝ)).sum = 0 := by
  have hlen : (vs.length : ℝ) ≠ 0 := by
    have : 0 < vs.length := List.length_pos_iff.mpr hne
    positivity
  have : ∀ (c : ℝ) (l : List (V3 ℝ)), (l.map fun v => f v - c).sum = (l.map f).sum - l.length * c := by
    intro c l
    induction l with
    | nil => simp
    | cons a l ih => simp only [List.map_cons, List.sum_cons, ih, List.length_cons]; push_cast; ring
  rw [this]; field_simp; ring

/-- **the points handed to the angular sort are centred**: after `alignCentred` the `x` and `y`
coordinates sum to zero, whatever the matrix -/
theorem alignCentred_centred (R : M3 ℝ) (vs : List (V3 ℝ)) (hne : vs ≠ []) :
    ((alignCentred R vs).map (·.x)).sum = 0 ∧ ((alignCentred R vs).map (·.y)).sum = 0 := by
  have hx := sum_sub_mean (·.x) vs hne
  have hy := sum_sub_mean (·.y) vs hne
  have hz := sum_sub_mean (·.z) vs hne
  have mx : (mean vs).x = (vs.map (·.x)).sum / (vs.length : ℝ) := by
    simp [mean, V3.sum_x]
  have my : (mean vs).y = (vs.map (·.y)).sum / (vs.length : ℝ) := by
    simp [mean, V3.sum_y]
  have mz : (mean vs).z = (vs.map (·.z)).sum / (vs.length : ℝ) := by
    simp [mean, V3.sum_z]
  have lin : ∀ (a b c : ℝ) (l : List (V3 ℝ)) (m : V3 ℝ),
      (l.map fun v => a * (v.x - m.x) + b * (v.y - m.y) + c * (v.z - m.z)).sum =
        a * (l.map fun v => v.x - m.x).sum + b * (l.map fun v => v.y - m.y).sum +
          c * (l.map fun v => v.z - m.z).sum := by
    intro a b c l m
    induction l with
    | nil => simp
    | cons v l ih => simp only [List.map_cons, List.sum_cons, ih]; ring
  unfold alignCentred
  simp only [List.map_map]
  constructor
  · have : ((fun p : V3 ℝ => p.x) ∘ fun v => M3.mulVec R (v - mean vs)) =
        fun v => R.xx * (v.x - (mean vs).x) + R.xy * (v.y - (mean vs).y) + R.xz * (v.z - (mean vs).z) := by
      funext v; simp [M3.mulVec]
    rw [this, lin, mx, my, mz, hx, hy, hz]; ring
  · have : ((fun p : V3 ℝ => p.y) ∘ fun v => M3.mulVec R (v - mean vs)) =
        fun v => R.yx * (v.x - (mean vs).x) + R.yy * (v.y - (mean vs).y) + R.yz * (v.z - (mean vs).z) := by
      funext v; simp [M3.mulVec]
    rw [this, lin, mx, my, mz, hx, hy, hz]; ring

end StructLemmas
