import CoxeterVerif.Lemmas.FormFactor
import Mathlib.Analysis.SpecialFunctions.Integrals.Basic
/-!
  The one analytic step of the Stokes reduction that Mathlib lets us PROVE rather than trust:
  `∫₀¹ exp(-i (a + s b)) ds = exp(-i (a + b/2)) · sinc(b/2)`  (interval integral over ℝ, values in ℂ).
-/
open Scalar

namespace FF

/-- the complex number denoted by a pair -/
noncomputable def toC (z : Cx ℝ) : ℂ := ⟨z.re, z.im⟩

theorem toC_cis (x : ℝ) : toC (Spec.cis x) = Complex.exp (-(Complex.I) * x) := by
  apply Complex.ext <;> simp [toC, Spec.cis, Complex.exp_re, Complex.exp_im]

theorem toC_smul (k : ℝ) (z : Cx ℝ) : toC (Cx.smul k z) = (k : ℂ) * toC z := by
  apply Complex.ext <;> simp [toC]

theorem sinc_zero : Spec.sinc (0 : ℝ) = 1 := by simp [Spec.sinc]

theorem sinc_of_ne {x : ℝ} (h : x ≠ 0) : Spec.sinc x = Real.sin x / x := by simp [Spec.sinc, h]

/-- `exp(-i b) - 1 = (-i b) · (sin(b/2)/(b/2)) · exp(-i b/2)` -/
theorem exp_sub_one_eq (b : ℝ) (hb : b ≠ 0) :
    Complex.exp (-(Complex.I) * b) - 1 =
      (-(Complex.I) * b) * ((Complex.sin ((b : ℂ) / 2) / ((b : ℂ) / 2)) * Complex.exp (-(Complex.I) * ((b : ℂ) / 2))) := by
  have hbC : (b : ℂ) ≠ 0 := by exact_mod_cast hb
  set Em : ℂ := Complex.exp (-(Complex.I) * ((b : ℂ) / 2)) with hEm
  set Ep : ℂ := Complex.exp (Complex.I * ((b : ℂ) / 2)) with hEp
  have h1 : Ep * Em = 1 := by
    rw [hEp, hEm, ← Complex.exp_add]; ring_nf; simp
  have h2 : Complex.exp (-(Complex.I) * b) = Em * Em := by
    rw [hEm, ← Complex.exp_add]; congr 1; ring
  have h3 : Complex.sin ((b : ℂ) / 2) = (Em - Ep) * Complex.I / 2 := by
    rw [Complex.sin, hEm, hEp]
    congr 2
    · congr 1
      · congr 1; ring
      · congr 1; ring
  have hI : Complex.I * Complex.I = -1 := Complex.I_mul_I
  rw [h2, h3]
  field_simp
  linear_combination h1 + (Em * (Em - Ep)) * hI

/-- **edge integral.** `∫₀¹ exp(-i (a + s b)) ds` equals the closed form used by the specification
(`Spec.edgeIntegral`), for all real `a`, `b` (including `b = 0`). -/
theorem edge_integral_closed (a b : ℝ) :
    (∫ s in (0:ℝ)..1, Complex.exp (-(Complex.I) * ((a : ℂ) + (s : ℂ) * b))) = toC (Spec.edgeIntegral a b) := by
  unfold Spec.edgeIntegral
  rw [toC_smul, toC_cis]
  simp only [Scalar.lit, Scalar.ofNat_real, Nat.cast_ofNat]
  by_cases hb : b = 0
  · subst hb
    simp [sinc_zero]
  · have hbC : (b : ℂ) ≠ 0 := by exact_mod_cast hb
    have hc : -(Complex.I) * (b : ℂ) ≠ 0 := by
      simp [hbC]
    have hsplit : ∀ s : ℝ, Complex.exp (-(Complex.I) * ((a : ℂ) + (s : ℂ) * b)) =
        Complex.exp (-(Complex.I) * a) * Complex.exp ((-(Complex.I) * b) * s) := by
      intro s; rw [← Complex.exp_add]; congr 1; ring
    simp_rw [hsplit]
    rw [intervalIntegral.integral_const_mul, integral_exp_mul_complex hc]
    have h2 : b / 2 ≠ 0 := by intro h; apply hb; linarith
    rw [sinc_of_ne h2]
    have key := exp_sub_one_eq b hb
    simp only [Complex.ofReal_one, mul_one, Complex.ofReal_zero, mul_zero, Complex.exp_zero]
    rw [key]
    have : Complex.exp (-(Complex.I) * ((a + b / 2 : ℝ) : ℂ)) =
        Complex.exp (-(Complex.I) * a) * Complex.exp (-(Complex.I) * ((b / 2 : ℝ) : ℂ)) := by
      rw [← Complex.exp_add]; congr 1; push_cast; ring
    rw [this]
    push_cast
    field_simp

end FF
