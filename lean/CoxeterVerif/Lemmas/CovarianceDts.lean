import CoxeterVerif.Props.C14
/-!
  Helper lemmas for C09, part 9: `ConvexPolygon.distance_to_surface` (model of C14, imported unchanged)
  under a proper similarity of the plane `g : p ↦ k · Rot(α) p + t` (`Sim2`).

  The function sorts the vertices by polar angle, rolls the list to the smallest angle, picks the angular bin
  of `θ` and then one of THREE formula branches (slope 0 / slope ∞ / generic) — none of these steps is
  covariant by itself (the start vertex, the bins and the branch all change under a rotation).  The RESULT is:
  by `cpoly_dts_correct` / `cpoly_dts_unique` of C14 it is the unique positive distance at which the ray from
  the centre meets the boundary, and that is a geometric notion.
  `dts_sim`: for EVERY strictly convex counter-clockwise polygon, every centre strictly inside, every `θ`:
      `dts(g V, g c)(θ + α) = k · dts(V, c)(θ)`
  in particular an axis-aligned rectangle (all edges in the slope-0 / slope-∞ branches) and its copy rotated by
  any `α` (all edges in the generic branch) agree.
-/
open Scalar
set_option maxRecDepth 4000
noncomputable section

/-- similarity of the plane -/
structure Sim2 where
  k : ℝ
  α : ℝ
  t : P2 ℝ

namespace Sim2
variable (g : Sim2)

def act (p : P2 ℝ) : P2 ℝ :=
  ⟨g.k * (p.x * Real.cos g.α - p.y * Real.sin g.α) + g.t.x, g.k * (p.x * Real.sin g.α + p.y * Real.cos g.α) + g.t.y⟩

theorem cross_act (a b w : P2 ℝ) :
    Spec.cross (g.act b - g.act a) (g.act w - g.act a) = g.k ^ 2 * Spec.cross (b - a) (w - a) := by
  have hsc := Real.sin_sq_add_cos_sq g.α
  simp only [Spec.cross, act, P2.sub_x, P2.sub_y]
  linear_combination (g.k ^ 2 * ((b.x - a.x) * (w.y - a.y) - (b.y - a.y) * (w.x - a.x))) * hsc

theorem act_injective (hk : 0 < g.k) : Function.Injective g.act := by
  intro p q h
  have hsc := Real.sin_sq_add_cos_sq g.α
  have hx : g.k * (p.x * Real.cos g.α - p.y * Real.sin g.α) + g.t.x
      = g.k * (q.x * Real.cos g.α - q.y * Real.sin g.α) + g.t.x := congrArg P2.x h
  have hy : g.k * (p.x * Real.sin g.α + p.y * Real.cos g.α) + g.t.y
      = g.k * (q.x * Real.sin g.α + q.y * Real.cos g.α) + g.t.y := congrArg P2.y h
  have hx' : (p.x - q.x) * Real.cos g.α - (p.y - q.y) * Real.sin g.α = 0 := by
    have : g.k * ((p.x - q.x) * Real.cos g.α - (p.y - q.y) * Real.sin g.α) = 0 := by linarith
    rcases mul_eq_zero.mp this with h0 | h0
    · exact absurd h0 hk.ne'
    · exact h0
  have hy' : (p.x - q.x) * Real.sin g.α + (p.y - q.y) * Real.cos g.α = 0 := by
    have : g.k * ((p.x - q.x) * Real.sin g.α + (p.y - q.y) * Real.cos g.α) = 0 := by linarith
    rcases mul_eq_zero.mp this with h0 | h0
    · exact absurd h0 hk.ne'
    · exact h0
  have e1 : p.x - q.x = 0 := by
    linear_combination Real.cos g.α * hx' + Real.sin g.α * hy' - (p.x - q.x) * hsc
  have e2 : p.y - q.y = 0 := by
    linear_combination Real.cos g.α * hy' - Real.sin g.α * hx' - (p.y - q.y) * hsc
  cases p; cases q
  simp only [P2.mk.injEq]
  exact ⟨by linarith, by linarith⟩

theorem edgesOf_map (V : List (P2 ℝ)) :
    Spec.edgesOf (V.map g.act) = (Spec.edgesOf V).map fun e => (g.act e.1, g.act e.2) := by
  unfold Spec.edgesOf
  rw [← List.map_drop, ← List.map_take, ← List.map_append, List.zip_map]
  rfl

theorem strictConvex_act (hk : 0 < g.k) {V : List (P2 ℝ)} (h : Spec.strictConvexCCW V) :
    Spec.strictConvexCCW (V.map g.act) := by
  obtain ⟨hnd, hc⟩ := h
  refine ⟨hnd.map (g.act_injective hk), ?_⟩
  intro e he w hw h1 h2
  rw [edgesOf_map] at he
  obtain ⟨e0, he0, rfl⟩ := List.mem_map.mp he
  obtain ⟨w0, hw0, rfl⟩ := List.mem_map.mp hw
  simp only [Scalar.lit, Scalar.ofNat_real, Nat.cast_zero]
  rw [cross_act]
  have := hc e0 he0 w0 hw0 (fun h => h1 (by rw [h])) (fun h => h2 (by rw [h]))
  simp only [Scalar.lit, Scalar.ofNat_real, Nat.cast_zero] at this
  exact mul_pos (pow_pos hk 2) this

theorem strictlyInside_act (hk : 0 < g.k) {V : List (P2 ℝ)} {c : P2 ℝ} (h : Spec.strictlyInsideCCW V c) :
    Spec.strictlyInsideCCW (V.map g.act) (g.act c) := by
  intro e he
  rw [edgesOf_map] at he
  obtain ⟨e0, he0, rfl⟩ := List.mem_map.mp he
  simp only [Scalar.lit, Scalar.ofNat_real, Nat.cast_zero]
  rw [cross_act]
  have := h e0 he0
  simp only [Scalar.lit, Scalar.ofNat_real, Nat.cast_zero] at this
  exact mul_pos (pow_pos hk 2) this

/-- the boundary point on the ray moves with the shape: `g c + (k d)(cos(θ+α), sin(θ+α)) = g (c + d(cos θ, sin θ))` -/
theorem act_rayPoint (c : P2 ℝ) (d θ : ℝ) :
    g.act c + Spec.rayPoint (g.k * d) (θ + g.α) = g.act (c + Spec.rayPoint d θ) := by
  simp only [act, Spec.rayPoint, Scalar.cos_real, Scalar.sin_real, Real.cos_add, Real.sin_add]
  show (⟨_, _⟩ : P2 ℝ) = ⟨_, _⟩
  simp only [P2.add_x, P2.add_y, P2.mk.injEq]
  constructor <;> ring

theorem onSegment_act {p a b : P2 ℝ} (h : Spec.onSegment p a b) : Spec.onSegment (g.act p) (g.act a) (g.act b) := by
  obtain ⟨s, h0, h1, hx, hy⟩ := h
  refine ⟨s, h0, h1, ?_, ?_⟩
  · simp only [act]; rw [hx, hy]; ring
  · simp only [act]; rw [hx, hy]; ring

theorem onPolyBoundary_act {V : List (P2 ℝ)} {p : P2 ℝ} (h : Spec.onPolyBoundary V p) :
    Spec.onPolyBoundary (V.map g.act) (g.act p) := by
  obtain ⟨e, he, hs⟩ := h
  refine ⟨(g.act e.1, g.act e.2), ?_, g.onSegment_act hs⟩
  rw [edgesOf_map]
  exact List.mem_map.mpr ⟨e, he, rfl⟩

/-- **`distance_to_surface` of the moved polygon at the shifted angle is `k` times the original**, for
every strictly convex counter-clockwise polygon, every interior centre and every angle (`hcos`, `hcos'`: the
`tan` of the generic branch is finite on both sides — automatically true when the polygon has no generic
edge). -/
theorem dts_sim (hk : 0 < g.k) (V : List (P2 ℝ)) (c : P2 ℝ) (θ : ℝ) (hne : V ≠ [])
    (hconv : Spec.strictConvexCCW V) (hin : Spec.strictlyInsideCCW V c)
    (hcos : ∀ e ∈ Spec.edgesOf V, e.1.x ≠ e.2.x → e.1.y ≠ e.2.y → Real.cos θ ≠ 0)
    (hcos' : ∀ e ∈ Spec.edgesOf (V.map g.act), e.1.x ≠ e.2.x → e.1.y ≠ e.2.y → Real.cos (θ + g.α) ≠ 0) :
    DTS.cpolyDtsFrom M2.id false (V.map g.act) (g.act c) (θ + g.α)
      = (DTS.cpolyDtsFrom M2.id false V c θ).map (g.k * ·) := by
  obtain ⟨d, hd, hpos, hb⟩ := cpoly_dts_correct V c θ hne hconv hin hcos
  rw [hd, Option.map_some]
  apply cpoly_dts_unique (V.map g.act) (g.act c) (θ + g.α) (g.k * d) (by simpa using hne)
    (g.strictConvex_act hk hconv) (g.strictlyInside_act hk hin) hcos' (mul_pos hk hpos)
  rw [act_rayPoint]
  exact g.onPolyBoundary_act hb

end Sim2

end
