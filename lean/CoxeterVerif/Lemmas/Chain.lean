import CoxeterVerif.Lemmas.Basic
/-!
  Chain-cancellation framework (DESIGN §3.2).

  `sumOver φ S = Σ_{t∈S} φ t`.  A functional is `OddCyclic` when it is invariant under cyclic
  rotation of a triangle and negated by reversal.  Two triangle lists are `ChainEq` when they are
  equal as simplicial 2-chains, i.e. every odd-cyclic real functional agrees on them; the moves
  (permutation, rotation, cancelling `t, t.rev`, congruence under append) are lemmas.
-/

def sumOver (φ : Tri ℝ → ℝ) (S : List (Tri ℝ)) : ℝ := (S.map φ).sum

structure OddCyclic (φ : Tri ℝ → ℝ) : Prop where
  rot : ∀ t, φ t.rot = φ t
  rev : ∀ t, φ t.rev = -φ t

def ChainEq (S T : List (Tri ℝ)) : Prop := ∀ φ, OddCyclic φ → sumOver φ S = sumOver φ T

namespace ChainEq
theorem refl (S) : ChainEq S S := fun _ _ => rfl
theorem symm {S T} (h : ChainEq S T) : ChainEq T S := fun φ hφ => (h φ hφ).symm
theorem trans {S T U} (h₁ : ChainEq S T) (h₂ : ChainEq T U) : ChainEq S U :=
  fun φ hφ => (h₁ φ hφ).trans (h₂ φ hφ)
theorem perm {S T : List (Tri ℝ)} (h : S.Perm T) : ChainEq S T :=
  fun φ _ => by unfold sumOver; exact (h.map φ).sum_eq
theorem rot (t : Tri ℝ) (S) : ChainEq (t.rot :: S) (t :: S) :=
  fun φ hφ => by simp [sumOver, hφ.rot]
theorem cancel (t : Tri ℝ) (S) : ChainEq (t :: t.rev :: S) S :=
  fun φ hφ => by simp [sumOver, hφ.rev]
theorem append {S S' T T'} (h₁ : ChainEq S S') (h₂ : ChainEq T T') : ChainEq (S ++ T) (S' ++ T') :=
  fun φ hφ => by
    have a := h₁ φ hφ; have b := h₂ φ hφ
    simp only [sumOver, List.map_append, List.sum_append] at *
    rw [a, b]
/-- chains are preserved by moving the vertices with any map -/
theorem map (f : V3 ℝ → V3 ℝ) {S T} (h : ChainEq S T) :
    ChainEq (S.map (Tri.map f)) (T.map (Tri.map f)) := fun φ hφ => by
  have := h (fun t => φ (t.map f)) ⟨fun t => by simpa [Tri.map, Tri.rot] using hφ.rot (t.map f),
    fun t => by simpa [Tri.map, Tri.rev] using hφ.rev (t.map f)⟩
  simpa [sumOver, List.map_map, Function.comp_def] using this
end ChainEq

theorem sumOver_flatMap (φ : Tri ℝ → ℝ) (Ts : List (Tet ℝ)) :
    sumOver φ (Ts.flatMap Tet.bdry) = (Ts.map fun T => sumOver φ T.bdry).sum := by
  induction Ts with
  | nil => simp [sumOver]
  | cons T Ts ih => simp only [sumOver, List.flatMap_cons, List.map_append, List.sum_append,
      List.map_cons, List.sum_cons] at *; rw [ih]

/-- **Backbone.** If `φ` is odd-cyclic and its sum over the boundary of any single tetrahedron is
`Φ`, then over any surface that is the boundary chain of a tetrahedralisation `Ts` it is `Σ Φ`. -/
theorem sumOver_bdry {φ : Tri ℝ → ℝ} {Φ : Tet ℝ → ℝ} (hφ : OddCyclic φ)
    (hT : ∀ T, sumOver φ T.bdry = Φ T) {S : List (Tri ℝ)} {Ts : List (Tet ℝ)}
    (h : ChainEq S (Ts.flatMap Tet.bdry)) : sumOver φ S = (Ts.map Φ).sum := by
  rw [h φ hφ, sumOver_flatMap]; congr 1; exact List.map_congr_left (fun T _ => hT T)

theorem Tet.bdry_map (f : V3 ℝ → V3 ℝ) (T : Tet ℝ) : (T.map f).bdry = T.bdry.map (Tri.map f) := rfl

theorem flatMap_bdry_map (f : V3 ℝ → V3 ℝ) (Ts : List (Tet ℝ)) :
    (Ts.map (Tet.map f)).flatMap Tet.bdry = (Ts.flatMap Tet.bdry).map (Tri.map f) := by
  induction Ts with
  | nil => rfl
  | cons T Ts ih => simp [List.flatMap_cons, ih, Tet.bdry_map]
