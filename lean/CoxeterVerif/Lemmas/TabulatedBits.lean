import CoxeterVerif.Lemmas.Tabulated
import Mathlib.Tactic.Linarith
import Mathlib.Data.List.Nodup
/-!
  C18, meaning of the two bit-set predicates of `Spec/Textbook.lean`, for EVERY entry
  (generic theorems, nothing table specific):

  * `usesExactlyVerts_iff` : `usesExactlyVerts e = true` ⇔ at most 4096 vertices, every face index is
    a vertex index and every vertex index occurs in a face;
  * `closedOriented_iff`   : on such an entry `closedOriented e = true` ⇔ `ClosedOriented e`
    (faces have ≥ 3 corners, no directed edge is a loop, no directed edge occurs twice, the reverse of
    every directed edge is a directed edge);
  * the quadratic reference definitions mean the same (`usesExactlyVertsRef_iff`,
    `closedOrientedRef_iff`), hence `usesExactlyVerts_eq_ref`, `closedOriented_eq_ref`.

  The arithmetic core is `a + b = (a ||| b) + (a &&& b)` (`add_eq_or_add_and`): a sum of powers of two
  equals their bitwise or exactly when the exponents are pairwise different.
-/
namespace Tab

theorem natBeq_iff (a b : Nat) : Nat.beq a b = true ↔ a = b :=
  ⟨Nat.eq_of_beq_eq_true, fun h => h ▸ Nat.beq_refl a⟩

/-! ### `+`, `|||`, `&&&` -/

theorem add_eq_or_add_and (a : Nat) : ∀ b : Nat, a + b = (a ||| b) + (a &&& b) := by
  induction a using Nat.strongRecOn with
  | _ a ih =>
    intro b
    by_cases ha : a = 0
    · subst ha; simp
    · have h := ih (a / 2) (by omega) (b / 2)
      have h1 : (a ||| b) / 2 = a / 2 ||| b / 2 := Nat.or_div_two
      have h2 : (a &&& b) / 2 = a / 2 &&& b / 2 := Nat.and_div_two
      have m1 : (a ||| b) % 2 = 1 ↔ a % 2 = 1 ∨ b % 2 = 1 := Nat.or_mod_two_eq_one
      have m2 : (a &&& b) % 2 = 1 ↔ a % 2 = 1 ∧ b % 2 = 1 := Nat.and_mod_two_eq_one
      rw [← h1, ← h2] at h
      rcases Nat.mod_two_eq_zero_or_one a with pa | pa <;>
        rcases Nat.mod_two_eq_zero_or_one b with pb | pb <;>
        rcases Nat.mod_two_eq_zero_or_one (a ||| b) with po | po <;>
        rcases Nat.mod_two_eq_zero_or_one (a &&& b) with pn | pn <;>
        simp only [pa, pb, po, pn] at m1 m2 <;> first | omega | (simp at m1 m2)

/-! ### the two folds -/

/-- `Σ 2^c`, with multiplicity -/
def pow2Sum : List Nat → Nat
  | [] => 0
  | c :: t => 2 ^ c + pow2Sum t

/-- `⋁ 2^c` -/
def pow2Or : List Nat → Nat
  | [] => 0
  | c :: t => 2 ^ c ||| pow2Or t

theorem bitSum_foldl (l : List Nat) (acc : Nat) :
    l.foldl (fun acc c => Nat.add acc (Nat.shiftLeft 1 c)) acc = acc + pow2Sum l := by
  induction l generalizing acc with
  | nil => simp [pow2Sum]
  | cons c t ih =>
    rw [List.foldl_cons, ih]
    show acc + 1 <<< c + pow2Sum t = acc + (2 ^ c + pow2Sum t)
    rw [Nat.one_shiftLeft]; omega

theorem bitOr_foldl (l : List Nat) (acc : Nat) :
    l.foldl (fun acc c => Nat.lor acc (Nat.shiftLeft 1 c)) acc = acc ||| pow2Or l := by
  induction l generalizing acc with
  | nil => simp [pow2Or]
  | cons c t ih =>
    rw [List.foldl_cons, ih]
    show (acc ||| 1 <<< c) ||| pow2Or t = acc ||| (2 ^ c ||| pow2Or t)
    rw [Nat.one_shiftLeft, Nat.or_assoc]

theorem bitSum_eq (l : List Nat) : bitSum l = pow2Sum l := by
  unfold bitSum; rw [bitSum_foldl]; simp

theorem bitOr_eq (l : List Nat) : bitOr l = pow2Or l := by
  unfold bitOr; rw [bitOr_foldl]; simp

theorem testBit_pow2Or (l : List Nat) (i : Nat) : (pow2Or l).testBit i = decide (i ∈ l) := by
  induction l with
  | nil => simp [pow2Or]
  | cons c t ih =>
    simp only [pow2Or, Nat.testBit_or, ih, Nat.testBit_two_pow, List.mem_cons]
    by_cases h : c = i
    · subst h; simp
    · have h' : ¬ i = c := fun hh => h hh.symm
      simp [h, h']

/-- membership in the bit set -/
theorem testBit_bitOr (l : List Nat) (i : Nat) : (bitOr l).testBit i = decide (i ∈ l) := by
  rw [bitOr_eq, testBit_pow2Or]

theorem bitOr_eq_iff (l₁ l₂ : List Nat) : bitOr l₁ = bitOr l₂ ↔ ∀ i, i ∈ l₁ ↔ i ∈ l₂ := by
  constructor
  · intro h i
    have := congrArg (fun n => n.testBit i) h
    simp only [testBit_bitOr] at this
    simpa using this
  · intro h
    apply Nat.eq_of_testBit_eq
    intro i
    rw [testBit_bitOr, testBit_bitOr]
    simp [h i]

theorem two_pow_and_pow2Or (c : Nat) (t : List Nat) : 2 ^ c &&& pow2Or t = 0 ↔ c ∉ t := by
  constructor
  · intro h hm
    have := congrArg (fun n => n.testBit c) h
    simp [Nat.testBit_and, Nat.testBit_two_pow_self, testBit_pow2Or, hm] at this
  · intro h
    apply Nat.eq_of_testBit_eq
    intro i
    simp only [Nat.testBit_and, Nat.testBit_two_pow, testBit_pow2Or, Nat.zero_testBit]
    by_cases hc : c = i
    · subst hc; simp [h]
    · simp [hc]

theorem pow2Or_le_pow2Sum (l : List Nat) : pow2Or l ≤ pow2Sum l := by
  induction l with
  | nil => simp [pow2Or, pow2Sum]
  | cons c t ih =>
    have := add_eq_or_add_and (2 ^ c) (pow2Or t)
    simp only [pow2Or, pow2Sum]
    omega

/-- **a sum of powers of two equals their bitwise or iff the exponents are pairwise different** -/
theorem pow2Sum_eq_pow2Or_iff (l : List Nat) : pow2Sum l = pow2Or l ↔ l.Nodup := by
  induction l with
  | nil => simp [pow2Or, pow2Sum]
  | cons c t ih =>
    have hid := add_eq_or_add_and (2 ^ c) (pow2Or t)
    have hle := pow2Or_le_pow2Sum t
    simp only [pow2Or, pow2Sum, List.nodup_cons]
    constructor
    · intro h
      have h0 : 2 ^ c &&& pow2Or t = 0 := by omega
      have h1 : pow2Sum t = pow2Or t := by omega
      exact ⟨(two_pow_and_pow2Or c t).mp h0, ih.mp h1⟩
    · rintro ⟨hc, ht⟩
      have h0 := (two_pow_and_pow2Or c t).mpr hc
      have h1 := ih.mpr ht
      omega

theorem bitSum_eq_bitOr_iff (l : List Nat) : bitSum l = bitOr l ↔ l.Nodup := by
  rw [bitSum_eq, bitOr_eq, pow2Sum_eq_pow2Or_iff]

/-! ### `cnt` is `List.count` -/

theorem cnt_eq_count (c : Nat) (l : List Nat) : cnt c l = l.count c := by
  induction l with
  | nil => rfl
  | cons x t ih =>
    simp only [cnt, List.count_cons, ih]
    by_cases h : x = c
    · subst h; simp
    · have hb : Nat.beq x c = false := by
        rw [← Bool.not_eq_true]; intro hh; exact h (Nat.eq_of_beq_eq_true hh)
      have : (x == c) = false := by simpa using h
      simp [hb, this]

/-! ### `usesExactlyVerts` -/

/-- what `usesExactlyVerts` says -/
structure UsesExactlyVerts (e : Entry) : Prop where
  small : e.verts.length ≤ 4096
  in_range : ∀ f ∈ e.faces, ∀ i ∈ f, i < e.verts.length
  all_used : ∀ i, i < e.verts.length → ∃ f ∈ e.faces, i ∈ f

theorem mem_flatMap_id (faces : List (List Nat)) (i : Nat) :
    i ∈ faces.flatMap id ↔ ∃ f ∈ faces, i ∈ f := by
  simp

theorem usesExactlyVerts_iff (e : Entry) : usesExactlyVerts e = true ↔ UsesExactlyVerts e := by
  unfold usesExactlyVerts
  rw [Bool.and_eq_true, Nat.ble_eq, natBeq_iff]
  have hpow : Nat.sub (Nat.shiftLeft 1 e.verts.length) 1 = 2 ^ e.verts.length - 1 := by
    show 1 <<< e.verts.length - 1 = _
    rw [Nat.one_shiftLeft]
  rw [hpow]
  constructor
  · rintro ⟨hs, hb⟩
    have key : ∀ i, i ∈ e.faces.flatMap id ↔ i < e.verts.length := by
      intro i
      have := congrArg (fun n => n.testBit i) hb
      simp only [testBit_bitOr, Nat.testBit_two_pow_sub_one] at this
      simpa using this
    refine ⟨hs, ?_, ?_⟩
    · intro f hf i hi
      exact (key i).mp ((mem_flatMap_id _ _).mpr ⟨f, hf, hi⟩)
    · intro i hi
      exact (mem_flatMap_id _ _).mp ((key i).mpr hi)
  · rintro ⟨hs, hr, hu⟩
    refine ⟨hs, ?_⟩
    apply Nat.eq_of_testBit_eq
    intro i
    rw [testBit_bitOr, Nat.testBit_two_pow_sub_one]
    have : i ∈ e.faces.flatMap id ↔ i < e.verts.length := by
      rw [mem_flatMap_id]
      constructor
      · rintro ⟨f, hf, hi⟩; exact hr f hf i hi
      · exact hu i
    rw [Bool.eq_iff_iff, decide_eq_true_eq, decide_eq_true_eq]
    exact this

theorem usesExactlyVertsRef_iff (e : Entry) : usesExactlyVertsRef e = true ↔ UsesExactlyVerts e := by
  unfold usesExactlyVertsRef
  simp only [Bool.and_eq_true, Nat.ble_eq, List.all_eq_true, Nat.blt_eq, cnt_eq_count,
    List.mem_range, List.count_pos_iff, mem_flatMap_id]
  constructor
  · rintro ⟨⟨hs, hr⟩, hu⟩
    exact ⟨hs, fun f hf i hi => hr i ⟨f, hf, hi⟩, hu⟩
  · rintro ⟨hs, hr, hu⟩
    exact ⟨⟨hs, fun i ⟨f, hf, hi⟩ => hr f hf i hi⟩, hu⟩

/-- the bit-set predicate IS its reference definition -/
theorem usesExactlyVerts_eq_ref (e : Entry) : usesExactlyVerts e = usesExactlyVertsRef e := by
  rw [Bool.eq_iff_iff, usesExactlyVerts_iff, usesExactlyVertsRef_iff]

/-! ### directed edges of a face list -/

theorem mem_cycPairs_go {β : Type} (first prev : β) (l : List β) (ab : β × β)
    (h : ab ∈ cycPairs.go first prev l) :
    (ab.1 = prev ∨ ab.1 ∈ l) ∧ (ab.2 = first ∨ ab.2 ∈ l) := by
  induction l generalizing prev with
  | nil =>
    simp only [cycPairs.go, List.mem_singleton] at h
    subst h; simp
  | cons b t ih =>
    simp only [cycPairs.go, List.mem_cons] at h
    rcases h with h | h
    · subst h; simp
    · have := ih b h
      rcases this with ⟨h1, h2⟩
      constructor
      · right; rcases h1 with h1 | h1
        · exact List.mem_cons.mpr (Or.inl h1)
        · exact List.mem_cons_of_mem _ h1
      · rcases h2 with h2 | h2
        · exact Or.inl h2
        · exact Or.inr (List.mem_cons_of_mem _ h2)

/-- both ends of a consecutive pair of a cyclic list are elements of the list -/
theorem mem_of_mem_cycPairs {β : Type} (l : List β) (ab : β × β) (h : ab ∈ cycPairs l) :
    ab.1 ∈ l ∧ ab.2 ∈ l := by
  cases l with
  | nil => simp [cycPairs] at h
  | cons a t =>
    have := mem_cycPairs_go a a t ab h
    rcases this with ⟨h1, h2⟩
    constructor
    · rcases h1 with h1 | h1
      · exact List.mem_cons.mpr (Or.inl h1)
      · exact List.mem_cons_of_mem _ h1
    · rcases h2 with h2 | h2
      · exact List.mem_cons.mpr (Or.inl h2)
      · exact List.mem_cons_of_mem _ h2

theorem dirEdges_lt (e : Entry) (hu : UsesExactlyVerts e) (ab : Nat × Nat) (h : ab ∈ dirEdges e) :
    ab.1 < 4096 ∧ ab.2 < 4096 := by
  unfold dirEdges at h
  obtain ⟨f, hf, hab⟩ := List.mem_flatMap.mp h
  have := mem_of_mem_cycPairs f ab hab
  have h1 := hu.in_range f hf ab.1 this.1
  have h2 := hu.in_range f hf ab.2 this.2
  have := hu.small
  omega

theorem edgeCode_inj {ab cd : Nat × Nat} (h1 : ab.2 < 4096) (h2 : cd.2 < 4096)
    (h : edgeCode ab = edgeCode cd) : ab = cd := by
  obtain ⟨a, b⟩ := ab
  obtain ⟨c, d⟩ := cd
  simp only [edgeCode] at h h1 h2
  simp only [Prod.mk.injEq]
  omega

theorem edgeCodeRev_swap (ab : Nat × Nat) : edgeCodeRev ab = edgeCode (ab.2, ab.1) := rfl

/-! ### `closedOriented` -/

/-- what `closedOriented` says: a closed, consistently oriented surface (every directed edge
    `a → b` is used by exactly one face, and exactly one face uses `b → a`) -/
structure ClosedOriented (e : Entry) : Prop where
  faces_ge3 : ∀ f ∈ e.faces, 3 ≤ f.length
  no_loop : ∀ ab ∈ dirEdges e, ab.1 ≠ ab.2
  once : (dirEdges e).Nodup
  partner : ∀ ab ∈ dirEdges e, (ab.2, ab.1) ∈ dirEdges e

/-- every directed edge occurs exactly once and has exactly one reverse partner -/
theorem ClosedOriented.count_eq_one {e : Entry} (h : ClosedOriented e) (ab : Nat × Nat)
    (hab : ab ∈ dirEdges e) :
    (dirEdges e).count ab = 1 ∧ (dirEdges e).count (ab.2, ab.1) = 1 :=
  ⟨List.count_eq_one_of_mem h.once hab, List.count_eq_one_of_mem h.once (h.partner ab hab)⟩

theorem codes_nodup_iff (e : Entry) (hu : UsesExactlyVerts e) :
    ((dirEdges e).map edgeCode).Nodup ↔ (dirEdges e).Nodup := by
  constructor
  · exact List.Nodup.of_map _
  · intro h
    refine List.Nodup.map_on ?_ h
    intro x hx y hy hxy
    exact edgeCode_inj (dirEdges_lt e hu x hx).2 (dirEdges_lt e hu y hy).2 hxy

theorem loops_iff (e : Entry) :
    (dirEdges e).all (fun ab => !(Nat.beq ab.1 ab.2)) = true ↔ ∀ ab ∈ dirEdges e, ab.1 ≠ ab.2 := by
  rw [List.all_eq_true]
  constructor
  · intro h ab hab heq
    have := h ab hab
    rw [Bool.not_eq_true', ← Bool.not_eq_true, natBeq_iff] at this
    exact this heq
  · intro h ab hab
    rw [Bool.not_eq_true', ← Bool.not_eq_true, natBeq_iff]
    exact h ab hab

theorem faces_ge3_iff (e : Entry) :
    e.faces.all (fun f => Nat.ble 3 f.length) = true ↔ ∀ f ∈ e.faces, 3 ≤ f.length := by
  simp only [List.all_eq_true, Nat.ble_eq]

theorem partner_iff (e : Entry) (hu : UsesExactlyVerts e) :
    (∀ i, i ∈ (dirEdges e).map edgeCode ↔ i ∈ (dirEdges e).map edgeCodeRev)
      ↔ ∀ ab ∈ dirEdges e, (ab.2, ab.1) ∈ dirEdges e := by
  constructor
  · intro h ab hab
    -- code (b, a) = revcode (a, b) is a reversed code, hence a forward code of some edge, which is (b, a)
    have h1 : edgeCode (ab.2, ab.1) ∈ (dirEdges e).map edgeCodeRev :=
      List.mem_map.mpr ⟨ab, hab, rfl⟩
    obtain ⟨cd, hcd, hc⟩ := List.mem_map.mp ((h _).mpr h1)
    have hlt := dirEdges_lt e hu ab hab
    have := edgeCode_inj (ab := cd) (cd := (ab.2, ab.1)) (dirEdges_lt e hu cd hcd).2 hlt.1 hc
    rw [← this]; exact hcd
  · intro h i
    constructor
    · intro hi
      obtain ⟨ab, hab, rfl⟩ := List.mem_map.mp hi
      exact List.mem_map.mpr ⟨(ab.2, ab.1), h ab hab, rfl⟩
    · intro hi
      obtain ⟨ab, hab, rfl⟩ := List.mem_map.mp hi
      exact List.mem_map.mpr ⟨(ab.2, ab.1), h ab hab, rfl⟩

/-- **meaning of the linear-time bit-set predicate** -/
theorem closedOriented_iff (e : Entry) (hu : UsesExactlyVerts e) :
    closedOriented e = true ↔ ClosedOriented e := by
  unfold closedOriented
  rw [Bool.and_eq_true, Bool.and_eq_true, Bool.and_eq_true, natBeq_iff, natBeq_iff,
    faces_ge3_iff, loops_iff, bitSum_eq_bitOr_iff, bitOr_eq_iff, codes_nodup_iff e hu, partner_iff e hu]
  constructor
  · rintro ⟨⟨⟨h1, h2⟩, h3⟩, h4⟩; exact ⟨h1, h2, h3, h4⟩
  · rintro ⟨h1, h2, h3, h4⟩; exact ⟨⟨⟨h1, h2⟩, h3⟩, h4⟩

theorem all_count_one_iff (l : List Nat) : l.all (fun c => Nat.beq (cnt c l) 1) = true ↔ l.Nodup := by
  simp only [List.all_eq_true, natBeq_iff, cnt_eq_count]
  constructor
  · intro h
    rw [List.nodup_iff_count_le_one]
    intro a
    by_cases ha : a ∈ l
    · rw [h a ha]
    · rw [List.count_eq_zero_of_not_mem ha]; omega
  · intro h a ha
    exact List.count_eq_one_of_mem h ha

/-- **meaning of the quadratic reference definition** -/
theorem closedOrientedRef_iff (e : Entry) (hu : UsesExactlyVerts e) :
    closedOrientedRef e = true ↔ ClosedOriented e := by
  unfold closedOrientedRef
  simp only []
  rw [Bool.and_eq_true, Bool.and_eq_true, Bool.and_eq_true, faces_ge3_iff, loops_iff, all_count_one_iff,
    codes_nodup_iff e hu]
  constructor
  · rintro ⟨⟨⟨h1, h2⟩, h3⟩, h4⟩
    refine ⟨h1, h2, h3, ?_⟩
    intro ab hab
    rw [List.all_eq_true] at h4
    have hc := h4 (edgeCodeRev ab) (List.mem_map.mpr ⟨ab, hab, rfl⟩)
    rw [natBeq_iff, cnt_eq_count] at hc
    have hm : edgeCodeRev ab ∈ (dirEdges e).map edgeCode := by
      rw [← List.count_pos_iff, hc]; omega
    obtain ⟨cd, hcd, hcode⟩ := List.mem_map.mp hm
    have hlt := dirEdges_lt e hu ab hab
    have := edgeCode_inj (ab := cd) (cd := (ab.2, ab.1)) (dirEdges_lt e hu cd hcd).2 hlt.1 hcode
    rw [← this]; exact hcd
  · rintro ⟨h1, h2, h3, h4⟩
    refine ⟨⟨⟨h1, h2⟩, h3⟩, ?_⟩
    rw [List.all_eq_true]
    intro c hc
    obtain ⟨ab, hab, rfl⟩ := List.mem_map.mp hc
    rw [natBeq_iff, cnt_eq_count]
    exact List.count_eq_one_of_mem ((codes_nodup_iff e hu).mpr h3)
      (List.mem_map.mpr ⟨(ab.2, ab.1), h4 ab hab, rfl⟩)

/-- on an entry whose faces use exactly its vertices the bit-set predicate IS its reference
    definition (`polyhedronOk` evaluates `usesExactlyVerts` first) -/
theorem closedOriented_eq_ref (e : Entry) (hu : usesExactlyVerts e = true) :
    closedOriented e = closedOrientedRef e := by
  have hu' := (usesExactlyVerts_iff e).mp hu
  rw [Bool.eq_iff_iff, closedOriented_iff e hu', closedOrientedRef_iff e hu']

/-! ### Euler -/

theorem eulerOk_iff (e : Entry) :
    eulerOk e = true ↔ 2 * e.verts.length + 2 * e.faces.length = (dirEdges e).length + 4 := by
  unfold eulerOk numV numF numE2
  rw [natBeq_iff]

end Tab
