import CoxeterVerif.Lemmas.MeshIOFormats
/-!
  Helper lemmas of C20, part 3: SOUNDNESS of the independent readers of `Spec/MeshIO.lean`.

  `Lemmas/MeshIO.lean` and `Lemmas/MeshIOFormats.lean` prove completeness (reader ∘ model writer = id).  Here, for
  EVERY text / token stream a reader accepts, the declared element counts, size fields and index conventions in
  that text agree with the mesh the reader returns.  So a writer that emits a wrong count, a wrong size field or a
  wrong index base cannot pass the round trip — as a theorem about the readers, not only about the model writer.
-/
set_option linter.unusedSimpArgs false
namespace MeshIO

/-! ## generic -/

theorem mapOpt_eq_some_cons {α β} {f : α → Option β} {a : α} {l : List α} {r : List β}
    (h : mapOpt f (a :: l) = some r) : ∃ b r', f a = some b ∧ mapOpt f l = some r' ∧ r = b :: r' := by
  simp only [mapOpt] at h
  cases hb : f a with
  | none => simp [hb] at h
  | some b =>
    cases hr : mapOpt f l with
    | none => simp [hb, hr] at h
    | some r' =>
      simp [hb, hr] at h
      exact ⟨b, r', rfl, rfl, h.symm⟩

theorem mapOpt_length {α β} {f : α → Option β} : ∀ {l : List α} {r : List β},
    mapOpt f l = some r → r.length = l.length := by
  intro l
  induction l with
  | nil => intro r h; simp [mapOpt] at h; subst h; rfl
  | cons a l ih =>
    intro r h
    obtain ⟨b, r', _, h2, rfl⟩ := mapOpt_eq_some_cons h
    simp [ih h2]

theorem length_flatMap_vtoks (vs : List V3T) : (vs.flatMap vtoks).length = 3 * vs.length := by
  induction vs with
  | nil => rfl
  | cons v vs ih => simp [List.flatMap_cons, vtoks, ih]; omega

@[simp] theorem sumLen_nil : sumLen [] = 0 := rfl
@[simp] theorem sumLen_cons (f : List Nat) (fs : List (List Nat)) : sumLen (f :: fs) = f.length + sumLen fs := rfl

theorem length_flatMap_ftoks (fs : List (List Nat)) : (fs.flatMap ftoks).length = fs.length + sumLen fs := by
  induction fs with
  | nil => rfl
  | cons f fs ih => simp [List.flatMap_cons, ftoks, ih]; omega

theorem inRange_iff {m : Mesh} : inRange m = true ↔ ∀ f ∈ m.faces, ∀ i ∈ f, i < m.verts.length := by
  simp [inRange, List.all_eq_true]

theorem checked_sound {m m' : Mesh} (h : checked m = some m') : m' = m ∧ inRange m = true := by
  unfold checked at h
  split at h
  · simp at h; exact ⟨h.symm, by assumption⟩
  · simp at h

/-! ## counted token streams -/

/-- `takeVerts n` succeeds only on `n` complete coordinate triples, and returns exactly them -/
theorem takeVerts_sound : ∀ {n : Nat} {ts : List Tok} {vs : List V3T} {rest : List Tok},
    takeVerts n ts = some (vs, rest) → vs.length = n ∧ ts = vs.flatMap vtoks ++ rest := by
  intro n
  induction n with
  | zero =>
    intro ts vs rest h
    simp [takeVerts] at h
    obtain ⟨rfl, rfl⟩ := h
    simp
  | succ n ih =>
    intro ts vs rest h
    match ts, h with
    | [], h => simp [takeVerts] at h
    | [_], h => simp [takeVerts] at h
    | [_, _], h => simp [takeVerts] at h
    | x :: y :: z :: ts', h =>
      simp only [takeVerts, Option.map_eq_some_iff] at h
      obtain ⟨⟨vs', r'⟩, h1, h2⟩ := h
      simp only [Prod.mk.injEq] at h2
      obtain ⟨rfl, rfl⟩ := h2
      have := ih h1
      refine ⟨by simp [this.1], ?_⟩
      simp [vtoks, List.flatMap_cons]
      exact this.2

/-- `takeNats n` succeeds only if the first `n` tokens are decimal numbers; it returns their values and
    everything after them -/
theorem takeNats_sound : ∀ {n : Nat} {ts : List Tok} {f : List Nat} {rest : List Tok},
    takeNats n ts = some (f, rest) →
      f.length = n ∧ ts.length = n + rest.length ∧ mapOpt parseNat (ts.take n) = some f ∧ ts.drop n = rest := by
  intro n
  induction n with
  | zero =>
    intro ts f rest h
    simp [takeNats] at h
    obtain ⟨rfl, rfl⟩ := h
    simp [mapOpt]
  | succ n ih =>
    intro ts f rest h
    match ts, h with
    | [], h => simp [takeNats] at h
    | t :: ts', h =>
      simp only [takeNats, Option.bind_eq_some_iff, Option.map_eq_some_iff] at h
      obtain ⟨i, hi, ⟨f', r'⟩, h1, h2⟩ := h
      simp only [Prod.mk.injEq] at h2
      obtain ⟨rfl, rfl⟩ := h2
      obtain ⟨a, b, c, d⟩ := ih h1
      refine ⟨by simp [a], by simp [b]; omega, ?_, by simpa using d⟩
      simp [mapOpt, hi, c]

/-- the token stream `ts` is the face records `k i₁ … i_k` of `fs` (with `k` the decimal arity and the `i`
    the decimal indices), followed by `rest` -/
def FaceRecs : List (List Nat) → List Tok → List Tok → Prop
  | [], ts, rest => ts = rest
  | f :: fs, ts, rest => ∃ k idx ts', ts = k :: idx ++ ts' ∧ parseNat k = some f.length ∧
      mapOpt parseNat idx = some f ∧ FaceRecs fs ts' rest

theorem FaceRecs.length : ∀ {fs : List (List Nat)} {ts rest : List Tok}, FaceRecs fs ts rest →
    ts.length = fs.length + sumLen fs + rest.length := by
  intro fs
  induction fs with
  | nil => intro ts rest h; simp [FaceRecs] at h; simp [h]
  | cons f fs ih =>
    intro ts rest h
    obtain ⟨k, idx, ts', rfl, _, h2, h3⟩ := h
    have := ih h3
    have := mapOpt_length h2
    simp
    omega

/-- `takeFaces n` succeeds only on `n` complete records `k i₁ … i_k` whose leading number IS the arity of the
    face returned -/
theorem takeFaces_sound : ∀ {n : Nat} {ts : List Tok} {fs : List (List Nat)} {rest : List Tok},
    takeFaces n ts = some (fs, rest) →
      fs.length = n ∧ ts.length = n + sumLen fs + rest.length ∧ FaceRecs fs ts rest := by
  intro n
  induction n with
  | zero =>
    intro ts fs rest h
    simp [takeFaces] at h
    obtain ⟨rfl, rfl⟩ := h
    simp [FaceRecs]
  | succ n ih =>
    intro ts fs rest h
    match ts, h with
    | [], h => simp [takeFaces] at h
    | t :: ts', h =>
      simp only [takeFaces, Option.bind_eq_some_iff, Option.map_eq_some_iff] at h
      obtain ⟨k, hk, ⟨f, r1⟩, h1, ⟨fs', r'⟩, h2, h3⟩ := h
      simp only [Prod.mk.injEq] at h3
      obtain ⟨rfl, rfl⟩ := h3
      obtain ⟨a, b, c, d⟩ := takeNats_sound h1
      obtain ⟨a', b', c'⟩ := ih h2
      simp only at a' b' c'
      refine ⟨by simp [a'], by simp; omega, ?_⟩
      refine ⟨t, ts'.take k, r1, ?_, by rw [a]; exact hk, c, c'⟩
      rw [← d, List.cons_append, List.take_append_drop]

/-- body of OFF / PLY / VTK: the declared counts `V`, `F` are exactly the numbers of vertex and face records,
    nothing is left over, every index is in range -/
theorem readBody_sound {V F : Nat} {ts : List Tok} {m : Mesh} (h : readBody V F ts = some m) :
    m.verts.length = V ∧ m.faces.length = F ∧ inRange m = true ∧
      ts.length = 3 * V + F + sumLen m.faces ∧ ts.take (3 * V) = m.verts.flatMap vtoks ∧
      FaceRecs m.faces (ts.drop (3 * V)) [] := by
  simp only [readBody, Option.bind_eq_some_iff] at h
  obtain ⟨⟨vs, r1⟩, h1, ⟨fs, r2⟩, h2, h3⟩ := h
  simp only at h2 h3
  split at h3
  · rename_i he
    obtain ⟨rfl, hr⟩ := checked_sound h3
    have he' : r2 = [] := by simpa using he
    subst he'
    obtain ⟨a, b⟩ := takeVerts_sound h1
    obtain ⟨a', b', c'⟩ := takeFaces_sound h2
    have hl := length_flatMap_vtoks vs
    rw [a] at hl
    refine ⟨a, a', hr, ?_, ?_, ?_⟩
    · rw [b, List.length_append, hl, b']; simp; omega
    · rw [b, ← hl, List.take_left]
    · rw [b, ← hl, List.drop_left]; exact c'
  · simp at h3

/-- the two counts are determined by the text and the mesh read from it -/
theorem readBody_counts {V F : Nat} {ts : List Tok} {m : Mesh} (h : readBody V F ts = some m) :
    V = m.verts.length ∧ F = m.faces.length :=
  ⟨(readBody_sound h).1.symm, (readBody_sound h).2.1.symm⟩

/-- the body written for `m` is read back as `m` only with the right counts -/
theorem readBody_wrong_count {V F : Nat} {m m' : Mesh}
    (h : readBody V F (m.verts.flatMap vtoks ++ m.faces.flatMap ftoks) = some m') (hm : m' = m) :
    V = m.verts.length ∧ F = m.faces.length := by
  subst hm; exact readBody_counts h

/-- … so a wrong vertex count or a wrong face count cannot pass the round trip -/
theorem readBody_ne_of_wrong_count {V F : Nat} {m : Mesh} (hw : V ≠ m.verts.length ∨ F ≠ m.faces.length)
    (ts : List Tok) : readBody V F ts ≠ some m := by
  intro h
  have := readBody_counts h
  omega

/-- a stream is accepted with at most one pair of counts giving a fixed mesh; more: the length of the
    stream alone already ties the counts to the data -/
theorem readBody_length {V F : Nat} {ts : List Tok} {m : Mesh} (h : readBody V F ts = some m) :
    ts.length = 3 * m.verts.length + m.faces.length + sumLen m.faces := by
  obtain ⟨a, b, _, d, _⟩ := readBody_sound h
  rw [a, b]; exact d

/-! ## OBJ -/

/-- OBJ references are 1-based: the token `0` is rejected, the token with value `k` means vertex `k − 1` -/
theorem parseIdx1_sound {t : Tok} {i : Nat} (h : parseIdx1 t = some i) : parseNat t = some (i + 1) := by
  simp only [parseIdx1, Option.bind_eq_some_iff] at h
  obtain ⟨n, hn, h2⟩ := h
  split at h2
  · simp at h2
  · simp at h2
    rw [hn]; congr 1; omega

theorem parseIdx1_zero {t : Tok} (h : parseNat t = some 0) : parseIdx1 t = none := by
  simp [parseIdx1, h]

theorem mapOpt_parseIdx1_sound : ∀ {args : List Tok} {idx : List Nat},
    mapOpt parseIdx1 args = some idx → mapOpt parseNat args = some (idx.map (· + 1)) := by
  intro args
  induction args with
  | nil => intro idx h; simp [mapOpt] at h; subst h; rfl
  | cons a l ih =>
    intro idx h
    obtain ⟨b, r', h1, h2, rfl⟩ := mapOpt_eq_some_cons h
    simp [mapOpt, parseIdx1_sound h1, ih h2]

/-- an accepted `f` statement adds exactly one face, of at least 3 corners, whose indices are the numbers
    written minus one -/
theorem objLine_f_sound {args : List Tok} {m m' : Mesh} (h : objLine (cs!"f" :: args) m = some m') :
    m'.verts = m.verts ∧ ∃ idx, m'.faces = idx :: m.faces ∧ 3 ≤ idx.length ∧
      mapOpt parseNat args = some (idx.map (· + 1)) := by
  have e1 : (cs!"f" : Tok).head? ≠ some '#' := by decide
  have e2 : (cs!"f" : Tok) ≠ cs!"v" := by decide
  simp only [objLine, if_neg e1, if_neg e2, if_true, Option.bind_eq_some_iff] at h
  obtain ⟨idx, h1, h2⟩ := h
  split at h2
  · simp at h2
  · simp at h2
    subst h2
    exact ⟨rfl, idx, rfl, by omega, mapOpt_parseIdx1_sound h1⟩

/-- an accepted `v` statement adds exactly one vertex: its first three arguments -/
theorem objLine_v_sound {args : List Tok} {m m' : Mesh} (h : objLine (cs!"v" :: args) m = some m') :
    m'.faces = m.faces ∧ ∃ x y z w, m'.verts = (x, y, z) :: m.verts ∧ args = x :: y :: z :: w ∧ w.length ≤ 1 := by
  have e1 : (cs!"v" : Tok).head? ≠ some '#' := by decide
  simp only [objLine, if_neg e1, if_true] at h
  split at h
  · simp at h; subst h; exact ⟨rfl, _, _, _, [], rfl, rfl, by simp⟩
  · simp at h; subst h; exact ⟨rfl, _, _, _, [_], rfl, rfl, by simp⟩
  · simp at h

/-- every statement keeps the faces, or adds one face with at least 3 corners -/
theorem objLine_faces {l : List Tok} {m m' : Mesh} (h : objLine l m = some m') :
    m'.faces = m.faces ∨ ∃ idx, m'.faces = idx :: m.faces ∧ 3 ≤ idx.length := by
  unfold objLine at h
  split at h
  · simp at h; subst h; exact .inl rfl
  · split at h
    · simp at h; subst h; exact .inl rfl
    · split at h
      · split at h
        · simp at h; subst h; exact .inl rfl
        · simp at h; subst h; exact .inl rfl
        · simp at h
      · split at h
        · simp only [Option.bind_eq_some_iff] at h
          obtain ⟨idx, _, h2⟩ := h
          split at h2
          · simp at h2
          · simp at h2; subst h2; exact .inr ⟨idx, rfl, by omega⟩
        · split at h
          · simp at h; subst h; exact .inl rfl
          · simp at h

theorem readObjT_arity : ∀ {ls : List (List Tok)} {m : Mesh}, readObjT ls = some m →
    ∀ f ∈ m.faces, 3 ≤ f.length := by
  intro ls
  induction ls with
  | nil => intro m h; simp [readObjT] at h; subst h; simp
  | cons l ls ih =>
    intro m h
    simp only [readObjT, Option.bind_eq_some_iff] at h
    obtain ⟨m0, h0, h1⟩ := h
    have := ih h0
    rcases objLine_faces h1 with e | ⟨idx, e, h3⟩
    · rw [e]; exact this
    · rw [e]
      intro f hf
      rcases List.mem_cons.mp hf with rfl | hf
      · exact h3
      · exact this f hf

/-- whatever OBJ text is accepted: every face index refers to a vertex of the file, every face has at least
    three corners -/
theorem readObj_sound {text : Str} {m : Mesh} (h : readObj text = some m) :
    inRange m = true ∧ ∀ f ∈ m.faces, 3 ≤ f.length := by
  simp only [readObj, Option.bind_eq_some_iff] at h
  obtain ⟨m0, h0, h1⟩ := h
  obtain ⟨rfl, hr⟩ := checked_sound h1
  exact ⟨hr, readObjT_arity h0⟩

/-! ## legacy VTK -/

/-- whatever VTK token stream is accepted: the `POINTS` count is the number of vertices, the `POLYGONS` count the
    number of faces, the size field the number of faces plus the total number of indices — which is exactly
    the number of tokens that follow the `POLYGONS` line; nothing is left over, indices are in range -/
theorem readVtkBody_sound {ts : List Tok} {m : Mesh} (h : readVtkBody ts = some m) :
    ∃ n ty nf sz ftail,
      ts = cs!"POINTS" :: n :: ty :: (m.verts.flatMap vtoks ++ cs!"POLYGONS" :: nf :: sz :: ftail) ∧
      vtkTypes.contains ty = true ∧
      parseNat n = some m.verts.length ∧
      parseNat nf = some m.faces.length ∧
      parseNat sz = some (m.faces.length + sumLen m.faces) ∧
      ftail.length = m.faces.length + sumLen m.faces ∧
      FaceRecs m.faces ftail [] ∧
      inRange m = true := by
  unfold readVtkBody at h
  split at h
  · rename_i kp n ty ts1
    split at h
    · rename_i hk
      simp only [Option.bind_eq_some_iff] at h
      obtain ⟨V, hV, ⟨vs, r1⟩, h1, h2⟩ := h
      simp only at h2
      obtain ⟨a, b⟩ := takeVerts_sound h1
      split at h2
      · rename_i _ kq nf sz ts2
        split at h2
        · rename_i hq
          simp only [Option.bind_eq_some_iff] at h2
          obtain ⟨F, hF, S, hS, ⟨fs, r2⟩, h3, h4⟩ := h2
          simp only at h4
          split at h4
          · rename_i he
            obtain ⟨rfl, hr⟩ := checked_sound h4
            have he' : r2 = [] := by simpa using he.1
            subst he'
            obtain ⟨a', b', c'⟩ := takeFaces_sound h3
            refine ⟨n, ty, nf, sz, ts2, ?_, hk.2, ?_, ?_, ?_, ?_, c', hr⟩
            · rw [hk.1, b, hq]
            · rw [hV, a]
            · rw [hF, a']
            · rw [hS, he.2, a']
            · simp at b'; simp [b', a']
          · simp at h4
        · simp at h2
      · simp at h2
    · simp at h
  · simp at h

/-- the same for a whole accepted file: the four header lines are as prescribed and the rest is a body as above -/
theorem readVtk_sound {text : Str} {m : Mesh} (h : readVtk text = some m) :
    ∃ version title rest,
      tokenize text = [cs!"#", cs!"vtk", cs!"DataFile", cs!"Version", version] :: title :: [cs!"ASCII"]
        :: [cs!"DATASET", cs!"POLYDATA"] :: rest ∧
      readVtkBody rest.flatten = some m := by
  unfold readVtk at h
  split at h
  · rename_i l1 title l3 l4 rest he
    split at h
    · rename_i a b c d v
      split at h
      · rename_i hc
        obtain ⟨rfl, rfl, rfl, rfl, rfl, rfl⟩ := hc
        exact ⟨v, title, rest, he, h⟩
      · simp at h
    · simp at h
  · simp at h

/-! ## PLY -/

/-- whatever PLY text is accepted: the header declares exactly the elements `vertex` and `face`, and the declared
    counts are the numbers of vertices and faces read from a body with nothing left over -/
theorem readPly_sound {text : Str} {m : Mesh} (h : readPly text = some m) :
    ∃ hd ev ef, plyHeader ((tokenize text).drop 2) [] = some hd ∧ hd.1 = [ev, ef] ∧
      ev.name = cs!"vertex" ∧ ef.name = cs!"face" ∧
      ev.count = m.verts.length ∧ ef.count = m.faces.length ∧ inRange m = true ∧
      hd.2.flatten.length = 3 * m.verts.length + m.faces.length + sumLen m.faces ∧
      readBody m.verts.length m.faces.length hd.2.flatten = some m := by
  unfold readPly at h
  split at h
  · rename_i magic fmt rest he
    split at h
    · simp only [Option.bind_eq_some_iff] at h
      obtain ⟨hd, hh, h2⟩ := h
      split at h2
      · rename_i ev ef hev
        split at h2
        · rename_i hc
          obtain ⟨a, b, c, d, _⟩ := readBody_sound h2
          refine ⟨hd, ev, ef, by rw [he]; exact hh, hev, hc.1, hc.2.1, a.symm, b.symm, c, ?_, ?_⟩
          · rw [d, a, b]
          · rw [a, b]; exact h2
        · simp at h2
      · simp at h2
    · simp at h
  · simp at h

/-! ## OFF -/

/-- whatever OFF text is accepted (with `cnt` reading the face count): after comment stripping the stream is
    `OFF V F E body`, `V` and `F` are the numbers of vertices and faces returned, `E` is a number, and the body has
    exactly `3V + F + Σ arities` tokens -/
theorem readOffWith_sound {cnt : Tok → Option Nat} {text : Str} {m : Mesh} (h : readOffWith cnt text = some m) :
    ∃ v f e body E,
      ((tokenize text).map stripComment).flatten = cs!"OFF" :: v :: f :: e :: body ∧
      parseNat v = some m.verts.length ∧ cnt f = some m.faces.length ∧ parseNat e = some E ∧
      inRange m = true ∧
      body.length = 3 * m.verts.length + m.faces.length + sumLen m.faces ∧
      body.take (3 * m.verts.length) = m.verts.flatMap vtoks ∧
      FaceRecs m.faces (body.drop (3 * m.verts.length)) [] := by
  unfold readOffWith at h
  split at h
  · rename_i magic v f e rest he
    split at h
    · rename_i hm
      simp only [Option.bind_eq_some_iff] at h
      obtain ⟨V, hV, F, hF, E, hE, hb⟩ := h
      obtain ⟨a, b, c, d, d', d''⟩ := readBody_sound hb
      subst a b
      exact ⟨v, f, e, rest, E, by rw [he, hm], hV, hF, hE, c, d, d', d''⟩
    · simp at h
  · simp at h

theorem readOff_sound {text : Str} {m : Mesh} (h : readOff text = some m) :
    ∃ v f e body E,
      ((tokenize text).map stripComment).flatten = cs!"OFF" :: v :: f :: e :: body ∧
      parseNat v = some m.verts.length ∧ parseNat f = some m.faces.length ∧ parseNat e = some E ∧
      inRange m = true ∧
      body.length = 3 * m.verts.length + m.faces.length + sumLen m.faces :=
  let ⟨v, f, e, body, E, h1, h2, h3, h4, h5, h6, _⟩ := readOffWith_sound h
  ⟨v, f, e, body, E, h1, h2, h3, h4, h5, h6⟩

/-! ## X3D / X3DOM -/

/-- `coordIndex`: every entry is `-1` or a non-negative index; the faces returned, concatenated, are exactly the
    non-terminator entries in file order (0-based, unchanged); there is one face per terminator, plus at most one
    for a missing last terminator -/
theorem splitIdx_sound : ∀ {idx : List Int} {fs : List (List Nat)}, splitIdx idx = some fs →
    (∀ i ∈ idx, -1 ≤ i) ∧ fs.flatten = (idx.filter (· != -1)).map Int.toNat ∧
      idx.count (-1) ≤ fs.length ∧ fs.length ≤ idx.count (-1) + 1 := by
  intro idx
  induction idx with
  | nil => intro fs h; simp [splitIdx] at h; subst h; simp
  | cons i rest ih =>
    intro fs h
    simp only [splitIdx, Option.bind_eq_some_iff] at h
    obtain ⟨fs0, h0, h1⟩ := h
    obtain ⟨a, b, c, d⟩ := ih h0
    split at h1
    · rename_i hi
      simp at h1; subst h1; subst hi
      refine ⟨?_, ?_, ?_, ?_⟩
      · intro j hj
        rcases List.mem_cons.mp hj with rfl | hj
        · omega
        · exact a j hj
      · simpa using b
      · simp; omega
      · simp; omega
    · rename_i hi
      have hc : (i :: rest).count (-1) = rest.count (-1) := by
        rw [List.count_cons]; simp; omega
      have hf : (i :: rest).filter (· != -1) = i :: rest.filter (· != -1) := by
        simp [List.filter_cons, hi]
      split at h1
      · simp at h1
      · rename_i hn
        have ha : ∀ j ∈ i :: rest, -1 ≤ j := by
          intro j hj
          rcases List.mem_cons.mp hj with rfl | hj
          · omega
          · exact a j hj
        split at h1
        · simp at h1; subst h1
          refine ⟨ha, ?_, ?_, ?_⟩
          · rw [hf]; simpa using b
          · rw [hc]; simp at c; simp; omega
          · rw [hc]; simp
        · simp at h1; subst h1
          refine ⟨ha, ?_, ?_, ?_⟩
          · rw [hf]; simpa using b
          · rw [hc]; simpa using c
          · rw [hc]; simpa using d

/-- `point`: complete coordinate triples only -/
theorem chunk3_sound : ∀ {ts : List Tok} {vs : List V3T}, chunk3 ts = some vs → ts = vs.flatMap vtoks
  | [], vs, h => by simp [chunk3] at h; subst h; rfl
  | [_], vs, h => by simp [chunk3] at h
  | [_, _], vs, h => by simp [chunk3] at h
  | x :: y :: z :: r, vs, h => by
    simp only [chunk3, Option.map_eq_some_iff] at h
    obtain ⟨vs', h1, rfl⟩ := h
    have := chunk3_sound h1
    simp [List.flatMap_cons, vtoks]
    exact this

/-- whatever `IndexedFaceSet` is accepted: indices are in range, every face has at least three corners, the faces
    are the `-1`-separated runs of `coordIndex` and the vertices the triples of `point` -/
theorem readFaceSet_sound {eq : Str → Str → Bool} {ifs : Xml} {m : Mesh} (h : readFaceSet eq ifs = some m) :
    inRange m = true ∧ (∀ f ∈ m.faces, 3 ≤ f.length) ∧
    ∃ ci co pt idx, attr eq cs!"coordIndex" ifs = some ci ∧ child eq cs!"Coordinate" ifs = some co ∧
      attr eq cs!"point" co = some pt ∧ mapOpt parseInt (words isWsX ci) = some idx ∧
      splitIdx idx = some m.faces ∧ words isWsX pt = m.verts.flatMap vtoks ∧
      m.faces.flatten = (idx.filter (· != -1)).map Int.toNat := by
  simp only [readFaceSet, Option.bind_eq_some_iff] at h
  obtain ⟨ci, h1, co, h2, pt, h3, idx, h4, fs, h5, vs, h6, h7⟩ := h
  split at h7
  · rename_i h3len
    obtain ⟨rfl, hr⟩ := checked_sound h7
    refine ⟨hr, ?_, ci, co, pt, idx, h1, h2, h3, h4, h5, chunk3_sound h6, (splitIdx_sound h5).2.1⟩
    simpa [List.all_eq_true] using h3len
  · simp at h7

theorem readX3dWith_sound {eq : Str → Str → Bool} {doc : Xml} {m : Mesh} (h : readX3dWith eq doc = some m) :
    inRange m = true ∧ ∀ f ∈ m.faces, 3 ≤ f.length := by
  unfold readX3dWith at h
  split at h
  · simp only [Option.bind_eq_some_iff] at h
    obtain ⟨_, _, _, _, _, _, h⟩ := h
    exact ⟨(readFaceSet_sound h).1, (readFaceSet_sound h).2.1⟩
  · simp at h

/-! ## the hypotheses are satisfiable: each theorem applied to a concrete accepted text -/

section Examples

/-- one triangle -/
def triEx : Mesh := ⟨[(cs!"0", cs!"0", cs!"0"), (cs!"1", cs!"0", cs!"0"), (cs!"0", cs!"1", cs!"0")], [[0, 1, 2]]⟩

def triBody : List Tok :=
  [cs!"0", cs!"0", cs!"0", cs!"1", cs!"0", cs!"0", cs!"0", cs!"1", cs!"0", cs!"3", cs!"0", cs!"1", cs!"2"]

example : takeVerts 1 triBody = some ([(cs!"0", cs!"0", cs!"0")], triBody.drop 3) := by decide
example : ([(cs!"0", cs!"0", cs!"0")] : List V3T).length = 1 :=
  (takeVerts_sound (show takeVerts 1 triBody = some (_, triBody.drop 3) by decide)).1
example : ([0, 0, 0] : List Nat).length = 3 :=
  (takeNats_sound (show takeNats 3 triBody = some ([0, 0, 0], triBody.drop 3) by decide)).1
example : FaceRecs [[0, 1, 2]] (triBody.drop 9) [] :=
  (takeFaces_sound (show takeFaces 1 (triBody.drop 9) = some ([[0, 1, 2]], []) by decide)).2.2

theorem readBody_triEx : readBody 3 1 triBody = some triEx := by decide
example : triBody.length = 3 * 3 + 1 + sumLen triEx.faces := (readBody_sound readBody_triEx).2.2.2.1
example : triBody.take (3 * 3) = triEx.verts.flatMap vtoks := (readBody_sound readBody_triEx).2.2.2.2.1
-- the same stream with a wrong vertex count or a wrong face count is not read as the triangle
example : readBody 2 1 triBody ≠ some triEx := readBody_ne_of_wrong_count (.inl (by decide)) _
example : readBody 3 2 triBody ≠ some triEx := readBody_ne_of_wrong_count (.inr (by decide)) _
example : readBody 3 0 triBody = none := by decide
example : (3 = triEx.verts.length ∧ 1 = triEx.faces.length) :=
  readBody_wrong_count (m := triEx) (show readBody 3 1 _ = some triEx by decide) rfl

/- OBJ -/
theorem readObj_triEx : readObj cs!"# c\nv 0 0 0\nv 1 0 0\nv 0 1 0\n\nf 1 2 3" = some triEx := by decide
example : inRange triEx = true ∧ ∀ f ∈ triEx.faces, 3 ≤ f.length := readObj_sound readObj_triEx
example : parseNat cs!"3" = some (2 + 1) := parseIdx1_sound (show parseIdx1 cs!"3" = some 2 by decide)
example : parseIdx1 cs!"0" = none := parseIdx1_zero (by decide)
example : ∃ idx, (⟨triEx.verts, [[0, 1, 2]]⟩ : Mesh).faces = idx :: [] ∧ 3 ≤ idx.length ∧
    mapOpt parseNat [cs!"1", cs!"2", cs!"3"] = some (idx.map (· + 1)) :=
  (objLine_f_sound (m := ⟨triEx.verts, []⟩)
    (show objLine [cs!"f", cs!"1", cs!"2", cs!"3"] _ = some ⟨triEx.verts, [[0, 1, 2]]⟩ by decide)).2
-- 0-based face references are rejected
example : readObj cs!"v 0 0 0\nv 1 0 0\nv 0 1 0\nf 0 1 2" = none := by decide

/- OFF -/
theorem readOff_triEx : readOff cs!"OFF\n# c\n3 1 3\n0 0 0\n1 0 0\n0 1 0\n3 0 1 2" = some triEx := by decide
example : ∃ v f : Tok, parseNat v = some triEx.verts.length ∧ parseNat f = some triEx.faces.length :=
  let ⟨v, f, _, _, _, _, hv, hf, _⟩ := readOff_sound readOff_triEx
  ⟨v, f, hv, hf⟩
theorem readOffLenient_triEx :
    readOffLenient cs!"OFF\n# c\n3 f1 3\n0 0 0\n1 0 0\n0 1 0\n3 0 1 2" = some triEx := by decide
example : ∃ (v : Tok) (body : List Tok), parseNat v = some triEx.verts.length ∧
    body.length = 3 * triEx.verts.length + triEx.faces.length + sumLen triEx.faces :=
  let ⟨v, _, _, body, _, _, hv, _, _, _, hl, _⟩ :=
    readOffWith_sound (show readOffWith _ _ = some triEx from readOffLenient_triEx)
  ⟨v, body, hv, hl⟩
-- wrong counts in the header are rejected
example : readOff cs!"OFF\n3 2 3\n0 0 0\n1 0 0\n0 1 0\n3 0 1 2" = none := by decide
example : readOff cs!"OFF\n2 1 3\n0 0 0\n1 0 0\n0 1 0\n3 0 1 2" = none := by decide

/- PLY -/
theorem readPly_triEx : readPly cs!"ply\nformat ascii 1.0\ncomment x\nelement vertex 3\nproperty float x\nproperty float y\nproperty float z\nelement face 1\nproperty list uchar uint vertex_indices\nend_header\n0 0 0\n1 0 0\n0 1 0\n3 0 1 2" = some triEx := by decide
example : ∃ ev ef : PlyElem, ev.name = cs!"vertex" ∧ ef.name = cs!"face" ∧ ev.count = triEx.verts.length ∧
    ef.count = triEx.faces.length :=
  let ⟨_, ev, ef, _, _, h1, h2, h3, h4, _⟩ := readPly_sound readPly_triEx
  ⟨ev, ef, h1, h2, h3, h4⟩
example : readPly cs!"ply\nformat ascii 1.0\nelement vertex 3\nproperty float x\nproperty float y\nproperty float z\nelement face 2\nproperty list uchar uint vertex_indices\nend_header\n0 0 0\n1 0 0\n0 1 0\n3 0 1 2" = none := by decide

/- VTK -/
theorem readVtk_triEx : readVtk cs!"# vtk DataFile Version 3.0\nt\nASCII\nDATASET POLYDATA\nPOINTS 3 float\n0 0 0\n1 0 0\n0 1 0\nPOLYGONS 1 4\n3 0 1 2" = some triEx := by decide
example : ∃ n nf sz : Tok, parseNat n = some triEx.verts.length ∧
    parseNat nf = some triEx.faces.length ∧ parseNat sz = some (triEx.faces.length + sumLen triEx.faces) :=
  let ⟨_, _, _, _, hb⟩ := readVtk_sound readVtk_triEx
  let ⟨n, _, nf, sz, _, _, _, h1, h2, h3, _⟩ := readVtkBody_sound hb
  ⟨n, nf, sz, h1, h2, h3⟩
-- a wrong size field (here the number of indices without the arities) is rejected
example : readVtk cs!"# vtk DataFile Version 3.0\nt\nASCII\nDATASET POLYDATA\nPOINTS 3 float\n0 0 0\n1 0 0\n0 1 0\nPOLYGONS 1 3\n3 0 1 2" = none := by decide

/- X3D -/
example : ∀ i ∈ [0, 1, 2, -1], (-1 : Int) ≤ i :=
  (splitIdx_sound (show splitIdx [0, 1, 2, -1] = some [[0, 1, 2]] by decide)).1
theorem readFaceSet_triEx : readFaceSet exactName (.node cs!"IndexedFaceSet" [(cs!"coordIndex", cs!"0 1 2 -1")] []
    [.node cs!"Coordinate" [(cs!"point", cs!"0 0 0, 1 0 0, 0 1 0")] [] []]) = some triEx := by decide
example : inRange triEx = true ∧ (∀ f ∈ triEx.faces, 3 ≤ f.length) :=
  ⟨(readFaceSet_sound readFaceSet_triEx).1, (readFaceSet_sound readFaceSet_triEx).2.1⟩

end Examples

end MeshIO
