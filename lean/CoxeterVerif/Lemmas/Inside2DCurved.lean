import CoxeterVerif.Lemmas.Basic
import CoxeterVerif.Model.Inside2D
/-!
  C06 — `Circle.is_inside` / `Ellipse.is_inside` after /repo bab419e: the out-of-plane switch is
  `np.isclose(z, 0, atol = 1e-8 * size)` with `size = radius` resp. `max(a, b)` — RELATIVE to the
  shape.  Consequences proved here (no dependency on the polygon lemmas, so that other properties
  can import this file): the window `|z| ≤ size / 10⁸`, translation covariance, and
  **scale covariance**: scaling shape, centre and point by `k > 0` leaves the answer unchanged,
  for every point of space (in or out of the plane).
-/
open Inside2D Scalar
set_option maxRecDepth 4000
noncomputable section
namespace Inside2D

/-- `np.isclose(z, 0, atol = tol)` as a statement -/
theorem iscloseZeroTol_iff (z tol : ℝ) : iscloseZeroTol z tol = true ↔ |z| ≤ tol := by
  unfold iscloseZeroTol
  simp only [Scalar.lit, Scalar.q, Scalar.ofNat_real, Scalar.abs_real, decide_eq_true_eq, Nat.cast_zero,
    sub_zero, abs_zero, mul_zero, add_zero]

theorem max_real (a b : ℝ) : Scalar.max a b = Max.max a b := by
  unfold Scalar.max
  by_cases h : a < b
  · rw [if_pos h, max_eq_right h.le]
  · rw [if_neg h, max_eq_left (not_lt.mp h)]

theorem q8_real : (q 1 100000000 : ℝ) = 1 / 100000000 := by
  simp [Scalar.q, Scalar.ofNat_real]

/-- the out-of-plane window of the circle: `|z − c.z| ≤ r / 10⁸` -/
theorem circle_window (r : ℝ) (c p : V3 ℝ) :
    Circle.isInside1 r c p = true ↔ (V3.norm (p - c) ≤ r ∧ |p.z - c.z| ≤ r / 100000000) := by
  unfold Circle.isInside1
  simp only [Bool.and_eq_true, decide_eq_true_eq, iscloseZeroTol_iff, V3.sub_z, q8_real]
  constructor <;> rintro ⟨h1, h2⟩ <;> exact ⟨h1, by linarith⟩

/-- the out-of-plane window of the ellipse: `|z − c.z| ≤ max(a, b) / 10⁸` -/
theorem ellipse_window (a b : ℝ) (c p : V3 ℝ) :
    Ellipse.isInside1 a b c p = true ↔
      ((p.x - c.x) / a ≤ 1 ∧ (p.y - c.y) / b ≤ 1 ∧ |p.z - c.z| ≤ Max.max a b / 100000000) := by
  unfold Ellipse.isInside1
  simp only [Bool.and_eq_true, decide_eq_true_eq, iscloseZeroTol_iff, V3.sub_x, V3.sub_y, V3.sub_z, q8_real,
    max_real, Bool.and_true, Scalar.lit, Scalar.ofNat_real, Nat.cast_one]
  constructor
  · rintro ⟨⟨h1, h2⟩, h3⟩; exact ⟨h1, h2, by linarith⟩
  · rintro ⟨h1, h2, h3⟩; exact ⟨⟨h1, h2⟩, by linarith⟩

theorem norm_smul_pos {k : ℝ} (hk : 0 < k) (d : V3 ℝ) : V3.norm (V3.smul k d) = k * V3.norm d := by
  unfold V3.norm V3.normSq V3.dot
  simp only [V3.smul_x, V3.smul_y, V3.smul_z, Scalar.sqrt_real]
  have e : k * d.x * (k * d.x) + k * d.y * (k * d.y) + k * d.z * (k * d.z) =
      k ^ 2 * (d.x * d.x + d.y * d.y + d.z * d.z) := by ring
  rw [e, Real.sqrt_mul (sq_nonneg k), Real.sqrt_sq hk.le]

theorem smul_sub' (k : ℝ) (p c : V3 ℝ) : V3.smul k p - V3.smul k c = V3.smul k (p - c) := by
  ext <;> simp <;> ring

/-- **Scale covariance of `Circle.is_inside`** (every point of space): radius, centre and point
scaled by `k > 0` — same answer. -/
theorem circle_isInside1_scale {k : ℝ} (hk : 0 < k) (r : ℝ) (c p : V3 ℝ) :
    Circle.isInside1 (k * r) (V3.smul k c) (V3.smul k p) = Circle.isInside1 r c p := by
  rw [Bool.eq_iff_iff, circle_window, circle_window, smul_sub', norm_smul_pos hk]
  simp only [V3.smul_z]
  have e1 : k * p.z - k * c.z = k * (p.z - c.z) := by ring
  rw [e1, abs_mul, abs_of_pos hk, mul_div_assoc, mul_le_mul_iff_right₀ hk, mul_le_mul_iff_right₀ hk]

/-- **Scale covariance of `Ellipse.is_inside`** (the coded box test and its out-of-plane switch) -/
theorem ellipse_isInside1_scale {k : ℝ} (hk : 0 < k) (a b : ℝ) (c p : V3 ℝ) :
    Ellipse.isInside1 (k * a) (k * b) (V3.smul k c) (V3.smul k p) = Ellipse.isInside1 a b c p := by
  rw [Bool.eq_iff_iff, ellipse_window, ellipse_window]
  simp only [V3.smul_x, V3.smul_y, V3.smul_z]
  have e1 : ∀ u v : ℝ, k * u - k * v = k * (u - v) := fun u v => by ring
  have hm : Max.max (k * a) (k * b) = k * Max.max a b := (mul_max_of_nonneg a b hk.le).symm
  rw [e1, e1, e1, mul_div_mul_left _ _ hk.ne', mul_div_mul_left _ _ hk.ne', hm, abs_mul, abs_of_pos hk,
    mul_div_assoc, mul_le_mul_iff_right₀ hk]

/-- translation covariance (centre handling): moving centre and point together changes nothing -/
theorem circle_isInside1_translate (r : ℝ) (c p t : V3 ℝ) :
    Circle.isInside1 r (c + t) (p + t) = Circle.isInside1 r c p := by
  unfold Circle.isInside1
  have e : p + t - (c + t) = p - c := by ext <;> simp
  rw [e]

theorem ellipse_isInside1_translate (a b : ℝ) (c p t : V3 ℝ) :
    Ellipse.isInside1 a b (c + t) (p + t) = Ellipse.isInside1 a b c p := by
  unfold Ellipse.isInside1
  have e : p + t - (c + t) = p - c := by ext <;> simp
  rw [e]

end Inside2D
