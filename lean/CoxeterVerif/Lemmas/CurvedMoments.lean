import CoxeterVerif.Lemmas.CurvedMeasure
import Mathlib.MeasureTheory.Constructions.HaarToSphere
import Mathlib.MeasureTheory.Constructions.Polish.Basic
/-!
  C10: the CENTRED moments `∫1, ∫x_i, ∫x_i x_j` of the Euclidean ball and of its diagonal linear images
  (solid ellipse / ellipsoid) as Lebesgue integrals, derived from Mathlib:

  * `∫_{B(0,r)} ‖x‖² = n · vol(B₁) · r^{n+2}/(n+2)`         (polar coordinates, `integral_fun_norm_addHaar`);
  * `∫_B x_i² = ∫_B x_j²`                                   (coordinate swap is an isometry);
  * `∫_B x_i x_j = 0 (i ≠ j)`, `∫_B x_i = 0`                (reflection of one coordinate, `|det| = 1`);
  * linear change of variables `∫_{L⁻¹S} h(Lx) dx = |det L|⁻¹ ∫_S h`  (`map_linearMap_addHaar_eq_smul_addHaar`).

  Everything is generic in the dimension `n = m+1`; `Fin 2` and `Fin 3` are instantiated in
  `Lemmas/CurvedMoments2.lean`.
-/
open MeasureTheory Metric
noncomputable section
namespace C10

variable {n : ℕ}

local notation "𝔼" n => EuclideanSpace ℝ (Fin n)

/-! ### linear change of variables -/

theorem measurableEmbedding_of_det_ne_zero (L : (𝔼 n) →ₗ[ℝ] (𝔼 n)) (hL : LinearMap.det L ≠ 0) :
    MeasurableEmbedding L := by
  have hc : Continuous L := L.continuous_of_finiteDimensional
  have hinj : Function.Injective L := (L.equivOfDetNeZero hL).injective
  exact hc.measurable.measurableEmbedding hinj

/-- `∫_{L⁻¹ S} h(L x) dx = |det L|⁻¹ ∫_S h(y) dy` for every invertible linear map of `ℝⁿ`, every set and
every function (no measurability needed: `L` is a measurable embedding) -/
theorem setIntegral_preimage_linear (L : (𝔼 n) →ₗ[ℝ] (𝔼 n)) (hL : LinearMap.det L ≠ 0) (S : Set (𝔼 n))
    (h : (𝔼 n) → ℝ) :
    ∫ x in L ⁻¹' S, h (L x) = |(LinearMap.det L)⁻¹| * ∫ y in S, h y := by
  have he := measurableEmbedding_of_det_ne_zero L hL
  rw [← he.setIntegral_map, Measure.map_linearMap_addHaar_eq_smul_addHaar volume hL,
    Measure.restrict_smul, integral_smul_measure, ENNReal.toReal_ofReal (abs_nonneg _), smul_eq_mul]

/-! ### diagonal maps -/

/-- the diagonal linear map `x ↦ (d_i x_i)_i` -/
def diagMap (d : Fin n → ℝ) : (𝔼 n) →ₗ[ℝ] (𝔼 n) := Matrix.toLpLin 2 2 (Matrix.diagonal d)

theorem diagMap_apply (d : Fin n → ℝ) (x : 𝔼 n) (i : Fin n) : diagMap d x i = d i * x i := by
  simp [diagMap, Matrix.toLpLin_apply, Matrix.mulVec_diagonal]

theorem det_diagMap (d : Fin n → ℝ) : LinearMap.det (diagMap d) = ∏ i, d i := by
  rw [diagMap, LinearMap.det_toLpLin, Matrix.det_diagonal]

theorem continuous_coord (i : Fin n) : Continuous fun x : 𝔼 n => x i :=
  (EuclideanSpace.proj i).continuous

theorem integrableOn_coord_mul (r : ℝ) (i j : Fin n) :
    IntegrableOn (fun x : 𝔼 n => x i * x j) (closedBall 0 r) :=
  ((continuous_coord i).mul (continuous_coord j)).continuousOn.integrableOn_compact (isCompact_closedBall 0 r)

theorem integrableOn_coord (r : ℝ) (i : Fin n) :
    IntegrableOn (fun x : 𝔼 n => x i) (closedBall 0 r) :=
  (continuous_coord i).continuousOn.integrableOn_compact (isCompact_closedBall 0 r)

/-- sign flips of coordinates keep the norm -/
theorem norm_diagMap_sign (d : Fin n → ℝ) (hd : ∀ i, d i ^ 2 = 1) (x : 𝔼 n) : ‖diagMap d x‖ = ‖x‖ := by
  rw [EuclideanSpace.norm_eq, EuclideanSpace.norm_eq]
  congr 1
  apply Finset.sum_congr rfl
  intro i _
  rw [diagMap_apply, Real.norm_eq_abs, Real.norm_eq_abs, sq_abs, sq_abs, mul_pow, hd i, one_mul]

/-- an integrand that changes sign under the reflection of some coordinates integrates to 0 over a centred ball -/
theorem setIntegral_ball_eq_zero_of_odd (d : Fin n → ℝ) (hd : ∀ i, d i ^ 2 = 1) (r : ℝ) (h : (𝔼 n) → ℝ)
    (hodd : ∀ x, h (diagMap d x) = - h x) : ∫ x in closedBall (0 : 𝔼 n) r, h x = 0 := by
  have hdet : |LinearMap.det (diagMap d)| = 1 := by
    rw [det_diagMap, Finset.abs_prod]
    apply Finset.prod_eq_one
    intro i _
    have := hd i
    rw [← abs_one, ← sq_eq_sq_iff_abs_eq_abs]; simpa using this
  have hne : LinearMap.det (diagMap d) ≠ 0 := by
    intro h0; rw [h0] at hdet; simp at hdet
  have hpre : (diagMap d) ⁻¹' closedBall (0 : 𝔼 n) r = closedBall 0 r := by
    ext x; simp [norm_diagMap_sign d hd]
  have := setIntegral_preimage_linear (diagMap d) hne (closedBall 0 r) h
  rw [hpre, abs_inv, hdet, inv_one, one_mul] at this
  simp only [hodd, integral_neg] at this
  linarith

/-- the single reflection `x_i ↦ -x_i` -/
def flip (i : Fin n) : Fin n → ℝ := fun k => if k = i then -1 else 1

theorem flip_sq (i k : Fin n) : flip i k ^ 2 = 1 := by
  unfold flip; split_ifs <;> norm_num

theorem ball_first_moment (r : ℝ) (i : Fin n) : ∫ x in closedBall (0 : 𝔼 n) r, x i = 0 :=
  setIntegral_ball_eq_zero_of_odd (flip i) (flip_sq i) r _ (fun x => by simp [diagMap_apply, flip])

theorem ball_product_moment (r : ℝ) (i j : Fin n) (hij : i ≠ j) :
    ∫ x in closedBall (0 : 𝔼 n) r, x i * x j = 0 :=
  setIntegral_ball_eq_zero_of_odd (flip i) (flip_sq i) r _
    (fun x => by simp [diagMap_apply, flip, hij.symm])

/-! ### symmetry of the diagonal second moments, and their sum (polar coordinates) -/

theorem ball_sq_moment_swap (r : ℝ) (i j : Fin n) :
    ∫ x in closedBall (0 : 𝔼 n) r, x i ^ 2 = ∫ x in closedBall (0 : 𝔼 n) r, x j ^ 2 := by
  let e : (𝔼 n) ≃ₗᵢ[ℝ] (𝔼 n) := LinearIsometryEquiv.piLpCongrLeft 2 ℝ ℝ (Equiv.swap i j)
  have hpre : e ⁻¹' closedBall (0 : 𝔼 n) r = closedBall 0 r := by
    ext x; simp
  have := e.measurePreserving.setIntegral_preimage_emb e.toHomeomorph.measurableEmbedding
    (fun x => x j ^ 2) (closedBall 0 r)
  rw [hpre] at this
  rw [← this]
  congr 1; funext x
  simp [e, LinearIsometryEquiv.piLpCongrLeft_apply, Equiv.piCongrLeft'_apply]

theorem ball_norm_sq_integral (m : ℕ) (r : ℝ) (hr : 0 ≤ r) :
    ∫ x in closedBall (0 : 𝔼 (m + 1)) r, ‖x‖ ^ 2
      = (m + 1 : ℝ) * volume.real (ball (0 : 𝔼 (m + 1)) 1) * (r ^ (m + 3) / (m + 3)) := by
  set f : ℝ → ℝ := (Set.Iic r).indicator (fun y => y ^ 2) with hf
  have h1 : ∫ x in closedBall (0 : 𝔼 (m + 1)) r, ‖x‖ ^ 2 = ∫ x : 𝔼 (m + 1), f ‖x‖ := by
    rw [← integral_indicator measurableSet_closedBall]
    congr 1; funext x
    by_cases hx : ‖x‖ ≤ r
    · rw [hf, Set.indicator_of_mem (by simpa using hx), Set.indicator_of_mem (by simpa using hx)]
    · rw [hf, Set.indicator_of_notMem (by simpa using hx), Set.indicator_of_notMem (by simpa using hx)]
  rw [h1, integral_fun_norm_addHaar volume f, finrank_euclideanSpace_fin]
  have h2 : ∫ y in Set.Ioi (0 : ℝ), y ^ (m + 1 - 1) • f y = r ^ (m + 3) / (m + 3) := by
    have e : (fun y : ℝ => y ^ (m + 1 - 1) • f y) = (Set.Iic r).indicator (fun y => y ^ (m + 2)) := by
      funext y
      simp only [hf, Set.indicator_apply, Set.mem_Iic, smul_eq_mul, Nat.add_sub_cancel]
      split_ifs
      · ring
      · ring
    rw [e, setIntegral_indicator measurableSet_Iic]
    have : Set.Ioi (0 : ℝ) ∩ Set.Iic r = Set.Ioc 0 r := by ext y; simp
    rw [this, ← intervalIntegral.integral_of_le hr, integral_pow]
    rw [zero_pow (by omega), sub_zero]
    push_cast; ring
  rw [h2]
  simp only [nsmul_eq_mul, smul_eq_mul]
  push_cast; ring

theorem sum_sq_eq_norm_sq (x : 𝔼 n) : ∑ i, x i ^ 2 = ‖x‖ ^ 2 := by
  rw [EuclideanSpace.norm_sq_eq]; simp [sq_abs]

/-- **second moments of the centred ball**: `∫_B x_i² = vol(B₁) r^{n+2}/(n+2)` -/
theorem ball_sq_moment (m : ℕ) (r : ℝ) (hr : 0 ≤ r) (i : Fin (m + 1)) :
    ∫ x in closedBall (0 : 𝔼 (m + 1)) r, x i ^ 2
      = volume.real (ball (0 : 𝔼 (m + 1)) 1) * (r ^ (m + 3) / (m + 3)) := by
  have hsum : ∑ j : Fin (m + 1), ∫ x in closedBall (0 : 𝔼 (m + 1)) r, x j ^ 2
      = ∫ x in closedBall (0 : 𝔼 (m + 1)) r, ‖x‖ ^ 2 := by
    rw [← integral_finsetSum]
    · simp only [sum_sq_eq_norm_sq]
    · intro j _
      have : IntegrableOn (fun x : 𝔼 (m + 1) => x j ^ 2) (closedBall 0 r) := by
        simpa [pow_two] using integrableOn_coord_mul (n := m + 1) r j j
      exact this
  have hconst : ∀ j : Fin (m + 1), ∫ x in closedBall (0 : 𝔼 (m + 1)) r, x j ^ 2
      = ∫ x in closedBall (0 : 𝔼 (m + 1)) r, x i ^ 2 := fun j => ball_sq_moment_swap r j i
  rw [Finset.sum_congr rfl (fun j _ => hconst j), Finset.sum_const, Finset.card_univ, Fintype.card_fin,
    ball_norm_sq_integral m r hr, nsmul_eq_mul] at hsum
  have hm : (0 : ℝ) < ((m + 1 : ℕ) : ℝ) := by positivity
  push_cast at hsum hm
  have h3 : ((m : ℝ) + 1) * (∫ x in closedBall (0 : 𝔼 (m + 1)) r, x i ^ 2)
      = ((m : ℝ) + 1) * (volume.real (ball (0 : 𝔼 (m + 1)) 1) * (r ^ (m + 3) / (m + 3))) := by
    rw [hsum]; ring
  exact mul_left_cancel₀ hm.ne' h3

end C10
