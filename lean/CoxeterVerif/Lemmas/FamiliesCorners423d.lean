import CoxeterVerif.Spec.Families
import CoxeterVerif.Generated.Planes
/-! Corner solid of Family423 on the regenerated table (rhombic dodecahedron at (2,3)); `decide +kernel` over ℤ[√5]. -/
open Fam
set_option maxRecDepth 100000
namespace FamTables
theorem c423_rhombicDodecahedron : Gen.fam423.cornerIs ⟨2, 0⟩ ⟨3, 0⟩ rhombicDodecahedronT = true := by
  decide +kernel
end FamTables
